-- REGENERATED from /repo by harness/extract.py on every run. Do not edit.

namespace PsdVerif.Generated.PixelSamples

/-! api/layers.py `PixelLayer.frompil` -/

/-- the nested `plane(band)`, statement by statement -/
def planeBody : List String := ["if band.mode == '1' and depth != 1: { band = band.convert('L') }", "if psd_file is not None and depth == 16: { return (np.asarray(band).astype('>u2') * 257).tobytes() }", "if psd_file is not None and depth == 32: { return (np.asarray(band).astype('>f4') / 255.0).astype('>f4').tobytes() }", "return band.tobytes()"]
/-- per `depth == N` branch of `plane`: the binary operations with a numeric constant (operator, numerator,
denominator; innermost first), the dtypes of `astype`, every call in source order -/
def planeArith : List (Nat × List (String × Int × Nat) × List String × List String) := [(16, [("Mult", (257 : Int), 1)], ["astype:>u2"], ["np.asarray", "astype", "tobytes"]), (32, [("Div", (255 : Int), 1)], ["astype:>f4", "astype:>f4"], ["np.asarray", "astype", "astype", "tobytes"])]
/-- the top-level `if` statements of the function, in source order -/
def frompilIfs : List String := ["if pil_im.mode == '1': { pil_im = pil_im.convert('L') }", "if pil_im.has_transparency_data: { alpha = pil_im.convert('RGBA').getchannel('A') }", "if psd_file is not None: { pil_im = pil_im.convert(psd_file.pil_mode) } else {  }", "if pil_im.mode == 'CMYK': { pil_im = ImageChops.invert(pil_im) }", "if psd_file is not None: { depth, version = (psd_file.depth, psd_file.version) }", "if alpha is None: { alpha = Image.new('L', pil_im.size, 255) }"]
/-- the depth without a document -/
def depthDefault : String := "get_pil_depth(pil_im.mode.rstrip('A'))"
/-- what is handed to `set_data` (plane | the other arguments) -/
def setDataArgs : List String := ["plane(alpha) | pil_im.width, pil_im.height, depth, version", "plane(pil_im.getchannel(channel_index)) | pil_im.width, pil_im.height, depth, version"]
/-- every inversion (guard, statement) -/
def layerInversions : List (String × String) := [("pil_im.mode == 'CMYK'", "pil_im = ImageChops.invert(pil_im)")]

/-! api/psd_image.py `PSDImage.frompil`, `_make_header` -/

def docFrompil : List String := ["if image.mode == '1': { image = image.convert('L') }", "header = cls._make_header(image.mode, image.size)", "if image.mode == 'CMYK': { image = ImageChops.invert(image) } else { if image.mode in ('La', 'RGBa'): { image = image.convert(image.mode.upper()) } }", "image_data = ImageData(compression=compression)", "image_data.set_data([channel.tobytes() for channel in image.split()], header)", "return cls(PSD(header=header, image_data=image_data, image_resources=ImageResources.new()))"]
def docInversions : List (String × String) := [("image.mode == 'CMYK'", "image = ImageChops.invert(image)")]
def headerDepthDefault : String := "8"
def headerAsserts : List String := ["depth in (8, 16, 32)"]

/-! api/pil_io.py -/

/-- the if / elif chain of `_create_image` -/
def createImage : List String := ["depth == 8: return Image.frombytes('L', size, data, 'raw')", "depth == 16: image = Image.frombytes('I', size, data, 'raw', 'I;16B'); return image.point(lambda x: x * (1.0 / 256.0)).convert('L')", "depth == 32: image = Image.frombytes('F', size, data, 'raw', 'F;32BF'); return image.point(lambda x: x * 256.0).convert('L')", "depth == 1: return Image.frombytes('1', size, data, 'raw', '1;I')", "else: raise ValueError('Unsupported depth: %g' % depth)"]
/-- per depth: `frombytes` mode, raw mode, the lambda of `point` as the linear form PIL makes of it
(scale numerator, denominator, offset numerator, denominator; `(1, 1, 0, 1)` without `point`, `(0, 0, 0, 0)` when it is
not linear), the `convert` target, every call in source order -/
def createRows : List (Nat × String × String × (Int × Nat × Int × Nat) × String × List String) := [(8, "L", "raw", ((1 : Int), 1, (0 : Int), 1), "-", ["Image.frombytes"]), (16, "I", "I;16B", ((1 : Int), 256, (0 : Int), 1), "L", ["Image.frombytes", "point", "convert"]), (32, "F", "F;32BF", ((256 : Int), 1, (0 : Int), 1), "L", ["Image.frombytes", "point", "convert"]), (1, "1", "1;I", ((1 : Int), 1, (0 : Int), 1), "-", ["Image.frombytes"])]
def postProcess : List String := ["if image.mode == 'CMYK': { image = ImageChops.invert(image) }", "if icc_profile: { image = _apply_icc(image, icc_profile) }", "if alpha and image.mode in ('RGB', 'L'): { image.putalpha(alpha) }", "return image"]
def pilInversions : List (String × String) := [("image.mode == 'CMYK'", "image = ImageChops.invert(image)")]
/-- the functions that call `_remove_white_background` -/
def unmatteCallers : List String := ["convert_image_data_to_pil"]
/-- its ImageMath expressions (lambda_eval, eval) -/
def unmatteExprs : List String := ["args['convert'](args['float'](args['x'] + args['a'] - 255) * 255.0 / args['float'](args['max'](args['a'], 1)) * args['float'](args['min'](args['a'], 1)) + args['float'](args['x']) * args['float'](1 - args['min'](args['a'], 1)), 'L')", "convert(float(x + a - 255) * 255.0 / float(max(a, 1)) * float(min(a, 1)) + float(x) * float(1 - min(a, 1)), \"L\")"]
/-- the last statements of the two export functions -/
def layerTail : String := "return post_process(image, alpha, icc)"
def docTail : List String := ["image = post_process(image, alpha, icc)", "return _remove_white_background(image)"]

/-! api/numpy_io.py -/

/-- the if / elif chain of `_parse_array` -/
def parseArray : List String := ["depth == 8: parsed = np.frombuffer(data, '>u1'); if lut is not None: { parsed = lut[parsed] }; return parsed.astype(np.float32) / 255.0", "depth == 16: return np.frombuffer(data, '>u2').astype(np.float32) / 65535.0", "depth == 32: return np.frombuffer(data, '>f4').astype(np.float32)", "depth == 1: return np.unpackbits(np.frombuffer(data, np.uint8)).astype(np.float32)", "else: raise ValueError('Unsupported depth: %g' % depth)"]
/-- per depth: the dtypes of `frombuffer` / `astype`, the binary operations with a constant, every call -/
def parseRows : List (Nat × List String × List (String × Int × Nat) × List String) := [(8, ["frombuffer:>u1", "astype:np.float32"], [("Div", (255 : Int), 1)], ["np.frombuffer", "astype"]), (16, ["frombuffer:>u2", "astype:np.float32"], [("Div", (65535 : Int), 1)], ["np.frombuffer", "astype"]), (32, ["frombuffer:>f4", "astype:np.float32"], [], ["np.frombuffer", "astype"]), (1, ["frombuffer:np.uint8", "astype:np.float32"], [], ["np.frombuffer", "np.unpackbits", "astype"])]
def removeBackground : List String := ["if psd.color_mode == ColorMode.RGB and data.shape[2] > 3 and has_transparency(psd): { color = data[:, :, :3]; index = get_transparency_index(psd) % data.shape[2]; alpha = data[:, :, index:index + 1]; a = np.repeat(alpha, color.shape[2], axis=2); color[a > 0] = (color + alpha - 1)[a > 0] / a[a > 0]; data[:, :, :3] = color }", "return data"]
/-- every `constant - x` / `invert` of the module -/
def numpyConstMinus : List String := []
/-- the calls that decode stored planes (function: call): which depth and file version they pass -/
def pilGetData : List String := ["convert_image_data_to_pil: psd._record.image_data.get_data(psd._record.header)", "_get_channel: channel_data.get_data(width, height, depth, layer._psd.version)"]
def numpyGetData : List String := ["get_image_data: psd._record.image_data.get_data(psd._record.header, False)", "_find_channel: data.get_data(width, height, depth, version)"]

end PsdVerif.Generated.PixelSamples
