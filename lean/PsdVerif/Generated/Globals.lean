-- REGENERATED from /repo by harness/extract.py on every run. Do not edit.
import PsdVerif.Model.Globals
namespace PsdVerif.Generated.Globals
open PsdVerif.Globals
/-- module-level / class-level state of src/psd_tools with its run-time writers and readers -/
def cells : List Cell := [
  { name := "psd_tools.api.adjustments:TYPES", kind := .registry, writtenAtRuntime := false, readObservably := true },
  { name := "psd_tools.api.effects:_TYPES", kind := .registry, writtenAtRuntime := false, readObservably := true },
  { name := "psd_tools.api.numpy_io:EXPECTED_CHANNELS", kind := .moduleMutable, writtenAtRuntime := false, readObservably := true },
  { name := "psd_tools.api.shape:Stroke.STROKE_STYLE_LINE_ALIGNMENTS", kind := .classMutable, writtenAtRuntime := false, readObservably := true },
  { name := "psd_tools.api.shape:Stroke.STROKE_STYLE_LINE_CAP_TYPES", kind := .classMutable, writtenAtRuntime := false, readObservably := true },
  { name := "psd_tools.api.shape:Stroke.STROKE_STYLE_LINE_JOIN_TYPES", kind := .classMutable, writtenAtRuntime := false, readObservably := true },
  { name := "psd_tools.composite.blend:BLEND_FUNC", kind := .moduleMutable, writtenAtRuntime := false, readObservably := true },
  { name := "psd_tools.psd.adjustments:ADJUSTMENT_TYPES", kind := .registry, writtenAtRuntime := false, readObservably := false },
  { name := "psd_tools.psd.descriptor:TYPES", kind := .registry, writtenAtRuntime := false, readObservably := true },
  { name := "psd_tools.psd.effects_layer:EffectsLayer.EFFECT_TYPES", kind := .classMutable, writtenAtRuntime := false, readObservably := true },
  { name := "psd_tools.psd.engine_data:TOKEN_CLASSES", kind := .registry, writtenAtRuntime := false, readObservably := true },
  { name := "psd_tools.psd.image_resources:TYPES", kind := .registry, writtenAtRuntime := false, readObservably := true },
  { name := "psd_tools.psd.tagged_blocks:MetadataSetting._KNOWN_KEYS", kind := .classMutable, writtenAtRuntime := false, readObservably := true },
  { name := "psd_tools.psd.tagged_blocks:TYPES", kind := .registry, writtenAtRuntime := false, readObservably := true },
  { name := "psd_tools.psd.tagged_blocks:TaggedBlock._BIG_KEYS", kind := .classMutable, writtenAtRuntime := false, readObservably := true },
  { name := "psd_tools.psd.vector:TYPES", kind := .registry, writtenAtRuntime := false, readObservably := true }
]
/-- `attr.ib(default=<mutable>)` occurrences (a default object shared by all instances) -/
def sharedDefaults : List String := []
end PsdVerif.Generated.Globals
