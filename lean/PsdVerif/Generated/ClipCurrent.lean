-- REGENERATED from /repo by harness/extract.py on every run. Do not edit.
import PsdVerif.Model.ClipState
namespace PsdVerif.Generated.ClipCurrent
open PsdVerif.ClipState

/-- Every public method of the API classes whose flattened body changes an input of the clipping relation
    (children lists, clipping flag, blend mode of a record or divider block, compatibility mode) or assigns the
    stored relation: its straight-line segments, each a list of effects (see harness/extract_c15.py). -/
def table : Table :=
  { init := [.mutate "self" "_layers=" [], .mutate "self" "_compatibility_mode" [], .mutate "layer" "_record" ["g1:divider is not None and divider.kind is not SectionDivider.OTHER", "g2:not(divider.kind == SectionDivider.BOUNDING_SECTION_DIVIDER)", "g3:divider.kind in (SectionDivider.OPEN_FOLDER, SectionDivider.CLOSED_FOLDER)"], .mutate "self" "_layers=" ["g1:divider is not None and divider.kind is not SectionDivider.OTHER", "g2:not(divider.kind == SectionDivider.BOUNDING_SECTION_DIVIDER)", "g3:divider.kind in (SectionDivider.OPEN_FOLDER, SectionDivider.CLOSED_FOLDER)", "g4:key in record.tagged_blocks"], .mutate "self.parent" "_layers[]=" ["g1:divider is not None and divider.kind is not SectionDivider.OTHER", "g2:not(divider.kind == SectionDivider.BOUNDING_SECTION_DIVIDER)", "g3:divider.kind in (SectionDivider.OPEN_FOLDER, SectionDivider.CLOSED_FOLDER)", "g4:key in record.tagged_blocks", "g5:layer == self.parent[index]"], .mutate "current_group" "_layers.append" ["g11:not end_of_group"], .recomp "self" []],
    rows := [
    ⟨"Group.blend_mode.setter", [[.mutate "self" "blend_mode" ["g1:_value == BlendMode.PASS_THROUGH"], .mutate "self" "blend_mode" ["g1:not(_value == BlendMode.PASS_THROUGH)"], .mutate "self" "blend_mode" ["g2:self._setting is not None"], .recomp "self" []]]⟩,
    ⟨"Group.new", [[.mutate "group.parent" "_layers.remove" ["g1:parent is not None and isinstance(parent, GroupMixin)", "g3:group.parent is not None and isinstance(group.parent, GroupMixin)", "g4:group in group.parent"], .recomp "group.parent" ["g1:parent is not None and isinstance(parent, GroupMixin)", "g3:group.parent is not None and isinstance(group.parent, GroupMixin)", "g4:group in group.parent"], .mutate "parent" "_layers.extend" ["g1:parent is not None and isinstance(parent, GroupMixin)"], .recomp "parent" ["g1:parent is not None and isinstance(parent, GroupMixin)"]]]⟩,
    ⟨"Group.group_layers", [[.mutate "layer.parent" "_layers.remove" ["g5:layer.parent is not None and isinstance(layer.parent, GroupMixin)", "g6:layer in layer.parent"], .recomp "layer.parent" ["g5:layer.parent is not None and isinstance(layer.parent, GroupMixin)", "g6:layer in layer.parent"], .mutate "group" "_layers.extend" [], .recomp "group" []],
      [.mutate "layers[0].parent" "_layers.extend" ["g27:isinstance(layers[0].parent, GroupMixin)"], .recomp "layers[0].parent" ["g27:isinstance(layers[0].parent, GroupMixin)"]]]⟩,
    ⟨"GroupMixin.__setitem__", [[.mutate "self" "_layers.__setitem__" [], .recomp "self" []]]⟩,
    ⟨"GroupMixin.__delitem__", [[.mutate "self" "_layers.__delitem__" [], .recomp "self" []]]⟩,
    ⟨"GroupMixin.append", [[.mutate "self" "_layers.extend" [], .recomp "self" []]]⟩,
    ⟨"GroupMixin.extend", [[.mutate "self" "_layers.extend" [], .recomp "self" []]]⟩,
    ⟨"GroupMixin.insert", [[.mutate "self" "_layers.insert" [], .recomp "self" []]]⟩,
    ⟨"GroupMixin.remove", [[.mutate "self" "_layers.remove" [], .recomp "self" []]]⟩,
    ⟨"GroupMixin.pop", [[.mutate "self" "_layers.pop" [], .recomp "self" []]]⟩,
    ⟨"GroupMixin.clear", [[.mutate "self" "_layers.clear" [], .recomp "self" []]]⟩,
    ⟨"Layer.blend_mode.setter", [[.mutate "self" "blend_mode" [], .recomp "self" []]]⟩,
    ⟨"Layer.clipping_layer.setter", [[.mutate "self" "clipping" [], .recomp "self" []]]⟩,
    ⟨"Layer.delete_layer", [[.mutate "self.parent" "_layers.remove" ["g1:self.parent is not None and isinstance(self.parent, GroupMixin)", "g2:self in self.parent"], .recomp "self.parent" ["g1:self.parent is not None and isinstance(self.parent, GroupMixin)", "g2:self in self.parent"], .recomp "self.parent" ["g1:self.parent is not None and isinstance(self.parent, GroupMixin)"]]]⟩,
    ⟨"Layer.move_to_group", [[.mutate "self.parent" "_layers.remove" ["g2:self.parent is not None and isinstance(self.parent, GroupMixin)", "g3:self in self.parent"], .recomp "self.parent" ["g2:self.parent is not None and isinstance(self.parent, GroupMixin)", "g3:self in self.parent"], .mutate "group" "_layers.extend" [], .recomp "group" []]]⟩,
    ⟨"Layer.move_up", [[.mutate "self.parent" "_layers.remove" [], .recomp "self.parent" [], .mutate "self.parent" "_layers.insert" [], .recomp "self.parent" []]]⟩,
    ⟨"Layer.move_down", [[.mutate "self.parent" "_layers.remove" [], .recomp "self.parent" [], .mutate "self.parent" "_layers.insert" [], .recomp "self.parent" []]]⟩,
    ⟨"PSDImage.compatibility_mode.setter", [[.mutate "self" "_compatibility_mode" [], .recomp "self" []]]⟩],
    clearIter := .all }

/-- the iteration of `_clear_clipping_layers` as written -/
def clearIterSrc : String := "self.descendants()"
/-- the top-level statements of `_compute_clipping_layers` (first line of each) -/
def computeBody : List String := ["self._clear_clipping_layers()", "def rec_helper", "rec_helper(self)"]
/-- `GroupMixin.descendants` without its docstring -/
def descendantsBody : String := "for layer in self:\n    if not include_clip and layer.clipping_layer:\n        continue\n    yield layer\n    if isinstance(layer, GroupMixin):\n        for child in layer.descendants(include_clip):\n            yield child"

end PsdVerif.Generated.ClipCurrent
