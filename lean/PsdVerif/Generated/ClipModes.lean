-- REGENERATED from /repo by harness/extract.py on every run. Do not edit.
namespace PsdVerif.Generated.ClipModes

/-- members of `constants.CompatibilityMode` (aliases included) with their values -/
def members : List (String × Nat) := [("PHOTOSHOP", 1), ("PAINT_TOOL_SAI", 2), ("CLIP_STUDIO_PAINT", 3), ("GIMP", 4), ("KRITA", 5), ("DEFAULT", 1)]
/-- modes compared with `self.compatibility_mode` in `rec_helper` (any of them makes a pass-through layer ineligible) -/
def modesTested : List String := ["PAINT_TOOL_SAI", "CLIP_STUDIO_PAINT"]
/-- blend modes compared with `sublayer.blend_mode` in `rec_helper` -/
def blendTested : List String := ["PASS_THROUGH"]
/-- the first test of the loop body -/
def firstTest : String := "sublayer.clipping_layer"
/-- the loop runs over `reversed(layer._layers)` (top of the group first) -/
def iteratesReversed : Bool := true
/-- `rec_helper` calls itself on every sublayer -/
def recurses : Bool := true
/-- assignments of `_clear_clipping_layers` -/
def clearAssignments : List String := ["layer._clip_layers = []", "layer._has_clip_target = True"]

end PsdVerif.Generated.ClipModes
