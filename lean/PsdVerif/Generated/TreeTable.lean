-- REGENERATED from /repo by harness/extract.py on every run. Do not edit.
import PsdVerif.Model.TreeTable
namespace PsdVerif.Generated.TreeTable
open PsdVerif.TreeTable

/-- Every public method of the API classes whose flattened body makes a raw mutation of a children list: its
    segments (a loop body is a segment of its own), each a list of steps in source order (see harness/extract_c10.py),
    and what the three helpers do. -/
def table : Table :=
  { rows := [
    ⟨"Group.new", [
      .line [.alloc "group_1" [],
        .test 1 (.and (.notNone (.var "parent")) (.isGroup (.var "parent"))) [],
        .assert (.isGroup (.var "parent")) [] [(1, true)],
        .assert (.ne (.var "parent") (.var "group_1")) [] [(1, true)],
        .test 2 (.isGroup (.var "group_1")) [(1, true)],
        .assert (.not (.under (.var "parent") (.var "group_1"))) [.var "group_1", .var "parent"] [(1, true), (2, true)],
        .test 3 (.and (.notNone (.parent (.var "group_1"))) (.isGroup (.parent (.var "group_1")))) [(1, true)],
        .test 4 (.listedIn (.var "group_1") (.parent (.var "group_1"))) [(1, true), (3, true)],
        .mutate (.parent (.var "group_1")) (.remove (.var "group_1")) [(1, true), (3, true), (4, true)],
        .dirty (.parent (.var "group_1")) [(1, true), (3, true), (4, true)],
        .assert (.ne (.var "group_1") (.var "parent")) [] [(1, true)],
        .mat "layers_2" (.single (.var "group_1")) "[group_1]" [(1, true)],
        .validate (.var "parent") (.list "layers_2") [(1, true)],
        .mutate (.var "parent") (.extend (.list "layers_2")) [(1, true)],
        .refresh (.var "parent") [(1, true)],
        .dirty (.var "parent") [(1, true)]]], "group_1"⟩,
    ⟨"Group.group_layers", [
      .line [.assert (.nonEmpty "layers") [] [],
        .test 1 (.and (.not (.notNone (.var "parent"))) (.and (.isGroup (.parent (.first "layers"))) (.listedIn (.first "layers") (.parent (.first "layers"))))) [],
        .bind "parent_1" (.parent (.first "layers")) "parent" [(1, true)]],
      .loop "layer" "layers" [.assert (.isLayer (.var "layer")) [] []],
      .line [.test 2 (.isGroup (.var "parent_1")) [],
        .validate (.var "parent_1") (.list "layers") [(2, true)],
        .alloc "group_2" []],
      .loop "layer" "layers" [.assert (.isGroup (.var "group_2")) [] [],
        .assert (.ne (.var "group_2") (.var "layer")) [] [],
        .test 4 (.isGroup (.var "layer")) [],
        .assert (.not (.under (.var "group_2") (.var "layer"))) [.var "layer", .var "group_2"] [(4, true)],
        .test 5 (.and (.notNone (.parent (.var "layer"))) (.isGroup (.parent (.var "layer")))) [],
        .test 6 (.listedIn (.var "layer") (.parent (.var "layer"))) [(5, true)],
        .mutate (.parent (.var "layer")) (.remove (.var "layer")) [(5, true), (6, true)],
        .dirty (.parent (.var "layer")) [(5, true), (6, true)],
        .assert (.ne (.var "layer") (.var "group_2")) [] [],
        .mat "layers_3" (.single (.var "layer")) "[layer]" [],
        .validate (.var "group_2") (.list "layers_3") [],
        .mutate (.var "group_2") (.extend (.list "layers_3")) [],
        .refresh (.var "group_2") [],
        .dirty (.var "group_2") []],
      .line [.test 7 (.isGroup (.var "parent_1")) [],
        .assert (.ne (.var "group_2") (.var "parent_1")) [] [(7, true)],
        .mat "layers_4" (.single (.var "group_2")) "[group_2]" [(7, true)],
        .validate (.var "parent_1") (.list "layers_4") [(7, true)],
        .mutate (.var "parent_1") (.extend (.list "layers_4")) [(7, true)],
        .refresh (.var "parent_1") [(7, true)],
        .dirty (.var "parent_1") [(7, true)]]], "group_2"⟩,
    ⟨"GroupMixin.__setitem__", [
      .line [.test 1 (.isSlice "key") [],
        .mat "value_1" (.list "value") "value" [(1, true)],
        .validate (.var "self") (.sliceOr "key" "value_1") [],
        .mutate (.var "self") (.setitem "key" "value_1") [],
        .refresh (.var "self") [],
        .dirty (.var "self") []]], ""⟩,
    ⟨"GroupMixin.__delitem__", [
      .line [.mutate (.var "self") (.delitem "key") [],
        .dirty (.var "self") []]], ""⟩,
    ⟨"GroupMixin.append", [
      .line [.assert (.ne (.var "layer") (.var "self")) [] [],
        .mat "layers_1" (.single (.var "layer")) "[layer]" [],
        .validate (.var "self") (.list "layers_1") [],
        .mutate (.var "self") (.extend (.list "layers_1")) [],
        .refresh (.var "self") [],
        .dirty (.var "self") []]], ""⟩,
    ⟨"GroupMixin.extend", [
      .line [.mat "layers_1" (.list "layers") "layers" [],
        .validate (.var "self") (.list "layers_1") [],
        .mutate (.var "self") (.extend (.list "layers_1")) [],
        .refresh (.var "self") [],
        .dirty (.var "self") []]], ""⟩,
    ⟨"GroupMixin.insert", [
      .line [.validate (.var "self") (.single (.var "layer")) [],
        .mutate (.var "self") (.insert "index" (.var "layer")) [],
        .refresh (.var "self") [],
        .dirty (.var "self") []]], ""⟩,
    ⟨"GroupMixin.remove", [
      .line [.mutate (.var "self") (.remove (.var "layer")) [],
        .dirty (.var "self") []]], "self"⟩,
    ⟨"GroupMixin.pop", [
      .line [.mutate (.var "self") (.pop "index") [],
        .dirty (.var "self") []]], "popped_"⟩,
    ⟨"GroupMixin.clear", [
      .line [.mutate (.var "self") (.clear) [],
        .dirty (.var "self") []]], ""⟩,
    ⟨"Layer.delete_layer", [
      .line [.test 1 (.and (.notNone (.parent (.var "self"))) (.isGroup (.parent (.var "self")))) [],
        .test 2 (.listedIn (.var "self") (.parent (.var "self"))) [(1, true)],
        .mutate (.parent (.var "self")) (.remove (.var "self")) [(1, true), (2, true)],
        .dirty (.parent (.var "self")) [(1, true), (2, true)],
        .dirty (.parent (.var "self")) [(1, true)],
        .repr [.var "self"] [(1, false)]]], "self"⟩,
    ⟨"Layer.move_to_group", [
      .line [.assert (.isGroup (.var "group")) [] [],
        .assert (.ne (.var "group") (.var "self")) [] [],
        .test 1 (.isGroup (.var "self")) [],
        .assert (.not (.under (.var "group") (.var "self"))) [.var "self", .var "group"] [(1, true)],
        .test 2 (.and (.notNone (.parent (.var "self"))) (.isGroup (.parent (.var "self")))) [],
        .test 3 (.listedIn (.var "self") (.parent (.var "self"))) [(2, true)],
        .mutate (.parent (.var "self")) (.remove (.var "self")) [(2, true), (3, true)],
        .dirty (.parent (.var "self")) [(2, true), (3, true)],
        .assert (.ne (.var "self") (.var "group")) [] [],
        .mat "layers_1" (.single (.var "self")) "[self]" [],
        .validate (.var "group") (.list "layers_1") [],
        .mutate (.var "group") (.extend (.list "layers_1")) [],
        .refresh (.var "group") [],
        .dirty (.var "group") []]], "self"⟩,
    ⟨"Layer.move_up", [
      .line [.assert (.and (.notNone (.parent (.var "self"))) (.isGroup (.parent (.var "self")))) [] [],
        .index (.parent (.var "self")) (.var "self") [],
        .mutate (.parent (.var "self")) (.remove (.var "self")) [],
        .dirty (.parent (.var "self")) [],
        .validate (.parent (.var "self")) (.single (.var "self")) [],
        .mutate (.parent (.var "self")) (.insert "newindex" (.var "self")) [],
        .refresh (.parent (.var "self")) [],
        .dirty (.parent (.var "self")) []]], "self"⟩,
    ⟨"Layer.move_down", [
      .line [.assert (.and (.notNone (.parent (.var "self"))) (.isGroup (.parent (.var "self")))) [] [],
        .index (.parent (.var "self")) (.var "self") [],
        .mutate (.parent (.var "self")) (.remove (.var "self")) [],
        .dirty (.parent (.var "self")) [],
        .validate (.parent (.var "self")) (.single (.var "self")) [],
        .mutate (.parent (.var "self")) (.insert "newindex" (.var "self")) [],
        .refresh (.parent (.var "self")) [],
        .dirty (.parent (.var "self")) []]], "self"⟩],
    check := { isLayer := true, notSelf := true, noLoop := true, exact := true },
    refresh := { psdOver := .descendants, psdCond := .differs, parentOver := .children, clearsBoxes := true },
    dirty := { marks := true } }

/-- `_check_valid_layers`, `_update_layer_metadata`, `_update_psd_record` without their docstrings -/
def checkSrc : String := "assert layers is not self, 'Cannot add the group {} to itself.'.format(self)\nif isinstance(layers, Layer):\n    layers = [layers]\nfor layer in layers:\n    assert isinstance(layer, Layer)\n    assert layer is not self, 'Cannot add the group {} to itself.'.format(self)\n    if isinstance(layer, GroupMixin):\n        assert self not in list(layer.descendants()), 'This operation would create a reference loop within the group between {} and {}.'.format(self, layer)"
def refreshSrc : String := "from psd_tools.api.psd_image import PSDImage\n_psd: PSDImage | None = self if isinstance(self, PSDImage) else self._psd\nfor layer in self.descendants():\n    if layer._psd != _psd and _psd is not None:\n        if isinstance(layer, PixelLayer):\n            layer._convert(_psd)\n        elif isinstance(layer, ShapeLayer):\n            layer._bbox = None\n        layer._fetch_tagged_blocks(_psd)\n        layer._psd = _psd\n        if hasattr(layer, '_effects'):\n            del layer._effects\n    if isinstance(layer, GroupMixin):\n        layer._bbox = None\nfor layer in self._layers[:]:\n    layer._parent = self"
def dirtySrc : String := "from psd_tools.api.psd_image import PSDImage\npsd = self if isinstance(self, PSDImage) else self._psd\nif psd is not None:\n    psd._updated_layers = True\n    psd._compute_clipping_layers()\nself._invalidate_bbox()"

end PsdVerif.Generated.TreeTable
