/-
C01 (descriptors) — every constructible descriptor value survives write → read, and re-writes identically.

Model: `Model/Descriptor.lean` (all of psd/descriptor.py: the 25 classes registered in `TYPES`,
`DescriptorBlock`, `DescriptorBlock2`). Property theorems only; lemmas are in `Lemmas/Descriptor*.lean`.

Reading guide
* `tb : Tables` are the three tables the code consults (`_TERMS`, `Unit`, `Enum`); the theorems hold for
  any tables, `realTables` are the ones regenerated from the source on this run.
* `enc tb v` is `v.tobytes()` (the value without its OSType; the enclosing container writes the OSType),
  `dec tb v.tag` is `type(v).frombytes` / `.read(fp)` at a cursor, `decTagged` reads OSType + value.
* `WF` (Model/Descriptor.lean): keys satisfy `Key.WF` (C20), strings have no adjacent surrogate pair (C19),
  the unit of a unit float is a member of `Unit`/`Enum`, a `dict` holds each key once, the validators of the
  block versions. On-disk widths are not in `WF`: they are the hypothesis `enc tb v = .ok bs`.
* doubles are their 64-bit patterns; "equal" is equality of patterns (Python's `==` is false on NaN).
-/
import PsdVerif.Lemmas.Descriptor3
import PsdVerif.Lemmas.Descriptor4
import PsdVerif.Lemmas.CodecPsd1

namespace PsdVerif.C01Descriptor
open PsdVerif PsdVerif.Codec PsdVerif.Descriptor

/-! ### the value classes -/

/-- every value of every class: what the class's reader returns on the written bytes, anywhere in a stream,
is the value, and the cursor is at the end of the written bytes -/
theorem descriptor_roundtrip (tb : Tables) (v : DVal) (hwf : WF tb v) (bs pre post : B) (henc : enc tb v = .ok bs) :
    dec tb v.tag (pre ++ bs ++ post) pre.length = .ok (v, pre.length + bs.length) := by
  obtain ⟨hf, rfl⟩ := enc_ok henc
  exact (dec_at hwf hf (At.intro_rest pre _ post)).1

/-- the same for an item as a container stores it: OSType, then the value (`TYPES` dispatch) -/
theorem descriptor_item_roundtrip (tb : Tables) (v : DVal) (hwf : WF tb v) (bs pre post : B) (henc : enc tb v = .ok bs) :
    decTagged tb (pre ++ (v.tag.bytes ++ bs) ++ post) pre.length = .ok (v, pre.length + (v.tag.bytes ++ bs).length) := by
  obtain ⟨hf, rfl⟩ := enc_ok henc
  have h : At (pre ++ (v.tag.bytes ++ encT tb v) ++ post) pre.length (v.tag.bytes ++ (encT tb v ++ post)) :=
    ⟨pre, [], by simp, rfl⟩
  obtain ⟨r0, h⟩ := readTag_step h
  unfold decTagged tagged
  rw [rbind_ok r0]
  have h1 := need_le tb v
  have h2 := h.left.bound
  rw [(decBody_val tb v _ _ _ post hwf hf (by omega) h).1]
  simp only [List.length_append, Tag.length_bytes, Nat.add_assoc]

/-- what is read back is written again as the same bytes -/
theorem descriptor_rewrite_identical (tb : Tables) (v : DVal) (hwf : WF tb v) (bs : B) (henc : enc tb v = .ok bs)
    (v' : DVal) (n : Nat) (hread : dec tb v.tag bs 0 = .ok (v', n)) : enc tb v' = .ok bs := by
  have h := descriptor_roundtrip tb v hwf bs [] [] henc
  simp only [List.nil_append, List.append_nil, List.length_nil] at h
  rw [h] at hread
  cases hread
  exact henc

/-- the byte count `write` returns is the number of bytes it emitted (every `written +=` of the methods) -/
theorem written_is_length (tb : Tables) (v : DVal) (bs : B) (henc : enc tb v = .ok bs) :
    encW tb v = (bs, bs.length) := by
  obtain ⟨_, rfl⟩ := enc_ok henc
  exact encW_eq tb v

/-- the writer rejects (struct.error), it never corrupts -/
theorem descriptor_enc_rejects (tb : Tables) (v : DVal) (e : Err) (h : enc tb v = .error e) : e = .structError := by
  unfold enc at h
  split at h
  · cases h
  · cases h; rfl

/-- the reader's recursion through `TYPES` is modelled on fuel; `dec` supplies enough of it for every stream:
from a cursor inside the stream it never reports `recursionError` (the model's "out of fuel") — on any bytes,
well-formed or not -/
theorem dec_never_out_of_fuel (tb : Tables) (t : Tag) (d : B) (p : Nat) (hp : p ≤ d.length) :
    dec tb t d p ≠ .error .recursionError := by
  have h := good_dec tb d t p (Nat.zero_le _) hp
  unfold OkAt at h
  unfold dec
  intro he
  rw [he] at h
  exact h rfl

/-- whatever the reader accepts, the cursor moved forward and stayed inside the stream -/
theorem dec_cursor_bounds (tb : Tables) (t : Tag) (d : B) (p : Nat) (hp : p ≤ d.length) (v : DVal) (p' : Nat)
    (h : dec tb t d p = .ok (v, p')) : p ≤ p' ∧ p' ≤ d.length := by
  have hg := good_dec tb d t p (Nat.zero_le _) hp
  unfold OkAt at hg
  unfold dec at h
  rw [h] at hg
  exact hg

/-! ### the block wrappers -/

/-- `DescriptorBlock`: the reader returns the block and stops where the body ends; the writer's filler
(`write_padding(fp, written, padding)`) is all that follows -/
theorem descriptor_block_roundtrip (tb : Tables) (pad : Nat) (b : Block) (hwf : b.WF tb) (bs pre post : B)
    (henc : b.enc tb pad = .ok bs) :
    Block.dec tb (pre ++ bs ++ post) pre.length = .ok (b, pre.length + b.bodyLen tb) ∧
      b.bodyLen tb + padAmount (b.bodyLen tb) pad = bs.length := by
  obtain ⟨hf, rfl⟩ := Block.enc_ok henc
  exact ⟨Block.dec_at hwf hf (At.intro pre _ post), (Block.length_encT tb pad b).symm⟩

theorem descriptor_block2_roundtrip (tb : Tables) (pad : Nat) (b : Block2) (hwf : b.WF tb) (bs pre post : B)
    (henc : b.enc tb pad = .ok bs) :
    Block2.dec tb (pre ++ bs ++ post) pre.length = .ok (b, pre.length + b.bodyLen tb) ∧
      b.bodyLen tb + padAmount (b.bodyLen tb) pad = bs.length := by
  obtain ⟨hf, rfl⟩ := Block2.enc_ok henc
  exact ⟨Block2.dec_at hwf hf (At.intro pre _ post), (Block2.length_encT tb pad b).symm⟩

theorem descriptor_block_rewrite_identical (tb : Tables) (pad : Nat) (b : Block) (hwf : b.WF tb) (bs : B)
    (henc : b.enc tb pad = .ok bs) (b' : Block) (n : Nat) (hread : Block.dec tb bs 0 = .ok (b', n)) :
    b'.enc tb pad = .ok bs := by
  have h := (descriptor_block_roundtrip tb pad b hwf bs [] [] henc).1
  simp only [List.nil_append, List.append_nil, List.length_nil] at h
  rw [h] at hread
  cases hread
  exact henc

theorem descriptor_block2_rewrite_identical (tb : Tables) (pad : Nat) (b : Block2) (hwf : b.WF tb) (bs : B)
    (henc : b.enc tb pad = .ok bs) (b' : Block2) (n : Nat) (hread : Block2.dec tb bs 0 = .ok (b', n)) :
    b'.enc tb pad = .ok bs := by
  have h := (descriptor_block2_roundtrip tb pad b hwf bs [] [] henc).1
  simp only [List.nil_append, List.append_nil, List.length_nil] at h
  rw [h] at hread
  cases hread
  exact henc

theorem block_written_is_length (tb : Tables) (pad : Nat) (b : Block) (bs : B) (henc : b.enc tb pad = .ok bs) :
    b.encW tb pad = (bs, bs.length) := by
  obtain ⟨_, rfl⟩ := Block.enc_ok henc
  exact Block.encW_eq tb pad b

theorem block2_written_is_length (tb : Tables) (pad : Nat) (b : Block2) (bs : B) (henc : b.enc tb pad = .ok bs) :
    b.encW tb pad = (bs, bs.length) := by
  obtain ⟨_, rfl⟩ := Block2.enc_ok henc
  exact Block2.encW_eq tb pad b

/-! ### a descriptor block as the payload of a tagged block (composition with the file skeleton of Props/C01.lean)

`TaggedBlock.write` emits `data.write(f, padding = 1 if padding == 4 else 4)` inside a length block;
`TaggedBlock.read` takes the length block and calls `kls.frombytes(raw_data)`, i.e. runs the payload reader from
position 0 of its own `BytesIO`. In the skeleton model the payload is the byte string `t.data`. -/

theorem tagged_block_descriptor_payload_roundtrip (tb : Tables) (v pad : Nat) (hp : pad = 1 ∨ pad = 2 ∨ pad = 4)
    (t : Psd.TaggedBlock) (hwf : t.WF v) (b : Block) (hb : b.WF tb)
    (henc : b.enc tb (if pad = 4 then 1 else 4) = .ok t.data) (pre post : B) :
    Psd.TaggedBlock.dec v pad (pre ++ t.encT v pad ++ post) pre.length = .ok (some t, pre.length + (t.encT v pad).length) ∧
      Block.dec tb t.data 0 = .ok (b, b.bodyLen tb) := by
  refine ⟨Psd.TaggedBlock.dec_at hp hwf (At.intro pre _ post), ?_⟩
  simpa using (descriptor_block_roundtrip tb _ b hb t.data [] [] henc).1

theorem tagged_block_descriptor2_payload_roundtrip (tb : Tables) (v pad : Nat) (hp : pad = 1 ∨ pad = 2 ∨ pad = 4)
    (t : Psd.TaggedBlock) (hwf : t.WF v) (b : Block2) (hb : b.WF tb)
    (henc : b.enc tb (if pad = 4 then 1 else 4) = .ok t.data) (pre post : B) :
    Psd.TaggedBlock.dec v pad (pre ++ t.encT v pad ++ post) pre.length = .ok (some t, pre.length + (t.encT v pad).length) ∧
      Block2.dec tb t.data 0 = .ok (b, b.bodyLen tb) := by
  refine ⟨Psd.TaggedBlock.dec_at hp hwf (At.intro pre _ post), ?_⟩
  simpa using (descriptor_block2_roundtrip tb _ b hb t.data [] [] henc).1

/-! ### ties to the regenerated tables -/

/-- the model's OSType → class table is `descriptor.TYPES` of the working tree -/
theorem types_tied :
    (∀ x ∈ modelTypes, x ∈ Generated.Descriptor.types) ∧ (∀ x ∈ Generated.Descriptor.types, x ∈ modelTypes) ∧
      Generated.Descriptor.types.length = 25 := by decide +kernel

/-- every member of `OSType` has a class (`TYPES.get(ostype)` is never `None`): an unknown OSType is a
`ValueError` from `OSType(…)`, there is no `AttributeError` path -/
theorem ostypes_all_registered : Generated.Descriptor.osTypes = Generated.Descriptor.types.map (·.1) := by
  decide +kernel

theorem tags_complete : (∀ t : Tag, t ∈ Tag.all) ∧ (Tag.all.map Tag.bytes).Nodup := by
  refine ⟨?_, by decide +kernel⟩
  intro t; cases t <;> decide

/-- `Unit` and `Enum` values are 4 bytes long and the two enums share no value: for the regenerated tables the
width clause and the (F) clause of `UnitWF` follow from membership -/
theorem unit_enum_tables :
    (∀ b ∈ Generated.Descriptor.unitValues, b.length = 4) ∧ (∀ b ∈ Generated.Descriptor.enumValues, b.length = 4) ∧
      (∀ b ∈ Generated.Descriptor.enumValues, b ∉ Generated.Descriptor.unitValues) := by decide +kernel

/-- with the regenerated tables `UnitWF` says: the unit is a member of the enum it claims -/
theorem unitWF_real_iff (u : UnitRef) :
    UnitWF realTables u ↔
      (if u.isUnit then u.code ∈ Generated.Descriptor.unitValues else u.code ∈ Generated.Descriptor.enumValues) := by
  obtain ⟨h1, h2, h3⟩ := unit_enum_tables
  obtain ⟨c, b⟩ := u
  cases c <;> simp only [UnitWF, realTables, List.contains_iff_mem, Bool.false_eq_true, if_false, if_true]
  · constructor
    · intro h; exact h.2.1
    · intro h; exact ⟨h2 b h, h, by simpa using h3 b h⟩
  · constructor
    · intro h; exact h.2
    · intro h; exact ⟨h1 b h, h⟩

/-- the `in_((16,))` validators; `DescriptorBlock2.version` has none -/
theorem block_versions_tied :
    Generated.Descriptor.blockVersions = [16] ∧ Generated.Descriptor.block2DataVersions = [16] ∧
      Generated.Descriptor.block2VersionValidated = false := by decide

/-- every `struct` format literal of descriptor.py is the one the model implements -/
theorem formats_tied : Generated.Descriptor.formats = modelFormats := by decide +kernel

/-- `RawData` uses the defaults of read/write_length_block (fmt "I", padding 1); unicode strings are written
with padding 1 or the default (1) -/
theorem length_block_and_padding_tied :
    Generated.Descriptor.lengthBlockCalls =
      [("RawData", "read", "read_length_block", ""), ("RawData", "write", "write_length_block", "")] ∧
    Generated.Descriptor.unicodePaddings = ["1", "default"] := by decide +kernel

/-- `KeyWF` is the key well-formedness of C20 -/
theorem keyWF_is_globals (tb : Tables) (k : Key) : KeyWF tb k ↔ Globals.Key.WF tb.terms k := Iff.rfl

/-! ### non-vacuity -/

/-- a descriptor whose containers nest three deep below the top level and that uses every class -/
theorem sample_wf : WF realTables Samples.sample := by decide +kernel

theorem sample_fits : Fits realTables Samples.sample := by decide +kernel

theorem sample_uses_every_class : ∀ t ∈ Tag.all, t ∈ Samples.tagsVal Samples.sample := by decide +kernel

theorem sample_depth : need Samples.sample = 5 := by decide +kernel

example : ∃ bs, enc realTables Samples.sample = .ok bs ∧ bs.length = 613 ∧
    dec realTables Samples.sample.tag bs 0 = .ok (Samples.sample, bs.length) := by
  have henc : enc realTables Samples.sample = .ok (encT realTables Samples.sample) := if_pos sample_fits
  refine ⟨_, henc, by decide +kernel, ?_⟩
  simpa using descriptor_roundtrip realTables Samples.sample sample_wf _ [] [] henc

theorem sample_block_wf : Samples.block.WF realTables ∧ Samples.block2.WF realTables := by decide +kernel

example : ∃ bs, Samples.block.enc realTables 4 = .ok bs ∧
    Block.dec realTables bs 0 = .ok (Samples.block, Samples.block.bodyLen realTables) := by
  have hf : Samples.block.Fits realTables := by decide +kernel
  have henc : Samples.block.enc realTables 4 = .ok (Samples.block.encT realTables 4) := if_pos hf
  refine ⟨_, henc, ?_⟩
  simpa using (descriptor_block_roundtrip realTables 4 Samples.block sample_block_wf.1 _ [] [] henc).1

/-! ### points excluded by `WF`: the full-strength statement fails on them (evaluated; replayed on the real code) -/

/-- `Enumerated(typeID=b"", enum=b"")`: a key of length 0 that is not a term is written as length 0 and no bytes;
the reader then takes the next four bytes as an implicit key and runs out of data -/
theorem zero_length_key_not_roundtrip :
    enc realTables (.enumerated ⟨[], false⟩ ⟨[], false⟩) = .ok [0, 0, 0, 0, 0, 0, 0, 0] ∧
      errorOf (dec realTables .enumerated [0, 0, 0, 0, 0, 0, 0, 0] 0) = some .ioError := by decide +kernel

/-- `String(chr(0xD800) + chr(0xDC00))`: an adjacent surrogate pair is written as two units and read back as one character -/
theorem surrogate_pair_string_not_roundtrip :
    enc realTables (.string [0xD800, 0xDC00]) = .ok [0, 0, 0, 2, 0xD8, 0, 0xDC, 0] ∧
      stringOf (dec realTables .string [0, 0, 0, 2, 0xD8, 0, 0xDC, 0] 0) = some [0x10000] := by decide +kernel

end PsdVerif.C01Descriptor
