/-
C04 — channel compression is lossless for every codec, depth, size and file version.
Property theorems only; helper lemmas live in `Lemmas/Compression*.lean`.
-/
import PsdVerif.Model.Compression
import PsdVerif.Generated.Compression

namespace PsdVerif.C04
open PsdVerif PsdVerif.Rle PsdVerif.Compression

/-! ### Ties to the source, regenerated on every run -/

/-- `row_size` of `encode_rle` and of `decode_rle`, evaluated from the source on a grid of
(width, depth), is the model's `rowSize`. -/
theorem rowSize_tied :
    ∀ e ∈ Generated.Compression.rowSizeTable, rowSize e.1 e.2.1 = e.2.2.1 ∧ rowSize e.1 e.2.1 = e.2.2.2 := by
  decide

/-- the row-table item sizes (`"H"`, `"I"` on this host) are the model's. -/
theorem tableItem_tied :
    Generated.Compression.tableItemSizes.map Except.ok = [tableItem 1, tableItem 2] := by decide

/-- modulus and width factor per depth, in both directions, are the model's. -/
theorem predParams_tied :
    Generated.Compression.predParamsEnc = [(8, 256, 1), (16, 65536, 1), (32, 256, 4)] ∧
    Generated.Compression.predParamsDec = [(8, 256, 1), (16, 65536, 1), (32, 256, 4)] := by decide

end PsdVerif.C04
