/-
C04 — channel compression is lossless for every codec, depth, size and file version.
Property theorems only; helper lemmas live in `Lemmas/Compression*.lean`.
-/
import PsdVerif.Model.Compression
import PsdVerif.Generated.Compression
import PsdVerif.Lemmas.CompDelta
import PsdVerif.Lemmas.CompShuffle
import PsdVerif.Lemmas.CompPred
import PsdVerif.Lemmas.CompRle

namespace PsdVerif.C04
open PsdVerif PsdVerif.Rle PsdVerif.Compression

/-! ### Ties to the source, regenerated on every run -/

/-- `row_size` of `encode_rle` and of `decode_rle`, evaluated from the source on a grid of
(width, depth), is the model's `rowSize`. -/
theorem rowSize_tied :
    ∀ e ∈ Generated.Compression.rowSizeTable, rowSize e.1 e.2.1 = e.2.2.1 ∧ rowSize e.1 e.2.1 = e.2.2.2 := by
  decide

/-- the row-table item sizes (`"H"`, `"I"` on this host) are the model's. -/
theorem tableItem_tied :
    Generated.Compression.tableItemSizes.map Except.ok = [tableItem 1, tableItem 2] := by decide

/-- The codec modules keep no state between calls: no `global`/`nonlocal`, no module-level mutable object read
by a function, no memoising decorator, no mutable default (regenerated from the AST of compression/__init__.py
and rle.py). This is what entitles the model to describe `compress`/`decompress` as functions of their arguments:
every round-trip theorem below is about one call and says nothing about a history of calls otherwise. -/
theorem codec_stateless_tied : Generated.Compression.codecModuleState = [] := by decide

/-- modulus and width factor per depth, in both directions, are the model's. -/
theorem predParams_tied :
    Generated.Compression.predParamsEnc = [(8, 256, 1), (16, 65536, 1), (32, 256, 4)] ∧
    Generated.Compression.predParamsDec = [(8, 256, 1), (16, 65536, 1), (32, 256, 4)] := by decide

/-! ### Hypotheses (all visible in the statements) -/

/-- The raster follows the row geometry: rows of `⌈w·depth/8⌉` bytes, `h` of them, and the
depth is one Photoshop stores. For depth 8/16/32 this is `w·h·depth/8` bytes. -/
def Geometry (w h depth : Nat) (d : BList) : Prop :=
  (depth = 1 ∨ depth = 8 ∨ depth = 16 ∨ depth = 32) ∧ d.length = rowSize w depth * h

/-- Every PackBits-encoded row fits the row-table item of the file version (`H` for PSD,
`I` for PSB); otherwise `encode_rle` raises `OverflowError` (checked on the real code). -/
def rowsFit (d : BList) (w h depth version : Nat) : Prop :=
  ∃ k, tableItem version = .ok k ∧ ∀ r ∈ encRows (rowSize w depth) h d, r.length < 256 ^ k

/-- What `compress` accepts besides the geometry: the row table must fit (RLE); the
prediction codec exists for 8/16/32 bits only and its 32-bit shuffle needs a non-zero width. -/
def Admissible (c : Codec) (d : BList) (w h depth version : Nat) : Prop :=
  (c = .rle → rowsFit d w h depth version) ∧
  (c = .zipPred → depth ≠ 1 ∧ (depth = 32 → 0 < w))

/-! ### Delta coder, byte shuffle, prediction codec -/

theorem delta_roundtrip (m w h : Nat) (a : Array Nat) (hl : a.size = w * h)
    (hm : ∀ i (hi : i < a.size), a[i] < m) :
    ∃ b, deltaEncode m w h a = .ok b ∧ b.size = a.size ∧ deltaDecode m w h b = .ok a := by
  obtain ⟨b, h1, h2, h3⟩ := deltaLoop_roundtrip m w h a ⟨hl, hm⟩
  exact ⟨b, h1, by rw [h2.1, hl], h3⟩

theorem shuffle_roundtrip (w h : Nat) (a : Array UInt8) (hw : 0 < w) (hl : a.size = 4 * w * h) :
    ∃ b, shuffle a w h = .ok b ∧ b.size = a.size ∧ restore b w h = .ok a :=
  shuffleArr_roundtrip w h a hw hl

theorem prediction_roundtrip (d : BList) (w h depth : Nat)
    (hdepth : depth = 8 ∨ depth = 16 ∨ depth = 32) (hl : d.length = w * h * (depth / 8))
    (hw : depth = 32 → 0 < w) :
    ∃ e, encodePrediction d w h depth = .ok e ∧ e.length = d.length ∧
      decodePrediction e w h depth = .ok d := by
  rcases hdepth with rfl | rfl | rfl
  · exact pred8_roundtrip d w h (by simpa using hl)
  · exact pred16_roundtrip d w h (by rw [hl]; simp [Nat.mul_comm])
  · exact pred32_roundtrip d w h (hw rfl) (by
      rw [hl]; simp only [Nat.reduceDiv]
      rw [Nat.mul_comm (w * h) 4, Nat.mul_assoc])

/-! ### RLE with a row table -/

/-- Streams of an independent encoder: a row table followed by rows which the *specification*
PackBits decoder expands to the rows of the raster decode to the raster. -/
theorem spec_streams_decode (ps : List (BList × BList)) (w h depth version k : Nat)
    (hk : tableItem version = .ok k) (hh : ps.length = h)
    (hp : ∀ p ∈ ps, specDec p.1 = some p.2 ∧ p.2.length = rowSize w depth)
    (hfit : ∀ p ∈ ps, p.1.length < 256 ^ k) :
    decodeRle ((ps.map (·.1)).flatMap (fun e => beBytes k e.length) ++ (ps.map (·.1)).flatten)
      w h depth version = .ok (ps.map (·.2)).flatten :=
  decodeRle_pairs ps w h depth version k hk hh hp hfit

theorem rle_image_roundtrip (d : BList) (w h depth version : Nat)
    (hl : d.length = rowSize w depth * h) (hfit : rowsFit d w h depth version) :
    ∃ e, encodeRle d w h depth version = .ok e ∧ decodeRle e w h depth version = .ok d := by
  obtain ⟨k, hk, hfit⟩ := hfit
  obtain ⟨s1, s2, s3⟩ := splitPlanes_spec (rowSize w depth) h d hl
  let ps : List (BList × BList) := (splitPlanes (rowSize w depth) h d).map (fun r => (encPy r.toArray, r))
  have e1 : ps.map (·.1) = encRows (rowSize w depth) h d := by
    simp only [ps, List.map_map, encRows_eq]; rfl
  have e2 : ps.map (·.2) = splitPlanes (rowSize w depth) h d := by
    simp only [ps, List.map_map]
    exact List.map_id _
  have hdec := decodeRle_pairs ps w h depth version k hk (by simp [ps, s3])
    (by
      intro p hp
      simp only [ps, List.mem_map] at hp
      obtain ⟨r, hr, rfl⟩ := hp
      exact ⟨by simpa using C05.spec_decodes_enc r.toArray, s2 r hr⟩)
    (by
      intro p hp
      apply hfit
      rw [← e1]
      exact List.mem_map_of_mem hp)
  rw [e1, e2, s1] at hdec
  refine ⟨_, ?_, hdec⟩
  simp only [encodeRle, hk]
  have : (encRows (rowSize w depth) h d).any (fun r => decide (r.length ≥ 256 ^ k)) = false := by
    rw [List.any_eq_false]
    intro r hr
    have := hfit r hr
    simp; omega
  simp [this]

/-- A sufficient, purely geometric condition for `rowsFit`, from Apple's worst case (C05). -/
theorem rowsFit_of_rowSize (d : BList) (w h depth version k : Nat) (hk : tableItem version = .ok k)
    (hl : d.length = rowSize w depth * h)
    (hb : rowSize w depth + (rowSize w depth + 126) / 127 < 256 ^ k) : rowsFit d w h depth version := by
  refine ⟨k, hk, ?_⟩
  intro r hr
  rw [encRows_eq] at hr
  obtain ⟨x, hx, rfl⟩ := List.mem_map.mp hr
  have := C05.enc_size_bound x.toArray
  have hxl := (splitPlanes_spec (rowSize w depth) h d hl).2.1 x hx
  simp only [List.size_toArray, hxl] at this
  omega

/-! ### `compress` / `decompress` -/

theorem geometry_length {w h depth : Nat} {d : BList} (hg : Geometry w h depth d) :
    d.length ≤ w * h * max 1 (depth / 8) ∧ (depth ≥ 8 → d.length = w * h * max 1 (depth / 8)) := by
  obtain ⟨hd, hl⟩ := hg
  rcases hd with rfl | rfl | rfl | rfl
  · refine ⟨?_, by omega⟩
    rw [hl]; simp only [rowSize, Nat.mul_one, Nat.reduceDiv, Nat.zero_le, Nat.max_eq_left]
    exact Nat.mul_le_mul_right h (by omega)
  · have : rowSize w 8 = w := by unfold rowSize; omega
    rw [hl, this]; simp
  · have : rowSize w 16 = w * 2 := by unfold rowSize; omega
    rw [hl, this]; simp [Nat.mul_right_comm]
  · have : rowSize w 32 = w * 4 := by unfold rowSize; omega
    rw [hl, this]; simp [Nat.mul_right_comm]

/-- the bounded inflate (`_inflate(data, length)`, repo 72f34ff) returns a deflated string that is not longer than
the expected size -/
theorem inflateBounded_deflate (z : ZCodec) (hz : z.Lawful) (x : BList) (length : Nat) (h : x.length ≤ length) :
    inflateBounded z (z.deflate x) length = .ok x := by
  unfold inflateBounded
  rw [hz x]
  simp only
  rw [if_neg (by omega)]

/-- decompress ∘ compress = id for the four codecs, every geometry, both file versions. -/
theorem compress_roundtrip (z : ZCodec) (hz : z.Lawful) (c : Codec) (d : BList)
    (w h depth version : Nat) (hg : Geometry w h depth d) (ha : Admissible c d w h depth version) :
    ∃ e, compress z d c w h depth version = .ok e ∧ decompress z e c w h depth version = .ok d := by
  have hlen := geometry_length hg
  have hassert : (if depth ≥ 8 then
        if d.length = w * h * max 1 (depth / 8) then (Except.ok d : Except Err BList)
        else .error .assertionError
      else .ok d) = .ok d := by
    by_cases h8 : depth ≥ 8
    · simp [h8, hlen.2 h8]
    · simp [h8]
  cases c with
  | raw =>
    refine ⟨d, rfl, ?_⟩
    simp only [decompress, decompressBody, List.take_of_length_le hlen.1]
    exact hassert
  | rle =>
    obtain ⟨e, h1, h2⟩ := rle_image_roundtrip d w h depth version hg.2 (ha.1 rfl)
    refine ⟨e, h1, ?_⟩
    simp only [decompress, decompressBody, h2]
    exact hassert
  | zip =>
    refine ⟨z.deflate d, rfl, ?_⟩
    simp only [decompress, decompressBody, inflateBounded_deflate z hz d _ hlen.1]
    exact hassert
  | zipPred =>
    obtain ⟨hne, hw⟩ := ha.2 rfl
    have hdepth : depth = 8 ∨ depth = 16 ∨ depth = 32 := by
      rcases hg.1 with h | h | h | h
      · exact absurd h hne
      · exact Or.inl h
      · exact Or.inr (Or.inl h)
      · exact Or.inr (Or.inr h)
    have hl : d.length = w * h * (depth / 8) := by
      have := hlen.2 (by omega)
      rcases hdepth with rfl | rfl | rfl <;> simpa using this
    obtain ⟨e, h1, h2, h3⟩ := prediction_roundtrip d w h depth hdepth hl hw
    refine ⟨z.deflate e, by simp [compress, h1], ?_⟩
    simp only [decompress, decompressBody, inflateBounded_deflate z hz e _ (by rw [h2]; exact hlen.1), h3]
    exact hassert

/-! ### Containers -/

theorem channel_roundtrip (z : ZCodec) (hz : z.Lawful) (c : Codec) (d : BList)
    (w h depth version : Nat) (hg : Geometry w h depth d) (ha : Admissible c d w h depth version) :
    ∃ e, channelSet z d c w h depth version = .ok e ∧ channelGet z e c w h depth version = .ok d :=
  compress_roundtrip z hz c d w h depth version hg ha

/-- `ImageData.get_data(header) ∘ set_data(planes, header)` returns the planes. -/
theorem image_roundtrip (z : ZCodec) (hz : z.Lawful) (c : Codec) (planes : List BList)
    (w h channels depth version : Nat) (hch : 0 < channels) (hn : planes.length = channels)
    (hd : depth = 1 ∨ depth = 8 ∨ depth = 16 ∨ depth = 32)
    (hp : ∀ p ∈ planes, p.length = rowSize w depth * h)
    (ha : Admissible c planes.flatten w (h * channels) depth version) :
    ∃ e, imageSet z planes c w h channels depth version = .ok e ∧
      imageGet z e c w h channels depth version = .ok planes := by
  have hfl : planes.flatten.length = rowSize w depth * h * channels := by
    rw [← hn]
    clear ha hn
    induction planes with
    | nil => simp
    | cons p ps ih =>
      simp only [List.flatten_cons, List.length_append, List.length_cons]
      rw [hp p (by simp), ih (fun q hq => hp q (by simp [hq])), Nat.mul_succ]; omega
  have hg : Geometry w (h * channels) depth planes.flatten := ⟨hd, by rw [hfl, Nat.mul_assoc]⟩
  obtain ⟨e, h1, h2⟩ := compress_roundtrip z hz c planes.flatten w (h * channels) depth version hg ha
  refine ⟨e, h1, ?_⟩
  have hc0 : channels ≠ 0 := by omega
  simp only [imageGet, h2, hc0, if_false]
  rw [hfl, Nat.mul_div_cancel _ hch, ← hn, splitPlanes_flatten _ planes hp]

/-- `VirtualMemoryArray.get_data() ∘ set_data((w, h), data, depth, compression)`. -/
theorem vma_roundtrip (z : ZCodec) (hz : z.Lawful) (c : Codec) (d : BList) (w h depth : Nat)
    (hg : Geometry w h depth d) (ha : Admissible c d w h depth 1) :
    ∃ e rect, vmaSet z d c w h depth = .ok (e, rect) ∧ vmaGet z e c rect depth = .ok d := by
  obtain ⟨e, h1, h2⟩ := compress_roundtrip z hz c d w h depth 1 hg ha
  exact ⟨e, (0, 0, h, w), by simp [vmaSet, h1], by simpa [vmaGet] using h2⟩

/-! ### Non-vacuity: the hypotheses are satisfiable, the functions compute -/

/-- identity "zlib" (lawful) for evaluation. -/
def zId : ZCodec := { deflate := id, inflate := some }
theorem zId_lawful : zId.Lawful := fun _ => rfl

/-- 5×3 raster, 16 bits, with a wrap-around delta (0x0001 - 0xFFFF). -/
def sample16 : BList :=
  [0xFF, 0xFF, 0x00, 0x01, 0x00, 0x00, 0x80, 0x00, 0x7F, 0xFF,
   0, 1, 0, 2, 0, 3, 0, 4, 0, 5,
   9, 9, 9, 9, 9, 9, 9, 9, 9, 9]

example : Geometry 5 3 16 sample16 := ⟨by decide, by decide⟩
example : Admissible .zipPred sample16 5 3 16 1 := ⟨(fun h => nomatch h), (fun _ => ⟨by decide, by decide⟩)⟩
example : rowsFit sample16 5 3 16 1 :=
  rowsFit_of_rowSize _ _ _ _ _ 2 rfl (by decide) (by decide)
example : encodePrediction sample16 5 3 16 =
    .ok [0xFF, 0xFF, 0x00, 0x02, 0xFF, 0xFF, 0x80, 0x00, 0xFF, 0xFF,
         0, 1, 0, 1, 0, 1, 0, 1, 0, 1,
         9, 9, 0, 0, 0, 0, 0, 0, 0, 0] := by decide +kernel
example : (compress zId sample16 .zipPred 5 3 16 1 >>= fun e => decompress zId e .zipPred 5 3 16 1)
    = .ok sample16 := by decide +kernel
example : (compress zId sample16 .rle 5 3 16 1 >>= fun e => decompress zId e .rle 5 3 16 1)
    = .ok sample16 := by decide +kernel
/-- 1-bit rows are padded to whole bytes: width 9 has 2 bytes per row (the unfixed code used
`9*1//8 = 1` and lost the second byte of every row). -/
example : rowSize 9 1 = 2 ∧ 9 * 1 / 8 = 1 ∧
    (compress zId [1, 2, 3, 4, 5, 6] .rle 9 3 1 1 >>= fun e => decompress zId e .rle 9 3 1 1)
      = .ok [1, 2, 3, 4, 5, 6] := by decide +kernel
/-- 32-bit shuffle on a 2×1 raster. -/
example : shuffle #[0, 1, 2, 3, 4, 5, 6, 7] 2 1 = .ok #[0, 4, 1, 5, 2, 6, 3, 7] := by decide +kernel
/-- outside the hypotheses the code rejects: 1-bit prediction, zero-width 32-bit shuffle,
an odd version. -/
example : compress zId [1] .zipPred 8 1 1 1 = .error .valueError ∧
    compress zId [] .zipPred 0 2 32 1 = .error .valueError ∧
    compress zId [1] .rle 1 1 8 3 = .error .indexError := by decide +kernel

end PsdVerif.C04
