/-
C01 — every constructible document survives write → read, and re-writes identically.

Model: `Model/Codec.lean` (primitives of utils.py), `Model/Psd.lean` (the file skeleton with typed
structures; payload classes are opaque bytes). Property theorems only; lemmas are in
`Lemmas/Codec*.lean`.

Reading guide
* `…_rt` : the law of a primitive/combinator, in the `pre ++ bs ++ post` form of DESIGN §3.
* `…_roundtrip` : one per skeleton part. Parts whose reader looks at what follows have the
  explicit extra hypothesis on `post` (or on the end position).
* `psd_roundtrip` : the whole file. The value read back is `d.refresh`: the document *as the
  writer left it* (`LayerInfo._update_channel_length` overwrites `channel_info.length` in place
  before the records are written); `psd_roundtrip_fresh` is the corollary `= d`.
* `WF` (Model/Psd.lean) has clauses of kind (i) validators, (ii) on-disk widths, (iii) format
  consistency, and (F) clauses *forced by the proof*. For each (F) clause `…_not_roundtrip` below
  is a document excluded by it, built from the library's own defaults, on which the full-strength
  statement fails (checked by evaluation); harness/props/C01.py replays each on the real code.
-/
import PsdVerif.Lemmas.CodecLaws
import PsdVerif.Lemmas.CodecPsd3
import PsdVerif.Lemmas.CodecSamples

namespace PsdVerif.C01
open PsdVerif PsdVerif.Codec PsdVerif.Psd

/-! ### primitives and combinators (each proved once) -/

theorem u8_rt : Lawful (encU 1) (readU 1) (fun _ => True) := u8_lawful
theorem u16_rt : Lawful (encU 2) (readU 2) (fun _ => True) := u16_lawful
theorem u32_rt : Lawful (encU 4) (readU 4) (fun _ => True) := u32_lawful
theorem u64_rt : Lawful (encU 8) (readU 8) (fun _ => True) := u64_lawful
theorem i16_rt : Lawful encI16 readI16 (fun _ => True) := i16_lawful
theorem i32_rt : Lawful encI32 readI32 (fun _ => True) := i32_lawful
theorem bytesN_rt (n : Nat) : Lawful (fun (b : B) => guard (b.length = n) b) (readN n) (fun _ => True) :=
  bytesN_lawful n
theorem padTo_rt (size divisor : Nat) :
    Lawful (fun (_ : Unit) => .ok (zeros (padAmount size divisor))) (readPadding size divisor) (fun _ => True) :=
  padTo_lawful size divisor
theorem pascal_rt (pad : Nat) :
    Lawful (fun (s : B) => guard (s.length < 256) (pascalT pad s)) (readPascal pad) (fun _ => True) :=
  pascal_lawful pad
/-- a length block of raw bytes; the alignment must divide the size of the length prefix
(`read_padding` aligns the body, `write_padding` aligns prefix + body) -/
theorem lenBlock_rt (skip w pad : Nat) (hp : (skip + w) % pad = 0) :
    Lawful (fun (b : B) => guard (FitsU w b.length) (lenBlockT skip w pad b)) (readLenBlock skip w pad) (fun _ => True) :=
  lenBlock_lawful skip w pad hp
theorem countList_rt {α : Type} {enc : α → Except Err B} {dec : R α} {WF : α → Prop} (h : Lawful enc dec WF)
    (vs : List α) (bs pre post : B) (hwf : ∀ v ∈ vs, WF v) (he : encList enc vs = .ok bs) :
    readCount dec vs.length (pre ++ bs ++ post) pre.length = .ok (vs, pre.length + bs.length) :=
  countList_lawful h vs bs pre post hwf he
/-- `while is_readable(fp, k)`: lawful only when nothing (that could be read) follows -/
theorem untilEnd_rt_at_end {α : Type} {enc : α → Except Err B} {dec : R α} {WF : α → Prop} (k : Nat) (hk : 1 ≤ k)
    (h : Lawful enc dec WF) (hsize : ∀ v bs, enc v = .ok bs → k ≤ bs.length)
    (vs : List α) (bs pre : B) (hwf : ∀ v ∈ vs, WF v) (he : encList enc vs = .ok bs) :
    readWhile (isReadable k) (optItem dec) (pre ++ bs) pre.length = .ok (vs, pre.length + bs.length) :=
  untilEnd_lawfulAtEnd k hk h hsize vs bs pre hwf he
/-- a length block (with a nested `BytesIO`) makes an at-end-lawful body lawful anywhere -/
theorem lenBlock_of_atEnd {α : Type} {enc : α → Except Err B} {dec : R α} {WF : α → Prop} (skip w pad : Nat)
    (hp : (skip + w) % pad = 0) (h : LawfulAtEnd enc dec WF) :
    Lawful (blockEnc skip w pad enc) (blockDec skip w pad dec) WF :=
  block_lawful skip w pad hp h

/-! ### the parts of the file skeleton -/

theorem header_roundtrip (h : Header) (hwf : h.WF) (pre post : B) :
    Header.dec (pre ++ h.encT ++ post) pre.length = .ok (h, pre.length + h.encT.length) :=
  Header.dec_at hwf (At.intro pre _ post)

theorem color_mode_data_roundtrip (v : B) (hf : FitsU 4 v.length) (pre post : B) :
    colorModeDec (pre ++ colorModeT v ++ post) pre.length = .ok (v, pre.length + (colorModeT v).length) :=
  colorModeDec_at hf (At.intro pre _ post)

theorem image_resource_roundtrip (r : Resource) (hwf : r.WF) (pre post : B) :
    Resource.dec (pre ++ r.encT ++ post) pre.length = .ok (r, pre.length + r.encT.length) :=
  Resource.dec_at hwf (At.intro pre _ post)

theorem image_resources_roundtrip (rs : List Resource) (hwf : resourcesWF rs) (pre post : B) :
    resourcesDec (pre ++ resourcesT rs ++ post) pre.length = .ok (rs, pre.length + (resourcesT rs).length) :=
  resourcesDec_at hwf (At.intro pre _ post)

theorem tagged_block_roundtrip (v pad : Nat) (hp : pad = 1 ∨ pad = 2 ∨ pad = 4) (t : TaggedBlock) (hwf : t.WF v)
    (pre post : B) :
    TaggedBlock.dec v pad (pre ++ t.encT v pad ++ post) pre.length = .ok (some t, pre.length + (t.encT v pad).length) :=
  TaggedBlock.dec_at hp hwf (At.intro pre _ post)

/-- tagged blocks inside a nested stream: the loop stops when fewer than 8 bytes follow -/
theorem tagged_blocks_roundtrip_nested (v pad : Nat) (hp : pad = 1 ∨ pad = 2 ∨ pad = 4) (ts : List TaggedBlock)
    (hwf : taggedBlocksWF v ts) (pre post : B) (hpost : post.length < 8) :
    taggedBlocksDec v pad none (pre ++ taggedBlocksT v pad ts ++ post) pre.length =
      .ok (ts, pre.length + (taggedBlocksT v pad ts).length) := by
  apply taggedBlocksDec_at hp hwf none (At.intro pre _ post) (by intro e he; cases he)
  unfold taggedCond
  rw [isReadable_false (by simp only [List.length_append]; omega)]
  rfl

/-- tagged blocks on the main stream: the loop stops at `end_pos`, whatever follows -/
theorem tagged_blocks_roundtrip_end_pos (v pad : Nat) (hp : pad = 1 ∨ pad = 2 ∨ pad = 4) (ts : List TaggedBlock)
    (hwf : taggedBlocksWF v ts) (pre post : B) :
    taggedBlocksDec v pad (some (pre.length + (taggedBlocksT v pad ts).length))
        (pre ++ taggedBlocksT v pad ts ++ post) pre.length =
      .ok (ts, pre.length + (taggedBlocksT v pad ts).length) := by
  apply taggedBlocksDec_at hp hwf (some _) (At.intro pre _ post)
  · intro e he; cases he; exact Nat.le_refl _
  · simp [taggedCond]

theorem mask_data_roundtrip (m : Option MaskData) (hwf : maskWF m) (hf : maskFits m) (pre post : B) :
    maskDec (pre ++ maskT m ++ post) pre.length = .ok (m, pre.length + (maskT m).length) :=
  (maskDec_step hwf hf (At.intro_rest pre _ post)).1

theorem blending_ranges_roundtrip (r : BlendingRanges) (hwf : r.WF) (pre post : B) :
    BlendingRanges.dec (pre ++ r.encT ++ post) pre.length = .ok (r, pre.length + r.encT.length) :=
  (BlendingRanges.dec_step hwf (At.intro_rest pre _ post)).1

theorem channel_info_roundtrip (v : Nat) (c : ChannelInfo) (hwf : c.WF v) (pre post : B) :
    ChannelInfo.dec v (pre ++ c.encT v ++ post) pre.length = .ok (c, pre.length + (c.encT v).length) :=
  ChannelInfo.dec_at hwf (At.intro pre _ post)

theorem layer_record_roundtrip (v : Nat) (r : LayerRecord) (hwf : r.WF v) (pre post : B) :
    LayerRecord.dec v (pre ++ r.encT v ++ post) pre.length = .ok (r, pre.length + (r.encT v).length) :=
  (LayerRecord.dec_step hwf (At.intro_rest pre _ post)).1

/-- channel data is read with the length stored in the (refreshed) channel info -/
theorem channel_data_roundtrip (c : ChannelData) (hwf : c.WF) (pre post : B) :
    ChannelData.dec (2 + c.data.length) (pre ++ c.encT ++ post) pre.length = .ok (c, pre.length + c.encT.length) :=
  ChannelData.dec_at hwf (At.intro pre _ post)

/-- the reader returns the object as the writer left it: `channel_info.length` refreshed -/
theorem layer_info_roundtrip (v pad : Nat) (li : LayerInfo) (hwf : li.WF v pad) (pre post : B) :
    LayerInfo.dec v (pre ++ li.encT v pad ++ post) pre.length =
      .ok (li.refresh, pre.length + (li.encT v pad).length) :=
  (LayerInfo.dec_step hwf (At.intro_rest pre _ post)).1

theorem global_layer_mask_info_roundtrip (g : GlobalLayerMaskInfo) (hwf : g.WF) (pre post : B) :
    GlobalLayerMaskInfo.dec (pre ++ g.encT ++ post) pre.length = .ok (g, pre.length + g.encT.length) :=
  (GlobalLayerMaskInfo.dec_step hwf (At.intro_rest pre _ post)).1

/-- the section reader looks at the section only (`fp.tell() + 4 <= end_pos`, `fp.tell() < end_pos`; repaired in this
round — it used to probe the bytes after the section with `is_readable(fp, 17)` and `is_readable(fp)`): the law holds
wherever the section sits -/
theorem layer_and_mask_roundtrip (v pad : Nat) (x : LayerAndMask) (pre post : B) (hwf : x.WF v pad) :
    LayerAndMask.dec v (pre ++ x.encT v pad ++ post) pre.length =
      .ok (x.refresh, pre.length + (x.encT v pad).length) :=
  LayerAndMask.dec_at hwf (At.intro pre _ post)

/-- image data is read to the end of the file: lawful at end only -/
theorem image_data_roundtrip_at_end (i : ImageData) (hwf : i.WF) (pre : B) :
    ImageData.dec (pre ++ i.encT) pre.length = .ok (i, pre.length + i.encT.length) := by
  have h := At.intro pre i.encT []
  simp only [List.append_nil] at h
  exact ImageData.dec_at_end hwf h (by simp only [List.length_append])

/-! ### the whole file -/

theorem psd_roundtrip (pad : Nat) (d : PSD) (hwf : d.WF pad) (bs : B) (henc : PSD.enc pad d = .ok bs) :
    PSD.read bs 0 = .ok (d.refresh, bs.length) := by
  rw [PSD.enc_ok henc]
  exact PSD.read_encT hwf

/-- when the stored channel lengths already agree with the channel data (always the case for a
document that was read, and after any earlier `write`), the document read back is the original -/
theorem psd_roundtrip_fresh (pad : Nat) (d : PSD) (hwf : d.WF pad) (hfresh : d.refresh = d) (bs : B)
    (henc : PSD.enc pad d = .ok bs) :
    PSD.read bs 0 = .ok (d, bs.length) := by
  rw [psd_roundtrip pad d hwf bs henc, hfresh]

theorem psd_rewrite_identical (pad : Nat) (d : PSD) (hwf : d.WF pad) (bs : B) (henc : PSD.enc pad d = .ok bs)
    (d' : PSD) (n : Nat) (hread : PSD.read bs 0 = .ok (d', n)) :
    PSD.enc pad d' = .ok bs := by
  rw [psd_roundtrip pad d hwf bs henc] at hread
  cases hread
  rw [PSD.enc_refresh, henc]

/-- the writer never produces bytes for a document whose fields do not fit their on-disk width
(`struct.error`) or whose version selects no length format (`IndexError`): it rejects, it does not corrupt -/
theorem psd_enc_rejects (pad : Nat) (d : PSD) (e : Err) (h : PSD.enc pad d = .error e) :
    e = .structError ∨ e = .indexError := by
  unfold PSD.enc at h
  split at h
  · rename_i e' he
    cases h
    unfold PSD.writeError at he
    split at he
    · cases he; exact Or.inl rfl
    · split at he
      · cases he; exact Or.inr rfl
      · split at he
        · cases he; exact Or.inl rfl
        · cases he
  · cases h

/-! ### non-vacuity -/

/-- a PSB document with the records of two nested groups, a masked layer with mask parameters and
real-mask fields, an image resource with an odd-length name, 8-byte-length tagged blocks -/
theorem sample_wf : PSD.WF 4 Samples.sampleDoc := by decide +kernel

example : ∃ bs, PSD.enc 4 Samples.sampleDoc = .ok bs ∧ PSD.read bs 0 = .ok (Samples.sampleDoc, bs.length) :=
  have henc : PSD.enc 4 Samples.sampleDoc = .ok (Samples.sampleDoc.encT 4) := by decide +kernel
  ⟨_, henc, psd_roundtrip_fresh 4 Samples.sampleDoc sample_wf (by decide +kernel) _ henc⟩

/-! ### documents excluded by the (F) clauses: the full-strength statement fails on them -/

/-- `d` is writable, but what is read back is not `d` as the writer left it -/
def NotRoundTrip (d : PSD) : Prop :=
  ∃ bs d' n, PSD.enc 4 d = .ok bs ∧ PSD.read bs 0 = .ok (d', n) ∧ d' ≠ d.refresh

open Samples in
theorem count0_empty_lists_not_roundtrip : NotRoundTrip count0EmptyLists :=
  ⟨count0EmptyLists.encT 4, mk ⟨some ⟨0, none, none⟩, some glmDefault, some []⟩ img20, 68, by decide +kernel, by decide +kernel, by decide +kernel⟩

open Samples in
theorem ranges_composite_only_not_roundtrip : NotRoundTrip rangesCompositeOnly :=
  ⟨rangesCompositeOnly.encT 4, mk ⟨some (oneRecord ⟨some ⟨0, 1, 2, 3⟩, some []⟩), some glmDefault, some []⟩ img20, 136, by decide +kernel,
    by decide +kernel, by decide +kernel⟩

open Samples in
theorem ranges_empty_list_not_roundtrip : NotRoundTrip rangesEmptyList :=
  ⟨rangesEmptyList.encT 4, mk ⟨some (oneRecord ⟨none, none⟩), some glmDefault, some []⟩ img20, 128, by decide +kernel,
    by decide +kernel, by decide +kernel⟩

open Samples in
theorem glm_defaults_not_stored_not_roundtrip : NotRoundTrip glmNotStored :=
  ⟨glmNotStored.encT 4, mk ⟨some (oneRecord rangesDefault), some glmDefault, some []⟩ img20, 160, by decide +kernel,
    by decide +kernel, by decide +kernel⟩

/-- the document shape `PSDImage` builds (`LayerInfo`, `GlobalLayerMaskInfo()`, `TaggedBlocks()`) with a
3-byte image. Before the repair of `LayerAndMaskInformation._read_body` (gate `is_readable(fp, 17)`) the global mask
came back as `None` and the re-written file was 4 bytes shorter; it is well formed now and round-trips. -/
theorem glm_short_tail_roundtrip : PSD.WF 4 Samples.glmShortTail ∧
    ∃ bs, PSD.enc 4 Samples.glmShortTail = .ok bs ∧ PSD.read bs 0 = .ok (Samples.glmShortTail, bs.length) :=
  have hwf : PSD.WF 4 Samples.glmShortTail := by decide +kernel
  have henc : PSD.enc 4 Samples.glmShortTail = .ok (Samples.glmShortTail.encT 4) := by decide +kernel
  ⟨hwf, _, henc, psd_roundtrip_fresh 4 Samples.glmShortTail hwf (by decide +kernel) _ henc⟩

open Samples in
theorem lam_tagged_none_not_roundtrip : NotRoundTrip lamTaggedNone :=
  ⟨lamTaggedNone.encT 4, mk ⟨some (oneRecord rangesDefault), some glmDefault, some []⟩ img20, 160, by decide +kernel,
    by decide +kernel, by decide +kernel⟩

open Samples in
theorem lam_empty_dict_only_not_roundtrip : NotRoundTrip lamEmptyDictOnly :=
  ⟨lamEmptyDictOnly.encT 4, mk ⟨none, none, none⟩ img20, 60, by decide +kernel, by decide +kernel, by decide +kernel⟩

end PsdVerif.C01
