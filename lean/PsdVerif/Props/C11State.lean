/-
C11 — the published compositing model is a FUNCTION of the document; the Lean model (`Model/Composite*.lean`) is
stateless by construction, so "a second composite of the same objects equals the first" and "an array handed to the
caller is not read again" are facts about the SOURCE, not about the model. This file ties them: the regenerated list of
stores that outlive a call in the read path of the compositor (composite/*.py, api/numpy_io.py) and what `paste`
returns are exactly what they were when the model was written. Property theorems only.
-/
import PsdVerif.Generated.CompState

namespace PsdVerif.C11State

/-- The read path of the compositor keeps nothing between calls and `paste` never hands back the caller's array:
    no store into an attribute or item of a parameter, of a module-level name or of an alias of one (a decoded-array
    cache on the layer, a memo dictionary), no mutating container call on such an object, no `global`, no caching
    decorator — except the six in-place array stores listed, each into an array its callers have just computed
    (`_remove_background` on the array `get_image_data` has just parsed; `_clip_color` on the `C + d` that
    `_set_lum` computes for it), which the repeated-composite script of the harness observes to be invisible; both `return`s of
    `paste` return the local `view` allocated in the call. -/
theorem compositor_stateless_tied :
    Generated.CompState.stores =
      ["api/numpy_io.py:_remove_background: store color[a > 0]",
       "api/numpy_io.py:_remove_background: store data[:, :, :3]",
       "composite/blend.py:_clip_color: store C[C < 0.0]",
       "composite/blend.py:_clip_color: store C[C > 1]",
       "composite/blend.py:_clip_color: store C[index]",
       "composite/blend.py:_clip_color: store C[index]"] ∧
    Generated.CompState.pasteReturns = ["local view", "local view"] :=
  ⟨rfl, rfl⟩

end PsdVerif.C11State
