/-
C05 — the PackBits (RLE) codec honours its contract in both implementations.
Property theorems only; helper lemmas live in `Lemmas/Rle*.lean`.
-/
import PsdVerif.Model.Rle
import PsdVerif.Generated.Rle
import PsdVerif.Lemmas.Rle
import PsdVerif.Lemmas.RleDec

namespace PsdVerif.C05
open PsdVerif PsdVerif.Rle

/-- The constants in the two source files are the model's (regenerated every run). -/
theorem maxLen_tied : Generated.Rle.maxLenPy = maxLen ∧ Generated.Rle.maxLenPyx = maxLen := by decide

/-! ### Decoder: exact size or rejection with ValueError (pure Python) -/

theorem decLoopPy_valueError (d : Bytes) (size i j : Nat) (out : List UInt8) (e : Err) :
    decLoopPy d size i j out = .error e → e = .valueError := by
  fun_induction decLoopPy d size i j out <;> simp_all
  all_goals (intro h; exact h.symm)

theorem dec_rejects_valueError (d : Bytes) (size : Nat) (e : Err) :
    decPy d size = .error e → e = .valueError := by
  unfold decPy
  split
  · split <;> simp
    intro h; exact h.symm
  · exact decLoopPy_valueError d size 0 0 [] e

/-! ### Encoder output is valid PackBits for the input -/

/-- Apple's decoder expands the encoder output to exactly the input (every input). -/
theorem spec_decodes_enc (d : Bytes) : specDec (encPy d) = some d.toList := by
  unfold encPy
  split
  · rename_i h
    have : d = #[] := Array.eq_empty_of_size_eq_zero h
    subst this; rw [specDec]
  · split
    · rename_i h0 h
      have h1 := drop_eq_cons d 0 (by omega)
      have h2 : d.toList.drop 1 = [] := List.drop_eq_nil_of_le (by simp; omega)
      simp only [List.drop_zero, Nat.zero_add] at h1
      rw [h1, h2, specDec_cons]
      have hz : (0 : UInt8).toNat = 0 := rfl
      simp [hz, specDec]
    · have := specDec_encFrom d 0 (Nat.zero_le _)
      simpa using this

/-- The encoder output is a sequence of valid chunks (runs of 2…128 equal bytes, literals of
1…127 bytes) whose contents concatenate to the input. -/
theorem enc_chunks (d : Bytes) :
    ∃ cs : List Chunk, encPy d = cs.flatMap Chunk.emit ∧ cs.flatMap Chunk.content = d.toList ∧
      ∀ c ∈ cs, c.Valid := by
  unfold encPy
  split
  · rename_i h
    have : d = #[] := Array.eq_empty_of_size_eq_zero h
    subst this
    exact ⟨[], rfl, rfl, by simp⟩
  · split
    · rename_i h0 h
      refine ⟨[.lit [d[0]]], by simp [Chunk.emit], ?_, ?_⟩
      · have h1 := drop_eq_cons d 0 (by omega)
        have h2 : d.toList.drop 1 = [] := List.drop_eq_nil_of_le (by simp; omega)
        simp only [List.drop_zero, Nat.zero_add] at h1
        rw [h1, h2]; simp [Chunk.content]
      · intro c hc
        simp at hc; subst hc
        exact ⟨by simp, by simp⟩
    · have := encFrom_chunks d 0 (Nat.zero_le _)
      simpa using this

/-- The reserved header 0x80 is never emitted. -/
theorem enc_no_noop (d : Bytes) : ∀ h ∈ headers (encPy d), h ≠ 128 := by
  unfold encPy
  split
  · simp [headers]
  · split
    · intro h hh
      simp [headers] at hh
      subst hh; decide
    · exact headers_encFrom d 0 (Nat.zero_le _)

/-- Apple's worst case: `n + ⌈n/127⌉` bytes. -/
theorem enc_size_bound (d : Bytes) : (encPy d).length ≤ d.size + (d.size + 126) / 127 := by
  unfold encPy
  split
  · simp
  · split
    · rename_i h; simp [h]
    · have := encFrom_length d 0 (Nat.zero_le _)
      simpa using this

/-! ### Decoder accepts every conforming stream; round trip -/

/-- `rle.decode` accepts every stream the specification decoder expands (no-op headers
included) when asked for the expanded size, and returns the expansion. -/
theorem dec_complete (e : Bytes) (row : List UInt8) (h : specDec e.toList = some row) :
    decPy e row.length = .ok row := by
  unfold decPy
  split
  · rename_i h1
    obtain ⟨x, rfl⟩ : ∃ x, e = #[x] := by
      match e, h1 with
      | ⟨[x]⟩, _ => exact ⟨x, rfl⟩
    simp only [List.getElem_toArray, List.getElem_cons_zero]
    change specDec [x] = some row at h
    rw [specDec_cons] at h
    by_cases c : x = 128
    · subst c
      have hz : (128 : UInt8).toNat = 128 := rfl
      simp [hz, specDec] at h
      subst h; simp
    · exfalso
      have hx : x.toNat ≠ 128 := fun hc => c (by
        apply UInt8.toNat_inj.mp; simpa using hc)
      by_cases c1 : x.toNat < 128
      · simp [c1] at h
      · simp [c1, hx] at h
  · have := decLoopPy_complete e row.length 0 0 [] row (Nat.zero_le _) (by simpa using h) rfl
      (by simp)
    simpa using this

/-- decode ∘ encode = id, for every input (including the empty and the one-byte input). -/
theorem dec_enc (d : Bytes) : decPy (⟨encPy d⟩ : Bytes) d.size = .ok d.toList := by
  have h := dec_complete ⟨encPy d⟩ d.toList (spec_decodes_enc d)
  simpa using h

/-! ### Decoder: exact size or rejection -/

theorem dec_exact_or_reject (e : Bytes) (n : Nat) (r : List UInt8) :
    decPy e n = .ok r → r.length = n ∨ (e = #[128] ∧ r = []) := by
  unfold decPy
  split
  · rename_i h1
    split
    · simp
    · rename_i hx
      intro hr
      right
      obtain ⟨x, rfl⟩ : ∃ x, e = #[x] := by
        match e, h1 with
        | ⟨[x]⟩, _ => exact ⟨x, rfl⟩
      simp at hx hr
      exact ⟨by rw [hx], hr⟩
  · intro hr
    left
    exact decLoopPy_exact e n 0 0 [] r (by simp) (Nat.zero_le _) hr

/-! ### The Cython decoder: memory safe, same outcome as the Python decoder -/

/-- `_rle.decode` and `rle.decode` agree on every input: same bytes, or the same exception. -/
theorem impl_agree_dec (e : Bytes) (n : Nat) : decC e n = toC (decPy e n) := by
  unfold decC decPy
  split
  · split <;> rfl
  · exact decLoopC_agree e n 0 0 (List.replicate n 0) [] (by simp) (by simp) (Nat.zero_le _)

/-- `_rle.encode` is the same state machine as `rle.encode`. -/
theorem impl_agree_enc (d : Bytes) : encC d = encPy d := rfl

/-- No `std::string` primitive of `_rle.decode` is reached out of bounds. -/
theorem decC_in_bounds (e : Bytes) (n : Nat) : decC e n ≠ .oob := by
  rw [impl_agree_dec]
  cases decPy e n <;> simp [toC]

/-- `_rle.decode` never raises `IndexError` (only `ValueError`). -/
theorem decC_never_indexError (e : Bytes) (n : Nat) : decC e n ≠ .err .indexError := by
  rw [impl_agree_dec]
  cases h : decPy e n with
  | ok r => simp [toC]
  | error x =>
    have := dec_rejects_valueError e n x h
    subst this; simp [toC]

/-! ### Non-vacuity -/

example : encPy #[1, 1, 2, 3, 3, 3] = [255, 1, 0, 2, 254, 3] := by decide +kernel
example : decPy #[255, 1, 0, 2, 254, 3] 6 = .ok [1, 1, 2, 3, 3, 3] := by decide +kernel
example : encPy (Array.replicate 130 7) = [129, 7, 255, 7] := by decide +kernel
example : encPy #[] = [] ∧ encPy #[9] = [0, 9] := by decide +kernel
example : specDec [128, 0, 5, 128] = some [5] ∧ decPy #[128, 0, 5, 128] 1 = .ok [5] := by decide +kernel
example : decPy #[128] 7 = .ok [] := by decide +kernel
example : decC #[0, 1, 254] 4 = .err .valueError ∧ decPy #[0, 1, 254] 4 = .error .valueError := by
  decide +kernel
/-- the size bound is attained: 128 bytes without equal neighbours need 130 bytes. -/
example : (encPy ((Array.range 128).map UInt8.ofNat)).length = 128 + (128 + 126) / 127 := by
  decide +kernel

/-! ### The implementation the package selects, in both configurations -/

/-- The selecting statement of `compression/__init__.py` (regenerated from its AST) is the one modelled by
`select`: a single statement binds `rle_impl`; its `try` body is exactly the import of `_rle`, it catches
exactly `ImportError`, the handler is exactly the import of `rle`, and the handler reads no name that is not
bound before it runs (otherwise the fallback configuration dies with NameError while the other one works). -/
theorem selection_tied :
    Generated.Rle.selStatements = 1 ∧ Generated.Rle.selTryImports = ["_rle"] ∧
    Generated.Rle.selCatches = ["ImportError"] ∧ Generated.Rle.selHandlerImports = ["rle"] ∧
    Generated.Rle.selOtherStatements = 0 ∧ Generated.Rle.selUnboundInHandler = [] := by decide

/-- `rle.py` keeps nothing between calls (regenerated from its AST: no `global`, no module-level mutable object
read by a function, no memoising decorator, no mutable default): the model's `encPy`/`decPy` are functions of
their arguments, so a result cannot be changed by a later call. -/
theorem rle_stateless_tied : Generated.Rle.rleModuleState = [] := by decide

/-- Whatever the configuration (extension importable or not), the selected implementation honours the whole
contract, and the two configurations are indistinguishable. -/
theorem selected_honours_contract (cfg : Bool) (d e : Bytes) (n : Nat) :
    specDec ((select cfg).enc d) = some d.toList ∧
    (∀ h ∈ headers ((select cfg).enc d), h ≠ 128) ∧
    ((select cfg).enc d).length ≤ d.size + (d.size + 126) / 127 ∧
    (select cfg).dec ⟨(select cfg).enc d⟩ d.size = .ok d.toList ∧
    (select cfg).dec e n ≠ .oob ∧
    (∀ r, (select cfg).dec e n = .ok r → r.length = n ∨ (e = #[128] ∧ r = [])) ∧
    (∀ x, (select cfg).dec e n = .err x → x = .valueError) ∧
    (select cfg).enc d = (select (!cfg)).enc d ∧ (select cfg).dec e n = (select (!cfg)).dec e n := by
  have hdec : ∀ (c : Bool) (e : Bytes) (n : Nat), (select c).dec e n = toC (decPy e n) := by
    intro c e n
    cases c
    · show (match decPy e n with | .ok r => CRes.ok r | .error x => CRes.err x) = toC (decPy e n)
      cases decPy e n <;> rfl
    · exact impl_agree_dec e n
  have henc : ∀ (c : Bool) (d : Bytes), (select c).enc d = encPy d := by
    intro c d; cases c <;> rfl
  simp only [henc, hdec]
  refine ⟨spec_decodes_enc d, enc_no_noop d, enc_size_bound d, ?_, ?_, ?_, ?_, trivial, trivial⟩
  · rw [dec_enc]; rfl
  · cases decPy e n <;> simp [toC]
  · intro r hr
    cases h : decPy e n with
    | ok r' => rw [h] at hr; simp [toC] at hr; subst hr; exact dec_exact_or_reject e n r' h
    | error x => rw [h] at hr; simp [toC] at hr
  · intro x hx
    cases h : decPy e n with
    | ok r' => rw [h] at hx; simp [toC] at hx
    | error y => rw [h] at hx; simp [toC] at hx; subst hx; exact dec_rejects_valueError e n y h

end PsdVerif.C05
