/-
C05 — the PackBits (RLE) codec honours its contract in both implementations.
Property theorems only; helper lemmas live in `Lemmas/Rle*.lean`.
-/
import PsdVerif.Model.Rle
import PsdVerif.Generated.Rle

namespace PsdVerif.C05
open PsdVerif PsdVerif.Rle

/-- The constants in the two source files are the model's (regenerated every run). -/
theorem maxLen_tied : Generated.Rle.maxLenPy = maxLen ∧ Generated.Rle.maxLenPyx = maxLen := by decide

/-! ### Decoder: exact size or rejection with ValueError (pure Python) -/

theorem decLoopPy_valueError (d : Bytes) (size i j : Nat) (out : List UInt8) (e : Err) :
    decLoopPy d size i j out = .error e → e = .valueError := by
  fun_induction decLoopPy d size i j out <;> simp_all
  all_goals (intro h; exact h.symm)

theorem dec_rejects_valueError (d : Bytes) (size : Nat) (e : Err) :
    decPy d size = .error e → e = .valueError := by
  unfold decPy
  split
  · split <;> simp
    intro h; exact h.symm
  · exact decLoopPy_valueError d size 0 0 [] e

end PsdVerif.C05
