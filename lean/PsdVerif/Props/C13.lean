/-
C13 — compositing obeys viewport, no-op and grouping laws.
Property theorems about `Model/Composite.lean`; helper lemmas are in `Lemmas/Composite*.lean`.
All statements are at one (arbitrary) pixel `(x, y)`, for every rational input.
-/
import PsdVerif.Lemmas.CompositeTree
import PsdVerif.Lemmas.CompositeView
import PsdVerif.Lemmas.CompositeSim

namespace PsdVerif.C13
open PsdVerif PsdVerif.Composite

/-! ### colour and alpha stay in [0,1] -/

/-- Whatever the stack (any nesting, masks, clipping, knockout, any blend functions that keep
`[0,1]`): the composited colour, shape and alpha are in `[0,1]`. Finite is automatic (rationals). -/
theorem result_in_unit_interval (B : Mode → Color → Color → Color) (V : Rect) (x y : Int)
    (color : Color) (alpha : Rat) (hc : ColorOk color) (ha : Unit01 alpha) (layers : List Node) (hl : listOk layers) :
    let r := compositeDoc B V x y color alpha layers
    ColorOk r.1 ∧ Unit01 r.2.1 ∧ Unit01 r.2.2 := by
  intro r
  have h := applyList_inv B V x y _ (inv_init hc ha false) layers hl
  exact ⟨fun ch => clip_unit _, h.sg, h.ag⟩

/-! ### no-op layers -/

theorem hidden_noop (B : Mode → Color → Color → Color) (V : Rect) (x y : Int) (cc : Bool) (st : PState) (n : Node)
    (h : n.props.visible = false) : applyNode B V x y cc st n = st := by
  cases n <;> (simp only [Node.props] at h; unfold applyNode; simp [h])

theorem outside_viewport_noop (B : Mode → Color → Color → Color) (V : Rect) (x y : Int) (cc : Bool) (st : PState) (n : Node)
    (h : intersect V n.props.bbox = Rect.zero) : applyNode B V x y cc st n = st := by
  cases n <;> (simp only [Node.props] at h; unfold applyNode; simp [h])

/-- a layer that is transparent at the pixel (its box does not cover it, or its shape there is 0 —
stated through the source it generates) changes nothing observable: shape, alpha, and colour
wherever alpha is not zero -/
theorem transparent_noop (B : Mode → Color → Color → Color) (V : Rect) (x y : Int) (st : PState) (hst : Inv st)
    (n : Node) (hko : n.props.knockout = false) (hz : Gen.Zero (nodeGen B V x y n)) :
    Same (applyNode B V x y false st n) st := by
  rw [applyNode_eq_stepGen B V x y false st n hko]
  split
  · exact Same.refl st
  · obtain ⟨z1, z2⟩ := hz st.c st.a
    unfold stepGen
    simp only [z1, z2]
    exact applySource_zero _ st hst _

/-- a pixel layer at zero opacity: alpha and colour are untouched (the accumulated *shape* may grow) -/
theorem zero_opacity_noop (B : Mode → Color → Color → Color) (V : Rect) (x y : Int) (st : PState) (hst : Inv st)
    (pr : Props) (hasPixels : Bool) (color : Color) (shape : Rat) (hko : pr.knockout = false) (hop : pr.opacity = 0) :
    let r := applyNode B V x y false st (.leaf pr hasPixels color shape [])
    r.ag = st.ag ∧ r.a = st.a ∧ (st.a ≠ 0 → ∀ ch, r.c ch = st.c ch) := by
  intro r
  have hr : r = applyNode B V x y false st (.leaf pr hasPixels color shape []) := rfl
  rw [applyNode_eq_stepGen B V x y false st _ (by simpa [Node.props] using hko)] at hr
  split at hr
  · rw [hr]; exact ⟨rfl, rfl, fun _ _ => rfl⟩
  · rw [hr]
    have : (nodeGen B V x y (.leaf pr hasPixels color shape []) st.c st.a).alpha = 0 := by
      simp [nodeGen, hop]
    unfold stepGen
    simp only [this]
    exact applySource_zero_alpha _ st hst _ _

example : Gen.Zero (nodeGen (fun _ => blNormal) ⟨0, 0, 4, 4⟩ 1 1
    (.leaf ⟨true, ⟨2, 2, 4, 4⟩, 1, 1, false, Rect.zero, 1, 0, 1, 0, false, false, false⟩ true white 1 [])) :=
  nodeGen_zero_outside _ _ 1 1 (by decide) _ (by decide)

/-! ### sub-viewport = crop -/

/-- Compositing in a sub-viewport gives, at every pixel of the sub-viewport, exactly what the
larger viewport gives there — for layers that meet both viewports in the same rectangle (no layer
is dropped by the early exit in one run and kept in the other; see `viewport_is_crop_partial` note
in DESIGN: the general case differs only in colour under zero alpha and is checked by
correspondence). -/
theorem viewport_is_crop_covered (B : Mode → Color → Color → Color) (V' V : Rect) (x y : Int)
    (h' : V'.contains x y = true) (h : V.contains x y = true) (color : Color) (alpha : Rat)
    (layers : List Node) (hv : ∀ n ∈ layers, viewEq V' V n) :
    compositeDoc B V' x y color alpha layers = compositeDoc B V x y color alpha layers := by
  unfold compositeDoc
  rw [applyList_congr_view B V V' x y layers (fun n hn st => applyNode_view B V' V x y h' h false st n (hv n hn))]

/-! ### pass-through groups are transparent to the result -/

/-- a full-opacity, unmasked pass-through group that is not knocked out, not clipped and has no clip layers -/
structure PlainPassThrough (B : Mode → Color → Color → Color) (pr : Props) : Prop where
  visible : pr.visible = true
  opacity : pr.opacity = 1
  fill : pr.fill = 1
  noMask : pr.hasMask = false
  noKnockout : pr.knockout = false
  notClipped : (pr.clipping && pr.hasClipTarget) = false
  normal : B pr.mode = blNormal

/-- **Pass-through group, pixel inside the group's viewport.** Wrapping consecutive layers in a
full-opacity, unmasked pass-through group changes nothing: same shape, alpha, and the same colour
wherever alpha is not zero. `hview` is discharged by `passthrough_group_transparent` below. -/
theorem passthrough_group_transparent_inside
    (B : Mode → Color → Color → Color) (hB : BOk B) (V : Rect) (x y : Int) (st : PState) (hst : Inv st)
    (pr : Props) (children : List Node) (hp : PlainPassThrough B pr)
    (hV : intersect V pr.bbox ≠ Rect.zero) (hin : (intersect V pr.bbox).contains x y = true)
    (hch : listOk children) (hnko : ∀ n ∈ children, n.props.knockout = false)
    (hview : ∀ n ∈ children, ∀ s, applyNode B (intersect V pr.bbox) x y false s n = applyNode B V x y false s n) :
    let g := applyNode B V x y false st (.group pr true children [])
    let i := applyList B V x y st children
    g.sg = i.sg ∧ g.ag = i.ag ∧ g.a = i.a ∧ g.a0 = i.a0 ∧ g.c0 = i.c0 ∧ (i.a ≠ 0 → ∀ ch, g.c ch = i.c ch) := by
  intro g i
  have hgens := listGens_ok hB V x y children hch
  have hcpl := coupled_run (listGens B V x y children) hgens (coupled_init hst)
  have hex := passthrough_exit hcpl hst
  have hi : i = runGens st (listGens B V x y children) := applyList_eq_runGens B V x y st children hnko
  have hsub : applyList B (intersect V pr.bbox) x y (PState.init st.c st.a false) children
      = runGens (PState.init st.c st.a false) (listGens B V x y children) := by
    rw [applyList_congr_view B V _ x y children hview, applyList_eq_runGens B V x y _ children hnko]
  have hg : g = applySource blNormal st
      (finishColor (runGens (PState.init st.c st.a false) (listGens B V x y children)))
      (runGens (PState.init st.c st.a false) (listGens B V x y children)).sg
      (runGens (PState.init st.c st.a false) (listGens B V x y children)).ag false := by
    show applyNode B V x y false st (.group pr true children []) = _
    unfold applyNode
    simp only [hp.visible, hV, hp.notClipped, hp.noKnockout, hin, Bool.not_true, Bool.false_eq_true, if_false,
      if_true, Bool.not_false, Bool.true_and, List.isEmpty_nil, hsub]
    unfold finishApply maskFactors
    simp only [hp.noMask, Bool.false_eq_true, if_false, hp.opacity, hp.fill, hp.normal, hp.noKnockout, mul_one]
  rw [hg, hi]
  exact hex

/-- Pass-through group, pixel of `V` outside the group's box: the group contributes a zero source,
and so does every child (they lie inside the group's box). -/
theorem passthrough_group_transparent_outside
    (B : Mode → Color → Color → Color) (hB : BOk B) (V : Rect) (x y : Int) (hxy : V.contains x y = true)
    (st : PState) (hst : Composite.Inv st)
    (pr : Props) (children : List Node) (hp : PlainPassThrough B pr)
    (hV : intersect V pr.bbox ≠ Rect.zero) (hin : ¬ (intersect V pr.bbox).contains x y = true)
    (hch : listOk children) (hnko : ∀ n ∈ children, n.props.knockout = false)
    (hbox : ∀ n ∈ children, ∀ px py, n.props.bbox.contains px py = true → pr.bbox.contains px py = true) :
    Same (applyNode B V x y false st (.group pr true children [])) (applyList B V x y st children) := by
  have hin' : (intersect V pr.bbox).contains x y = false := by simpa using hin
  have hprout : pr.bbox.contains x y = false := by
    rw [contains_intersect hV, hxy, Bool.true_and] at hin'; exact hin'
  have hg : Same (applyNode B V x y false st (.group pr true children [])) st := by
    apply transparent_noop B V x y st hst _ (by simpa [Node.props] using hp.noKnockout)
    exact nodeGen_zero_outside B V x y hxy _ (by simpa [Node.props] using hprout)
  have hi : Same (applyList B V x y st children) st := by
    rw [applyList_eq_runGens B V x y st children hnko]
    apply runGens_zero hst _ (listGens_ok hB V x y children hch)
    intro g hg
    -- every generator of the list comes from a child, whose box misses the pixel
    have : ∀ (ns : List Node), (∀ n ∈ ns, n.props.bbox.contains x y = false) →
        ∀ g ∈ listGens B V x y ns, Gen.Zero g := by
      intro ns
      induction ns with
      | nil => intro _ g hg; simp [listGens] at hg
      | cons n ns ih =>
        intro hns g hg
        unfold listGens at hg
        split at hg
        · exact ih (fun m hm => hns m (List.mem_cons_of_mem _ hm)) g hg
        · rcases List.mem_cons.1 hg with rfl | hg'
          · exact nodeGen_zero_outside B V x y hxy n (hns n (List.mem_cons_self ..))
          · exact ih (fun m hm => hns m (List.mem_cons_of_mem _ hm)) g hg'
    apply this children _ g hg
    intro n hn
    cases hc : n.props.bbox.contains x y with
    | false => rfl
    | true => have := hbox n hn x y hc; rw [hprout] at this; exact absurd this (by simp)
  -- Same is symmetric in the fields we need
  refine ⟨hg.sg.trans hi.sg.symm, hg.ag.trans hi.ag.symm, hg.a.trans hi.a.symm, hg.a0.trans hi.a0.symm,
    hg.c0.trans hi.c0.symm, ?_⟩
  intro ha ch
  have hsa : st.a ≠ 0 := by rw [← hi.a]; exact ha
  rw [hg.c hsa ch, hi.c hsa ch]


/-- **Pass-through group.** For children that lie inside the group's box (so that they meet the
group's viewport `V ∩ bbox` and the outer viewport `V` in the same rectangle), at every pixel of
`V`: compositing the group equals compositing its children inline. -/
theorem passthrough_group_transparent
    (B : Mode → Color → Color → Color) (hB : BOk B) (V : Rect) (x y : Int) (hxy : V.contains x y = true)
    (st : PState) (hst : Composite.Inv st)
    (pr : Props) (children : List Node) (hp : PlainPassThrough B pr)
    (hV : intersect V pr.bbox ≠ Rect.zero)
    (hch : listOk children) (hnko : ∀ n ∈ children, n.props.knockout = false)
    (hcov : ∀ n ∈ children, viewEq (intersect V pr.bbox) V n)
    (hbox : ∀ n ∈ children, ∀ px py, n.props.bbox.contains px py = true → pr.bbox.contains px py = true) :
    Same (applyNode B V x y false st (.group pr true children [])) (applyList B V x y st children) := by
  by_cases hin : (intersect V pr.bbox).contains x y = true
  · have hview : ∀ n ∈ children, ∀ s, applyNode B (intersect V pr.bbox) x y false s n = applyNode B V x y false s n :=
      fun n hn s => applyNode_view B _ V x y hin hxy false s n (hcov n hn)
    obtain ⟨h1, h2, h3, h4, h5, h6⟩ :=
      passthrough_group_transparent_inside B hB V x y st hst pr children hp hV hin hch hnko hview
    exact ⟨h1, h2, h3, h4, h5, h6⟩
  · exact passthrough_group_transparent_outside B hB V x y hxy st hst pr children hp hV hin hch hnko hbox

/-! ### the general laws, modulo colour under zero alpha (`Sim`) -/

/-- **Sub-viewport = crop.** For any two viewports containing the pixel (e.g. a sub-viewport and the
full canvas), any backdrop and any well-formed stack: the composited shape and alpha at the pixel
are equal, and so is the colour wherever the alpha is not zero. -/
theorem viewport_is_crop (B : Mode → Color → Color → Color) (V' V : Rect) (x y : Int)
    (h' : V'.contains x y = true) (h : V.contains x y = true) (color : Color) (alpha : Rat)
    (hc : ColorOk color) (ha : Unit01 alpha) (layers : List Node) (hl : listOk layers) :
    let r' := compositeDoc B V' x y color alpha layers
    let r := compositeDoc B V x y color alpha layers
    r'.2.1 = r.2.1 ∧ r'.2.2 = r.2.2 ∧ (r.2.2 ≠ 0 → r'.1 = r.1) := by
  intro r' r
  have i := inv_init hc ha false
  have hs := applyList_sim B V' V x y h' h _ _ (Sim.refl _) i i layers hl
  have it := applyList_inv B V x y _ i layers hl
  exact ⟨hs.sg, hs.ag, fun hne => finishColor_sim hs it hne⟩

theorem applyList_append (B : Mode → Color → Color → Color) (V : Rect) (x y : Int) (st : PState) (a b : List Node) :
    applyList B V x y st (a ++ b) = applyList B V x y (applyList B V x y st a) b := by
  induction a generalizing st with
  | nil => simp [applyList]
  | cons n a ih => simp only [List.cons_append, applyList]; exact ih _

theorem listOk_append {a b : List Node} : listOk (a ++ b) ↔ listOk a ∧ listOk b := by
  induction a with
  | nil => simp [listOk]
  | cons n a ih => simp only [List.cons_append, listOk, ih, and_assoc]

/-- **Inserting a no-op layer anywhere in a stack changes nothing observable**: if the layer leaves
the state it meets indistinguishable (hidden: `hidden_noop`; outside the viewport:
`outside_viewport_noop`; not covering the pixel: `applyNode_outside_sim`; transparent there:
`transparent_noop`), then the whole stack composites to the same shape, alpha and colour
(where alpha ≠ 0), whatever comes before and after it. -/
theorem noop_insert (B : Mode → Color → Color → Color) (V : Rect) (x y : Int) (hV : V.contains x y = true)
    (st : PState) (hst : Composite.Inv st) (pre post : List Node) (n : Node)
    (hpre : listOk pre) (hn : nodeOk n) (hpost : listOk post)
    (hnoop : ∀ s, Composite.Inv s → Sim (applyNode B V x y false s n) s) :
    Sim (applyList B V x y st (pre ++ n :: post)) (applyList B V x y st (pre ++ post)) := by
  rw [applyList_append, applyList_append]
  have ip := applyList_inv B V x y st hst pre hpre
  have e : applyList B V x y (applyList B V x y st pre) (n :: post)
      = applyList B V x y (applyNode B V x y false (applyList B V x y st pre) n) post := by
    simp only [applyList]
  rw [e]
  exact applyList_sim B V V x y hV hV _ _ (hnoop _ ip) (applyNode_inv B V x y false _ ip n hn) ip post hpost

/-- a layer whose box does not cover the pixel is such a no-op -/
theorem outside_pixel_is_noop (B : Mode → Color → Color → Color) (V : Rect) (x y : Int) (hV : V.contains x y = true)
    (n : Node) (hout : n.props.bbox.contains x y = false) :
    ∀ s, Composite.Inv s → Sim (applyNode B V x y false s n) s :=
  fun s hs => applyNode_outside_sim B V x y hV false s hs n hout

/-- what `apply` does with a plain pass-through group at a pixel inside the group's viewport -/
theorem plain_group_apply (B : Mode → Color → Color → Color) (V : Rect) (x y : Int) (st : PState)
    (pr : Props) (children : List Node) (hp : PlainPassThrough B pr)
    (hV : intersect V pr.bbox ≠ Rect.zero) (hin : (intersect V pr.bbox).contains x y = true) :
    applyNode B V x y false st (.group pr true children []) =
      applySource blNormal st
        (finishColor (applyList B (intersect V pr.bbox) x y (PState.init st.c st.a false) children))
        (applyList B (intersect V pr.bbox) x y (PState.init st.c st.a false) children).sg
        (applyList B (intersect V pr.bbox) x y (PState.init st.c st.a false) children).ag false := by
  unfold applyNode
  simp only [hp.visible, hV, hp.notClipped, hp.noKnockout, hin, Bool.not_true, Bool.false_eq_true, if_false,
    if_true, Bool.not_false, Bool.true_and, List.isEmpty_nil]
  unfold finishApply maskFactors
  simp only [hp.noMask, Bool.false_eq_true, if_false, hp.opacity, hp.fill, hp.normal, hp.noKnockout, mul_one]

/-- **Pass-through groups are transparent to the result — general form.** No assumption on how the
children meet the viewports: at every pixel of `V`, a full-opacity, unmasked pass-through group
(not knocked out, not clipped, no clip layers of its own) whose non-knockout children lie inside
its box composites exactly like its children inline: same shape and alpha, same colour wherever
alpha is not zero, and the same for everything composited afterwards (`Sim` is a congruence). -/
theorem passthrough_group_transparent_general
    (B : Mode → Color → Color → Color) (hB : BOk B) (V : Rect) (x y : Int) (hxy : V.contains x y = true)
    (st : PState) (hst : Composite.Inv st)
    (pr : Props) (children : List Node) (hp : PlainPassThrough B pr)
    (hV : intersect V pr.bbox ≠ Rect.zero)
    (hch : listOk children) (hnko : ∀ n ∈ children, n.props.knockout = false)
    (hbox : ∀ n ∈ children, ∀ px py, n.props.bbox.contains px py = true → pr.bbox.contains px py = true) :
    Sim (applyNode B V x y false st (.group pr true children [])) (applyList B V x y st children) := by
  by_cases hin : (intersect V pr.bbox).contains x y = true
  · rw [plain_group_apply B V x y st pr children hp hV hin]
    have i0 := inv_init hst.c hst.a false
    -- the children inside the group's viewport vs inside V: indistinguishable
    have hsub := applyList_sim B (intersect V pr.bbox) V x y hin hxy _ _ (Sim.refl _) i0 i0 children hch
    have is2 := applyList_inv B V x y _ i0 children hch
    rw [hsub.sg, hsub.ag]
    have h1 : Sim
        (applySource blNormal st (finishColor (applyList B (intersect V pr.bbox) x y (PState.init st.c st.a false) children))
          (applyList B V x y (PState.init st.c st.a false) children).sg
          (applyList B V x y (PState.init st.c st.a false) children).ag false)
        (applySource blNormal st (finishColor (applyList B V x y (PState.init st.c st.a false) children))
          (applyList B V x y (PState.init st.c st.a false) children).sg
          (applyList B V x y (PState.init st.c st.a false) children).ag false) :=
      applySource_sim blNormal (Sim.refl st) (fun hne => finishColor_sim hsub is2 hne) false
    apply h1.trans
    -- and leaving the group = inline (exact algebra)
    have hgens := listGens_ok hB V x y children hch
    have hcpl := coupled_run (listGens B V x y children) hgens (coupled_init hst)
    have hex := passthrough_exit hcpl hst
    rw [applyList_eq_runGens B V x y st children hnko, applyList_eq_runGens B V x y _ children hnko]
    obtain ⟨e1, e2, e3, e4, e5, e6⟩ := hex
    exact ⟨e1, e2, e3, e4, fun hne => funext (e6 hne), fun _ => e5⟩
  · have h := passthrough_group_transparent_outside B hB V x y hxy st hst pr children hp hV hin hch hnko hbox
    exact ⟨h.sg, h.ag, h.a, h.a0, fun hne => funext (h.c hne), fun _ => h.c0⟩

end PsdVerif.C13
