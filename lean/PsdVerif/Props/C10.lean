/-
C10 — the layer tree stays well-formed under every edit history.
-/
import PsdVerif.Model.TreeState

namespace PsdVerif.C10
open PsdVerif PsdVerif.Tree

end PsdVerif.C10
