/-
C10 — the layer tree stays well-formed under every edit history.

`Inv` (Lemmas/TreeBasic.lean): (I1) every layer listed in a container reports that container as
its parent and the container's document as its document, (I2) no list contains a layer twice —
with I1: no layer is listed twice at all, (I3) the listing relation is acyclic (rank form),
plus store hygiene. (I4) "traversal visits every layer exactly once" is the theorem
`descendants_nodup`. All statements are about `Cfg.current`, the code as repaired; the
theorems named `legacy_…` are the machine-checked counterexamples of the snapshot.
-/
import PsdVerif.Lemmas.TreeHistory
import PsdVerif.Lemmas.TreeTable
import PsdVerif.Generated.TreeTable

namespace PsdVerif.C10
open PsdVerif PsdVerif.TreeSt

/-! ### The invariant holds initially and is preserved -/

theorem inv_init (limit : Nat) : Inv (State.empty limit) := inv_empty limit

/-- **Invariant step** (exact guard). An operation preserves the invariant provided the layers it
inserts are listed nowhere (`Guard`: the other operations detach first) and the interpreter's
recursion limit is not hit. Refused operations are included. -/
theorem inv_step_partial (s : State) (op : Op) (i : Inv s) (hg : Guard s op)
    (hne : (step .current s op).2 ≠ .error .recursionError) : Inv (step .current s op).1 :=
  inv_step s op i hg hne

/-- **Invariant over histories**: at every point of every guarded edit history (`Guarded`: every
step satisfies the guard and stays below the recursion limit). -/
theorem inv_history (s : State) (ops : List Op) (i : Inv s) (h : Guarded .current s ops) :
    Inv (runState .current s ops) := inv_run s ops i h

/-! ### Refused operations leave the tree unchanged -/

/-- **Refused ⇒ unchanged.** When an operation raises (anything but RecursionError) from a
well-formed tree, every list, parent / document pointer, kind, flag and rectangle is what it was.
(`SameTree` leaves out the caches — the assertion messages format groups with `repr`, which reads
`bbox` — and the dirty flags.) No guard. -/
theorem refused_unchanged (s : State) (op : Op) (e : Err) (i : Inv s)
    (h : (step .current s op).2 = .error e) (hne : e ≠ .recursionError) : SameTree s (step .current s op).1 :=
  step_ref s op e i h hne

/-! ### Consequences of the invariant -/

/-- (I1) every layer below a document reports that document, and its parent pointer names the
container that lists it. -/
theorem reachable_pointers (s : State) (i : Inv s) (d x : Id) (hd : s.kind d = .doc) (r : Reach s d x) :
    s.psd x = some d ∧ ∃ c, s.parent x = some c ∧ x ∈ s.children c := by
  have key : ∀ a y, Reach s a y → s.docOf a = some d → s.psd y = some d := by
    intro a y r
    induction r with
    | edge hx => exact fun h => i.psdOk _ _ d hx h
    | step hx _ ih =>
      intro h
      apply ih
      have := i.psdOk _ _ d hx h
      simp only [State.docOf, i.layerOnly _ _ hx, if_false]
      exact this
  refine ⟨key d x r (by simp [State.docOf, hd]), ?_⟩
  obtain ⟨c, hc, _⟩ := r.last
  exact ⟨c, i.parentOk c x hc, hc⟩

/-- (I2) no layer is listed twice: one container, one position. -/
theorem listed_once (s : State) (i : Inv s) (c c' x : Id) (h : x ∈ s.children c) (h' : x ∈ s.children c') :
    c = c' ∧ (s.children c).count x = 1 :=
  ⟨i.unique h h', by rw [(i.nodup c).count]; simp [h]⟩

/-- (I3) no group is its own ancestor. -/
theorem no_cycle (s : State) (i : Inv s) (x : Id) : ¬ Reach s x x := i.no_cycle x

/-- (I4) `descendants()` visits every layer below `g` exactly once. -/
theorem descendants_nodup (s : State) (i : Inv s) (g : Id) (ds : List Id) (h : desc s g = .ok ds) :
    ds.Nodup ∧ ∀ x, x ∈ ds ↔ Reach s g x := descF_nodup i _ g ds h

/-! ### Concrete states (non-vacuity and counterexamples) -/

/-- `PSDImage.new`, one pixel layer appended, one empty group appended, one detached layer:
document 0 lists [1, 2]; 3 is detached. -/
def demo : State :=
  runState .current (State.empty 50)
    [.newDoc ⟨0, 0, 8, 8⟩, .newLayer (some 0) ⟨0, 0, 2, 2⟩, .newGroup (some 0), .newLayer (some 0) ⟨1, 1, 3, 3⟩,
     .append 0 1]

theorem demo_inv : Inv demo := by
  have i4 : Inv (runState .current (State.empty 50)
      [.newDoc ⟨0, 0, 8, 8⟩, .newLayer (some 0) ⟨0, 0, 2, 2⟩, .newGroup (some 0), .newLayer (some 0) ⟨1, 1, 3, 3⟩]) :=
    inv_history _ _ (inv_init 50) ⟨trivial, by decide, trivial, by decide, trivial, by decide, trivial, by decide, trivial⟩
  exact inv_step_partial _ (.append 0 1) i4 (detached_of_bounded i4 (by decide)) (by decide)

/-- non-vacuity of `inv_step_partial`: a guarded, accepted insertion -/
example : Guard demo (.append 2 3) ∧ (step .current demo (.append 2 3)).2 = .none ∧
    (step .current demo (.append 2 3)).1.children 2 = [3] :=
  ⟨detached_of_bounded demo_inv (by decide), by decide, by decide⟩

/-- **The full-strength invariant step is false** (known finding `C10/append/already-listed`):
`psd.append(x)` for a layer that is already listed is accepted and lists it twice. -/
theorem inv_step_false : ∃ (s : State) (op : Op), Inv s ∧ (step .current s op).2 = .none ∧
    ¬ Inv (step .current s op).1 :=
  ⟨demo, .append 0 1, demo_inv, by decide, fun h => absurd (h.nodup 0) (by decide)⟩

/-- the same across containers: the layer is listed in the document and in the group, and its
parent pointer names only the last one -/
theorem append_listed_elsewhere : (step .current demo (.append 2 1)).2 = .none ∧
    1 ∈ (step .current demo (.append 2 1)).1.children 0 ∧ 1 ∈ (step .current demo (.append 2 1)).1.children 2 ∧
    (step .current demo (.append 2 1)).1.parent 1 = some 2 := by decide

/-- the repaired code refuses `g.extend([g])` and leaves the lists alone … -/
theorem extend_self_refused : (step .current demo (.extend 2 [2])).2 = .error .assertionError ∧
    (step .current demo (.extend 2 [2])).1.children 2 = [] := by decide

/-- … the snapshot accepted it (`_check_valid_layers` compared the list, not its items), listed the
group in itself and then failed with RecursionError: a cycle, and a refused operation that changed
the tree (fixed: cec89fb). -/
theorem legacy_extend_self_cycle : (step .legacy demo (.extend 2 [2])).2 = .error .recursionError ∧
    2 ∈ (step .legacy demo (.extend 2 [2])).1.children 2 := by decide

/-- document 0 lists [1, 2]; group 1 lists [3] -/
def demo2 : State :=
  runState .current (State.empty 50)
    [.newDoc ⟨0, 0, 8, 8⟩, .newGroup (some 0), .newLayer (some 0) ⟨0, 0, 2, 2⟩, .newLayer (some 0) ⟨1, 1, 3, 3⟩,
     .append 0 2, .append 1 3]

/-- `group_layers([g, x], parent=g)`: the snapshot moved both layers into the new group and was then
refused by `parent.append(group)` — the document lost them (fixed: 09c40bc) … -/
theorem legacy_group_layers_refused_changed :
    (step .legacy demo2 (.groupLayers [1, 2] (some 1))).2 = .error .assertionError ∧
    (step .legacy demo2 (.groupLayers [1, 2] (some 1))).1.children 0 = [] := by decide

/-- … the repaired code refuses before anything is moved. -/
theorem group_layers_refused_unchanged :
    (step .current demo2 (.groupLayers [1, 2] (some 1))).2 = .error .assertionError ∧
    (step .current demo2 (.groupLayers [1, 2] (some 1))).1.children 0 = [1, 2] := by decide

/-- the snapshot's `descendants()` also yielded `clip_layers` of every child: with layer 2 clipped
to layer 1 it is visited twice (fixed: 277014b) -/
theorem legacy_descendants_twice :
    (descLegacyF (fun x => if x = 1 then [2] else []) demo2 50 0).toOption = some [1, 3, 2, 2] ∧
    (desc demo2 0).toOption = some [1, 3, 2] := by
  decide

/-- why `refused_unchanged` speaks about the tree and not about the whole state: a refused
operation may fill a cache (the assertion message formats the group) … -/
theorem refused_fills_cache : demo.cache 2 = none ∧
    (step .current demo (.extend 2 [2])).1.cache 2 = some BBox.zero := by decide

/-- … the snapshot's `del g[k]` also set the dirty flag before the list raised IndexError
(order changed by the C15 repair 19d58e7: list operation first) -/
theorem delitem_refused_keeps_dirty :
    let s := { demo with dirty := fun _ => false }
    (step .current s (.delitem 2 0)).2 = .error .indexError ∧ (step .current s (.delitem 2 0)).1.dirty 0 = false := by
  decide

/-- Why the recursion limit appears in the hypotheses: with a budget of 1 the traversal made by
`_update_layer_metadata` fails AFTER the list was changed — the refused operation leaves the
layer listed with no parent pointer. -/
theorem recursion_limit_after_mutation :
    let s := { demo with limit := 1 }
    (step .current s (.append 0 3)).2 = .error .recursionError ∧
    3 ∈ (step .current s (.append 0 3)).1.children 0 ∧ (step .current s (.append 0 3)).1.parent 3 = none := by
  decide


/-! ### The mutators as the source writes them (regenerated table, `Model/TreeTable.lean`)

`Generated/TreeTable.lean` lists every public structural mutator step by step (harness/extract_c10.py).
`tableOk` is the decidable structural condition: (a) every validation precedes the mutation that uses its
argument — directly — and nothing that can refuse comes after the first change of the tree unless the same facts
were checked before it (in particular no per-item validate-and-mutate loop), (b) iterables are materialised once
before they are validated and used, (c) every raw insertion into a container is directly followed by the pointer
refresh of that container, which covers all descendants (document) and all children (parent), (d) every raw
mutation of a container is followed by the record refresh of THAT container (for a move: source and destination),
which marks the container's document, (e) nothing unclassified. -/

open PsdVerif.TreeTable in
/-- **the current source satisfies the structural condition** -/
theorem current_tree_table_ok : tableOk Generated.TreeTable.table = true := by decide

open PsdVerif.TreeTable in
/-- the helper descriptions are the standard ones and the rows of the `GroupMixin` list mutators are the rows the
transfer theorems are stated for -/
theorem current_table_std : StdRows Generated.TreeTable.table = true := by decide

open PsdVerif.TreeTable in
/-- **one run of the table machine is the hand-written operation**, for any table with these rows -/
theorem table_step_eq (t : Table) (h : StdRows t = true) (s : State) (op : Op) (hop : Op.listMutator op = true) :
    tableStep t s op = step .current s op := tableStep_eq_step h s op hop

open PsdVerif.TreeTable in
/-- **invariant step for the table machine** (guard: inserted layers are detached), any table with these rows -/
theorem table_inv_step (t : Table) (h : StdRows t = true) (s : State) (op : Op) (hop : Op.listMutator op = true)
    (i : Inv s) (hg : Guard s op) (hne : (tableStep t s op).2 ≠ .error .recursionError) : Inv (tableStep t s op).1 := by
  rw [tableStep_eq_step h s op hop] at hne ⊢
  exact inv_step s op i hg hne

open PsdVerif.TreeTable in
/-- **a refusal of the table machine leaves the tree unchanged**, any table with these rows -/
theorem table_refused_unchanged (t : Table) (h : StdRows t = true) (s : State) (op : Op) (hop : Op.listMutator op = true)
    (e : Err) (i : Inv s) (he : (tableStep t s op).2 = .error e) (hne : e ≠ .recursionError) :
    SameTree s (tableStep t s op).1 := by
  rw [tableStep_eq_step h s op hop] at he ⊢
  exact step_ref s op e i he hne

/-- non-vacuity: the current table, a guarded accepted insertion -/
example : (PsdVerif.TreeTable.tableStep Generated.TreeTable.table demo (.append 2 3)).2 = .none ∧
    (PsdVerif.TreeTable.tableStep Generated.TreeTable.table demo (.append 2 3)).1.children 2 = [3] := by decide

/-! #### each clause of `tableOk` is needed: a table violating it, and what its machine does -/

section Witness
open PsdVerif.TreeTable

def wt (r : Row) : Table := ⟨[r], .std, .std, .std⟩

/-- (a) validation AFTER the mutation -/
def lateCheck : Row :=
  ⟨"GroupMixin.extend", [.line [.mat "layers_1" (.list "layers") "layers" [],
      .mutate (.var "self") (.extend (.list "layers_1")) [], .validate (.var "self") (.list "layers_1") [],
      .refresh (.var "self") [], .dirty (.var "self") []]], ""⟩

/-- `g.extend([g])` is refused, and `g` lists itself -/
theorem validation_after_mutation : tableOk (wt lateCheck) = false ∧
    (tableStep (wt lateCheck) demo (.extend 2 [2])).2.isError = true ∧
    2 ∈ (tableStep (wt lateCheck) demo (.extend 2 [2])).1.children 2 := by decide

/-- (a) a per-item loop: validate and mutate item by item -/
def perItem : Row :=
  ⟨"GroupMixin.extend", [.line [.mat "layers_1" (.list "layers") "layers" []],
    .loop "layer" "layers_1" [.validate (.var "self") (.single (.var "layer")) [],
      .mutate (.var "self") (.extend (.single (.var "layer"))) [], .refresh (.var "self") [], .dirty (.var "self") []]], ""⟩

/-- `g.extend([x, g])` is refused after `x` was listed: non-atomic -/
theorem per_item_loop_not_atomic : tableOk (wt perItem) = false ∧
    (tableStep (wt perItem) demo (.extend 2 [3, 2])).2 = .error .assertionError ∧
    (tableStep (wt perItem) demo (.extend 2 [3, 2])).1.children 2 = [3] ∧
    (tableStep (wt rowExtend) demo (.extend 2 [3, 2])).1.children 2 = [] := by decide

/-- (b) no materialisation: the validation consumes a generator -/
def noMat : Row :=
  ⟨"GroupMixin.extend", [.line [.validate (.var "self") (.list "layers") [],
      .mutate (.var "self") (.extend (.list "layers")) [], .refresh (.var "self") [], .dirty (.var "self") []]], ""⟩

/-- `g.extend(x for x in [x])` is accepted and lists nothing; as the library writes it, it lists `x` -/
theorem generator_consumed_by_validation : tableOk (wt noMat) = false ∧
    (runRow (wt noMat) "GroupMixin.extend" demo [("self", vObj 2), ("layers", .list [3] true)]).2 = .none ∧
    (runRow (wt noMat) "GroupMixin.extend" demo [("self", vObj 2), ("layers", .list [3] true)]).1.children 2 = [] ∧
    (runRow (wt rowExtend) "GroupMixin.extend" demo [("self", vObj 2), ("layers", .list [3] true)]).1.children 2 = [3] := by
  decide

/-- document 0; loose group 1 listing layer 2 (neither has a document) -/
def loose : State :=
  runState .current (State.empty 50) [.newDoc ⟨0, 0, 8, 8⟩, .newGroup none, .newLayer none ⟨0, 0, 2, 2⟩, .append 1 2]

/-- (c) the pointer refresh assigns the document over the children only -/
def childrenOnly : Table := ⟨[rowAppend], .std, { Refresh.std with psdOver := .children }, .std⟩

theorem refresh_over_wrong_set : tableOk childrenOnly = false ∧
    (tableStep childrenOnly loose (.append 0 1)).2 = .none ∧
    (tableStep childrenOnly loose (.append 0 1)).1.psd 1 = some 0 ∧
    (tableStep childrenOnly loose (.append 0 1)).1.psd 2 = none ∧
    (tableStep (wt rowAppend) loose (.append 0 1)).1.psd 2 = some 0 := by decide

/-- (c) no pointer refresh after the insertion -/
def noRefresh : Row :=
  ⟨"GroupMixin.append", [.line [.assert (.ne (.var "layer") (.var "self")) [] [],
      .mat "layers_1" (.single (.var "layer")) "[layer]" [], .validate (.var "self") (.list "layers_1") [],
      .mutate (.var "self") (.extend (.list "layers_1")) [], .dirty (.var "self") []]], ""⟩

theorem refresh_missing : tableOk (wt noRefresh) = false ∧
    3 ∈ (tableStep (wt noRefresh) demo (.append 2 3)).1.children 2 ∧
    (tableStep (wt noRefresh) demo (.append 2 3)).1.parent 3 = none := by decide

/-- documents 0 and 1, layer 2 listed in document 0, nothing marked edited -/
def twoDocs : State :=
  { runState .current (State.empty 50) [.newDoc ⟨0, 0, 8, 8⟩, .newDoc ⟨0, 0, 8, 8⟩, .newLayer (some 0) ⟨0, 0, 2, 2⟩,
      .append 0 2] with dirty := fun _ => false }

/-- (d) `move_to_group` detaching with the raw list operation only: the record refresh is made on the destination -/
def destOnly : Row :=
  ⟨"Layer.move_to_group", [.line [.assert (.isGroup (.var "group")) [] [], .assert (.ne (.var "group") (.var "self")) [] [],
      .test 2 (.and (.notNone (.parent (.var "self"))) (.isGroup (.parent (.var "self")))) [],
      .test 3 (.listedIn (.var "self") (.parent (.var "self"))) [(2, true)],
      .mutate (.parent (.var "self")) (.remove (.var "self")) [(2, true), (3, true)],
      .mat "layers_1" (.single (.var "self")) "[self]" [], .validate (.var "group") (.list "layers_1") [],
      .mutate (.var "group") (.extend (.list "layers_1")) [], .refresh (.var "group") [], .dirty (.var "group") []]], "self"⟩

/-- the layer left document 0, which is not marked edited (a save would write the old tree) -/
theorem source_document_not_marked : tableOk (wt destOnly) = false ∧
    (tableStep (wt destOnly) twoDocs (.moveToGroup 2 1)).2 = .id 2 ∧
    (tableStep (wt destOnly) twoDocs (.moveToGroup 2 1)).1.children 0 = [] ∧
    (tableStep (wt destOnly) twoDocs (.moveToGroup 2 1)).1.dirty 0 = false ∧
    (tableStep (wt destOnly) twoDocs (.moveToGroup 2 1)).1.dirty 1 = true ∧
    (tableStep Generated.TreeTable.table twoDocs (.moveToGroup 2 1)).1.dirty 0 = true := by decide

/-- (d) `_update_psd_record` no longer sets `_updated_layers` -/
theorem record_refresh_not_marking : tableOk ⟨[rowAppend], .std, .std, ⟨false⟩⟩ = false ∧
    (tableStep ⟨[rowAppend], .std, .std, ⟨false⟩⟩ twoDocs (.append 1 2)).1.dirty 1 = false := by decide

/-- `_check_valid_layers` without the descendants test: a group is listed below itself -/
theorem check_without_loop_test : tableOk ⟨[rowAppend], { Check.std with noLoop := false, exact := false }, .std, .std⟩ = false ∧
    (let s := (step .current demo (.append 2 3)).1
     let s' := (step .current (step .current s (.newGroup (some 2))).1 (.setAttr 0)).1
     (tableStep ⟨[rowAppend], { Check.std with noLoop := false, exact := false }, .std, .std⟩ s' (.append 4 2)).2 ≠ .error .assertionError) := by
  decide

end Witness

end PsdVerif.C10
