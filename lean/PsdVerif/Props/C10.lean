/-
C10 — the layer tree stays well-formed under every edit history.

`Inv` (Lemmas/TreeBasic.lean): (I1) every layer listed in a container reports that container as
its parent and the container's document as its document, (I2) no list contains a layer twice —
with I1: no layer is listed twice at all, (I3) the listing relation is acyclic (rank form),
plus store hygiene. (I4) "traversal visits every layer exactly once" is the theorem
`descendants_nodup`. All statements are about `Cfg.current`, the code as repaired; the
theorems named `legacy_…` are the machine-checked counterexamples of the snapshot.
-/
import PsdVerif.Lemmas.TreeHistory

namespace PsdVerif.C10
open PsdVerif PsdVerif.TreeSt

/-! ### The invariant holds initially and is preserved -/

theorem inv_init (limit : Nat) : Inv (State.empty limit) := inv_empty limit

/-- **Invariant step** (exact guard). An operation preserves the invariant provided the layers it
inserts are listed nowhere (`Guard`: the other operations detach first) and the interpreter's
recursion limit is not hit. Refused operations are included. -/
theorem inv_step_partial (s : State) (op : Op) (i : Inv s) (hg : Guard s op)
    (hne : (step .current s op).2 ≠ .error .recursionError) : Inv (step .current s op).1 :=
  inv_step s op i hg hne

/-- **Invariant over histories**: at every point of every guarded edit history (`Guarded`: every
step satisfies the guard and stays below the recursion limit). -/
theorem inv_history (s : State) (ops : List Op) (i : Inv s) (h : Guarded .current s ops) :
    Inv (runState .current s ops) := inv_run s ops i h

/-! ### Refused operations leave the tree unchanged -/

/-- **Refused ⇒ unchanged.** When an operation raises (anything but RecursionError) from a
well-formed tree, every list, parent / document pointer, kind, flag and rectangle is what it was.
(`SameTree` leaves out the caches — the assertion messages format groups with `repr`, which reads
`bbox` — and the dirty flags.) No guard. -/
theorem refused_unchanged (s : State) (op : Op) (e : Err) (i : Inv s)
    (h : (step .current s op).2 = .error e) (hne : e ≠ .recursionError) : SameTree s (step .current s op).1 :=
  step_ref s op e i h hne

/-! ### Consequences of the invariant -/

/-- (I1) every layer below a document reports that document, and its parent pointer names the
container that lists it. -/
theorem reachable_pointers (s : State) (i : Inv s) (d x : Id) (hd : s.kind d = .doc) (r : Reach s d x) :
    s.psd x = some d ∧ ∃ c, s.parent x = some c ∧ x ∈ s.children c := by
  have key : ∀ a y, Reach s a y → s.docOf a = some d → s.psd y = some d := by
    intro a y r
    induction r with
    | edge hx => exact fun h => i.psdOk _ _ d hx h
    | step hx _ ih =>
      intro h
      apply ih
      have := i.psdOk _ _ d hx h
      simp only [State.docOf, i.layerOnly _ _ hx, if_false]
      exact this
  refine ⟨key d x r (by simp [State.docOf, hd]), ?_⟩
  obtain ⟨c, hc, _⟩ := r.last
  exact ⟨c, i.parentOk c x hc, hc⟩

/-- (I2) no layer is listed twice: one container, one position. -/
theorem listed_once (s : State) (i : Inv s) (c c' x : Id) (h : x ∈ s.children c) (h' : x ∈ s.children c') :
    c = c' ∧ (s.children c).count x = 1 :=
  ⟨i.unique h h', by rw [(i.nodup c).count]; simp [h]⟩

/-- (I3) no group is its own ancestor. -/
theorem no_cycle (s : State) (i : Inv s) (x : Id) : ¬ Reach s x x := i.no_cycle x

/-- (I4) `descendants()` visits every layer below `g` exactly once. -/
theorem descendants_nodup (s : State) (i : Inv s) (g : Id) (ds : List Id) (h : desc s g = .ok ds) :
    ds.Nodup ∧ ∀ x, x ∈ ds ↔ Reach s g x := descF_nodup i _ g ds h

/-! ### Concrete states (non-vacuity and counterexamples) -/

/-- `PSDImage.new`, one pixel layer appended, one empty group appended, one detached layer:
document 0 lists [1, 2]; 3 is detached. -/
def demo : State :=
  runState .current (State.empty 50)
    [.newDoc ⟨0, 0, 8, 8⟩, .newLayer (some 0) ⟨0, 0, 2, 2⟩, .newGroup (some 0), .newLayer (some 0) ⟨1, 1, 3, 3⟩,
     .append 0 1]

theorem demo_inv : Inv demo := by
  have i4 : Inv (runState .current (State.empty 50)
      [.newDoc ⟨0, 0, 8, 8⟩, .newLayer (some 0) ⟨0, 0, 2, 2⟩, .newGroup (some 0), .newLayer (some 0) ⟨1, 1, 3, 3⟩]) :=
    inv_history _ _ (inv_init 50) ⟨trivial, by decide, trivial, by decide, trivial, by decide, trivial, by decide, trivial⟩
  exact inv_step_partial _ (.append 0 1) i4 (detached_of_bounded i4 (by decide)) (by decide)

/-- non-vacuity of `inv_step_partial`: a guarded, accepted insertion -/
example : Guard demo (.append 2 3) ∧ (step .current demo (.append 2 3)).2 = .none ∧
    (step .current demo (.append 2 3)).1.children 2 = [3] :=
  ⟨detached_of_bounded demo_inv (by decide), by decide, by decide⟩

/-- **The full-strength invariant step is false** (known finding `C10/append/already-listed`):
`psd.append(x)` for a layer that is already listed is accepted and lists it twice. -/
theorem inv_step_false : ∃ (s : State) (op : Op), Inv s ∧ (step .current s op).2 = .none ∧
    ¬ Inv (step .current s op).1 :=
  ⟨demo, .append 0 1, demo_inv, by decide, fun h => absurd (h.nodup 0) (by decide)⟩

/-- the same across containers: the layer is listed in the document and in the group, and its
parent pointer names only the last one -/
theorem append_listed_elsewhere : (step .current demo (.append 2 1)).2 = .none ∧
    1 ∈ (step .current demo (.append 2 1)).1.children 0 ∧ 1 ∈ (step .current demo (.append 2 1)).1.children 2 ∧
    (step .current demo (.append 2 1)).1.parent 1 = some 2 := by decide

/-- the repaired code refuses `g.extend([g])` and leaves the lists alone … -/
theorem extend_self_refused : (step .current demo (.extend 2 [2])).2 = .error .assertionError ∧
    (step .current demo (.extend 2 [2])).1.children 2 = [] := by decide

/-- … the snapshot accepted it (`_check_valid_layers` compared the list, not its items), listed the
group in itself and then failed with RecursionError: a cycle, and a refused operation that changed
the tree (fixed: cec89fb). -/
theorem legacy_extend_self_cycle : (step .legacy demo (.extend 2 [2])).2 = .error .recursionError ∧
    2 ∈ (step .legacy demo (.extend 2 [2])).1.children 2 := by decide

/-- document 0 lists [1, 2]; group 1 lists [3] -/
def demo2 : State :=
  runState .current (State.empty 50)
    [.newDoc ⟨0, 0, 8, 8⟩, .newGroup (some 0), .newLayer (some 0) ⟨0, 0, 2, 2⟩, .newLayer (some 0) ⟨1, 1, 3, 3⟩,
     .append 0 2, .append 1 3]

/-- `group_layers([g, x], parent=g)`: the snapshot moved both layers into the new group and was then
refused by `parent.append(group)` — the document lost them (fixed: 09c40bc) … -/
theorem legacy_group_layers_refused_changed :
    (step .legacy demo2 (.groupLayers [1, 2] (some 1))).2 = .error .assertionError ∧
    (step .legacy demo2 (.groupLayers [1, 2] (some 1))).1.children 0 = [] := by decide

/-- … the repaired code refuses before anything is moved. -/
theorem group_layers_refused_unchanged :
    (step .current demo2 (.groupLayers [1, 2] (some 1))).2 = .error .assertionError ∧
    (step .current demo2 (.groupLayers [1, 2] (some 1))).1.children 0 = [1, 2] := by decide

/-- the snapshot's `descendants()` also yielded `clip_layers` of every child: with layer 2 clipped
to layer 1 it is visited twice (fixed: 277014b) -/
theorem legacy_descendants_twice :
    (descLegacyF (fun x => if x = 1 then [2] else []) demo2 50 0).toOption = some [1, 3, 2, 2] ∧
    (desc demo2 0).toOption = some [1, 3, 2] := by
  decide

/-- why `refused_unchanged` speaks about the tree and not about the whole state: a refused
operation may fill a cache (the assertion message formats the group) … -/
theorem refused_fills_cache : demo.cache 2 = none ∧
    (step .current demo (.extend 2 [2])).1.cache 2 = some BBox.zero := by decide

/-- … the snapshot's `del g[k]` also set the dirty flag before the list raised IndexError
(order changed by the C15 repair 19d58e7: list operation first) -/
theorem delitem_refused_keeps_dirty :
    let s := { demo with dirty := fun _ => false }
    (step .current s (.delitem 2 0)).2 = .error .indexError ∧ (step .current s (.delitem 2 0)).1.dirty 0 = false := by
  decide

/-- Why the recursion limit appears in the hypotheses: with a budget of 1 the traversal made by
`_update_layer_metadata` fails AFTER the list was changed — the refused operation leaves the
layer listed with no parent pointer. -/
theorem recursion_limit_after_mutation :
    let s := { demo with limit := 1 }
    (step .current s (.append 0 3)).2 = .error .recursionError ∧
    3 ∈ (step .current s (.append 0 3)).1.children 0 ∧ (step .current s (.append 0 3)).1.parent 3 = none := by
  decide

end PsdVerif.C10
