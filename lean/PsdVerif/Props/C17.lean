/-
C17 — the stored merged image is valid after a structural edit, untouched otherwise.
Property theorems only; helper lemmas live in `Lemmas/Merged.lean`.

This file keeps the numeric composite and the sample arithmetic as parameters (decision logic of
`save()`, geometry). "The merged image equals the composite of the saved layers" is proved in
`Props/C17Pixels.lean` (same namespace), where they are instantiated with the compositor model of C11
and the arithmetic of `_merged_planes` over `Rat` (`Model/MergedPixels.lean`): `merged_equals_composite`,
`merged_equals_published_model`, the quantisation laws, `flatten_uses_alpha`, `merged_is_crop`, the ties
to the source. (A separate file because it needs single Mathlib modules and the C11 / C13 property
files, which this file — imported by `Props/C03Pixels.lean` — must not pull in.)
-/
import PsdVerif.Model.Merged
import PsdVerif.Lemmas.Merged
set_option linter.unusedSimpArgs false

namespace PsdVerif.C17
open PsdVerif PsdVerif.Pixels PsdVerif.Merged

/-- supported by the regeneration: 8/16/32 bits, grayscale / RGB / CMYK -/
def Supported (h : Header) : Prop :=
  (h.depth = 8 ∨ h.depth = 16 ∨ h.depth = 32) ∧ h.cmode ≠ .bitmap

section
variable {α : Type}

/-- When nothing structural was edited, `save()` leaves the document — in particular the
image-data section, byte for byte — as it is. -/
theorem unedited_preserved (Q : Quant α) (s : DocState) (c : Composite α) (h : s.dirty = false) :
    save Q s c = .ok s := by
  simp [save, h]

/-- … in terms of histories: a history of attribute edits and read-only operations (anything
that is not a list-like mutation of a group or of the document) on a freshly opened
document leaves the image-data section as it is. -/
theorem unedited_history_preserved (Q : Quant α) (s : DocState) (c : Composite α) (ops : List Op)
    (hops : ∀ o ∈ ops, o.structural = false) (h : s.dirty = dirtyAfter false ops) :
    save Q s c = .ok s := by
  apply unedited_preserved Q s c
  rw [h]
  simp only [dirtyAfter, Bool.false_or, List.any_eq_false]
  intro o ho
  simp [hops o ho]

/-- Modes / depths the regeneration does not cover: the merged image is left as it is
(stale, but as valid as before), never replaced by something of another shape. -/
theorem unsupported_untouched (Q : Quant α) (s : DocState) (c : Composite α)
    (h : ¬ Supported s.info.header) : save Q s c = .ok s := by
  have hnone : ∀ b, mergedRoutes s.info b = .ok none := by
    intro b
    unfold mergedRoutes
    have : ¬(s.info.header.depth = 8 ∨ s.info.header.depth = 16 ∨ s.info.header.depth = 32) ∨
        s.info.header.cmode = .bitmap := by
      by_cases h1 : (s.info.header.depth = 8 ∨ s.info.header.depth = 16 ∨ s.info.header.depth = 32)
      · right
        by_cases h2 : s.info.header.cmode = .bitmap
        · exact h2
        · exact absurd ⟨h1, h2⟩ h
      · left; exact h1
    simp only [this, if_true]
  by_cases hd : s.dirty = true
  · cases hg : getData s.imageData s.info.header <;> simp [save, hd, hg, hnone]
  · simp [save, hd]

/-- **merged_plane_count** and **merged_readable.** After a structural edit, for every
supported document whose header has at least the colour channels of its mode, whatever the
old merged image was (readable or not), whatever the compression: `save()` succeeds and
stores exactly `header.channels` planes of `width * height * depth / 8` bytes each, which
`ImageData.get_data` returns again; the preview flag says the merged image is there. -/
theorem merged_plane_count (Q : Quant α) (hQ : Q.Lawful) (s : DocState) (c : Composite α)
    (hd : s.dirty = true) (hs : Supported s.info.header)
    (hch : s.info.header.cmode.expected ≤ s.info.header.channels) (hc : c.WF s.info.header) :
    ∃ planes s', save Q s c = .ok s' ∧
      s'.imageData = setData s.imageData.comp planes s.info.header ∧
      s'.info.header = s.info.header ∧
      planes.length = s.info.header.channels ∧
      (∀ p ∈ planes, p.length = s.info.header.width * s.info.header.height * (s.info.header.depth / 8)) ∧
      getData s'.imageData s'.info.header = .ok planes ∧
      s'.info.hasPreview = true := by
  obtain ⟨hdep, hb⟩ := hs
  have hpb : planeBytes s.info.header
      = s.info.header.width * s.info.header.height * (s.info.header.depth / 8) := by
    unfold planeBytes
    rcases hdep with h | h | h <;> simp [h]
  have hpos : 0 < s.info.header.channels := by
    have : 0 < s.info.header.cmode.expected := by cases s.info.header.cmode <;> simp [CMode.expected]
    omega
  -- the old planes, when readable, have the header geometry
  cases hold : getData s.imageData s.info.header with
  | ok ps =>
    obtain ⟨hl, hsz⟩ := getData_geometry _ _ _ hold
    obtain ⟨rs, hrs, hrl, hrv⟩ := mergedRoutes_ok s.info true hdep hb hch
    simp only [if_true] at hrv
    obtain ⟨planes, hp, hpl, hpall⟩ := traverse_all (realise Q s.info.header.depth c ps)
      (fun p => p.length = planeBytes s.info.header) rs
      (fun r hr => realise_ok Q hQ s.info.header hdep c hc ps hsz r (by rw [hl]; exact hrv r hr))
    refine ⟨planes, DocState.mk { s.info with versionInfo := s.info.versionInfo.map (fun _ => true) }
        (setData s.imageData.comp planes s.info.header) s.dirty,
      ?_, rfl, rfl, by rw [hpl, hrl], ?_, ?_, ?_⟩
    · simp [save, hd, hold, hrs, hp]
    · intro p hpm; rw [← hpb]; exact hpall p hpm
    · exact getData_setData _ _ _ (by rw [hpl, hrl]) hpall hpos
    · cases hv : s.info.versionInfo <;> simp [Meta.hasPreview, hv]
  | error e =>
    obtain ⟨rs, hrs, hrl, hrv⟩ := mergedRoutes_ok s.info false hdep hb hch
    simp only [Bool.false_eq_true, if_false] at hrv
    obtain ⟨planes, hp, hpl, hpall⟩ := traverse_all (realise Q s.info.header.depth c [])
      (fun p => p.length = planeBytes s.info.header) rs
      (fun r hr => realise_ok Q hQ s.info.header hdep c hc [] (by simp) r (by simpa using hrv r hr))
    refine ⟨planes, DocState.mk { s.info with versionInfo := s.info.versionInfo.map (fun _ => true) }
        (setData s.imageData.comp planes s.info.header) s.dirty,
      ?_, rfl, rfl, by rw [hpl, hrl], ?_, ?_, ?_⟩
    · simp [save, hd, hold, hrs, hp]
    · intro p hpm; rw [← hpb]; exact hpall p hpm
    · exact getData_setData _ _ _ (by rw [hpl, hrl]) hpall hpos
    · cases hv : s.info.versionInfo <;> simp [Meta.hasPreview, hv]

/-- the hypotheses are satisfiable: a 1×1 RGB document, unit samples -/
example : ∃ (Q : Quant Unit) (s : DocState) (c : Composite Unit),
    Q.Lawful ∧ s.dirty = true ∧ Supported s.info.header ∧
    s.info.header.cmode.expected ≤ s.info.header.channels ∧ c.WF s.info.header :=
  ⟨{ enc := fun d _ => List.replicate (d / 8) 0, flat := fun _ _ => (), one := () },
   { info := { header := { cmode := .rgb, channels := 3, depth := 8, width := 1, height := 1 } },
     imageData := { comp := .zip, payload := [] }, dirty := true },
   { color := [[()], [()], [()]], alpha := [()] },
   by intro d x; simp, rfl, by unfold Supported; decide, by decide, by unfold Composite.WF; decide⟩

/-- **The flag survives a save.** `save()` never resets `_updated_layers`, and it leaves the header
and the compression method alone. -/
theorem save_keeps_dirty (Q : Quant α) (s s' : DocState) (c : Composite α) (h : save Q s c = .ok s') :
    s'.dirty = s.dirty ∧ s'.info.header = s.info.header ∧ s'.imageData.comp = s.imageData.comp :=
  save_keeps Q s s' c h

/-- **second_save_still_regenerates.** A supported document whose structure was edited is saved
(the composite of its layers being `c1`), then any operations are applied — attribute edits,
read-only calls, further structural edits — and it is saved again, the composite of its layers now
being `c2`: both saves succeed, and the second file's merged image is the regeneration from `c2`
(not the image of the first save): `header.channels` planes that `get_data` returns again. The
document stays "edited" for every save after that. -/
theorem second_save_still_regenerates (Q : Quant α) (hQ : Q.Lawful) (s : DocState) (c1 c2 : Composite α)
    (ops : List Op) (hd : s.dirty = true) (hs : Supported s.info.header)
    (hch : s.info.header.cmode.expected ≤ s.info.header.channels)
    (hc1 : c1.WF s.info.header) (hc2 : c2.WF s.info.header) :
    ∃ s1 s1' planes s2, save Q s c1 = .ok s1 ∧ runEvents Q s1 (ops.map Event.op) = .ok s1' ∧
      regenerate Q s1' c2 = .ok (some planes) ∧
      runEvents Q s (Event.save c1 :: (ops.map Event.op ++ [Event.save c2])) = .ok s2 ∧
      s2.imageData = setData s.imageData.comp planes s.info.header ∧
      planes.length = s.info.header.channels ∧
      getData s2.imageData s2.info.header = .ok planes ∧
      s2.info.hasPreview = true ∧ s2.dirty = true := by
  obtain ⟨_, s1, h1, _⟩ := merged_plane_count Q hQ s c1 hd hs hch hc1
  obtain ⟨k1, k2, k3⟩ := save_keeps Q s s1 c1 h1
  obtain ⟨hdep, hb⟩ := hs
  have hd' : dirtyAfter s1.dirty ops = true := by simp [dirtyAfter, k1, hd]
  have hrun := runEvents_ops Q s1 ops
  rw [hd'] at hrun
  -- the document as the second save sees it: `{ s1 with dirty := true }`
  obtain ⟨planes, hreg, hpl, hpall⟩ := regenerate_ok Q hQ { s1 with dirty := true } c2
    (by show s1.info.header.depth = 8 ∨ _; rw [k2]; exact hdep)
    (by show s1.info.header.cmode ≠ _; rw [k2]; exact hb)
    (by show s1.info.header.cmode.expected ≤ s1.info.header.channels; rw [k2]; exact hch)
    (by show c2.WF s1.info.header; rw [k2]; exact hc2)
  have hpl' : planes.length = s.info.header.channels := by rw [← k2]; exact hpl
  have hpall' : ∀ p ∈ planes, p.length = planeBytes s.info.header := by rw [← k2]; exact hpall
  have hpos : 0 < s.info.header.channels := by
    have : 0 < s.info.header.cmode.expected := by cases s.info.header.cmode <;> simp [CMode.expected]
    omega
  have hsave2 := save_eq_regenerate Q { s1 with dirty := true } c2
  simp only [hreg, Bool.not_true, Bool.false_eq_true, if_false] at hsave2
  refine ⟨s1, _, planes,
    { info := { s1.info with versionInfo := s1.info.versionInfo.map fun _ => true },
      imageData := setData s1.imageData.comp planes s1.info.header, dirty := true },
    h1, hrun, hreg, ?_, ?_, hpl', ?_, ?_, rfl⟩
  · simp only [runEvents, step, h1]
    rw [runEvents_append Q s1 _ _ _ hrun]
    simp only [runEvents, step, hsave2]
  · simp only [k2, k3]
  · simp only [k2]
    exact getData_setData _ _ _ hpl' hpall' hpos
  · cases hv : s1.info.versionInfo <;> simp [Meta.hasPreview, hv]

/-- the hypotheses are satisfiable (the document of the example above, two composites) -/
example : ∃ (Q : Quant Unit) (s : DocState) (c1 c2 : Composite Unit),
    Q.Lawful ∧ s.dirty = true ∧ Supported s.info.header ∧
    s.info.header.cmode.expected ≤ s.info.header.channels ∧ c1.WF s.info.header ∧ c2.WF s.info.header :=
  ⟨{ enc := fun d _ => List.replicate (d / 8) 0, flat := fun _ _ => (), one := () },
   { info := { header := { cmode := .rgb, channels := 3, depth := 8, width := 1, height := 1 } },
     imageData := { comp := .zip, payload := [] }, dirty := true },
   { color := [[()], [()], [()]], alpha := [()] }, { color := [[()], [()], [()]], alpha := [()] },
   by intro d x; simp, rfl, by unfold Supported; decide, by decide, by unfold Composite.WF; decide,
   by unfold Composite.WF; decide⟩

/-- The second file really depends on the second composite: a 1×1 grayscale document, one byte
per sample; the layers render 10 at the first save and 20 at the second (say, after an opacity
edit) — the second file holds 20. (With a `save()` that reset the flag it would hold 10.) -/
theorem second_save_uses_second_composite :
    let Q : Quant Nat := { enc := fun _ x => [UInt8.ofNat x], flat := fun c _ => c, one := 255 }
    let s : DocState := { info := { header := { cmode := .gray, channels := 1, depth := 8, width := 1, height := 1 },
                                    layerCount := 1 },
                          imageData := { comp := .raw, payload := [0] }, dirty := true }
    (runEvents Q s [.save ⟨[[10]], [255]⟩, .op .setOpacity, .save ⟨[[20]], [255]⟩]).map (·.imageData.payload)
      = .ok [20] ∧
    (runEvents Q s [.save ⟨[[10]], [255]⟩]).map (·.imageData.payload) = .ok [10] := by decide

end

/-- `ImageData.get_data` succeeds on whatever `set_data` stored under the same header — for
every compression method (geometry level; the codecs are C04). -/
theorem merged_readable (c : Comp) (planes : List (List UInt8)) (h : Header)
    (hl : planes.length = h.channels) (hs : ∀ p ∈ planes, p.length = planeBytes h)
    (hc : 0 < h.channels) : getData (setData c planes h) h = .ok planes :=
  getData_setData c planes h hl hs hc

/-- … and what it returns always has the header geometry. -/
theorem get_data_geometry (d : ImageData) (h : Header) (ps : List (List UInt8))
    (hg : getData d h = .ok ps) : ps.length = h.channels ∧ ∀ p ∈ ps, p.length = planeBytes h :=
  getData_geometry d h ps hg

/-- Why the plane count matters (the behaviour that was repaired): four 16-byte planes
stored in a 3-channel 4×4 document — 64 bytes — cannot be read back with ZIP (`ValueError`: the bounded
inflate of repo 72f34ff stops at the 48 bytes the header announces; it was an `AssertionError` after a full
inflate before), and are silently cut with RAW. -/
theorem four_planes_in_three_channels :
    let h : Header := { cmode := .rgb, channels := 3, depth := 8, width := 4, height := 4 }
    let planes := List.replicate 4 (List.replicate 16 (0 : UInt8))
    getData (setData .zip planes h) h = .error .valueError ∧
    getData (setData .raw planes h) h = .ok (List.replicate 3 (List.replicate 16 0)) := by decide

/-! ### which plane receives what (decision table of `_merged_planes`) -/

/-- Without a transparency plane every colour channel is flattened on white and nothing
else is touched; with one (a channel beyond the colour channels that the readers take for
the transparency) it receives the composite's alpha, and the colour is flattened only for
RGB, whose export paths remove the matte again. -/
theorem merged_sources_table :
    let doc (c : CMode) (ch : Nat) (layers : Nat) (mt : Bool) : Meta :=
      { header := { cmode := c, channels := ch, depth := 8, width := 1, height := 1 },
        layerCount := layers, mergedTransparency := mt }
    mergedRoutes (doc .gray 1 1 false) true = .ok (some [.colorFlat 0]) ∧
    mergedRoutes (doc .rgb 3 1 false) true = .ok (some [.colorFlat 0, .colorFlat 1, .colorFlat 2]) ∧
    mergedRoutes (doc .cmyk 4 1 false) true
      = .ok (some [.colorFlat 0, .colorFlat 1, .colorFlat 2, .colorFlat 3]) ∧
    -- an extra channel that is not the transparency (layers present, no merged-transparency block) is kept
    mergedRoutes (doc .rgb 4 1 false) true
      = .ok (some [.colorFlat 0, .colorFlat 1, .colorFlat 2, .old 3]) ∧
    mergedRoutes (doc .gray 2 1 false) true = .ok (some [.colorFlat 0, .old 1]) ∧
    -- the transparency plane
    mergedRoutes (doc .rgb 4 1 true) true
      = .ok (some [.colorFlat 0, .colorFlat 1, .colorFlat 2, .alpha]) ∧
    mergedRoutes (doc .gray 2 1 true) true = .ok (some [.color 0, .alpha]) ∧
    mergedRoutes (doc .cmyk 5 1 true) true = .ok (some [.color 0, .color 1, .color 2, .color 3, .alpha]) ∧
    mergedRoutes (doc .rgb 4 0 false) true
      = .ok (some [.colorFlat 0, .colorFlat 1, .colorFlat 2, .alpha]) ∧
    -- unreadable old image: the planes that are not derived are filled
    mergedRoutes (doc .cmyk 6 1 false) false
      = .ok (some [.colorFlat 0, .colorFlat 1, .colorFlat 2, .colorFlat 3, .fill, .fill]) := by decide

end PsdVerif.C17
