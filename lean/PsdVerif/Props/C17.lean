/-
C17 — the stored merged image is valid after a structural edit, untouched otherwise.
Property theorems only; helper lemmas live in `Lemmas/Merged.lean`.

The first part (decision logic of `save()`, geometry) keeps the numeric composite and the sample
arithmetic as parameters. The second part ("the merged image equals the composite of the saved
layers") instantiates them with the compositor model of C11 (`Model/Composite.lean`) and the arithmetic
of `_merged_planes` over `Rat` (`Model/MergedPixels.lean`): `merged_equals_composite`,
`merged_colour_planes`, `merged_equals_published_model` (through C11's `compositor_refines_spec`), the
quantisation laws, `flatten_uses_alpha`, `merged_is_crop` (through C13's `viewport_is_crop`), and the
ties to the source (`Generated/MergedPixels.lean`, regenerated from the AST on every run).
-/
import PsdVerif.Model.Merged
import PsdVerif.Lemmas.Merged
import PsdVerif.Model.MergedPixels
import PsdVerif.Lemmas.MergedPixels
import PsdVerif.Lemmas.MergedQuant
import PsdVerif.Props.C11
import PsdVerif.Props.C13
import PsdVerif.Generated.MergedPixels
set_option linter.unusedSimpArgs false

namespace PsdVerif.C17
open PsdVerif PsdVerif.Pixels PsdVerif.Merged

/-- supported by the regeneration: 8/16/32 bits, grayscale / RGB / CMYK -/
def Supported (h : Header) : Prop :=
  (h.depth = 8 ∨ h.depth = 16 ∨ h.depth = 32) ∧ h.cmode ≠ .bitmap

section
variable {α : Type}

/-- When nothing structural was edited, `save()` leaves the document — in particular the
image-data section, byte for byte — as it is. -/
theorem unedited_preserved (Q : Quant α) (s : DocState) (c : Composite α) (h : s.dirty = false) :
    save Q s c = .ok s := by
  simp [save, h]

/-- … in terms of histories: a history of attribute edits and read-only operations (anything
that is not a list-like mutation of a group or of the document) on a freshly opened
document leaves the image-data section as it is. -/
theorem unedited_history_preserved (Q : Quant α) (s : DocState) (c : Composite α) (ops : List Op)
    (hops : ∀ o ∈ ops, o.structural = false) (h : s.dirty = dirtyAfter false ops) :
    save Q s c = .ok s := by
  apply unedited_preserved Q s c
  rw [h]
  simp only [dirtyAfter, Bool.false_or, List.any_eq_false]
  intro o ho
  simp [hops o ho]

/-- Modes / depths the regeneration does not cover: the merged image is left as it is
(stale, but as valid as before), never replaced by something of another shape. -/
theorem unsupported_untouched (Q : Quant α) (s : DocState) (c : Composite α)
    (h : ¬ Supported s.info.header) : save Q s c = .ok s := by
  have hnone : ∀ b, mergedRoutes s.info b = .ok none := by
    intro b
    unfold mergedRoutes
    have : ¬(s.info.header.depth = 8 ∨ s.info.header.depth = 16 ∨ s.info.header.depth = 32) ∨
        s.info.header.cmode = .bitmap := by
      by_cases h1 : (s.info.header.depth = 8 ∨ s.info.header.depth = 16 ∨ s.info.header.depth = 32)
      · right
        by_cases h2 : s.info.header.cmode = .bitmap
        · exact h2
        · exact absurd ⟨h1, h2⟩ h
      · left; exact h1
    simp only [this, if_true]
  by_cases hd : s.dirty = true
  · cases hg : getData s.imageData s.info.header <;> simp [save, hd, hg, hnone]
  · simp [save, hd]

/-- **merged_plane_count** and **merged_readable.** After a structural edit, for every
supported document whose header has at least the colour channels of its mode, whatever the
old merged image was (readable or not), whatever the compression: `save()` succeeds and
stores exactly `header.channels` planes of `width * height * depth / 8` bytes each, which
`ImageData.get_data` returns again; the preview flag says the merged image is there. -/
theorem merged_plane_count (Q : Quant α) (hQ : Q.Lawful) (s : DocState) (c : Composite α)
    (hd : s.dirty = true) (hs : Supported s.info.header)
    (hch : s.info.header.cmode.expected ≤ s.info.header.channels) (hc : c.WF s.info.header) :
    ∃ planes s', save Q s c = .ok s' ∧
      s'.imageData = setData s.imageData.comp planes s.info.header ∧
      s'.info.header = s.info.header ∧
      planes.length = s.info.header.channels ∧
      (∀ p ∈ planes, p.length = s.info.header.width * s.info.header.height * (s.info.header.depth / 8)) ∧
      getData s'.imageData s'.info.header = .ok planes ∧
      s'.info.hasPreview = true := by
  obtain ⟨hdep, hb⟩ := hs
  have hpb : planeBytes s.info.header
      = s.info.header.width * s.info.header.height * (s.info.header.depth / 8) := by
    unfold planeBytes
    rcases hdep with h | h | h <;> simp [h]
  have hpos : 0 < s.info.header.channels := by
    have : 0 < s.info.header.cmode.expected := by cases s.info.header.cmode <;> simp [CMode.expected]
    omega
  -- the old planes, when readable, have the header geometry
  cases hold : getData s.imageData s.info.header with
  | ok ps =>
    obtain ⟨hl, hsz⟩ := getData_geometry _ _ _ hold
    obtain ⟨rs, hrs, hrl, hrv⟩ := mergedRoutes_ok s.info true hdep hb hch
    simp only [if_true] at hrv
    obtain ⟨planes, hp, hpl, hpall⟩ := traverse_all (realise Q s.info.header.depth c ps)
      (fun p => p.length = planeBytes s.info.header) rs
      (fun r hr => realise_ok Q hQ s.info.header hdep c hc ps hsz r (by rw [hl]; exact hrv r hr))
    refine ⟨planes, DocState.mk { s.info with versionInfo := s.info.versionInfo.map (fun _ => true) }
        (setData s.imageData.comp planes s.info.header) s.dirty,
      ?_, rfl, rfl, by rw [hpl, hrl], ?_, ?_, ?_⟩
    · simp [save, hd, hold, hrs, hp]
    · intro p hpm; rw [← hpb]; exact hpall p hpm
    · exact getData_setData _ _ _ (by rw [hpl, hrl]) hpall hpos
    · cases hv : s.info.versionInfo <;> simp [Meta.hasPreview, hv]
  | error e =>
    obtain ⟨rs, hrs, hrl, hrv⟩ := mergedRoutes_ok s.info false hdep hb hch
    simp only [Bool.false_eq_true, if_false] at hrv
    obtain ⟨planes, hp, hpl, hpall⟩ := traverse_all (realise Q s.info.header.depth c [])
      (fun p => p.length = planeBytes s.info.header) rs
      (fun r hr => realise_ok Q hQ s.info.header hdep c hc [] (by simp) r (by simpa using hrv r hr))
    refine ⟨planes, DocState.mk { s.info with versionInfo := s.info.versionInfo.map (fun _ => true) }
        (setData s.imageData.comp planes s.info.header) s.dirty,
      ?_, rfl, rfl, by rw [hpl, hrl], ?_, ?_, ?_⟩
    · simp [save, hd, hold, hrs, hp]
    · intro p hpm; rw [← hpb]; exact hpall p hpm
    · exact getData_setData _ _ _ (by rw [hpl, hrl]) hpall hpos
    · cases hv : s.info.versionInfo <;> simp [Meta.hasPreview, hv]

/-- the hypotheses are satisfiable: a 1×1 RGB document, unit samples -/
example : ∃ (Q : Quant Unit) (s : DocState) (c : Composite Unit),
    Q.Lawful ∧ s.dirty = true ∧ Supported s.info.header ∧
    s.info.header.cmode.expected ≤ s.info.header.channels ∧ c.WF s.info.header :=
  ⟨{ enc := fun d _ => List.replicate (d / 8) 0, flat := fun _ _ => (), one := () },
   { info := { header := { cmode := .rgb, channels := 3, depth := 8, width := 1, height := 1 } },
     imageData := { comp := .zip, payload := [] }, dirty := true },
   { color := [[()], [()], [()]], alpha := [()] },
   by intro d x; simp, rfl, by unfold Supported; decide, by decide, by unfold Composite.WF; decide⟩

/-- **The flag survives a save.** `save()` never resets `_updated_layers`, and it leaves the header
and the compression method alone. -/
theorem save_keeps_dirty (Q : Quant α) (s s' : DocState) (c : Composite α) (h : save Q s c = .ok s') :
    s'.dirty = s.dirty ∧ s'.info.header = s.info.header ∧ s'.imageData.comp = s.imageData.comp :=
  save_keeps Q s s' c h

/-- **second_save_still_regenerates.** A supported document whose structure was edited is saved
(the composite of its layers being `c1`), then any operations are applied — attribute edits,
read-only calls, further structural edits — and it is saved again, the composite of its layers now
being `c2`: both saves succeed, and the second file's merged image is the regeneration from `c2`
(not the image of the first save): `header.channels` planes that `get_data` returns again. The
document stays "edited" for every save after that. -/
theorem second_save_still_regenerates (Q : Quant α) (hQ : Q.Lawful) (s : DocState) (c1 c2 : Composite α)
    (ops : List Op) (hd : s.dirty = true) (hs : Supported s.info.header)
    (hch : s.info.header.cmode.expected ≤ s.info.header.channels)
    (hc1 : c1.WF s.info.header) (hc2 : c2.WF s.info.header) :
    ∃ s1 s1' planes s2, save Q s c1 = .ok s1 ∧ runEvents Q s1 (ops.map Event.op) = .ok s1' ∧
      regenerate Q s1' c2 = .ok (some planes) ∧
      runEvents Q s (Event.save c1 :: (ops.map Event.op ++ [Event.save c2])) = .ok s2 ∧
      s2.imageData = setData s.imageData.comp planes s.info.header ∧
      planes.length = s.info.header.channels ∧
      getData s2.imageData s2.info.header = .ok planes ∧
      s2.info.hasPreview = true ∧ s2.dirty = true := by
  obtain ⟨_, s1, h1, _⟩ := merged_plane_count Q hQ s c1 hd hs hch hc1
  obtain ⟨k1, k2, k3⟩ := save_keeps Q s s1 c1 h1
  obtain ⟨hdep, hb⟩ := hs
  have hd' : dirtyAfter s1.dirty ops = true := by simp [dirtyAfter, k1, hd]
  have hrun := runEvents_ops Q s1 ops
  rw [hd'] at hrun
  -- the document as the second save sees it: `{ s1 with dirty := true }`
  obtain ⟨planes, hreg, hpl, hpall⟩ := regenerate_ok Q hQ { s1 with dirty := true } c2
    (by show s1.info.header.depth = 8 ∨ _; rw [k2]; exact hdep)
    (by show s1.info.header.cmode ≠ _; rw [k2]; exact hb)
    (by show s1.info.header.cmode.expected ≤ s1.info.header.channels; rw [k2]; exact hch)
    (by show c2.WF s1.info.header; rw [k2]; exact hc2)
  have hpl' : planes.length = s.info.header.channels := by rw [← k2]; exact hpl
  have hpall' : ∀ p ∈ planes, p.length = planeBytes s.info.header := by rw [← k2]; exact hpall
  have hpos : 0 < s.info.header.channels := by
    have : 0 < s.info.header.cmode.expected := by cases s.info.header.cmode <;> simp [CMode.expected]
    omega
  have hsave2 := save_eq_regenerate Q { s1 with dirty := true } c2
  simp only [hreg, Bool.not_true, Bool.false_eq_true, if_false] at hsave2
  refine ⟨s1, _, planes,
    { info := { s1.info with versionInfo := s1.info.versionInfo.map fun _ => true },
      imageData := setData s1.imageData.comp planes s1.info.header, dirty := true },
    h1, hrun, hreg, ?_, ?_, hpl', ?_, ?_, rfl⟩
  · simp only [runEvents, step, h1]
    rw [runEvents_append Q s1 _ _ _ hrun]
    simp only [runEvents, step, hsave2]
  · simp only [k2, k3]
  · simp only [k2]
    exact getData_setData _ _ _ hpl' hpall' hpos
  · cases hv : s1.info.versionInfo <;> simp [Meta.hasPreview, hv]

/-- the hypotheses are satisfiable (the document of the example above, two composites) -/
example : ∃ (Q : Quant Unit) (s : DocState) (c1 c2 : Composite Unit),
    Q.Lawful ∧ s.dirty = true ∧ Supported s.info.header ∧
    s.info.header.cmode.expected ≤ s.info.header.channels ∧ c1.WF s.info.header ∧ c2.WF s.info.header :=
  ⟨{ enc := fun d _ => List.replicate (d / 8) 0, flat := fun _ _ => (), one := () },
   { info := { header := { cmode := .rgb, channels := 3, depth := 8, width := 1, height := 1 } },
     imageData := { comp := .zip, payload := [] }, dirty := true },
   { color := [[()], [()], [()]], alpha := [()] }, { color := [[()], [()], [()]], alpha := [()] },
   by intro d x; simp, rfl, by unfold Supported; decide, by decide, by unfold Composite.WF; decide,
   by unfold Composite.WF; decide⟩

/-- The second file really depends on the second composite: a 1×1 grayscale document, one byte
per sample; the layers render 10 at the first save and 20 at the second (say, after an opacity
edit) — the second file holds 20. (With a `save()` that reset the flag it would hold 10.) -/
theorem second_save_uses_second_composite :
    let Q : Quant Nat := { enc := fun _ x => [UInt8.ofNat x], flat := fun c _ => c, one := 255 }
    let s : DocState := { info := { header := { cmode := .gray, channels := 1, depth := 8, width := 1, height := 1 },
                                    layerCount := 1 },
                          imageData := { comp := .raw, payload := [0] }, dirty := true }
    (runEvents Q s [.save ⟨[[10]], [255]⟩, .op .setOpacity, .save ⟨[[20]], [255]⟩]).map (·.imageData.payload)
      = .ok [20] ∧
    (runEvents Q s [.save ⟨[[10]], [255]⟩]).map (·.imageData.payload) = .ok [10] := by decide

end

/-- `ImageData.get_data` succeeds on whatever `set_data` stored under the same header — for
every compression method (geometry level; the codecs are C04). -/
theorem merged_readable (c : Comp) (planes : List (List UInt8)) (h : Header)
    (hl : planes.length = h.channels) (hs : ∀ p ∈ planes, p.length = planeBytes h)
    (hc : 0 < h.channels) : getData (setData c planes h) h = .ok planes :=
  getData_setData c planes h hl hs hc

/-- … and what it returns always has the header geometry. -/
theorem get_data_geometry (d : ImageData) (h : Header) (ps : List (List UInt8))
    (hg : getData d h = .ok ps) : ps.length = h.channels ∧ ∀ p ∈ ps, p.length = planeBytes h :=
  getData_geometry d h ps hg

/-- Why the plane count matters (the behaviour that was repaired): four 16-byte planes
stored in a 3-channel 4×4 document — 64 bytes — cannot be read back with ZIP (`ValueError`: the bounded
inflate of repo 72f34ff stops at the 48 bytes the header announces; it was an `AssertionError` after a full
inflate before), and are silently cut with RAW. -/
theorem four_planes_in_three_channels :
    let h : Header := { cmode := .rgb, channels := 3, depth := 8, width := 4, height := 4 }
    let planes := List.replicate 4 (List.replicate 16 (0 : UInt8))
    getData (setData .zip planes h) h = .error .valueError ∧
    getData (setData .raw planes h) h = .ok (List.replicate 3 (List.replicate 16 0)) := by decide

/-! ### which plane receives what (decision table of `_merged_planes`) -/

/-- Without a transparency plane every colour channel is flattened on white and nothing
else is touched; with one (a channel beyond the colour channels that the readers take for
the transparency) it receives the composite's alpha, and the colour is flattened only for
RGB, whose export paths remove the matte again. -/
theorem merged_sources_table :
    let doc (c : CMode) (ch : Nat) (layers : Nat) (mt : Bool) : Meta :=
      { header := { cmode := c, channels := ch, depth := 8, width := 1, height := 1 },
        layerCount := layers, mergedTransparency := mt }
    mergedRoutes (doc .gray 1 1 false) true = .ok (some [.colorFlat 0]) ∧
    mergedRoutes (doc .rgb 3 1 false) true = .ok (some [.colorFlat 0, .colorFlat 1, .colorFlat 2]) ∧
    mergedRoutes (doc .cmyk 4 1 false) true
      = .ok (some [.colorFlat 0, .colorFlat 1, .colorFlat 2, .colorFlat 3]) ∧
    -- an extra channel that is not the transparency (layers present, no merged-transparency block) is kept
    mergedRoutes (doc .rgb 4 1 false) true
      = .ok (some [.colorFlat 0, .colorFlat 1, .colorFlat 2, .old 3]) ∧
    mergedRoutes (doc .gray 2 1 false) true = .ok (some [.colorFlat 0, .old 1]) ∧
    -- the transparency plane
    mergedRoutes (doc .rgb 4 1 true) true
      = .ok (some [.colorFlat 0, .colorFlat 1, .colorFlat 2, .alpha]) ∧
    mergedRoutes (doc .gray 2 1 true) true = .ok (some [.color 0, .alpha]) ∧
    mergedRoutes (doc .cmyk 5 1 true) true = .ok (some [.color 0, .color 1, .color 2, .color 3, .alpha]) ∧
    mergedRoutes (doc .rgb 4 0 false) true
      = .ok (some [.colorFlat 0, .colorFlat 1, .colorFlat 2, .alpha]) ∧
    -- unreadable old image: the planes that are not derived are filled
    mergedRoutes (doc .cmyk 6 1 false) false
      = .ok (some [.colorFlat 0, .colorFlat 1, .colorFlat 2, .colorFlat 3, .fill, .fill]) := by decide


/-! ## The merged image equals the composite of the saved layers

From here on the numeric composite is C11's compositor model and the sample arithmetic is that of
`_merged_planes` (`Model/MergedPixels.lean`). -/

section Pixels
open PsdVerif.MergedPixels PsdVerif.Composite

/-- **merged_equals_composite.** A supported document whose structure was edited, whose pixels are `d`
(the layer tree at every pixel — ANY tree —, and the stored image for the layerless case), is saved:
`save()` succeeds, the planes `ImageData.get_data` reads back are `header.channels` many, and for every
plane `k` and every pixel `(x, y)` of the canvas the stored sample number `y·width + x` is
`plane()` — the quantisation of `_merged_planes` — of the value the plane's source has at that pixel of
`composite(psd, force=True)` (`compositePsd`, i.e. C11's `compositeDoc` on the canvas rectangle over a
transparent white backdrop when there are layers): the colour channel flattened on white WITH THE ALPHA
(`colorFlat`), the colour channel (`color`), the alpha (`alpha`), 1.0 (`fill`); a plane whose source is
`old j` is plane `j` of the merged image that was there. Which source a plane has: `merged_colour_planes`. -/
theorem merged_equals_composite (B : Composite.Mode → Color → Color → Color) (s : DocState) (d : PixelDoc)
    (hd : s.dirty = true) (hs : Supported s.info.header)
    (hch : s.info.header.cmode.expected ≤ s.info.header.channels) :
    ∃ routes planes s',
      mergedRoutes s.info (oldReadable s) = .ok (some routes) ∧
      savePixels B s d = .ok s' ∧ s'.info.header = s.info.header ∧
      getData s'.imageData s'.info.header = .ok planes ∧
      routes.length = s.info.header.channels ∧ planes.length = s.info.header.channels ∧
      ∀ k (h1 : k < routes.length) (h2 : k < planes.length),
        (∀ j, routes[k] = .old j → (oldPlanes s)[j]? = some planes[k]) ∧
        ∀ (x y : Nat), x < s.info.header.width → y < s.info.header.height →
          ∀ v, sampleValue (compositePsd B s.info.header x y (d.layers x y) (d.oldColor x y) (d.oldShape x y))
                routes[k] = some v →
            sampleAt planes[k] (s.info.header.depth / 8) (y * s.info.header.width + x)
              = planeEnc s.info.header.depth v :=
  save_samples B s d hd hs.1 hs.2 hch

/-- the hypotheses are satisfiable: a 2×1 RGB document with one layer -/
example : ∃ (s : DocState), s.dirty = true ∧ Supported s.info.header ∧
    s.info.header.cmode.expected ≤ s.info.header.channels :=
  ⟨{ info := { header := { cmode := .rgb, channels := 3, depth := 8, width := 2, height := 1 }, layerCount := 1 },
     imageData := { comp := .raw, payload := [] }, dirty := true }, rfl, by unfold Supported; decide, by decide⟩

/-- **Which plane is what, for every document** (the decision table `merged_sources_table` as a law):
colour plane `k` receives colour channel `k` of the composite, flattened on white unless the document has
a transparency plane and is not RGB; the transparency plane — if the readers see one — receives the
composite's alpha. -/
theorem merged_colour_planes (m : Meta) (rd : Bool) (routes : List PlaneSrc)
    (h : mergedRoutes m rd = .ok (some routes)) :
    (∀ k, k < m.header.cmode.expected →
      routes[k]? = some (if flattens m then PlaneSrc.colorFlat k else .color k)) ∧
    (transparencyPlane m = true →
      routes[max (m.transparencyIndex % (m.header.channels : Int)).toNat m.header.cmode.expected]? = some .alpha) :=
  mergedRoutes_colour m rd routes h

example : ∃ (m : Meta) (routes : List PlaneSrc), mergedRoutes m true = .ok (some routes) :=
  ⟨{ header := { cmode := .rgb, channels := 3, depth := 8, width := 1, height := 1 } }, _, rfl⟩

/-- **A document without a transparency plane: the stored colour IS the flattened composite.**
(`merged_equals_composite` and `merged_colour_planes` put together for the common case.) For every pixel of
the canvas and every colour channel `k`, the stored sample is the quantisation of
`C_k · α + (1 − α)`, `(C, _, α)` being what the compositor model returns there. -/
theorem merged_flat_equals_composite (B : Composite.Mode → Color → Color → Color) (s : DocState) (d : PixelDoc)
    (hd : s.dirty = true) (hs : Supported s.info.header)
    (hch : s.info.header.cmode.expected ≤ s.info.header.channels) (hflat : flattens s.info = true) :
    ∃ planes s', savePixels B s d = .ok s' ∧ getData s'.imageData s'.info.header = .ok planes ∧
      ∀ k (_ : k < s.info.header.cmode.expected) (h2 : k < planes.length) (x y : Nat),
        x < s.info.header.width → y < s.info.header.height →
        let px := compositePsd B s.info.header x y (d.layers x y) (d.oldColor x y) (d.oldShape x y)
        sampleAt planes[k] (s.info.header.depth / 8) (y * s.info.header.width + x)
          = planeEnc s.info.header.depth (flatten (px.1 k) px.2.2) := by
  obtain ⟨routes, planes, s', hr, hsave, _, hget, hrl, hpl, hall⟩ := merged_equals_composite B s d hd hs hch
  refine ⟨planes, s', hsave, hget, ?_⟩
  intro k hk h2 x y hx hy px
  have h1 : k < routes.length := by omega
  have hroute := (merged_colour_planes s.info _ routes hr).1 k hk
  rw [hflat, if_pos rfl, List.getElem?_eq_getElem h1, Option.some.injEq] at hroute
  exact (hall k h1 h2).2 x y hx hy _ (by rw [hroute]; rfl)

example : flattens { header := { cmode := .rgb, channels := 3, depth := 8, width := 2, height := 1 }, layerCount := 1 } = true := by
  decide

/-! ### through C11: the published model -/

/-- **The flattened value is the published model's, exactly.** For every well-formed, non-empty layer
tree (C11's `listOk`, blend functions with `BOk`) at a pixel: with `(P, f, α)` the published model's
result for the document over a transparent backdrop (`specDoc`: group colour premultiplied by the group
alpha, group shape, group alpha; knockout rule as coded, see C11) — the value flattened on white is
`P_k + (1 − α)`: no division, no clamp, nothing undefined under zero coverage; the alpha plane's value is
`α`; an unflattened colour plane's value is `P_k / α` wherever `α ≠ 0`. -/
theorem flattened_is_published {B : Composite.Mode → Color → Color → Color} (hB : BOk B) (h : Header) (x y : Int)
    (layers : List Node) (hl : listOk layers) (hne : layers.isEmpty = false) (oc : Color) (os : Rat) :
    let px := compositePsd B h x y layers oc os
    let spec := specDoc .pdf17 B (canvas h) x y (fun _ => 0) 0 layers
    (∀ k, sampleValue px (.colorFlat k) = some (spec.1 k + (1 - spec.2.2))) ∧
    sampleValue px .alpha = some spec.2.2 ∧
    (spec.2.2 ≠ 0 → ∀ k, sampleValue px (.color k) = some (spec.1 k / spec.2.2)) := by
  intro px spec
  have hpx : px = compositeDoc B (canvas h) x y white 0 layers := by
    simp only [px, compositePsd, hne, Bool.false_eq_true, if_false, backdropColor, backdropAlpha]
  have hz : (fun ch => (0 : Rat) * white ch) = fun _ => (0 : Rat) := by funext ch; simp
  obtain ⟨_, h2, h3, h4⟩ := C11.compositor_refines_spec_doc hB (canvas h) x y white_ok unit01_zero layers hl
  rw [hz] at h2 h3 h4
  rw [← hpx] at h2 h3 h4
  refine ⟨?_, ?_, ?_⟩
  · intro k
    simp only [sampleValue, flatten, Option.some.injEq]
    rw [h3 k, h2]
  · simp only [sampleValue, Option.some.injEq]; exact h2
  · intro hne0 k
    simp only [sampleValue, Option.some.injEq]
    exact h4 (by rw [h2]; exact hne0) k

example : BOk allNormal ∧ listOk [koWhiteLayer] ∧ [koWhiteLayer].isEmpty = false :=
  ⟨allNormal_ok, koWhiteLayer_ok, rfl⟩

/-- … and for trees without knockout flags against the published model with EITHER knockout rule (the
choice is then irrelevant: C11 `compositor_refines_spec_partial`). -/
theorem flattened_is_published_partial {B : Composite.Mode → Color → Color → Color} (hB : BOk B) (h : Header)
    (x y : Int) (layers : List Node) (hl : listOk layers) (hko : listNoKo layers) (hne : layers.isEmpty = false)
    (oc : Color) (os : Rat) (rule : KoRule) :
    let px := compositePsd B h x y layers oc os
    let spec := specDoc rule B (canvas h) x y (fun _ => 0) 0 layers
    (∀ k, sampleValue px (.colorFlat k) = some (spec.1 k + (1 - spec.2.2))) ∧
    sampleValue px .alpha = some spec.2.2 := by
  intro px spec
  have hs : spec = specDoc .pdf17 B (canvas h) x y (fun _ => 0) 0 layers :=
    specDoc_rule_irrelevant rule .pdf17 B (canvas h) x y _ 0 layers hko
  obtain ⟨a, b, _⟩ := flattened_is_published hB h x y layers hl hne oc os
  rw [hs]
  exact ⟨a, b⟩

example : listNoKo ([] : List Node) := trivial

/-- **merged_equals_published_model.** The stored merged image of a structurally edited, supported document
without a transparency plane, all of whose per-pixel trees are well-formed and non-empty: at every pixel
of the canvas and for every colour channel the stored sample is the quantisation of the PUBLISHED model's
premultiplied colour plus the uncovered white, `P_k + (1 − α)`. (`merged_flat_equals_composite` composed
with C11's `compositor_refines_spec`.) -/
theorem merged_equals_published_model {B : Composite.Mode → Color → Color → Color} (hB : BOk B) (s : DocState)
    (d : PixelDoc) (hd : s.dirty = true) (hs : Supported s.info.header)
    (hch : s.info.header.cmode.expected ≤ s.info.header.channels) (hflat : flattens s.info = true)
    (hl : ∀ x y, listOk (d.layers x y)) (hne : ∀ x y, (d.layers x y).isEmpty = false) :
    ∃ planes s', savePixels B s d = .ok s' ∧ getData s'.imageData s'.info.header = .ok planes ∧
      ∀ k (_ : k < s.info.header.cmode.expected) (h2 : k < planes.length) (x y : Nat),
        x < s.info.header.width → y < s.info.header.height →
        let spec := specDoc .pdf17 B (canvas s.info.header) x y (fun _ => 0) 0 (d.layers x y)
        sampleAt planes[k] (s.info.header.depth / 8) (y * s.info.header.width + x)
          = planeEnc s.info.header.depth (spec.1 k + (1 - spec.2.2)) := by
  obtain ⟨planes, s', hsave, hget, hall⟩ := merged_flat_equals_composite B s d hd hs hch hflat
  refine ⟨planes, s', hsave, hget, ?_⟩
  intro k hk h2 x y hx hy spec
  have := hall k hk h2 x y hx hy
  simp only at this
  rw [this]
  have hp := (flattened_is_published hB s.info.header x y (d.layers x y) (hl x y) (hne x y)
    (d.oldColor x y) (d.oldShape x y)).1 k
  simp only [sampleValue, Option.some.injEq] at hp
  rw [hp]

/-! ### quantisation laws (`plane()`, 8 and 16 bit) -/

/-- **What is written for 8 / 16 / 32 bits**: the code `np.round(np.clip(v, 0, 1) · scale)` as 1 / 2 big-endian
bytes — and the bytes hold the code (it never exceeds `scale`, so nothing is cut by the integer conversion) —
or the binary32 nearest to the value, big-endian. -/
theorem stored_bytes (v : Rat) :
    planeEnc 8 v = be 1 (code 255 v) ∧ unbe (planeEnc 8 v) = code 255 v ∧
    planeEnc 16 v = be 2 (code 65535 v) ∧ unbe (planeEnc 16 v) = code 65535 v ∧
    planeEnc 32 v = be 4 (f32Bits v) := by
  have h8 := code_le 255 v
  have h16 := code_le 65535 v
  refine ⟨rfl, ?_, rfl, ?_, rfl⟩
  · show unbe (be 1 (code 255 v)) = _
    rw [unbe_be]; exact Nat.mod_eq_of_lt (by omega)
  · show unbe (be 2 (code 65535 v)) = _
    rw [unbe_be]; exact Nat.mod_eq_of_lt (by omega)

/-- **Within half a step.** For a value in `[0, 1]` the stored code, read back as the readers do
(`code / scale`), differs from the value by at most `1 / (2·scale)` — and that bound is attained
(`quantise_half_step_attained`). -/
theorem quantise_within_half_step (scale : Nat) (hs : 0 < scale) (v : Rat) (hv : Unit01 v) :
    decode scale (code scale v) - v ≤ 1 / (2 * (scale : Rat)) ∧
    v - decode scale (code scale v) ≤ 1 / (2 * (scale : Rat)) :=
  code_error scale hs hv

example : (0 : Nat) < 255 ∧ Unit01 (1 / 3 : Rat) := ⟨by decide, by constructor <;> norm_num⟩

/-- the bound is exact: 1/510 is stored as 0 (the tie 0.5 goes to the even code), 3/510 as 2 -/
theorem quantise_half_step_attained :
    code 255 (1 / 510) = 0 ∧ (1 / 510 : Rat) - decode 255 (code 255 (1 / 510)) = 1 / (2 * 255) ∧
    code 255 (3 / 510) = 2 ∧ decode 255 (code 255 (3 / 510)) - (3 / 510 : Rat) = 1 / (2 * 255) := by
  decide +kernel

/-- **Monotone**: a larger value never gets a smaller code (any scale, values outside `[0, 1]` included) -/
theorem quantise_monotone (scale : Nat) (v w : Rat) (h : v ≤ w) : code scale v ≤ code scale w :=
  code_mono scale h

example : (1 / 3 : Rat) ≤ 1 / 2 := by norm_num

/-- **End points and range**: 0 ↦ 0, 1 ↦ `scale` (255 / 65535), every code is at most `scale`; values below 0 /
above 1 are stored as 0 / `scale` (`np.clip`). -/
theorem quantise_endpoints (scale : Nat) :
    code scale 0 = 0 ∧ code scale 1 = scale ∧ (∀ v, code scale v ≤ scale) ∧
    (∀ v, v ≤ 0 → code scale v = 0) ∧ (∀ v, 1 ≤ v → code scale v = scale) := by
  refine ⟨code_zero scale, code_one scale, code_le scale, ?_, ?_⟩
  · intro v hv
    have := code_mono scale hv
    rw [code_zero] at this
    omega
  · intro v hv
    have h1 := code_mono scale hv
    rw [code_one] at h1
    have h2 := code_le scale v
    omega

/-- **A stored value is a fixed point**: quantising what the readers decode from a code gives the code back
(so a merged image regenerated from unchanged pixel data does not drift). -/
theorem requantise_is_identity (scale : Nat) (hs : 0 < scale) (n : Nat) (hn : n ≤ scale) :
    code scale (decode scale n) = n := by
  have hs' : (0 : Rat) < (scale : Rat) := by exact_mod_cast hs
  have hu : Unit01 (decode scale n) := by
    unfold decode
    constructor
    · positivity
    · rw [div_le_one hs']; exact_mod_cast hn
  unfold code
  rw [clip_id hu]
  unfold decode
  rw [div_mul_cancel₀ _ (ne_of_gt hs')]
  have : ((n : Nat) : Rat) = (((n : Nat) : Int) : Rat) := by norm_num
  rw [this, roundHalfEven_intCast]
  simp

example : (0 : Nat) < 65535 ∧ (1234 : Nat) ≤ 65535 := by decide

/-- **`np.clip` is inert on composites.** For every well-formed tree the values `_merged_planes` quantises —
the flattened colour, the colour, the alpha — are in `[0, 1]` (C13 `result_in_unit_interval`), so the clip
changes nothing and `quantise_within_half_step` applies to them. -/
theorem clip_is_inert (B : Composite.Mode → Color → Color → Color) (h : Header) (x y : Int) (layers : List Node)
    (hl : listOk layers) (oc : Color) (os : Rat) (hoc : ColorOk oc) (hos : Unit01 os) (r : PlaneSrc) (v : Rat)
    (hv : sampleValue (compositePsd B h x y layers oc os) r = some v) : Unit01 v ∧ clip v = v := by
  have hpx : ColorOk (compositePsd B h x y layers oc os).1 ∧ Unit01 (compositePsd B h x y layers oc os).2.2 := by
    unfold compositePsd
    split
    · exact ⟨hoc, hos⟩
    · have := C13.result_in_unit_interval B (canvas h) x y backdropColor backdropAlpha white_ok unit01_zero layers hl
      exact ⟨this.1, this.2.2⟩
  have hu : Unit01 v := by
    cases r with
    | colorFlat k => simp only [sampleValue, Option.some.injEq] at hv; rw [← hv]; exact flatten_unit (hpx.1 k) hpx.2
    | color k => simp only [sampleValue, Option.some.injEq] at hv; rw [← hv]; exact hpx.1 k
    | alpha => simp only [sampleValue, Option.some.injEq] at hv; rw [← hv]; exact hpx.2
    | fill => simp only [sampleValue, Option.some.injEq] at hv; rw [← hv]; exact unit01_one
    | old j => simp [sampleValue] at hv
  exact ⟨hu, clip_id hu⟩

example : ColorOk white ∧ Unit01 (1 : Rat) ∧ listOk [] := ⟨white_ok, unit01_one, trivial⟩

/-! ### flattening uses the alpha -/

/-- a layer covering the 1×1 canvas with colour `c`, fully covering (shape 1), opacity `o` -/
def translucentLayer (c : Color) (o : Rat) : Node :=
  .leaf { visible := true, bbox := ⟨0, 0, 1, 1⟩, opacity := o, fill := 1, hasMask := false, maskBBox := Rect.zero,
          maskValue := 1, maskBackground := 0, maskDensity := 1, mode := 0, knockout := false, clipping := false,
          hasClipTarget := false } true c 1 []

def header1x1 : Header := { cmode := .rgb, channels := 3, depth := 8, width := 1, height := 1 }

/-- **A translucent layer over empty canvas is blended with white.** One layer of colour `c` that covers the
pixel completely (shape 1) with opacity `o` (`layer.opacity / 255`, any blend mode): the composite has shape 1 and
alpha `o`, and the value stored in a flattened colour plane is the quantisation of `c·o + (1 − o)` — the colour
mixed with white in proportion to the ALPHA. -/
theorem flatten_uses_alpha {B : Composite.Mode → Color → Color → Color} (hB : BOk B) (c : Color) (o : Rat)
    (hc : ColorOk c) (ho : Unit01 o) (oc : Color) (os : Rat) (k : Nat) :
    let px := compositePsd B header1x1 0 0 [translucentLayer c o] oc os
    px.2.1 = 1 ∧ px.2.2 = o ∧ sampleValue px (.colorFlat k) = some (c k * o + (1 - o)) := by
  intro px
  have hl : listOk [translucentLayer c o] :=
    ⟨⟨⟨ho, unit01_one, unit01_one, unit01_zero, unit01_one⟩, hc, unit01_one, trivial⟩, trivial⟩
  have hpx : px = compositeDoc B (canvas header1x1) 0 0 white 0 [translucentLayer c o] := rfl
  obtain ⟨h1, h2, _⟩ := C11.compositor_refines_spec_doc hB (canvas header1x1) 0 0 white_ok unit01_zero _ hl
  obtain ⟨hf, _, _⟩ := flattened_is_published hB header1x1 0 0 [translucentLayer c o] hl rfl oc os
  have hi : intersect (canvas header1x1) ⟨0, 0, 1, 1⟩ = ⟨0, 0, 1, 1⟩ := by decide
  have hspec : specDoc .pdf17 B (canvas header1x1) 0 0 (fun _ => 0) 0 [translucentLayer c o]
      = (fun ch => o * (1 * c ch), (1 : Rat), o) := by
    simp [specDoc, specList, specNode, translucentLayer, specFinish, specSource, specFactors, maskFactors, pasteAt,
      hi, Rect.zero, Rect.contains, SState.init, groupColor, union, straight]
    funext ch; simp [groupColor]
  have hz : (fun ch => (0 : Rat) * white ch) = fun _ => (0 : Rat) := by funext ch; simp
  rw [hz, ← hpx, hspec] at h1 h2
  refine ⟨h1, h2, ?_⟩
  rw [hf k, hspec]
  simp only [Option.some.injEq]
  ring

example : ColorOk (fun _ => (0 : Rat)) ∧ Unit01 (1 / 2 : Rat) :=
  ⟨fun _ => ⟨le_refl _, by norm_num⟩, by constructor <;> norm_num⟩

/-- **… and NOT the shape.** A black layer of opacity 1/2 over empty canvas: the stored value is 1/2 (mid grey,
code 128); flattening with the shape — the variant `color * shape + (1 - shape)` — would store 0 (black: the
layer at full strength). -/
theorem flatten_uses_alpha_not_shape :
    let px := compositePsd allNormal header1x1 0 0 [translucentLayer (fun _ => 0) (1 / 2)] white 1
    sampleValue px (.colorFlat 0) = some (1 / 2) ∧ sampleValueShapeVariant px 0 = 0 ∧
    code 255 (1 / 2) = 128 ∧ code 255 0 = 0 ∧ sampleValue px (.colorFlat 0) ≠ some (sampleValueShapeVariant px 0) := by
  decide +kernel

/-! ### the viewport: exactly the canvas -/

/-- **The merged image covers exactly the canvas**: the pixels of the canvas rectangle `(0, 0, width, height)` —
the viewport `composite` uses for a document — correspond one to one to the `width · height` samples of a
plane (`y · width + x`, row by row). -/
theorem merged_covers_canvas (h : Header) :
    (∀ (x y : Nat), (canvas h).contains x y = true ↔ (x < h.width ∧ y < h.height)) ∧
    (∀ (x y : Nat), x < h.width → y < h.height →
      y * h.width + x < h.width * h.height ∧ (y * h.width + x) % h.width = x ∧ (y * h.width + x) / h.width = y) ∧
    (∀ i, i < h.width * h.height → i % h.width < h.width ∧ i / h.width < h.height ∧
      (i / h.width) * h.width + i % h.width = i) := by
  refine ⟨?_, ?_, ?_⟩
  · intro x y
    simp [canvas, Rect.contains]
  · intro x y hx hy
    exact ⟨index_lt _ _ x y hx hy, index_mod _ x y hx, index_div _ x y hx⟩
  · intro i hi
    have hw : 0 < h.width := by
      rcases Nat.eq_zero_or_pos h.width with h0 | h0
      · rw [h0, Nat.zero_mul] at hi; omega
      · exact h0
    refine ⟨Nat.mod_lt _ hw, ?_, ?_⟩
    · rw [Nat.div_lt_iff_lt_mul hw, Nat.mul_comm]; exact hi
    · rw [Nat.mul_comm]; exact Nat.div_add_mod i h.width

/-- **Layers that extend beyond the canvas are cropped, nothing else.** For a pixel of the canvas, the values
written — flattened colour and alpha — are the same whether the layers are composited on the canvas rectangle
(as `_merged_planes` does) or on ANY larger viewport containing the pixel, e.g. the bounding box of all layers
(C13 `viewport_is_crop`; the colour under zero alpha may differ, which flattening removes). -/
theorem merged_is_crop (B : Composite.Mode → Color → Color → Color) (h : Header) (V : Rect) (x y : Nat)
    (hx : x < h.width) (hy : y < h.height) (hV : V.contains x y = true) (layers : List Node) (hl : listOk layers) :
    let r := compositeDoc B (canvas h) x y backdropColor backdropAlpha layers
    let r' := compositeDoc B V x y backdropColor backdropAlpha layers
    r'.2.2 = r.2.2 ∧ ∀ k, flatten (r'.1 k) r'.2.2 = flatten (r.1 k) r.2.2 := by
  intro r r'
  have hc : (canvas h).contains x y = true := ((merged_covers_canvas h).1 x y).2 ⟨hx, hy⟩
  obtain ⟨_, ha, hcol⟩ := C13.viewport_is_crop B V (canvas h) x y hV hc backdropColor backdropAlpha white_ok
    unit01_zero layers hl
  refine ⟨ha, ?_⟩
  intro k
  by_cases h0 : r.2.2 = 0
  · have h0' : r'.2.2 = 0 := by rw [ha]; exact h0
    simp [flatten, h0, h0']
  · have := hcol h0
    show flatten (r'.1 k) r'.2.2 = flatten (r.1 k) r.2.2
    rw [ha]
    have e : r'.1 = r.1 := this
    rw [e]

example : (⟨-3, -3, 9, 9⟩ : Rect).contains ((1 : Nat) : Int) ((0 : Nat) : Int) = true := by decide

/-! ### a document without layers -/

/-- **No layers: the image data is the document.** `composite` does not composite a document without layers, it
returns the stored image; for a document without transparency (`shape = 1`) the flattened value is the stored
colour itself, and (`requantise_is_identity`) its code is the stored code: the regenerated merged image is the
old one. -/
theorem layerless_document_keeps_image (B : Composite.Mode → Color → Color → Color) (h : Header) (x y : Int)
    (oc : Color) (scale : Nat) (hs : 0 < scale) (n : Nat) (hn : n ≤ scale) (k : Nat) (hoc : oc k = decode scale n) :
    let px := compositePsd B h x y [] oc 1
    sampleValue px (.colorFlat k) = some (oc k) ∧ code scale (flatten (px.1 k) px.2.2) = n := by
  intro px
  have e : flatten (oc k) 1 = oc k := by simp [flatten]
  refine ⟨by simp [px, compositePsd, sampleValue, e], ?_⟩
  show code scale (flatten (oc k) 1) = n
  rw [e, hoc]
  exact requantise_is_identity scale hs n hn

example : (0 : Nat) < 255 ∧ (200 : Nat) ≤ 255 := by decide

end Pixels

/-! ## Ties to the source (regenerated from the AST of the working tree on every run) -/

section Ties
open PsdVerif.MergedPixels

/-- `_merged_planes` is what `Model/MergedPixels.lean` and `Model/Merged.lean: mergedRoutes` transliterate: the
`scale` dict IS the model's table; the depths / modes regenerated; `plane()` — binary32 for 32 bit, else
`np.round(np.clip(v, 0.0, 1.0) * scale)` as big-endian unsigned integers of `depth // 8` bytes; the flattening
statement weighs the colour with `alpha` — the THIRD component of what `composite` returns (the second, the
shape, is discarded) — and is guarded by `not transparency or RGB`; the only `constant − x` in the function is
that `1.0 - alpha` (no colour inversion, for CMYK or otherwise); colour plane `index` receives `color[:, :, index]`,
plane `max(index, n)` the alpha; the planes that are there are kept, or replaced by 1.0 when unreadable; there is
one early `return None`, and no statement the model does not know. -/
theorem merged_pixels_tied :
    Generated.MergedPixels.scaleTable = scaleTable ∧
    Generated.MergedPixels.supportedModes = [CMode.gray.name, CMode.rgb.name, CMode.cmyk.name] ∧
    Generated.MergedPixels.guard = "header.depth not in scale or self.color_mode not in (ColorMode.GRAYSCALE, ColorMode.RGB, ColorMode.CMYK)" ∧
    Generated.MergedPixels.noneReturns = [Generated.MergedPixels.guard] ∧
    Generated.MergedPixels.planeBody =
      ["if header.depth == 32: { return values.astype('>f4').tobytes() }",
       "values = np.round(np.clip(values, 0.0, 1.0) * scale[header.depth])",
       "return values.astype('>u%d' % (header.depth // 8)).tobytes()"] ∧
    Generated.MergedPixels.compositeTargets = ["color", "_", "alpha"] ∧
    Generated.MergedPixels.nExpr = "EXPECTED_CHANNELS[self.color_mode]" ∧
    Generated.MergedPixels.transparencyExpr = "header.channels > n and has_transparency(self)" ∧
    Generated.MergedPixels.flattenGuard = "not transparency or self.color_mode == ColorMode.RGB" ∧
    Generated.MergedPixels.flattenStmt = "color = color * alpha + (1.0 - alpha)" ∧
    Generated.MergedPixels.constMinus = ["1.0 - alpha"] ∧
    Generated.MergedPixels.oldPlanes =
      "try: { planes = self._record.image_data.get_data(header) } except Exception: { planes = [plane(np.ones_like(alpha))] * header.channels }" ∧
    Generated.MergedPixels.colourLoop = "for index in range(n): { planes[index] = plane(color[:, :, index]) }" ∧
    Generated.MergedPixels.alphaStore =
      "index = get_transparency_index(self) % header.channels; planes[max(index, n)] = plane(alpha[:, :, 0])" ∧
    Generated.MergedPixels.returns = "planes" ∧
    Generated.MergedPixels.topLevel.length = 12 :=
  ⟨rfl, rfl, rfl, rfl, rfl, rfl, rfl, rfl, rfl, rfl, rfl, rfl, rfl, rfl, rfl, rfl⟩

/-- the call `_merged_planes` makes — `composite(self, force=True)` — and what `composite` does with the
arguments left out: backdrop colour 1.0 and alpha 0.0 (`backdropColor`, `backdropAlpha`), the document's
`viewbox` = `(0, 0, width, height)` as the viewport (`canvas`), `Layer.is_visible` as the filter, not isolated;
a document without layers returns its stored colour and shape, the shape also as alpha (`compositePsd`). -/
theorem composite_call_tied :
    Generated.MergedPixels.compositeCall = "composite(self, force=True)" ∧
    Generated.MergedPixels.compositeDefaults =
      [("color", "1.0"), ("alpha", "0.0"), ("viewport", "None"), ("layer_filter", "None"), ("force", "False"),
       ("as_layer", "False")] ∧
    Generated.MergedPixels.viewportDefault = "viewport = group.viewbox" ∧
    Generated.MergedPixels.viewbox = "(self.left, self.top, self.right, self.bottom)" ∧
    Generated.MergedPixels.boxParts =
      [("left", "0"), ("top", "0"), ("right", "self.width"), ("bottom", "self.height"),
       ("width", "self._record.header.width"), ("height", "self._record.header.height")] ∧
    Generated.MergedPixels.emptyDocument =
      "if isinstance(group, PSDImage) and len(group) == 0: { color, shape = (group.numpy('color'), group.numpy('shape')); if viewport != group.viewbox: { color = paste(viewport, group.bbox, color, 1.0); shape = paste(viewport, group.bbox, shape) }; return (color, shape, shape) }" ∧
    Generated.MergedPixels.filterDefault = "layer_filter or Layer.is_visible" ∧
    Generated.MergedPixels.isolated =
      "False; if not isinstance(group, PSDImage): { isolated = group.blend_mode != BlendMode.PASS_THROUGH }" ∧
    Generated.MergedPixels.compositorCall = "Compositor(viewport, color, alpha, isolated, layer_filter, force)" ∧
    Generated.MergedPixels.compositeLoop = "for layer in target_group: { compositor.apply(layer) }" ∧
    Generated.MergedPixels.compositeReturns = "compositor.finish()" :=
  ⟨rfl, rfl, rfl, rfl, rfl, rfl, rfl, rfl, rfl, rfl, rfl⟩

/-- `save()`: the regeneration is guarded by the structural-edit flag alone, stores what `_merged_planes`
returns under the header and sets `has_composite`; `save` never assigns the flag (`save_keeps_dirty`). -/
theorem save_tied :
    Generated.MergedPixels.saveGuard = "self._updated_layers" ∧
    Generated.MergedPixels.saveSteps =
      ["planes = self._merged_planes()",
       "if planes is not None: { self._record.image_data.set_data(planes, self._record.header); version_info = self.image_resources.get_data(Resource.VERSION_INFO); if version_info: { version_info.has_composite = True } }"] ∧
    Generated.MergedPixels.saveAssignsFlag = false := ⟨rfl, rfl, rfl⟩

end Ties

end PsdVerif.C17
