/-
C19 — Unicode text survives storage.
Property theorems only; helper lemmas live in `Lemmas/Unicode.lean`.
The model (`Model/Unicode.lean`) is the code after repo commits 53b2bbb (real UTF-16) and
5b05d7b (legacy name fallback at write time).
-/
import PsdVerif.Lemmas.Unicode
import PsdVerif.Generated.Strings

namespace PsdVerif.C19
open PsdVerif PsdVerif.Unicode PsdVerif.Unicode.Spec

/-! ### UTF-16 of the Unicode Standard, and the code's codec against it -/

/-- The target: standard UTF-16 round-trips every sequence of scalar values (astral
characters, combining marks and NUL included). -/
theorem utf16_roundtrip (s : Str) : (∀ c ∈ s, Scalar c) → Spec.utf16Dec (Spec.utf16Enc s) = some s :=
  spec_utf16_roundtrip s

/-- On well-formed strings the code emits exactly standard UTF-16 … -/
theorem code_encoder_is_utf16 (s : Str) : (∀ c ∈ s, Scalar c) → encUnits s = Spec.utf16Enc s :=
  encUnits_eq_spec s

/-- … and decodes every well-formed UTF-16 unit sequence to what the standard says. -/
theorem code_decoder_extends_utf16 (us : List Nat) (s : Str) : Spec.utf16Dec us = some s → decUnits us = s :=
  decUnits_of_spec us s

example : ∀ c ∈ [0x1F47D, 0x61, 0x301, 0, 0xFFFF, 0x10FFFF], Scalar c := by decide
example : Spec.utf16Enc [0x1F47D, 0x61] = [0xD83D, 0xDC7D, 0x61] := by decide
example : Spec.utf16Dec [0xD83D, 0xDC7D, 0x61] = some [0x1F47D, 0x61] := by decide
example : Spec.utf16Dec [0xDC7D, 0xD83D] = none := by decide

/-! ### `write_unicode_string` / `read_unicode_string` -/

/-- Every well-formed Unicode string is written, and read back unchanged from anywhere in a
stream, for every padding; the reader stops exactly where the writer stopped. -/
theorem unicode_string_roundtrip (s : Str) (pad : Nat) (pre post : BL)
    (hs : ∀ c ∈ s, Scalar c) (hp : pad ≠ 0) (hlen : s.length < 2147483648) :
    ∃ bs, writeUnicodeString s pad = .ok bs ∧
      readUnicodeString (pre ++ bs ++ post) pre.length pad = .ok (s, pre.length + bs.length) := by
  have hpy := scalar_pyStr s hs
  have hl : (encUnits s).length < 4294967296 := by have := encUnits_length_le s; omega
  have hw := writeUnicodeString_ok s pad hpy hp hl
  exact ⟨_, hw, readUnicodeString_write s pad _ pre post (scalar_noPair s hs) hw⟩

example : writeUnicodeString [0x1F47D, 0x61, 0x301, 0] 4
    = .ok [0, 0, 0, 5, 0xD8, 0x3D, 0xDC, 0x7D, 0, 0x61, 0x03, 0x01, 0, 0, 0, 0] := by decide +kernel
example : readUnicodeString [9, 0, 0, 0, 2, 0xD8, 0x3D, 0xDC, 0x7D, 7] 1 1 = .ok ([0x1F47D], 9) := by decide +kernel

/-- The same for every Python `str` in which no high surrogate is directly followed by a low
one (unpaired surrogates, which files and tests contain, are kept). -/
theorem unicode_string_roundtrip_str (s : Str) (pad : Nat) (bs pre post : BL)
    (hn : NoPair s) (hw : writeUnicodeString s pad = .ok bs) :
    readUnicodeString (pre ++ bs ++ post) pre.length pad = .ok (s, pre.length + bs.length) :=
  readUnicodeString_write s pad bs pre post hn hw

example : NoPair [0xDC7D, 0xD83D, 0x61, 0xD83D] := by decide

/-- The writer fails only for a count that does not fit 32 bits (`struct.error`) or padding 0. -/
theorem unicode_string_write_errors (s : Str) (pad : Nat) (e : Err) (hs : PyStr s) :
    writeUnicodeString s pad = .error e →
      (4294967296 ≤ (encUnits s).length ∧ e = .structError) ∨ (pad = 0 ∧ e = .other) := by
  unfold writeUnicodeString
  rw [if_pos hs]
  intro h
  rcases (writeUnits_err _ _ _).mp h with ⟨h1, h2⟩ | ⟨_, h2, h3⟩
  · exact .inl ⟨by omega, h2⟩
  · exact .inr ⟨h2, h3⟩

/-- Files re-save identically: whatever units were read (unpaired surrogates included) are
written back unit for unit. -/
theorem unicode_string_resave (us : List Nat) (pad : Nat) (h : ∀ u ∈ us, u < 65536) :
    writeUnicodeString (decUnits us) pad = writeUnits us pad :=
  writeUnicodeString_decUnits us pad h

/-- Whatever the reader returns from any stream can be written again, and the cursor only
moves forward (`sound` law of DESIGN section 3). -/
theorem unicode_string_sound (d : BL) (pos pad : Nat) (s : Str) (p : Nat) :
    readUnicodeString d pos pad = .ok (s, p) → (∃ bs, writeUnicodeString s pad = .ok bs) ∧ pos + 4 ≤ p :=
  readUnicodeString_sound d pos pad s p

/-- The value read does not depend on the reader's padding (tagged blocks are written with
padding 4 and read from their own buffer with padding 1). -/
theorem unicode_string_value_any_reader_padding (s : Str) (pw pr : Nat) (bs pre post : BL)
    (hs : ∀ c ∈ s, Scalar c) (hpr : pr ≠ 0) (hw : writeUnicodeString s pw = .ok bs) :
    ∃ p, readUnicodeString (pre ++ bs ++ post) pre.length pr = .ok (s, p) ∧ p ≤ (pre ++ bs ++ post).length :=
  readUnicodeString_value s pw pr bs pre post (scalar_noPair s hs) hpr hw

/-- What the fix (53b2bbb) changed: the per-character 16-bit array could not write an astral
character and read a surrogate pair as two characters; the harness replays both witnesses on
the real code on every run. -/
theorem old_codec_defect :
    encUnitsOld [0x1F47D] = .error .overflowError ∧ decUnitsOld (Spec.utf16Enc [0x1F47D]) ≠ [0x1F47D]
      ∧ encUnits [0x1F47D] = Spec.utf16Enc [0x1F47D] ∧ decUnits (Spec.utf16Enc [0x1F47D]) = [0x1F47D] := by
  decide

/-! ### Pascal strings -/

/-- Every string the codec can express within 255 bytes round-trips, for every padding. The
codec law `decode (encode s) = s` is needed for this string only (Python's `shift_jis` breaks
it for U+00A5 and U+203E, see the known finding). -/
theorem pascal_roundtrip (e : Encoding) (s : Str) (pad : Nat) (b pre post : BL)
    (he : e.encode s = some b) (hd : e.decode b = some s) (hb : b.length ≤ 255) (hp : pad ≠ 0) :
    ∃ bs, writePascalString e s pad = .ok bs ∧
      readPascalString e (pre ++ bs ++ post) pre.length pad = .ok (s, pre.length + bs.length) := by
  have hw : writePascalString e s pad = .ok (pascalLayout b pad) :=
    (writePascalString_eq e s pad _).mpr ⟨b, he, hb, hp, rfl⟩
  refine ⟨_, hw, readPascalString_write e s pad _ pre post (fun b' hb' => ?_) hw⟩
  rw [he] at hb'; cases hb'; exact hd

example : ascii.encode [0x61] = some [0x61] ∧ ascii.decode [0x61] = some [0x61] := by decide +kernel

/-- Unencodable or longer than 255 encoded bytes: an error, for every padding. -/
theorem pascal_rejects (e : Encoding) (s : Str) (pad : Nat) :
    (e.encode s = none → writePascalString e s pad = .error .unicodeError) ∧
    (∀ b, e.encode s = some b → 255 < b.length → writePascalString e s pad = .error .structError) := by
  constructor
  · intro h
    exact (writePascalString_err e s pad _).mpr (.inl ⟨h, rfl⟩)
  · intro b h hb
    exact (writePascalString_err e s pad _).mpr (.inr (.inl ⟨b, h, hb, rfl⟩))

/-- Never truncated or altered: whatever is written is the length byte, the *whole* encoded
string, and zero padding. -/
theorem pascal_never_truncates (e : Encoding) (s : Str) (pad : Nat) (bs : BL) :
    writePascalString e s pad = .ok bs →
      ∃ data, e.encode s = some data ∧ data.length ≤ 255 ∧
        bs = UInt8.ofNat data.length :: data ++ List.replicate (padLen (1 + data.length) pad) 0 := by
  intro h
  obtain ⟨data, h1, h2, _, h4⟩ := (writePascalString_eq e s pad bs).mp h
  exact ⟨data, h1, h2, h4⟩

example : writePascalString ascii [0x61, 0x62] 4 = .ok [2, 0x61, 0x62, 0] := by decide +kernel
example : writePascalString ascii [0xE9] 2 = .error .unicodeError := by decide +kernel
example : writePascalString utf8 (List.replicate 128 0xE9) 2 = .error .structError := by decide +kernel
example : (utf8.encode (List.replicate 127 0xE9)).map List.length = some 254 := by decide +kernel

/-! ### framing: the reader consumes exactly what the writer emitted, padding included -/

theorem read_write_framing_unicode (s : Str) (pad : Nat) (bs pre post : BL) (hn : NoPair s)
    (hw : writeUnicodeString s pad = .ok bs) :
    (∃ v, readUnicodeString (pre ++ bs ++ post) pre.length pad = .ok (v, pre.length + bs.length))
      ∧ bs.length % pad = 0 := by
  refine ⟨⟨s, readUnicodeString_write s pad bs pre post hn hw⟩, ?_⟩
  unfold writeUnicodeString at hw
  split at hw
  · obtain ⟨_, hp, rfl⟩ := (writeUnits_eq _ _ _).mp hw
    rw [unitsLayout_length]
    exact padLen_aligned _ pad hp
  · cases hw

theorem read_write_framing_pascal (e : Encoding) (s : Str) (pad : Nat) (bs pre post : BL)
    (hl : e.Lawful) (hw : writePascalString e s pad = .ok bs) :
    (∃ v, readPascalString e (pre ++ bs ++ post) pre.length pad = .ok (v, pre.length + bs.length))
      ∧ bs.length % pad = 0 := by
  refine ⟨⟨s, readPascalString_write e s pad bs pre post (fun b hb => hl s b hb) hw⟩, ?_⟩
  obtain ⟨data, _, _, hp, rfl⟩ := (writePascalString_eq e s pad bs).mp hw
  rw [pascalLayout_length]
  exact padLen_aligned _ pad hp

/-! ### the codecs: the law `decode (encode s) = s` -/

theorem charmap_codecs_lawful :
    (charmap Generated.Strings.macRomanTable).Lawful ∧ (charmap Generated.Strings.macCyrillicTable).Lawful
      ∧ ascii.Lawful :=
  ⟨charmap_lawful _, charmap_lawful _, charmap_lawful _⟩

theorem utf8_codec_lawful : utf8.Lawful := utf8_lawful

/-! ### the layer name -/

/-- `layer.name = n; save(encoding=e); open(encoding=e)` gives `n` back in full, for every
codec that can express `'?'` and can decode what it encoded (lawful codecs can; so can
`shift_jis`) — whether or not `n` fits the legacy field. -/
theorem name_keeps_unicode (mac e : Encoding)
    (hd : ∀ s b, e.encode s = some b → ∃ s', e.decode b = some s')
    (hq : ∃ b, e.encode [0x3F] = some b ∧ b.length ≤ 255)
    (n : Str) (hs : ∀ c ∈ n, Scalar c) (hlen : n.length < 256) (r0 : NameRec) :
    ∃ r1 lb ub, setName mac n r0 = .ok r1 ∧ writeName e r1 = .ok (lb, some ub) ∧
      ∀ pre post, ∃ r2, readName e (pre ++ lb ++ post) pre.length (some ub) = .ok (r2, pre.length + lb.length)
        ∧ r2.luni = some n ∧ getName r2 = n :=
  name_roundtrip mac e hd hq n (scalar_pyStr n hs) (scalar_noPair n hs) hlen r0

/-- The same for EVERY record that carries the unicode block, whatever put it there and whatever its
legacy field holds: the save-time encoding never decides whether the save succeeds. This is what the
creation paths of the API rely on (`Group.new`, `PixelLayer.frompil`), for any save `encoding`. -/
theorem name_keeps_unicode_any_record (e : Encoding)
    (hd : ∀ s b, e.encode s = some b → ∃ s', e.decode b = some s')
    (hq : ∃ b, e.encode [0x3F] = some b ∧ b.length ≤ 255)
    (r1 : NameRec) (n : Str) (hl : r1.luni = some n) (hs : ∀ c ∈ n, Scalar c) (hlen : n.length < 2147483648) :
    ∃ lb ub, writeName e r1 = .ok (lb, some ub) ∧
      ∀ pre post, ∃ r2, readName e (pre ++ lb ++ post) pre.length (some ub) = .ok (r2, pre.length + lb.length)
        ∧ r2.luni = some n ∧ getName r2 = n :=
  nameRec_roundtrip e hd hq r1 n hl (scalar_pyStr n hs) (scalar_noPair n hs) hlen

/-- `Group.new(n)`; `save(encoding=e)`; `open(encoding=e)` -/
theorem group_new_keeps_unicode (e : Encoding)
    (hd : ∀ s b, e.encode s = some b → ∃ s', e.decode b = some s')
    (hq : ∃ b, e.encode [0x3F] = some b ∧ b.length ≤ 255)
    (n : Str) (hs : ∀ c ∈ n, Scalar c) (hlen : n.length < 2147483648) :
    ∃ lb ub, writeName e (newGroupName n) = .ok (lb, some ub) ∧
      ∀ pre post, ∃ r2, readName e (pre ++ lb ++ post) pre.length (some ub) = .ok (r2, pre.length + lb.length)
        ∧ getName r2 = n := by
  obtain ⟨lb, ub, hw, hr⟩ := name_keeps_unicode_any_record e hd hq (newGroupName n) n rfl hs hlen
  exact ⟨lb, ub, hw, fun pre post => by obtain ⟨r2, h1, _, h3⟩ := hr pre post; exact ⟨r2, h1, h3⟩⟩

/-- `PixelLayer.frompil(…, n)`; `save(encoding=e)`; `open(encoding=e)` -/
theorem frompil_keeps_unicode (mac e : Encoding)
    (hd : ∀ s b, e.encode s = some b → ∃ s', e.decode b = some s')
    (hq : ∃ b, e.encode [0x3F] = some b ∧ b.length ≤ 255)
    (n : Str) (hs : ∀ c ∈ n, Scalar c) (hlen : n.length < 256) :
    ∃ r1 lb ub, frompilName mac n = .ok r1 ∧ writeName e r1 = .ok (lb, some ub) ∧
      ∀ pre post, ∃ r2, readName e (pre ++ lb ++ post) pre.length (some ub) = .ok (r2, pre.length + lb.length)
        ∧ r2.luni = some n ∧ getName r2 = n :=
  name_keeps_unicode mac e hd hq n hs hlen _

/-- `'Café'` given to `Group.new` and saved as ASCII: MacRoman could express it, ASCII cannot — `'?'`
in the legacy field, the name in the block. -/
example : writeName ascii (newGroupName [0x43, 0x61, 0x66, 0xE9])
    = .ok ([1, 0x3F, 0, 0], some [0, 0, 0, 4, 0, 0x43, 0, 0x61, 0, 0x66, 0, 0xE9]) := by decide +kernel
example : (frompilName (charmap Generated.Strings.macRomanTable) [0xE9] >>= writeName ascii)
    = .ok ([1, 0x3F, 0, 0], some [0, 0, 0, 1, 0, 0xE9, 0, 0]) := by decide +kernel

/-- Lawful codecs satisfy the decodability hypothesis of `name_keeps_unicode`. -/
theorem lawful_decodes (e : Encoding) (h : e.Lawful) : ∀ s b, e.encode s = some b → ∃ s', e.decode b = some s' :=
  fun s b hb => ⟨s, h s b hb⟩

example : ∃ b, ascii.encode [0x3F] = some b ∧ b.length ≤ 255 := ⟨[0x3F], by decide +kernel, by decide⟩
example : ∃ b, utf8.encode [0x3F] = some b ∧ b.length ≤ 255 := ⟨[0x3F], by decide +kernel, by decide⟩
/-- `'é'` set through the API and saved as ASCII: `'?'` in the legacy field, `'é'` in the block. -/
example : (setName (charmap Generated.Strings.macRomanTable) [0xE9] ⟨[], none⟩ >>= writeName ascii)
    = .ok ([1, 0x3F, 0, 0], some [0, 0, 0, 1, 0, 0xE9, 0, 0]) := by decide +kernel

/-- Without the unicode block nothing is substituted: a legacy name the save encoding cannot
express is an error, not a `'?'`. -/
theorem name_without_block_rejected (e : Encoding) (r : NameRec) (h : r.luni = none)
    (hu : e.encode r.legacy = none) : writeName e r = .error .unicodeError := by
  rw [writeName_no_block e r h, (pascal_rejects e r.legacy 4).1 hu]

/-- … which is why a creation path may not skip the block for names that MacRoman happens to express:
the same `'Café'` without the block cannot be saved as ASCII at all. -/
theorem name_entry_without_block_fails :
    writeName ascii ⟨[0x43, 0x61, 0x66, 0xE9], none⟩ = .error .unicodeError ∧
    (charmap Generated.Strings.macRomanTable).encode [0x43, 0x61, 0x66, 0xE9] ≠ none := by
  decide +kernel

/-! ### ties to the source (regenerated on every run) -/

/-- Every API function that stores a caller-supplied layer name (`LayerRecord(name=p)` or `x.name = p`)
also stores the unicode block for it UNCONDITIONALLY — a direct statement of its body, through
`set_data(Tag.UNICODE_LAYER_NAME, p)` or through the `name` setter: the hypothesis `r1.luni = some n`
of `name_keeps_unicode_any_record` holds on every creation path. -/
theorem name_entry_points_tied :
    Generated.Strings.nameEntryPoints =
      [("Layer.name", "value", "set_data", "always"), ("Group.new", "name", "set_data", "always"),
       ("PixelLayer.frompil", "layer_name", "setter", "always")] := by
  decide

/-- The pascal reader decodes with the very codec the pascal writer encodes with — the `encoding`
parameter, passed straight to `.decode` / `.encode` and never rebound (the one `e` of
`pascal_roundtrip`); the unicode pair likewise (`utf-16-be`, `surrogatepass`). -/
theorem primitive_codecs_tied :
    Generated.Strings.primitiveCodecs =
      [("read_pascal_string", "decode", ["encoding"], []), ("write_pascal_string", "encode", ["encoding"], []),
       ("read_unicode_string", "decode", ["'utf-16-be'", "'surrogatepass'"], []),
       ("write_unicode_string", "encode", ["'utf-16-be'", "'surrogatepass'"], [])] := by
  decide

/-- Call site by call site: the reader of every element class names the codecs its writer names, in
the same order. -/
theorem reader_codec_is_writer_codec :
    Generated.Strings.codecPairs.all (fun p => decide (p.2.1 = p.2.2) && !p.2.1.isEmpty) = true := by
  decide +kernel

/-- No call site post-processes the string it read (strips, slices, normalises): the value is bound
once, or handed straight to a constructor. -/
theorem reader_values_unprocessed :
    Generated.Strings.readerUses.all (fun u => decide (u.2.2.2 ∈ ["assign", "argument", "return"])) = true := by
  decide +kernel


/-- Every call site of the four primitives passes a literal padding 1, 2 or 4 (0 = passed
through from a caller that is itself in this table or `TaggedBlock`, which passes 1 or 4) and
a literal encoding that is MacRoman or ASCII (or the document's `encoding` parameter). -/
theorem call_sites_tied :
    Generated.Strings.sites.all (fun s =>
      decide (s.2.2.2.2 ∈ [0, 1, 2, 4]) && decide (s.2.2.2.1 ∈ ["", "param", "mac-roman", "ascii"])) = true := by
  decide +kernel

/-- The `name` setter tests MacRoman, falls back to `'?'`, bounds the length by 256; the
write-time fallback is `'?'` above 255 bytes. -/
theorem name_constants_tied :
    Generated.Strings.nameTestEncoding = "mac-roman" ∧ Generated.Strings.nameFallback = [0x3F]
      ∧ Generated.Strings.nameBound = 256
      ∧ Generated.Strings.legacyFallbacks = [[0x3F]] ∧ Generated.Strings.legacyBounds = [255] := by
  decide

theorem codec_tables_complete :
    Generated.Strings.macRomanTable.length = 256 ∧ Generated.Strings.macCyrillicTable.length = 256 := by
  decide +kernel

end PsdVerif.C19
