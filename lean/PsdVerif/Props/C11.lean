/-
C11 — compositing agrees with the published compositing model.
The code model (`Model/Composite.lean`, one `_apply_source` step and the recursion over
layers, groups, masks and clip runs) against the Porter–Duff / PDF 1.7 §11.3–11.4 formulas,
in premultiplied form, for every rational input in range; and, for whole layer trees, against the
published model written independently as a denotation of the tree (`Model/CompositeSpec.lean`):
`compositor_refines_spec_partial` / `compositor_refines_spec` (+ `_list`, `_clip_run`, `_doc`),
`knockout_rules_differ`, `knockout_alpha_excess`, `group_result_unclipped`.
-/
import PsdVerif.Lemmas.CompositeTree
import PsdVerif.Lemmas.CompositeEval
import PsdVerif.Lemmas.CompositeSpecKnockout
import PsdVerif.Lemmas.CompositeSpecEval

namespace PsdVerif.C11
open PsdVerif PsdVerif.Composite

/-- **Basic compositing formula** (PDF 1.7 §11.3.6, with shape and opacity kept apart as in
§11.4.5): after one non-knockout `_apply_source` step with source colour `Cs`, shape `fs`,
alpha `αs` and blend function `B`,
`α' = Union(α, αs)` and `α'·C' = (1−αs)·α·C + αs·((1−α)·Cs + α·B(C, Cs))`.
The code's `_divide`/`_clip` never alter this (the quotient is always in `[0,1]`; where
`α' = 0` both sides are 0). -/
theorem apply_source_eq_pdf {bl : Color → Color → Color} {st : PState} {Cs : Color} {fs αs : Rat}
    (h : Inv st) (hs : SrcOk Cs fs αs) (hb : BlendOk bl) :
    let r := applySource bl st Cs fs αs false
    r.a = union st.a αs ∧ r.sg = union st.sg fs ∧ r.ag = union st.ag αs ∧
    ∀ ch, r.c ch * r.a = (1 - αs) * st.a * st.c ch + αs * ((1 - st.a) * Cs ch + st.a * bl st.c Cs ch) := by
  intro r
  exact ⟨applySource_a bl st Cs fs αs h, rfl, by simp [r], fun ch => applySource_mul h hs hb ch⟩

/-- **Porter–Duff "over"**: with the normal blend function, `α'·C' = αs·Cs + (1−αs)·α·C`. -/
theorem normal_is_source_over {st : PState} {Cs : Color} {fs αs : Rat} (h : Inv st) (hs : SrcOk Cs fs αs) (ch : Nat) :
    (applySource blNormal st Cs fs αs false).c ch * (applySource blNormal st Cs fs αs false).a
      = αs * Cs ch + (1 - αs) * (st.a * st.c ch) := by
  have hb : BlendOk blNormal := fun _ cs _ hcs => hcs
  rw [applySource_mul h hs hb ch]
  unfold stepNum blNormal
  ring

/-- a stack of plain sources with normal blending, folded the Porter–Duff way on premultiplied colour -/
def overFold (p : Rat) : List (Rat × Rat) → Rat
  | [] => p
  | (cs, αs) :: rest => overFold (αs * cs + (1 - αs) * p) rest

def alphaFold (a : Rat) : List (Rat × Rat) → Rat
  | [] => a
  | (_, αs) :: rest => alphaFold (union a αs) rest

/-- **A flat stack is the Porter–Duff fold.** Compositing sources `(Cs, αs)` (shape = alpha) with
normal blending one after the other gives premultiplied colour `overFold` and alpha `alphaFold`
of the per-channel values, whatever the stack length. -/
theorem flat_stack_is_porter_duff (ch : Nat) (srcs : List (Color × Rat)) (st : PState) (h : Inv st)
    (hs : ∀ s ∈ srcs, SrcOk s.1 s.2 s.2) :
    let r := srcs.foldl (fun st s => applySource blNormal st s.1 s.2 s.2 false) st
    r.c ch * r.a = overFold (st.c ch * st.a) (srcs.map fun s => (s.1 ch, s.2)) ∧
    r.a = alphaFold st.a (srcs.map fun s => (s.1 ch, s.2)) := by
  induction srcs generalizing st with
  | nil => exact ⟨rfl, rfl⟩
  | cons s rest ih =>
    have hs1 := hs s (List.mem_cons_self ..)
    have hinv := applySource_inv (bl := blNormal) h hs1 false
    have := ih (applySource blNormal st s.1 s.2 s.2 false) hinv (fun t ht => hs t (List.mem_cons_of_mem _ ht))
    simp only [List.foldl_cons, List.map_cons, overFold, alphaFold]
    rw [normal_is_source_over h hs1 ch, applySource_a _ _ _ _ _ h] at this
    have e : s.2 * s.1 ch + (1 - s.2) * (st.c ch * st.a) = s.2 * s.1 ch + (1 - s.2) * (st.a * st.c ch) := by ring
    rw [e]
    exact this

/-- **Knockout step** in premultiplied form: the source replaces what the group painted so far and is
composited with the group's *initial* backdrop `(C₀, α₀)`:
`α'·C' = (1−fs)·α·C + (fs−αs)·α₀·C₀ + αs·((1−α₀)·Cs + α₀·B(C₀, Cs))`. -/
theorem apply_source_knockout_eq_pdf {bl : Color → Color → Color} {st : PState} {Cs : Color} {fs αs : Rat}
    (h : Inv st) (hs : SrcOk Cs fs αs) (hb : BlendOk bl) (ch : Nat) :
    let r := applySource bl st Cs fs αs true
    r.c ch * r.a = (1 - fs) * st.a * st.c ch + (fs - αs) * st.a0 * st.c0 ch
      + αs * ((1 - st.a0) * Cs ch + st.a0 * bl st.c0 Cs ch) := by
  intro r
  exact applySource_knockout_mul h hs hb ch

/-- **State in range**: through the whole recursion (groups, masks, clip runs, knockout) colours,
shapes and alphas stay in `[0,1]`, `alpha = Union(alpha₀, alpha_g)` and `alpha_g ≤ shape_g`. -/
theorem state_in_range (B : Mode → Color → Color → Color) (V : Rect) (x y : Int) (cc : Bool) (st : PState)
    (hst : Inv st) (n : Node) (hn : nodeOk n) : Inv (applyNode B V x y cc st n) :=
  applyNode_inv B V x y cc st hst n hn

example : Inv (PState.init white 0 false) := inv_init white_ok unit01_zero false

/-- **The evaluator is the model.** The driver command `comp.pixel`, which the correspondence check runs
against the real compositor, evaluates `compositeDocF` (colours tabulated after every step, so that a stack
of `n` sources costs `O(n)` instead of `3^n` rational operations); it returns exactly what `compositeDoc`
returns, for every number `k` of tabulated channels. -/
theorem evaluator_is_model (k : Nat) (B : Mode → Color → Color → Color) (V : Rect) (x y : Int) (color : Color)
    (alpha : Rat) (layers : List Node) :
    compositeDocF k B V x y color alpha layers = compositeDoc B V x y color alpha layers :=
  compositeDocF_eq k B V x y color alpha layers

/-! ### the compositor refines the published model (`Model/CompositeSpec.lean`) on whole trees -/

/-- **The backdrop removal of `Compositor.color` never clips.** For every state reached from the start of a
group through any list of layers (leaves, masks, nested isolated / pass-through groups, clip runs, knockout
elements) `0 ≤ α·C − (1−αg)·α₀·C₀ ≤ αg` in every channel, hence the value `finish` returns satisfies
`colour × αg = α·C − (1−αg)·α₀·C₀`: PDF 1.7 §11.4.8 `C = Cn + (Cn − C0)·(α0/αgn − α0)` times `αgn`, with
`_clip` and the `0/0 → 1` fallback inactive. -/
theorem group_result_unclipped {B : Mode → Color → Color → Color} (hB : BOk B) (V : Rect) (x y : Int)
    {color : Color} {alpha : Rat} (hc : ColorOk color) (ha : Unit01 alpha) (iso : Bool) (layers : List Node)
    (hl : listOk layers) :
    let st := applyList B V x y (PState.init color alpha iso) layers
    ∀ ch, (0 ≤ st.c ch * st.a - (1 - st.ag) * st.a0 * st.c0 ch ∧ st.c ch * st.a - (1 - st.ag) * st.a0 * st.c0 ch ≤ st.ag) ∧
      finishColor st ch * st.ag = st.c ch * st.a - (1 - st.ag) * st.a0 * st.c0 ch := by
  intro st ch
  have i0 := inv_init hc ha iso
  have hinv := applyList_inv B V x y _ i0 layers hl
  have hx := applyList_xinv hB V x y _ i0 (xinv_init color alpha iso) layers hl
  exact ⟨hx ch, finishColor_mul hinv hx ch⟩

example : BOk (fun _ => blNormal) := fun _ _ _ _ hcs => hcs
example : listOk [] := trivial

/-- **One element**: an `_apply_source` step of the code is one step of the published recurrences
(`specSource`: §11.4.5 in premultiplied form) — for a knockout element with the group-alpha rule as coded. -/
theorem apply_source_refines_spec {bl : Color → Color → Color} {st : PState} {σ : SState} {Cs Ps : Color}
    {fs αs : Rat} (h : Inv st) (hr : Rel st σ) (hs : SrcOk Cs fs αs) (hb : BlendOk bl)
    (hP : ∀ ch, Ps ch = Cs ch * αs) (k : KoRule) (knockout : Bool) (hk : knockout = true → k = .pdf17) :
    Rel (applySource bl st Cs fs αs knockout) (specSource k bl σ Ps fs αs knockout) := by
  cases knockout
  · rw [specSource_rule_irrelevant k .pdf17]; exact applySource_rel h hr hs hb hP false
  · rw [hk rfl]; exact applySource_rel h hr hs hb hP true

/-- the hypotheses are satisfiable: the start of any group, isolated or not -/
example (color : Color) (alpha : Rat) (hc : ColorOk color) (ha : Unit01 alpha) (iso : Bool) :
    Inv (PState.init color alpha iso) ∧ Rel (PState.init color alpha iso) (SState.init (fun ch => color ch * alpha) alpha iso) :=
  ⟨inv_init hc ha iso, rel_init iso (fun _ => rfl)⟩

/-! DESIGN's `compositor_refines_spec` at full strength — "for every well-formed tree the code model and the
published model reach related states" — is FALSE at this commit: `knockout_rules_differ`.
The code departs from the published model in exactly one rule, the group alpha after a knockout element
(`KoRule`, header of `Model/CompositeSpec.lean`). Proved instead:
* `compositor_refines_spec_partial` (+ `_list`, `_clip_run`, `_doc`): against the published model, for every
  tree in which no layer has the knockout flag;
* `compositor_refines_spec` (+ `_list`, `_clip_run`, `_doc`): for EVERY tree, against the
  published model with that one rule replaced by the coded one — so the rule is the only difference;
* `knockout_alpha_excess`: the exact size of the difference per step. -/

/-- **The full statement fails on a knockout layer**: document backdrop white with alpha 1/2 (what a pass-through
group over a half-transparent white layer hands to its children), one white, fully covering layer with the
knockout flag and opacity 1/2, normal blending. Published model: alpha 1/2 and premultiplied colour 1/2, i.e.
WHITE. Code model: alpha 3/4 and colour 5/6 — white over white is grey. (All hypotheses of the refinement
theorems hold for this input.) -/
theorem knockout_rules_differ :
    BOk allNormal ∧ ColorOk white ∧ Unit01 (1/2 : Rat) ∧ listOk [koWhiteLayer] ∧
    (compositeDoc allNormal unitRect 0 0 white (1/2) [koWhiteLayer]).2.2 = 3/4 ∧
    (specDoc .alphaCoherent allNormal unitRect 0 0 (fun ch => 1/2 * white ch) (1/2) [koWhiteLayer]).2.2 = 1/2 ∧
    (compositeDoc allNormal unitRect 0 0 white (1/2) [koWhiteLayer]).1 0 = 5/6 ∧
    (specDoc .alphaCoherent allNormal unitRect 0 0 (fun ch => 1/2 * white ch) (1/2) [koWhiteLayer]).1 0 = 1/2 :=
  ⟨allNormal_ok, white_ok, ⟨by norm_num, by norm_num⟩, koWhiteLayer_ok, by decide +kernel, by decide +kernel,
    by decide +kernel, by decide +kernel⟩

/-- **By how much.** After a knockout `_apply_source` step the code's alpha is the published alpha
`Union(α₀, (1−fs)·αg + αs)` plus `(1−α₀)·(fs−αs)·α₀`; the published alpha is exactly the sum of the weights of the
colour recurrence `(1−fs)·α + (fs−αs)·α₀ + αs` (which is why white stays white there). The excess vanishes iff
`α₀ = 0`, `α₀ = 1` or `fs = αs`. -/
theorem knockout_alpha_excess (bl : Color → Color → Color) {st : PState} (h : Inv st) (Cs : Color) (fs αs : Rat) :
    (applySource bl st Cs fs αs true).a
      = union st.a0 (KoRule.alphaCoherent.alpha fs αs st.ag st.a0) + (1 - st.a0) * (fs - αs) * st.a0 ∧
    union st.a0 (KoRule.alphaCoherent.alpha fs αs st.ag st.a0) = (1 - fs) * st.a + (fs - αs) * st.a0 + αs :=
  Composite.knockout_alpha_excess bl h Cs fs αs

/-- **`compositor_refines_spec`, trees without knockout flags** — one layer with everything below it, against the
PUBLISHED model. From related states (`Rel`: equal shape `fg`, group alpha `αg`, alpha `α`, backdrop alpha `α0`;
spec's premultiplied colours `P = C·α`, `P0 = C0·α0`) the code model `applyNode` and the published model
`specNode` reach related states. Covers pixel layers, raster masks with density and background, opacity and
fill opacity, nested isolated and pass-through groups with backdrop removal, clip runs (clipping groups), the
four early exits and the viewport/bbox bookkeeping. The code's `_divide` fallback and both `_clip`s are thereby
shown inert: the code computes exactly the published polynomial recurrences. Missing for the full statement:
knockout elements (see above). -/
theorem compositor_refines_spec_partial {B : Mode → Color → Color → Color} (hB : BOk B) (V : Rect) (x y : Int)
    (clipCompositing : Bool) (st : PState) (σ : SState) (hst : Inv st) (hr : Rel st σ) (n : Node) (hn : nodeOk n)
    (hko : nodeNoKo n) (k : KoRule) :
    Rel (applyNode B V x y clipCompositing st n) (specNode k B V x y clipCompositing σ n) := by
  rw [specNode_rule_irrelevant k .pdf17 B V x y clipCompositing σ n hko]
  exact applyNode_rel hB V x y clipCompositing st σ hst hr n hn

example : nodeNoKo (.group { visible := true, bbox := unitRect, opacity := 1, fill := 1, hasMask := false,
                             maskBBox := Rect.zero, maskValue := 1, maskBackground := 0, maskDensity := 1, mode := 0,
                             knockout := false, clipping := false, hasClipTarget := false } true [] []) :=
  ⟨rfl, trivial, trivial⟩

/-- … a stack of layers (the loop of `composite`) -/
theorem compositor_refines_spec_partial_list {B : Mode → Color → Color → Color} (hB : BOk B) (V : Rect) (x y : Int)
    (st : PState) (σ : SState) (hst : Inv st) (hr : Rel st σ) (ns : List Node) (hn : listOk ns)
    (hko : listNoKo ns) (k : KoRule) :
    Rel (applyList B V x y st ns) (specList k B V x y σ ns) := by
  rw [specList_rule_irrelevant k .pdf17 B V x y σ ns hko]
  exact applyList_rel hB V x y st σ hst hr ns hn

/-- … a clip run (the loop of `_apply_clip_layers`) -/
theorem compositor_refines_spec_partial_clip_run {B : Mode → Color → Color → Color} (hB : BOk B) (V : Rect) (x y : Int)
    (st : PState) (σ : SState) (hst : Inv st) (hr : Rel st σ) (ns : List Node) (hn : listOk ns)
    (hko : listNoKo ns) (k : KoRule) :
    Rel (applyClips B V x y st ns) (specClips k B V x y σ ns) := by
  rw [specClips_rule_irrelevant k .pdf17 B V x y σ ns hko]
  exact applyClips_rel hB V x y st σ hst hr ns hn

/-- **Whole documents without knockout flags**: `composite(psd, color, alpha)` at a pixel returns the published
model's shape and alpha, and `colour × alpha = ` the published premultiplied group colour — so the colour is the
published one wherever the result alpha is not zero (under zero alpha the published model defines no colour). -/
theorem compositor_refines_spec_partial_doc {B : Mode → Color → Color → Color} (hB : BOk B) (V : Rect) (x y : Int)
    {color : Color} {alpha : Rat} (hc : ColorOk color) (ha : Unit01 alpha) (layers : List Node) (hl : listOk layers)
    (hko : listNoKo layers) (k : KoRule) :
    let code := compositeDoc B V x y color alpha layers
    let spec := specDoc k B V x y (fun ch => alpha * color ch) alpha layers
    code.2.1 = spec.2.1 ∧ code.2.2 = spec.2.2 ∧ (∀ ch, code.1 ch * code.2.2 = spec.1 ch) ∧
      (code.2.2 ≠ 0 → ∀ ch, code.1 ch = spec.1 ch / spec.2.2) := by
  intro code spec
  have hs : spec = specDoc .pdf17 B V x y (fun ch => alpha * color ch) alpha layers :=
    specDoc_rule_irrelevant k .pdf17 B V x y _ alpha layers hko
  obtain ⟨h1, h2, h3⟩ := compositeDoc_rel hB V x y hc ha layers hl
  rw [← hs] at h1 h2 h3
  refine ⟨h1, h2, h3, ?_⟩
  intro hne ch
  have h3' : code.1 ch * code.2.2 = spec.1 ch := h3 ch
  have h2' : code.2.2 = spec.2.2 := h2
  rw [← h3', ← h2']
  field_simp

example : ColorOk white ∧ Unit01 (0 : Rat) ∧ listNoKo [] := ⟨white_ok, unit01_zero, trivial⟩

/-- **Every tree, knockout included, with the group-alpha rule as coded**: the code model refines the published
model in which the single recurrence `αg_i = (1−fs)·αg_{i-1} + αs` of a knockout element is replaced by the
coded `αg_i = (1−fs)·αg_{i-1} + (fs−αs)·α0 + αs`. Everything else about knockout (the element sees the group's
initial backdrop, `(fs−αs)·α0·C0` shows through, knockout groups start from the initial backdrop) is as published. -/
theorem compositor_refines_spec {B : Mode → Color → Color → Color} (hB : BOk B) (V : Rect) (x y : Int)
    (clipCompositing : Bool) (st : PState) (σ : SState) (hst : Inv st) (hr : Rel st σ) (n : Node) (hn : nodeOk n) :
    Rel (applyNode B V x y clipCompositing st n) (specNode .pdf17 B V x y clipCompositing σ n) :=
  applyNode_rel hB V x y clipCompositing st σ hst hr n hn

theorem compositor_refines_spec_list {B : Mode → Color → Color → Color} (hB : BOk B) (V : Rect) (x y : Int)
    (st : PState) (σ : SState) (hst : Inv st) (hr : Rel st σ) (ns : List Node) (hn : listOk ns) :
    Rel (applyList B V x y st ns) (specList .pdf17 B V x y σ ns) :=
  applyList_rel hB V x y st σ hst hr ns hn

theorem compositor_refines_spec_clip_run {B : Mode → Color → Color → Color} (hB : BOk B) (V : Rect) (x y : Int)
    (st : PState) (σ : SState) (hst : Inv st) (hr : Rel st σ) (ns : List Node) (hn : listOk ns) :
    Rel (applyClips B V x y st ns) (specClips .pdf17 B V x y σ ns) :=
  applyClips_rel hB V x y st σ hst hr ns hn

theorem compositor_refines_spec_doc {B : Mode → Color → Color → Color} (hB : BOk B) (V : Rect) (x y : Int)
    {color : Color} {alpha : Rat} (hc : ColorOk color) (ha : Unit01 alpha) (layers : List Node) (hl : listOk layers) :
    let code := compositeDoc B V x y color alpha layers
    let spec := specDoc .pdf17 B V x y (fun ch => alpha * color ch) alpha layers
    code.2.1 = spec.2.1 ∧ code.2.2 = spec.2.2 ∧ (∀ ch, code.1 ch * code.2.2 = spec.1 ch) ∧
      (code.2.2 ≠ 0 → ∀ ch, code.1 ch = spec.1 ch / spec.2.2) := by
  intro code spec
  obtain ⟨h1, h2, h3⟩ := compositeDoc_rel hB V x y hc ha layers hl
  refine ⟨h1, h2, h3, ?_⟩
  intro hne ch
  have h3' : code.1 ch * code.2.2 = spec.1 ch := h3 ch
  have h2' : code.2.2 = spec.2.2 := h2
  rw [← h3', ← h2']
  field_simp

example : listOk [koWhiteLayer] := koWhiteLayer_ok

/-- **The spec's evaluator is the spec.** The driver commands `comp.spec` (rule as coded) and `comp.spec.alt`
(published rule), which every run compares with `comp.pixel` on the correspondence cases, evaluate `specDocF`
(colours tabulated after every step); it returns exactly what `specDoc` returns. -/
theorem spec_evaluator_is_spec (r : KoRule) (k : Nat) (B : Mode → Color → Color → Color) (V : Rect) (x y : Int)
    (P : Color) (alpha : Rat) (layers : List Node) :
    specDocF r k B V x y P alpha layers = specDoc r B V x y P alpha layers :=
  specDocF_eq r k B V x y P alpha layers

end PsdVerif.C11
