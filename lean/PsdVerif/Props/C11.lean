/-
C11 — compositing agrees with the published compositing model.
The code model (`Model/Composite.lean`, one `_apply_source` step and the recursion over
layers, groups, masks and clip runs) against the Porter–Duff / PDF 1.7 §11.3–11.4 formulas,
in premultiplied form, for every rational input in range.
-/
import PsdVerif.Lemmas.CompositeTree
import PsdVerif.Lemmas.CompositeEval

namespace PsdVerif.C11
open PsdVerif PsdVerif.Composite

/-- **Basic compositing formula** (PDF 1.7 §11.3.6, with shape and opacity kept apart as in
§11.4.5): after one non-knockout `_apply_source` step with source colour `Cs`, shape `fs`,
alpha `αs` and blend function `B`,
`α' = Union(α, αs)` and `α'·C' = (1−αs)·α·C + αs·((1−α)·Cs + α·B(C, Cs))`.
The code's `_divide`/`_clip` never alter this (the quotient is always in `[0,1]`; where
`α' = 0` both sides are 0). -/
theorem apply_source_eq_pdf {bl : Color → Color → Color} {st : PState} {Cs : Color} {fs αs : Rat}
    (h : Inv st) (hs : SrcOk Cs fs αs) (hb : BlendOk bl) :
    let r := applySource bl st Cs fs αs false
    r.a = union st.a αs ∧ r.sg = union st.sg fs ∧ r.ag = union st.ag αs ∧
    ∀ ch, r.c ch * r.a = (1 - αs) * st.a * st.c ch + αs * ((1 - st.a) * Cs ch + st.a * bl st.c Cs ch) := by
  intro r
  exact ⟨applySource_a bl st Cs fs αs h, rfl, by simp [r], fun ch => applySource_mul h hs hb ch⟩

/-- **Porter–Duff "over"**: with the normal blend function, `α'·C' = αs·Cs + (1−αs)·α·C`. -/
theorem normal_is_source_over {st : PState} {Cs : Color} {fs αs : Rat} (h : Inv st) (hs : SrcOk Cs fs αs) (ch : Nat) :
    (applySource blNormal st Cs fs αs false).c ch * (applySource blNormal st Cs fs αs false).a
      = αs * Cs ch + (1 - αs) * (st.a * st.c ch) := by
  have hb : BlendOk blNormal := fun _ cs _ hcs => hcs
  rw [applySource_mul h hs hb ch]
  unfold stepNum blNormal
  ring

/-- a stack of plain sources with normal blending, folded the Porter–Duff way on premultiplied colour -/
def overFold (p : Rat) : List (Rat × Rat) → Rat
  | [] => p
  | (cs, αs) :: rest => overFold (αs * cs + (1 - αs) * p) rest

def alphaFold (a : Rat) : List (Rat × Rat) → Rat
  | [] => a
  | (_, αs) :: rest => alphaFold (union a αs) rest

/-- **A flat stack is the Porter–Duff fold.** Compositing sources `(Cs, αs)` (shape = alpha) with
normal blending one after the other gives premultiplied colour `overFold` and alpha `alphaFold`
of the per-channel values, whatever the stack length. -/
theorem flat_stack_is_porter_duff (ch : Nat) (srcs : List (Color × Rat)) (st : PState) (h : Inv st)
    (hs : ∀ s ∈ srcs, SrcOk s.1 s.2 s.2) :
    let r := srcs.foldl (fun st s => applySource blNormal st s.1 s.2 s.2 false) st
    r.c ch * r.a = overFold (st.c ch * st.a) (srcs.map fun s => (s.1 ch, s.2)) ∧
    r.a = alphaFold st.a (srcs.map fun s => (s.1 ch, s.2)) := by
  induction srcs generalizing st with
  | nil => exact ⟨rfl, rfl⟩
  | cons s rest ih =>
    have hs1 := hs s (List.mem_cons_self ..)
    have hinv := applySource_inv (bl := blNormal) h hs1 false
    have := ih (applySource blNormal st s.1 s.2 s.2 false) hinv (fun t ht => hs t (List.mem_cons_of_mem _ ht))
    simp only [List.foldl_cons, List.map_cons, overFold, alphaFold]
    rw [normal_is_source_over h hs1 ch, applySource_a _ _ _ _ _ h] at this
    have e : s.2 * s.1 ch + (1 - s.2) * (st.c ch * st.a) = s.2 * s.1 ch + (1 - s.2) * (st.a * st.c ch) := by ring
    rw [e]
    exact this

/-- **Knockout step** in premultiplied form: the source replaces what the group painted so far and is
composited with the group's *initial* backdrop `(C₀, α₀)`:
`α'·C' = (1−fs)·α·C + (fs−αs)·α₀·C₀ + αs·((1−α₀)·Cs + α₀·B(C₀, Cs))`. -/
theorem apply_source_knockout_eq_pdf {bl : Color → Color → Color} {st : PState} {Cs : Color} {fs αs : Rat}
    (h : Inv st) (hs : SrcOk Cs fs αs) (hb : BlendOk bl) (ch : Nat) :
    let r := applySource bl st Cs fs αs true
    r.c ch * r.a = (1 - fs) * st.a * st.c ch + (fs - αs) * st.a0 * st.c0 ch
      + αs * ((1 - st.a0) * Cs ch + st.a0 * bl st.c0 Cs ch) := by
  intro r
  obtain ⟨a0, a1⟩ := h.a
  obtain ⟨z0, z1⟩ := h.a0
  obtain ⟨g0, g1⟩ := h.ag
  obtain ⟨c0, c1⟩ := h.c ch
  obtain ⟨k0, k1⟩ := h.c0 ch
  obtain ⟨s0, s1⟩ := hs.c ch
  obtain ⟨b0, b1⟩ := hb st.c0 Cs h.c0 hs.c ch
  have e1 : 0 ≤ 1 - fs := sub_nonneg.2 hs.s1
  have e2 : 0 ≤ fs - αs := sub_nonneg.2 hs.as
  have m0 : 0 ≤ (1 - st.a0) * Cs ch + st.a0 * bl st.c0 Cs ch := by
    have := mul_nonneg (sub_nonneg.2 z1) s0; have := mul_nonneg z0 b0; linarith
  have m1 : (1 - st.a0) * Cs ch + st.a0 * bl st.c0 Cs ch ≤ 1 := by
    have := mul_le_mul_of_nonneg_left s1 (sub_nonneg.2 z1)
    have := mul_le_mul_of_nonneg_left b1 z0; linarith
  set num := (1 - fs) * st.a * st.c ch + (fs - αs) * st.a0 * st.c0 ch
      + αs * ((1 - st.a0) * Cs ch + st.a0 * bl st.c0 Cs ch) with hnum
  have hra : r.a = union st.a0 ((1 - fs) * st.ag + (fs - αs) * st.a0 + αs) := by
    simp [r, applySource]
  have hn0 : 0 ≤ num := by
    have := mul_nonneg (mul_nonneg e1 a0) c0
    have := mul_nonneg (mul_nonneg e2 z0) k0
    have := mul_nonneg hs.a0 m0
    linarith
  have hn1 : num ≤ r.a := by
    rw [hra]
    have t1 : (1 - fs) * st.a * st.c ch ≤ (1 - fs) * st.a := mul_le_of_le_one_right (mul_nonneg e1 a0) c1
    have t2 : (fs - αs) * st.a0 * st.c0 ch ≤ (fs - αs) * st.a0 := mul_le_of_le_one_right (mul_nonneg e2 z0) k1
    have t3 := mul_le_mul_of_nonneg_left m1 hs.a0
    have key : union st.a0 ((1 - fs) * st.ag + (fs - αs) * st.a0 + αs)
        - ((1 - fs) * st.a + (fs - αs) * st.a0 + αs) = st.a0 * (fs - αs) * (1 - st.a0) := by
      rw [h.a_eq]; unfold union; ring
    have : 0 ≤ st.a0 * (fs - αs) * (1 - st.a0) := mul_nonneg (mul_nonneg z0 e2) (sub_nonneg.2 z1)
    linarith
  have hc : r.c ch = clip (divide num r.a) := by
    simp only [r, applySource, if_true, hnum]
    congr 2
    ring
  rw [hc]
  exact clip_divide_mul hn0 hn1

/-- **State in range**: through the whole recursion (groups, masks, clip runs, knockout) colours,
shapes and alphas stay in `[0,1]`, `alpha = Union(alpha₀, alpha_g)` and `alpha_g ≤ shape_g`. -/
theorem state_in_range (B : Mode → Color → Color → Color) (V : Rect) (x y : Int) (cc : Bool) (st : PState)
    (hst : Inv st) (n : Node) (hn : nodeOk n) : Inv (applyNode B V x y cc st n) :=
  applyNode_inv B V x y cc st hst n hn

example : Inv (PState.init white 0 false) := inv_init white_ok unit01_zero false

/-- **The evaluator is the model.** The driver command `comp.pixel`, which the correspondence check runs
against the real compositor, evaluates `compositeDocF` (colours tabulated after every step, so that a stack
of `n` sources costs `O(n)` instead of `3^n` rational operations); it returns exactly what `compositeDoc`
returns, for every number `k` of tabulated channels. -/
theorem evaluator_is_model (k : Nat) (B : Mode → Color → Color → Color) (V : Rect) (x y : Int) (color : Color)
    (alpha : Rat) (layers : List Node) :
    compositeDocF k B V x y color alpha layers = compositeDoc B V x y color alpha layers :=
  compositeDocF_eq k B V x y color alpha layers

end PsdVerif.C11
