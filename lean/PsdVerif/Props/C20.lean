/-
C20 — no cross-document state: results do not depend on processing history.
-/
import PsdVerif.Model.Globals
import PsdVerif.Generated.Globals
import PsdVerif.Generated.Terms
import PsdVerif.Model.Switches
import PsdVerif.Generated.Switches
import PsdVerif.Lemmas.Globals

namespace PsdVerif.C20
open PsdVerif PsdVerif.Globals PsdVerif.Switches

/-! ### The footprint of the current tree (regenerated from the AST on every run) -/

/-- No module-level or class-level mutable object of src/psd_tools is both
mutated by code that runs after import and read by such code. -/
theorem current_tree_clean : ∀ c ∈ Generated.Globals.cells, c.clean = true := by decide

/-- No function of src/psd_tools uses a module-level or class-level object of unknown, possibly mutable type
that a call built at import (`np.random.RandomState(0)`, `random.Random()`, a class instance, a cache object):
drawing from a shared generator or calling a method on a shared instance is state that one document's processing
leaves for the next.  (Implied by `current_tree_clean`; stated separately because these cells are not containers
and no dict / list / set snapshot sees them.) -/
theorem current_tree_objects_quiet :
    ∀ c ∈ Generated.Globals.cells, c.kind = .moduleObject → c.writtenAtRuntime = false := by decide

/-- No code of src/psd_tools that runs after import leaves a process-wide switch of the standard
library or of a third-party module (`attr.validators.set_disabled`, `logging.disable`,
`warnings.simplefilter`, `np.seterr`, `sys.setrecursionlimit`, `os.environ[..] = ..`,
`PIL.Image.MAX_IMAGE_PIXELS = ..`, a monkey-patched attribute of an imported module ...) changed:
every such site of the current tree is import-time or scoped by a restoring context manager. -/
theorem current_tree_switches_clean : ∀ s ∈ Generated.Switches.sites, s.clean = true := by decide

/-- No `attr.ib(default=<mutable object>)`: freshly constructed structures share no default. -/
theorem no_shared_defaults : Generated.Globals.sharedDefaults = [] := by decide

/-- The set of known descriptor terms is an immutable object and holds 4-byte terms only
(regenerated from the live module on every run). -/
theorem terms_immutable : Generated.Terms.termsImmutable = true ∧ Generated.Terms.oddTerms = 0 := by decide

/-- non-vacuity: the table is not empty and contains the descriptor registries -/
example : Generated.Globals.cells.length ≥ 10 := by decide

/-! ### Non-interference from the footprint condition -/

section
variable {CellId Val Doc Out : Type}

theorem runOps_agree (all : Op CellId Val Doc Out → Prop)
    (hsep : ∀ o₁ o₂ c, all o₁ → all o₂ → o₁.writes c → ¬ o₂.reads c)
    (ops : List (Op CellId Val Doc Out)) (hops : ∀ o ∈ ops, all o)
    (s₁ s₂ : CellId → Val) (d : Doc)
    (hagree : ∀ c, (¬ ∃ o, all o ∧ o.writes c) → s₁ c = s₂ c) :
    (runOps ops s₁ d).2 = (runOps ops s₂ d).2 := by
  induction ops generalizing s₁ s₂ d with
  | nil => rfl
  | cons op rest ih =>
    have hop : all op := hops op (List.mem_cons_self ..)
    have hread : ∀ c, op.reads c → s₁ c = s₂ c := by
      intro c hc
      apply hagree
      rintro ⟨o, ho, hw⟩
      exact hsep o op c ho hop hw hc
    have h2 := op.reads_only s₁ s₂ d hread
    have hagree' : ∀ c, (¬ ∃ o, all o ∧ o.writes c) → (op.run s₁ d).1 c = (op.run s₂ d).1 c := by
      intro c hc
      have hnw : ¬ op.writes c := fun hw => hc ⟨op, hop, hw⟩
      rw [op.writes_only s₁ d c hnw, op.writes_only s₂ d c hnw]
      exact hagree c hc
    have hrest := ih (fun o ho => hops o (List.mem_cons_of_mem _ ho)) (op.run s₁ d).1 (op.run s₂ d).1
      (op.run s₁ d).2.1 hagree'
    simp only [runOps]
    have hd : (op.run s₁ d).2.1 = (op.run s₂ d).2.1 := by rw [h2]
    have ho : (op.run s₁ d).2.2 = (op.run s₂ d).2.2 := by rw [h2]
    rw [← hd, ← ho, hrest]

theorem afterHistory_unwritten (all : Op CellId Val Doc Out → Prop)
    (h : List (Op CellId Val Doc Out × Doc)) (hh : ∀ p ∈ h, all p.1)
    (s : CellId → Val) (c : CellId) (hc : ¬ ∃ o, all o ∧ o.writes c) :
    afterHistory h s c = s c := by
  induction h generalizing s with
  | nil => rfl
  | cons p rest ih =>
    obtain ⟨op, d⟩ := p
    simp only [afterHistory]
    rw [ih (fun q hq => hh q (List.mem_cons_of_mem _ hq))]
    exact op.writes_only s d c (fun hw => hc ⟨op, hh (op, d) (List.mem_cons_self ..), hw⟩)

/-- **Non-interference.** If no operation of the system reads a cell that some
operation writes, then what a sequence of operations returns for a document
(results and outputs) does not depend on which other documents were processed
before, in any order, from the same initial store. -/
theorem noninterference (all : Op CellId Val Doc Out → Prop)
    (hsep : ∀ o₁ o₂ c, all o₁ → all o₂ → o₁.writes c → ¬ o₂.reads c)
    (init : CellId → Val)
    (h₁ h₂ : List (Op CellId Val Doc Out × Doc))
    (hh₁ : ∀ p ∈ h₁, all p.1) (hh₂ : ∀ p ∈ h₂, all p.1)
    (ops : List (Op CellId Val Doc Out)) (hops : ∀ o ∈ ops, all o) (d : Doc) :
    (runOps ops (afterHistory h₁ init) d).2 = (runOps ops (afterHistory h₂ init) d).2 := by
  apply runOps_agree all hsep ops hops
  intro c hc
  rw [afterHistory_unwritten all h₁ hh₁ init c hc, afterHistory_unwritten all h₂ hh₂ init c hc]

/-- The same statement from a footprint *table*: operations conform to the table
(they write only cells the table marks written, read only cells it marks read)
and every cell of the table is clean. This is the shape `current_tree_clean`
instantiates. -/
theorem noninterference_of_table (all : Op CellId Val Doc Out → Prop) (T : CellId → Cell)
    (hconf : ∀ o c, all o → (o.writes c → (T c).writtenAtRuntime = true) ∧ (o.reads c → (T c).readObservably = true))
    (hclean : ∀ c, (T c).clean = true)
    (init : CellId → Val)
    (h₁ h₂ : List (Op CellId Val Doc Out × Doc))
    (hh₁ : ∀ p ∈ h₁, all p.1) (hh₂ : ∀ p ∈ h₂, all p.1)
    (ops : List (Op CellId Val Doc Out)) (hops : ∀ o ∈ ops, all o) (d : Doc) :
    (runOps ops (afterHistory h₁ init) d).2 = (runOps ops (afterHistory h₂ init) d).2 := by
  apply noninterference all _ init h₁ h₂ hh₁ hh₂ ops hops d
  intro o₁ o₂ c h1 h2 hw hr
  have hw' := (hconf o₁ c h1).1 hw
  have hr' := (hconf o₂ c h2).2 hr
  have := hclean c
  simp [Cell.clean, hw', hr'] at this

/-- The same statement over BOTH regenerated tables: a cell is either one of psd_tools' own
(`S c = none`, described by the footprint table `T`) or a process-wide switch of a foreign module
(`S c = some s`, described by a site of the switch table; foreign state is assumed to be read by
anybody). Operations conform to the tables; every own cell and every switch site is clean. This is
the shape `current_tree_clean` + `current_tree_switches_clean` instantiate. -/
theorem noninterference_of_tables (all : Op CellId Val Doc Out → Prop) (T : CellId → Cell)
    (S : CellId → Option Site)
    (hconf : ∀ o c, all o →
      (o.writes c → (S c = none ∧ (T c).writtenAtRuntime = true) ∨ (∃ s, S c = some s ∧ s.written = true)) ∧
      (o.reads c → S c = none → (T c).readObservably = true))
    (hclean : ∀ c, (T c).clean = true)
    (hswitch : ∀ c s, S c = some s → s.clean = true)
    (init : CellId → Val)
    (h₁ h₂ : List (Op CellId Val Doc Out × Doc))
    (hh₁ : ∀ p ∈ h₁, all p.1) (hh₂ : ∀ p ∈ h₂, all p.1)
    (ops : List (Op CellId Val Doc Out)) (hops : ∀ o ∈ ops, all o) (d : Doc) :
    (runOps ops (afterHistory h₁ init) d).2 = (runOps ops (afterHistory h₂ init) d).2 := by
  apply noninterference all _ init h₁ h₂ hh₁ hh₂ ops hops d
  intro o₁ o₂ c h1 h2 hw hr
  rcases (hconf o₁ c h1).1 hw with ⟨hn, hw'⟩ | ⟨s, hs, hsw⟩
  · have hr' := (hconf o₂ c h2).2 hr hn
    have := hclean c
    simp [Cell.clean, hw', hr'] at this
  · have := hswitch c s hs
    simp [Site.clean, hsw] at this

end

/-- non-vacuity of the switch vocabulary: a run-time, unscoped site (what `attr.validators.set_disabled(True)`
inside a reader would be) is NOT clean; the same call as the `with` item of a restoring manager is. -/
example : ({ site := "m:1", callee := "attr.validators.set_disabled", atRuntime := true, restored := false } : Site).clean = false := by decide
example : ({ site := "m:1", callee := "numpy.errstate", atRuntime := true, restored := true } : Site).clean = true := by decide
example : ({ site := "m:1", callee := "warnings.simplefilter", atRuntime := false, restored := false } : Site).clean = true := by decide

/-! ### The descriptor key codec -/

/-- What went wrong before the repair, on a concrete witness: after reading a
file that stores the unknown key `alis` with length 0, the same key is written
differently for every later document. -/
theorem legacy_history_dependent :
    ∃ (terms₀ : List (List UInt8)) (file : List UInt8) (k : List UInt8) (terms₁ : List (List UInt8)),
      (∃ kb p, (legacyReadKey terms₀ file 0).toOption = some (kb, p, terms₁)) ∧
      legacyWriteKey terms₀ k ≠ legacyWriteKey terms₁ k :=
  ⟨[], [0, 0, 0, 0, 97, 108, 105, 115], [97, 108, 105, 115], [[97, 108, 105, 115]],
    ⟨[97, 108, 105, 115], 8, by decide +kernel⟩, by decide +kernel⟩

/-- The current codec: whatever key the library can hold (`Key.WF`) is read back
exactly, from any position, independently of anything read before — there is no
store argument at all: `terms` is the immutable set of known terms. -/
theorem readKey_writeKey (terms : List UInt8 → Bool) (k : Key) (hk : Key.WF terms k)
    (pre post bs : List UInt8) (hw : writeKey terms k = .ok bs) :
    readKey terms (pre ++ bs ++ post) pre.length = .ok (k, pre.length + bs.length) := by
  obtain ⟨h1, h2, h3⟩ := hk
  obtain ⟨kb, imp⟩ := k
  simp only at h1 h2 h3
  unfold writeKey at hw
  simp only at hw
  cases ht : terms kb <;> cases hi : imp <;> simp only [ht, hi, Bool.or_self, Bool.or_true, Bool.true_or, Bool.false_eq_true, if_false, if_true] at hw
  · split at hw
    · rename_i hlt
      injection hw with hw; subst hw
      have hne := h3 hi ht
      rw [readKey_frame terms kb pre post _ hlt (by simp [hne])]
      simp [hne, ht]
    · simp at hw
  all_goals
    (simp only [Nat.zero_lt_succ, if_true] at hw
     injection hw with hw; subst hw
     have hl : kb.length = 4 := by
       first | exact h2 ht | exact (h1 hi).1
     rw [readKey_frame terms kb pre post 0 (by decide) (by simp [hl])]
     first | (have := (h1 hi).2; simp_all) | simp [ht])

example : Key.WF (fun b => b == [75, 101, 121, 32]) { bytes := [97, 108, 105, 115], implicit := true } := by
  simp [Key.WF]

end PsdVerif.C20
