/-
C14 — read-only operations are pure; derived values are never stale.

`Fresh s` (Lemmas/TreeFresh.lean): every cached box of a container that is in a document equals
what `Group.extract_bbox` computes from the current tree (an artboard caches its own rectangle).
`SameObs s s'`: `s'` differs from `s` in caches only. All statements are about `Cfg.current`
(the repaired code); `legacy_…` are the machine-checked counterexamples of the snapshot.
-/
import PsdVerif.Lemmas.TreeFreshStep

namespace PsdVerif.C14
open PsdVerif PsdVerif.TreeSt

/-! ### Derived values are never stale -/

theorem fresh_init (limit : Nat) : Fresh (State.empty limit) := by
  intro g _ _ b hb
  cases hb

/-- **Freshness step.** From a well-formed tree whose cached boxes are fresh, an operation (under
the guard of the inserting operations and below the recursion limit; refused operations included)
leaves every cached box of a layer that is in a document equal to what `Group.extract_bbox`
computes from the new tree. The proof needs all five cache repairs (`CacheCfg`). -/
theorem fresh_step (s : State) (op : Op) (i : Inv s) (f : Fresh s) (hg : Guard s op)
    (hne : (step .current s op).2 ≠ .error .recursionError) : Fresh (step .current s op).1 :=
  (good_step s op ⟨i, f⟩ hg hne).fresh

/-- over histories: whatever was read or edited before -/
theorem fresh_history (s : State) (ops : List Op) (i : Inv s) (f : Fresh s) (hg : Guarded .current s ops) :
    Fresh (runState .current s ops) :=
  (good_run s ops ⟨i, f⟩ hg).fresh

/-- hence, at every point of a guarded history from the empty store, the box answered for a layer
that is in a document is the fresh one -/
theorem answers_fresh_history (ops : List Op) (limit : Nat) (hg : Guarded .current (State.empty limit) ops) (x : Id)
    (ha : Attached (runState .current (State.empty limit) ops) x) :
    (obsBbox (runState .current (State.empty limit) ops) x).2 = bboxAnswer (runState .current (State.empty limit) ops) x := by
  have hgood := good_run _ ops ⟨inv_empty limit, fresh_init limit⟩ hg
  by_cases hc : (runState .current (State.empty limit) ops).cont x = true
  · exact obsBbox_answer x (hgood.fresh x ha hc)
  · unfold obsBbox bboxAnswer
    simp [hc]

/-! ### Read-only operations are pure -/

/-- **Observations change nothing observable**: lists, back pointers, kinds, flags, rectangles and
dirty flags are what they were; only caches may have been filled. -/
theorem observe_pure (s : State) (o : Obs) : SameObs s (step .current s (.observe o)).1 :=
  observe_obs s o

/-- … and what they fill in is fresh: an observation keeps every cache fresh. -/
theorem observe_keeps_fresh (s : State) (o : Obs) (f : Fresh s) : Fresh (step .current s (.observe o)).1 :=
  fresh_observe o f

/-- **Answers are fresh**: when the cache of `x` is fresh (or empty), `x.bbox` is the value computed
from the tree alone. -/
theorem answers_fresh (s : State) (x : Id) (h : CacheOk s x) : (obsBbox s x).2 = bboxAnswer s x :=
  obsBbox_answer x h

/-- the fresh answer depends on the tree only -/
theorem bboxAnswer_tree (s s' : State) (h : SameTree s s') (x : Id) : bboxAnswer s' x = bboxAnswer s x := by
  unfold bboxAnswer
  rw [h.cont, h.box, h.kind, extractBbox_congr h]

/-- **Later answers are the same**: after any observation the box of a node whose cache was fresh is
answered exactly as if the observation had not been made. -/
theorem later_answers_same (s : State) (o : Obs) (x : Id) (h : CacheOk s x) :
    (obsBbox (step .current s (.observe o)).1 x).2 = (obsBbox s x).2 := by
  show (obsBbox (observe s o).1 x).2 = (obsBbox s x).2
  rw [answers_fresh _ x (cacheOk_observe o x h), answers_fresh s x h]
  exact bboxAnswer_tree s _ (observe_same s o) x

/-- a property getter or query outside the modelled answers (`name`, `kind`, `locks`, `mask`, `effects`,
`tagged_blocks`, `has_*`, … — the harness enumerates them by reflection) writes nothing at all -/
theorem getter_writes_nothing (s : State) (x : Id) : (step .current s (.observe (.getter x))).1 = s := rfl

/-- **No read-only call changes which tagged blocks a record carries** — what a later save writes for the layer
(`SameObs` includes the key lists since the seeded `locks` getter: a read that creates a block). -/
theorem observe_keeps_blocks (s : State) (o : Obs) : (step .current s (.observe o)).1.blocks = s.blocks :=
  (observe_pure s o).blocks

/-- … over any sequence of read-only calls: nothing but caches differs afterwards -/
theorem observations_pure (s : State) (os : List Obs) : SameObs s (runState .current s (os.map .observe)) := by
  induction os generalizing s with
  | nil => exact SameObs.refl s
  | cons o os ih => exact (observe_pure s o).trans (ih (step .current s (.observe o)).1)

/-! ### Degenerate end states: what the fresh answer is when nothing is left

`fresh_history` holds for every guarded history, in particular for those that end with a group emptied, a
document emptied, or every layer hidden. These are the values the harness compares with a freshly opened twin. -/

theorem extList_all_hidden (s : State) (r : Id → Except Err BBox) (cs : List Id)
    (h : ∀ c, c ∈ cs → isVis s c = .ok false) : extList r s cs = .ok [] := by
  induction cs with
  | nil => rfl
  | cons c cs ih =>
    simp only [extList]
    rw [h c (List.mem_cons_self)]
    exact ih (fun c' hc' => h c' (List.mem_cons_of_mem _ hc'))

/-- a group none of whose children is visible — in particular a group whose last child was removed — has the
fresh box `(0,0,0,0)` -/
theorem nothing_visible_group_answer (s : State) (g : Id) (hk : s.kind g = .group) (hl : s.limit ≠ 0)
    (h : ∀ c, c ∈ s.children g → isVis s c = .ok false) : bboxAnswer s g = .ok BBox.zero := by
  obtain ⟨f, hf⟩ := Nat.exists_eq_succ_of_ne_zero hl
  unfold bboxAnswer extractBbox
  simp only [State.cont, hk, isCont, hf, extF, extList_all_hidden s _ _ h]
  simp [unionAll]

/-- a document none of whose layers is visible — in particular an emptied document — answers its canvas -/
theorem nothing_visible_document_answer (s : State) (d : Id) (hk : s.kind d = .doc) (hl : s.limit ≠ 0)
    (h : ∀ c, c ∈ s.children d → isVis s c = .ok false) : bboxAnswer s d = .ok (s.box d) := by
  obtain ⟨f, hf⟩ := Nat.exists_eq_succ_of_ne_zero hl
  unfold bboxAnswer extractBbox
  simp only [State.cont, hk, isCont, hf, extF, extList_all_hidden s _ _ h]
  simp [unionAll]

/-- **never stale in a degenerate end state**: after ANY guarded history, a group in a document that has no
visible child left answers `(0,0,0,0)`, whatever was cached before -/
theorem emptied_group_never_stale (ops : List Op) (limit : Nat) (hg : Guarded .current (State.empty limit) ops) (g : Id)
    (ha : Attached (runState .current (State.empty limit) ops) g)
    (hk : (runState .current (State.empty limit) ops).kind g = .group)
    (hl : (runState .current (State.empty limit) ops).limit ≠ 0)
    (h : ∀ c, c ∈ (runState .current (State.empty limit) ops).children g →
      isVis (runState .current (State.empty limit) ops) c = .ok false) :
    (obsBbox (runState .current (State.empty limit) ops) g).2 = .ok BBox.zero := by
  rw [answers_fresh_history ops limit hg g ha]
  exact nothing_visible_group_answer _ g hk hl h

/-! ### Concrete states: non-vacuity and the counterexamples of the snapshot -/

/-- document 0 lists [1, 2]: 1 a pixel layer at (0,0,2,2), 2 an empty group; 3 a detached layer at (1,1,3,3) -/
def demo : State :=
  runState .current (State.empty 50)
    [.newDoc ⟨0, 0, 8, 8⟩, .newLayer (some 0) ⟨0, 0, 2, 2⟩, .newGroup (some 0), .newLayer (some 0) ⟨1, 1, 3, 3⟩,
     .append 0 1]

/-- read the box of the empty group, then append a layer: the repaired code drops the cached box … -/
theorem append_after_read_fresh :
    let s := runState .current demo [.observe (.bbox 2), .append 2 3]
    s.cache 2 = none ∧ (extractBbox s 2).toOption = some ⟨1, 1, 3, 3⟩ := by decide

/-- … the snapshot kept `(0,0,0,0)` (and the compositor then skipped the group) (fixed: 52bed49). -/
theorem legacy_append_after_read_stale :
    let s := runState .legacy demo [.observe (.bbox 2), .append 2 3]
    s.cache 2 = some BBox.zero ∧ (extractBbox s 2).toOption = some ⟨1, 1, 3, 3⟩ := by decide

/-- `psd.bbox` read once was never refreshed: the snapshot's climb stopped below the document
(fixed: 6b2ac1c) -/
theorem legacy_document_bbox_stale :
    let s := runState .legacy demo [.observe (.bbox 0), .setLeft 1 4]
    s.cache 0 = some ⟨0, 0, 2, 2⟩ ∧ (extractBbox s 0).toOption = some ⟨4, 0, 6, 2⟩ := by decide

theorem document_bbox_refreshed :
    let s := runState .current demo [.observe (.bbox 0), .setLeft 1 4]
    s.cache 0 = none := by decide

/-- document 0 lists [1]; group 1 lists [2]; group 2 lists [3]; 3 a pixel layer at (1,1,3,3) -/
def nested : State :=
  runState .current (State.empty 50)
    [.newDoc ⟨0, 0, 8, 8⟩, .newGroup (some 0), .newGroup (some 1), .newLayer (some 0) ⟨1, 1, 3, 3⟩, .append 2 3]

/-- hiding a group changes the boxes of the groups below it (visibility is inherited); the snapshot,
and the code with the first two cache repairs only, kept the cached box of the inner group
(fixed: 29b367a) -/
theorem legacy_hidden_group_below_stale :
    let s := runState ⟨true, true, true, true, false, true⟩ nested [.observe (.bbox 2), .setVisible 1 false]
    s.cache 2 = some ⟨1, 1, 3, 3⟩ ∧ (extractBbox s 2).toOption = some BBox.zero := by decide

theorem hidden_group_below_refreshed :
    let s := runState .current nested [.observe (.bbox 2), .setVisible 1 false]
    s.cache 2 = none := by decide

/-- the last child of a group removed after every box above it was read: all of them are dropped, the group
answers `(0,0,0,0)` and the document its canvas -/
theorem last_child_removed_refreshed :
    let s := runState .current nested [.observe (.bbox 2), .observe (.bbox 1), .observe (.bbox 0), .deleteLayer 3]
    s.children 2 = [] ∧ s.cache 2 = none ∧ s.cache 1 = none ∧ s.cache 0 = none ∧
      (obsBbox s 2).2.toOption = some BBox.zero ∧ (obsBbox s 0).2.toOption = some ⟨0, 0, 8, 8⟩ := by decide

/-- the last visible layer hidden after the document's box was read -/
theorem last_visible_hidden_refreshed :
    let s := runState .current demo [.observe (.bbox 0), .setVisible 1 false]
    s.cache 0 = none ∧ (extractBbox s 0).toOption = some BBox.zero ∧ (obsBbox s 0).2.toOption = some ⟨0, 0, 8, 8⟩ := by
  decide

/-- the document emptied after its box was read -/
theorem emptied_document_refreshed :
    let s := runState .current demo [.observe (.bbox 0), .observe (.bbox 2), .clear 0]
    s.children 0 = [] ∧ s.cache 0 = none ∧ (obsBbox s 0).2.toOption = some ⟨0, 0, 8, 8⟩ := by decide

/-- non-vacuity of `emptied_group_never_stale` / `nothing_visible_group_answer`: group 2 of `demo` is empty -/
example : demo.kind 2 = .group ∧ demo.limit ≠ 0 ∧ (∀ c, c ∈ demo.children 2 → isVis demo c = .ok false) ∧
    bboxAnswer demo 2 = .ok BBox.zero :=
  ⟨by decide, by decide, by decide, nothing_visible_group_answer demo 2 (by decide) (by decide) (by decide)⟩

theorem demo_inv : Inv demo := by
  have i4 : Inv (runState .current (State.empty 50)
      [.newDoc ⟨0, 0, 8, 8⟩, .newLayer (some 0) ⟨0, 0, 2, 2⟩, .newGroup (some 0), .newLayer (some 0) ⟨1, 1, 3, 3⟩]) :=
    inv_run _ _ (inv_empty 50) ⟨trivial, by decide, trivial, by decide, trivial, by decide, trivial, by decide, trivial⟩
  exact inv_step _ (.append 0 1) i4 (detached_of_bounded i4 (by decide)) (by decide)

/-- non-vacuity of `fresh_step`: a guarded edit from a state with a filled, fresh cache that the
edit must (and does) drop -/
example : (step .current demo (.observe (.bbox 2))).1.cache 2 = some BBox.zero ∧
    Guard (step .current demo (.observe (.bbox 2))).1 (.append 2 3) ∧
    Inv (step .current demo (.observe (.bbox 2))).1 :=
  ⟨by decide, detached_of_bounded ((observe_same demo _).inv demo_inv) (by decide), (observe_same demo _).inv demo_inv⟩

/-- **Known finding** `C14/bbox-stale/detached-node-with-stale-parent`: why `Fresh` speaks about
layers that are in a document. A layer removed from a group keeps its parent pointer; its
`is_visible()` — hence its box — still follows that pointer, but no invalidation can reach it.
Here group 2 is removed from group 1 while 1 sits in the detached group 4; its box is read
(invisible: `(0,0,0,0)`); then 4 is appended to the document, which makes 2 "visible" again. -/
theorem detached_stale_parent_witness :
    let s := runState .current nested [.newGroup none, .moveToGroup 1 4, .clear 1, .observe (.bbox 2), .append 0 4]
    s.cache 2 = some BBox.zero ∧ (extractBbox s 2).toOption = some ⟨1, 1, 3, 3⟩ ∧ (∀ c, c < s.next → 2 ∉ s.children c) := by
  decide

end PsdVerif.C14
