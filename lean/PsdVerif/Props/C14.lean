/-
C14 — read-only operations are pure; derived values are never stale.

`Fresh s` (Lemmas/TreeFresh.lean): every cached box of a container that is in a document equals
what `Group.extract_bbox` computes from the current tree (an artboard caches its own rectangle).
`SameObs s s'`: `s'` differs from `s` in caches only. All statements are about `Cfg.current`
(the repaired code); `legacy_…` are the machine-checked counterexamples of the snapshot.
-/
import PsdVerif.Lemmas.TreeFreshStep
import PsdVerif.Lemmas.FreshTable
import PsdVerif.Generated.FreshTable

namespace PsdVerif.C14
open PsdVerif PsdVerif.TreeSt

/-! ### Derived values are never stale -/

theorem fresh_init (limit : Nat) : Fresh (State.empty limit) := by
  intro g _ _ b hb
  cases hb

/-- **Freshness step.** From a well-formed tree whose cached boxes are fresh, an operation (under
the guard of the inserting operations and below the recursion limit; refused operations included)
leaves every cached box of a layer that is in a document equal to what `Group.extract_bbox`
computes from the new tree. The proof needs all five cache repairs (`CacheCfg`). -/
theorem fresh_step (s : State) (op : Op) (i : Inv s) (f : Fresh s) (hg : Guard s op)
    (hne : (step .current s op).2 ≠ .error .recursionError) : Fresh (step .current s op).1 :=
  (good_step s op ⟨i, f⟩ hg hne).fresh

/-- over histories: whatever was read or edited before -/
theorem fresh_history (s : State) (ops : List Op) (i : Inv s) (f : Fresh s) (hg : Guarded .current s ops) :
    Fresh (runState .current s ops) :=
  (good_run s ops ⟨i, f⟩ hg).fresh

/-- hence, at every point of a guarded history from the empty store, the box answered for a layer
that is in a document is the fresh one -/
theorem answers_fresh_history (ops : List Op) (limit : Nat) (hg : Guarded .current (State.empty limit) ops) (x : Id)
    (ha : Attached (runState .current (State.empty limit) ops) x) :
    (obsBbox (runState .current (State.empty limit) ops) x).2 = bboxAnswer (runState .current (State.empty limit) ops) x := by
  have hgood := good_run _ ops ⟨inv_empty limit, fresh_init limit⟩ hg
  by_cases hc : (runState .current (State.empty limit) ops).cont x = true
  · exact obsBbox_answer x (hgood.fresh x ha hc)
  · unfold obsBbox bboxAnswer
    simp [hc]

/-! ### Read-only operations are pure -/

/-- **Observations change nothing observable**: lists, back pointers, kinds, flags, rectangles and
dirty flags are what they were; only caches may have been filled. -/
theorem observe_pure (s : State) (o : Obs) : SameObs s (step .current s (.observe o)).1 :=
  observe_obs s o

/-- … and what they fill in is fresh: an observation keeps every cache fresh. -/
theorem observe_keeps_fresh (s : State) (o : Obs) (f : Fresh s) : Fresh (step .current s (.observe o)).1 :=
  fresh_observe o f

/-- **Answers are fresh**: when the cache of `x` is fresh (or empty), `x.bbox` is the value computed
from the tree alone. -/
theorem answers_fresh (s : State) (x : Id) (h : CacheOk s x) : (obsBbox s x).2 = bboxAnswer s x :=
  obsBbox_answer x h

/-- the fresh answer depends on the tree only -/
theorem bboxAnswer_tree (s s' : State) (h : SameTree s s') (x : Id) : bboxAnswer s' x = bboxAnswer s x := by
  unfold bboxAnswer
  rw [h.cont, h.box, h.kind, extractBbox_congr h]

/-- **Later answers are the same**: after any observation the box of a node whose cache was fresh is
answered exactly as if the observation had not been made. -/
theorem later_answers_same (s : State) (o : Obs) (x : Id) (h : CacheOk s x) :
    (obsBbox (step .current s (.observe o)).1 x).2 = (obsBbox s x).2 := by
  show (obsBbox (observe s o).1 x).2 = (obsBbox s x).2
  rw [answers_fresh _ x (cacheOk_observe o x h), answers_fresh s x h]
  exact bboxAnswer_tree s _ (observe_same s o) x

/-- a property getter or query outside the modelled answers (`name`, `kind`, `locks`, `mask`, `effects`,
`tagged_blocks`, `has_*`, … — the harness enumerates them by reflection) writes nothing at all -/
theorem getter_writes_nothing (s : State) (x : Id) : (step .current s (.observe (.getter x))).1 = s := rfl

/-- **No read-only call changes which tagged blocks a record carries** — what a later save writes for the layer
(`SameObs` includes the key lists since the seeded `locks` getter: a read that creates a block). -/
theorem observe_keeps_blocks (s : State) (o : Obs) : (step .current s (.observe o)).1.blocks = s.blocks :=
  (observe_pure s o).blocks

/-- … over any sequence of read-only calls: nothing but caches differs afterwards -/
theorem observations_pure (s : State) (os : List Obs) : SameObs s (runState .current s (os.map .observe)) := by
  induction os generalizing s with
  | nil => exact SameObs.refl s
  | cons o os ih => exact (observe_pure s o).trans (ih (step .current s (.observe o)).1)

/-! ### Degenerate end states: what the fresh answer is when nothing is left

`fresh_history` holds for every guarded history, in particular for those that end with a group emptied, a
document emptied, or every layer hidden. These are the values the harness compares with a freshly opened twin. -/

theorem extList_all_hidden (s : State) (r : Id → Except Err BBox) (cs : List Id)
    (h : ∀ c, c ∈ cs → isVis s c = .ok false) : extList r s cs = .ok [] := by
  induction cs with
  | nil => rfl
  | cons c cs ih =>
    simp only [extList]
    rw [h c (List.mem_cons_self)]
    exact ih (fun c' hc' => h c' (List.mem_cons_of_mem _ hc'))

/-- a group none of whose children is visible — in particular a group whose last child was removed — has the
fresh box `(0,0,0,0)` -/
theorem nothing_visible_group_answer (s : State) (g : Id) (hk : s.kind g = .group) (hl : s.limit ≠ 0)
    (h : ∀ c, c ∈ s.children g → isVis s c = .ok false) : bboxAnswer s g = .ok BBox.zero := by
  obtain ⟨f, hf⟩ := Nat.exists_eq_succ_of_ne_zero hl
  unfold bboxAnswer extractBbox
  simp only [State.cont, hk, isCont, hf, extF, extList_all_hidden s _ _ h]
  simp [unionAll]

/-- a document none of whose layers is visible — in particular an emptied document — answers its canvas -/
theorem nothing_visible_document_answer (s : State) (d : Id) (hk : s.kind d = .doc) (hl : s.limit ≠ 0)
    (h : ∀ c, c ∈ s.children d → isVis s c = .ok false) : bboxAnswer s d = .ok (s.box d) := by
  obtain ⟨f, hf⟩ := Nat.exists_eq_succ_of_ne_zero hl
  unfold bboxAnswer extractBbox
  simp only [State.cont, hk, isCont, hf, extF, extList_all_hidden s _ _ h]
  simp [unionAll]

/-- **never stale in a degenerate end state**: after ANY guarded history, a group in a document that has no
visible child left answers `(0,0,0,0)`, whatever was cached before -/
theorem emptied_group_never_stale (ops : List Op) (limit : Nat) (hg : Guarded .current (State.empty limit) ops) (g : Id)
    (ha : Attached (runState .current (State.empty limit) ops) g)
    (hk : (runState .current (State.empty limit) ops).kind g = .group)
    (hl : (runState .current (State.empty limit) ops).limit ≠ 0)
    (h : ∀ c, c ∈ (runState .current (State.empty limit) ops).children g →
      isVis (runState .current (State.empty limit) ops) c = .ok false) :
    (obsBbox (runState .current (State.empty limit) ops) g).2 = .ok BBox.zero := by
  rw [answers_fresh_history ops limit hg g ha]
  exact nothing_visible_group_answer _ g hk hl h

/-! ### Concrete states: non-vacuity and the counterexamples of the snapshot -/

/-- document 0 lists [1, 2]: 1 a pixel layer at (0,0,2,2), 2 an empty group; 3 a detached layer at (1,1,3,3) -/
def demo : State :=
  runState .current (State.empty 50)
    [.newDoc ⟨0, 0, 8, 8⟩, .newLayer (some 0) ⟨0, 0, 2, 2⟩, .newGroup (some 0), .newLayer (some 0) ⟨1, 1, 3, 3⟩,
     .append 0 1]

/-- read the box of the empty group, then append a layer: the repaired code drops the cached box … -/
theorem append_after_read_fresh :
    let s := runState .current demo [.observe (.bbox 2), .append 2 3]
    s.cache 2 = none ∧ (extractBbox s 2).toOption = some ⟨1, 1, 3, 3⟩ := by decide

/-- … the snapshot kept `(0,0,0,0)` (and the compositor then skipped the group) (fixed: 52bed49). -/
theorem legacy_append_after_read_stale :
    let s := runState .legacy demo [.observe (.bbox 2), .append 2 3]
    s.cache 2 = some BBox.zero ∧ (extractBbox s 2).toOption = some ⟨1, 1, 3, 3⟩ := by decide

/-- `psd.bbox` read once was never refreshed: the snapshot's climb stopped below the document
(fixed: 6b2ac1c) -/
theorem legacy_document_bbox_stale :
    let s := runState .legacy demo [.observe (.bbox 0), .setLeft 1 4]
    s.cache 0 = some ⟨0, 0, 2, 2⟩ ∧ (extractBbox s 0).toOption = some ⟨4, 0, 6, 2⟩ := by decide

theorem document_bbox_refreshed :
    let s := runState .current demo [.observe (.bbox 0), .setLeft 1 4]
    s.cache 0 = none := by decide

/-- document 0 lists [1]; group 1 lists [2]; group 2 lists [3]; 3 a pixel layer at (1,1,3,3) -/
def nested : State :=
  runState .current (State.empty 50)
    [.newDoc ⟨0, 0, 8, 8⟩, .newGroup (some 0), .newGroup (some 1), .newLayer (some 0) ⟨1, 1, 3, 3⟩, .append 2 3]

/-- hiding a group changes the boxes of the groups below it (visibility is inherited); the snapshot,
and the code with the first two cache repairs only, kept the cached box of the inner group
(fixed: 29b367a) -/
theorem legacy_hidden_group_below_stale :
    let s := runState ⟨true, true, true, true, false, true⟩ nested [.observe (.bbox 2), .setVisible 1 false]
    s.cache 2 = some ⟨1, 1, 3, 3⟩ ∧ (extractBbox s 2).toOption = some BBox.zero := by decide

theorem hidden_group_below_refreshed :
    let s := runState .current nested [.observe (.bbox 2), .setVisible 1 false]
    s.cache 2 = none := by decide

/-- the last child of a group removed after every box above it was read: all of them are dropped, the group
answers `(0,0,0,0)` and the document its canvas -/
theorem last_child_removed_refreshed :
    let s := runState .current nested [.observe (.bbox 2), .observe (.bbox 1), .observe (.bbox 0), .deleteLayer 3]
    s.children 2 = [] ∧ s.cache 2 = none ∧ s.cache 1 = none ∧ s.cache 0 = none ∧
      (obsBbox s 2).2.toOption = some BBox.zero ∧ (obsBbox s 0).2.toOption = some ⟨0, 0, 8, 8⟩ := by decide

/-- the last visible layer hidden after the document's box was read -/
theorem last_visible_hidden_refreshed :
    let s := runState .current demo [.observe (.bbox 0), .setVisible 1 false]
    s.cache 0 = none ∧ (extractBbox s 0).toOption = some BBox.zero ∧ (obsBbox s 0).2.toOption = some ⟨0, 0, 8, 8⟩ := by
  decide

/-- the document emptied after its box was read -/
theorem emptied_document_refreshed :
    let s := runState .current demo [.observe (.bbox 0), .observe (.bbox 2), .clear 0]
    s.children 0 = [] ∧ s.cache 0 = none ∧ (obsBbox s 0).2.toOption = some ⟨0, 0, 8, 8⟩ := by decide

/-- non-vacuity of `emptied_group_never_stale` / `nothing_visible_group_answer`: group 2 of `demo` is empty -/
example : demo.kind 2 = .group ∧ demo.limit ≠ 0 ∧ (∀ c, c ∈ demo.children 2 → isVis demo c = .ok false) ∧
    bboxAnswer demo 2 = .ok BBox.zero :=
  ⟨by decide, by decide, by decide, nothing_visible_group_answer demo 2 (by decide) (by decide) (by decide)⟩

theorem demo_inv : Inv demo := by
  have i4 : Inv (runState .current (State.empty 50)
      [.newDoc ⟨0, 0, 8, 8⟩, .newLayer (some 0) ⟨0, 0, 2, 2⟩, .newGroup (some 0), .newLayer (some 0) ⟨1, 1, 3, 3⟩]) :=
    inv_run _ _ (inv_empty 50) ⟨trivial, by decide, trivial, by decide, trivial, by decide, trivial, by decide, trivial⟩
  exact inv_step _ (.append 0 1) i4 (detached_of_bounded i4 (by decide)) (by decide)

/-- non-vacuity of `fresh_step`: a guarded edit from a state with a filled, fresh cache that the
edit must (and does) drop -/
example : (step .current demo (.observe (.bbox 2))).1.cache 2 = some BBox.zero ∧
    Guard (step .current demo (.observe (.bbox 2))).1 (.append 2 3) ∧
    Inv (step .current demo (.observe (.bbox 2))).1 :=
  ⟨by decide, detached_of_bounded ((observe_same demo _).inv demo_inv) (by decide), (observe_same demo _).inv demo_inv⟩

/-- **Known finding** `C14/bbox-stale/detached-node-with-stale-parent`: why `Fresh` speaks about
layers that are in a document. A layer removed from a group keeps its parent pointer; its
`is_visible()` — hence its box — still follows that pointer, but no invalidation can reach it.
Here group 2 is removed from group 1 while 1 sits in the detached group 4; its box is read
(invisible: `(0,0,0,0)`); then 4 is appended to the document, which makes 2 "visible" again. -/
theorem detached_stale_parent_witness :
    let s := runState .current nested [.newGroup none, .moveToGroup 1 4, .clear 1, .observe (.bbox 2), .append 0 4]
    s.cache 2 = some BBox.zero ∧ (extractBbox s 2).toOption = some ⟨1, 1, 3, 3⟩ ∧ (∀ c, c < s.next → 2 ∉ s.children c) := by
  decide

/-! ## The invalidation structure, tied to the source

`fresh_step` … `emptied_group_never_stale` above are about `TreeSt.step`, a hand-written transcription of the
mutators. Below, the mutators are NOT hand-modelled: the machine of `Model/FreshState.lean` interprets the table
`Generated/FreshTable.lean`, regenerated from the AST of `api/*.py` on every run — per public mutator and
straight-line segment, which input of which objects it mutates, which `_invalidate_bbox()` calls and `_bbox = None`
sweeps it makes on which objects, under which tests. A mutation changes the named input of the named objects
adversarially; an invalidation clears exactly the set the table says. -/

section Table
open PsdVerif.FreshState

/-- What the machine assumes about `_invalidate_bbox` is what the source says now: the climb visits the object and
every `GroupMixin` parent up to the document, clears each `_bbox` on the way and has no early exit; the document's
own method clears its own box. (`Table.climb` is derived from these two bodies by the extractor.) -/
theorem invalidate_tied :
    Generated.FreshTable.layerInvalidateSrc =
      "node: Any = self\nseen: set[int] = set()\nwhile node is not None and id(node) not in seen:\n    seen.add(id(node))\n    if isinstance(node, (GroupMixin, ShapeLayer)):\n        node._bbox = None\n    node = node.parent if isinstance(node.parent, GroupMixin) else None" ∧
    Generated.FreshTable.docInvalidateSrc = "self._bbox = None" ∧
    Generated.FreshTable.table.climb = .toRoot :=
  ⟨rfl, rfl, rfl⟩

/-- KEPT FRESH. If the table says that the climb goes to the root and that in every segment of every public mutator
each raw mutation of an input of a box sits in a covered block — members leaving / a new list / a visibility flag / a
rectangle, with the invalidation of the object and its ancestors (and, where visibility is inherited, of everything
below) in the same segment under no further test (`tableOk`) — then after ANY history of mutator segments — any
objects named, any outcome of the tests, any new value of the mutated inputs within C09's side conditions
(`GuardedHist`: what leaves was a member, what arrives is detached and does not contain the container, no
repetition, recursion limit not hit) — every cached box of a container that is in a document equals what
`Group.extract_bbox` computes from the current tree. -/
theorem kept_fresh (t : Table) (ht : tableOk t = true) (s : State) (i : Inv s) (f : Fresh s) (h : List SegInst)
    (hg : GuardedHist t s h) : Fresh (runSegments t s h) :=
  (runSegments_good t ht h s ⟨i, f⟩ hg).fresh

/-- … and the tree stays well formed, so the theorem applies again after any read (`observe_keeps_fresh`). -/
theorem kept_wellformed (t : Table) (ht : tableOk t = true) (s : State) (i : Inv s) (f : Fresh s) (h : List SegInst)
    (hg : GuardedHist t s h) : Inv (runSegments t s h) :=
  (runSegments_good t ht h s ⟨i, f⟩ hg).inv

/-- The table regenerated from the source satisfies the hypothesis. -/
theorem current_tree_kept_fresh : tableOk Generated.FreshTable.table = true := by decide

/-- Hence, for the code as it is. -/
theorem kept_fresh_now (s : State) (i : Inv s) (f : Fresh s) (h : List SegInst)
    (hg : GuardedHist Generated.FreshTable.table s h) : Fresh (runSegments Generated.FreshTable.table s h) :=
  kept_fresh _ current_tree_kept_fresh s i f h hg

/-- … and the box answered afterwards for any layer that is in a document is the one computed from the tree alone. -/
theorem answers_fresh_now (s : State) (i : Inv s) (f : Fresh s) (h : List SegInst)
    (hg : GuardedHist Generated.FreshTable.table s h) (x : Id)
    (ha : Attached (runSegments Generated.FreshTable.table s h) x) :
    (obsBbox (runSegments Generated.FreshTable.table s h) x).2 = bboxAnswer (runSegments Generated.FreshTable.table s h) x := by
  by_cases hc : (runSegments Generated.FreshTable.table s h).cont x = true
  · exact obsBbox_answer x (kept_fresh_now s i f h hg x ha hc)
  · unfold obsBbox bboxAnswer
    simp [hc]

/-! ### The hypothesis is necessary -/

/-- document 0 lists [1]; group 1 lists [2]; group 2 lists [3]; 3 a pixel layer at (1,1,3,3); every box read -/
def allRead : State := runState .current nested [.observe (.bbox 2), .observe (.bbox 1), .observe (.bbox 0)]

/-- what an edit may leave behind: group 2 emptied and hidden, layer 3 moved (a mutation copies from here only the
input it names, of the object it names) -/
def edited : State :=
  { allRead with children := upd allRead.children 2 [], visible := upd allRead.visible 2 false,
                 box := upd allRead.box 3 ⟨4, 4, 6, 6⟩ }

/-- is some cached box of these containers not what `extract_bbox` gives now? -/
def staleAmong (s : State) (gs : List Id) : Bool :=
  gs.any fun g => match s.cache g with
    | some b => (extractBbox s g).toOption != some b
    | none => false

/-- the node a row is tried on: the pixel layer for a rectangle, group 2 otherwise -/
def tryOn (t : Table) (name : String) : Id :=
  match t.rows.find? (fun r => r.name == name) with
  | some r => if r.firstInput == some .rect then 3 else 2
  | none => 2

/-- Each mutator's invalidations are needed: for every row of the regenerated table, the same call (every owner
expression naming group 2 — the pixel layer for the rectangle setters —, all tests true) from the tree with every box
read leaves no stale box with the table as it is, and a stale one with that row's `_invalidate_bbox()` calls and
`_bbox = None` sweeps removed. -/
theorem every_invalidation_needed :
    ∀ name ∈ Generated.FreshTable.table.rows.map (·.name),
      staleAmong (runSegments Generated.FreshTable.table allRead
        (callHist Generated.FreshTable.table name (tryOn Generated.FreshTable.table name) edited)) [0, 1, 2] = false ∧
      staleAmong (runSegments (dropInval Generated.FreshTable.table name) allRead
        (callHist (dropInval Generated.FreshTable.table name) name (tryOn Generated.FreshTable.table name) edited)) [0, 1, 2] = true := by
  decide

/-- A climb that gives up at the first empty cache does not do (`if node._bbox is None: break`): the box of group 2
was never read, those of group 1 and of the document were; the last layer of group 2 is removed. -/
theorem climb_stopping_at_empty_goes_stale :
    let t : Table := { Generated.FreshTable.table with climb := .stopAtEmpty }
    let s0 := runState .current nested [.observe (.bbox 1), .observe (.bbox 0)]
    tableOk t = false ∧ s0.cache 2 = none ∧
    staleAmong (runSegments t s0 (callHist t "GroupMixin.remove" 2 edited)) [0, 1, 2] = true ∧
    staleAmong (runSegments Generated.FreshTable.table s0 (callHist Generated.FreshTable.table "GroupMixin.remove" 2 edited)) [0, 1, 2] = false := by
  decide

/-- a climb that stops below the document (the snapshot) does not do either -/
theorem climb_below_document_goes_stale :
    let t : Table := { Generated.FreshTable.table with climb := .belowDoc }
    tableOk t = false ∧
    staleAmong (runSegments t allRead (callHist t "GroupMixin.remove" 2 edited)) [0, 1, 2] = true := by
  decide

/-- document 0 ∋ group 1 ∋ group 2 ∋ group 3 ∋ pixel layer 4 at (1,1,3,3): nesting depth three below the document -/
def nested3 : State :=
  runState .current (State.empty 50)
    [.newDoc ⟨0, 0, 8, 8⟩, .newGroup (some 0), .newGroup (some 1), .newGroup (some 2), .newLayer (some 0) ⟨1, 1, 3, 3⟩,
     .append 3 4]

/-- Resetting the DIRECT children only does not do (`for layer in self` instead of `self.descendants()` in the
`visible` setter): the box of group 3 is read, then group 1 — two levels above it — is hidden. Group 2 is reset,
group 3 keeps `(1,1,3,3)` although nothing in it is visible any more. Needs nesting depth three. -/
theorem children_only_reset_goes_stale :
    let t : Table := { Generated.FreshTable.table with rows :=
      [⟨"Layer.visible.setter", [[.inval "self" [], .reset "self" .children [], .mutate "self" .self .visible "visible=?" []]]⟩] }
    let s0 := runState .current nested3 [.observe (.bbox 3), .observe (.bbox 2)]
    let new : State := { s0 with visible := upd s0.visible 1 false }
    tableOk t = false ∧
    staleAmong (runSegments t s0 (callHist t "Layer.visible.setter" 1 new)) [0, 1, 2, 3] = true ∧
    (runSegments t s0 (callHist t "Layer.visible.setter" 1 new)).cache 2 = none ∧
    staleAmong (runSegments Generated.FreshTable.table s0 (callHist Generated.FreshTable.table "Layer.visible.setter" 1 new)) [0, 1, 2, 3] = false := by
  decide

/-- Invalidating on the TARGET side only of a move does not do (`move_to_group` detaching with a raw
`_layers.remove`): group 2 moves from group 1 to a second group 4 of the document; the box of group 1 was read. -/
theorem target_side_only_move_goes_stale :
    let t : Table := { Generated.FreshTable.table with rows :=
      [⟨"Layer.move_to_group", [[.mutate "self.parent" .self .shrink "_layers.remove" [],
        .mutate "group" .self .relist "_layers.extend" [], .mutate "group" .descendants .psd "psd=group" [],
        .reset "group" .descendants [], .mutate "group" .children .parent "parent=group" [], .dirty "group" [],
        .inval "group" []]]⟩] }
    let s0 := runState .current nested [.newGroup (some 0), .observe (.bbox 1), .observe (.bbox 0)]
    let new : State := { s0 with children := upd (upd s0.children 1 []) 4 [2] }
    let si := callInst "Layer.move_to_group" 0 [("self.parent", 1), ("group", 4)] [] [] 0 new
    tableOk t = false ∧
    staleAmong (runSegments t s0 [si]) [0, 1, 2, 4] = true ∧
    staleAmong (runSegments Generated.FreshTable.table s0 [si]) [0, 1, 2, 4] = false := by
  decide

/-- An invalidation under a test the mutation is not under does not do. -/
theorem conditional_invalidation_rejected :
    covered [.mutate "self" .self .shrink "_layers.remove" [], .dirty "self" [], .inval "self" ["g1:self._bbox is not None"]] = false := by
  decide

/-- Filling or clearing the stored flags by hand is outside what the table can vouch for (a memoised box assigned
outside the `bbox` getter; `_updated_layers = False`). -/
theorem direct_store_rejected :
    covered [.store "self" "_bbox = (0, 0, 0, 0)" []] = false ∧
    covered [.store "self" "_updated_layers = False" []] = false := by
  decide

/-- a read of a box between the invalidation and the mutation it is meant to cover may re-fill the cache: only the
read of a plain layer's own extent in its `left` / `top` setters is accepted (groups have no such setter) -/
theorem read_between_rejected :
    covered [.inval "self" [], .reset "self" .descendants [], .read "self" "bbox" [], .mutate "self" .self .visible "visible=?" []] = false := by
  decide

/-! ### Non-vacuity -/

theorem nested_good : Good nested := by
  have g4 : Good (runState .current (State.empty 50)
      [.newDoc ⟨0, 0, 8, 8⟩, .newGroup (some 0), .newGroup (some 1), .newLayer (some 0) ⟨1, 1, 3, 3⟩]) :=
    good_run _ _ ⟨inv_empty 50, fresh_init 50⟩
      ⟨trivial, by decide, trivial, by decide, trivial, by decide, trivial, by decide, trivial⟩
  exact good_step _ (.append 2 3) g4 (detached_of_bounded g4.inv (by decide)) (by decide)

/-- the hypotheses of `kept_fresh` hold of the state the witnesses start from … -/
theorem allRead_good : Inv allRead ∧ Fresh allRead := by
  have := good_run nested [.observe (.bbox 2), .observe (.bbox 1), .observe (.bbox 0)] nested_good
    ⟨trivial, by decide, trivial, by decide, trivial, by decide, trivial⟩
  exact ⟨this.inv, this.fresh⟩

/-- a literal two-row table of the covered shapes (independent of the regenerated one) -/
def tinyTable : Table :=
  ⟨.toRoot, [⟨"GroupMixin.remove", [[.mutate "self" .self .shrink "_layers.remove" [], .dirty "self" [], .inval "self" []]]⟩,
             ⟨"Layer.visible.setter", [[.inval "self" [], .reset "self" .descendants [], .mutate "self" .self .visible "visible=?" []]]⟩]⟩

-- … and the side conditions on the raw mutations (`GuardedHist`) are satisfiable: emptying group 2, hiding group 1
example : tableOk tinyTable = true ∧
    GuardedHist tinyTable allRead [callInst "GroupMixin.remove" 0 [] [] [] 2 edited] ∧
    GuardedHist tinyTable allRead [callInst "Layer.visible.setter" 0 [] [] [] 1 edited] :=
  ⟨by decide,
   ⟨⟨fun _ => ⟨by decide, by decide, by decide⟩, trivial, trivial, trivial⟩, trivial⟩,
   ⟨⟨trivial, trivial, fun _ => ⟨by decide, [2, 3], by decide⟩, trivial⟩, trivial⟩⟩

-- the state the witnesses start from has every cache filled
example : allRead.cache 2 = some ⟨1, 1, 3, 3⟩ ∧ allRead.cache 1 = some ⟨1, 1, 3, 3⟩ ∧ allRead.cache 0 = some ⟨1, 1, 3, 3⟩ := by
  decide

end Table

end PsdVerif.C14
