/-
C03 — the header / plane-count relation of the creation entry points.
-/
import PsdVerif.Lemmas.C03PixelsRle
import PsdVerif.Model.Creation
import PsdVerif.Generated.Creation

namespace PsdVerif.C03Creation
open PsdVerif PsdVerif.Creation PsdVerif.C03Pixels
open PsdVerif.Rle PsdVerif.Compression

/-! ### The regenerated table: every (entry point, accepted mode) of the current tree -/

/-- The model's copy of the specification's colour-plane table is the live `ColorMode.channels`. -/
theorem creation_color_channels_tied :
    ∀ r ∈ Generated.Creation.rows, colorChannels r.colorMode = some r.colorChannels := by decide +kernel

/-- `_make_header`: `header.channels` = colour planes of the mode + 1 exactly when the mode carries
transparency (`PixelLayer.frompil`: channel records = transparency mask + colour planes of the document). -/
theorem creation_header_rule : ∀ r ∈ Generated.Creation.rows, r.declares = true := by decide +kernel

/-- Every creation entry point stores exactly `header.channels` planes of the declared size, for every
mode it accepts. -/
theorem creation_planes_match_header : ∀ r ∈ Generated.Creation.rows, r.truthful = true := by decide +kernel

/-- non-vacuity: the table covers the three entry points and more than the modes a hand-written list would -/
example : Generated.Creation.rows.length ≥ 60 := by decide +kernel
example : (Generated.Creation.rows.filter (fun r => r.entry == "frompil" && r.mode == "LAB")).length = 1 := by decide +kernel
example : (Generated.Creation.rows.filter (fun r => r.entry == "layer")).length ≥ 20 := by decide +kernel

/-! ### What the agreement buys on the compression model (`ImageData.set_data`) -/

theorem flatten_length_of_uniform (planes : List BList) (n : Nat) (hp : ∀ p ∈ planes, p.length = n) :
    planes.flatten.length = planes.length * n := by
  induction planes with
  | nil => simp
  | cons p ps ih =>
    have h1 : p.length = n := hp p (List.mem_cons_self ..)
    have h2 := ih (fun q hq => hp q (List.mem_cons_of_mem _ hq))
    simp only [List.flatten_cons, List.length_append, List.length_cons, h1, h2]
    rw [Nat.add_mul, Nat.one_mul, Nat.add_comm]

/-- **RAW**: when the entry point hands over as many planes as the header declares, each of the declared
size, the image data section holds exactly `channels` planes of `height` rows of `rowSize` bytes. -/
theorem created_raw_size (z : ZCodec) (planes : List BList) (w h channels depth version : Nat) (img : Psd.ImageData)
    (hs : setImage z .raw planes w h channels depth version = .ok img)
    (hp : ∀ p ∈ planes, p.length = rowSize w depth * h) (hn : planes.length = channels) :
    img.compression = 0 ∧ img.data.length = channels * (rowSize w depth * h) := by
  unfold setImage imageSet compress at hs
  simp only at hs
  injection hs with hs
  subst hs
  exact ⟨rfl, by rw [← hn]; exact flatten_length_of_uniform planes _ hp⟩

/-- … and whatever the number of planes: the section holds what was handed over, not what the header says -/
theorem raw_stores_what_it_is_given (z : ZCodec) (planes : List BList) (w h channels depth version : Nat)
    (img : Psd.ImageData) (hs : setImage z .raw planes w h channels depth version = .ok img)
    (hp : ∀ p ∈ planes, p.length = rowSize w depth * h) :
    img.data.length = planes.length * (rowSize w depth * h) := by
  unfold setImage imageSet compress at hs
  simp only at hs
  injection hs with hs
  subst hs
  exact flatten_length_of_uniform planes _ hp

/-- hence the hypothesis `planes.length = channels` of `created_raw_size` is needed: three planes under a
four-channel header (what a Lab image is when "alpha" is read off a band called A) leave the section one
plane short … -/
theorem short_planes_raw :
    ∃ img, setImage C04.zId .raw [[1, 2], [3, 4], [5, 6]] 2 1 4 8 1 = .ok img ∧
      img.data.length = 3 * 2 ∧ img.data.length ≠ 4 * (rowSize 2 8 * 1) :=
  ⟨⟨0, [1, 2, 3, 4, 5, 6]⟩, by decide +kernel, by decide, by decide⟩

/-- … and with RLE the row table has `channels · height` entries of which the last `height` are 0: rows that
expand to nothing instead of a scan line. -/
theorem short_planes_rle :
    setImage C04.zId .rle [[1, 2], [3, 4], [5, 6]] 2 1 4 8 1 =
      .ok ⟨1, [0, 3, 0, 3, 0, 3, 0, 0, 1, 1, 2, 1, 3, 4, 1, 5, 6]⟩ := by decide +kernel

/-- the same three planes under a three-channel header: three entries, three scan lines -/
example : setImage C04.zId .rle [[1, 2], [3, 4], [5, 6]] 2 1 3 8 1 =
    .ok ⟨1, [0, 3, 0, 3, 0, 3, 1, 1, 2, 1, 3, 4, 1, 5, 6]⟩ := by decide +kernel

end PsdVerif.C03Creation
