/-
C03 — the clauses about pixel data and section sizes, proved by COMPOSING the models of C03 (writer
skeleton + specification walker), C04 (`encode_rle` / `decode_rle`, containers), C05 (PackBits) and
C17 (merged image after an edit):

1. `rle_rowtable_shape` (+ `rle_rows_expand`, `channel_set_data_rle`, `image_set_data_rle`): what
   `encode_rle` emits is a table of exactly `h` big-endian entries (2 bytes in a PSD, 4 in a PSB), entry
   `i` = size of the PackBits encoding of row `i`, followed by the rows; the entries sum to the
   compressed size; each row expands (specification decoder of C05) to `rowSize` bytes.
2. `channel_length_is_stored_size`, `walker_channel_boundaries`: after `_update_channel_length` every
   `ChannelInfo.length` is 2 + the stored channel data, and the walker, stepping by these lengths,
   delimits exactly `compression ++ data` of each channel and lands on the next one.
3. `sections_add_up`, `lengths_truthful`, `prefix_*`: the five sections add up to the file size; every
   `(offset, length, kind)` the walker reports delimits exactly the encoding of the corresponding
   sub-value; every length prefix is the size of what follows it, up to the documented padding.
4. `merged_rle_table`: the merged image written after a structural edit with RLE has
   `header.channels · height` table entries.

Property theorems only; helper lemmas live in `Lemmas/C03Pixels*.lean`.
-/
import PsdVerif.Lemmas.C03PixelsRle
import PsdVerif.Lemmas.C03PixelsLengths
import PsdVerif.Lemmas.CodecSamples
import PsdVerif.Props.C17
import PsdVerif.Generated.C03Save

namespace PsdVerif.C03Pixels
open PsdVerif

/-! ## 1. RLE row tables -/

section RowTables
open PsdVerif.Rle PsdVerif.Compression

/-- **rle_rowtable_shape.** Whenever `encode_rle` returns (`bs`): the stream is a table followed by the
rows; the table has exactly `h` entries of 2 (version 1) or 4 (version 2) bytes; entry `i`, read as
`decode_rle` reads it, is the size of the PackBits encoding of raw row `i` (and fits the item); the
entries sum to the size of what follows the table, i.e. `bs.length − h · width`; and each row is a
stream the *specification* decoder expands to raw row `i`. No hypothesis. -/
theorem rle_rowtable_shape (d : BList) (w h depth version : Nat) (bs : BList)
    (he : encodeRle d w h depth version = .ok bs) :
    ∃ k, tableItem version = .ok k ∧ (version = 1 → k = 2) ∧ (version = 2 → k = 4) ∧
      RowTableStream k h (packedRows (rowSize w depth) h d) bs ∧
      (∀ i, i < h → tableEntry k bs i = (encPy (rawRow (rowSize w depth) d i).toArray).length) ∧
      (∀ i, i < h → specDec (encPy (rawRow (rowSize w depth) d i).toArray) = some (rawRow (rowSize w depth) d i)) := by
  obtain ⟨k, hk, hfit, rfl⟩ := encodeRle_ok he
  obtain ⟨v1, v2, _⟩ := tableItem_version hk
  have hs := rowTableStream_intro k (packedRows (rowSize w depth) h d) hfit
  rw [length_packedRows] at hs
  refine ⟨k, hk, v1, v2, hs, ?_, ?_⟩
  · intro i hi
    apply hs.2.2.2.2.2.1 i
    simp [packedRows, List.getElem?_map, List.getElem?_range hi]
  · intro i _
    simpa using C05.spec_decodes_enc (rawRow (rowSize w depth) d i).toArray

/-- … for a raster that follows the row geometry (the hypothesis `rle_image_roundtrip` of C04 carries):
each of the `h` rows expands to exactly `rowSize w depth` bytes, the expansions joined are the raster,
and `decode_rle` returns it. -/
theorem rle_rows_expand (d : BList) (w h depth version : Nat) (bs : BList)
    (he : encodeRle d w h depth version = .ok bs) (hl : d.length = rowSize w depth * h) :
    (∀ i, i < h → ∃ row, specDec (encPy (rawRow (rowSize w depth) d i).toArray) = some row ∧
        row.length = rowSize w depth) ∧
      ((List.range h).map (rawRow (rowSize w depth) d)).flatten = d ∧
      decodeRle bs w h depth version = .ok d := by
  refine ⟨?_, rawRows_flatten _ h d hl, ?_⟩
  · intro i hi
    exact ⟨_, by simpa using C05.spec_decodes_enc (rawRow (rowSize w depth) d i).toArray,
      length_rawRow _ h d hl i hi⟩
  · obtain ⟨k, hk, hfit, _⟩ := encodeRle_ok he
    obtain ⟨e, h1, h2⟩ := C04.rle_image_roundtrip d w h depth version hl
      ⟨k, hk, by rw [encRows_eq_packedRows]; exact hfit⟩
    rw [he] at h1
    injection h1 with h1
    rw [h1]; exact h2

/-- the hypothesis of `rle_rows_expand` is needed: on a raster shorter than the geometry (`fp.read`
returns what is left) `encode_rle` still returns, and the last row expands to fewer bytes -/
theorem rle_short_raster_row :
    encodeRle [1, 2, 3] 2 2 8 1 = .ok [0, 3, 0, 2, 1, 1, 2, 0, 3] ∧
      specDec (encPy (rawRow (rowSize 2 8) [1, 2, 3] 1).toArray) = some [3] ∧ rowSize 2 8 = 2 := by
  decide +kernel

/-- the stream exists under the hypotheses of C04 (`rowsFit`: every row fits the table item) -/
theorem rle_rowtable_exists (d : BList) (w h depth version : Nat) (hl : d.length = rowSize w depth * h)
    (hfit : C04.rowsFit d w h depth version) : ∃ bs, encodeRle d w h depth version = .ok bs := by
  obtain ⟨e, h1, _⟩ := C04.rle_image_roundtrip d w h depth version hl hfit
  exact ⟨e, h1⟩

/-- the numbers `set_data` stores are members of the regenerated `Compression` tables -/
theorem codes_tied : ∀ c : Codec, code c ∈ Psd.G.compressions ∧ code c ∈ Psd.G.imageCompressions := by
  intro c; cases c <;> decide

/-- **`ChannelData.set_data`, compression = RLE**: the channel afterwards carries the code of RLE and,
as its `data`, a row-table stream with exactly `h` entries whose sum is `data.length − h · width`. -/
theorem channel_set_data_rle (z : ZCodec) (d : BList) (w h depth version : Nat) (cd : Psd.ChannelData)
    (hs : setChannel z .rle d w h depth version = .ok cd) :
    cd.compression = 1 ∧ cd.WF ∧ encodeRle d w h depth version = .ok cd.data ∧
      ∃ k, tableItem version = .ok k ∧ RowTableStream k h (packedRows (rowSize w depth) h d) cd.data ∧
        cd.encT.length = 2 + h * k + ((packedRows (rowSize w depth) h d).map List.length).sum := by
  unfold setChannel channelSet compress at hs
  cases he : encodeRle d w h depth version with
  | error e => rw [he] at hs; cases hs
  | ok bs =>
    rw [he] at hs
    injection hs with hs
    subst hs
    obtain ⟨k, hk, _, _, hst, _, _⟩ := rle_rowtable_shape d w h depth version bs he
    refine ⟨rfl, (codes_tied .rle).1, rfl, k, hk, hst, ?_⟩
    have := hst.2.2.2.2.2.2.2
    rw [hst.2.2.2.2.1] at this
    rw [Psd.ChannelData.length_encT]
    simp only at this ⊢
    omega

/-- **`ImageData.set_data`, compression = RLE**: the section's data is a row-table stream with exactly
`channels · h` entries (all planes, plane after plane). -/
theorem image_set_data_rle (z : ZCodec) (planes : List BList) (w h channels depth version : Nat) (img : Psd.ImageData)
    (hs : setImage z .rle planes w h channels depth version = .ok img) :
    img.compression = 1 ∧ img.WF ∧ encodeRle planes.flatten w (h * channels) depth version = .ok img.data ∧
      ∃ k, tableItem version = .ok k ∧
        RowTableStream k (h * channels) (packedRows (rowSize w depth) (h * channels) planes.flatten) img.data := by
  unfold setImage imageSet compress at hs
  cases he : encodeRle planes.flatten w (h * channels) depth version with
  | error e => rw [he] at hs; cases hs
  | ok bs =>
    rw [he] at hs
    injection hs with hs
    subst hs
    obtain ⟨k, hk, _, _, hst, _, _⟩ := rle_rowtable_shape planes.flatten w (h * channels) depth version bs he
    exact ⟨rfl, (codes_tied .rle).2, rfl, k, hk, hst⟩

/-! non-vacuity: a 3×2 raster, 8 bits, PSD: the stream, its two table entries (4 = |02 07 07 07|… and 4),
their sum, the rows expanded by the specification decoder -/
example : encodeRle [7, 7, 7, 1, 2, 3] 3 2 8 1 = .ok [0, 2, 0, 4, 254, 7, 2, 1, 2, 3] := by decide +kernel
example : readVals 2 2 [0, 2, 0, 4, 254, 7, 2, 1, 2, 3] = [2, 4] ∧ [2, 4].sum = 10 - 2 * 2 := by decide +kernel
example : specDec [254, 7] = some [7, 7, 7] ∧ specDec [2, 1, 2, 3] = some [1, 2, 3] := by decide +kernel
/-- PSB: 4-byte entries -/
example : encodeRle [7, 7, 7, 1, 2, 3] 3 2 8 2 = .ok [0, 0, 0, 2, 0, 0, 0, 4, 254, 7, 2, 1, 2, 3] := by decide +kernel
example : setChannel C04.zId .rle [7, 7, 7, 1, 2, 3] 3 2 8 1 = .ok ⟨1, [0, 2, 0, 4, 254, 7, 2, 1, 2, 3]⟩ := by
  decide +kernel
/-- two planes of 2×1: 1 · 2 = 2 rows -/
example : setImage C04.zId .rle [[5, 5], [6, 9]] 2 1 2 8 1 = .ok ⟨1, [0, 2, 0, 3, 255, 5, 1, 6, 9]⟩ := by
  decide +kernel

end RowTables

/-! ## 2. channel lengths and the walker's channel steps -/

section ChannelLengths
open PsdVerif.Codec PsdVerif.Psd PsdVerif.Walker

/-- **channel_length_is_stored_size.** A well-formed layer info that declares layers, in the state
`write()` leaves it in (`LayerInfo.refresh` = `_update_channel_length`, the state whose bytes are
emitted): record by record, channel by channel, `ChannelInfo.length = 2 + len(channel data)` — whatever
the compression of the channel; ids are untouched. In index form. -/
theorem channel_length_is_stored_size (v pad : Nat) (li : LayerInfo) (hwf : li.WF v pad) (h0 : li.layerCount ≠ 0) :
    ∃ rs css, li.refresh.records = some rs ∧ li.refresh.channels = some css ∧ li.channels = some css ∧
      LengthsMatch rs css ∧ rs.length = css.length ∧
      ∀ (i : Nat) (r : LayerRecord) (cs : List ChannelData), rs[i]? = some r → css[i]? = some cs →
        r.channelInfo.length = cs.length ∧
        ∀ (j : Nat) (ci : ChannelInfo) (c : ChannelData), r.channelInfo[j]? = some ci → cs[j]? = some c →
          ci.length = 2 + c.data.length := by
  obtain ⟨rs, css, _, hc, hshape, href⟩ := refresh_of_wf hwf h0
  have hm := refreshRecords_match rs css hshape
  exact ⟨refreshRecords rs css, css, by rw [href], by rw [href], hc, hm, hm.index.1, hm.index.2⟩

/-- the shape hypothesis (`WF`: one datum per channel info) is needed: `zip` stops at the shorter list,
a channel info without channel data keeps its stale length -/
theorem channel_length_stale_without_data :
    refreshCI [⟨0, 7⟩, ⟨1, 9⟩] [⟨0, [1, 2, 3]⟩] = [⟨0, 5⟩, ⟨1, 9⟩] ∧ ¬ ChannelsMatch [⟨0, 5⟩, ⟨1, 9⟩] [⟨0, [1, 2, 3]⟩] := by
  exact ⟨rfl, by simp [ChannelsMatch]⟩

/-- … for an RLE channel stored by `set_data`: the length the record declares is
2 + `h` table entries + the PackBits rows. -/
theorem rle_channel_length (z : Compression.ZCodec) (d : Compression.BList) (w h depth version : Nat)
    (cd : ChannelData) (ci : ChannelInfo)
    (hs : setChannel z .rle d w h depth version = .ok cd) (hm : ChannelsMatch [ci] [cd]) :
    ∃ k, Compression.tableItem version = .ok k ∧
      ci.length = 2 + h * k + ((packedRows (Compression.rowSize w depth) h d).map List.length).sum := by
  obtain ⟨_, _, _, k, hk, _, hlen⟩ := channel_set_data_rle z d w h depth version cd hs
  refine ⟨k, hk, ?_⟩
  simp only [ChannelsMatch, and_true] at hm
  rw [ChannelData.length_encT] at hlen
  omega

/-- **walker_channel_boundaries.** The walker's channel loop, fed with the lengths the refreshed records
declare, on a file that holds the channel image data at `p`: it reports, for every stored channel in
order, the region `(offset, 2 + len(data))` — which delimits exactly `compression ++ data` of that
channel; the first region starts at `p`, each next one where the previous one ended (the per-channel step
lands exactly on the next channel) — and ends exactly behind the last channel. Connects `C03.channel_lengths` (= `declared_lengths`) with the walker's trace. -/
theorem walker_channel_boundaries (rs : List LayerRecord) (css : List (List ChannelData)) (hs : shapesAgree rs css)
    (hwf : ∀ cs ∈ css, ∀ c ∈ cs, ChannelData.WF c) {d : B} {p : Nat} {rest : B}
    (hat : At d p (channelImageT css ++ rest)) :
    walkChannels ((refreshRecords rs css).map (fun r => r.channelInfo.map ChannelInfo.length)).flatten d p =
        .ok (regionsOf (seqSpans "channel-data" ChannelData.encT p css.flatten), p + (channelImageT css).length) ∧
      (∀ s ∈ seqSpans "channel-data" ChannelData.encT p css.flatten, Delimits d s.region s.bytes) ∧
      (∀ a, (seqSpans "channel-data" ChannelData.encT p css.flatten)[0]? = some a → a.region.offset = p) ∧
      (∀ (i : Nat) (a b : Span), (seqSpans "channel-data" ChannelData.encT p css.flatten)[i]? = some a →
        (seqSpans "channel-data" ChannelData.encT p css.flatten)[i + 1]? = some b →
        b.region.offset = a.region.offset + a.region.length) ∧
      At d (p + (channelImageT css).length) rest := by
  rw [declared_lengths rs css hs]
  rw [flatten_channelImageT] at hat ⊢
  obtain ⟨e, hat'⟩ := walkChannels_full css.flatten
    (fun c hc => by obtain ⟨cs, hcs, hc'⟩ := List.mem_flatten.mp hc; exact hwf cs hcs c hc') hat
  obtain ⟨c1, c2⟩ := seqSpans_consecutive "channel-data" ChannelData.encT css.flatten p
  exact ⟨e, fun s hs => delimits_of_holds (seqSpans_hold _ _ _ hat s hs), c1, c2, hat'⟩

/-! non-vacuity: two channels (raw, RLE) behind 3 bytes of something else -/
example : walkChannels [2 + 2, 2 + 3] [9, 9, 9, 0, 0, 5, 6, 0, 1, 0, 1, 7] 3 =
    .ok ([⟨3, 4, "channel-data"⟩, ⟨7, 5, "channel-data"⟩], 12) := by decide +kernel
/-- the hypotheses of `channel_length_is_stored_size` are satisfiable: the layer info of the C01 sample
document (PSB, 6 records, 8 channels); its refreshed lengths, computed -/
example : ∃ li, Samples.sampleDoc.layerAndMask.layerInfo = some li ∧ li.WF 2 4 ∧ li.layerCount ≠ 0 ∧
    (li.refresh.records.map fun rs => rs.map fun r => r.channelInfo.map ChannelInfo.length) =
      some [[2], [2], [3], [2], [6, 3, 2], [2]] :=
  ⟨_, rfl, by decide +kernel, by decide +kernel, by decide +kernel⟩

end ChannelLengths

/-! ## 3. sections, regions, length prefixes -/

section Sections
open PsdVerif.Codec PsdVerif.Psd PsdVerif.Walker

/-- **sections_add_up.** What `PSD.write` emits is the five sections one after the other, and the file size
is `26 + (4 + colour mode data) + (4 + image resources) + (4|8 + layer and mask) + (2 + image data)`;
each summand is the size of that section's encoding and the count its writer reports
(`written_is_length_*`). -/
theorem sections_add_up (pad : Nat) (d : PSD) (bs : B) (henc : PSD.enc pad d = .ok bs) :
    bs = d.header.encT ++ colorModeT d.colorModeData ++ resourcesT d.resources ++
        d.layerAndMask.encT d.header.version pad ++ d.imageData.encT ∧
      bs.length = 26 + (4 + d.colorModeData.length) + (4 + (resourcesBodyT d.resources).length) +
        (secW d.header.version + (d.layerAndMask.bodyT d.header.version pad).length) + (2 + d.imageData.data.length) ∧
      (d.header.encT.length = 26 ∧ d.header.encP.2 = 26) ∧
      ((colorModeT d.colorModeData).length = 4 + d.colorModeData.length ∧
        (colorModeP d.colorModeData).2 = 4 + d.colorModeData.length) ∧
      ((resourcesT d.resources).length = 4 + (resourcesBodyT d.resources).length ∧
        (resourcesP d.resources).2 = 4 + (resourcesBodyT d.resources).length) ∧
      ((d.layerAndMask.encT d.header.version pad).length =
          secW d.header.version + (d.layerAndMask.bodyT d.header.version pad).length ∧
        (d.layerAndMask.encP d.header.version pad).2 =
          secW d.header.version + (d.layerAndMask.bodyT d.header.version pad).length) ∧
      (d.imageData.encT.length = 2 + d.imageData.data.length ∧ d.imageData.encP.2 = 2 + d.imageData.data.length) ∧
      (secW d.header.version = 4 ∨ secW d.header.version = 8) := by
  have hbs := PSD.enc_ok henc
  have h1 := Header.length_encT d.header
  have h2 : (colorModeT d.colorModeData).length = 4 + d.colorModeData.length := by
    rw [colorModeT_eq]; simp [length_beBytes]
  have h3 : (resourcesT d.resources).length = 4 + (resourcesBodyT d.resources).length := by
    rw [resourcesT_eq]; simp [length_beBytes]
  have h4 := LayerAndMask.length_encT d.header.version pad d.layerAndMask
  have h5 := ImageData.length_encT d.imageData
  refine ⟨hbs, ?_, ⟨h1, ?_⟩, ⟨h2, ?_⟩, ⟨h3, ?_⟩, ⟨h4, ?_⟩, ⟨h5, ?_⟩, ?_⟩
  · rw [hbs]; simp only [PSD.encT, List.length_append]; omega
  · rw [Header.encP_eq]; exact h1
  · rw [colorModeP_eq]; exact h2
  · rw [resourcesP_eq]; exact h3
  · rw [LayerAndMask.encP_eq]; exact h4
  · rw [ImageData.encP_eq]; exact h5
  · unfold secW; split <;> simp

/-- non-vacuity: the C01 sample document: 828 = 26 + (4 + 0) + (4 + 30) + (8 + 748) + (2 + 6) -/
example : PSD.enc 4 Samples.sampleDoc = .ok (Samples.sampleDoc.encT 4) ∧ (Samples.sampleDoc.encT 4).length = 828 ∧
    Samples.sampleDoc.colorModeData.length = 0 ∧ (resourcesBodyT Samples.sampleDoc.resources).length = 30 ∧
    secW 2 = 8 ∧ (Samples.sampleDoc.layerAndMask.bodyT 2 4).length = 748 ∧
    Samples.sampleDoc.imageData.data.length = 6 := by
  decide +kernel

/-- **lengths_truthful.** For a well-formed, specification-shaped document (the hypotheses of
`walker_accepts`): the walker reports exactly the regions of `fileSpans pad d` — header, colour mode data,
image resources section and each resource block, layer and mask section, layer info, each layer record
and each of its tagged blocks, each stored channel, global layer mask info, each document-level tagged
block, image data — and every one of them delimits exactly the encoding of the sub-value it stands for
(`x.encT …` of that sub-value, listed beside the region in `fileSpans`). -/
theorem lengths_truthful (pad : Nat) (hp : pad = 1 ∨ pad = 2 ∨ pad = 4) (d : PSD) (hwf : d.WF pad)
    (hshape : SpecShaped d) (bs : B) (henc : PSD.enc pad d = .ok bs) :
    ∃ L, walk bs = .ok L ∧ L.stop = bs.length ∧ L.regions = (fileSpans pad d).map Span.region ∧
      ∀ s ∈ fileSpans pad d, Delimits bs s.region s.bytes := by
  rw [PSD.enc_ok henc]
  obtain ⟨L, h1, h2, h3⟩ := walk_encT_full hp hwf hshape
  exact ⟨L, h1, h2, h3, fun s hs => delimits_of_holds (fileSpans_hold pad d s hs)⟩

/-- … the part that does not need the walker (hence no hypothesis): in every file the writer emits, each
expected span delimits the encoding of its sub-value -/
theorem spans_delimit (pad : Nat) (d : PSD) (bs : B) (henc : PSD.enc pad d = .ok bs) :
    ∀ s ∈ fileSpans pad d, Delimits bs s.region s.bytes := by
  rw [PSD.enc_ok henc]
  exact fun s hs => delimits_of_holds (fileSpans_hold pad d s hs)

/-- without `SpecShaped` the walker does not get through (`C03.walker_rejects_*`), so there are no
regions to speak of: `lengths_truthful` is stated under the hypotheses of `walker_accepts` -/
theorem lengths_truthful_needs_shape :
    PSD.WF 4 Samples.oddBlockInRecord ∧ ¬ SpecShaped Samples.oddBlockInRecord ∧
      (walk (Samples.oddBlockInRecord.encT 4)).toOption = none := by
  exact ⟨by decide +kernel, by decide +kernel, by decide +kernel⟩

/-! non-vacuity: the C01 sample document (PSB, nested groups, masked layer, RLE-coded channel bytes are
opaque here); the walker's regions are the expected ones, computed inside Lean -/
example : ((walk (Samples.sampleDoc.encT 4)).toOption.map (·.regions)) =
    some ((fileSpans 4 Samples.sampleDoc).map Span.region) := by decide +kernel
example : (fileSpans 4 Samples.sampleDoc).length = 30 := by decide +kernel
/-- … and the sub-values are all there: the "channel-data" spans are the encodings of all 8 stored
channels, the "layer-record" spans those of the 6 (refreshed) records, in order -/
example : ∃ li, Samples.sampleDoc.layerAndMask.layerInfo = some li ∧
    (((fileSpans 4 Samples.sampleDoc).filter (·.region.kind == "channel-data")).map Span.bytes =
      ((li.channels.getD []).flatten.map ChannelData.encT)) ∧
    (((fileSpans 4 Samples.sampleDoc).filter (·.region.kind == "layer-record")).map Span.bytes =
      ((li.refresh.records.getD []).map (LayerRecord.encT 2))) ∧
    (li.channels.getD []).flatten.length = 8 ∧ (li.refresh.records.getD []).length = 6 :=
  ⟨_, rfl, by decide +kernel, by decide +kernel, by decide +kernel, by decide +kernel⟩

/-! ### every length prefix is the size of what follows, up to the documented padding -/

/-- colour mode data: 4-byte length, the data, no filler -/
theorem prefix_color_mode_data (v : B) (hf : FitsU 4 v.length) :
    colorModeT v = beBytes 4 v.length ++ v ∧ beVal (beBytes 4 v.length) = v.length :=
  ⟨colorModeT_eq v, beVal_beBytes 4 _ hf⟩

/-- image resources: 4-byte length of the concatenated resource blocks -/
theorem prefix_image_resources (rs : List Resource) (hf : FitsU 4 (resourcesBodyT rs).length) :
    resourcesT rs = beBytes 4 (listT Resource.encT rs).length ++ listT Resource.encT rs ∧
      beVal (beBytes 4 (listT Resource.encT rs).length) = (listT Resource.encT rs).length :=
  ⟨resourcesT_eq rs, beVal_beBytes 4 _ hf⟩

/-- one image resource block: signature, id, Pascal name padded to an even size, 4-byte size of the data,
the data, filler to an even size (the size field does not count the filler) -/
theorem prefix_image_resource (r : Resource) (hf : r.Fits) :
    r.encT = pack4s r.signature ++ beBytes 2 r.key ++ pascalT 2 r.name ++
        (beBytes 4 r.data.length ++ r.data ++ zeros (padAmount r.data.length 2)) ∧
      beVal (beBytes 4 r.data.length) = r.data.length ∧ (r.data.length + padAmount r.data.length 2) % 2 = 0 := by
  refine ⟨?_, beVal_beBytes 4 _ hf.2.2, add_padAmount_mod _ 2 (by decide)⟩
  have hpad : padAmount (r.data.length + (0 + 4)) 2 = padAmount r.data.length 2 := padAmount_add_mul _ _ _ (by decide)
  simp only [Resource.encT, lenBlockT, zeros, List.replicate_zero, List.nil_append, hpad]

/-- one tagged block: signature, key, 4- or 8-byte length of the data (unpadded), the data, filler to a
multiple of `pad` (1 inside a layer record, 4 at document level) -/
theorem prefix_tagged_block (v pad : Nat) (hp : pad = 1 ∨ pad = 2 ∨ pad = 4) (t : TaggedBlock) (hf : t.Fits v) :
    t.encT v pad = pack4s t.signature ++ pack4s t.key ++
        (beBytes (tbLenW v t.key) t.data.length ++ t.data ++ zeros (padAmount t.data.length pad)) ∧
      beVal (beBytes (tbLenW v t.key) t.data.length) = t.data.length ∧
      (t.data.length + padAmount t.data.length pad) % pad = 0 ∧ (tbLenW v t.key = 4 ∨ tbLenW v t.key = 8) := by
  refine ⟨?_, beVal_beBytes _ _ hf, add_padAmount_mod _ pad (by rcases hp with h | h | h <;> omega), ?_⟩
  · have hpad : padAmount (t.data.length + (0 + tbLenW v t.key)) pad = padAmount t.data.length pad :=
      padAmount_add_mul _ _ _ (tbLenW_mod v t.key pad hp)
    simp only [TaggedBlock.encT, lenBlockT, zeros, List.replicate_zero, List.nil_append, hpad]
  · unfold tbLenW; split <;> simp

/-- a layer record: …, one filler byte, the 4-byte length of the extra data, the extra data — whose size
is even (mask data, blending ranges, name padded to 4, tagged blocks, filler) -/
theorem prefix_layer_record_extra (v : Nat) (r : LayerRecord) (hf : r.Fits v) :
    r.encT v = i32T r.top ++ i32T r.left ++ i32T r.bottom ++ i32T r.right ++ beBytes 2 r.channelInfo.length ++
        listT (ChannelInfo.encT v) r.channelInfo ++ r.fixedT ++ beBytes 1 r.flags.toNat ++
        (zeros 1 ++ beBytes 4 (r.extraT v).length ++ r.extraT v) ∧
      beVal (beBytes 4 (r.extraT v).length) = (r.extraT v).length ∧ (r.extraT v).length % 2 = 0 ∧
      beVal (beBytes 2 r.channelInfo.length) = r.channelInfo.length := by
  refine ⟨?_, beVal_beBytes 4 _ hf.2.2.2.2.2.2.2.2.2.2.2.2, ?_, beVal_beBytes 2 _ hf.2.2.2.2.1⟩
  · simp only [LayerRecord.encT, lenBlockT, padAmount_one, zeros, List.replicate_zero, List.append_nil]
  · simp only [LayerRecord.extraT, List.length_append, length_zeros]
    exact add_padAmount_mod _ 2 (by decide)

/-- the mask data and blending ranges blocks inside the extra data: 4-byte length of the body -/
theorem prefix_mask_and_ranges (r : LayerRecord) (hf1 : maskFits r.maskData) (hf2 : r.blendingRanges.Fits) :
    (∃ body : B, maskT r.maskData = beBytes 4 body.length ++ body ∧ beVal (beBytes 4 body.length) = body.length) ∧
      r.blendingRanges.encT = beBytes 4 r.blendingRanges.bodyT.length ++ r.blendingRanges.bodyT ∧
      beVal (beBytes 4 r.blendingRanges.bodyT.length) = r.blendingRanges.bodyT.length := by
  obtain ⟨body, h1, h2⟩ := maskT_shape r.maskData hf1
  exact ⟨⟨body, h1, beVal_beBytes 4 _ h2⟩, by simp [BlendingRanges.encT, lenBlockT_simple],
    beVal_beBytes 4 _ hf2.2.2⟩

/-- the layer info: 4/8-byte length of the body; the body (count, records, channel data, filler) has a
size that is a multiple of the padding; `layer_count = 0` is written as the bare length 0 -/
theorem prefix_layer_info (v pad : Nat) (hp : 0 < pad) (li : LayerInfo) (hf : li.Fits v pad) :
    (li.layerCount = 0 → li.encT v pad = beBytes (secW v) 0) ∧
    (li.layerCount ≠ 0 →
      li.encT v pad = beBytes (secW v) (li.refresh.bodyT v pad).length ++ li.refresh.bodyT v pad ∧
      beVal (beBytes (secW v) (li.refresh.bodyT v pad).length) = (li.refresh.bodyT v pad).length ∧
      (li.refresh.bodyT v pad).length % pad = 0) := by
  refine ⟨fun h0 => by simp [LayerInfo.encT, h0], fun h0 => ?_⟩
  unfold LayerInfo.Fits at hf
  simp only [h0, if_false] at hf
  refine ⟨by simp only [LayerInfo.encT, h0, if_false, lenBlockT_simple], beVal_beBytes _ _ hf.2.2.2, ?_⟩
  simp only [LayerInfo.bodyT, List.length_append, length_zeros]
  exact add_padAmount_mod _ pad hp

/-- the layer and mask section: 4/8-byte length of the body -/
theorem prefix_layer_and_mask (v pad : Nat) (x : LayerAndMask) (hf : x.Fits v pad) :
    x.encT v pad = beBytes (secW v) (x.bodyT v pad).length ++ x.bodyT v pad ∧
      beVal (beBytes (secW v) (x.bodyT v pad).length) = (x.bodyT v pad).length :=
  ⟨by simp only [LayerAndMask.encT, lenBlockT_simple], beVal_beBytes _ _ hf.2.2.2⟩

/-- the global layer mask info: 4-byte length of a body of 0 or 16 bytes -/
theorem prefix_global_layer_mask (g : GlobalLayerMaskInfo) (hf : g.Fits) :
    g.encT = beBytes 4 g.bodyT.length ++ g.bodyT ∧ beVal (beBytes 4 g.bodyT.length) = g.bodyT.length := by
  have hgl := g.length_encT hf
  have hgenc : g.encT = beBytes 4 g.bodyT.length ++ g.bodyT := by
    simp [GlobalLayerMaskInfo.encT, lenBlockT_simple]
  refine ⟨hgenc, beVal_beBytes 4 _ ?_⟩
  have hgb : g.encT.length = 4 + g.bodyT.length := by rw [hgenc]; simp [length_beBytes]
  have : g.bodyT.length ≤ 16 := by split at hgl <;> omega
  have : (16 : Nat) < 256 ^ 4 := by decide
  omega

end Sections

/-! ## 4. the merged image after a structural edit, RLE -/

section Merged
open PsdVerif.Rle PsdVerif.Compression PsdVerif.Pixels PsdVerif.Merged

/-- **The declared code is the code the payload was compressed with.** The model's `save` stores `setData comp planes header`:
compression code and payload are produced by ONE call. Regenerated from the AST on every run: the only function of psd_tools
that assigns a `compression` attribute of an existing object is `VirtualMemoryArray.set_data` (which compresses with the value
it stores, C04 `vma_roundtrip`); `PSDImage.save` makes exactly one `set_data` call, with the planes and the header, and
afterwards assigns nothing but the composite flag of the version-info resource. A save that re-labels the merged image after
compressing it (a zlib payload behind code 1) adds a store and breaks this. -/
theorem declared_code_tied :
    Generated.C03Save.compressionStores = ["psd/patterns.py:set_data:self.compression"] ∧
    Generated.C03Save.saveSetData = ["self._record.image_data.set_data(planes, self._record.header)"] ∧
    Generated.C03Save.saveStoresAfterSetData = ["version_info.has_composite"] := by decide

/-- **merged_rle_table.** (C17's model of `save()` composed with C04's `ImageData.set_data`.) After a
structural edit of a supported document whose merged image is RLE-compressed, `save()` regenerates
`header.channels` planes; `set_data` writes them as ONE row-table stream with exactly
`header.channels · height` entries (2 bytes each in a PSD, 4 in a PSB) whose sum is the size of the rows
that follow; `decode_rle` with the header geometry returns the payload C17's model carries, and
`get_data` returns the planes. Hypotheses: those of `merged_plane_count`, and the geometric row bound of
`rowsFit_of_rowSize` (a worst-case PackBits row fits the table item). -/
theorem merged_rle_table {α : Type} (Q : Quant α) (hQ : Q.Lawful) (s : DocState) (c : Composite α)
    (hd : s.dirty = true) (hs : C17.Supported s.info.header)
    (hch : s.info.header.cmode.expected ≤ s.info.header.channels) (hc : c.WF s.info.header)
    (hrle : s.imageData.comp = .rle) (z : ZCodec) (hz : z.Lawful) (version k : Nat) (hk : tableItem version = .ok k)
    (hb : rowSize s.info.header.width s.info.header.depth + (rowSize s.info.header.width s.info.header.depth + 126) / 127
      < 256 ^ k) :
    ∃ planes s' img, save Q s c = .ok s' ∧
      s'.imageData = setData .rle planes s.info.header ∧ planes.length = s.info.header.channels ∧
      setImage z .rle planes s.info.header.width s.info.header.height s.info.header.channels s.info.header.depth version
        = .ok img ∧
      img.compression = 1 ∧
      RowTableStream k (s.info.header.height * s.info.header.channels)
        (packedRows (rowSize s.info.header.width s.info.header.depth)
          (s.info.header.height * s.info.header.channels) planes.flatten) img.data ∧
      decodeRle img.data s.info.header.width (s.info.header.height * s.info.header.channels) s.info.header.depth version
        = .ok s'.imageData.payload ∧
      imageGet z img.data .rle s.info.header.width s.info.header.height s.info.header.channels s.info.header.depth version
        = .ok planes := by
  obtain ⟨planes, s', h1, h2, _, h4, h5, _, _⟩ := C17.merged_plane_count Q hQ s c hd hs hch hc
  rw [hrle] at h2
  generalize s.info.header = hdr at *
  obtain ⟨hdep, _⟩ := hs
  have hrow : rowSize hdr.width hdr.depth = hdr.width * (hdr.depth / 8) := by
    unfold rowSize; rcases hdep with h | h | h <;> rw [h] <;> omega
  have hp : ∀ p ∈ planes, p.length = rowSize hdr.width hdr.depth * hdr.height := by
    intro p hpm; rw [h5 p hpm, hrow, Nat.mul_right_comm]
  have hfl : planes.flatten.length = rowSize hdr.width hdr.depth * (hdr.height * hdr.channels) := by
    rw [length_flatten_const planes _ hp, h4, Nat.mul_assoc]
  have hfit := C04.rowsFit_of_rowSize planes.flatten hdr.width (hdr.height * hdr.channels) hdr.depth version k hk hfl hb
  have hpos : 0 < hdr.channels := by
    have : 0 < hdr.cmode.expected := by cases hdr.cmode <;> simp [CMode.expected]
    omega
  have hdep' : hdr.depth = 1 ∨ hdr.depth = 8 ∨ hdr.depth = 16 ∨ hdr.depth = 32 := Or.inr hdep
  obtain ⟨e, g1, g2⟩ := C04.image_roundtrip z hz .rle planes hdr.width hdr.height hdr.channels hdr.depth version hpos h4
    hdep' hp ⟨fun _ => hfit, fun h => by cases h⟩
  have hset : setImage z .rle planes hdr.width hdr.height hdr.channels hdr.depth version = .ok ⟨1, e⟩ := by
    simp only [setImage, g1]; rfl
  obtain ⟨_, _, g3, k', hk', hst⟩ := image_set_data_rle z planes hdr.width hdr.height hdr.channels hdr.depth version
    ⟨1, e⟩ hset
  rw [hk] at hk'
  injection hk' with hk'
  subst hk'
  obtain ⟨_, hdec⟩ := rle_rows_expand planes.flatten hdr.width (hdr.height * hdr.channels) hdr.depth version e g3 hfl
  refine ⟨planes, s', ⟨1, e⟩, h1, h2, h4, hset, rfl, hst, ?_, g2⟩
  rw [hdec.2, h2]
  simp only [setData]
  rw [List.take_of_length_le]
  rw [hfl, hrow]
  unfold sectionBytes
  have : max 1 (hdr.depth / 8) = hdr.depth / 8 := by rcases hdep with h | h | h <;> rw [h] <;> decide
  rw [this, Nat.mul_right_comm]
  exact Nat.le_refl _

/-- non-vacuity: the hypotheses are satisfiable together (a 1×1 RGB document stored with RLE, PSD) -/
example : ∃ (Q : Quant Unit) (s : DocState) (c : Composite Unit),
    Q.Lawful ∧ s.dirty = true ∧ C17.Supported s.info.header ∧
    s.info.header.cmode.expected ≤ s.info.header.channels ∧ c.WF s.info.header ∧ s.imageData.comp = .rle ∧
    tableItem 1 = .ok 2 ∧
    rowSize s.info.header.width s.info.header.depth + (rowSize s.info.header.width s.info.header.depth + 126) / 127 < 256 ^ 2 :=
  ⟨{ enc := fun d _ => List.replicate (d / 8) 0, flat := fun _ _ => (), one := () },
   { info := { header := { cmode := .rgb, channels := 3, depth := 8, width := 1, height := 1 } },
     imageData := { comp := .rle, payload := [] }, dirty := true },
   { color := [[()], [()], [()]], alpha := [()] },
   by intro d x; simp, rfl, by unfold C17.Supported; decide, by decide, by unfold Composite.WF; decide, rfl, rfl,
   by decide⟩

/-- … and evaluated: a 2×2 RGB document, 8 bits, one byte per sample, saved after an edit with RLE: three
planes, 3 · 2 = 6 table entries, their sum = the size of the rows -/
example :
    let Q : Quant Nat := { enc := fun _ x => [UInt8.ofNat x], flat := fun c _ => c, one := 255 }
    let s : DocState := { info := { header := { cmode := .rgb, channels := 3, depth := 8, width := 2, height := 2 },
                                    layerCount := 1 },
                          imageData := { comp := .rle, payload := List.replicate 12 0 }, dirty := true }
    (save Q s ⟨[[1, 1, 1, 1], [2, 2, 2, 2], [3, 4, 5, 6]], [255, 255, 255, 255]⟩).map (·.imageData.payload)
      = .ok [1, 1, 1, 1, 2, 2, 2, 2, 3, 4, 5, 6] ∧
    setImage C04.zId .rle [[1, 1, 1, 1], [2, 2, 2, 2], [3, 4, 5, 6]] 2 2 3 8 1 =
      .ok ⟨1, [0, 2, 0, 2, 0, 2, 0, 2, 0, 3, 0, 3, 255, 1, 255, 1, 255, 2, 255, 2, 1, 3, 4, 1, 5, 6]⟩ ∧
    readVals 2 6 [0, 2, 0, 2, 0, 2, 0, 2, 0, 3, 0, 3, 255, 1, 255, 1, 255, 2, 255, 2, 1, 3, 4, 1, 5, 6]
      = [2, 2, 2, 2, 3, 3] ∧ [2, 2, 2, 2, 3, 3].sum = 26 - 6 * 2 := by decide +kernel

end Merged

end PsdVerif.C03Pixels
