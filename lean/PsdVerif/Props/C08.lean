/-
C08 — the layer tree mirrors the file's record order, and saving restores that order.
Property theorems only; helper lemmas live in `Lemmas/TreeParse.lean`.

Model: `Model/TreeParse.lean` (`classify`, `parse` = `PSDImage._init`, `flatten` =
`_build_record_tree`, `kindOf` = the dispatch chain over the tables regenerated from the source
into `Generated/TreeKinds.lean`).
-/
import PsdVerif.Model.TreeParse
import PsdVerif.Lemmas.TreeParse
import PsdVerif.Generated.TreeKinds
import PsdVerif.Model.Reopen
import PsdVerif.Generated.Reopen

namespace PsdVerif.C08
open PsdVerif PsdVerif.Tree

/-! ### Inverse laws -/

/-- Opening what flattening produced gives back the same tree: every forest — any depth, empty
    groups, artboards — is reconstructed exactly, and the group stack is empty at the end. -/
theorem parse_flatten (f : Forest) : parse (flatten f) = .ok f := by
  have h := run_flatten_list f St.init
  have h2 := pushAll_root [] f
  simp only [St.pushAll, St.init, List.nil_append] at h h2
  simp only [parse, h, St.init, h2]

/-- Flattening the tree built from a record sequence reproduces that sequence: nothing is lost,
    duplicated or reordered (payload ids stand for the record *and* its channel list). -/
theorem flatten_parse (rs : List Rec) (f : Forest) (h : parse rs = .ok f) : flatten f = rs := by
  unfold parse at h
  cases hr : run St.init rs with
  | error e => simp [hr] at h
  | ok s =>
    simp only [hr] at h
    obtain ⟨root, stack⟩ := s
    cases stack with
    | cons fr frs => simp at h
    | nil =>
      simp only [Except.ok.injEq] at h
      subst h
      have := run_unparse St.init _ rs hr
      simpa [St.unparse, St.init, unparseFrames, flatten] using this

/-- `parse` is injective on the sequences it accepts. -/
theorem parse_injective (rs rs' : List Rec) (f : Forest) (h : parse rs = .ok f) (h' : parse rs' = .ok f) :
    rs = rs' := by
  rw [← flatten_parse rs f h, ← flatten_parse rs' f h']

/-! ### Which sequences are accepted, and what happens to the others -/

/-- The constructor succeeds exactly on the well-nested sequences (`WellNested` is stated on the
    record list alone). Success of `parse` includes "the group stack is empty at the end". -/
theorem parse_ok_iff_wellNested (rs : List Rec) : (∃ f, parse rs = .ok f) ↔ WellNested rs := by
  constructor
  · rintro ⟨f, h⟩
    rw [← flatten_parse rs f h]
    exact wellNested_flatten f
  · intro h
    obtain ⟨f, hf⟩ := wellNested_exists_forest rs h
    exact ⟨f, by rw [← hf]; exact parse_flatten f⟩

/-- The loop alone (before `_compute_clipping_layers`): it ends with an empty group stack exactly
    on the well-nested sequences. -/
theorem loop_stackEmpty_iff_wellNested (rs : List Rec) :
    (∃ s, run St.init rs = .ok s ∧ s.stack = []) ↔ WellNested rs := by
  rw [← parse_ok_iff_wellNested]
  unfold parse
  constructor
  · rintro ⟨s, h, he⟩
    exact ⟨s.root, by simp [h, he]⟩
  · rintro ⟨f, h⟩
    cases hr : run St.init rs with
    | error e => simp [hr] at h
    | ok s =>
      simp only [hr] at h
      cases hs : s.stack with
      | nil => exact ⟨s, rfl, hs⟩
      | cons a as => simp [hs] at h

/-- Outcome on every input, by nesting depth: a closing record at depth 0 makes `group_stack.pop()`
    return the document (`AssertionError`); a group still open at the end of the list keeps
    `_record = None` and `_compute_clipping_layers` fails (`AttributeError`); otherwise a tree. -/
theorem parse_outcome (rs : List Rec) :
    (parse rs = .error .assertionError ↔ depthRun 0 rs = none) ∧
    (parse rs = .error .attributeError ↔ ∃ d, depthRun 0 rs = some (d + 1)) ∧
    ((∃ f, parse rs = .ok f) ↔ depthRun 0 rs = some 0) ∧
    (∀ e, parse rs = .error e → e = .assertionError ∨ e = .attributeError) := by
  have h := run_depth St.init rs
  unfold parse
  cases hr : run St.init rs with
  | error e =>
    simp only [hr] at h
    obtain ⟨he, hd⟩ := h
    subst he
    simp [St.init] at hd
    simp [hd]
  | ok s =>
    simp only [hr] at h
    simp only [St.init, List.length_nil] at h
    cases hs : s.stack with
    | nil => rw [hs] at h; simp [h, hs]
    | cons a as => rw [hs] at h; simp [h, hs]

/-! ### Group contents -/

/-- Every group of the opened tree — at any depth — sits in the file as: its bounding record, then
    exactly the flattening of its children in order (bottom to top), then its own record. -/
theorem group_contents (rs : List Rec) (f : Forest) (c b : Nat) (a : Bool) (ch : List Node)
    (h : parse rs = .ok f) (ho : Occurs (.group c b a ch) f) :
    ∃ pre post, rs = pre ++ .bounding b :: (flatten ch ++ .closing c a :: post) := by
  obtain ⟨pre, post, hs⟩ := occurs_split _ f ho
  refine ⟨pre, post, ?_⟩
  rw [← flatten_parse rs f h, hs]
  simp [Node.flatten, List.append_assoc]

/-- … and when the records are distinct objects, *whatever* lies strictly between the group's two
    divider records in the file is the flattening of its children: nothing else, nothing missing. -/
theorem group_contents_exact (rs : List Rec) (f : Forest) (c b : Nat) (a : Bool) (ch : List Node)
    (pre mid post : List Rec)
    (h : parse rs = .ok f) (hn : rs.Nodup) (ho : Occurs (.group c b a ch) f)
    (hsplit : rs = pre ++ .bounding b :: (mid ++ .closing c a :: post)) :
    mid = flatten ch := by
  obtain ⟨pre0, post0, h0⟩ := group_contents rs f c b a ch h ho
  have hn1 := hn
  rw [hsplit] at hn1
  have hn0 := hn
  rw [h0] at hn0
  have e := hsplit.symm.trans h0
  have k1 : Rec.bounding b ∉ pre := by
    intro hm
    have := (List.nodup_append.mp hn1).2.2 _ hm (Rec.bounding b) (by simp)
    exact this rfl
  have k0 : Rec.bounding b ∉ pre0 := by
    intro hm
    have := (List.nodup_append.mp hn0).2.2 _ hm (Rec.bounding b) (by simp)
    exact this rfl
  obtain ⟨_, e2⟩ := split_unique _ pre pre0 _ _ k1 k0 e
  have t1 := (List.nodup_cons.mp (List.nodup_append.mp hn1).2.1).2
  have t0 := (List.nodup_cons.mp (List.nodup_append.mp hn0).2.1).2
  have m1 : Rec.closing c a ∉ mid := by
    intro hm
    have := (List.nodup_append.mp t1).2.2 _ hm (Rec.closing c a) (by simp)
    exact this rfl
  have m0 : Rec.closing c a ∉ flatten ch := by
    intro hm
    have := (List.nodup_append.mp t0).2.2 _ hm (Rec.closing c a) (by simp)
    exact this rfl
  exact (split_unique _ mid (flatten ch) _ _ m1 m0 e2).1

/-! ### Classification of records and kinds of layers -/

/-- Independent statement of the divider rule: the nested key wins over the plain key; kind OTHER
    (and no divider at all) means an ordinary layer; BOUNDING opens a group; OPEN/CLOSED_FOLDER
    closes one, as an artboard exactly when an artboard key is present. -/
def Spec.role (k : DivKind) (artboard : Bool) (p : Nat) : Rec :=
  match k with
  | .other => .leaf p
  | .bounding => .bounding p
  | .openFolder => .closing p artboard
  | .closedFolder => .closing p artboard

theorem classify_rule (b : DivBlocks) (p : Nat) :
    (∀ k, b.nsds = some k → classify b p = Spec.role k b.artboard p) ∧
    (∀ k, b.nsds = none → b.sds = some k → classify b p = Spec.role k b.artboard p) ∧
    (b.nsds = none → b.sds = none → classify b p = .leaf p) := by
  refine ⟨?_, ?_, ?_⟩
  · intro k h; cases k <;> simp [classify, divider, h, Spec.role]
  · intro k h1 h2; cases k <;> simp [classify, divider, h1, h2, Spec.role]
  · intro h1 h2; simp [classify, divider, h1, h2]

/-- What the model of `_init` assumes about the divider handling is what the source says now
    (keys consulted and their override order, ignored / pushing / popping kinds, artboard keys,
    the enum, iteration in file order). Regenerated on every run. -/
theorem divider_tables_tied :
    Generated.TreeKinds.dividerKeys = ["SECTION_DIVIDER_SETTING", "NESTED_SECTION_DIVIDER_SETTING"] ∧
    Generated.TreeKinds.ignoredKinds = ["OTHER"] ∧
    Generated.TreeKinds.pushKinds = ["BOUNDING_SECTION_DIVIDER"] ∧
    Generated.TreeKinds.popKinds = ["OPEN_FOLDER", "CLOSED_FOLDER"] ∧
    Generated.TreeKinds.artboardKeys = ["ARTBOARD_DATA1", "ARTBOARD_DATA2", "ARTBOARD_DATA3"] ∧
    Generated.TreeKinds.sectionDivider =
      [("OTHER", 0), ("OPEN_FOLDER", 1), ("CLOSED_FOLDER", 2), ("BOUNDING_SECTION_DIVIDER", 3)] ∧
    Generated.TreeKinds.iteratesReversed = false := by decide

namespace Spec

/-- Priority list for the kind of an ordinary (non-divider) record, highest priority first. -/
def typeKeys : List String := ["TYPE_TOOL_OBJECT_SETTING", "TYPE_TOOL_INFO"]
def smartObjectKeys : List String :=
  ["SMART_OBJECT_LAYER_DATA1", "SMART_OBJECT_LAYER_DATA2", "PLACED_LAYER1", "PLACED_LAYER2"]
/-- fill layers, then adjustment layers: the first key present decides -/
def fillPriority : List (String × String) := [
  ("SOLID_COLOR_SHEET_SETTING", "solidcolorfill"), ("PATTERN_FILL_SETTING", "patternfill"),
  ("GRADIENT_FILL_SETTING", "gradientfill")]
def adjustmentPriority : List (String × String) := [
  ("CONTENT_GENERATOR_EXTRA_DATA", "brightnesscontrast"), ("CURVES", "curves"), ("EXPOSURE", "exposure"),
  ("LEVELS", "levels"), ("VIBRANCE", "vibrance"), ("HUE_SATURATION", "huesaturation"),
  ("COLOR_BALANCE", "colorbalance"), ("BLACK_AND_WHITE", "blackandwhite"), ("PHOTO_FILTER", "photofilter"),
  ("CHANNEL_MIXER", "channelmixer"), ("COLOR_LOOKUP", "colorlookup"), ("INVERT", "invert"),
  ("POSTERIZE", "posterize"), ("THRESHOLD", "threshold"), ("SELECTIVE_COLOR", "selectivecolor"),
  ("GRADIENT_MAP", "gradientmap")]
def vectorKeys : List String :=
  ["VECTOR_ORIGINATION_DATA", "VECTOR_MASK_SETTING1", "VECTOR_MASK_SETTING2", "VECTOR_STROKE_DATA",
   "VECTOR_STROKE_CONTENT_DATA"]

/-- type > smart object > fill (a fill with vector data and irrelevant pixels is a shape)
    > adjustment > shape (vector data and irrelevant pixels) > pixel. -/
def kind (has : String → Bool) (pdi : Bool) : String :=
  let vector := pdi && vectorKeys.any has
  if typeKeys.any has then "type"
  else if smartObjectKeys.any has then "smartobject"
  else match Tree.firstOf has fillPriority with
    | some k => if vector then "shape" else k
    | none => match Tree.firstOf has adjustmentPriority with
      | some k => k
      | none => if vector then "shape" else "pixel"

end Spec

/-- The kind of a layer is a function of the set of block keys present and of the
    `pixel_data_irrelevant` flag, and it is the priority list `Spec.kind` — for the dispatch chain
    and registry order that the source has now (regenerated tables). -/
theorem kind_follows_blocks (has : String → Bool) (pdi : Bool) :
    kindOf Generated.TreeKinds.tables has pdi = Spec.kind has pdi := by
  have hchain : Generated.TreeKinds.tables.chain =
      [.test "TypeLayer" "type" Spec.typeKeys, .test "SmartObjectLayer" "smartobject" Spec.smartObjectKeys,
       .registry] := by decide
  have hreg : Generated.TreeKinds.tables.registry =
      (Spec.fillPriority.map fun kv => ⟨kv.1, kv.2, true⟩) ++
      (Spec.adjustmentPriority.map fun kv => ⟨kv.1, kv.2, false⟩) := by decide
  have hshape : Generated.TreeKinds.tables.shapeKeys = Spec.vectorKeys := by decide
  have hflags : Generated.TreeKinds.tables.overrideNone = true ∧ Generated.TreeKinds.tables.overrideFill = true ∧
      Generated.TreeKinds.tables.shapeKind = "shape" ∧ Generated.TreeKinds.tables.defaultKind = "pixel" := by decide
  obtain ⟨h1, h2, h3, h4⟩ := hflags
  simp only [kindOf, hchain, runChain, hreg, firstAdj_append, firstAdj_map, hshape, h1, h2, h3, h4, Spec.kind]
  cases Spec.typeKeys.any has <;> cases Spec.smartObjectKeys.any has <;>
    cases Tree.firstOf has Spec.fillPriority <;> cases Tree.firstOf has Spec.adjustmentPriority <;>
    cases pdi <;> cases Spec.vectorKeys.any has <;> simp

/-! ### The kind is a function of the record alone

`kind_follows_blocks` is about `kindOf`, which takes the block keys of ONE record and ONE flag. That this is all the
source reads, and that it keeps nothing between records or documents, is read from the AST on every run: the dispatch
closure (the record loop of `_init` and every function of psd_image.py it calls) reads the flag
`pixel_data_irrelevant` only, follows no helper, and touches no module-level / class-level mutable container, no
`global`, no memoising decorator. (The search evaluates the clause on sequences: records with identical blocks and
different flags in one document and in documents opened one after another, both orders.) -/
theorem dispatch_reads_tied :
    Generated.TreeKinds.dispatchFlags = ["pixel_data_irrelevant"] ∧
    Generated.TreeKinds.dispatchState = [] ∧
    Generated.TreeKinds.dispatchFunctions = [] ∧
    (∀ t ∈ Generated.TreeKinds.dispatchTags,
        t ∈ Generated.TreeKinds.dividerKeys ++ Generated.TreeKinds.artboardKeys ++ Spec.typeKeys ++
          Spec.smartObjectKeys ++ Spec.vectorKeys) := by decide

/-- With a stateless dispatch the kinds of a sequence of records are the kinds of its members, whatever the
    order and whatever was opened before: stated on the model, where it is the definition. -/
theorem kinds_of_sequence (rs : List ((String → Bool) × Bool)) :
    rs.map (fun r => kindOf Generated.TreeKinds.tables r.1 r.2) = rs.map (fun r => Spec.kind r.1 r.2) := by
  simp [kind_follows_blocks]

/-! ### A record and its channel list travel as a pair

The model gives a record and its channel list ONE payload id (`parse_flatten` then speaks about both). That is an
assumption about the source: the four slots `_record` / `_channels` / `_bounding_record` / `_bounding_channels` are
filled with the objects handed in, unmodified, `_set_bounding_records` is always given the record and the channel
list of the same file position, and `_build_record_tree` appends the two slots of a position in parallel. The three
tables are read from the AST of api/layers.py and api/psd_image.py on every run. (The search varies the NUMBER of
channels of every record kind over 0, 1, 2, 4, 5 — an empty list is falsy in Python — and compares the flattened
lists slot by slot, then saves and reopens.) -/

/-- **The pair slots are plain stores, called with pairs, flattened in parallel.** -/
theorem pair_slots_tied :
    Generated.TreeKinds.pairStores =
      [("Layer.__init__", "_record", "record"), ("Layer.__init__", "_channels", "channels"),
       ("Group.__init__", "_bounding_record", "None"), ("Group.__init__", "_bounding_channels", "None"),
       ("Group._set_bounding_records", "_bounding_record", "_bounding_record"),
       ("Group._set_bounding_records", "_bounding_channels", "_bounding_channels"),
       ("PixelLayer._convert", "_channels", "new_layer._channels"),
       ("PSDImage.__init__", "_record", "data")] ∧
    Generated.TreeKinds.pairCalls =
      [("Group.new", "_bounding_record, _bounding_channels"),
       ("Artboard._move", "group._bounding_record, group._bounding_channels"),
       ("PSDImage._init", "record, channels")] ∧
    Generated.TreeKinds.flattenAppends =
      [("layer_records", "layer._bounding_record"), ("channel_image_data", "layer._bounding_channels"),
       ("layer_records", "layer._record"), ("channel_image_data", "layer._channels")] := by decide

/-- what a slot holds after a store: the argument itself (`plain`), or — the variant the tie excludes — `arg or
fallback`, where Python's truthiness makes an EMPTY channel list fall through -/
def storeSlot (plain : Bool) (arg fallback : Option (List Nat)) : Option (List Nat) :=
  if plain then arg else
    match arg with
    | some (_ :: _) => arg
    | _ => fallback

/-- a plain store keeps the pair for every channel list, the empty one included -/
theorem plain_store_keeps_pair (arg fallback : Option (List Nat)) : storeSlot true arg fallback = arg := rfl

/-- necessity of `pair_slots_tied`: a store through `or` agrees with the plain one on every non-empty list … -/
theorem truthy_store_agrees_nonempty (c : Nat) (cs : List Nat) (fallback : Option (List Nat)) :
    storeSlot false (some (c :: cs)) fallback = some (c :: cs) := rfl

/-- … and loses an empty channel list (a divider record without channels): the slot then holds the fallback -/
theorem truthy_store_loses_empty_list :
    storeSlot false (some []) none ≠ some [] ∧ storeSlot false (some []) (some [7, 8]) = some [7, 8] := by decide

/-! ### Where the records are: `layer_info`, `Lr16`, `Lr32`

`PSDImage._init` iterates `PSD._iter_layers()`, i.e. the records of `PSD._get_layer_info()`
(`Reopen.storedPayloads`, the model shared with C09). The property speaks about "the file's records": when one of
the three places holds them and the others are absent or hold none, these must be the records of the tree —
for every bit depth and version, since the accessor reads neither (tied below). -/

open PsdVerif.Reopen in
/-- the other two places -/
def others (m : Reopen.Sections) : Reopen.Slot → List (Option (List Nat))
  | .layerInfo => [m.lr16, m.lr32]
  | .lr16 => [m.layerInfo, m.lr32]
  | .lr32 => [m.layerInfo, m.lr16]

/-- the records `ps` are in place `k`; every other place is absent or holds no records -/
def HoldsOnly (m : Reopen.Sections) (k : Reopen.Slot) (ps : List Nat) : Prop :=
  m.get k = some ps ∧ ∀ o ∈ others m k, o = none ∨ o = some []

instance (m : Reopen.Sections) (k : Reopen.Slot) (ps : List Nat) : Decidable (HoldsOnly m k ps) := by
  unfold HoldsOnly; exact inferInstance

/-- no block the reader prefers to `k` is present -/
def Unshadowed (m : Reopen.Sections) : Reopen.Slot → Prop
  | .lr16 => True
  | .lr32 => m.lr16 = none
  | .layerInfo => m.lr16 = none ∧ m.lr32 = none

/-- what the model of `_get_layer_info` / `_iter_layers` / the loop head of `_init` assumes is what the source says
    now; in particular the accessor reads the two sections only — not the header, so neither depth nor version -/
theorem records_location_tied :
    Generated.Reopen.readerKeys = ["LAYER_16", "LAYER_32"] ∧
    Generated.Reopen.readerFallback = "self.layer_and_mask_information.layer_info" ∧
    Generated.Reopen.readerReads = ["self.layer_and_mask_information.layer_info",
      "self.layer_and_mask_information.tagged_blocks"] ∧
    Generated.Reopen.iterSource = "self._get_layer_info()" ∧
    Generated.TreeKinds.loopSource = "self._record._iter_layers()" := by decide

/-- **Exactly when the records are found.** With the records in one place and nothing in the others, the reader
    yields them iff there are none or no preferred block is present. -/
theorem records_found_iff (m : Reopen.Sections) (k : Reopen.Slot) (ps : List Nat) (h : HoldsOnly m k ps) :
    Reopen.storedPayloads m = ps ↔ (ps = [] ∨ Unshadowed m k) := by
  obtain ⟨li, a, b⟩ := m
  obtain ⟨hk, ho⟩ := h
  cases k <;> simp only [Reopen.Sections.get] at hk <;> subst hk <;>
    simp only [others, List.mem_cons, List.not_mem_nil, or_false, forall_eq_or_imp, forall_eq] at ho <;>
    obtain ⟨h1, h2⟩ := ho <;>
    rcases h1 with h1 | h1 <;> rcases h2 with h2 | h2 <;> subst h1 <;> subst h2 <;>
    simp [Reopen.storedPayloads, Reopen.readerSlot, Reopen.Sections.get, Unshadowed, eq_comm]

/-- the usable direction: records in `Lr16` are always found; in `Lr32` unless an `Lr16` block is present; in the
    ordinary layer info unless an `Lr16` / `Lr32` block is present -/
theorem records_found_partial (m : Reopen.Sections) (k : Reopen.Slot) (ps : List Nat) (h : HoldsOnly m k ps)
    (hu : Unshadowed m k) : Reopen.storedPayloads m = ps :=
  (records_found_iff m k ps h).mpr (.inr hu)

/-- … and then opening is the stack algorithm on exactly these records: if they are the flattening of a tree,
    that tree is what opens (with `parse_flatten`: nothing lost, duplicated, reordered) -/
theorem open_lists_the_stored_records (E : Reopen.RecEnv) (m : Reopen.Sections) (k : Reopen.Slot) (ps : List Nat)
    (f : Forest) (h : HoldsOnly m k ps) (hu : Unshadowed m k) (hf : ps.map (Reopen.reread E) = flatten f) :
    Reopen.openDoc E m = .ok f := by
  simp only [Reopen.openDoc, records_found_partial m k ps h hu, hf, parse_flatten]

/-- The full statement (without `Unshadowed`) is false: a block `Lr16` that holds no records hides the records of
    the ordinary layer info, and the records of `Lr32` (known finding, replayed on the real code by the harness). -/
theorem empty_block_shadows :
    (HoldsOnly ⟨some [1, 2], some [], none⟩ .layerInfo [1, 2] ∧ Reopen.storedPayloads ⟨some [1, 2], some [], none⟩ = []) ∧
    (HoldsOnly ⟨some [1, 2], none, some []⟩ .layerInfo [1, 2] ∧ Reopen.storedPayloads ⟨some [1, 2], none, some []⟩ = []) ∧
    (HoldsOnly ⟨some [], some [], some [1, 2]⟩ .lr32 [1, 2] ∧ Reopen.storedPayloads ⟨some [], some [], some [1, 2]⟩ = []) := by
  decide

example : HoldsOnly ⟨some [], some [7, 8, 9], none⟩ .lr16 [7, 8, 9] ∧ Unshadowed ⟨some [], some [7, 8, 9], none⟩ .lr16 :=
  ⟨by decide, trivial⟩
example : HoldsOnly ⟨some [7], none, none⟩ .layerInfo [7] ∧ Unshadowed ⟨some [7], none, none⟩ .layerInfo := by
  refine ⟨by decide, ?_, ?_⟩ <;> rfl

/-! ### Non-vacuity: an empty group, a group ending the file, a nested artboard, malformed input -/

example : parse [.bounding 0, .closing 1 false] = .ok [.group 1 0 false []] := by rfl
example : parse [.leaf 0, .bounding 1, .leaf 2, .closing 3 false] =
    .ok [.layer 0, .group 3 1 false [.layer 2]] := by rfl
example : parse [.bounding 0, .leaf 1, .bounding 2, .leaf 3, .closing 4 true, .closing 5 false, .leaf 6] =
    .ok [.group 5 0 false [.layer 1, .group 4 2 true [.layer 3]], .layer 6] := by rfl
example : flatten [.group 5 0 false [.layer 1, .group 4 2 true [.layer 3]], .layer 6] =
    [.bounding 0, .leaf 1, .bounding 2, .leaf 3, .closing 4 true, .closing 5 false, .leaf 6] := by rfl
example : WellNested [.bounding 0, .leaf 1, .closing 2 false] :=
  .group 0 2 false (inner := [.leaf 1]) (.leaf 1 .nil) .nil
example : parse [.leaf 0, .closing 1 false] = .error .assertionError := by rfl
example : parse [.bounding 0, .leaf 1] = .error .attributeError := by rfl
example : Occurs (.group 4 2 true [.layer 3]) [.group 5 0 false [.layer 1, .group 4 2 true [.layer 3]], .layer 6] :=
  .inside (c := 5) (b := 0) (a := false) (ch := [.layer 1, .group 4 2 true [.layer 3]]) (by simp) (.here (by simp))
example : [Rec.bounding 0, .leaf 1, .closing 2 false].Nodup := by decide
example : classify ⟨some .other, some .openFolder, true⟩ 7 = .closing 7 true := by rfl
example : classify ⟨some .bounding, some .other, false⟩ 7 = .leaf 7 := by rfl
example : kindOf Generated.TreeKinds.tables (fun k => k == "CURVES" || k == "SOLID_COLOR_SHEET_SETTING"
    || k == "VECTOR_MASK_SETTING1") true = "shape" := by decide
example : kindOf Generated.TreeKinds.tables (fun k => k == "CURVES" || k == "VECTOR_MASK_SETTING1") true
    = "curves" := by decide

end PsdVerif.C08
