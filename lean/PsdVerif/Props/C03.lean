/-
C03 — written files are self-consistent: every length, count and alignment is truthful.

`Model/Walker.lean` is an independent navigator written from the Adobe specification (sources in
its header); `Model/Psd.lean` is the model of the writer (tied to psd-tools by the C01 correspondence).

* `written_is_length_*`: the byte count every `write()` reports (the model transcribes Python's
  `written` accumulators, which also feed the length prefixes and paddings) is the number of bytes emitted.
* `walker_accepts`: the walker visits every section of what the writer emits and lands exactly on the
  end of the file — for documents that are `PSD.WF` (C01) and `SpecShaped`: tagged blocks inside layer
  records have even length, and in a PSB no tagged block uses a key on whose length width psd-tools and
  the specification disagree. Both extra hypotheses are needed: `walker_rejects_*` are documents the
  library builds and writes on which the walker falls off (known findings, replayed on the real code).
* `channel_lengths`: the channel lengths stored in the layer records are 2 + the size of the stored data.
* `bigKeys_*`: the library's 8-byte-length key set (REGENERATED from `TaggedBlock._BIG_KEYS` on every run)
  against the specification's list.
The RLE row-table and merged-plane clauses of C03 belong to C04/C17 (pixel data is opaque here).
-/
import PsdVerif.Lemmas.Walker4
import PsdVerif.Lemmas.CodecSamples

namespace PsdVerif.C03
open PsdVerif PsdVerif.Codec PsdVerif.Psd PsdVerif.Walker

/-! ### the reported count is the number of bytes emitted -/

theorem written_is_length_lenBlock (skip w pad : Nat) (body : W) (hb : body.2 = body.1.length) :
    (wLenBlock skip w pad body).2 = (wLenBlock skip w pad body).1.length := by
  obtain ⟨bs, n⟩ := body
  simp only at hb
  subst hb
  rw [wLenBlock_eq]

theorem written_is_length_pascal (pad : Nat) (s : B) : (wPascal pad s).2 = (wPascal pad s).1.length := by
  rw [wPascal_eq]

theorem written_is_length_header (h : Header) : h.encP.2 = h.encP.1.length := by rw [Header.encP_eq]
theorem written_is_length_color_mode_data (v : B) : (colorModeP v).2 = (colorModeP v).1.length := by rw [colorModeP_eq]
theorem written_is_length_image_resource (r : Resource) : r.encP.2 = r.encP.1.length := by rw [Resource.encP_eq]
theorem written_is_length_image_resources (rs : List Resource) : (resourcesP rs).2 = (resourcesP rs).1.length := by
  rw [resourcesP_eq]
theorem written_is_length_tagged_block (v pad : Nat) (t : TaggedBlock) : (t.encP v pad).2 = (t.encP v pad).1.length := by
  rw [TaggedBlock.encP_eq]
theorem written_is_length_tagged_blocks (v pad : Nat) (ts : List TaggedBlock) :
    (taggedBlocksP v pad ts).2 = (taggedBlocksP v pad ts).1.length := by rw [taggedBlocksP_eq]
theorem written_is_length_mask_data (m : Option MaskData) : (maskP m).2 = (maskP m).1.length := by rw [maskP_eq]
theorem written_is_length_mask_parameters (m : MaskParameters) : m.encP.2 = m.encP.1.length := by
  rw [MaskParameters.encP_eq]
theorem written_is_length_blending_ranges (r : BlendingRanges) : r.encP.2 = r.encP.1.length := by
  rw [BlendingRanges.encP_eq]
theorem written_is_length_channel_info (v : Nat) (c : ChannelInfo) : (c.encP v).2 = (c.encP v).1.length := by
  rw [ChannelInfo.encP_eq]
theorem written_is_length_layer_record (v : Nat) (r : LayerRecord) : (r.encP v).2 = (r.encP v).1.length := by
  rw [LayerRecord.encP_eq]
theorem written_is_length_channel_data (c : ChannelData) : c.encP.2 = c.encP.1.length := by rw [ChannelData.encP_eq]
theorem written_is_length_channel_image_data (css : List (List ChannelData)) :
    (channelImageP css).2 = (channelImageP css).1.length := by rw [channelImageP_eq]
theorem written_is_length_layer_info (v pad : Nat) (li : LayerInfo) : (li.encP v pad).2 = (li.encP v pad).1.length := by
  rw [LayerInfo.encP_eq]
theorem written_is_length_global_layer_mask_info (g : GlobalLayerMaskInfo) : g.encP.2 = g.encP.1.length := by
  rw [GlobalLayerMaskInfo.encP_eq]
theorem written_is_length_layer_and_mask (v pad : Nat) (x : LayerAndMask) :
    (x.encP v pad).2 = (x.encP v pad).1.length := by rw [LayerAndMask.encP_eq]
theorem written_is_length_image_data (i : ImageData) : i.encP.2 = i.encP.1.length := by rw [ImageData.encP_eq]

/-- `PSD.write` returns the size of the file, and the bytes are those of `PSD.enc` (the function the
round-trip and walker theorems speak about) -/
theorem written_is_length (pad : Nat) (d : PSD) (bs : B) (n : Nat) (h : PSD.encW pad d = .ok (bs, n)) :
    n = bs.length ∧ PSD.enc pad d = .ok bs := by
  rw [PSD.encW_eq] at h
  cases he : PSD.enc pad d with
  | error e => rw [he] at h; cases h
  | ok bs' =>
    rw [he] at h
    simp only [Except.map, Except.ok.injEq, Prod.mk.injEq] at h
    obtain ⟨rfl, rfl⟩ := h
    exact ⟨rfl, rfl⟩

/-! ### the walker -/

theorem walker_accepts (pad : Nat) (hp : pad = 1 ∨ pad = 2 ∨ pad = 4) (d : PSD) (hwf : d.WF pad)
    (hshape : SpecShaped d) (bs : B) (henc : PSD.enc pad d = .ok bs) :
    ∃ L, walk bs = .ok L ∧ L.stop = bs.length := by
  rw [PSD.enc_ok henc]
  exact walk_encT hp hwf hshape

/-- non-vacuity: the C01 sample document (PSB, nested groups, masked layer, 8-byte-length keys) is
specification-shaped, and the walker is *run* on its bytes inside Lean -/
theorem sample_spec_shaped : SpecShaped Samples.sampleDoc := by decide +kernel

example : (walk (Samples.sampleDoc.encT 4)).toOption.map (fun L => (L.stop, L.regions.length)) = some (828, 30) := by
  decide +kernel

/-- full strength fails (1): an odd-length raw tagged block inside a layer record is written
unpadded; the specification has the length "rounded up to an even byte count" -/
theorem walker_rejects_odd_block_in_record :
    PSD.WF 4 Samples.oddBlockInRecord ∧ ¬ SpecShaped Samples.oddBlockInRecord ∧
    ∃ bs, PSD.enc 4 Samples.oddBlockInRecord = .ok bs ∧ (walk bs).toOption = none :=
  ⟨by decide +kernel, by decide +kernel, Samples.oddBlockInRecord.encT 4, by decide +kernel, by decide +kernel⟩

/-- full strength fails (2): in a PSB, psd-tools writes an 8-byte length for a key (`artd`) that is
neither in the specification's list nor evidenced by a Photoshop-written fixture -/
theorem walker_rejects_unconfirmed_key :
    PSD.WF 4 Samples.unconfirmedKeyPsb ∧ ¬ SpecShaped Samples.unconfirmedKeyPsb ∧
    ∃ bs, PSD.enc 4 Samples.unconfirmedKeyPsb = .ok bs ∧ (walk bs).toOption = none :=
  ⟨by decide +kernel, by decide +kernel, Samples.unconfirmedKeyPsb.encT 4, by decide +kernel, by decide +kernel⟩

/-! ### channel lengths -/

/-- after `write()` every layer record declares, for each of its channels, 2 + the size of the channel
data stored for it (`LayerInfo._update_channel_length`) — these are the values on disk (`psd_roundtrip`
reads back `d.refresh`) and the lengths the walker uses to step over the channel image data -/
theorem channel_lengths (rs : List LayerRecord) (css : List (List ChannelData)) (hs : shapesAgree rs css) :
    ((refreshRecords rs css).map (fun r => r.channelInfo.map ChannelInfo.length)).flatten =
      css.flatten.map (fun c => 2 + c.data.length) :=
  declared_lengths rs css hs

/-! ### the 8-byte-length keys of a PSB: code (regenerated) against specification -/

/-- every key the specification (and the Photoshop-written fixtures) give an 8-byte length is in `_BIG_KEYS` -/
theorem bigKeys_cover_spec : ∀ k ∈ Spec.psbEightByteKeys, k ∈ Generated.Codec.bigKeys := by decide +kernel

/-- `_BIG_KEYS` is exactly the specification's list plus the five recorded unconfirmed keys -/
theorem bigKeys_match_spec_partial :
    ∀ k, k ∈ Generated.Codec.bigKeys ↔ (k ∈ Spec.psbEightByteKeys ∨ k ∈ Spec.unconfirmedKeys) := by
  intro k
  constructor
  · intro h
    have : ∀ x ∈ Generated.Codec.bigKeys, x ∈ Spec.psbEightByteKeys ∨ x ∈ Spec.unconfirmedKeys := by decide +kernel
    exact this k h
  · intro h
    have h1 : ∀ x ∈ Spec.psbEightByteKeys, x ∈ Generated.Codec.bigKeys := by decide +kernel
    have h2 : ∀ x ∈ Spec.unconfirmedKeys, x ∈ Generated.Codec.bigKeys := by decide +kernel
    rcases h with h | h
    · exact h1 k h
    · exact h2 k h

/-- the full-strength statement `bigKeys ~ Spec.psbEightByteKeys` is false at this commit -/
theorem bigKeys_not_spec : ¬ (∀ k ∈ Generated.Codec.bigKeys, k ∈ Spec.psbEightByteKeys) := by decide +kernel

/-- the Adobe text alone (13 keys) does not describe Photoshop's own files: `cinf`, `lnkE`, `pths` are
stored with 8-byte lengths in fixtures — they are in `_BIG_KEYS` and in `observedKeys`, not in `adobeKeys` -/
theorem observed_not_in_adobe_text : ∀ k ∈ Spec.observedKeys, k ∉ Spec.adobeKeys ∧ k ∈ Generated.Codec.bigKeys := by
  decide +kernel

/-- signatures and compression codes the writer can emit are those the walker accepts -/
theorem tables_within_spec :
    Generated.Codec.headerSignature = Spec.headerSignature ∧
    (∀ s ∈ Generated.Codec.resourceSignatures, s ∈ Spec.resourceSignatures) ∧
    (∀ s ∈ Generated.Codec.blockSignatures, s ∈ Spec.blockSignatures) ∧
    (∀ s ∈ Generated.Codec.recordSignatures, s = Spec.layerSignature) ∧
    (∀ c ∈ Generated.Codec.compressions, c ≤ 3) ∧ (∀ c ∈ Generated.Codec.imageCompressions, c ≤ 3) ∧
    Generated.Codec.headerFormat = "4sH6xHIIHH" := by decide +kernel

end PsdVerif.C03
