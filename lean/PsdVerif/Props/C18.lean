/-
C18 — text engine data round-trips.

Property theorems only; the model is `Model/EngineData.lean` (the code after the two
`fix:` commits of this property), helper lemmas live in `Lemmas/EngineData*.lean`.
-/
import PsdVerif.Lemmas.EngineDataParse
import PsdVerif.Lemmas.EngineDataFloat

namespace PsdVerif.C18
open PsdVerif PsdVerif.EngineData

/-- Well-formed trees, the domain of the property: property names non-empty over
`[A-Za-z0-9_]` and occurring once per dictionary, strings = sequences of Unicode scalar
values, decimals in the 1-to-8-place normal form, integers and booleans; any nesting of
dictionaries and lists (no clause about dictionary-first lists, no clause about the last
byte of a string). -/
def WF (t : Tree) : Prop := wfPairs t = true

instance (t : Tree) : Decidable (WF t) := inferInstanceAs (Decidable (wfPairs t = true))

/-! ### Strings -/

/-- The three sequential `replace` calls of `String.frombytes` undo the three of
`String.write`, for every byte string. -/
theorem unescape_escape (b : BL) : unescape (escape b) = b := unescape_escape' b

/-- Where the string token ends: for every payload `u` and whatever follows, the tokenizer's
string branch returns exactly the written string and leaves `rest` (no condition on the last
byte of `u` any more). -/
theorem string_token_end (u rest : BL) :
    next (strBytes u ++ rest) = .ok (some (strBytes u, rest)) := next_strBytes u rest

/-- Before the fix the search `[^\\]\)` ran past the closing parenthesis of a string whose
UTF-16 bytes end in 0x5C (here U+015C followed by ` /z 3`): no token, `ValueError`. -/
theorem old_string_end_defect :
    strTokenOld (strBytes (utf16be [0x15C]) ++ [0x20, 0x2F, 0x7A, 0x20, 0x33]) = none := by decide

/-- CPython's UTF-16 codecs as transcribed: decoding (BOM first) undoes encoding on
Unicode scalar values. -/
theorem utf16_roundtrip (s : List Nat) (h : s.all isScalar = true) :
    decodeUtf16 (0xFE :: 0xFF :: utf16be s) = .ok s := decodeUtf16_utf16be s h

/-! ### Scalar tokens -/

/-- Every well-formed scalar is written as one token of its own class which converts back
to the scalar (String, Bool, Integer, Float on normal-form decimals). -/
theorem scalar_token (s : Scalar) (h : wfScalar s = true) :
    classify (wScalar s) = some (tyOf s) ∧ valueOfToken (tyOf s) (wScalar s) = some (.ok s) :=
  ⟨(scalarOK floatOK s h).cls, (scalarOK floatOK s h).val⟩

/-- `int(b"%d" % i) = i` on the model's digits, for every integer. -/
theorem integer_roundtrip (i : Int) : intOfToken (writeInt i) = i := intOfToken_writeInt i

/-- `Float.frombytes(Float.write(d)) = d` for decimals with 1..8 places in normal form
(`rstrip`, the re-added `0`, and the `0.` → `.` replacement included). -/
theorem float_roundtrip (d : Dec) (h : d.wf = true) : decOfToken (writeFloat d) = d := by
  have := (floatOK d h).val
  simpa [valueOfToken, tyOf, wScalar] using this

/-! ### Containers -/

/-- The token stream of what either writer produces, followed by anything that starts
cleanly (nothing, or a divider), is the tree's token list followed by the rest's. -/
theorem tokens_of_write (l : Layout) (t : Tree) (h : WF t) (rest : BL) (ts : List (BL × Tok))
    (hs : Sep rest) (hr : Toks rest ts) :
    Toks (writeT l t ++ rest) (tokensOf l t ++ ts) := by
  cases l with
  | indented =>
    have := dictFrame_toks (some 0) (wPairs (some 0) t) rest (tokPairs t) ts (Or.inl rfl)
      (fun tail' ts' hs' ht' => toks_pairs floatOK (some 0) t h tail' ts' hs' ht') hs hr
    simpa [writeT, tokensOf] using this
  | compact =>
    have := toks_pairs floatOK none t h rest ts (Or.inr hs) hr
    simpa [writeT, tokensOf] using this

/-- A well-formed tree is always written (no exception). -/
theorem write_ok (l : Layout) (t : Tree) (h : WF t) : write l t = .ok (writeT l t) := by
  simp [write, enc_pairs t h]

/-- **Round trip, both layouts.** Every well-formed tree is written without error and the
written bytes parse back to the same tree. -/
theorem parse_write (l : Layout) (t : Tree) (h : WF t) :
    ∃ bs, write l t = .ok bs ∧ parse bs = .ok t := by
  refine ⟨writeT l t, write_ok l t h, ?_⟩
  have := tokens_of_write l t h [] [] Sep_nil Toks_nil
  simp only [List.append_nil] at this
  exact parse_of_toks floatOK l t h _ this

/-- The same, as one equation on the total writer. -/
theorem parse_writeT (l : Layout) (t : Tree) (h : WF t) : parse (writeT l t) = .ok t := by
  obtain ⟨bs, h1, h2⟩ := parse_write l t h
  rw [write_ok l t h] at h1
  injection h1 with h1; rw [h1]; exact h2

/-! ### Non-vacuity: the hypotheses are satisfiable by the trees that used to fail -/

/-- A string ending in a backslash, one ending in U+015C, U+5C5C with parentheses, a
dictionary-first list with an integer, a decimal, a string and a nested list, a negative
integer, decimals `-.5`, `0.0`, `12.00000001`. -/
def sample : Tree :=
  [([0x61], .sc (.str [0x61, 0x5C])),
   ([0x62, 0x5F, 0x31], .list [.dict [([0x63], .sc (.int (-12)))], .sc (.int 3), .sc (.flt ⟨true, 5, 1⟩),
      .sc (.str [0x15C]), .list [.dict [], .sc (.bool true)]]),
   ([0x5A], .dict [([0x73], .sc (.str [0x28, 0x5C5C, 0x29, 0x1F600])), ([0x7A], .sc (.flt ⟨false, 0, 1⟩)),
      ([0x66], .sc (.flt ⟨false, 1200000001, 8⟩))])]

example : WF sample := by decide
example : (∃ bs, write .indented sample = .ok bs ∧ parse bs = .ok sample) := parse_write _ _ (by decide)
example : (∃ bs, write .compact sample = .ok bs ∧ parse bs = .ok sample) := parse_write _ _ (by decide)
example : wfScalar (.flt ⟨true, 4755428, 5⟩) = true := by decide
example : Sep [0x20, 0x5D] ∧ Toks [0x20, 0x5D] [([0x5D], .arrayEnd)] :=
  ⟨Sep_cons _ _ (by decide), Toks_div (by decide) (by
    have := Toks_plain (tok := [0x5D]) (ty := .arrayEnd) (m := []) plain_RB (by decide) Sep_nil Toks_nil
    simpa using this)⟩

end PsdVerif.C18
