/-
C18 — text engine data round-trips.
-/
import PsdVerif.Model.EngineData

namespace PsdVerif.C18
open PsdVerif PsdVerif.EngineData

/-- The end-of-string search before the fix runs past the closing parenthesis of a string
whose UTF-16 bytes end in 0x5C (here U+015C followed by ` /z 3`): no token. -/
theorem old_string_end_defect :
    strTokenOld (strBytes (utf16be [0x15C]) ++ [0x20, 0x2F, 0x7A, 0x20, 0x33]) = none := by decide

end PsdVerif.C18
