/-
C09, second half — "saving and reopening gives a tree with the same names, kinds, nesting, order".

Composition, at the level of record lists, of
  * the edit model (C09 / C10): the id-indexed store `TreeSt.State`, its invariant `Inv`, `history_refines`;
  * `Model/Reopen.lean`: `flattenState` = `_build_record_tree` run on the store, `forestOf` = the store read
    as an inductive forest, `storeRebuilt` / `storedPayloads` = where `_update_record` puts the rebuilt
    records and where `PSD._iter_layers` takes them from, `saveReopen` = `PSDImage.open(save(psd))`;
  * the parse / flatten model (C08): `parse` = `PSDImage._init`, `parse_flatten`, `kind_follows_blocks`.

Payload ids stand for the record object and its channel list (name, attributes, pixels: C16 / C07 / C01):
a node of the reopened tree carrying payload `x` carries the very record of the in-memory layer `x`.
The bytes between `save` and `open` (records → file → records) are C01's (`psd_roundtrip`):
`save_reopen_bytes` composes the two for a document that keeps its layers in `layer_info`, for any
reading of C01's record values that ignores the channel table (values have no identity: the payload
ids are supplied positionally). For `Lr16` / `Lr32` documents the records sit inside a tagged block
whose payload is opaque bytes in C01's skeleton; there the composition stays at the level of record
lists (`save_reopen_doc`).
-/
import PsdVerif.Props.C08
import PsdVerif.Props.C01
import PsdVerif.Lemmas.ReopenBytes
import PsdVerif.Lemmas.ReopenBridge
import PsdVerif.Lemmas.TreeRefine3
import PsdVerif.Generated.Reopen

namespace PsdVerif.C09Reopen
open PsdVerif PsdVerif.Tree PsdVerif.TreeSt PsdVerif.Reopen

/-! ### The store read as a forest is faithful (the fuel — the number of live objects — suffices) -/

/-- **Fuel-free reading.** In a well-formed state the node read from the store for a live object `x`
is `x`'s own payload with, for a group, its bounding record, its class and the readings of its
children in list order. -/
theorem forest_node (E : RecEnv) (s : State) (i : Inv s) (x : Id) (hx : x < s.next) :
    nodeOf E s x =
      if s.cont x then .group x (boundId E x) (isArtboard s x) (forestOf E s x) else .layer x :=
  nodeOf_unfold i hx

/-- the nodes of the forest are exactly the objects listed below the document -/
theorem forest_nodes (E : RecEnv) (s : State) (i : Inv s) (d : Id) (n : Node) :
    Occurs n (forestOf E s d) ↔ ∃ x, Reach s d x ∧ n = nodeOf E s x :=
  ⟨fun h => occurs_forestOf i h d rfl, fun ⟨_, r, e⟩ => e ▸ reach_occurs i r⟩

/-- **Store bridge** (C08's `childrenOf`): the forest has the lists of the store — the document's
own list, and for every group listed below the document exactly its list, in order. -/
theorem forest_lists (E : RecEnv) (s : State) (i : Inv s) (d : Id) :
    childrenOf (forestOf E s d) none = some (s.children d) ∧
    ∀ g, Reach s d g → s.cont g = true → childrenOf (forestOf E s d) (some g) = some (s.children g) :=
  ⟨childrenOf_root i d, fun _ r hg => childrenOf_group i r hg⟩

/-! ### `_build_record_tree` on the store = `flatten` on the forest -/

/-- What `_build_record_tree(psd)` emits from the object graph is the flattening of the tree: for
every group its bounding record, its children bottom to top, then its own record. In particular
the traversal terminates (no `RecursionError` from a cycle) in every well-formed state. -/
theorem flatten_is_forest (E : RecEnv) (s : State) (d : Id) (i : Inv s) (ok : DocOk E s d) :
    flattenState E s d = .ok (flatten (forestOf E s d)) := flattenState_eq i ok

/-- **Save, then reopen** (record lists): the records `save` rebuilds from a well-formed tree are
accepted by the constructor, and the tree it builds is the in-memory tree: same nesting, same order,
every node carrying the payload (record + channels: name, kind-deciding blocks, attributes, pixels)
of the layer it came from. -/
theorem save_reopen (E : RecEnv) (s : State) (d : Id) (i : Inv s) (ok : DocOk E s d) :
    ∃ rs, flattenState E s d = .ok rs ∧ parse rs = .ok (forestOf E s d) :=
  ⟨_, flattenState_eq i ok, C08.parse_flatten _⟩

/-- The bounding-record hypothesis is needed: a group whose `_bounding_record` is `None` (only the bare
constructor `Group(psd, record, channels, parent)` makes one) is listed like any other, and `save` fails. -/
theorem save_needs_bounding_record :
    let s := runState .current (State.empty 50) [.newDoc ⟨0, 0, 8, 8⟩, .newGroup (some 0)]
    flattenState ⟨fun _ => none, fun _ => ⟨none, none, false⟩, fun _ _ => false, fun _ => false⟩ s 0 =
      .error .attributeError := by decide

/-- The invariant is needed: in the state the unrepaired `g.extend([g])` left behind (a group listed in
itself, C10 `legacy_extend_self_cycle`) `_build_record_tree` does not terminate (`RecursionError`). -/
theorem save_needs_acyclic :
    let s := (step .legacy (runState .current (State.empty 50) [.newDoc ⟨0, 0, 8, 8⟩, .newGroup (some 0)])
      (.extend 1 [1])).1
    flattenState ⟨fun x => some (100 + x), fun _ => ⟨none, none, false⟩, fun _ _ => false, fun _ => false⟩ s 0 =
      .error .recursionError := by decide

/-! ### Where the rebuilt records are stored -/

/-- what `Model/Reopen.lean` assumes about `save`, `_update_record`, `PSD._get_layer_info`,
`PSD._iter_layers` and the loop head of `_init` is what the source says now (regenerated every run) -/
theorem storage_tied :
    Generated.Reopen.readerKeys = ["LAYER_16", "LAYER_32"] ∧
    Generated.Reopen.readerFallback = "self.layer_and_mask_information.layer_info" ∧
    Generated.Reopen.iterSource = "self._get_layer_info()" ∧
    Generated.Reopen.initSource = "self._record._iter_layers()" ∧
    Generated.Reopen.saveFirst = "self._update_record()" ∧
    Generated.Reopen.rebuildGuard = "not self._updated_layers" ∧
    Generated.Reopen.rebuildCall = "_build_record_tree(self)" ∧
    Generated.Reopen.createsLayerInfo = true ∧
    Generated.Reopen.writerStores = [("layer_records", "layer_records"),
      ("channel_image_data", "channel_image_data"), ("layer_count", "len(layer_records)")] := by decide

/-- … and about `_build_record_tree`: for a `Group` / `Artboard` the bounding record, the recursive
call's records, then — for every layer — its own record; the channel lists move in parallel -/
theorem build_record_tree_tied :
    Generated.Reopen.loopOver = "for layer in layer_group" ∧
    Generated.Reopen.groupClasses = ["Group", "Artboard"] ∧
    Generated.Reopen.recordSteps = ["group:append(layer._bounding_record)", "group:recurse(layer)",
      "group:extend(tmp_layer_records)", "append(layer._record)"] ∧
    Generated.Reopen.channelSteps = ["group:append(layer._bounding_channels)", "group:recurse(layer)",
      "group:extend(tmp_channel_image_data)", "append(layer._channels)"] ∧
    Generated.Reopen.returns = "(layer_records, channel_image_data)" := by decide

/-- **Stored where read.** Whatever the section looks like (no `layer_info` yet, an `Lr16` or `Lr32`
block, both), the records `_update_record` stores are the records `_iter_layers` yields — for the
accessor the source uses now. -/
theorem stored_where_read (m : Sections) (ps : List Nat) :
    storedPayloads (storeRebuilt Generated.Reopen.writerViaReader m ps) = ps := by
  have h : Generated.Reopen.writerViaReader = true := by decide
  rw [h]
  obtain ⟨li, a, b⟩ := m
  cases li <;> cases a <;> cases b <;> rfl

/-- Before 5290e33 the rebuilt records always went to `layer_info`: in a document that keeps its layers
in `Lr16` the reader went on seeing the old ones (three layers, not four: every structural edit of a
16 / 32-bit document was dropped by `save()`) … -/
theorem legacy_stored_elsewhere :
    storedPayloads (storeRebuilt false ⟨some [], some [1, 2, 3], none⟩ [1, 2, 3, 4]) = [1, 2, 3] := by decide

/-- … and was right exactly for the documents without such a block (8-bit). -/
theorem legacy_stored_where_read_partial (m : Sections) (ps : List Nat) (h16 : m.lr16 = none) (h32 : m.lr32 = none) :
    storedPayloads (storeRebuilt false m ps) = ps := by
  obtain ⟨li, a, b⟩ := m
  simp only at h16 h32
  subst h16 h32
  cases li <;> rfl

/-! ### The whole of `PSDImage.open(save(psd))` on record lists -/

/-- **Save + reopen of a document.** `save` rebuilds the records when the document was edited
(`_updated_layers`), stores them, and `open` reads them from the same place, classifies every record
by its divider blocks and runs the stack algorithm: the result is the in-memory tree. For a document
that was not edited the stored records are left alone; they are still those of the tree (`hsync`:
nothing but the operations that set the flag changes the lists). -/
theorem save_reopen_doc (E : RecEnv) (s : State) (d : Id) (m : Sections) (i : Inv s) (ok : DocOk E s d)
    (cl : Classified E s d)
    (hsync : s.dirty d = false → storedPayloads m = (flatten (forestOf E s d)).map Rec.payload) :
    saveReopen Generated.Reopen.writerViaReader E s d m = .ok (forestOf E s d) := by
  unfold saveReopen saveDoc
  cases hd : s.dirty d with
  | true =>
    simp only [if_true, flattenState_eq i ok, openDoc, stored_where_read, reread_flatten i ok cl]
    exact C08.parse_flatten _
  | false =>
    simp only [Bool.false_eq_true, if_false, openDoc, hsync hd, reread_flatten i ok cl]
    exact C08.parse_flatten _

/-- the same pipeline with the pre-5290e33 writer loses the edit on the `Lr16` witness: the reopened
tree is the old one -/
theorem legacy_save_drops_edit :
    let s := runState .current (State.empty 50)
      [.newDoc ⟨0, 0, 8, 8⟩, .newLayer (some 0) ⟨0, 0, 2, 2⟩, .newLayer (some 0) ⟨0, 0, 2, 2⟩, .append 0 1, .append 0 2]
    let E : RecEnv := ⟨fun _ => none, fun _ => ⟨none, none, false⟩, fun _ _ => false, fun _ => false⟩
    (flattenState E s 0 = .ok [.leaf 1, .leaf 2]) ∧
    (saveReopen false E s 0 ⟨some [], some [1], none⟩).toOption.map flatten = some [.leaf 1] ∧
    (saveReopen true E s 0 ⟨some [], some [1], none⟩).toOption.map flatten = some [.leaf 1, .leaf 2] := by
  decide

/-! ### Through the bytes (C01) -/

/-- **Save + reopen through the file** (8-bit layout). Let the well-formed C01 document `x` hold, in
`layer_info`, the records `save` rebuilt: record values `rs` which — read by any classification `role`
that ignores the channel table, the `k`-th value being given the payload id `ps[k]` — are the rebuilt
record list. Then the written bytes are read back (`psd_roundtrip`) to a document whose records, read
the same way, parse to the in-memory tree, with the same channel data. (The writer refreshes
`channel_info.length` in place; nothing else of a record changes.) -/
theorem save_reopen_bytes (role : Psd.LayerRecord → Nat → Rec) (hrole : ChannelBlind role)
    (E : RecEnv) (s : State) (d : Id) (i : Inv s) (ok : DocOk E s d)
    (pad : Nat) (x : Psd.PSD) (hwf : x.WF pad) (li : Psd.LayerInfo) (rs : List Psd.LayerRecord) (ps : List Nat)
    (hli : x.layerAndMask.layerInfo = some li) (hrs : li.records = some rs)
    (hstored : flattenState E s d = .ok (List.zipWith role rs ps))
    (bs : List UInt8) (henc : Psd.PSD.enc pad x = .ok bs) :
    ∃ x' li' rs', Psd.PSD.read bs 0 = .ok (x', bs.length) ∧ x'.layerAndMask.layerInfo = some li' ∧
      li'.records = some rs' ∧ li'.channels = li.channels ∧
      parse (List.zipWith role rs' ps) = .ok (forestOf E s d) := by
  obtain ⟨rs', h1, h2, h3⟩ := refresh_records_role hrole li rs hrs
  refine ⟨x.refresh, li.refresh, rs', C01.psd_roundtrip pad x hwf bs henc, ?_, h1, h2, ?_⟩
  · simp [Psd.PSD.refresh, hli]
  · rw [h3 ps]
    have := flattenState_eq i ok
    rw [hstored] at this
    rw [Except.ok.inj this]
    exact C08.parse_flatten _

/-! ### After an edit history -/

/-- **Edit history, save, reopen.** After any guarded history from a well-formed tree (C09
`history_refines`, C10 `inv_history`) the saved records reopen, and the nesting of the reopened tree
is the replay of the accepted operations on plain lists: the document's list, and the list of every
group of the reopened tree, are the lists of the replay, in order. -/
theorem save_reopen_after_history (E : RecEnv) (s : State) (ops : List Op) (d : Id) (i : Inv s)
    (hg : Guarded .current s ops) (ok : DocOk E (runState .current s ops) d) :
    ∃ t rs F, Spec.runLists (abs s) (acceptedOps .current s ops) = .ok t ∧
      flattenState E (runState .current s ops) d = .ok rs ∧ parse rs = .ok F ∧
      idsOf F = t.lists d ∧
      ∀ c b a ch, Occurs (.group c b a ch) F → idsOf ch = t.lists c := by
  have i' := inv_run s ops i hg
  refine ⟨_, _, _, run_refines s ops i hg, flattenState_eq i' ok, C08.parse_flatten _, idsOf_forestOf i' d, ?_⟩
  intro c b a ch ho
  obtain ⟨x, rx, ex⟩ := occurs_forestOf i' ho d rfl
  obtain ⟨p, hp, _⟩ := rx.last
  rw [nodeOf_unfold i' (i'.live p x hp).2] at ex
  split at ex
  · cases ex
    exact idsOf_forestOf i' c
  · cases ex

/-! ### Kinds -/

/-- **Kinds after reopening.** A node of the reopened tree is a group / artboard exactly when the
in-memory object is one; for every other layer the kind the constructor chooses is a function of
the blocks of its (unchanged) record — C08's priority list. -/
theorem reopen_kinds (E : RecEnv) (s : State) (d : Id) (i : Inv s) (n : Node) (h : Occurs n (forestOf E s d)) :
    (∀ p, n = .layer p → s.cont p = false ∧
      kindAfterOpen Generated.TreeKinds.tables E n = C08.Spec.kind (E.has p) (E.pdi p)) ∧
    (∀ c b a ch, n = .group c b a ch → s.cont c = true ∧
      kindAfterOpen Generated.TreeKinds.tables E n = if s.kind c = .artboard then "artboard" else "group") := by
  obtain ⟨x, rx, ex⟩ := occurs_forestOf i h d rfl
  obtain ⟨q, hq, _⟩ := rx.last
  rw [nodeOf_unfold i (i.live q x hq).2] at ex
  refine ⟨?_, ?_⟩
  · intro p hp
    subst hp
    split at ex
    · cases ex
    · rename_i hc
      cases ex
      exact ⟨by simpa using hc, C08.kind_follows_blocks _ _⟩
  · intro c b a ch hn
    subst hn
    split at ex
    · rename_i hc
      cases ex
      refine ⟨hc, ?_⟩
      simp only [kindAfterOpen, isArtboard]
      cases hk : s.kind x <;> rfl
    · cases ex

/-! ### Non-vacuity -/

/-- document 0 lists [1, 2]; group 2 lists [4, 3] (4 an empty group made by `Group.new`, 3 a layer) -/
def demoOps : List Op :=
  [.newDoc ⟨0, 0, 8, 8⟩, .newLayer (some 0) ⟨0, 0, 2, 2⟩, .newGroup (some 0), .newLayer (some 0) ⟨1, 1, 3, 3⟩,
   .moveToGroup 1 0, .newGroup (some 2), .moveToGroup 3 2, .moveDown 1 1]

def demo : State := runState .current (State.empty 50) demoOps

/-- every group has a bounding record (payload `100 + id`); the own records of the groups carry an
open-folder divider, the bounding records a bounding divider, the other records none -/
def demoEnv : RecEnv :=
  ⟨fun x => some (100 + x),
   fun p => if p ≥ 100 then ⟨some .bounding, none, false⟩ else if p = 2 ∨ p = 4 then ⟨some .openFolder, none, false⟩
            else ⟨none, none, false⟩,
   fun _ _ => false, fun _ => false⟩

theorem demo_guarded : Guarded .current (State.empty 50) demoOps :=
  ⟨trivial, by decide, trivial, by decide, trivial, by decide, trivial, by decide, trivial, by decide,
   trivial, by decide, trivial, by decide, trivial, by decide, trivial⟩

theorem demo_inv : Inv demo := inv_run _ _ (inv_empty 50) demo_guarded

theorem demo_docOk : DocOk demoEnv demo 0 := fun _ _ _ => rfl

/-- the hypotheses of `save_reopen` / `save_reopen_after_history` are satisfiable, and this is what they give -/
example : (demo.children 0, demo.children 2, demo.children 4) = ([1, 2], [4, 3], []) ∧
    flattenState demoEnv demo 0 =
      .ok [.leaf 1, .bounding 102, .bounding 104, .closing 4 false, .leaf 3, .closing 2 false] := by decide

example : parse [.leaf 1, .bounding 102, .bounding 104, .closing 4 false, .leaf 3, .closing 2 false] =
    .ok [.layer 1, .group 2 102 false [.group 4 104 false [], .layer 3]] := by rfl

example : ∃ rs, flattenState demoEnv demo 0 = .ok rs ∧ parse rs = .ok (forestOf demoEnv demo 0) :=
  save_reopen demoEnv demo 0 demo_inv demo_docOk

/-- `Classified` is satisfiable: the records of `demo` carry the dividers that go with their classes -/
theorem demo_classified : Classified demoEnv demo 0 := by
  have hreach : ∀ x, Reach demo 0 x → x = 1 ∨ x = 2 ∨ x = 3 ∨ x = 4 := by
    intro x r
    obtain ⟨c, hc, _⟩ := r.last
    have hx5 : x < 5 := (demo_inv.live c x hc).2
    have h0 : x ≠ 0 := by
      intro e; subst e
      exact demo_inv.layerOnly c 0 hc (by decide)
    match x, hx5, h0 with
    | 0, _, h => exact absurd rfl h
    | 1, _, _ => exact .inl rfl
    | 2, _, _ => exact .inr (.inl rfl)
    | 3, _, _ => exact .inr (.inr (.inl rfl))
    | 4, _, _ => exact .inr (.inr (.inr rfl))
    | n + 5, h, _ => exact absurd h (Nat.not_lt.mpr (Nat.le_add_left 5 n))
  refine ⟨?_, ?_, ?_⟩
  · intro x r hc
    rcases hreach x r with rfl | rfl | rfl | rfl <;> first | rfl | (exact absurd hc (by decide))
  · intro x r hc
    rcases hreach x r with rfl | rfl | rfl | rfl <;> first | rfl | (exact absurd hc (by decide))
  · intro x b r hc hb
    rcases hreach x r with rfl | rfl | rfl | rfl <;> first | (cases hb; rfl) | (exact absurd hc (by decide))

example : saveReopen Generated.Reopen.writerViaReader demoEnv demo 0 ⟨none, some [7], none⟩ =
    .ok (forestOf demoEnv demo 0) :=
  save_reopen_doc demoEnv demo 0 _ demo_inv demo_docOk demo_classified (fun h => absurd h (by decide))

/-! non-vacuity of `save_reopen_bytes`: C01's sample document (a PSB; two nested groups, a masked layer)
holds the records of this tree -/

/-- the divider rule on C01's record values: the `lsct` block's kind (last byte of the big-endian
`u32`; 3 = bounding, 1 / 2 = open / closed folder) -/
def lsctRole (r : Psd.LayerRecord) (p : Nat) : Rec :=
  match r.taggedBlocks.find? (fun t => t.key == Psd.Samples.kLsct) with
  | some t => match t.data with
    | [0, 0, 0, 3] => .bounding p
    | 0 :: 0 :: 0 :: 1 :: _ => .closing p false
    | 0 :: 0 :: 0 :: 2 :: _ => .closing p false
    | _ => .leaf p
  | none => .leaf p

theorem lsctRole_channelBlind : ChannelBlind lsctRole := fun _ _ _ => rfl

/-- document 0 lists [1]; group 1 lists [2, 4]; group 2 lists [3] -/
def sampleOps : List Op :=
  [.newDoc ⟨0, 0, 4, 4⟩, .newGroup (some 0), .newGroup (some 1), .newLayer (some 0) ⟨1, 1, 2, 2⟩, .moveToGroup 3 2,
   .newLayer (some 0) ⟨0, 0, 4, 4⟩, .moveToGroup 4 1]

theorem sample_guarded : Guarded .current (State.empty 50) sampleOps :=
  ⟨trivial, by decide, trivial, by decide, trivial, by decide, trivial, by decide, trivial, by decide,
   trivial, by decide, trivial, by decide, trivial⟩

example : ∃ bs x' li' rs', Psd.PSD.enc 4 Psd.Samples.sampleDoc = .ok bs ∧ Psd.PSD.read bs 0 = .ok (x', bs.length) ∧
    x'.layerAndMask.layerInfo = some li' ∧ li'.records = some rs' ∧
    parse (List.zipWith lsctRole rs' [101, 102, 3, 2, 4, 1]) =
      .ok (forestOf demoEnv (runState .current (State.empty 50) sampleOps) 0) := by
  have henc : Psd.PSD.enc 4 Psd.Samples.sampleDoc = .ok (Psd.Samples.sampleDoc.encT 4) := by decide +kernel
  obtain ⟨x', li', rs', h1, h2, h3, _, h5⟩ := save_reopen_bytes lsctRole lsctRole_channelBlind demoEnv
    (runState .current (State.empty 50) sampleOps) 0 (inv_run _ _ (inv_empty 50) sample_guarded) (fun _ _ _ => rfl)
    4 Psd.Samples.sampleDoc C01.sample_wf _ _ [101, 102, 3, 2, 4, 1] rfl rfl (by decide) _ henc
  exact ⟨_, x', li', rs', henc, h1, h2, h3, h5⟩

end PsdVerif.C09Reopen
