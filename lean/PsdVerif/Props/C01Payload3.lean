/-
C01 (payload classes, third batch) — the payloads of image resources, the adjustment payloads, vector data and filter
effects survive write → read and re-write identically.

Unit 7   psd/image_resources.py: Model/Payload3Resources.lean, Lemmas/Payload3Resources.lean
Unit 8   psd/adjustments.py:     Model/Payload3Adjust.lean, Lemmas/Payload3Adjust.lean, Lemmas/Payload3Curves.lean
Unit 9   psd/vector.py:          Model/Payload3Vector.lean, Lemmas/Payload3Vector.lean
Unit 10  psd/filter_effects.py:  Model/Payload3Filter.lean, Lemmas/Payload3Filter.lean
(the `struct`-format codec and the `PCodec` combinators they are built from: Model/Payload3Base.lean, Lemmas/Payload3Base.lean)

Reading guide: as in Props/C01Payload.lean - every class is a `PCodec` (Model/PayloadBase.lean); `RoundTrip c`: anywhere in
a stream, `RoundTripAtEnd c`: when nothing follows (the reader probes what follows), `RewriteIdentical c`,
`WrittenIsLength c`, `TaggedBlockPayload c`: as the payload of a skeleton tagged block, `ResourcePayload c`: as the
payload of a skeleton image resource (`ImageResource.read` runs `TYPES[key].frombytes` on exactly the bytes of the length
block; Lemmas/Payload3Base.lean). A flat record is a row of `struct` values (`Row`); `f` / `d` fields are their patterns and
fixed-point fields (16.16, 8.24) their stored integers: the float conversions are outside the model.
-/
import PsdVerif.Lemmas.Payload3Samples
import PsdVerif.Model.Payload3Tables
import PsdVerif.Model.PayloadLayerInfo
import PsdVerif.Props.C01Payload

namespace PsdVerif.C01Payload3
open PsdVerif PsdVerif.Codec PsdVerif.Psd PsdVerif.Payload PsdVerif.Payload.PCodec PsdVerif.Payload3

/-! ## unit 7: image resources -/

section unit7

/-- `while is_readable(fp, 4)`: at the end of the resource -/
theorem alpha_identifiers_roundtrip_at_end : RoundTripAtEnd (AlphaIdentifiers.codec) := roundTripAtEnd_of (AlphaIdentifiers.rt)
theorem alpha_identifiers_rewrite_identical : RewriteIdentical (AlphaIdentifiers.codec) := rewriteIdentical_of (AlphaIdentifiers.rt)
theorem alpha_identifiers_written_is_length : WrittenIsLength (AlphaIdentifiers.codec) := writtenIsLength_of (AlphaIdentifiers.count)
theorem image_resource_alpha_identifiers : ResourcePayload (AlphaIdentifiers.codec) := resourcePayload_of (AlphaIdentifiers.rt)

theorem alpha_names_pascal_roundtrip_at_end : RoundTripAtEnd (AlphaNamesPascal.codec) := roundTripAtEnd_of (AlphaNamesPascal.rt)
theorem alpha_names_pascal_rewrite_identical : RewriteIdentical (AlphaNamesPascal.codec) := rewriteIdentical_of (AlphaNamesPascal.rt)
theorem alpha_names_pascal_written_is_length : WrittenIsLength (AlphaNamesPascal.codec) := writtenIsLength_of (AlphaNamesPascal.count)
theorem image_resource_alpha_names_pascal : ResourcePayload (AlphaNamesPascal.codec) := resourcePayload_of (AlphaNamesPascal.rt)

theorem alpha_names_unicode_roundtrip_at_end : RoundTripAtEnd (AlphaNamesUnicode.codec) := roundTripAtEnd_of (AlphaNamesUnicode.rt)
theorem alpha_names_unicode_rewrite_identical : RewriteIdentical (AlphaNamesUnicode.codec) := rewriteIdentical_of (AlphaNamesUnicode.rt)
theorem alpha_names_unicode_written_is_length : WrittenIsLength (AlphaNamesUnicode.codec) := writtenIsLength_of (AlphaNamesUnicode.count)
theorem image_resource_alpha_names_unicode : ResourcePayload (AlphaNamesUnicode.codec) := resourcePayload_of (AlphaNamesUnicode.rt)

theorem alpha_channel_roundtrip : RoundTrip (AlphaChannel.codec) := roundTrip_of (AlphaChannel.rt)
theorem alpha_channel_rewrite_identical : RewriteIdentical (AlphaChannel.codec) := rewriteIdentical_of (AlphaChannel.rt).atEnd
theorem alpha_channel_written_is_length : WrittenIsLength (AlphaChannel.codec) := writtenIsLength_of (AlphaChannel.count)

theorem display_info_roundtrip_at_end : RoundTripAtEnd (DisplayInfo.codec) := roundTripAtEnd_of (DisplayInfo.rt)
theorem display_info_rewrite_identical : RewriteIdentical (DisplayInfo.codec) := rewriteIdentical_of (DisplayInfo.rt)
theorem display_info_written_is_length : WrittenIsLength (DisplayInfo.codec) := writtenIsLength_of (DisplayInfo.count)
theorem image_resource_display_info : ResourcePayload (DisplayInfo.codec) := resourcePayload_of (DisplayInfo.rt)

/-- `Byte` of image_resources.py (`B`; the tagged-block `ByteElement` is `B3x`) -/
theorem resource_byte_roundtrip : RoundTrip (Byte.codec) := roundTrip_of (Byte.rt)
theorem resource_byte_rewrite_identical : RewriteIdentical (Byte.codec) := rewriteIdentical_of (Byte.rt).atEnd
theorem resource_byte_written_is_length : WrittenIsLength (Byte.codec) := writtenIsLength_of (Byte.count)
theorem image_resource_resource_byte : ResourcePayload (Byte.codec) := resourcePayload_of (Byte.rt).atEnd

theorem grid_guides_info_roundtrip : RoundTrip (GridGuidesInfo.codec) := roundTrip_of (GridGuidesInfo.rt)
theorem grid_guides_info_rewrite_identical : RewriteIdentical (GridGuidesInfo.codec) := rewriteIdentical_of (GridGuidesInfo.rt).atEnd
theorem grid_guides_info_written_is_length : WrittenIsLength (GridGuidesInfo.codec) := writtenIsLength_of (GridGuidesInfo.count)
theorem image_resource_grid_guides_info : ResourcePayload (GridGuidesInfo.codec) := resourcePayload_of (GridGuidesInfo.rt).atEnd

/-- frequency and angle are the stored 16.16 integers -/
theorem halftone_screen_roundtrip : RoundTrip (HalftoneScreen.codec) := roundTrip_of (HalftoneScreen.rt)
theorem halftone_screen_rewrite_identical : RewriteIdentical (HalftoneScreen.codec) := rewriteIdentical_of (HalftoneScreen.rt).atEnd
theorem halftone_screen_written_is_length : WrittenIsLength (HalftoneScreen.codec) := writtenIsLength_of (HalftoneScreen.count)

theorem halftone_screens_roundtrip_at_end : RoundTripAtEnd (HalftoneScreens.codec) := roundTripAtEnd_of (HalftoneScreens.rt)
theorem halftone_screens_rewrite_identical : RewriteIdentical (HalftoneScreens.codec) := rewriteIdentical_of (HalftoneScreens.rt)
theorem halftone_screens_written_is_length : WrittenIsLength (HalftoneScreens.codec) := writtenIsLength_of (HalftoneScreens.count)
theorem image_resource_halftone_screens : ResourcePayload (HalftoneScreens.codec) := resourcePayload_of (HalftoneScreens.rt)

theorem resource_integer_roundtrip : RoundTrip (Integer.codec) := roundTrip_of (Integer.rt)
theorem resource_integer_rewrite_identical : RewriteIdentical (Integer.codec) := rewriteIdentical_of (Integer.rt).atEnd
theorem resource_integer_written_is_length : WrittenIsLength (Integer.codec) := writtenIsLength_of (Integer.count)
theorem image_resource_resource_integer : ResourcePayload (Integer.codec) := resourcePayload_of (Integer.rt).atEnd

theorem layer_group_enabled_ids_roundtrip_at_end : RoundTripAtEnd (LayerGroupEnabledIDs.codec) := roundTripAtEnd_of (LayerGroupEnabledIDs.rt)
theorem layer_group_enabled_ids_rewrite_identical : RewriteIdentical (LayerGroupEnabledIDs.codec) := rewriteIdentical_of (LayerGroupEnabledIDs.rt)
theorem layer_group_enabled_ids_written_is_length : WrittenIsLength (LayerGroupEnabledIDs.codec) := writtenIsLength_of (LayerGroupEnabledIDs.count)
theorem image_resource_layer_group_enabled_ids : ResourcePayload (LayerGroupEnabledIDs.codec) := resourcePayload_of (LayerGroupEnabledIDs.rt)

theorem layer_group_info_roundtrip_at_end : RoundTripAtEnd (LayerGroupInfo.codec) := roundTripAtEnd_of (LayerGroupInfo.rt)
theorem layer_group_info_rewrite_identical : RewriteIdentical (LayerGroupInfo.codec) := rewriteIdentical_of (LayerGroupInfo.rt)
theorem layer_group_info_written_is_length : WrittenIsLength (LayerGroupInfo.codec) := writtenIsLength_of (LayerGroupInfo.count)
theorem image_resource_layer_group_info : ResourcePayload (LayerGroupInfo.codec) := resourcePayload_of (LayerGroupInfo.rt)

theorem layer_selection_ids_roundtrip : RoundTrip (LayerSelectionIDs.codec) := roundTrip_of (LayerSelectionIDs.rt)
theorem layer_selection_ids_rewrite_identical : RewriteIdentical (LayerSelectionIDs.codec) := rewriteIdentical_of (LayerSelectionIDs.rt).atEnd
theorem layer_selection_ids_written_is_length : WrittenIsLength (LayerSelectionIDs.codec) := writtenIsLength_of (LayerSelectionIDs.count)
theorem image_resource_layer_selection_ids : ResourcePayload (LayerSelectionIDs.codec) := resourcePayload_of (LayerSelectionIDs.rt).atEnd

theorem resource_short_integer_roundtrip : RoundTrip (ShortInteger.codec) := roundTrip_of (ShortInteger.rt)
theorem resource_short_integer_rewrite_identical : RewriteIdentical (ShortInteger.codec) := rewriteIdentical_of (ShortInteger.rt).atEnd
theorem resource_short_integer_written_is_length : WrittenIsLength (ShortInteger.codec) := writtenIsLength_of (ShortInteger.count)
theorem image_resource_resource_short_integer : ResourcePayload (ShortInteger.codec) := resourcePayload_of (ShortInteger.rt).atEnd

/-- written without filler, read with `padding=2`: the lenient `read_padding` finds nothing at the end of the resource -/
theorem pascal_string_roundtrip_at_end : RoundTripAtEnd (PascalString.codec) := roundTripAtEnd_of (PascalString.rt)
theorem pascal_string_rewrite_identical : RewriteIdentical (PascalString.codec) := rewriteIdentical_of (PascalString.rt)
theorem pascal_string_written_is_length : WrittenIsLength (PascalString.codec) := writtenIsLength_of (PascalString.count)
theorem image_resource_pascal_string : ResourcePayload (PascalString.codec) := resourcePayload_of (PascalString.rt)

theorem pixel_aspect_ratio_roundtrip : RoundTrip (PixelAspectRatio.codec) := roundTrip_of (PixelAspectRatio.rt)
theorem pixel_aspect_ratio_rewrite_identical : RewriteIdentical (PixelAspectRatio.codec) := rewriteIdentical_of (PixelAspectRatio.rt).atEnd
theorem pixel_aspect_ratio_written_is_length : WrittenIsLength (PixelAspectRatio.codec) := writtenIsLength_of (PixelAspectRatio.count)
theorem image_resource_pixel_aspect_ratio : ResourcePayload (PixelAspectRatio.codec) := resourcePayload_of (PixelAspectRatio.rt).atEnd

/-- the ninth flag is read `if is_readable(fp)` -/
theorem print_flags_roundtrip_at_end : RoundTripAtEnd (PrintFlags.codec) := roundTripAtEnd_of (PrintFlags.rt)
theorem print_flags_rewrite_identical : RewriteIdentical (PrintFlags.codec) := rewriteIdentical_of (PrintFlags.rt)
theorem print_flags_written_is_length : WrittenIsLength (PrintFlags.codec) := writtenIsLength_of (PrintFlags.count)
theorem image_resource_print_flags : ResourcePayload (PrintFlags.codec) := resourcePayload_of (PrintFlags.rt)

theorem print_flags_info_roundtrip : RoundTrip (PrintFlagsInfo.codec) := roundTrip_of (PrintFlagsInfo.rt)
theorem print_flags_info_rewrite_identical : RewriteIdentical (PrintFlagsInfo.codec) := rewriteIdentical_of (PrintFlagsInfo.rt).atEnd
theorem print_flags_info_written_is_length : WrittenIsLength (PrintFlagsInfo.codec) := writtenIsLength_of (PrintFlagsInfo.count)
theorem image_resource_print_flags_info : ResourcePayload (PrintFlagsInfo.codec) := resourcePayload_of (PrintFlagsInfo.rt).atEnd

theorem print_scale_roundtrip : RoundTrip (PrintScale.codec) := roundTrip_of (PrintScale.rt)
theorem print_scale_rewrite_identical : RewriteIdentical (PrintScale.codec) := rewriteIdentical_of (PrintScale.rt).atEnd
theorem print_scale_written_is_length : WrittenIsLength (PrintScale.codec) := writtenIsLength_of (PrintScale.count)
theorem image_resource_print_scale : ResourcePayload (PrintScale.codec) := resourcePayload_of (PrintScale.rt).atEnd

theorem resolution_info_roundtrip : RoundTrip (ResolutionInfo.codec) := roundTrip_of (ResolutionInfo.rt)
theorem resolution_info_rewrite_identical : RewriteIdentical (ResolutionInfo.codec) := rewriteIdentical_of (ResolutionInfo.rt).atEnd
theorem resolution_info_written_is_length : WrittenIsLength (ResolutionInfo.codec) := writtenIsLength_of (ResolutionInfo.count)
theorem image_resource_resolution_info : ResourcePayload (ResolutionInfo.codec) := resourcePayload_of (ResolutionInfo.rt).atEnd

/-- `ThumbnailResource` and `ThumbnailResourceV4` (same `read` / `write`) -/
theorem thumbnail_resource_roundtrip : RoundTrip (Thumbnail.codec) := roundTrip_of (Thumbnail.rt)
theorem thumbnail_resource_rewrite_identical : RewriteIdentical (Thumbnail.codec) := rewriteIdentical_of (Thumbnail.rt).atEnd
theorem thumbnail_resource_written_is_length : WrittenIsLength (Thumbnail.codec) := writtenIsLength_of (Thumbnail.count)
theorem image_resource_thumbnail_resource : ResourcePayload (Thumbnail.codec) := resourcePayload_of (Thumbnail.rt).atEnd

theorem transfer_function_roundtrip : RoundTrip (TransferFunction.codec) := roundTrip_of (TransferFunction.rt)
theorem transfer_function_rewrite_identical : RewriteIdentical (TransferFunction.codec) := rewriteIdentical_of (TransferFunction.rt).atEnd
theorem transfer_function_written_is_length : WrittenIsLength (TransferFunction.codec) := writtenIsLength_of (TransferFunction.count)

theorem transfer_functions_roundtrip_at_end : RoundTripAtEnd (TransferFunctions.codec) := roundTripAtEnd_of (TransferFunctions.rt)
theorem transfer_functions_rewrite_identical : RewriteIdentical (TransferFunctions.codec) := rewriteIdentical_of (TransferFunctions.rt)
theorem transfer_functions_written_is_length : WrittenIsLength (TransferFunctions.codec) := writtenIsLength_of (TransferFunctions.count)
theorem image_resource_transfer_functions : ResourcePayload (TransferFunctions.codec) := resourcePayload_of (TransferFunctions.rt)

theorem url_item_roundtrip : RoundTrip (URLItem.codec) := roundTrip_of (URLItem.rt)
theorem url_item_rewrite_identical : RewriteIdentical (URLItem.codec) := rewriteIdentical_of (URLItem.rt).atEnd
theorem url_item_written_is_length : WrittenIsLength (URLItem.codec) := writtenIsLength_of (URLItem.count)

theorem url_list_roundtrip : RoundTrip (URLList.codec) := roundTrip_of (URLList.rt)
theorem url_list_rewrite_identical : RewriteIdentical (URLList.codec) := rewriteIdentical_of (URLList.rt).atEnd
theorem url_list_written_is_length : WrittenIsLength (URLList.codec) := writtenIsLength_of (URLList.count)
theorem image_resource_url_list : ResourcePayload (URLList.codec) := resourcePayload_of (URLList.rt).atEnd

theorem version_info_roundtrip : RoundTrip (VersionInfo.codec) := roundTrip_of (VersionInfo.rt)
theorem version_info_rewrite_identical : RewriteIdentical (VersionInfo.codec) := rewriteIdentical_of (VersionInfo.rt).atEnd
theorem version_info_written_is_length : WrittenIsLength (VersionInfo.codec) := writtenIsLength_of (VersionInfo.count)
theorem image_resource_version_info : ResourcePayload (VersionInfo.codec) := resourcePayload_of (VersionInfo.rt).atEnd

/-- one slice on its own stream: optional associated id (origin 1), the speculative per-slice descriptor -/
theorem slice_v6_roundtrip_at_end (tb : Descriptor.Tables) : RoundTripAtEnd (SliceV6.codec tb) := roundTripAtEnd_of (SliceV6.rt tb)
theorem slice_v6_rewrite_identical (tb : Descriptor.Tables) : RewriteIdentical (SliceV6.codec tb) := rewriteIdentical_of (SliceV6.rt tb)
theorem slice_v6_written_is_length (tb : Descriptor.Tables) : WrittenIsLength (SliceV6.codec tb) := writtenIsLength_of (SliceV6.count tb)

/-- a slice without descriptor is not followed by a slice whose id is 16 (`SlicesV6.chainOK`, (F)): see `slices_id16_misparse` -/
theorem slices_v6_roundtrip_at_end (tb : Descriptor.Tables) : RoundTripAtEnd (SlicesV6.codec tb) := roundTripAtEnd_of (SlicesV6.rt tb)
theorem slices_v6_rewrite_identical (tb : Descriptor.Tables) : RewriteIdentical (SlicesV6.codec tb) := rewriteIdentical_of (SlicesV6.rt tb)
theorem slices_v6_written_is_length (tb : Descriptor.Tables) : WrittenIsLength (SlicesV6.codec tb) := writtenIsLength_of (SlicesV6.count tb)

theorem slices_roundtrip_at_end (tb : Descriptor.Tables) : RoundTripAtEnd (Slices.codec tb) := roundTripAtEnd_of (Slices.rt tb)
theorem slices_rewrite_identical (tb : Descriptor.Tables) : RewriteIdentical (Slices.codec tb) := rewriteIdentical_of (Slices.rt tb)
theorem slices_written_is_length (tb : Descriptor.Tables) : WrittenIsLength (Slices.codec tb) := writtenIsLength_of (Slices.count tb)
theorem image_resource_slices (tb : Descriptor.Tables) : ResourcePayload (Slices.codec tb) := resourcePayload_of (Slices.rt tb)

/-- `DescriptorBlock` under the ten resource ids registered for it (Props/C01Descriptor.lean), written with `padding=1` -/
theorem descriptor_resource_roundtrip (tb : Descriptor.Tables) : RoundTrip (DescriptorResource.codec tb) := roundTrip_of (DescriptorResource.rt tb)
theorem descriptor_resource_rewrite_identical (tb : Descriptor.Tables) : RewriteIdentical (DescriptorResource.codec tb) := rewriteIdentical_of (DescriptorResource.rt tb).atEnd
theorem descriptor_resource_written_is_length (tb : Descriptor.Tables) : WrittenIsLength (DescriptorResource.codec tb) := writtenIsLength_of (DescriptorResource.count tb)
theorem image_resource_descriptor_block (tb : Descriptor.Tables) : ResourcePayload (DescriptorResource.codec tb) := resourcePayload_of (DescriptorResource.rt tb).atEnd

/-- `Color` (BACKGROUND_COLOR) and `StringElement` (three ids; written with `padding=1`, read with the default) as resource
payloads: the codecs of Props/C01Payload.lean -/
theorem image_resource_color : ResourcePayload Color.codec := resourcePayload_of Color.rt.atEnd
theorem image_resource_string_element : ResourcePayload (StringElement.codec 1 1) := resourcePayload_of (StringElement.rt 1 1).atEnd

/-! ### the typed image resource, the typed resource section, the document with typed resources -/

/-- `ImageResource.read` *with* the payload dispatch returns the resource with its typed payload, anywhere in a stream -/
theorem typed_image_resource_roundtrip (tb : Descriptor.Tables) (r : TRes) (hwf : r.WF tb) (bs pre post : B)
    (henc : r.enc tb = .ok bs) : TRes.dec tb (pre ++ bs ++ post) pre.length = .ok (r, pre.length + bs.length) := by
  unfold TRes.enc at henc
  split at henc
  · cases henc; exact TRes.dec_at tb hwf (At.intro pre _ post)
  · cases henc

theorem typed_image_resource_written_is_length (tb : Descriptor.Tables) (r : TRes) (bs : B) (henc : r.enc tb = .ok bs) :
    r.encP tb = (bs, bs.length) := by
  unfold TRes.enc at henc
  split at henc
  · cases henc; exact TRes.encP_eq tb r
  · cases henc

/-- the bytes of a typed resource are the bytes of its skeleton view, and the skeleton reader returns that view -/
theorem typed_resource_is_skeleton_resource (tb : Descriptor.Tables) (r : TRes) (hwf : r.WF tb) (pre post : B) :
    Psd.Resource.dec (pre ++ r.encT tb ++ post) pre.length = .ok (r.flat tb, pre.length + (r.encT tb).length) :=
  Psd.Resource.dec_at hwf.1 (At.intro pre _ post)

/-- `ImageResources.read` with typed items -/
theorem typed_image_resources_roundtrip (tb : Descriptor.Tables) (rs : List TRes) (hflat : resourcesWF (rs.map (TRes.flat tb)))
    (hwf : ∀ r ∈ rs, r.WF tb) (pre post : B) :
    tresourcesDec tb (pre ++ tresourcesT tb rs ++ post) pre.length = .ok (rs, pre.length + (tresourcesT tb rs).length) :=
  tresourcesDec_at tb hflat hwf (At.intro pre _ post)

/-- the whole file with typed resources and typed document-level blocks: reading what `PSD.write` emitted returns the
document - every registered resource as an object of its class, down to the slices and their descriptors - as the writer
left it -/
theorem psd_roundtrip_resources (tb : Descriptor.Tables) (pad : Nat) (x : ResPSD) (hwf : x.WF tb pad) (bs : B)
    (henc : ResPSD.enc tb pad x = .ok bs) : ResPSD.read tb bs 0 = .ok (x.refresh, bs.length) := by
  rw [ResPSD.enc_ok tb henc]
  exact ResPSD.read_encT tb hwf

theorem psd_rewrite_identical_resources (tb : Descriptor.Tables) (pad : Nat) (x : ResPSD) (hwf : x.WF tb pad) (bs : B)
    (henc : ResPSD.enc tb pad x = .ok bs) (x' : ResPSD) (n : Nat) (hread : ResPSD.read tb bs 0 = .ok (x', n)) :
    ResPSD.enc tb pad x' = .ok bs := by
  rw [psd_roundtrip_resources tb pad x hwf bs henc] at hread
  cases hread
  rw [ResPSD.enc_refresh, henc]

/-- the typed theorem extends `psd_roundtrip_deep`: same bytes, and the deep reader returns the view with the resource
payloads as bytes -/
theorem resources_refine_deep (tb : Descriptor.Tables) (pad : Nat) (x : ResPSD) (hwf : x.WF tb pad) (bs : B)
    (henc : ResPSD.enc tb pad x = .ok bs) :
    DeepPSD.enc pad (x.flat tb) = .ok bs ∧ DeepPSD.read bs 0 = .ok ((x.flat tb).refresh, bs.length) := by
  have h1 : DeepPSD.enc pad (x.flat tb) = .ok bs := by
    unfold ResPSD.enc at henc
    split at henc
    · exact henc
    · cases henc
  exact ⟨h1, C01Payload.psd_roundtrip_deep pad _ hwf.1 bs h1⟩

/-- every id of `image_resources.TYPES` is dispatched to the class registered for it -/
theorem key_class_tied :
    Generated.Payload3.unit7Registry.all (fun r => (keyClass r.1).map RClass.name == some r.2) = true ∧ keyClass 4000 = none := by
  decide +kernel

theorem typed_samples_wf : ResPSD.WF Samples.rtb 4 Samples.resDoc ∧ ResPSD.payloadFits Samples.rtb Samples.resDoc := by decide +kernel

example : ∃ bs, ResPSD.enc Samples.rtb 4 Samples.resDoc = .ok bs ∧ ResPSD.read Samples.rtb bs 0 = .ok (Samples.resDoc.refresh, bs.length) := by
  have hd : DeepPSD.enc 4 (Samples.resDoc.flat Samples.rtb) = .ok ((Samples.resDoc.flat Samples.rtb).encT 4) := by decide +kernel
  have henc : ResPSD.enc Samples.rtb 4 Samples.resDoc = .ok ((Samples.resDoc.flat Samples.rtb).encT 4) := by
    unfold ResPSD.enc; rw [if_pos typed_samples_wf.2, hd]
  exact ⟨_, henc, psd_roundtrip_resources Samples.rtb 4 _ typed_samples_wf.1 _ henc⟩

/-- (iii) raw bytes under a registered id are parsed as the class of the id; a typed payload under the id of another class
is read as that other class -/
theorem resource_payload_follows_the_id :
    ¬ TRes.WF Samples.rtb Samples.rawUnderTypedKey ∧ ¬ TRes.WF Samples.rtb Samples.typedUnderOtherKey ∧
      Descriptor.errorOf (TRes.dec Samples.rtb (TRes.encT Samples.rtb Samples.rawUnderTypedKey) 0) = some .ioError ∧
      Descriptor.errorOf (TRes.dec Samples.rtb (TRes.encT Samples.rtb Samples.typedUnderOtherKey) 0) = some .assertionError := by
  decide +kernel

/-! ### non-vacuity -/

theorem unit7_samples_wf :
    (Slices.codec Samples.rtb).WF Samples.slices ∧ (Slices.codec Samples.rtb).Fits Samples.slices ∧
    (Slices.codec Samples.rtb).WF Samples.slices7 ∧ (Slices.codec Samples.rtb).Fits Samples.slices7 ∧
    VersionInfo.codec.WF Samples.versionInfo ∧ VersionInfo.codec.Fits Samples.versionInfo ∧
    PrintFlags.codec.WF Samples.printFlags9 ∧ PrintFlags.codec.WF Samples.printFlags8 ∧
    DisplayInfo.codec.WF Samples.displayInfo ∧ DisplayInfo.codec.Fits Samples.displayInfo ∧
    HalftoneScreens.codec.WF Samples.halftones ∧ HalftoneScreens.codec.Fits Samples.halftones := by decide +kernel

example : ∃ bs, (Slices.codec Samples.rtb).enc Samples.slices = .ok bs ∧
    ((Slices.codec Samples.rtb).dec bs 0).map (·.2) = .ok bs.length := by
  have henc : (Slices.codec Samples.rtb).enc Samples.slices = .ok ((Slices.codec Samples.rtb).encT Samples.slices) :=
    if_pos unit7_samples_wf.2.1
  refine ⟨_, henc, ?_⟩
  have h := slices_roundtrip_at_end Samples.rtb _ unit7_samples_wf.1 _ [] henc
  simp only [List.nil_append, List.length_nil, Nat.zero_add] at h
  rw [h]
  decide +kernel

example : ∃ bs, VersionInfo.codec.enc Samples.versionInfo = .ok bs ∧ VersionInfo.codec.dec bs 0 = .ok (Samples.versionInfo, bs.length) := by
  have henc : VersionInfo.codec.enc Samples.versionInfo = .ok (VersionInfo.codec.encT Samples.versionInfo) := if_pos unit7_samples_wf.2.2.2.2.2.1
  refine ⟨_, henc, ?_⟩
  have h := version_info_roundtrip _ unit7_samples_wf.2.2.2.2.1 _ [] [] henc
  simp only [List.nil_append, List.append_nil, List.length_nil, Nat.zero_add] at h
  rw [h]
  decide +kernel

/-! ### the finding of this unit (repo commit 588bcfb) and the ambiguity that stays -/

/-- slice 1 without descriptor, slice 16 with group id 1000, slice 3: `SliceV6.read` takes the id 16 for the version of a
descriptor block; the speculative `DescriptorBlock.read` at the start of the second slice runs out of data (`IOError`).
Before 588bcfb only `ValueError` was caught there and the resource failed to load. -/
theorem slices_id16_speculative_read_ioerror :
    (SlicesV6.codec Samples.rtb).Fits Samples.slices16 ∧
      Descriptor.errorOf (Descriptor.Block.dec Samples.rtb ((SlicesV6.codec Samples.rtb).encT Samples.slices16) 93) = some .ioError := by
  decide +kernel

/-- ... and is recovered now: the three slices come back (ids, cursor at the end), although `chainOK` does not hold -/
theorem slices_id16_recovered_after_fix :
    ¬ SlicesV6.chainOK Samples.slices16.items ∧
      ((SlicesV6.codec Samples.rtb).dec ((SlicesV6.codec Samples.rtb).encT Samples.slices16) 0).map
          (fun r => (r.1.items.map SliceV6.sliceId, r.1.items.map (fun s => s.data.isNone), r.2)) =
        .ok ([1, 16, 3], [true, true, true], ((SlicesV6.codec Samples.rtb).encT Samples.slices16).length) := by
  decide +kernel

/-- (F) the point `chainOK` excludes and that does not survive: the fields of slice 16 (group id 0, origin 0, a name of two
NUL characters) form a descriptor block (version 16, empty name, class id `00 00 00 02`, no items), which the reader gives
to slice 1; the rest no longer parses (known finding C01/slices/id16-after-slice-without-data) -/
theorem slices_id16_misparse :
    (SlicesV6.codec Samples.rtb).Fits Samples.slices16bad ∧ (∀ s ∈ Samples.slices16bad.items, SliceV6.WF Samples.rtb s) ∧
      Descriptor.errorOf ((SlicesV6.codec Samples.rtb).dec ((SlicesV6.codec Samples.rtb).encT Samples.slices16bad) 0) = some .ioError := by
  decide +kernel

/-- (iii) `SliceV6(origin=1, associated_id=None)`: nothing is written for the id, the reader takes the next field for it -/
theorem slice_origin1_without_id_not_roundtrip :
    (SliceV6.codec Samples.rtb).Fits Samples.sliceOrigin1NoId ∧
      Descriptor.errorOf ((SliceV6.codec Samples.rtb).dec ((SliceV6.codec Samples.rtb).encT Samples.sliceOrigin1NoId) 0) = some .unicodeError := by
  decide +kernel

/-! ### ties -/

theorem unit7_enums_tied :
    Generated.Payload3.alphaChannelModes = Tables.alphaChannelModes ∧ Generated.Payload3.printScaleStyles = Tables.printScaleStyles ∧
    Generated.Payload3.slicesVersions = Tables.slicesVersions ∧ Generated.Payload3.resourceSignatures = Tables.resourceSignatures ∧
    Generated.Payload3.resourceSignatures.all (fun s => decide (s ∈ Psd.G.resourceSignatures)) = true := by decide +kernel

/-- how `ImageResource.read` / `write` call the payload (`frombytes` with no keyword: default paddings; `padding=1`) -/
theorem resource_payload_calls_tied :
    Generated.Payload3.resourcePayloadRead = Tables.resourcePayloadRead ∧
      Generated.Payload3.resourcePayloadWrite = Tables.resourcePayloadWrite := by decide +kernel

/-- `image_resources.TYPES`: which resource id holds which class - and every class in it is modelled -/
theorem unit7_registry_tied :
    Generated.Payload3.unit7Registry = Tables.unit7Registry ∧
      Generated.Payload3.unit7Registry.all (fun r => decide (r.2 ∈ Tables.unit7Modelled)) = true := by decide +kernel

theorem unit7_calls_tied : Generated.Payload3.unit7Calls = Tables.unit7Calls := by decide +kernel
/-- the `if` / `while` tests, the asserts, the exception classes caught (`SliceV6.read`: `(ValueError, IOError)` since
588bcfb), the base classes -/
theorem unit7_conditions_tied :
    Generated.Payload3.unit7Conditions = Tables.unit7Conditions ∧ Generated.Payload3.unit7Asserts = Tables.unit7Asserts ∧
    Generated.Payload3.unit7Excepts = Tables.unit7Excepts ∧ Generated.Payload3.unit7Bases = Tables.unit7Bases := by decide +kernel

/-- the `struct` formats of the models are the format strings of the source (`unit7_calls_tied`) -/
theorem unit7_formats_tied :
    parseFmts ["6H", "B"] = some AlphaChannel.fmt ∧ parseFmts ["I", "H", "i", "H4x2?"] = some HalftoneScreen.fmt ∧
    parseFmt "13H" = some TransferFunction.curveFmt ∧ parseFmt "6I2H" = some (Thumbnail.headFmt ++ [U 4] ++ Thumbnail.tailFmt) ∧
    parseFmt "3I" = some SliceV6.headFmt ∧ parseFmt "4I" = some SliceV6.bboxFmt ∧ parseFmt "4B" = some SliceV6.argbFmt ∧
    parseFmt "8?" = some PrintFlags.fmt8 ∧ parseFmt "?" = some [Q] ∧ parseFmt "4I" = some ([U 4, U 4, U 4] ++ [U 4]) ∧
    parseFmt "IB" = some [U 4, U 1] ∧ parseFmt "Id" = some [U 4, U 8] ∧ parseFmt "HBxIH" = some [U 2, U 1, X 1, U 4, U 2] ∧
    parseFmt "H3f" = some [U 2, U 4, U 4, U 4] ∧ parseFmt "I2HI2H" = some [U 4, U 2, U 2, U 4, U 2, U 2] ∧
    parseFmt "2I" = some [U 4, U 4] ∧ parseFmt "I?" = some [U 4, Q] ∧ parseFmt "i" = some [S 4] ∧ parseFmt "H" = some [U 2] ∧
    parseFmt "B" = some [U 1] ∧ parseFmt "I" = some [U 4] := by decide +kernel

end unit7

/-! ## unit 8: adjustments -/

section unit8

theorem brightness_contrast_roundtrip : RoundTrip (BrightnessContrast.codec) := roundTrip_of (BrightnessContrast.rt)
theorem brightness_contrast_rewrite_identical : RewriteIdentical (BrightnessContrast.codec) := rewriteIdentical_of (BrightnessContrast.rt).atEnd
theorem brightness_contrast_written_is_length : WrittenIsLength (BrightnessContrast.codec) := writtenIsLength_of (BrightnessContrast.count)
theorem tagged_block_brightness_contrast : TaggedBlockPayload (BrightnessContrast.codec) := taggedBlockPayload_of (BrightnessContrast.rt).atEnd

theorem color_balance_roundtrip : RoundTrip (ColorBalance.codec) := roundTrip_of (ColorBalance.rt)
theorem color_balance_rewrite_identical : RewriteIdentical (ColorBalance.codec) := rewriteIdentical_of (ColorBalance.rt).atEnd
theorem color_balance_written_is_length : WrittenIsLength (ColorBalance.codec) := writtenIsLength_of (ColorBalance.count)
theorem tagged_block_color_balance : TaggedBlockPayload (ColorBalance.codec) := taggedBlockPayload_of (ColorBalance.rt).atEnd

/-- a `DescriptorBlock2` whose header is `HI`; composed with Props/C01Descriptor.lean -/
theorem color_lookup_roundtrip (tb : Descriptor.Tables) (pad : Nat) : RoundTrip (ColorLookup.codec tb pad) := roundTrip_of (ColorLookup.rt tb pad)
theorem color_lookup_rewrite_identical (tb : Descriptor.Tables) (pad : Nat) : RewriteIdentical (ColorLookup.codec tb pad) := rewriteIdentical_of (ColorLookup.rt tb pad).atEnd
theorem color_lookup_written_is_length (tb : Descriptor.Tables) (pad : Nat) : WrittenIsLength (ColorLookup.codec tb pad) := writtenIsLength_of (ColorLookup.count tb pad)
theorem tagged_block_color_lookup (tb : Descriptor.Tables) (pad : Nat) : TaggedBlockPayload (ColorLookup.codec tb (innerPad pad)) := taggedBlockPayload_of (ColorLookup.rt tb _).atEnd

/-- `unknown = fp.read()`: at the end of the block -/
theorem channel_mixer_roundtrip_at_end : RoundTripAtEnd (ChannelMixer.codec) := roundTripAtEnd_of (ChannelMixer.rt)
theorem channel_mixer_rewrite_identical : RewriteIdentical (ChannelMixer.codec) := rewriteIdentical_of (ChannelMixer.rt)
theorem channel_mixer_written_is_length : WrittenIsLength (ChannelMixer.codec) := writtenIsLength_of (ChannelMixer.count)
theorem tagged_block_channel_mixer : TaggedBlockPayload (ChannelMixer.codec) := taggedBlockPayload_of (ChannelMixer.rt)

/-- maps or curves, the count from the bit map (version 1) or the count field (version 4), the extra marker (version 1) unless its read runs out of data -/
theorem curves_roundtrip_at_end : RoundTripAtEnd (Curves.codec) := roundTripAtEnd_of (Curves.rt)
theorem curves_rewrite_identical : RewriteIdentical (Curves.codec) := rewriteIdentical_of (Curves.rt)
theorem curves_written_is_length : WrittenIsLength (Curves.codec) := writtenIsLength_of (Curves.count)
theorem tagged_block_curves : TaggedBlockPayload (Curves.codec) := taggedBlockPayload_of (Curves.rt)

/-- the method is stored in version 3 only -/
theorem gradient_map_roundtrip : RoundTrip (GradientMap.codec) := roundTrip_of (GradientMap.rt)
theorem gradient_map_rewrite_identical : RewriteIdentical (GradientMap.codec) := rewriteIdentical_of (GradientMap.rt).atEnd
theorem gradient_map_written_is_length : WrittenIsLength (GradientMap.codec) := writtenIsLength_of (GradientMap.count)
theorem tagged_block_gradient_map : TaggedBlockPayload (GradientMap.codec) := taggedBlockPayload_of (GradientMap.rt).atEnd

theorem color_stop_roundtrip : RoundTrip (ColorStop.codec) := roundTrip_of (ColorStop.rt)
theorem color_stop_rewrite_identical : RewriteIdentical (ColorStop.codec) := rewriteIdentical_of (ColorStop.rt).atEnd
theorem color_stop_written_is_length : WrittenIsLength (ColorStop.codec) := writtenIsLength_of (ColorStop.count)

theorem transparency_stop_roundtrip : RoundTrip (TransparencyStop.codec) := roundTrip_of (TransparencyStop.rt)
theorem transparency_stop_rewrite_identical : RewriteIdentical (TransparencyStop.codec) := rewriteIdentical_of (TransparencyStop.rt).atEnd
theorem transparency_stop_written_is_length : WrittenIsLength (TransparencyStop.codec) := writtenIsLength_of (TransparencyStop.count)

theorem exposure_roundtrip (pad : Nat) : RoundTrip (Exposure.codec pad) := roundTrip_of (Exposure.rt pad)
theorem exposure_rewrite_identical (pad : Nat) : RewriteIdentical (Exposure.codec pad) := rewriteIdentical_of (Exposure.rt pad).atEnd
theorem exposure_written_is_length (pad : Nat) : WrittenIsLength (Exposure.codec pad) := writtenIsLength_of (Exposure.count pad)
theorem tagged_block_exposure (pad : Nat) : TaggedBlockPayload (Exposure.codec (innerPad pad)) := taggedBlockPayload_of (Exposure.rt _).atEnd

theorem hue_saturation_roundtrip : RoundTrip (HueSaturation.codec) := roundTrip_of (HueSaturation.rt)
theorem hue_saturation_rewrite_identical : RewriteIdentical (HueSaturation.codec) := rewriteIdentical_of (HueSaturation.rt).atEnd
theorem hue_saturation_written_is_length : WrittenIsLength (HueSaturation.codec) := writtenIsLength_of (HueSaturation.count)
theorem tagged_block_hue_saturation : TaggedBlockPayload (HueSaturation.codec) := taggedBlockPayload_of (HueSaturation.rt).atEnd

/-- 29 records, then the `Lvls` trailer with the records beyond 29 when `extra_version` is set (`is_readable(fp, 6)`) -/
theorem levels_roundtrip_at_end : RoundTripAtEnd (Levels.codec) := roundTripAtEnd_of (Levels.rt)
theorem levels_rewrite_identical : RewriteIdentical (Levels.codec) := rewriteIdentical_of (Levels.rt)
theorem levels_written_is_length : WrittenIsLength (Levels.codec) := writtenIsLength_of (Levels.count)
theorem tagged_block_levels : TaggedBlockPayload (Levels.codec) := taggedBlockPayload_of (Levels.rt)

theorem level_record_roundtrip : RoundTrip (LevelRecord.codec) := roundTrip_of (LevelRecord.rt)
theorem level_record_rewrite_identical : RewriteIdentical (LevelRecord.codec) := rewriteIdentical_of (LevelRecord.rt).atEnd
theorem level_record_written_is_length : WrittenIsLength (LevelRecord.codec) := writtenIsLength_of (LevelRecord.count)

theorem photo_filter_roundtrip : RoundTrip (PhotoFilter.codec) := roundTrip_of (PhotoFilter.rt)
theorem photo_filter_rewrite_identical : RewriteIdentical (PhotoFilter.codec) := rewriteIdentical_of (PhotoFilter.rt).atEnd
theorem photo_filter_written_is_length : WrittenIsLength (PhotoFilter.codec) := writtenIsLength_of (PhotoFilter.count)
theorem tagged_block_photo_filter : TaggedBlockPayload (PhotoFilter.codec) := taggedBlockPayload_of (PhotoFilter.rt).atEnd

theorem selective_color_roundtrip : RoundTrip (SelectiveColor.codec) := roundTrip_of (SelectiveColor.rt)
theorem selective_color_rewrite_identical : RewriteIdentical (SelectiveColor.codec) := rewriteIdentical_of (SelectiveColor.rt).atEnd
theorem selective_color_written_is_length : WrittenIsLength (SelectiveColor.codec) := writtenIsLength_of (SelectiveColor.count)
theorem tagged_block_selective_color : TaggedBlockPayload (SelectiveColor.codec) := taggedBlockPayload_of (SelectiveColor.rt).atEnd

/-! ### non-vacuity -/

theorem unit8_samples_wf :
    Levels.codec.WF Samples.levels29 ∧ Levels.codec.Fits Samples.levels29 ∧ Levels.codec.WF Samples.levels31 ∧ Levels.codec.Fits Samples.levels31 ∧
    Curves.codec.WF Samples.curves1 ∧ Curves.codec.Fits Samples.curves1 ∧ Curves.codec.WF Samples.curves1NoExtra ∧ Curves.codec.WF Samples.curves4 ∧
    PhotoFilter.codec.WF Samples.photo3 ∧ PhotoFilter.codec.WF Samples.photo2 ∧
    GradientMap.codec.WF Samples.gradient3 ∧ GradientMap.codec.Fits Samples.gradient3 ∧ GradientMap.codec.WF Samples.gradient1 ∧
    HueSaturation.codec.WF (Samples.hue 6) ∧ HueSaturation.codec.Fits (Samples.hue 6) := by decide +kernel

example : ∃ bs, Levels.codec.enc Samples.levels31 = .ok bs ∧ bs.length = 320 ∧ Levels.codec.dec bs 0 = .ok (Samples.levels31, 320) := by
  have henc : Levels.codec.enc Samples.levels31 = .ok (Levels.codec.encT Samples.levels31) := if_pos unit8_samples_wf.2.2.2.1
  refine ⟨_, henc, by decide +kernel, ?_⟩
  have hc : Levels.codec.consumed Samples.levels31 = 320 := by decide +kernel
  simpa [hc] using levels_roundtrip_at_end _ unit8_samples_wf.2.2.1 _ [] henc

example : ∃ bs, Curves.codec.enc Samples.curves1 = .ok bs ∧ bs.length % 4 = 0 ∧
    Curves.codec.dec bs 0 = .ok (Samples.curves1, Curves.codec.consumed Samples.curves1) := by
  have henc : Curves.codec.enc Samples.curves1 = .ok (Curves.codec.encT Samples.curves1) := if_pos unit8_samples_wf.2.2.2.2.2.1
  refine ⟨_, henc, by decide +kernel, ?_⟩
  simpa using curves_roundtrip_at_end _ unit8_samples_wf.2.2.2.2.1 _ [] henc

/-! ### points excluded by `WF` (iii): values the format has no place for -/

/-- `Levels` with 30 records and no extra version: the writer stores the first 29, the 30th is lost -/
theorem levels_records_beyond_29_need_the_trailer :
    Levels.codec.enc Samples.levels30NoTrailer = Levels.codec.enc Samples.levels29 ∧ Samples.levels30NoTrailer ≠ Samples.levels29 := by
  decide +kernel

/-- `HueSaturation` with five items: written as they are, the reader wants six (`IOError`) -/
theorem hue_saturation_needs_six_items :
    HueSaturation.codec.Fits (Samples.hue 5) ∧
      Descriptor.errorOf (HueSaturation.codec.dec (HueSaturation.codec.encT (Samples.hue 5)) 0) = some .ioError := by decide +kernel

/-- `PhotoFilter(version=3, color_space=..., color_components=...)`: only `xyz` is stored, the colour comes back as `None` -/
theorem photo_filter_v3_colour_not_stored :
    PhotoFilter.codec.enc Samples.photo3Colour = PhotoFilter.codec.enc Samples.photo3 ∧ Samples.photo3Colour ≠ Samples.photo3 := by
  decide +kernel

/-- `Curves(version=4, extra=marker)`: the marker is written and never read (`if version == 1`) -/
theorem curves_v4_marker_not_read :
    Curves.codec.Fits Samples.curves4Marker ∧
      (Curves.codec.dec (Curves.codec.encT Samples.curves4Marker) 0).map (fun r => r.1.extra) = .ok none := by decide +kernel

/-- `GradientMap(version=1, method=b"Lnr ")`: the method is stored in version 3 only -/
theorem gradient_map_v1_method_not_stored :
    GradientMap.codec.enc Samples.gradient1Lnr = GradientMap.codec.enc Samples.gradient1 ∧ Samples.gradient1Lnr.1.2 ≠ Samples.gradient1.1.2 := by
  decide +kernel

/-! ### ties -/

theorem unit8_validators_tied :
    Generated.Payload3.channelMixerVersions = Tables.channelMixerVersions ∧ Generated.Payload3.curvesExtraVersions = Tables.curvesExtraVersions ∧
    Generated.Payload3.gradientMapVersions = Tables.gradientMapVersions ∧ Generated.Payload3.gradientMethods = Tables.gradientMethods ∧
    Generated.Payload3.gradientExpansions = Tables.gradientExpansions ∧ Generated.Payload3.gradientLengths = Tables.gradientLengths ∧
    Generated.Payload3.levelsVersions = Tables.levelsVersions ∧ Generated.Payload3.photoFilterVersions = Tables.photoFilterVersions ∧
    Generated.Payload3.selectiveColorVersions = Tables.selectiveColorVersions := by decide +kernel

/-- `ADJUSTMENT_TYPES` as registered in `tagged_blocks.TYPES`, and every class in it is modelled -/
theorem unit8_registry_tied :
    Generated.Payload3.unit8Registry = Tables.unit8Registry ∧
      Generated.Payload3.unit8Registry.all (fun r => decide (r.2 ∈ Tables.unit8Modelled)) = true := by decide +kernel

theorem unit8_calls_tied : Generated.Payload3.unit8Calls = Tables.unit8Calls := by decide +kernel
/-- the `if` tests that decide the optional parts (`Levels.write`: `self.extra_version is not None`, `Levels.read`:
`is_readable(fp, 6)`, ...), the asserts, the `except IOError` of `Curves.read`, the base classes -/
theorem unit8_conditions_tied :
    Generated.Payload3.unit8Conditions = Tables.unit8Conditions ∧ Generated.Payload3.unit8Asserts = Tables.unit8Asserts ∧
    Generated.Payload3.unit8Excepts = Tables.unit8Excepts ∧ Generated.Payload3.unit8Bases = Tables.unit8Bases := by decide +kernel

theorem unit8_formats_tied :
    parseFmt "3HBx" = some [U 2, U 2, U 2, U 1, X 1] ∧ parseFmt "3h" = some s2x3 ∧ parseFmt "4h" = some s2x4 ∧ parseFmt "4H" = some u2x4 ∧
    parseFmt "2H" = some [U 2, U 2] ∧ parseFmt "5h" = some [S 2, S 2, S 2, S 2, S 2] ∧ parseFmt "H3f" = some [U 2, U 4, U 4, U 4] ∧
    parseFmt "HBx" = some [U 2, U 1, X 1] ∧ parseFmt "5H" = some LevelRecord.fmt ∧ parseFmt "2I5H2x" = some ColorStop.fmt ∧
    parseFmts ["2IH", "4H2x"] = some ColorStop.fmt ∧ parseFmt "2IH" = some TransparencyStop.fmt ∧
    parseFmt "3I" = some PhotoFilter.xyzFmt ∧ parseFmt "H4H" = some PhotoFilter.colorFmt ∧ parseFmt "IB" = some PhotoFilter.tailFmt ∧
    parseFmt "H2B" = some GradientMap.headFmt ∧ parseFmt "4HI2HIH" = some (u2x4 ++ [U 4, U 2, U 2] ++ [U 4, U 2]) ∧
    parseFmts ["4H", "I2H", "IH"] = some (u2x4 ++ [U 4, U 2, U 2] ++ [U 4, U 2]) ∧ parseFmt "2x" = some [X 2] ∧
    parseFmt "BHI" = some [U 1, U 2, U 4] ∧ parseFmt "256B" = some mapFmt ∧ parseFmt "2H" = some pairFmt ∧
    parseFmt "4sHI" = some CurvesExtraMarker.hdrFmt ∧ parseFmt "HI" = some [U 2, U 4] ∧ parseFmt "4sH" = some [SN 4, U 2] := by
  decide +kernel

end unit8

/-! ## unit 9: vector data -/

section unit9

/-- one record with its selector: fill rule, initial fill, clipboard, knot (4 classes), subpath (2 classes, recursive) -/
theorem path_record_roundtrip : RoundTrip (PItem.codec) := roundTrip_of (PItem.rt)
theorem path_record_rewrite_identical : RewriteIdentical (PItem.codec) := rewriteIdentical_of (PItem.rt).atEnd
theorem path_record_written_is_length : WrittenIsLength (PItem.codec) := writtenIsLength_of (PItem.count)

/-- `while is_readable(fp, 26)`; the filler stays below a record -/
theorem path_roundtrip_at_end (pad : Nat) : RoundTripAtEnd (Path.codec pad) := roundTripAtEnd_of (Path.rt pad)
theorem path_rewrite_identical (pad : Nat) : RewriteIdentical (Path.codec pad) := rewriteIdentical_of (Path.rt pad)
theorem path_written_is_length (pad : Nat) : WrittenIsLength (Path.codec pad) := writtenIsLength_of (Path.count pad)

theorem vector_mask_setting_roundtrip_at_end : RoundTripAtEnd (VectorMaskSetting.codec) := roundTripAtEnd_of (VectorMaskSetting.rt)
theorem vector_mask_setting_rewrite_identical : RewriteIdentical (VectorMaskSetting.codec) := rewriteIdentical_of (VectorMaskSetting.rt)
theorem vector_mask_setting_written_is_length : WrittenIsLength (VectorMaskSetting.codec) := writtenIsLength_of (VectorMaskSetting.count)
theorem tagged_block_vector_mask_setting : TaggedBlockPayload (VectorMaskSetting.codec) := taggedBlockPayload_of (VectorMaskSetting.rt)

theorem vector_stroke_content_setting_roundtrip (tb : Descriptor.Tables) (pad : Nat) : RoundTrip (VectorStrokeContentSetting.codec tb pad) := roundTrip_of (VectorStrokeContentSetting.rt tb pad)
theorem vector_stroke_content_setting_rewrite_identical (tb : Descriptor.Tables) (pad : Nat) : RewriteIdentical (VectorStrokeContentSetting.codec tb pad) := rewriteIdentical_of (VectorStrokeContentSetting.rt tb pad).atEnd
theorem vector_stroke_content_setting_written_is_length (tb : Descriptor.Tables) (pad : Nat) : WrittenIsLength (VectorStrokeContentSetting.codec tb pad) := writtenIsLength_of (VectorStrokeContentSetting.count tb pad)
theorem tagged_block_vector_stroke_content_setting (tb : Descriptor.Tables) (pad : Nat) : TaggedBlockPayload (VectorStrokeContentSetting.codec tb (innerPad pad)) := taggedBlockPayload_of (VectorStrokeContentSetting.rt tb _).atEnd

/-- `DescriptorBlock` as a tagged-block payload: `vstk` (VectorStrokeSetting), `blwh`, `vibA`, `SoCo`, `GdFl`, `PtFl` and the other keys registered for it -/
theorem descriptor_payload_roundtrip (tb : Descriptor.Tables) (pad : Nat) : RoundTrip (DescriptorPayload.codec tb pad) := roundTrip_of (DescriptorPayload.rt tb pad)
theorem descriptor_payload_rewrite_identical (tb : Descriptor.Tables) (pad : Nat) : RewriteIdentical (DescriptorPayload.codec tb pad) := rewriteIdentical_of (DescriptorPayload.rt tb pad).atEnd
theorem descriptor_payload_written_is_length (tb : Descriptor.Tables) (pad : Nat) : WrittenIsLength (DescriptorPayload.codec tb pad) := writtenIsLength_of (DescriptorPayload.count tb pad)
theorem tagged_block_descriptor_block (tb : Descriptor.Tables) (pad : Nat) : TaggedBlockPayload (DescriptorPayload.codec tb (innerPad pad)) := taggedBlockPayload_of (DescriptorPayload.rt tb _).atEnd

/-- `DescriptorBlock2` as a tagged-block payload: `vogk` (VectorOriginationData) and the object-based effects keys -/
theorem descriptor2_payload_roundtrip (tb : Descriptor.Tables) (pad : Nat) : RoundTrip (Descriptor2Payload.codec tb pad) := roundTrip_of (Descriptor2Payload.rt tb pad)
theorem descriptor2_payload_rewrite_identical (tb : Descriptor.Tables) (pad : Nat) : RewriteIdentical (Descriptor2Payload.codec tb pad) := rewriteIdentical_of (Descriptor2Payload.rt tb pad).atEnd
theorem descriptor2_payload_written_is_length (tb : Descriptor.Tables) (pad : Nat) : WrittenIsLength (Descriptor2Payload.codec tb pad) := writtenIsLength_of (Descriptor2Payload.count tb pad)
theorem tagged_block_descriptor_block2 (tb : Descriptor.Tables) (pad : Nat) : TaggedBlockPayload (Descriptor2Payload.codec tb (innerPad pad)) := taggedBlockPayload_of (Descriptor2Payload.rt tb _).atEnd

/-! ### non-vacuity -/

theorem unit9_samples_wf :
    (Path.codec 4).WF Samples.path ∧ (Path.codec 4).Fits Samples.path ∧
      VectorMaskSetting.codec.WF Samples.vectorMask ∧ VectorMaskSetting.codec.Fits Samples.vectorMask := by decide +kernel

/-- eleven 26-byte records (two of them nested one level deeper), then the filler -/
example : ∃ bs, (Path.codec 4).enc Samples.path = .ok bs ∧ bs.length = 288 ∧ (Path.codec 4).consumed Samples.path = 286 := by
  have henc : (Path.codec 4).enc Samples.path = .ok ((Path.codec 4).encT Samples.path) := if_pos unit9_samples_wf.2.1
  exact ⟨_, henc, by decide +kernel, by decide +kernel⟩

/-! ### ties -/

/-- `vector.TYPES`: selector ↦ class; the kinds the model gives them; the selectors of the three classes that are alone in
their kind -/
theorem unit9_selectors_tied :
    Generated.Payload3.pathSelectors = Tables.pathSelectors ∧ Generated.Payload3.pathResourceIDs = Tables.pathResourceIDs ∧
    Generated.Payload3.pathResourceIDs.all (fun s => (kindOf s).isSome) = true ∧
    Generated.Payload3.pathSelectors.all (fun r => (PKind.ofName r.2).isSome) = true ∧
    kindOf 6 = some .fill ∧ kindOf 7 = some .clipboard ∧ kindOf 8 = some .initial ∧ kindOf 9 = none := by decide +kernel

/-- `decode_fixed_point` / `encode_fixed_point`: division / multiplication by 2^24 around the stored integer -/
theorem unit9_fixed_point_tied :
    Generated.Payload3.decodeFixedPoint = Tables.decodeFixedPoint ∧ Generated.Payload3.encodeFixedPoint = Tables.encodeFixedPoint := by
  decide +kernel

theorem unit9_registry_tied : Generated.Payload3.unit9Registry = Tables.unit9Registry := by decide +kernel
theorem unit9_calls_tied : Generated.Payload3.unit9Calls = Tables.unit9Calls := by decide +kernel
theorem unit9_conditions_tied :
    Generated.Payload3.unit9Conditions = Tables.unit9Conditions ∧ Generated.Payload3.unit9Asserts = Tables.unit9Asserts ∧
    Generated.Payload3.unit9Excepts = Tables.unit9Excepts ∧ Generated.Payload3.unit9Bases = Tables.unit9Bases := by decide +kernel

theorem unit9_formats_tied :
    parseFmt "6i" = some knotFmt ∧ parseFmt "5i4x" = some clipFmt ∧ parseFmt "H22x" = some initFmt ∧
    parseFmt "HhH2I10s" = some ([U 2] ++ subFmt) ∧ parseFmt "24x" = some [X 24] ∧ parseFmt "2I" = some VectorMaskSetting.headFmt ∧
    parseFmt "4sI" = some [SN 4, U 4] ∧ parseFmts ["H", "24x"] = some [U 2, X 24] ∧
    fmtSize knotFmt = 24 ∧ fmtSize clipFmt = 24 ∧ fmtSize initFmt = 24 ∧ fmtSize ([U 2] ++ subFmt) = 24 := by decide +kernel

end unit9

/-! ## unit 10: filter effects -/

section unit10

theorem filter_effect_channel_roundtrip : RoundTrip (FEChannel.codec) := roundTrip_of (FEChannel.rt)
theorem filter_effect_channel_rewrite_identical : RewriteIdentical (FEChannel.codec) := rewriteIdentical_of (FEChannel.rt).atEnd
theorem filter_effect_channel_written_is_length : WrittenIsLength (FEChannel.codec) := writtenIsLength_of (FEChannel.count)

theorem filter_effect_extra_roundtrip : RoundTrip (FEExtra.codec) := roundTrip_of (FEExtra.rt)
theorem filter_effect_extra_rewrite_identical : RewriteIdentical (FEExtra.codec) := rewriteIdentical_of (FEExtra.rt).atEnd
theorem filter_effect_extra_written_is_length : WrittenIsLength (FEExtra.codec) := writtenIsLength_of (FEExtra.count)

/-- the extra is read `if is_readable(fp)`: every effect is read on the stream of its own length block -/
theorem filter_effect_roundtrip_at_end : RoundTripAtEnd (FilterEffect.codec) := roundTripAtEnd_of (FilterEffect.rt)
theorem filter_effect_rewrite_identical : RewriteIdentical (FilterEffect.codec) := rewriteIdentical_of (FilterEffect.rt)
theorem filter_effect_written_is_length : WrittenIsLength (FilterEffect.codec) := writtenIsLength_of (FilterEffect.count)

theorem filter_effects_roundtrip_at_end : RoundTripAtEnd (FilterEffects.codec) := roundTripAtEnd_of (FilterEffects.rt)
theorem filter_effects_rewrite_identical : RewriteIdentical (FilterEffects.codec) := rewriteIdentical_of (FilterEffects.rt)
theorem filter_effects_written_is_length : WrittenIsLength (FilterEffects.codec) := writtenIsLength_of (FilterEffects.count)
theorem tagged_block_filter_effects : TaggedBlockPayload (FilterEffects.codec) := taggedBlockPayload_of (FilterEffects.rt)

/-! ### non-vacuity -/

theorem unit10_samples_wf : FilterEffects.codec.WF Samples.effects ∧ FilterEffects.codec.Fits Samples.effects := by decide +kernel

example : ∃ bs, FilterEffects.codec.enc Samples.effects = .ok bs ∧ FilterEffects.codec.dec bs 0 = .ok (Samples.effects, bs.length) := by
  have henc : FilterEffects.codec.enc Samples.effects = .ok (FilterEffects.codec.encT Samples.effects) := if_pos unit10_samples_wf.2
  refine ⟨_, henc, ?_⟩
  have h := filter_effects_roundtrip_at_end _ unit10_samples_wf.1 _ [] henc
  simp only [List.nil_append, List.length_nil, Nat.zero_add] at h
  have hc : FilterEffects.codec.consumed Samples.effects = (FilterEffects.codec.encT Samples.effects).length := by decide +kernel
  rw [h, hc]

/-- (iii) `FilterEffectChannel(is_written=0, compression=1, data=...)`: a channel that is not written stores its flag only -/
theorem filter_channel_unwritten_content_not_stored :
    FEChannel.codec.enc Samples.channelUnwrittenContent = .ok [0, 0, 0, 0] ∧ FEChannel.codec.dec [0, 0, 0, 0] 0 = .ok (⟨0, none⟩, 4) := by
  decide +kernel

/-! ### ties -/

theorem unit10_registry_tied : Generated.Payload3.unit10Registry = Tables.unit10Registry := by decide +kernel
theorem unit10_calls_tied : Generated.Payload3.unit10Calls = Tables.unit10Calls := by decide +kernel
theorem unit10_conditions_tied :
    Generated.Payload3.unit10Conditions = Tables.unit10Conditions ∧ Generated.Payload3.unit10Asserts = Tables.unit10Asserts ∧
    Generated.Payload3.unit10Excepts = Tables.unit10Excepts ∧ Generated.Payload3.unit10Bases = Tables.unit10Bases := by decide +kernel
theorem unit10_formats_tied :
    parseFmt "4i" = some s4x4 ∧ parseFmt "2I" = some [U 4, U 4] ∧ parseFmt "I" = some [U 4] ∧ parseFmt "H" = some [U 2] ∧
      parseFmt "B" = some [U 1] := by decide +kernel

end unit10

end PsdVerif.C01Payload3
