/-
C01 (payload classes) — the payload classes brought into the model survive write → read and re-write identically.

Unit 1  `LayerInfoBlock` (Lr16 / Lr32): Model/PayloadLayerInfo.lean, Lemmas/PayloadLayerInfo{1,2}.lean.

Unit 2  the fixed-layout tagged-block payloads of psd/base.py, psd/tagged_blocks.py, psd/color.py:
        Model/PayloadBase.lean (`PCodec`), Model/PayloadSimple.lean, Lemmas/PayloadBase.lean, Lemmas/PayloadSimple.lean.

Unit 3  psd/effects_layer.py (`lrFX`): Model/PayloadEffects.lean, Lemmas/PayloadEffects.lean.

Unit 4  psd/patterns.py (`Patt` / `Pat2` / `Pat3`): Model/PayloadPatterns.lean, Lemmas/PayloadPatterns.lean.

Unit 5  psd/linked_layer.py (`lnkD` / `lnk2` / `lnk3` / `lnkE`): Model/PayloadLinked.lean, Lemmas/PayloadLinked.lean.

Unit 6  the descriptor-wrapping payloads of psd/tagged_blocks.py (`SoLd` / `SoLE`, `PlLd` / `plLd`, `TySh`):
        Model/PayloadDescWrap.lean, Lemmas/PayloadDescWrap.lean.

Reading guide (units 2-6)
* every class is a `PCodec`: `c.enc v` is `v.tobytes(...)` (or `struct.error`), `c.dec` the reader at a cursor,
  `c.consumed v` the number of written bytes the reader consumes (some writers end with `write_padding`; no payload
  reader consumes that filler), `c.encW` the bytes with the count `write` returns.
* `RoundTrip c` : anywhere in a stream · `RoundTripAtEnd c` : when nothing follows (the reader probes what follows:
  `is_readable`, lenient `fp.read`) · `RewriteIdentical c` · `WrittenIsLength c` · `TaggedBlockPayload c` : as the payload
  of a skeleton tagged block (`TaggedBlock.read` runs the payload reader on exactly the bytes of the length block).
  The definitions are in Lemmas/PayloadBase.lean.

Reading guide (unit 1)
* `LayerInfoBlock.enc v pad li` is `li.tobytes(version=v, padding=pad)`, `LayerInfoBlock.dec v` is
  `LayerInfoBlock.read(fp, version=v)`. As in Props/C01.lean the value read back is the object *as the writer left
  it* (`blockRefresh`: `_update_channel_length` overwrites `channel_info.length` before the records are written);
  the `…_fresh` corollaries are the `= li` statements.
* The reader does not consume the writer's trailing filler (`write_padding(fp, written, padding)`): the cursor stops
  at `bodyLen`; the second conjunct says that filler is all that follows.
* `TBlock` is a tagged block whose `data` is a typed payload; `TBlock.dec` is `TaggedBlock.read` *with* the payload
  dispatch (`kls.frombytes(raw_data, version=version)`), `t.flat` its skeleton view (payload = the bytes it writes).
* `DeepPSD` is a document whose document-level blocks are typed: `psd_roundtrip_deep` is the whole-file round trip
  with the nested layer structure (records, masks, channel data of the Lr16/Lr32 block), not its bytes.
* WF tags as in Model/Psd.lean; the one (F) clause of this unit has the witness `layer_info_block_none_not_roundtrip`.
-/
import PsdVerif.Lemmas.PayloadLayerInfo2
import PsdVerif.Lemmas.PayloadSimple
import PsdVerif.Lemmas.PayloadEffects
import PsdVerif.Lemmas.PayloadPatterns
import PsdVerif.Lemmas.PayloadLinked
import PsdVerif.Lemmas.PayloadDescWrap
import PsdVerif.Lemmas.PayloadSamples
import PsdVerif.Model.PayloadTables

namespace PsdVerif.C01Payload
open PsdVerif PsdVerif.Codec PsdVerif.Psd PsdVerif.Payload

/-! ## unit 1: LayerInfoBlock -/

/-- anywhere in a stream, `LayerInfoBlock.read` returns what `LayerInfoBlock.write` wrote (as the writer left it) and
stops at the end of the body; what follows in the written bytes is the writer's filler -/
theorem layer_info_block_roundtrip (v pad : Nat) (li : LayerInfo) (hwf : LayerInfoBlock.WF v li) (bs pre post : B)
    (henc : LayerInfoBlock.enc v pad li = .ok bs) :
    LayerInfoBlock.dec v (pre ++ bs ++ post) pre.length = .ok (blockRefresh li, pre.length + LayerInfoBlock.bodyLen v li) ∧
      LayerInfoBlock.bodyLen v li + padAmount (LayerInfoBlock.bodyLen v li) pad = bs.length := by
  obtain ⟨hf, rfl⟩ := LayerInfoBlock.enc_ok henc
  exact ⟨LayerInfoBlock.dec_at hwf hf (At.intro pre _ post), (LayerInfoBlock.length_encT v pad li).symm⟩

/-- when the stored channel lengths already agree with the channel data (always so for an object that was read, and
after any earlier `write`), the object read back is the original -/
theorem layer_info_block_roundtrip_fresh (v pad : Nat) (li : LayerInfo) (hwf : LayerInfoBlock.WF v li)
    (hfresh : blockRefresh li = li) (bs pre post : B) (henc : LayerInfoBlock.enc v pad li = .ok bs) :
    LayerInfoBlock.dec v (pre ++ bs ++ post) pre.length = .ok (li, pre.length + LayerInfoBlock.bodyLen v li) := by
  have h := (layer_info_block_roundtrip v pad li hwf bs pre post henc).1
  rwa [hfresh] at h

theorem layer_info_block_rewrite_identical (v pad : Nat) (li : LayerInfo) (hwf : LayerInfoBlock.WF v li) (bs : B)
    (henc : LayerInfoBlock.enc v pad li = .ok bs) (li' : LayerInfo) (n : Nat)
    (hread : LayerInfoBlock.dec v bs 0 = .ok (li', n)) : LayerInfoBlock.enc v pad li' = .ok bs := by
  have h := (layer_info_block_roundtrip v pad li hwf bs [] [] henc).1
  simp only [List.nil_append, List.append_nil, List.length_nil] at h
  rw [h] at hread
  cases hread
  rw [LayerInfoBlock.enc_refresh, henc]

/-- the byte count `write` returns is the number of bytes it emitted -/
theorem layer_info_block_written_is_length (v pad : Nat) (li : LayerInfo) (bs : B)
    (henc : LayerInfoBlock.enc v pad li = .ok bs) : LayerInfoBlock.encW v pad li = .ok (bs, bs.length) := by
  obtain ⟨hf, rfl⟩ := LayerInfoBlock.enc_ok henc
  simp only [LayerInfoBlock.encW, if_pos hf, LayerInfoBlock.encP_eq]

/-- the writer rejects (`struct.error`), it never corrupts -/
theorem layer_info_block_enc_rejects (v pad : Nat) (li : LayerInfo) (e : Err) (h : LayerInfoBlock.enc v pad li = .error e) :
    e = .structError := by
  unfold LayerInfoBlock.enc at h
  split at h
  · cases h
  · cases h; rfl

/-! ### composition with the skeleton's tagged block -/

/-- a skeleton tagged block whose payload bytes are the encoding of a nested `LayerInfo`: `TaggedBlock.read` takes the
length block (`tagged_block_roundtrip`) and `LayerInfoBlock.frombytes` on exactly those bytes returns the nested
structure -/
theorem tagged_block_layer_info_payload_roundtrip (v pad : Nat) (hp : pad = 1 ∨ pad = 2 ∨ pad = 4)
    (t : Psd.TaggedBlock) (hwf : t.WF v) (li : LayerInfo) (hli : LayerInfoBlock.WF v li)
    (henc : LayerInfoBlock.enc v (innerPad pad) li = .ok t.data) (pre post : B) :
    Psd.TaggedBlock.dec v pad (pre ++ t.encT v pad ++ post) pre.length = .ok (some t, pre.length + (t.encT v pad).length) ∧
      LayerInfoBlock.dec v t.data 0 = .ok (blockRefresh li, LayerInfoBlock.bodyLen v li) := by
  refine ⟨Psd.TaggedBlock.dec_at hp hwf (At.intro pre _ post), ?_⟩
  simpa using (layer_info_block_roundtrip v _ li hli t.data [] [] henc).1

/-- the typed tagged block: `TaggedBlock.read` *with* the payload dispatch returns the block with its nested structure -/
theorem typed_tagged_block_roundtrip (v pad : Nat) (hp : pad = 1 ∨ pad = 2 ∨ pad = 4) (t : TBlock) (hwf : t.WF v pad)
    (bs pre post : B) (henc : t.enc v pad = .ok bs) :
    TBlock.dec v pad (pre ++ bs ++ post) pre.length = .ok (some t.refresh, pre.length + bs.length) := by
  obtain ⟨_, rfl⟩ := TBlock.enc_ok henc
  exact TBlock.dec_at hp hwf (At.intro pre _ post)

theorem typed_tagged_block_rewrite_identical (v pad : Nat) (hp : pad = 1 ∨ pad = 2 ∨ pad = 4) (t : TBlock)
    (hwf : t.WF v pad) (bs : B) (henc : t.enc v pad = .ok bs) (t' : TBlock) (n : Nat)
    (hread : TBlock.dec v pad bs 0 = .ok (some t', n)) : t'.enc v pad = .ok bs := by
  have h := typed_tagged_block_roundtrip v pad hp t hwf bs [] [] henc
  simp only [List.nil_append, List.append_nil, List.length_nil] at h
  rw [h] at hread
  cases hread
  rw [TBlock.enc_refresh, henc]

theorem typed_tagged_block_written_is_length (v pad : Nat) (t : TBlock) (bs : B) (henc : t.enc v pad = .ok bs) :
    t.encP v pad = (bs, bs.length) := by
  obtain ⟨_, rfl⟩ := TBlock.enc_ok henc
  exact TBlock.encP_eq v pad t

/-- the bytes of a typed block are the bytes of its skeleton view, and the typed reader refines the skeleton's:
same signature, key and cursor, the payload decoded in place -/
theorem typed_block_is_skeleton_block (v pad : Nat) (hp : pad = 1 ∨ pad = 2 ∨ pad = 4) (t : TBlock) (hwf : t.WF v pad)
    (pre post : B) :
    Psd.TaggedBlock.dec v pad (pre ++ t.encT v pad ++ post) pre.length =
        .ok (some (t.flat v pad), pre.length + (t.encT v pad).length) ∧
      TBlock.dec v pad (pre ++ t.encT v pad ++ post) pre.length =
        .ok (some t.refresh, pre.length + (t.encT v pad).length) ∧
      t.refresh.flat v pad = t.flat v pad :=
  ⟨Psd.TaggedBlock.dec_at hp hwf.1 (At.intro pre _ post), TBlock.dec_at hp hwf (At.intro pre _ post),
    TBlock.flat_refresh v pad t⟩

/-- typed blocks on a nested stream: the loop stops when fewer than 8 bytes follow -/
theorem typed_tagged_blocks_roundtrip_nested (v pad : Nat) (hp : pad = 1 ∨ pad = 2 ∨ pad = 4) (ts : List TBlock)
    (hwf : tblocksWF v pad ts) (pre post : B) (hpost : post.length < 8) :
    tblocksDec v pad none (pre ++ tblocksT v pad ts ++ post) pre.length =
      .ok (ts.map TBlock.refresh, pre.length + (tblocksT v pad ts).length) := by
  apply tblocksDec_at hp hwf none (At.intro pre _ post) (by intro e he; cases he)
  unfold taggedCond
  rw [isReadable_false (by simp only [List.length_append]; omega)]
  rfl

/-! ### the whole file, with the nested structure -/

/-- a document whose layers live in Lr16/Lr32: reading what `PSD.write` emitted returns the document — header, resources,
the (empty) main layer info, the global mask info and the *typed* blocks with their nested records, masks and channel
data — as the writer left it -/
theorem psd_roundtrip_deep (pad : Nat) (x : DeepPSD) (hwf : x.WF pad) (bs : B) (henc : DeepPSD.enc pad x = .ok bs) :
    DeepPSD.read bs 0 = .ok (x.refresh, bs.length) := by
  obtain ⟨rfl, _, _⟩ := DeepPSD.enc_ok henc
  exact DeepPSD.read_encT hwf

theorem psd_roundtrip_deep_fresh (pad : Nat) (x : DeepPSD) (hwf : x.WF pad) (hfresh : x.refresh = x) (bs : B)
    (henc : DeepPSD.enc pad x = .ok bs) : DeepPSD.read bs 0 = .ok (x, bs.length) := by
  rw [psd_roundtrip_deep pad x hwf bs henc, hfresh]

theorem psd_rewrite_identical_deep (pad : Nat) (x : DeepPSD) (hwf : x.WF pad) (bs : B) (henc : DeepPSD.enc pad x = .ok bs)
    (x' : DeepPSD) (n : Nat) (hread : DeepPSD.read bs 0 = .ok (x', n)) : DeepPSD.enc pad x' = .ok bs := by
  rw [psd_roundtrip_deep pad x hwf bs henc] at hread
  cases hread
  rw [DeepPSD.enc_refresh, henc]

/-- the deep writer emits exactly what the skeleton writer emits for the bytes view, and the skeleton reader returns
the bytes view of what the deep reader returns: the deep theorem *extends* `C01.psd_roundtrip`, it does not replace it -/
theorem deep_refines_skeleton (pad : Nat) (x : DeepPSD) (hwf : x.WF pad) (bs : B) (henc : DeepPSD.enc pad x = .ok bs) :
    PSD.enc pad x.flat = .ok bs ∧ PSD.read bs 0 = .ok (x.refresh.flat, bs.length) := by
  obtain ⟨rfl, _, hw⟩ := DeepPSD.enc_ok henc
  have h1 : PSD.enc pad x.flat = .ok (x.encT pad) := by simp only [PSD.enc, hw, DeepPSD.encT]
  refine ⟨h1, ?_⟩
  rw [DeepPSD.flat_refresh]
  rw [PSD.enc_ok h1]
  exact PSD.read_encT hwf.1

theorem psd_enc_rejects_deep (pad : Nat) (x : DeepPSD) (e : Err) (h : DeepPSD.enc pad x = .error e) :
    e = .structError ∨ e = .indexError := by
  unfold DeepPSD.enc at h
  split at h
  · rename_i e' he
    cases h
    unfold PSD.writeError at he
    split at he
    · cases he; exact Or.inl rfl
    · split at he
      · cases he; exact Or.inr rfl
      · split at he
        · cases he; exact Or.inl rfl
        · cases he
  · split at h
    · cases h
    · cases h; exact Or.inl rfl

/-! ### non-vacuity -/

/-- six records (two nested groups, a masked layer with mask parameters and real-mask fields, record-level tagged blocks)
inside an Lr16 block -/
theorem sample_block_wf : LayerInfoBlock.WF 2 Samples.nestedLayers ∧ LayerInfoBlock.WF 1 Samples.nestedStale := by
  decide +kernel

example : ∃ bs, LayerInfoBlock.enc 2 4 Samples.nestedLayers = .ok bs ∧
    LayerInfoBlock.dec 2 bs 0 = .ok (Samples.nestedLayers, LayerInfoBlock.bodyLen 2 Samples.nestedLayers) := by
  have hf : LayerInfoBlock.Fits 2 Samples.nestedLayers := by decide +kernel
  have henc : LayerInfoBlock.enc 2 4 Samples.nestedLayers = .ok (LayerInfoBlock.encT 2 4 Samples.nestedLayers) := if_pos hf
  refine ⟨_, henc, ?_⟩
  simpa using layer_info_block_roundtrip_fresh 2 4 _ sample_block_wf.1 (by decide +kernel) _ [] [] henc

/-- a 16-bit PSB: empty main layer info, global mask info, `Lr16` with the nested layers, a raw 8-byte-length block -/
theorem sample_deep_wf : DeepPSD.WF 4 Samples.deepDoc ∧ DeepPSD.WF 4 Samples.deepDocStale := by decide +kernel

example : ∃ bs, DeepPSD.enc 4 Samples.deepDoc = .ok bs ∧ bs.length = 832 ∧
    DeepPSD.read bs 0 = .ok (Samples.deepDoc, bs.length) := by
  have henc : DeepPSD.enc 4 Samples.deepDoc = .ok (Samples.deepDoc.encT 4) := by decide +kernel
  exact ⟨_, henc, by decide +kernel, psd_roundtrip_deep_fresh 4 _ sample_deep_wf.1 (by decide +kernel) _ henc⟩

/-- stale channel lengths: the document read back is the refreshed one, which is the fresh sample -/
example : Samples.deepDocStale.refresh = Samples.deepDoc ∧ Samples.deepDocStale.refresh ≠ Samples.deepDocStale := by
  decide +kernel

/-! ### the point excluded by the (F) clause -/

/-- `LayerInfoBlock()` (layer_count 0, records `None`, channel data `None`) is written as the count alone and re-read
with two empty lists: `_read_body` has no count-0 shortcut (known finding C01/none-vs-empty/layer-info-block-count0) -/
theorem layer_info_block_none_not_roundtrip :
    LayerInfoBlock.enc 1 4 Samples.blockNone = .ok [0, 0, 0, 0] ∧
      LayerInfoBlock.dec 1 [0, 0, 0, 0] 0 = .ok (⟨0, some [], some []⟩, 2) ∧
      (⟨0, some [], some []⟩ : LayerInfo) ≠ blockRefresh Samples.blockNone := by decide +kernel

/-! ### ties to the regenerated tables -/

/-- the keys registered for `LayerInfoBlock`, and both have an 8-byte length field in a PSB -/
theorem layer_info_keys_tied :
    Generated.Payload.layerInfoBlockKeys = Tables.layerInfoBlockKeys ∧
      (∀ k ∈ layerInfoKeys, k ∈ Psd.G.bigKeys ∧ k.length = 4) := by decide +kernel

/-- `LayerInfoBlock` is `LayerInfo` with `read = _read_body`, `write = _write_body` (no length prefix, no count-0
shortcut), and the three inherited bodies are the ones the model transliterates -/
theorem layer_info_block_source_tied :
    Generated.Payload.layerInfoBlockBases = Tables.layerInfoBlockBases ∧
      Generated.Payload.layerInfoBlockRead = Tables.layerInfoBlockRead ∧
      Generated.Payload.layerInfoBlockWrite = Tables.layerInfoBlockWrite ∧
      Generated.Payload.layerInfoBodies = Tables.layerInfoBodies := by decide +kernel

/-- how `TaggedBlock.read/write` call the payload: inner padding, keyword arguments -/
theorem tagged_block_payload_calls_tied :
    Generated.Payload.taggedBlockInnerPadding = Tables.taggedBlockInnerPadding ∧
      Generated.Payload.taggedBlockPayloadWrite = Tables.taggedBlockPayloadWrite ∧
      Generated.Payload.taggedBlockPayloadRead = Tables.taggedBlockPayloadRead := by decide +kernel

theorem unit1_calls_tied : Generated.Payload.unit1Calls = Tables.unit1Calls := by decide +kernel

/-! ## unit 2: fixed-layout payloads -/

section unit2
open PCodec

/-! ### base.py -/

theorem empty_element_roundtrip : RoundTrip EmptyElement.codec := roundTrip_of EmptyElement.rt
theorem empty_element_rewrite_identical : RewriteIdentical EmptyElement.codec := rewriteIdentical_of EmptyElement.rt.atEnd
theorem empty_element_written_is_length : WrittenIsLength EmptyElement.codec := writtenIsLength_of EmptyElement.count

theorem numeric_element_roundtrip : RoundTrip NumericElement.codec := roundTrip_of NumericElement.rt
theorem numeric_element_rewrite_identical : RewriteIdentical NumericElement.codec := rewriteIdentical_of NumericElement.rt.atEnd
theorem numeric_element_written_is_length : WrittenIsLength NumericElement.codec := writtenIsLength_of NumericElement.count

/-- also `ProtectedSetting`, which is an `IntegerElement` with properties -/
theorem integer_element_roundtrip : RoundTrip IntegerElement.codec := roundTrip_of IntegerElement.rt
theorem integer_element_rewrite_identical : RewriteIdentical IntegerElement.codec := rewriteIdentical_of IntegerElement.rt.atEnd
theorem integer_element_written_is_length : WrittenIsLength IntegerElement.codec := writtenIsLength_of IntegerElement.count

theorem short_integer_element_roundtrip : RoundTrip ShortIntegerElement.codec := roundTrip_of ShortIntegerElement.rt
theorem short_integer_element_rewrite_identical : RewriteIdentical ShortIntegerElement.codec :=
  rewriteIdentical_of ShortIntegerElement.rt.atEnd
theorem short_integer_element_written_is_length : WrittenIsLength ShortIntegerElement.codec :=
  writtenIsLength_of ShortIntegerElement.count

theorem byte_element_roundtrip : RoundTrip ByteElement.codec := roundTrip_of ByteElement.rt
theorem byte_element_rewrite_identical : RewriteIdentical ByteElement.codec := rewriteIdentical_of ByteElement.rt.atEnd
theorem byte_element_written_is_length : WrittenIsLength ByteElement.codec := writtenIsLength_of ByteElement.count

theorem boolean_element_roundtrip : RoundTrip BooleanElement.codec := roundTrip_of BooleanElement.rt
theorem boolean_element_rewrite_identical : RewriteIdentical BooleanElement.codec := rewriteIdentical_of BooleanElement.rt.atEnd
theorem boolean_element_written_is_length : WrittenIsLength BooleanElement.codec := writtenIsLength_of BooleanElement.count

/-- written with padding `pw`, read with `pr` (`pr = 1`: the reader stops before the writer's filler; `pr = pw`: after it) -/
theorem string_element_roundtrip (pw pr : Nat) : RoundTrip (StringElement.codec pw pr) := roundTrip_of (StringElement.rt pw pr)
theorem string_element_rewrite_identical (pw pr : Nat) : RewriteIdentical (StringElement.codec pw pr) :=
  rewriteIdentical_of (StringElement.rt pw pr).atEnd
theorem string_element_written_is_length (pw pr : Nat) : WrittenIsLength (StringElement.codec pw pr) :=
  writtenIsLength_of (StringElement.count pw pr)

/-! ### color.py -/

theorem color_roundtrip : RoundTrip Color.codec := roundTrip_of Color.rt
theorem color_rewrite_identical : RewriteIdentical Color.codec := rewriteIdentical_of Color.rt.atEnd
theorem color_written_is_length : WrittenIsLength Color.codec := writtenIsLength_of Color.count

/-! ### tagged_blocks.py -/

/-- `Bytes.read` is `fp.read(4)`: lenient, so the law is at the end of a stream (a value of at most four bytes) … -/
theorem bytes_roundtrip_at_end : RoundTripAtEnd BytesElement.codec := roundTripAtEnd_of BytesElement.rt
/-- … and anywhere for a value of exactly four bytes -/
theorem bytes_roundtrip_four (v : B) (h4 : v.length = 4) (pre post : B) :
    BytesElement.codec.dec (pre ++ v ++ post) pre.length = .ok (v, pre.length + 4) :=
  BytesElement.rt_anywhere v h4 (At.intro pre v post)
theorem bytes_rewrite_identical : RewriteIdentical BytesElement.codec := rewriteIdentical_of BytesElement.rt
theorem bytes_written_is_length : WrittenIsLength BytesElement.codec := writtenIsLength_of BytesElement.count

theorem sheet_color_setting_roundtrip : RoundTrip SheetColorSetting.codec := roundTrip_of SheetColorSetting.rt
theorem sheet_color_setting_rewrite_identical : RewriteIdentical SheetColorSetting.codec :=
  rewriteIdentical_of SheetColorSetting.rt.atEnd
theorem sheet_color_setting_written_is_length : WrittenIsLength SheetColorSetting.codec :=
  writtenIsLength_of SheetColorSetting.count

theorem reference_point_roundtrip : RoundTrip ReferencePoint.codec := roundTrip_of ReferencePoint.rt
theorem reference_point_rewrite_identical : RewriteIdentical ReferencePoint.codec := rewriteIdentical_of ReferencePoint.rt.atEnd
theorem reference_point_written_is_length : WrittenIsLength ReferencePoint.codec := writtenIsLength_of ReferencePoint.count

/-- the reader decides by the remaining length whether signature + blend mode and the sub type are present: at end only -/
theorem section_divider_setting_roundtrip_at_end : RoundTripAtEnd SectionDividerSetting.codec :=
  roundTripAtEnd_of SectionDividerSetting.rt
theorem section_divider_setting_rewrite_identical : RewriteIdentical SectionDividerSetting.codec :=
  rewriteIdentical_of SectionDividerSetting.rt
theorem section_divider_setting_written_is_length : WrittenIsLength SectionDividerSetting.codec :=
  writtenIsLength_of SectionDividerSetting.count

theorem user_mask_roundtrip : RoundTrip UserMask.codec := roundTrip_of UserMask.rt
theorem user_mask_rewrite_identical : RewriteIdentical UserMask.codec := rewriteIdentical_of UserMask.rt.atEnd
theorem user_mask_written_is_length : WrittenIsLength UserMask.codec := writtenIsLength_of UserMask.count

theorem filter_mask_roundtrip : RoundTrip FilterMask.codec := roundTrip_of FilterMask.rt
theorem filter_mask_rewrite_identical : RewriteIdentical FilterMask.codec := rewriteIdentical_of FilterMask.rt.atEnd
theorem filter_mask_written_is_length : WrittenIsLength FilterMask.codec := writtenIsLength_of FilterMask.count

/-- `while is_readable(fp, 4)`: at end only -/
theorem channel_blending_restrictions_roundtrip_at_end : RoundTripAtEnd ChannelBlendingRestrictionsSetting.codec :=
  roundTripAtEnd_of ChannelBlendingRestrictionsSetting.rt
theorem channel_blending_restrictions_rewrite_identical : RewriteIdentical ChannelBlendingRestrictionsSetting.codec :=
  rewriteIdentical_of ChannelBlendingRestrictionsSetting.rt
theorem channel_blending_restrictions_written_is_length : WrittenIsLength ChannelBlendingRestrictionsSetting.codec :=
  writtenIsLength_of ChannelBlendingRestrictionsSetting.count

/-- `while is_readable(fp, 8)`: at end only; the writer's filler (below 8 bytes) ends the loop -/
theorem pixel_source_data2_roundtrip_at_end (pad : Nat) : RoundTripAtEnd (PixelSourceData2.codec pad) :=
  roundTripAtEnd_of (PixelSourceData2.rt pad)
theorem pixel_source_data2_rewrite_identical (pad : Nat) : RewriteIdentical (PixelSourceData2.codec pad) :=
  rewriteIdentical_of (PixelSourceData2.rt pad)
theorem pixel_source_data2_written_is_length (pad : Nat) : WrittenIsLength (PixelSourceData2.codec pad) :=
  writtenIsLength_of (PixelSourceData2.count pad)

/-- one item of the metadata block; `data` is a descriptor block (Props/C01Descriptor.lean), an integer or raw bytes -/
theorem metadata_setting_roundtrip (tb : Descriptor.Tables) : RoundTrip (MetadataSetting.codec tb) :=
  roundTrip_of (MetadataSetting.rt tb)
theorem metadata_settings_roundtrip (tb : Descriptor.Tables) : RoundTrip (MetadataSettings.codec tb) :=
  roundTrip_of (MetadataSettings.rt tb)
theorem metadata_settings_rewrite_identical (tb : Descriptor.Tables) : RewriteIdentical (MetadataSettings.codec tb) :=
  rewriteIdentical_of (MetadataSettings.rt tb).atEnd
theorem metadata_settings_written_is_length (tb : Descriptor.Tables) : WrittenIsLength (MetadataSettings.codec tb) :=
  writtenIsLength_of (MetadataSettings.count tb)

theorem annotation_roundtrip : RoundTrip Annotation.codec := roundTrip_of Annotation.rt
/-- the reader stops before the final `write_padding(fp, written, 4)` -/
theorem annotations_roundtrip : RoundTrip Annotations.codec := roundTrip_of Annotations.rt
theorem annotations_rewrite_identical : RewriteIdentical Annotations.codec := rewriteIdentical_of Annotations.rt.atEnd
theorem annotations_written_is_length : WrittenIsLength Annotations.codec := writtenIsLength_of Annotations.count

/-! ### as payloads of the skeleton's tagged block (`TYPES` of tagged_blocks.py, see `unit2_registry_tied`) -/

theorem tagged_block_empty_element : TaggedBlockPayload EmptyElement.codec := taggedBlockPayload_of EmptyElement.rt.atEnd
theorem tagged_block_integer_element : TaggedBlockPayload IntegerElement.codec := taggedBlockPayload_of IntegerElement.rt.atEnd
theorem tagged_block_short_integer_element : TaggedBlockPayload ShortIntegerElement.codec :=
  taggedBlockPayload_of ShortIntegerElement.rt.atEnd
theorem tagged_block_byte_element : TaggedBlockPayload ByteElement.codec := taggedBlockPayload_of ByteElement.rt.atEnd
/-- `luni`: written with the inner padding, read with the default padding 1 -/
theorem tagged_block_string_element (pad : Nat) : TaggedBlockPayload (StringElement.codec (innerPad pad) 1) :=
  taggedBlockPayload_of (StringElement.rt _ 1).atEnd
theorem tagged_block_bytes : TaggedBlockPayload BytesElement.codec := taggedBlockPayload_of BytesElement.rt
theorem tagged_block_sheet_color_setting : TaggedBlockPayload SheetColorSetting.codec :=
  taggedBlockPayload_of SheetColorSetting.rt.atEnd
theorem tagged_block_reference_point : TaggedBlockPayload ReferencePoint.codec := taggedBlockPayload_of ReferencePoint.rt.atEnd
theorem tagged_block_section_divider_setting : TaggedBlockPayload SectionDividerSetting.codec :=
  taggedBlockPayload_of SectionDividerSetting.rt
theorem tagged_block_user_mask : TaggedBlockPayload UserMask.codec := taggedBlockPayload_of UserMask.rt.atEnd
theorem tagged_block_filter_mask : TaggedBlockPayload FilterMask.codec := taggedBlockPayload_of FilterMask.rt.atEnd
theorem tagged_block_channel_blending_restrictions : TaggedBlockPayload ChannelBlendingRestrictionsSetting.codec :=
  taggedBlockPayload_of ChannelBlendingRestrictionsSetting.rt
theorem tagged_block_pixel_source_data2 (pad : Nat) : TaggedBlockPayload (PixelSourceData2.codec (innerPad pad)) :=
  taggedBlockPayload_of (PixelSourceData2.rt _)
theorem tagged_block_metadata_settings (tb : Descriptor.Tables) : TaggedBlockPayload (MetadataSettings.codec tb) :=
  taggedBlockPayload_of (MetadataSettings.rt tb).atEnd
theorem tagged_block_annotations : TaggedBlockPayload Annotations.codec := taggedBlockPayload_of Annotations.rt.atEnd

/-- the readers of the classes without trailing filler consume everything the writer wrote -/
theorem unit2_consumes_all :
    (∀ v, NumericElement.codec.consumed v = (NumericElement.codec.encT v).length) ∧
    (∀ v, IntegerElement.codec.consumed v = (IntegerElement.codec.encT v).length) ∧
    (∀ v, ShortIntegerElement.codec.consumed v = (ShortIntegerElement.codec.encT v).length) ∧
    (∀ v, ByteElement.codec.consumed v = (ByteElement.codec.encT v).length) ∧
    (∀ v, BooleanElement.codec.consumed v = (BooleanElement.codec.encT v).length) ∧
    (∀ v, Color.codec.Fits v → Color.codec.consumed v = (Color.codec.encT v).length) ∧
    (∀ v, SheetColorSetting.codec.consumed v = (SheetColorSetting.codec.encT v).length) ∧
    (∀ v, ReferencePoint.codec.Fits v → ReferencePoint.codec.consumed v = (ReferencePoint.codec.encT v).length) ∧
    (∀ v, UserMask.codec.Fits v → UserMask.codec.consumed v = (UserMask.codec.encT v).length) ∧
    (∀ v, FilterMask.codec.Fits v → FilterMask.codec.consumed v = (FilterMask.codec.encT v).length) := by
  refine ⟨fun v => (length_f64T v).symm, fun v => (length_beBytes 4 v).symm, ?_, ?_, ?_, ?_, ?_, ?_, ?_, ?_⟩
  · intro v; simp [ShortIntegerElement.codec, length_beBytes, length_zeros]
  · intro v; simp [ByteElement.codec, length_beBytes, length_zeros]
  · intro v; simp [BooleanElement.codec, length_boolT, length_zeros]
  · intro v hf; exact (Color.length_encT v hf).symm
  · intro v; simp [SheetColorSetting.codec, length_beBytes, length_zeros]
  · intro v hf
    have hf : v.length = 2 := hf
    simp [ReferencePoint.codec, length_listT_const f64T 8 v (fun x _ => length_f64T x), hf]
  · intro v hf; simp [UserMask.codec, Color.length_encT v.color hf.1, length_beBytes, length_zeros]
  · intro v hf; simp [FilterMask.codec, Color.length_encT v.color hf.1, length_beBytes]

/-- what the filler-writing classes leave unread is the filler -/
theorem unit2_filler :
    (∀ pw s, (StringElement.codec pw 1).encT s = ((StringElement.codec pw 1).encT s).take ((StringElement.codec pw 1).consumed s) ++
        zeros (padAmount (4 + 2 * (Unicode.encUnits s).length) pw)) ∧
    (∀ pad vs, (PixelSourceData2.codec pad).encT vs = ((PixelSourceData2.codec pad).encT vs).take ((PixelSourceData2.codec pad).consumed vs) ++
        zeros (padAmount ((PixelSourceData2.codec pad).consumed vs) pad)) ∧
    (∀ x, Annotations.codec.encT x = (Annotations.codec.encT x).take (Annotations.codec.consumed x) ++
        zeros (padAmount (Annotations.codec.consumed x) 4)) := by
  refine ⟨?_, ?_, ?_⟩
  · intro pw s
    have hl := ustr_body_length s
    simp only [StringElement.codec, ustrT, if_true, ← hl, List.take_left']
  · intro pad vs
    simp only [PixelSourceData2.codec, List.take_left']
  · intro x
    simp only [Annotations.codec, Annotations.encT, List.take_left']

/-! ### non-vacuity: every optional branch -/

theorem unit2_samples_wf :
    Color.codec.Fits Samples.rgb ∧ Color.codec.Fits Samples.lab ∧ Color.codec.Fits Samples.customSpace ∧
    SectionDividerSetting.codec.WF Samples.dividerKindOnly ∧ SectionDividerSetting.codec.WF Samples.dividerBlend ∧
    SectionDividerSetting.codec.WF Samples.dividerSub ∧
    (MetadataSettings.codec Descriptor.realTables).WF Samples.metadata ∧
    (MetadataSettings.codec Descriptor.realTables).Fits Samples.metadata ∧
    Annotations.codec.WF Samples.annotations ∧ Annotations.codec.Fits Samples.annotations ∧
    (PixelSourceData2.codec 4).WF Samples.pixelSources ∧ (StringElement.codec 4 1).WF [0x4C, 0xD800, 0x1F600] := by
  decide +kernel

example : ∃ bs, SectionDividerSetting.codec.enc Samples.dividerSub = .ok bs ∧ bs.length = 16 ∧
    SectionDividerSetting.codec.dec bs 0 = .ok (Samples.dividerSub, 16) := by
  have henc : SectionDividerSetting.codec.enc Samples.dividerSub = .ok (SectionDividerSetting.encT Samples.dividerSub) := by
    decide +kernel
  refine ⟨_, henc, by decide +kernel, ?_⟩
  have hc : SectionDividerSetting.codec.consumed Samples.dividerSub = 16 := by decide +kernel
  simpa [hc] using section_divider_setting_roundtrip_at_end _ unit2_samples_wf.2.2.2.2.2.1 _ [] henc

example : ∃ bs, (MetadataSettings.codec Descriptor.realTables).enc Samples.metadata = .ok bs ∧
    (MetadataSettings.codec Descriptor.realTables).dec bs 0 = .ok (Samples.metadata, bs.length) := by
  have hf := unit2_samples_wf.2.2.2.2.2.2.2.1
  have henc : (MetadataSettings.codec Descriptor.realTables).enc Samples.metadata =
      .ok ((MetadataSettings.codec Descriptor.realTables).encT Samples.metadata) := if_pos hf
  refine ⟨_, henc, ?_⟩
  have h := metadata_settings_roundtrip Descriptor.realTables _ unit2_samples_wf.2.2.2.2.2.2.1 _ [] [] henc
  simp only [List.nil_append, List.append_nil, List.length_nil, Nat.zero_add] at h
  rw [h]
  simp only [MetadataSettings.codec, List.length_append, length_beBytes]

example : ∃ bs, Annotations.codec.enc Samples.annotations = .ok bs ∧ bs.length % 4 = 0 ∧
    Annotations.codec.dec bs 0 = .ok (Samples.annotations, Samples.annotations.bodyT.length) := by
  have henc : Annotations.codec.enc Samples.annotations = .ok (Annotations.encT Samples.annotations) := by decide +kernel
  refine ⟨_, henc, by decide +kernel, ?_⟩
  have hc : Annotations.codec.consumed Samples.annotations = Samples.annotations.bodyT.length := rfl
  simpa [hc] using annotations_roundtrip _ unit2_samples_wf.2.2.2.2.2.2.2.2.1 _ [] [] henc

/-! ### points excluded by `WF` (evaluated here, replayed on the real code by the harness) -/

/-- `SectionDividerSetting(kind, sub_type=5)`: without signature and blend mode the writer stores the kind only -/
theorem section_divider_subtype_alone_not_roundtrip :
    SectionDividerSetting.codec.enc Samples.dividerSubOnly = .ok [0, 0, 0, 1] ∧
      SectionDividerSetting.codec.dec [0, 0, 0, 1] 0 = .ok (⟨1, none, none, none⟩, 4) := by decide +kernel

/-- `SectionDividerSetting(kind, signature=b"8BIM")` without a blend mode: the signature is not stored either -/
theorem section_divider_signature_alone_not_roundtrip :
    SectionDividerSetting.codec.enc Samples.dividerSigOnly = .ok [0, 0, 0, 1] ∧
      SectionDividerSetting.codec.dec [0, 0, 0, 1] 0 = .ok (⟨1, none, none, none⟩, 4) := by decide +kernel

/-- `Bytes(b"\x01\x02\x03\x04\x05")`: five bytes are written, `fp.read(4)` returns four -/
theorem bytes_longer_than_four_not_roundtrip :
    BytesElement.codec.enc [1, 2, 3, 4, 5] = .ok [1, 2, 3, 4, 5] ∧
      BytesElement.codec.dec [1, 2, 3, 4, 5] 0 = .ok ([1, 2, 3, 4], 4) := by decide +kernel

/-- raw bytes under the key `cust`: the reader decodes the data of that key as a descriptor block and fails -/
theorem metadata_raw_under_descriptor_key_not_roundtrip :
    ∃ bs, (MetadataSetting.codec Descriptor.realTables).enc Samples.metadataMismatch = .ok bs ∧
      Descriptor.errorOf ((MetadataSetting.codec Descriptor.realTables).dec bs 0) = some .ioError := by
  refine ⟨(MetadataSetting.codec Descriptor.realTables).encT Samples.metadataMismatch, by decide +kernel, by decide +kernel⟩

/-! ### ties to the regenerated tables -/

theorem unit2_enums_tied :
    Generated.Payload.sectionDividerKinds = Tables.sectionDividerKinds ∧ Generated.Payload.sheetColors = Tables.sheetColors ∧
    Generated.Payload.colorSpaceLab = Tables.colorSpaceLab ∧ Generated.Payload.metadataSignatures = Tables.metadataSignatures ∧
    Generated.Payload.metadataIntKeys = Tables.metadataIntKeys ∧
    Generated.Payload.metadataDescriptorKeys = Tables.metadataDescriptorKeys ∧
    Generated.Payload.annotationKinds = Tables.annotationKinds ∧ Generated.Payload.annotationMarkers = Tables.annotationMarkers := by
  decide +kernel

/-- the tests that decide the optional parts of a section divider (reader: a sub type only behind signature and blend
mode, since repo commit f04fc34) -/
theorem section_divider_conditions_tied : Generated.Payload.sectionDividerConditions = Tables.sectionDividerConditions := by
  decide +kernel

/-- an 8-byte block (kind + 4 more bytes) is read as the kind alone: the reader no longer takes a sub type that the writer
could not have stored (it did before f04fc34) -/
theorem section_divider_eight_bytes_no_sub_type :
    SectionDividerSetting.codec.dec [0, 0, 0, 1, 0, 0, 0, 5] 0 = .ok (⟨1, none, none, none⟩, 4) := by decide +kernel

/-- which key of `tagged_blocks.TYPES` holds which of the modelled classes -/
theorem unit2_registry_tied : Generated.Payload.unit2Registry = Tables.unit2Registry := by decide +kernel

/-- every call of a `utils` primitive in `read` / `write` of the modelled classes, with its arguments (struct formats,
`is_readable` sizes, length-block formats and paddings), in source order -/
theorem unit2_calls_tied : Generated.Payload.unit2Calls = Tables.unit2Calls := by decide +kernel

end unit2

/-! ## unit 3: effects_layer.py -/

section unit3
open PCodec

theorem common_state_info_roundtrip : RoundTrip CommonStateInfo.codec := roundTrip_of CommonStateInfo.rt
theorem common_state_info_rewrite_identical : RewriteIdentical CommonStateInfo.codec := rewriteIdentical_of CommonStateInfo.rt.atEnd
theorem common_state_info_written_is_length : WrittenIsLength CommonStateInfo.codec := writtenIsLength_of CommonStateInfo.count

/-- drop shadow and inner shadow: no dependence on the version (the native colour is always stored) -/
theorem shadow_info_roundtrip : RoundTrip ShadowInfo.codec := roundTrip_of ShadowInfo.rt
theorem shadow_info_rewrite_identical : RewriteIdentical ShadowInfo.codec := rewriteIdentical_of ShadowInfo.rt.atEnd
theorem shadow_info_written_is_length : WrittenIsLength ShadowInfo.codec := writtenIsLength_of ShadowInfo.count

/-- the native colour is present exactly when `version >= 2` (`WF`): then writer (`if self.native_color`) and reader
(`if version >= 2`) agree -/
theorem outer_glow_info_roundtrip : RoundTrip OuterGlowInfo.codec := roundTrip_of OuterGlowInfo.rt
theorem outer_glow_info_rewrite_identical : RewriteIdentical OuterGlowInfo.codec := rewriteIdentical_of OuterGlowInfo.rt.atEnd
theorem outer_glow_info_written_is_length : WrittenIsLength OuterGlowInfo.codec := writtenIsLength_of OuterGlowInfo.count

theorem inner_glow_info_roundtrip : RoundTrip InnerGlowInfo.codec := roundTrip_of InnerGlowInfo.rt
theorem inner_glow_info_rewrite_identical : RewriteIdentical InnerGlowInfo.codec := rewriteIdentical_of InnerGlowInfo.rt.atEnd
theorem inner_glow_info_written_is_length : WrittenIsLength InnerGlowInfo.codec := writtenIsLength_of InnerGlowInfo.count

/-- every version: below 2 without, from 2 on with the two real colours (full strength after repo commits 3d75013 - what
the writer stores - and 077ef93 - when the reader takes them) -/
theorem bevel_info_roundtrip : RoundTrip BevelInfo.codec := roundTrip_of BevelInfo.rt
theorem bevel_info_rewrite_identical : RewriteIdentical BevelInfo.codec := rewriteIdentical_of BevelInfo.rt.atEnd
theorem bevel_info_written_is_length : WrittenIsLength BevelInfo.codec := writtenIsLength_of BevelInfo.count

theorem solid_fill_info_roundtrip : RoundTrip SolidFillInfo.codec := roundTrip_of SolidFillInfo.rt
theorem solid_fill_info_rewrite_identical : RewriteIdentical SolidFillInfo.codec := rewriteIdentical_of SolidFillInfo.rt.atEnd
theorem solid_fill_info_written_is_length : WrittenIsLength SolidFillInfo.codec := writtenIsLength_of SolidFillInfo.count

/-- the dict of effect infos: every item in its own length block, read by the class its key selects; the reader stops
before the final `write_padding(fp, written, 4)` -/
theorem effects_layer_roundtrip : RoundTrip EffectsLayer.codec := roundTrip_of EffectsLayer.rt
theorem effects_layer_rewrite_identical : RewriteIdentical EffectsLayer.codec := rewriteIdentical_of EffectsLayer.rt.atEnd
theorem effects_layer_written_is_length : WrittenIsLength EffectsLayer.codec := writtenIsLength_of EffectsLayer.count
theorem tagged_block_effects_layer : TaggedBlockPayload EffectsLayer.codec := taggedBlockPayload_of EffectsLayer.rt.atEnd

theorem effects_layer_filler (x : EffectsLayer) :
    EffectsLayer.codec.encT x = (EffectsLayer.codec.encT x).take (EffectsLayer.codec.consumed x) ++
      zeros (padAmount (EffectsLayer.codec.consumed x) 4) := by
  simp only [EffectsLayer.codec, EffectsLayer.encT, List.take_left']

/-! ### non-vacuity -/

theorem unit3_samples_wf :
    EffectsLayer.codec.WF Samples.effects ∧ EffectsLayer.codec.Fits Samples.effects ∧
    EffectsLayer.codec.WF Samples.effectsOld ∧ EffectsLayer.codec.Fits Samples.effectsOld ∧
    BevelInfo.codec.WF Samples.bevel3 ∧ BevelInfo.codec.Fits Samples.bevel3 := by decide +kernel

example : ∃ bs, EffectsLayer.codec.enc Samples.effects = .ok bs ∧ bs.length % 4 = 0 ∧
    EffectsLayer.codec.dec bs 0 = .ok (Samples.effects, Samples.effects.bodyT.length) := by
  have henc : EffectsLayer.codec.enc Samples.effects = .ok (EffectsLayer.encT Samples.effects) := if_pos unit3_samples_wf.2.1
  refine ⟨_, henc, by decide +kernel, ?_⟩
  have hc : EffectsLayer.codec.consumed Samples.effects = Samples.effects.bodyT.length := rfl
  simpa [hc] using effects_layer_roundtrip _ unit3_samples_wf.1 _ [] [] henc

/-- a bevel effect of version 3 survives (it did not before 077ef93: see `bevel_version3_lost_real_colours_before_fix`) -/
example : ∃ bs, BevelInfo.codec.enc Samples.bevel3 = .ok bs ∧ bs.length = 78 ∧ BevelInfo.codec.dec bs 0 = .ok (Samples.bevel3, 78) := by
  have henc : BevelInfo.codec.enc Samples.bevel3 = .ok (BevelInfo.encT Samples.bevel3) := if_pos unit3_samples_wf.2.2.2.2.2
  refine ⟨_, henc, by decide +kernel, ?_⟩
  have hc : BevelInfo.codec.consumed Samples.bevel3 = 78 := by decide +kernel
  simpa [hc] using bevel_info_roundtrip _ unit3_samples_wf.2.2.2.2.1 _ [] [] henc

/-! ### the defect repaired by 077ef93, on the reader as it was -/

/-- with the reader's old test `version == 2` a bevel effect of version 3 was re-read without the real colours the writer
had stored (and the re-read object could not be written again: `None.write`) -/
theorem bevel_version3_lost_real_colours_before_fix :
    BevelInfo.codec.enc Samples.bevel3 = .ok (BevelInfo.encT Samples.bevel3) ∧
      Samples.bevelDecOld (BevelInfo.encT Samples.bevel3) 0 = .ok (Samples.bevel 3 none, 58) ∧
      Samples.bevel 3 none ≠ Samples.bevel3 ∧ ¬ BevelInfo.codec.Fits (Samples.bevel 3 none) := by decide +kernel

/-! ### points excluded by `WF` (iii): a trailer that does not match the version -/

/-- `OuterGlowInfo(version=2)` without a native colour: nothing is written for it, the reader runs out of data -/
theorem outer_glow_v2_without_native_not_roundtrip :
    ∃ bs, OuterGlowInfo.codec.enc Samples.outerGlow2NoNative = .ok bs ∧ OuterGlowInfo.codec.dec bs 0 = .error .ioError :=
  ⟨OuterGlowInfo.encT Samples.outerGlow2NoNative, by decide +kernel, by decide +kernel⟩

/-- `OuterGlowInfo(version=0, native_color=c)`: the colour is written (`if self.native_color`) and not read -/
theorem outer_glow_v0_with_native_not_roundtrip :
    ∃ bs, OuterGlowInfo.codec.enc Samples.outerGlow0Native = .ok bs ∧
      OuterGlowInfo.codec.dec bs 0 = .ok (Samples.outerGlow0, bs.length - 10) :=
  ⟨OuterGlowInfo.encT Samples.outerGlow0Native, by decide +kernel, by decide +kernel⟩

/-- `InnerGlowInfo(version=0, invert=1, native_color=c)` / `BevelInfo(version=0, real colours)`: the trailer is not written -/
theorem trailer_below_version2_not_stored :
    InnerGlowInfo.codec.enc Samples.innerGlow0Trailer = InnerGlowInfo.codec.enc Samples.innerGlow0 ∧
      BevelInfo.codec.enc Samples.bevel0Real = BevelInfo.codec.enc Samples.bevel0 := by decide +kernel

/-! ### ties -/

/-- `EffectsLayer.EFFECT_TYPES` is the model's key → class table, and every `EffectOSType` member has a class -/
theorem effect_types_tied :
    Generated.Payload.effectTypes = effectTypes.map (fun kc => (kc.1, kc.2.name)) ∧
      Generated.Payload.effectTypes = Tables.effectTypes ∧
      (∀ k ∈ Generated.Payload.effectKeys, (classOfKey k).isSome) ∧ Generated.Payload.effectKeys = Tables.effectKeys := by
  decide +kernel

/-- the tests that decide the version-dependent trailers, as written in the source -/
theorem effect_conditions_tied : Generated.Payload.effectConditions = Tables.effectConditions := by decide +kernel

theorem unit3_registry_tied : Generated.Payload.unit3Registry = Tables.unit3Registry := by decide +kernel
theorem unit3_calls_tied : Generated.Payload.unit3Calls = Tables.unit3Calls := by decide +kernel

end unit3

/-! ## unit 4: patterns.py -/

section unit4
open PCodec

/-- one channel: not written · written without content (`depth is None`) · geometry + (opaque) pixel bytes, read back with
`fp.read(length - 23)` -/
theorem virtual_memory_array_roundtrip : RoundTrip VMA.codec := roundTrip_of VMA.rt
theorem virtual_memory_array_rewrite_identical : RewriteIdentical VMA.codec := rewriteIdentical_of VMA.rt.atEnd
theorem virtual_memory_array_written_is_length : WrittenIsLength VMA.codec := writtenIsLength_of VMA.count

/-- `num_channels + 2` arrays inside a length block -/
theorem virtual_memory_array_list_roundtrip : RoundTrip VMAL.codec := roundTrip_of VMAL.rt
theorem virtual_memory_array_list_rewrite_identical : RewriteIdentical VMAL.codec := rewriteIdentical_of VMAL.rt.atEnd
theorem virtual_memory_array_list_written_is_length : WrittenIsLength VMAL.codec := writtenIsLength_of VMAL.count

theorem pattern_roundtrip : RoundTrip Pattern.codec := roundTrip_of Pattern.rt
theorem pattern_rewrite_identical : RewriteIdentical Pattern.codec := rewriteIdentical_of Pattern.rt.atEnd
theorem pattern_written_is_length : WrittenIsLength Pattern.codec := writtenIsLength_of Pattern.count

/-- `while is_readable(fp, 4)`: at the end of a stream -/
theorem patterns_roundtrip_at_end : RoundTripAtEnd Patterns.codec := roundTripAtEnd_of Patterns.rt
theorem patterns_rewrite_identical : RewriteIdentical Patterns.codec := rewriteIdentical_of Patterns.rt
theorem patterns_written_is_length : WrittenIsLength Patterns.codec := writtenIsLength_of Patterns.count
theorem tagged_block_patterns : TaggedBlockPayload Patterns.codec := taggedBlockPayload_of Patterns.rt

/-! ### non-vacuity -/

theorem unit4_samples_wf : Patterns.codec.WF Samples.patterns ∧ Patterns.codec.Fits Samples.patterns := by decide +kernel

example : ∃ bs, Patterns.codec.enc Samples.patterns = .ok bs ∧ bs.length % 4 = 0 ∧
    Patterns.codec.dec bs 0 = .ok (Samples.patterns, bs.length) := by
  have henc : Patterns.codec.enc Samples.patterns = .ok (Patterns.codec.encT Samples.patterns) := if_pos unit4_samples_wf.2
  refine ⟨_, henc, by decide +kernel, ?_⟩
  have hc : Patterns.codec.consumed Samples.patterns = (Patterns.codec.encT Samples.patterns).length := rfl
  simpa [hc] using patterns_roundtrip_at_end _ unit4_samples_wf.1 _ [] henc

/-! ### points excluded by `WF` -/

/-- `VirtualMemoryArray(is_written=0, depth=8, ...)`: an array that is not written stores its flag only -/
theorem unwritten_array_with_content_not_roundtrip :
    VMA.codec.enc Samples.vmaUnwrittenContent = .ok [0, 0, 0, 0] ∧ VMA.codec.dec [0, 0, 0, 0] 0 = .ok (Samples.vmaUnwritten, 4) := by
  decide +kernel

/-- (F) `Pattern(image_mode=RGB, color_table=[])`: the empty table is written as nothing and re-read as `None` -/
theorem pattern_empty_color_table_not_roundtrip :
    Pattern.codec.enc Samples.patternEmptyTable = Pattern.codec.enc Samples.patternRgb ∧
      Samples.patternEmptyTable ≠ Samples.patternRgb ∧ Pattern.codec.WF Samples.patternRgb := by decide +kernel

/-! ### ties -/

theorem unit4_tied :
    Generated.Payload.colorModeIndexed = Tables.colorModeIndexed ∧ Generated.Payload.patternConditions = Tables.patternConditions ∧
      Generated.Payload.unit4Registry = Tables.unit4Registry := by decide +kernel

theorem unit4_calls_tied : Generated.Payload.unit4Calls = Tables.unit4Calls := by decide +kernel

end unit4

/-! ## unit 5: linked_layer.py -/

section unit5
open PCodec

/-- one linked layer, every kind (DATA / EXTERNAL / ALIAS) × version (1 … 7): the optional fields each has, the position
of the data (after the file size from version 3 on, last in version 2, absent in version 1 of an external item), the
open-file and linked-file descriptor blocks; anywhere in a stream; the reader stops before the final filler -/
theorem linked_layer_roundtrip (tb : Descriptor.Tables) (pad : Nat) : RoundTrip (LinkedLayer.codec tb pad) :=
  roundTrip_of (LinkedLayer.rt tb pad)
theorem linked_layer_rewrite_identical (tb : Descriptor.Tables) (pad : Nat) : RewriteIdentical (LinkedLayer.codec tb pad) :=
  rewriteIdentical_of (LinkedLayer.rt tb pad).atEnd
theorem linked_layer_written_is_length (tb : Descriptor.Tables) (pad : Nat) : WrittenIsLength (LinkedLayer.codec tb pad) :=
  writtenIsLength_of (LinkedLayer.count tb pad)

/-- `while is_readable(fp, 8)`, one `Q` length block (padding 4) per item: at the end of a stream -/
theorem linked_layers_roundtrip_at_end (tb : Descriptor.Tables) : RoundTripAtEnd (LinkedLayers.codec tb) :=
  roundTripAtEnd_of (LinkedLayers.rt tb)
theorem linked_layers_rewrite_identical (tb : Descriptor.Tables) : RewriteIdentical (LinkedLayers.codec tb) :=
  rewriteIdentical_of (LinkedLayers.rt tb)
theorem linked_layers_written_is_length (tb : Descriptor.Tables) : WrittenIsLength (LinkedLayers.codec tb) :=
  writtenIsLength_of (LinkedLayers.count tb)
theorem tagged_block_linked_layers (tb : Descriptor.Tables) : TaggedBlockPayload (LinkedLayers.codec tb) :=
  taggedBlockPayload_of (LinkedLayers.rt tb)

/-! ### non-vacuity: every kind, every version threshold -/

theorem unit5_samples_wf :
    (LinkedLayers.codec Descriptor.realTables).WF Samples.linkedAll ∧ (LinkedLayers.codec Descriptor.realTables).Fits Samples.linkedAll := by
  decide +kernel

example : ∃ bs, (LinkedLayers.codec Descriptor.realTables).enc Samples.linkedAll = .ok bs ∧
    (LinkedLayers.codec Descriptor.realTables).dec bs 0 = .ok (Samples.linkedAll, bs.length) := by
  have henc : (LinkedLayers.codec Descriptor.realTables).enc Samples.linkedAll =
      .ok ((LinkedLayers.codec Descriptor.realTables).encT Samples.linkedAll) := if_pos unit5_samples_wf.2
  refine ⟨_, henc, ?_⟩
  have hc : (LinkedLayers.codec Descriptor.realTables).consumed Samples.linkedAll =
      ((LinkedLayers.codec Descriptor.realTables).encT Samples.linkedAll).length := rfl
  simpa [hc] using linked_layers_roundtrip_at_end Descriptor.realTables _ unit5_samples_wf.1 _ [] henc

/-! ### points excluded by `WF` (iii): a field the kind / version does not have -/

/-- an alias with data, an external item of version 1 with data: the size is written, the data is not, `None` comes back -/
theorem linked_data_not_stored :
    ((LinkedLayer.codec Descriptor.realTables 1).dec (LinkedLayer.encT Descriptor.realTables 1 Samples.linkedAliasData) 0).map
        (fun r => r.1.data) = .ok none ∧
      ((LinkedLayer.codec Descriptor.realTables 1).dec (LinkedLayer.encT Descriptor.realTables 1 Samples.linkedExt1Data) 0).map
        (fun r => r.1.data) = .ok none := by decide +kernel

/-- a child id in version 4 is written (`if self.child_id is not None`) but not read (`if version >= 5`) -/
theorem linked_child_id_below_version5_not_read :
    ((LinkedLayer.codec Descriptor.realTables 1).dec (LinkedLayer.encT Descriptor.realTables 1 Samples.linkedChildV4) 0).map
        (fun r => (r.1.childId, r.2 + 6)) = .ok (none, (LinkedLayer.encT Descriptor.realTables 1 Samples.linkedChildV4).length) := by
  decide +kernel

/-! ### ties -/

theorem unit5_tied :
    Generated.Payload.linkedLayerTypes = Tables.linkedLayerTypes ∧ Generated.Payload.linkedData = Tables.linkedData ∧
      Generated.Payload.linkedExternal = Tables.linkedExternal ∧ Generated.Payload.linkedAlias = Tables.linkedAlias ∧
      Generated.Payload.linkedVersionMin = Tables.linkedVersionMin ∧ Generated.Payload.linkedVersionMax = Tables.linkedVersionMax ∧
      Generated.Payload.unit5Registry = Tables.unit5Registry := by decide +kernel

/-- the tests that decide which optional field is read / written, as the source has them -/
theorem linked_conditions_tied : Generated.Payload.linkedConditions = Tables.linkedConditions := by decide +kernel

theorem unit5_calls_tied : Generated.Payload.unit5Calls = Tables.unit5Calls := by decide +kernel

end unit5

/-! ## unit 6: SmartObjectLayerData, PlacedLayerData, TypeToolObjectSetting -/

section unit6
open PCodec

/-- kind + version + a descriptor block (composed with Props/C01Descriptor.lean); the reader stops before the final filler -/
theorem smart_object_layer_data_roundtrip (tb : Descriptor.Tables) (pad : Nat) : RoundTrip (SmartObjectLayerData.codec tb pad) :=
  roundTrip_of (SmartObjectLayerData.rt tb pad)
theorem smart_object_layer_data_rewrite_identical (tb : Descriptor.Tables) (pad : Nat) :
    RewriteIdentical (SmartObjectLayerData.codec tb pad) := rewriteIdentical_of (SmartObjectLayerData.rt tb pad).atEnd
theorem smart_object_layer_data_written_is_length (tb : Descriptor.Tables) (pad : Nat) :
    WrittenIsLength (SmartObjectLayerData.codec tb pad) := writtenIsLength_of (SmartObjectLayerData.count tb pad)
theorem tagged_block_smart_object_layer_data (tb : Descriptor.Tables) (pad : Nat) :
    TaggedBlockPayload (SmartObjectLayerData.codec tb (innerPad pad)) := taggedBlockPayload_of (SmartObjectLayerData.rt tb _).atEnd

/-- uuid, page numbers, layer type, the 8 doubles of the transform, the warp `DescriptorBlock2` -/
theorem placed_layer_data_roundtrip (tb : Descriptor.Tables) (pad : Nat) : RoundTrip (PlacedLayerData.codec tb pad) :=
  roundTrip_of (PlacedLayerData.rt tb pad)
theorem placed_layer_data_rewrite_identical (tb : Descriptor.Tables) (pad : Nat) : RewriteIdentical (PlacedLayerData.codec tb pad) :=
  rewriteIdentical_of (PlacedLayerData.rt tb pad).atEnd
theorem placed_layer_data_written_is_length (tb : Descriptor.Tables) (pad : Nat) : WrittenIsLength (PlacedLayerData.codec tb pad) :=
  writtenIsLength_of (PlacedLayerData.count tb pad)
theorem tagged_block_placed_layer_data (tb : Descriptor.Tables) (pad : Nat) :
    TaggedBlockPayload (PlacedLayerData.codec tb (innerPad pad)) := taggedBlockPayload_of (PlacedLayerData.rt tb _).atEnd

/-- version, the 6 doubles of the transform, text version + text descriptor, warp version + warp descriptor, the bounding
box. (The in-place parse of the `EngineData` raw value by the reader is not modelled: the value stays the bytes; C18.) -/
theorem type_tool_object_setting_roundtrip (tb : Descriptor.Tables) (pad : Nat) : RoundTrip (TypeToolObjectSetting.codec tb pad) :=
  roundTrip_of (TypeToolObjectSetting.rt tb pad)
theorem type_tool_object_setting_rewrite_identical (tb : Descriptor.Tables) (pad : Nat) :
    RewriteIdentical (TypeToolObjectSetting.codec tb pad) := rewriteIdentical_of (TypeToolObjectSetting.rt tb pad).atEnd
theorem type_tool_object_setting_written_is_length (tb : Descriptor.Tables) (pad : Nat) :
    WrittenIsLength (TypeToolObjectSetting.codec tb pad) := writtenIsLength_of (TypeToolObjectSetting.count tb pad)
theorem tagged_block_type_tool_object_setting (tb : Descriptor.Tables) (pad : Nat) :
    TaggedBlockPayload (TypeToolObjectSetting.codec tb (innerPad pad)) := taggedBlockPayload_of (TypeToolObjectSetting.rt tb _).atEnd

theorem unit6_samples_wf :
    (SmartObjectLayerData.codec Descriptor.realTables 4).WF Samples.smartObject ∧
    (SmartObjectLayerData.codec Descriptor.realTables 4).Fits Samples.smartObject ∧
    (PlacedLayerData.codec Descriptor.realTables 4).WF Samples.placedLayer ∧ (PlacedLayerData.codec Descriptor.realTables 4).Fits Samples.placedLayer ∧
    (TypeToolObjectSetting.codec Descriptor.realTables 4).WF Samples.typeTool ∧
    (TypeToolObjectSetting.codec Descriptor.realTables 4).Fits Samples.typeTool := by decide +kernel

example : ∃ bs, (TypeToolObjectSetting.codec Descriptor.realTables 4).enc Samples.typeTool = .ok bs ∧ bs.length % 4 = 0 ∧
    ((TypeToolObjectSetting.codec Descriptor.realTables 4).dec bs 0).map (·.2) =
      .ok ((TypeToolObjectSetting.codec Descriptor.realTables 4).consumed Samples.typeTool) := by
  have henc : (TypeToolObjectSetting.codec Descriptor.realTables 4).enc Samples.typeTool =
      .ok ((TypeToolObjectSetting.codec Descriptor.realTables 4).encT Samples.typeTool) := if_pos unit6_samples_wf.2.2.2.2.2
  refine ⟨_, henc, by decide +kernel, ?_⟩
  have h := type_tool_object_setting_roundtrip Descriptor.realTables 4 _ unit6_samples_wf.2.2.2.2.1 _ [] [] henc
  simp only [List.nil_append, List.append_nil, List.length_nil, Nat.zero_add] at h
  rw [h]; rfl

theorem unit6_tied :
    Generated.Payload.smartObjectKinds = Tables.smartObjectKinds ∧ Generated.Payload.smartObjectVersions = Tables.smartObjectVersions ∧
      Generated.Payload.placedVersions = Tables.placedVersions ∧ Generated.Payload.placedLayerTypes = Tables.placedLayerTypes ∧
      Generated.Payload.typeToolTextVersions = Tables.typeToolTextVersions ∧
      Generated.Payload.typeToolWarpVersions = Tables.typeToolWarpVersions ∧ Generated.Payload.unit6Registry = Tables.unit6Registry := by
  decide +kernel

theorem unit6_calls_tied : Generated.Payload.unit6Calls = Tables.unit6Calls := by decide +kernel

end unit6

end PsdVerif.C01Payload
