/-
C01 (payload classes) — the payload classes brought into the model survive write → read and re-write identically.

Unit 1  `LayerInfoBlock` (Lr16 / Lr32): Model/PayloadLayerInfo.lean, Lemmas/PayloadLayerInfo{1,2}.lean.

Reading guide
* `LayerInfoBlock.enc v pad li` is `li.tobytes(version=v, padding=pad)`, `LayerInfoBlock.dec v` is
  `LayerInfoBlock.read(fp, version=v)`. As in Props/C01.lean the value read back is the object *as the writer left
  it* (`blockRefresh`: `_update_channel_length` overwrites `channel_info.length` before the records are written);
  the `…_fresh` corollaries are the `= li` statements.
* The reader does not consume the writer's trailing filler (`write_padding(fp, written, padding)`): the cursor stops
  at `bodyLen`; the second conjunct says that filler is all that follows.
* `TBlock` is a tagged block whose `data` is a typed payload; `TBlock.dec` is `TaggedBlock.read` *with* the payload
  dispatch (`kls.frombytes(raw_data, version=version)`), `t.flat` its skeleton view (payload = the bytes it writes).
* `DeepPSD` is a document whose document-level blocks are typed: `psd_roundtrip_deep` is the whole-file round trip
  with the nested layer structure (records, masks, channel data of the Lr16/Lr32 block), not its bytes.
* WF tags as in Model/Psd.lean; the one (F) clause of this unit has the witness `layer_info_block_none_not_roundtrip`.
-/
import PsdVerif.Lemmas.PayloadLayerInfo2
import PsdVerif.Lemmas.PayloadSamples
import PsdVerif.Model.PayloadTables

namespace PsdVerif.C01Payload
open PsdVerif PsdVerif.Codec PsdVerif.Psd PsdVerif.Payload

/-! ## unit 1: LayerInfoBlock -/

/-- anywhere in a stream, `LayerInfoBlock.read` returns what `LayerInfoBlock.write` wrote (as the writer left it) and
stops at the end of the body; what follows in the written bytes is the writer's filler -/
theorem layer_info_block_roundtrip (v pad : Nat) (li : LayerInfo) (hwf : LayerInfoBlock.WF v li) (bs pre post : B)
    (henc : LayerInfoBlock.enc v pad li = .ok bs) :
    LayerInfoBlock.dec v (pre ++ bs ++ post) pre.length = .ok (blockRefresh li, pre.length + LayerInfoBlock.bodyLen v li) ∧
      LayerInfoBlock.bodyLen v li + padAmount (LayerInfoBlock.bodyLen v li) pad = bs.length := by
  obtain ⟨hf, rfl⟩ := LayerInfoBlock.enc_ok henc
  exact ⟨LayerInfoBlock.dec_at hwf hf (At.intro pre _ post), (LayerInfoBlock.length_encT v pad li).symm⟩

/-- when the stored channel lengths already agree with the channel data (always so for an object that was read, and
after any earlier `write`), the object read back is the original -/
theorem layer_info_block_roundtrip_fresh (v pad : Nat) (li : LayerInfo) (hwf : LayerInfoBlock.WF v li)
    (hfresh : blockRefresh li = li) (bs pre post : B) (henc : LayerInfoBlock.enc v pad li = .ok bs) :
    LayerInfoBlock.dec v (pre ++ bs ++ post) pre.length = .ok (li, pre.length + LayerInfoBlock.bodyLen v li) := by
  have h := (layer_info_block_roundtrip v pad li hwf bs pre post henc).1
  rwa [hfresh] at h

theorem layer_info_block_rewrite_identical (v pad : Nat) (li : LayerInfo) (hwf : LayerInfoBlock.WF v li) (bs : B)
    (henc : LayerInfoBlock.enc v pad li = .ok bs) (li' : LayerInfo) (n : Nat)
    (hread : LayerInfoBlock.dec v bs 0 = .ok (li', n)) : LayerInfoBlock.enc v pad li' = .ok bs := by
  have h := (layer_info_block_roundtrip v pad li hwf bs [] [] henc).1
  simp only [List.nil_append, List.append_nil, List.length_nil] at h
  rw [h] at hread
  cases hread
  rw [LayerInfoBlock.enc_refresh, henc]

/-- the byte count `write` returns is the number of bytes it emitted -/
theorem layer_info_block_written_is_length (v pad : Nat) (li : LayerInfo) (bs : B)
    (henc : LayerInfoBlock.enc v pad li = .ok bs) : LayerInfoBlock.encW v pad li = .ok (bs, bs.length) := by
  obtain ⟨hf, rfl⟩ := LayerInfoBlock.enc_ok henc
  simp only [LayerInfoBlock.encW, if_pos hf, LayerInfoBlock.encP_eq]

/-- the writer rejects (`struct.error`), it never corrupts -/
theorem layer_info_block_enc_rejects (v pad : Nat) (li : LayerInfo) (e : Err) (h : LayerInfoBlock.enc v pad li = .error e) :
    e = .structError := by
  unfold LayerInfoBlock.enc at h
  split at h
  · cases h
  · cases h; rfl

/-! ### composition with the skeleton's tagged block -/

/-- a skeleton tagged block whose payload bytes are the encoding of a nested `LayerInfo`: `TaggedBlock.read` takes the
length block (`tagged_block_roundtrip`) and `LayerInfoBlock.frombytes` on exactly those bytes returns the nested
structure -/
theorem tagged_block_layer_info_payload_roundtrip (v pad : Nat) (hp : pad = 1 ∨ pad = 2 ∨ pad = 4)
    (t : Psd.TaggedBlock) (hwf : t.WF v) (li : LayerInfo) (hli : LayerInfoBlock.WF v li)
    (henc : LayerInfoBlock.enc v (innerPad pad) li = .ok t.data) (pre post : B) :
    Psd.TaggedBlock.dec v pad (pre ++ t.encT v pad ++ post) pre.length = .ok (some t, pre.length + (t.encT v pad).length) ∧
      LayerInfoBlock.dec v t.data 0 = .ok (blockRefresh li, LayerInfoBlock.bodyLen v li) := by
  refine ⟨Psd.TaggedBlock.dec_at hp hwf (At.intro pre _ post), ?_⟩
  simpa using (layer_info_block_roundtrip v _ li hli t.data [] [] henc).1

/-- the typed tagged block: `TaggedBlock.read` *with* the payload dispatch returns the block with its nested structure -/
theorem typed_tagged_block_roundtrip (v pad : Nat) (hp : pad = 1 ∨ pad = 2 ∨ pad = 4) (t : TBlock) (hwf : t.WF v pad)
    (bs pre post : B) (henc : t.enc v pad = .ok bs) :
    TBlock.dec v pad (pre ++ bs ++ post) pre.length = .ok (some t.refresh, pre.length + bs.length) := by
  obtain ⟨_, rfl⟩ := TBlock.enc_ok henc
  exact TBlock.dec_at hp hwf (At.intro pre _ post)

theorem typed_tagged_block_rewrite_identical (v pad : Nat) (hp : pad = 1 ∨ pad = 2 ∨ pad = 4) (t : TBlock)
    (hwf : t.WF v pad) (bs : B) (henc : t.enc v pad = .ok bs) (t' : TBlock) (n : Nat)
    (hread : TBlock.dec v pad bs 0 = .ok (some t', n)) : t'.enc v pad = .ok bs := by
  have h := typed_tagged_block_roundtrip v pad hp t hwf bs [] [] henc
  simp only [List.nil_append, List.append_nil, List.length_nil] at h
  rw [h] at hread
  cases hread
  rw [TBlock.enc_refresh, henc]

theorem typed_tagged_block_written_is_length (v pad : Nat) (t : TBlock) (bs : B) (henc : t.enc v pad = .ok bs) :
    t.encP v pad = (bs, bs.length) := by
  obtain ⟨_, rfl⟩ := TBlock.enc_ok henc
  exact TBlock.encP_eq v pad t

/-- the bytes of a typed block are the bytes of its skeleton view, and the typed reader refines the skeleton's:
same signature, key and cursor, the payload decoded in place -/
theorem typed_block_is_skeleton_block (v pad : Nat) (hp : pad = 1 ∨ pad = 2 ∨ pad = 4) (t : TBlock) (hwf : t.WF v pad)
    (pre post : B) :
    Psd.TaggedBlock.dec v pad (pre ++ t.encT v pad ++ post) pre.length =
        .ok (some (t.flat v pad), pre.length + (t.encT v pad).length) ∧
      TBlock.dec v pad (pre ++ t.encT v pad ++ post) pre.length =
        .ok (some t.refresh, pre.length + (t.encT v pad).length) ∧
      t.refresh.flat v pad = t.flat v pad :=
  ⟨Psd.TaggedBlock.dec_at hp hwf.1 (At.intro pre _ post), TBlock.dec_at hp hwf (At.intro pre _ post),
    TBlock.flat_refresh v pad t⟩

/-- typed blocks on a nested stream: the loop stops when fewer than 8 bytes follow -/
theorem typed_tagged_blocks_roundtrip_nested (v pad : Nat) (hp : pad = 1 ∨ pad = 2 ∨ pad = 4) (ts : List TBlock)
    (hwf : tblocksWF v pad ts) (pre post : B) (hpost : post.length < 8) :
    tblocksDec v pad none (pre ++ tblocksT v pad ts ++ post) pre.length =
      .ok (ts.map TBlock.refresh, pre.length + (tblocksT v pad ts).length) := by
  apply tblocksDec_at hp hwf none (At.intro pre _ post) (by intro e he; cases he)
  unfold taggedCond
  rw [isReadable_false (by simp only [List.length_append]; omega)]
  rfl

/-! ### the whole file, with the nested structure -/

/-- a document whose layers live in Lr16/Lr32: reading what `PSD.write` emitted returns the document — header, resources,
the (empty) main layer info, the global mask info and the *typed* blocks with their nested records, masks and channel
data — as the writer left it -/
theorem psd_roundtrip_deep (pad : Nat) (x : DeepPSD) (hwf : x.WF pad) (bs : B) (henc : DeepPSD.enc pad x = .ok bs) :
    DeepPSD.read bs 0 = .ok (x.refresh, bs.length) := by
  obtain ⟨rfl, _, _⟩ := DeepPSD.enc_ok henc
  exact DeepPSD.read_encT hwf

theorem psd_roundtrip_deep_fresh (pad : Nat) (x : DeepPSD) (hwf : x.WF pad) (hfresh : x.refresh = x) (bs : B)
    (henc : DeepPSD.enc pad x = .ok bs) : DeepPSD.read bs 0 = .ok (x, bs.length) := by
  rw [psd_roundtrip_deep pad x hwf bs henc, hfresh]

theorem psd_rewrite_identical_deep (pad : Nat) (x : DeepPSD) (hwf : x.WF pad) (bs : B) (henc : DeepPSD.enc pad x = .ok bs)
    (x' : DeepPSD) (n : Nat) (hread : DeepPSD.read bs 0 = .ok (x', n)) : DeepPSD.enc pad x' = .ok bs := by
  rw [psd_roundtrip_deep pad x hwf bs henc] at hread
  cases hread
  rw [DeepPSD.enc_refresh, henc]

/-- the deep writer emits exactly what the skeleton writer emits for the bytes view, and the skeleton reader returns
the bytes view of what the deep reader returns: the deep theorem *extends* `C01.psd_roundtrip`, it does not replace it -/
theorem deep_refines_skeleton (pad : Nat) (x : DeepPSD) (hwf : x.WF pad) (bs : B) (henc : DeepPSD.enc pad x = .ok bs) :
    PSD.enc pad x.flat = .ok bs ∧ PSD.read bs 0 = .ok (x.refresh.flat, bs.length) := by
  obtain ⟨rfl, _, hw⟩ := DeepPSD.enc_ok henc
  have h1 : PSD.enc pad x.flat = .ok (x.encT pad) := by simp only [PSD.enc, hw, DeepPSD.encT]
  refine ⟨h1, ?_⟩
  rw [DeepPSD.flat_refresh]
  rw [PSD.enc_ok h1]
  exact PSD.read_encT hwf.1

theorem psd_enc_rejects_deep (pad : Nat) (x : DeepPSD) (e : Err) (h : DeepPSD.enc pad x = .error e) :
    e = .structError ∨ e = .indexError := by
  unfold DeepPSD.enc at h
  split at h
  · rename_i e' he
    cases h
    unfold PSD.writeError at he
    split at he
    · cases he; exact Or.inl rfl
    · split at he
      · cases he; exact Or.inr rfl
      · split at he
        · cases he; exact Or.inl rfl
        · cases he
  · split at h
    · cases h
    · cases h; exact Or.inl rfl

/-! ### non-vacuity -/

/-- six records (two nested groups, a masked layer with mask parameters and real-mask fields, record-level tagged blocks)
inside an Lr16 block -/
theorem sample_block_wf : LayerInfoBlock.WF 2 Samples.nestedLayers ∧ LayerInfoBlock.WF 1 Samples.nestedStale := by
  decide +kernel

example : ∃ bs, LayerInfoBlock.enc 2 4 Samples.nestedLayers = .ok bs ∧
    LayerInfoBlock.dec 2 bs 0 = .ok (Samples.nestedLayers, LayerInfoBlock.bodyLen 2 Samples.nestedLayers) := by
  have hf : LayerInfoBlock.Fits 2 Samples.nestedLayers := by decide +kernel
  have henc : LayerInfoBlock.enc 2 4 Samples.nestedLayers = .ok (LayerInfoBlock.encT 2 4 Samples.nestedLayers) := if_pos hf
  refine ⟨_, henc, ?_⟩
  simpa using layer_info_block_roundtrip_fresh 2 4 _ sample_block_wf.1 (by decide +kernel) _ [] [] henc

/-- a 16-bit PSB: empty main layer info, global mask info, `Lr16` with the nested layers, a raw 8-byte-length block -/
theorem sample_deep_wf : DeepPSD.WF 4 Samples.deepDoc ∧ DeepPSD.WF 4 Samples.deepDocStale := by decide +kernel

example : ∃ bs, DeepPSD.enc 4 Samples.deepDoc = .ok bs ∧ bs.length = 832 ∧
    DeepPSD.read bs 0 = .ok (Samples.deepDoc, bs.length) := by
  have henc : DeepPSD.enc 4 Samples.deepDoc = .ok (Samples.deepDoc.encT 4) := by decide +kernel
  exact ⟨_, henc, by decide +kernel, psd_roundtrip_deep_fresh 4 _ sample_deep_wf.1 (by decide +kernel) _ henc⟩

/-- stale channel lengths: the document read back is the refreshed one, which is the fresh sample -/
example : Samples.deepDocStale.refresh = Samples.deepDoc ∧ Samples.deepDocStale.refresh ≠ Samples.deepDocStale := by
  decide +kernel

/-! ### the point excluded by the (F) clause -/

/-- `LayerInfoBlock()` (layer_count 0, records `None`, channel data `None`) is written as the count alone and re-read
with two empty lists: `_read_body` has no count-0 shortcut (known finding C01/none-vs-empty/layer-info-block-count0) -/
theorem layer_info_block_none_not_roundtrip :
    LayerInfoBlock.enc 1 4 Samples.blockNone = .ok [0, 0, 0, 0] ∧
      LayerInfoBlock.dec 1 [0, 0, 0, 0] 0 = .ok (⟨0, some [], some []⟩, 2) ∧
      (⟨0, some [], some []⟩ : LayerInfo) ≠ blockRefresh Samples.blockNone := by decide +kernel

/-! ### ties to the regenerated tables -/

/-- the keys registered for `LayerInfoBlock`, and both have an 8-byte length field in a PSB -/
theorem layer_info_keys_tied :
    Generated.Payload.layerInfoBlockKeys = Tables.layerInfoBlockKeys ∧
      (∀ k ∈ layerInfoKeys, k ∈ Psd.G.bigKeys ∧ k.length = 4) := by decide +kernel

/-- `LayerInfoBlock` is `LayerInfo` with `read = _read_body`, `write = _write_body` (no length prefix, no count-0
shortcut), and the three inherited bodies are the ones the model transliterates -/
theorem layer_info_block_source_tied :
    Generated.Payload.layerInfoBlockBases = Tables.layerInfoBlockBases ∧
      Generated.Payload.layerInfoBlockRead = Tables.layerInfoBlockRead ∧
      Generated.Payload.layerInfoBlockWrite = Tables.layerInfoBlockWrite ∧
      Generated.Payload.layerInfoBodies = Tables.layerInfoBodies := by decide +kernel

/-- how `TaggedBlock.read/write` call the payload: inner padding, keyword arguments -/
theorem tagged_block_payload_calls_tied :
    Generated.Payload.taggedBlockInnerPadding = Tables.taggedBlockInnerPadding ∧
      Generated.Payload.taggedBlockPayloadWrite = Tables.taggedBlockPayloadWrite ∧
      Generated.Payload.taggedBlockPayloadRead = Tables.taggedBlockPayloadRead := by decide +kernel

theorem unit1_calls_tied : Generated.Payload.unit1Calls = Tables.unit1Calls := by decide +kernel

end PsdVerif.C01Payload
