/-
C13 — viewport, no-op and grouping laws: the part about fill layers, vector masks, the vector stroke, overlay
effects, stroke effects and adjustment layers (`Model/CompositeFx.lean`; the theorems of `Props/C13.lean` are untouched
and, by `C11Fx.fx_model_extends_model`, are theorems about the new model on plain trees).

All statements are at one (arbitrary) pixel `(x, y)`, for every rational input.
-/
import PsdVerif.Lemmas.CompositeFxLaws

namespace PsdVerif.C13Fx
open PsdVerif PsdVerif.Composite

/-! ### colour and alpha stay in [0,1] -/

theorem result_in_unit_interval_fx (B : Mode → Color → Color → Color) (force : Bool) (V : Rect) (x y : Int)
    (color : Color) (alpha : Rat) (hc : ColorOk color) (ha : Unit01 alpha) (layers : List FxNode) (hl : fxListOk layers) :
    let r := compositeFxDoc B force V x y color alpha layers
    ColorOk r.1 ∧ Unit01 r.2.1 ∧ Unit01 r.2.2 := by
  intro r
  have h := applyFxList_inv B force V x y _ (inv_init hc ha false) layers hl
  exact ⟨fun ch => clip_unit _, h.sg, h.ag⟩

example : ColorOk white ∧ Unit01 (0 : Rat) ∧ fxListOk [] := ⟨white_ok, unit01_zero, trivial⟩

/-! ### no-op layers, with whatever effects they carry -/

/-- a hidden layer is a no-op, effects and all -/
theorem hidden_noop_fx (B : Mode → Color → Color → Color) (force : Bool) (V : Rect) (x y : Int) (cc : Bool) (st : PState)
    (n : FxNode) (h : n.props.visible = false) : applyFxNode B force V x y cc st n = st := by
  cases n <;> (simp only [FxNode.props] at h; unfold applyFxNode; simp [h])

/-- a layer whose box misses the viewport is a no-op, effects and all -/
theorem outside_viewport_noop_fx (B : Mode → Color → Color → Color) (force : Bool) (V : Rect) (x y : Int) (cc : Bool)
    (st : PState) (n : FxNode) (h : intersect V n.props.bbox = Rect.zero) : applyFxNode B force V x y cc st n = st := by
  cases n <;> (simp only [FxNode.props] at h; unfold applyFxNode; simp [h])

/-- an adjustment layer is a no-op -/
theorem adjustment_noop (B : Mode → Color → Color → Color) (force : Bool) (V : Rect) (x y : Int) (cc : Bool) (st : PState)
    (pr : Props) : applyFxNode B force V x y cc st (.adjustment pr) = st := by
  unfold applyFxNode; rfl

/-- **Zero opacity with effects.** A layer (pixel or fill layer or group; any clip run, vector stroke, vector mask, any number
of colour / pattern / gradient overlays and stroke effects) at opacity 0, not knocked out, leaves alpha and colour alone
(the accumulated shape may grow): the overlays are painted with the layer's `alpha`, which carries the layer opacity, and
the stroke effect's opacity is multiplied by the layer opacity (repaired: 8d9362f). -/
theorem zero_opacity_noop_fx (B : Mode → Color → Color → Color) (force : Bool) (V : Rect) (x y : Int) (cc : Bool)
    (st : PState) (hst : Inv st) (n : FxNode) (hn : fxNodeOk n) (hko : n.props.knockout = false) (hop : n.props.opacity = 0) :
    let r := applyFxNode B force V x y cc st n
    r.ag = st.ag ∧ r.a = st.a ∧ (st.a ≠ 0 → ∀ ch, r.c ch = st.c ch) := by
  intro r
  have hr : r = applyFxNode B force V x y cc st n := rfl
  cases n with
  | adjustment pr => rw [hr]; unfold applyFxNode; exact ⟨rfl, rfl, fun _ _ => rfl⟩
  | leaf pr fx src stroke clips =>
    obtain ⟨hp, hf, hsrc, _, hcl⟩ := hn
    simp only [FxNode.props] at hko hop
    rw [hr]
    unfold applyFxNode
    split; · exact ⟨rfl, rfl, fun _ _ => rfl⟩
    split; · exact ⟨rfl, rfl, fun _ _ => rfl⟩
    split; · exact ⟨rfl, rfl, fun _ _ => rfl⟩
    have hc0 := leafColor_ok force V x y pr fx hsrc
    have hs0 := leafShape_unit force V x y pr fx hsrc
    apply finishFx_zero_opacity B force V x y hst hp hf hko hop _ hs0.1 (le_refl _) hs0.2
    apply strokeObject_ok
    split
    · exact hc0
    · exact (applyFxClips_inv B force V x y _ (inv_init hc0 hs0 false) clips hcl).c
  | group pr fx pt children clips =>
    obtain ⟨hp, hf, hch, hcl⟩ := hn
    simp only [FxNode.props] at hko hop
    rw [hr]
    unfold applyFxNode
    split; · exact ⟨rfl, rfl, fun _ _ => rfl⟩
    split; · exact ⟨rfl, rfl, fun _ _ => rfl⟩
    split; · exact ⟨rfl, rfl, fun _ _ => rfl⟩
    have hcb : ColorOk (if pr.knockout then st.c0 else st.c) := by split; exact hst.c0; exact hst.c
    have hab : Unit01 (if pr.knockout then st.a0 else st.a) := by split; exact hst.a0; exact hst.a
    have hsub := applyFxList_inv B force (intersect V pr.bbox) x y _ (inv_init hcb hab (!pt)) children hch
    simp only
    by_cases hin : (intersect V pr.bbox).contains x y = true
    · simp only [hin, if_true]
      apply finishFx_zero_opacity B force V x y hst hp hf hko hop _ hsub.ag.1 hsub.ag_le hsub.sg.2
      split
      · exact fun ch => clip_unit _
      · exact (applyFxClips_inv B force V x y _ (inv_init (fun ch => clip_unit _) hsub.ag false) clips hcl).c
    · simp only [hin, Bool.false_eq_true, if_false]
      apply finishFx_zero_opacity B force V x y hst hp hf hko hop _ (le_refl _) (le_refl _) (by norm_num)
      split
      · exact white_ok
      · exact (applyFxClips_inv B force V x y _ (inv_init white_ok unit01_zero false) clips hcl).c

/-- the hypotheses are satisfiable: a white layer at opacity 0 with a black colour overlay -/
example : fxNodeOk (.leaf (plainProps 0) overlayFx whiteSrc none []) ∧ (plainProps 0).knockout = false ∧
    (plainProps 0).opacity = 0 := by
  refine ⟨⟨⟨unit01_zero, unit01_one, unit01_one, unit01_zero, unit01_one⟩, ⟨unit01_one, ?_, ?_⟩,
    ⟨white_ok, unit01_one, white_ok, unit01_zero⟩, trivial, trivial⟩, rfl, rfl⟩
  · intro e he
    simp only [overlayFx, List.mem_singleton] at he
    subst he
    exact ⟨black_ok, unit01_one, unit01_one⟩
  · intro s hs; simp [overlayFx, Fx.plain] at hs

/-- **The law fails for the variant in which the overlay's alpha omits the layer opacity** (`alpha *= shape_mask *
opacity_mask`, the layer opacity folded into the constant factor of the layer's own source only): a white layer at
opacity 0 with a black colour overlay, on an empty backdrop. The model as it stands: alpha 0. The variant: alpha 1, black. -/
theorem zero_opacity_overlay_needs_layer_opacity :
    (finishFx allNormalFx false unitRectFx 0 0 (PState.init white 0 false) (plainProps 0) overlayFx white 1 1).ag = 0 ∧
    (finishFxOpacityOmitted allNormalFx false unitRectFx 0 0 (PState.init white 0 false) (plainProps 0) overlayFx white 1 1).ag = 1 ∧
    (finishFxOpacityOmitted allNormalFx false unitRectFx 0 0 (PState.init white 0 false) (plainProps 0) overlayFx white 1 1).c 0 = 0 := by
  decide +kernel

/-- **The stroke effect needs the layer opacity as well** — before the repair (8d9362f) `_apply_stroke_effect` painted
with `shape · opacity_effect`, i.e. `applyStrokeFx` with layer opacity 1 whatever the layer's: a black stroke effect drawn
as 1 at the pixel on an empty backdrop gives alpha 1, black; with the layer's opacity 0 it gives alpha 0. -/
theorem zero_opacity_stroke_effect_needs_layer_opacity :
    (applyStrokeFx allNormalFx unitRectFx unitRectFx 0 0 1 (PState.init white 0 false) [constStroke]).ag = 1 ∧
    (applyStrokeFx allNormalFx unitRectFx unitRectFx 0 0 1 (PState.init white 0 false) [constStroke]).c 0 = 0 ∧
    (applyStrokeFx allNormalFx unitRectFx unitRectFx 0 0 0 (PState.init white 0 false) [constStroke]).ag = 0 := by
  decide +kernel

/-- **A fully transparent layer with overlay effects is a no-op.** A leaf whose object shape is 0 at the pixel (transparent
pixels, or the pixel outside its box), not knocked out, without stroke effects — whatever overlays it carries —
changes nothing observable: shape, alpha, and colour wherever alpha is not zero. -/
theorem transparent_noop_fx (B : Mode → Color → Color → Color) (force : Bool) (V : Rect) (x y : Int) (cc : Bool)
    (st : PState) (hst : Inv st) (pr : Props) (fx : Fx) (src : ObjSrc) (stroke : Option VStroke) (clips : List FxNode)
    (hn : fxNodeOk (.leaf pr fx src stroke clips)) (hz : leafShape force V x y pr fx src = 0) (hns : fx.strokeFx = []) :
    Sim (applyFxNode B force V x y cc st (.leaf pr fx src stroke clips)) st := by
  obtain ⟨hp, hf, hsrc, _, hcl⟩ := hn
  unfold applyFxNode
  split; · exact Sim.refl st
  split; · exact Sim.refl st
  split; · exact Sim.refl st
  rw [hz, finishFx_eq]
  have hc0 := leafColor_ok force V x y pr fx hsrc
  have hcol : ColorOk (strokeObject B V x y
      (if clips.isEmpty = true then leafColor force V x y pr fx src
        else (applyFxClips B force V x y (PState.init (leafColor force V x y pr fx src) 0 false) clips).c) 0 stroke) := by
    apply strokeObject_ok
    split
    · exact hc0
    · exact (applyFxClips_inv B force V x y _ (inv_init hc0 unit01_zero false) clips hcl).c
  apply applySrcs_zero_sim B hst
  · intro s hs
    rcases List.mem_cons.1 hs with rfl | h
    · exact ownSrc_ok force hp hf V x y hcol (le_refl _) (le_refl _) (by norm_num)
    · exact fxSrcs_ok force hp hf V x y (le_refl _) (le_refl _) (by norm_num) s h
  · intro s hs
    rcases List.mem_cons.1 hs with rfl | h
    · simp [ownSrc, maskedShape, maskedAlpha]
    · unfold fxSrcs at h
      rw [hns] at h
      simp only [List.map_nil, List.append_nil] at h
      obtain ⟨e, _, rfl⟩ := List.mem_map.1 h
      simp [overlaySrc, maskedShape, maskedAlpha]

/-- a layer with transparent pixels and a black colour overlay -/
example : leafShape false unitRectFx 0 0 (plainProps 1) overlayFx { whiteSrc with pixShape := 0 } = 0 := by
  decide +kernel

/-- … and a fully transparent layer WITH a stroke effect is not a no-op when the effect draws something there
(on the real code `draw_stroke_effect` normalises an all-zero edge map by `0/0 → 1`). -/
theorem transparent_stroke_effect_paints :
    (applyFxNode allNormalFx false unitRectFx 0 0 false (PState.init white 0 false)
      (.leaf (plainProps 1) (strokeFxOnly constStroke) { whiteSrc with pixShape := 0 } none [])).ag = 1 := by
  decide +kernel

/-! ### sub-viewport = crop -/

/-- **Sub-viewport = crop, with effects.** For any two viewports containing the pixel, any backdrop, either value of
`force` and any well-formed effect-carrying stack — fill layers, vector masks, vector strokes, overlay effects on layers and
groups, adjustment layers — in which what is drawn for the stroke effects does not depend on the viewport
(`fxListConst`; in particular: no stroke effects): the composited shape and alpha at the pixel are equal, and so is the
colour wherever the alpha is not zero. -/
theorem viewport_is_crop_fx (B : Mode → Color → Color → Color) (force : Bool) (V' V : Rect) (x y : Int)
    (h' : V'.contains x y = true) (h : V.contains x y = true) (color : Color) (alpha : Rat)
    (hc : ColorOk color) (ha : Unit01 alpha) (layers : List FxNode) (hl : fxListOk layers) (hk : fxListConst layers) :
    let r' := compositeFxDoc B force V' x y color alpha layers
    let r := compositeFxDoc B force V x y color alpha layers
    r'.2.1 = r.2.1 ∧ r'.2.2 = r.2.2 ∧ (r.2.2 ≠ 0 → r'.1 = r.1) := by
  intro r' r
  have i := inv_init hc ha false
  have hs := applyFxList_sim B force V' V x y h' h _ _ (Sim.refl _) i i layers hl hk
  have it := applyFxList_inv B force V x y _ i layers hl
  exact ⟨hs.sg, hs.ag, fun hne => finishColor_sim hs it hne⟩

/-- the hypotheses are satisfiable: a layer with a colour overlay and no stroke effect, seen from two viewports -/
example : unitRectFx.contains 0 0 = true ∧ (⟨0, 0, 2, 2⟩ : Rect).contains 0 0 = true ∧
    fxListConst [.leaf (plainProps 1) overlayFx whiteSrc none []] :=
  ⟨by decide, by decide, ⟨fun s hs => by simp [overlayFx, Fx.plain] at hs, trivial⟩, trivial⟩

/-- **The full statement fails with a stroke effect whose drawing depends on the viewport** — which is what
`_apply_stroke_effect` does on the real code (it draws from `paste(layer.bbox, self._viewport, shape)`, the shape as
cropped to the viewport: known finding `C13/viewport/fixture-layer/stroke-effect`). A layer whose stroke effect is drawn
as 1 at the pixel in the viewport `(0,0,1,1)` and as 0 in `(0,0,2,2)`: alpha 1 in the one, 0 in the other. Every other
hypothesis of `viewport_is_crop_fx` holds. -/
theorem viewport_stroke_effect_differs :
    unitRectFx.contains 0 0 = true ∧ (⟨0, 0, 2, 2⟩ : Rect).contains 0 0 = true ∧
    (compositeFxDoc allNormalFx false unitRectFx 0 0 white 0
      [.leaf (plainProps 1) (strokeFxOnly viewportStroke) { whiteSrc with pixShape := 0 } none []]).2.2 = 1 ∧
    (compositeFxDoc allNormalFx false ⟨0, 0, 2, 2⟩ 0 0 white 0
      [.leaf (plainProps 1) (strokeFxOnly viewportStroke) { whiteSrc with pixShape := 0 } none []]).2.2 = 0 := by
  refine ⟨by decide, by decide, ?_, ?_⟩ <;> decide +kernel

/-! ### inserting a no-op layer anywhere -/

/-- **Inserting a no-op layer anywhere in an effect-carrying stack changes nothing observable**: if the layer leaves the
state it meets indistinguishable (hidden: `hidden_noop_fx`; outside: `outside_viewport_noop_fx`; an adjustment layer:
`adjustment_noop`; not covering the pixel: `outside_pixel_is_noop_fx`; transparent there: `transparent_noop_fx`), the whole
stack composites to the same shape, alpha and colour (where alpha ≠ 0), whatever comes before and after it. -/
theorem noop_insert_fx (B : Mode → Color → Color → Color) (force : Bool) (V : Rect) (x y : Int) (hV : V.contains x y = true)
    (st : PState) (hst : Composite.Inv st) (pre post : List FxNode) (n : FxNode)
    (hpre : fxListOk pre) (hn : fxNodeOk n) (hpost : fxListOk post) (hk : fxListConst post)
    (hnoop : ∀ s, Composite.Inv s → Sim (applyFxNode B force V x y false s n) s) :
    Sim (applyFxList B force V x y st (pre ++ n :: post)) (applyFxList B force V x y st (pre ++ post)) := by
  rw [applyFxList_append, applyFxList_append]
  have ip := applyFxList_inv B force V x y st hst pre hpre
  have e : applyFxList B force V x y (applyFxList B force V x y st pre) (n :: post)
      = applyFxList B force V x y (applyFxNode B force V x y false (applyFxList B force V x y st pre) n) post := by
    simp only [applyFxList]
  rw [e]
  exact applyFxList_sim B force V V x y hV hV _ _ (hnoop _ ip) (applyFxNode_inv B force V x y false _ ip n hn) ip post hpost hk

/-- a layer whose box does not cover the pixel is such a no-op, whatever effects it carries (stroke effects included:
they are pasted at the layer's box) -/
theorem outside_pixel_is_noop_fx (B : Mode → Color → Color → Color) (force : Bool) (V : Rect) (x y : Int)
    (hV : V.contains x y = true) (n : FxNode) (hn : fxNodeOk n) (hout : n.props.bbox.contains x y = false) :
    ∀ s, Composite.Inv s → Sim (applyFxNode B force V x y false s n) s :=
  fun s hs => applyFxNode_outside_sim B force V x y hV false s hs n hn hout

example : (plainProps 1).bbox.contains 5 5 = false := by decide

end PsdVerif.C13Fx
