/-
C03, payload interiors — every length and count field *inside* the payloads the library writes is truthful, against an
independent reading of the published layouts.

`Model/WalkerPayload.lean` holds the specification walkers (written from the Adobe text; deviations D1..D8 recorded in its
header): they read a length or a count, visit exactly that much, and must land where the enclosing length says. The writers
are the `PCodec` models of C01 (tied to psd-tools by the C01 correspondence), imported, not modified.

* `payload_walker_accepts_*`: for every well-formed value of the class, the walker accepts exactly the bytes the class's
  writer emits (`PCodec.enc`), wherever they lie (`Walks`) / as a whole payload (`runOn`, up to the recorded filler), and
  the regions it reports are the expected spans, each delimiting the encoding of the sub-value listed beside it.
  Families: unicode strings, Pascal strings, descriptor keys, the descriptor structure with all 25 OSType classes (mutual
  induction), `DescriptorBlock` / `DescriptorBlock2` payloads, the effects layer, the unicode-string block (`luni`).
* `payload_lengths_truthful_*`: each inner length / count field, read as a big-endian number, is the byte length / item count
  of the encoding of the sub-value it announces.
* `typed_block_payload_walks_*` and `lengths_truthful_typed`: the lift to typed documents (Model/TypedDoc.lean): the skeleton
  walker's regions on the bytes of a typed document delimit the encodings of the sub-values of its bytes view, and the payload
  the skeleton leaves opaque - `(t.flat …).data`, the bytes between a tagged block's length field and its filler - is
  accepted by the payload walker of the block's key, for blocks at every `Lr16` / `Lr32` nesting level (`n` is arbitrary).
* `*_rejected`: plausible slips of a writer, each rejected by the walker (`decide`): a unicode count in characters instead of
  UTF-16 code units (astral character), a Pascal length clamped while all the data is written, a 4-byte length where the
  layout has 8, a count that includes a trailer.
* `*_tied`: the keys the walkers dispatch on against the regenerated registry `tagged_blocks.TYPES`.

Not proved here (correspondence and search only: `harness/c03_payload.py` drives the same walkers over every fixture and
over everything the library writes): patterns / virtual memory arrays, linked layers, filter effects, paths, slices, type
tool, placed layers, metadata, and the recursion of `walkDeep` through `Lr16` / `Lr32`.
-/
import PsdVerif.Lemmas.WalkerPayload3
import PsdVerif.Props.C03Pixels
import PsdVerif.Props.C01Typed

namespace PsdVerif.C03
open PsdVerif PsdVerif.Codec PsdVerif.Walker PsdVerif.WalkerPayload PsdVerif.Payload PsdVerif.Payload.PCodec

/-! ## 1. the walkers accept what the writers emit -/

/-- **unicode string** (`write_unicode_string`, padding 1): the walker reads the count, steps over two bytes per UTF-16 code
unit and lands on the end of the string; one region, delimiting the string -/
theorem payload_walker_accepts_unicode_string (s : Descriptor.Str) (hf : Descriptor.StrFits s) :
    Walks pUStr (Descriptor.strT s) (strSpans s) := walks_str s hf

/-- **Pascal string** (`write_pascal_string`, any padding) -/
theorem payload_walker_accepts_pascal_string (pad : Nat) (s : B) (hf : s.length < 256) :
    Walks (pPascal pad) (pascalT pad s) (fun p => [⟨⟨p, (pascalT pad s).length, "pascal-string"⟩, pascalT pad s⟩]) :=
  walks_pascal pad s hf

/-- **descriptor key / class id** (`write_length_and_key`) -/
theorem payload_walker_accepts_descriptor_key (tb : Descriptor.Tables) (k : Descriptor.Key) (hwf : Descriptor.KeyWF tb k)
    (hf : Descriptor.KeyFits tb k) : Walks pKey (Descriptor.keyT tb k) (keySpans tb k) := walks_key' tb k hwf hf

/-- **every descriptor class** (the 25 classes of `descriptor.TYPES`): what `v.write` emits is walked, by the layout the
specification gives the OSType of `v`, exactly to its end - nested lists, references, descriptors, global objects and object
arrays to any depth; the regions are `valSpans tb v` (the value, then every string, key, raw block and nested value) -/
theorem payload_walker_accepts_descriptor_value (tb : Descriptor.Tables) (v : Descriptor.DVal) (hwf : Descriptor.WF tb v)
    (bs : B) (henc : Descriptor.enc tb v = .ok bs) (fuel : Nat) (hfuel : bs.length + 1 ≤ fuel) :
    Walks (pVal fuel (shapeOfTag v.tag)) bs (valSpans tb v) ∧ shapeOf v.tag.bytes = some (shapeOfTag v.tag) := by
  obtain ⟨hf, rfl⟩ := Descriptor.enc_ok henc
  exact ⟨walks_val tb v fuel hwf hf (Nat.le_trans (Descriptor.need_le tb v) hfuel), shapeOf_bytes v.tag⟩

/-- **`DescriptorBlock` as a payload** (`SoCo`, `GdFl`, `vstk`, `artb`, image resources 1065…, any padding up to 4): the whole
payload is accepted, filler included, and the regions delimit the sub-encodings -/
theorem payload_walker_accepts_descriptor_block (tb : Descriptor.Tables) (pad : Nat) (hp : 0 < pad ∧ pad ≤ 4)
    (b : Descriptor.Block) (hwf : (Payload3.DescriptorPayload.codec tb pad).WF b) (bs : B)
    (henc : (Payload3.DescriptorPayload.codec tb pad).enc b = .ok bs) :
    runOn pDescBlock 3 bs = .ok (regionsOf (blockSpans tb b 0)) ∧ ∀ s ∈ blockSpans tb b 0, Delimits bs s.region s.bytes := by
  obtain ⟨hf, rfl⟩ := enc_ok henc
  have h := runOn_of_walks (walks_descBlock tb b hwf hf) (zeros (padAmount (b.bodyLen tb) pad)) (slack := 3)
    (filler_le _ pad hp.1 hp.2)
  rw [← Block.encT_split] at h
  exact ⟨h.1, fun s hs => delimits_of_holds (h.2 s hs)⟩

/-- **`DescriptorBlock2` as a payload** (`lfx2`, `lmfx`, `lfxs`, `vogk`) -/
theorem payload_walker_accepts_descriptor_block2 (tb : Descriptor.Tables) (pad : Nat) (hp : 0 < pad ∧ pad ≤ 4)
    (b : Descriptor.Block2) (hwf : (Payload3.Descriptor2Payload.codec tb pad).WF b) (bs : B)
    (henc : (Payload3.Descriptor2Payload.codec tb pad).enc b = .ok bs) :
    runOn pDescBlock2 3 bs = .ok (regionsOf (block2Spans tb b 0)) ∧ ∀ s ∈ block2Spans tb b 0, Delimits bs s.region s.bytes := by
  obtain ⟨hf, rfl⟩ := enc_ok henc
  have h := runOn_of_walks (walks_descBlock2 tb b hwf hf) (zeros (padAmount (b.bodyLen tb) pad)) (slack := 3)
    (filler_le _ pad hp.1 hp.2)
  rw [← Block2.encT_split] at h
  exact ⟨h.1, fun s hs => delimits_of_holds (h.2 s hs)⟩

/-- **effects layer** (`lrFX`): version, count, then exactly `count` effects, each `8BIM`, key, size, `size` bytes; the filler
to a multiple of 4 is inside the slack -/
theorem payload_walker_accepts_effects_layer (x : EffectsLayer) (bs : B) (henc : EffectsLayer.codec.enc x = .ok bs) :
    runOn pEffects 3 bs = .ok (regionsOf (effectsSpans x 0)) ∧ ∀ s ∈ effectsSpans x 0, Delimits bs s.region s.bytes := by
  obtain ⟨hf, rfl⟩ := enc_ok henc
  have h := runOn_of_walks (walks_effects x hf) (zeros (padAmount x.bodyT.length 4)) (slack := 3)
    (filler_le _ 4 (by decide) (by decide))
  exact ⟨h.1, fun s hs => delimits_of_holds (h.2 s hs)⟩

/-- **unicode-string block** (`luni`, image resources 1086 / 1087 / 1051), written with filler to a multiple of `pw ≤ 4` -/
theorem payload_walker_accepts_string_element (pw pr : Nat) (hp : 0 < pw ∧ pw ≤ 4) (s : Payload.Str)
    (hwf : (StringElement.codec pw pr).WF s) (bs : B) (henc : (StringElement.codec pw pr).enc s = .ok bs) :
    runOn pUStr 3 bs = .ok (regionsOf (strSpans s 0)) ∧ ∀ x ∈ strSpans s 0, Delimits bs x.region x.bytes := by
  obtain ⟨hf, rfl⟩ := enc_ok henc
  have h := runOn_of_walks (walks_str s ⟨hwf.1, hf⟩) (zeros (padAmount (Descriptor.strT s).length pw)) (slack := 3)
    (filler_le _ pw hp.1 hp.2)
  exact ⟨h.1, fun x hx => delimits_of_holds (h.2 x hx)⟩

/-! ## 2. each inner length / count is the size / number of what it announces -/

/-- unicode string: the count field is the number of UTF-16 code units, and two bytes follow per unit -/
theorem payload_lengths_truthful_unicode_string (s : Descriptor.Str) (hf : Descriptor.StrFits s) :
    Descriptor.strT s = beBytes 4 (Unicode.encUnits s).length ++ Unicode.bytesOfUnits (Unicode.encUnits s) ∧
      beVal (beBytes 4 (Unicode.encUnits s).length) = (Unicode.encUnits s).length ∧
      (Unicode.bytesOfUnits (Unicode.encUnits s)).length = 2 * (Unicode.encUnits s).length :=
  ⟨by rw [Descriptor.strT, be32_eq_beBytes hf.2], beVal_beBytes 4 _ (by simpa using hf.2), Unicode.bytesOfUnits_length _⟩

/-- descriptor key: the length field is the number of key bytes that follow, or 0 for a 4-byte id -/
theorem payload_lengths_truthful_descriptor_key (tb : Descriptor.Tables) (k : Descriptor.Key) (hwf : Descriptor.KeyWF tb k)
    (hf : Descriptor.KeyFits tb k) :
    Descriptor.keyT tb k = beBytes 4 (Descriptor.keyLen tb k) ++ k.bytes ∧
      beVal (beBytes 4 (Descriptor.keyLen tb k)) = Descriptor.keyLen tb k ∧
      (Descriptor.keyLen tb k = k.bytes.length ∨ (Descriptor.keyLen tb k = 0 ∧ k.bytes.length = 4)) := by
  refine ⟨by rw [Descriptor.keyT, beBytes4_eq_u32be], beVal_beBytes 4 _ (by unfold Descriptor.KeyFits at hf; simpa using hf), ?_⟩
  obtain ⟨h1, h2, _⟩ := hwf
  unfold Descriptor.keyLen
  cases ht : tb.terms k.bytes <;> cases hi : k.implicit <;> simp only [Bool.or_self, Bool.or_true, Bool.true_or,
    Bool.false_eq_true, if_false, if_true]
  · exact Or.inl trivial
  · exact Or.inr ⟨trivial, (h1 hi).1⟩
  · exact Or.inr ⟨trivial, h2 ht⟩
  · exact Or.inr ⟨trivial, h2 ht⟩

/-- descriptor structure: name, class id, then the item count - the number of (key, OSType, value) items that follow -/
theorem payload_lengths_truthful_descriptor_structure (tb : Descriptor.Tables) (nm : Descriptor.Str) (cid : Descriptor.Key)
    (items : Descriptor.Items) (hlen : items.length < 4294967296) :
    Descriptor.bodyT tb nm cid items =
        Descriptor.strT nm ++ (Descriptor.keyT tb cid ++ (beBytes 4 items.length ++ Descriptor.encItemsT tb items)) ∧
      beVal (beBytes 4 items.length) = items.length :=
  ⟨rfl, beVal_beBytes 4 _ (by simpa using hlen)⟩

/-- list / reference: the count is the number of (OSType, value) items; raw data / alias / path: the length is the size of
the data; unit floats: the count is the number of doubles -/
theorem payload_lengths_truthful_descriptor_containers (tb : Descriptor.Tables) :
    (∀ t items, Descriptor.Fits tb (.list t items) →
      Descriptor.encT tb (.list t items) = beBytes 4 items.length ++ Descriptor.encListT tb items ∧
        beVal (beBytes 4 items.length) = items.length) ∧
    (∀ t data, Descriptor.Fits tb (.raw t data) →
      Descriptor.encT tb (.raw t data) = beBytes 4 data.length ++ data ∧ beVal (beBytes 4 data.length) = data.length) ∧
    (∀ u vs, Descriptor.Fits tb (.unitFloats u vs) →
      Descriptor.encT tb (.unitFloats u vs) = Descriptor.unitT u ++ (beBytes 4 vs.length ++ listT Descriptor.f64T vs) ∧
        beVal (beBytes 4 vs.length) = vs.length ∧ (listT Descriptor.f64T vs).length = 8 * vs.length) := by
  refine ⟨fun t items hf => ?_, fun t data hf => ?_, fun u vs hf => ?_⟩
  · simp only [Descriptor.Fits] at hf
    exact ⟨by simp only [Descriptor.encT], beVal_beBytes 4 _ (by simpa using hf.1)⟩
  · simp only [Descriptor.Fits] at hf
    exact ⟨by simp only [Descriptor.encT, lenBlockT_simple], beVal_beBytes 4 _ (by simpa using hf)⟩
  · simp only [Descriptor.Fits] at hf
    exact ⟨by simp only [Descriptor.encT], beVal_beBytes 4 _ (by simpa using hf.1), length_listT_f64T vs⟩

/-- effects layer: the count is the number of effects; each effect's size field is the size of its encoding; the count the
writer returns is the number of bytes emitted (C01's `Count` law) -/
theorem payload_lengths_truthful_effects_layer (x : EffectsLayer) (hf : x.Fits) :
    x.bodyT = beBytes 2 x.version ++ (beBytes 2 x.items.length ++ listT EffectsLayer.itemT x.items) ∧
      beVal (beBytes 2 x.items.length) = x.items.length ∧
      (∀ kv ∈ x.items, EffectsLayer.itemT kv = sig8BIM ++ (pack4s kv.1 ++ (beBytes 4 kv.2.encT.length ++ kv.2.encT)) ∧
        beVal (beBytes 4 kv.2.encT.length) = kv.2.encT.length) ∧
      (EffectsLayer.codec.encP x).2 = (EffectsLayer.codec.encT x).length := by
  obtain ⟨_, fc, fi⟩ := hf
  refine ⟨by simp only [EffectsLayer.bodyT, List.append_assoc], beVal_beBytes 2 _ fc, fun kv hkv => ?_, ?_⟩
  · exact ⟨by simp only [EffectsLayer.itemT, lenBlockT_simple, List.append_assoc], beVal_beBytes 4 _ (fi kv hkv).2⟩
  · rw [EffectsLayer.count x]

/-! ## 3. typed documents -/

section Typed
open PsdVerif.Typed PsdVerif.Psd

/-- the payload walker of a key whose payload is a `DescriptorBlock` accepts the payload bytes of the typed block - the bytes
the skeleton walker leaves opaque - at every nesting level `n`, in a layer record (`pad = 1`) or at document level (`pad = 4`) -/
theorem typed_block_payload_walks_descriptor (tb : Descriptor.Tables) (n ver pad : Nat) (hp : pad = 1 ∨ pad = 4)
    (t : Blk (PayN n)) (b : Descriptor.Block) (hd : t.data = .cls .descriptorBlock b) (hk : t.key ∈ Keys.descriptorKeys)
    (hwf : t.WF (kitN tb n) ver pad) :
    (t.flat (kitN tb n) ver pad).data = b.encT tb (innerPad pad) ∧
      walkBlockPayload ver t.key (t.flat (kitN tb n) ver pad).data = .ok (regionsOf (blockSpans tb b 0)) ∧
      ∀ s ∈ blockSpans tb b 0, Delimits (t.flat (kitN tb n) ver pad).data s.region s.bytes := by
  obtain ⟨_, hfit, hpay⟩ := hwf
  have hdata : (t.flat (kitN tb n) ver pad).data = b.encT tb (innerPad pad) := by
    simp only [Blk.flat, kitN, payKit, hd, Pay.encT, TClass.codec, Payload3.DescriptorPayload.codec]
  rw [hd] at hfit hpay
  have hpad : 0 < innerPad pad ∧ innerPad pad ≤ 4 := by rcases hp with rfl | rfl <;> decide
  have hw : blockWalker ver t.key = some pDescBlock := by simp only [blockWalker, if_pos hk]
  have hs : blockSlack t.key = 3 := (by decide : ∀ k ∈ Keys.descriptorKeys, blockSlack k = 3) _ hk
  have h := payload_walker_accepts_descriptor_block tb (innerPad pad) hpad b hpay.2 (b.encT tb (innerPad pad))
    (by have hfit' : Descriptor.Block.Fits tb b := hfit
        simp only [PCodec.enc, Payload3.DescriptorPayload.codec]; exact if_pos hfit')
  refine ⟨hdata, ?_, ?_⟩
  · rw [hdata]; simp only [walkBlockPayload, hw, hs, h.1]
  · rw [hdata]; exact h.2

/-- the same for the effects layer (`lrFX`) -/
theorem typed_block_payload_walks_effects (tb : Descriptor.Tables) (n ver pad : Nat)
    (t : Blk (PayN n)) (x : EffectsLayer) (hd : t.data = .cls .effectsLayer x) (hk : t.key = Keys.lrFX)
    (hwf : t.WF (kitN tb n) ver pad) :
    (t.flat (kitN tb n) ver pad).data = x.encT ∧
      walkBlockPayload ver t.key (t.flat (kitN tb n) ver pad).data = .ok (regionsOf (effectsSpans x 0)) ∧
      ∀ s ∈ effectsSpans x 0, Delimits (t.flat (kitN tb n) ver pad).data s.region s.bytes := by
  obtain ⟨_, hfit, _⟩ := hwf
  have hdata : (t.flat (kitN tb n) ver pad).data = x.encT := by
    simp only [Blk.flat, kitN, payKit, hd, Pay.encT, TClass.codec, EffectsLayer.codec]
  rw [hd] at hfit
  have hw : blockWalker ver t.key = some pEffects := by
    rw [hk]; unfold blockWalker
    rw [if_neg (by decide), if_neg (by decide), if_neg (by decide), if_pos rfl]
  have hs : blockSlack t.key = 3 := by rw [hk]; decide
  have h := payload_walker_accepts_effects_layer x x.encT
    (by have hfit' : x.Fits := hfit
        simp only [PCodec.enc, EffectsLayer.codec]; exact if_pos hfit')
  refine ⟨hdata, ?_, ?_⟩
  · rw [hdata]; simp only [walkBlockPayload, hw, hs, h.1]
  · rw [hdata]; exact h.2

/-- **lengths_truthful_typed.** A typed document (image resources, document-level blocks and per-layer blocks as objects of
their registered classes, through any `Lr16` / `Lr32` nesting): the skeleton walker visits the bytes `PSD.write` emits to
their end, reports exactly the regions of `fileSpans` of the bytes view, and each delimits the encoding of its sub-value -
where the encoding of a tagged block is signature, key, length, *the encoding of the typed payload*, filler
(`Blk.flat`; `C03Pixels.prefix_tagged_block` locates the payload inside the region). The payload itself is then walked by
`typed_block_payload_walks_*` (level-generic: `n` there is arbitrary, so blocks nested in `Lr16` / `Lr32` payloads are
covered; the nested layer info is the skeleton's `walkRecords` / `walkChannels` again, `pLayerInfoBody`). -/
theorem lengths_truthful_typed (tb : Descriptor.Tables) (n pad : Nat) (hp : pad = 1 ∨ pad = 2 ∨ pad = 4) (x : TPSDN n)
    (hwf : x.WF tb (kitBelow tb n) pad) (hskel : (x.flat tb (kitBelow tb n)).WF pad)
    (hshape : SpecShaped (x.flat tb (kitBelow tb n))) (bs : B) (henc : TPSD.enc tb (kitBelow tb n) pad x = .ok bs) :
    ∃ L, walk bs = .ok L ∧ L.stop = bs.length ∧
      L.regions = (fileSpans pad (x.flat tb (kitBelow tb n))).map Span.region ∧
      (∀ s ∈ fileSpans pad (x.flat tb (kitBelow tb n)), Delimits bs s.region s.bytes) ∧
      PSD.read bs 0 = .ok ((x.flat tb (kitBelow tb n)).refresh, bs.length) := by
  obtain ⟨h1, h2⟩ := C01Typed.typed_refines_skeleton tb n pad x hwf bs henc
  obtain ⟨L, a, b, c, d⟩ := C03Pixels.lengths_truthful pad hp _ hskel hshape bs h1
  exact ⟨L, a, b, c, d, h2⟩

end Typed

/-! ## 4. plausible slips, rejected -/

/-- a unicode count in *characters* where the format counts UTF-16 code units: U+1F600 written as one character with its two
code units - the walker stops two bytes short of the declared end; with the count 2 it is accepted -/
theorem astral_count_in_characters_rejected :
    (runOn pUStr 0 [0, 0, 0, 1, 0xD8, 0x3D, 0xDE, 0x00]).toOption = none ∧
      (runOn pUStr 0 [0, 0, 0, 2, 0xD8, 0x3D, 0xDE, 0x00]).toOption = some [⟨0, 8, "unicode-string"⟩] := by decide

/-- a Pascal length clamped to 255 while all 300 bytes of the data are written (resource 1006, alpha names) -/
theorem pascal_clamped_length_rejected :
    (walkResourcePayload 1006 (255 :: List.replicate 300 65)).toOption = none ∧
      (walkResourcePayload 1006 (255 :: List.replicate 255 65)).toOption = some [⟨0, 256, "pascal-string"⟩] := by
  decide +kernel

/-- a 4-byte length where the layout has an 8-byte one (a linked layer entry in `lnk2`) -/
theorem four_byte_length_for_eight_rejected :
    (walkBlockPayload 2 [108, 110, 107, 50] ([0, 0, 0, 8] ++ [108, 105, 70, 65, 0, 0, 0, 1])).toOption = none := by
  decide +kernel

/-- a count that includes a trailer: an effects layer announcing 2 effects and holding one (plus filler) -/
theorem count_including_trailer_rejected :
    (walkBlockPayload 1 Keys.lrFX ([0, 0, 0, 2] ++ FX.sig ++ FX.cmnS ++ [0, 0, 0, 7, 0, 0, 0, 0, 1, 0, 0] ++ [0])).toOption = none ∧
      (walkBlockPayload 1 Keys.lrFX ([0, 0, 0, 1] ++ FX.sig ++ FX.cmnS ++ [0, 0, 0, 7, 0, 0, 0, 0, 1, 0, 0] ++ [0])).toOption =
        some [⟨4, 19, "effect"⟩] := by decide +kernel

/-- a descriptor whose item count is one more than the items written -/
theorem descriptor_count_off_by_one_rejected :
    (runOn pDescBlock 3 ([0, 0, 0, 16] ++ [0, 0, 0, 0] ++ [0, 0, 0, 0, 110, 117, 108, 108] ++ [0, 0, 0, 2] ++
      [0, 0, 0, 0, 79, 112, 99, 116, 98, 111, 111, 108, 1])).toOption = none ∧
    ((runOn pDescBlock 3 ([0, 0, 0, 16] ++ [0, 0, 0, 0] ++ [0, 0, 0, 0, 110, 117, 108, 108] ++ [0, 0, 0, 1] ++
      [0, 0, 0, 0, 79, 112, 99, 116, 98, 111, 111, 108, 1])).toOption.map List.length) = some 5 := by decide +kernel

/-! ## 5. non-vacuity: the hypotheses are satisfiable, the walkers are run inside Lean -/

example : Descriptor.StrFits [0x1F600, 65] ∧ Descriptor.strT [0x1F600, 65] = [0, 0, 0, 3, 0xD8, 0x3D, 0xDE, 0x00, 0, 65] := by decide

/-- the C01 sample descriptor (three levels of nesting, every reference form): well-formed, writable, and walked -/
example : Descriptor.WF Typed.Samples.rtb Descriptor.Samples.reference ∧ Descriptor.Fits Typed.Samples.rtb Descriptor.Samples.reference ∧
    ((pVal 200 .list (Descriptor.encT Typed.Samples.rtb Descriptor.Samples.reference) 0).toOption.map (fun r => r.2)) =
      some (Descriptor.encT Typed.Samples.rtb Descriptor.Samples.reference).length := by decide +kernel

/-! ## 6. ties: the keys the walkers dispatch on against the regenerated registry -/

/-- the keys `tagged_blocks.TYPES` gives a `DescriptorBlock` / `DescriptorBlock2` / `EffectsLayer` / `LayerInfoBlock` /
`Patterns` / `LinkedLayers` payload are keys the walkers dispatch to the walker of that layout -/
theorem walker_keys_tied :
    (∀ r ∈ Generated.TypedDoc.taggedRegistry, r.2 = "DescriptorBlock" → r.1 ∈ Keys.descriptorKeys) ∧
    (∀ r ∈ Generated.TypedDoc.taggedRegistry, r.2 = "DescriptorBlock2" → r.1 ∈ Keys.descriptor2Keys) ∧
    (∀ r ∈ Generated.TypedDoc.taggedRegistry, r.2 = "EffectsLayer" → r.1 = Keys.lrFX) ∧
    (∀ r ∈ Generated.TypedDoc.taggedRegistry, r.2 = "LayerInfoBlock" → r.1 ∈ Keys.layerInfoKeys) ∧
    (∀ r ∈ Generated.TypedDoc.taggedRegistry, r.2 = "Patterns" → r.1 ∈ Keys.patternKeys) ∧
    (∀ r ∈ Generated.TypedDoc.taggedRegistry, r.2 = "LinkedLayers" → r.1 ∈ Keys.linkedKeys) ∧
    (∀ r ∈ Generated.TypedDoc.taggedRegistry, r.2 = "VectorMaskSetting" → r.1 ∈ Keys.vectorMaskKeys) ∧
    (∀ r ∈ Generated.TypedDoc.taggedRegistry, r.2 = "StringElement" → r.1 = Keys.luni) := by decide +kernel

/-- every class of the registry whose payload has interior lengths or counts has a walker under each of its keys -/
theorem walker_coverage_tied :
    ∀ r ∈ Generated.TypedDoc.taggedRegistry,
      r.2 ∈ ["DescriptorBlock", "DescriptorBlock2", "EffectsLayer", "LayerInfoBlock", "Patterns", "LinkedLayers",
             "VectorMaskSetting", "StringElement", "TypeToolObjectSetting", "SmartObjectLayerData", "PlacedLayerData",
             "MetadataSettings", "VectorStrokeContentSetting", "ColorLookup"] →
      (blockWalker 2 r.1).isSome = true := by decide +kernel

end PsdVerif.C03
