/-
C16 — attribute edits are observable at once and persist.

Model: `Model/Attr.lean` (the accessors of api/layers.py as repaired by the commits listed in
findings.d/C16.json). `E : Env` carries the `BlendMode` table and the string codecs; the
theorems hold for every `E` with `EnvLaws E`, and `generated_env_laws` instantiates them with the
tables regenerated from the source on every run.

Hypotheses that recur:
* `WF l`       — a group layer carries a section divider block (how `_init`/`Group.new` make groups);
* `valid E a v` — the value is in the property's domain (names ≤ 255 code points, every `BlendMode`
                  member, opacity 0..255, int32 offsets, 32-bit lock flags);
* `set … = .ok l'` — the edit was accepted (position edits of groups, artboards and shapes are
                  refused by the code: `set_position_refused`);
* `Saveable E l` — the state is one the record reader produces (everything in range);
* `storable …`  — the unicode codec takes the name / the moved rectangle stays inside int32.
-/
import PsdVerif.Model.Attr
import PsdVerif.Generated.Attr
import PsdVerif.Lemmas.Attr
import PsdVerif.Generated.AttrTable
import PsdVerif.Lemmas.AttrTable

namespace PsdVerif.C16
open PsdVerif PsdVerif.Attr

/-- The keys and enum values the model names are the source's (regenerated every run). -/
theorem tables_tied :
    Generated.Attr.tagLuni = kLuni ∧ Generated.Attr.tagLsct = kLsct ∧ Generated.Attr.tagLsdk = kLsdk ∧
    Generated.Attr.tagLspf = kLspf ∧ kNorm ∈ Generated.Attr.blendKeys ∧ kPass ∈ Generated.Attr.blendKeys ∧
    Generated.Attr.clippingValues = [0, 1] ∧ Generated.Attr.clippingNonBase = 1 ∧
    Generated.Attr.dividerOpen = 1 ∧ Generated.Attr.dividerClosed = 2 ∧ Generated.Attr.dividerValues = [0, 1, 2, 3] := by
  decide

/-! ### Attr.get after Attr.set -/

theorem get_set (E : Env) (a : Attr) (v : Val) (l l' : Layer) (hwf : WF l)
    (hv : valid E a v) (h : Attr.set E a v l = .ok l') : Attr.get a l' = .ok v := by
  cases a <;> cases v <;> simp only [valid] at hv <;> simp only [Attr.set] at h
  case name.str s =>
    simp only [setName] at h
    split at h
    · injection h with h; subst h
      simp [Attr.get, findBlock_setData_same, dataVal]
    · simp at h
  case visible.bool b =>
    injection h with h; subst h; simp [Attr.get]
  case opacity.int i =>
    simp only [hv, and_self, if_true] at h
    injection h with h; subst h
    simp [Attr.get, Int.toNat_of_nonneg hv.1]
  case blendMode.key m =>
    simp only [setBlend, hv, not_true_eq_false, if_false] at h
    split at h
    · rename_i hg
      obtain ⟨d, hd⟩ := hwf hg
      obtain ⟨k, hk⟩ := setting_some_key _ _ hd
      simp only [hk, hd] at h
      injection h with h; subst h
      simp [Attr.get, hg, setting_mapData_same _ _ _ hk, hd, putBlend]
    · rename_i hg
      injection h with h; subst h
      simp [Attr.get, hg]
  case left.int i =>
    simp only [setLeft] at h
    split at h
    · rename_i hm
      split at h
      · injection h with h; subst h
        simp [Attr.get, hm]
      · simp at h
    · simp at h
  case top.int i =>
    simp only [setTop] at h
    split at h
    · rename_i hm
      split at h
      · injection h with h; subst h
        simp [Attr.get, hm]
      · simp at h
    · simp at h
  case clipping.bool b =>
    injection h with h; subst h
    cases b <;> simp [Attr.get]
  case locks.int i =>
    simp only [hv.1, if_true, setLocks] at h
    split at h
    · rename_i b hb
      split at h
      · injection h with h; subst h
        simp [Attr.get, findBlock_mapData_same, hb, dataVal, Int.toNat_of_nonneg hv.1]
      · simp at h
    · injection h with h; subst h
      simp [Attr.get, findBlock_setData_same, dataVal, Int.toNat_of_nonneg hv.1]

/-! ### frame -/

theorem frame (E : Env) (a b : Attr) (v : Val) (l l' : Layer) (hab : a ≠ b)
    (h : Attr.set E a v l = .ok l') : Attr.get b l' = Attr.get b l := by
  obtain ⟨h1, h2, h3, h4, h5, h6, h7, h8, h9, h10, h11, h12⟩ := keys_ne
  cases a <;> cases v <;> simp only [Attr.set] at h <;> try (simp at h; done)
  case name.str s =>
    simp only [setName] at h
    split at h
    · injection h with h; subst h
      cases b <;> simp_all [Attr.get, findBlock_setData_other, setting_setData]
    · simp at h
  case visible.bool x =>
    injection h with h; subst h
    cases b <;> simp_all [Attr.get]
  case opacity.int i =>
    split at h
    · injection h with h; subst h
      cases b <;> simp_all [Attr.get]
    · simp at h
  case blendMode.key m =>
    simp only [setBlend] at h
    split at h
    · simp at h
    · split at h
      · split at h
        · injection h with h; subst h
          cases b <;> simp_all [Attr.get]
        · rename_i k hk
          split at h
          · injection h with h; subst h
            rcases settingKey_mem _ _ hk with rfl | rfl <;>
            cases b <;> simp_all [Attr.get, findBlock_mapData_other]
          · simp at h
      · injection h with h; subst h
        cases b <;> simp_all [Attr.get]
  case left.int i =>
    simp only [setLeft] at h
    split at h
    · split at h
      · injection h with h; subst h
        cases b <;> simp_all [Attr.get]
      · simp at h
    · simp at h
  case top.int i =>
    simp only [setTop] at h
    split at h
    · split at h
      · injection h with h; subst h
        cases b <;> simp_all [Attr.get]
      · simp at h
    · simp at h
  case clipping.bool x =>
    injection h with h; subst h
    cases b <;> simp_all [Attr.get]
  case locks.int i =>
    split at h
    · simp only [setLocks] at h
      split at h
      · split at h
        · injection h with h; subst h
          cases b <;> simp_all [Attr.get, findBlock_mapData_other, setting_mapData_other]
        · simp at h
      · injection h with h; subst h
        cases b <;> simp_all [Attr.get, findBlock_setData_other, setting_setData]
    · simp at h

/-- what every successful edit leaves alone -/
theorem set_context (E : Env) (a : Attr) (v : Val) (l l' : Layer) (h : Attr.set E a v l = .ok l') :
    l'.kind = l.kind ∧ l'.pixels = l.pixels ∧ l'.psd = l.psd := by
  cases a <;> cases v <;> simp only [Attr.set, setName, setBlend, setLeft, setTop, setLocks] at h <;> try (simp at h; done)
  all_goals (repeat' split at h) <;> first | (injection h with h; subst h; simp) | (simp at h)

theorem size_frame (E : Env) (a : Attr) (v : Val) (l l' : Layer) (h1 : a ≠ .left) (h2 : a ≠ .top)
    (h : Attr.set E a v l = .ok l') : width l' = width l ∧ height l' = height l := by
  cases a <;> cases v <;> simp only [Attr.set, setName, setBlend, setLocks] at h <;> try (simp at h; done)
  all_goals first | contradiction | skip
  all_goals (repeat' split at h) <;> first | (injection h with h; subst h; simp [width, height, rightOf, bottomOf]) | (simp at h)

theorem wf_set (E : Env) (a : Attr) (v : Val) (l l' : Layer) (hwf : WF l) (h : Attr.set E a v l = .ok l') : WF l' := by
  obtain ⟨h1, h2, h3, h4, h5, h6, h7, h8, h9, h10, h11, h12⟩ := keys_ne
  intro hg
  have hc := set_context E a v l l' h
  rw [hc.1] at hg
  obtain ⟨d, hd⟩ := hwf hg
  cases a <;> cases v <;> simp only [Attr.set, setName, setBlend, setLeft, setTop, setLocks] at h <;> try (simp at h; done)
  case blendMode.key m =>
    split at h
    · cases h
    · obtain ⟨k, hk⟩ := setting_some_key _ _ hd
      simp only [hk, hd] at h
      injection h with h; subst h
      simp only [setting_mapData_same _ _ _ hk, hd]
      simp [putBlend]
  all_goals (repeat' split at h) <;> first | (injection h with h; subst h; simp_all [setting_setData, setting_mapData_other]) | (simp at h)


/-! ### moving keeps the size -/

theorem move_left_keeps_width_partial (E : Env) (v w : Int) (l l' : Layer)
    (h : Attr.set E .left (.int v) l = .ok l') (hw : width l = .ok w)
    (hfill : l.kind = .fill → v + w ≠ 0) : width l' = .ok w := by
  simp only [Attr.set, setLeft, hw] at h
  split at h
  · injection h with h; subst h
    simp only [width, rightOf]
    by_cases hk : l.kind = .fill
    · simp [hk, hfill hk]; omega
    · simp [hk]; omega
  · simp at h

theorem move_left_keeps_height (E : Env) (v : Int) (l l' : Layer)
    (h : Attr.set E .left (.int v) l = .ok l') : height l' = height l := by
  simp only [Attr.set, setLeft] at h
  split at h
  · split at h
    · injection h with h; subst h
      simp [height, bottomOf]
    · simp at h
  · simp at h

theorem move_top_keeps_height_partial (E : Env) (v w : Int) (l l' : Layer)
    (h : Attr.set E .top (.int v) l = .ok l') (hw : height l = .ok w)
    (hfill : l.kind = .fill → v + w ≠ 0) : height l' = .ok w := by
  simp only [Attr.set, setTop, hw] at h
  split at h
  · injection h with h; subst h
    simp only [height, bottomOf]
    by_cases hk : l.kind = .fill
    · simp [hk, hfill hk]; omega
    · simp [hk]; omega
  · simp at h

theorem move_top_keeps_width (E : Env) (v : Int) (l l' : Layer)
    (h : Attr.set E .top (.int v) l = .ok l') : width l' = width l := by
  simp only [Attr.set, setTop] at h
  split at h
  · split at h
    · injection h with h; subst h
      simp [width, rightOf]
    · simp at h
  · simp at h

/-- The side condition is exact: when a fill layer is moved so that its right edge becomes 0,
`FillLayer.right` falls back to the canvas width `W`, and the width becomes `W - v`. -/
theorem fill_move_far_edge_zero (E : Env) (v w W H : Int) (l l' : Layer) (hk : l.kind = .fill)
    (hp : l.psd = some (W, H)) (h : Attr.set E .left (.int v) l = .ok l') (hw : width l = .ok w)
    (h0 : v + w = 0) : width l' = .ok (W - v) := by
  simp only [Attr.set, setLeft, hw] at h
  split at h
  · injection h with h; subst h
    simp [width, rightOf, hk, h0, hp]
  · simp at h

def envNone : Env := mkEnv [] [] false false

/-- a 32 px wide fill layer in a 64 px wide document -/
def fillW : Layer :=
  { kind := .fill, top := 0, left := 0, bottom := 32, right := 32, blend := kNorm, opacity := 255,
    clipping := 0, flags := {}, legacyName := [], blocks := [], pixels := [], psd := some (64, 64) }

/-- ... so the full statement fails (known finding `C16/move/fill/far-edge-zero-falls-back-to-canvas`;
the harness replays `layer.left = -width` on solid-color-fill.psd). -/
theorem fill_move_changes_width :
    ∃ l', Attr.set envNone .left (.int (-32)) fillW = .ok l' ∧ width fillW = .ok 32 ∧ width l' = .ok 96 :=
  ⟨{ fillW with left := -32, right := 0 }, rfl, rfl, rfl⟩

/-- the side condition is satisfiable: every move of a non-fill layer, and e.g. this move of a fill layer -/
example : ∃ l', Attr.set envNone .left (.int 5) fillW = .ok l' ∧ width l' = .ok 32 :=
  ⟨{ fillW with left := 5, right := 37 }, rfl, rfl⟩

/-! ### the frame across layers and documents -/

/-- **edit_frames_other_layers.** While every record owns its flags object, an attribute edit of
layer `i` leaves every other layer of the process — same document or not — exactly as it was:
every getter, the size, the pixels, and what `save` writes for it. -/
theorem edit_frames_other_layers (E : Env) (a : Attr) (v : Val) (i j : Nat) (d d' : Doc)
    (ho : d.Owned) (hij : i ≠ j) (h : d.edit E a v i = .ok d') :
    d'.view j = d.view j ∧
    (∀ b, (d'.view j).map (get b) = (d.view j).map (get b)) ∧
    (d'.view j).map (save E) = (d.view j).map (save E) := by
  have key : d'.view j = d.view j := by
    unfold Doc.edit at h
    cases hri : d.recs[i]? with
    | none => simp [hri] at h
    | some p =>
      obtain ⟨li, ri⟩ := p
      cases hvi : d.view i with
      | none => simp [hri, hvi] at h
      | some l =>
        simp only [hri, hvi] at h
        cases hs : Attr.set E a v l with
        | error e => simp [hs] at h
        | ok l' =>
          simp only [hs, Except.ok.injEq] at h
          subst h
          unfold Doc.view
          simp only [List.getElem?_set_ne hij]
          cases hrj : d.recs[j]? with
          | none => rfl
          | some q =>
            obtain ⟨lj, rj⟩ := q
            have hne : ri ≠ rj := ho.1 i j li lj ri rj hri hrj hij
            simp only [List.getElem?_set_ne hne]
  exact ⟨key, fun b => by rw [key], by rw [key]⟩

/-- an edit keeps the ownership (no setter rebinds or shares an element) -/
theorem edit_owned (E : Env) (a : Attr) (v : Val) (i : Nat) (d d' : Doc)
    (ho : d.Owned) (h : d.edit E a v i = .ok d') : d'.Owned := by
  unfold Doc.edit at h
  cases hri : d.recs[i]? with
  | none => simp [hri] at h
  | some p =>
    obtain ⟨li, ri⟩ := p
    cases hvi : d.view i with
    | none => simp [hri, hvi] at h
    | some l =>
      simp only [hri, hvi] at h
      cases hs : Attr.set E a v l with
      | error e => simp [hs] at h
      | ok l' =>
        simp only [hs, Except.ok.injEq] at h
        subst h
        -- the addresses are what they were
        have haddr : ∀ (k : Nat) (lk : Layer) (rk : Nat), (d.recs.set i (l', ri))[k]? = some (lk, rk) →
            ∃ lk' : Layer, d.recs[k]? = some (lk', rk) := by
          intro k lk rk hk
          by_cases hik : i = k
          · subst hik
            have hlt : i < d.recs.length := by
              rcases Nat.lt_or_ge i d.recs.length with h1 | h1
              · exact h1
              · rw [List.getElem?_eq_none (by simpa using h1)] at hri; cases hri
            rw [List.getElem?_set_self hlt] at hk
            simp only [Option.some.injEq, Prod.mk.injEq] at hk
            exact ⟨li, by rw [hri, ← hk.2]⟩
          · rw [List.getElem?_set_ne hik] at hk
            exact ⟨lk, hk⟩
        refine ⟨?_, ?_⟩
        · intro a b la lb ra rb h1 h2 hab
          obtain ⟨la', h1'⟩ := haddr a la ra h1
          obtain ⟨lb', h2'⟩ := haddr b lb rb h2
          exact ho.1 a b la' lb' ra rb h1' h2' hab
        · intro k lk rk hk
          obtain ⟨lk', hk'⟩ := haddr k lk rk hk
          simpa using ho.2 k lk' rk hk'

/-- a layer built by a constructor (`factory=LayerFlags`) owns its flags, starts with exactly the
attributes the constructor gave it — whatever was edited before — and leaves the others alone -/
theorem new_layer_owned (l : Layer) (d : Doc) (ho : d.Owned) :
    (d.newLayer l).Owned ∧ (d.newLayer l).view d.recs.length = some l ∧
    ∀ j, j < d.recs.length → (d.newLayer l).view j = d.view j := by
  have hget : ∀ (k : Nat) (lk : Layer) (rk : Nat), (d.recs ++ [(l, d.heap.length)])[k]? = some (lk, rk) →
      (k < d.recs.length ∧ d.recs[k]? = some (lk, rk)) ∨ (k = d.recs.length ∧ rk = d.heap.length) := by
    intro k lk rk hk
    rcases Nat.lt_or_ge k d.recs.length with h1 | h1
    · left; rw [List.getElem?_append_left h1] at hk; exact ⟨h1, hk⟩
    · right
      rw [List.getElem?_append_right h1] at hk
      rcases Nat.eq_zero_or_pos (k - d.recs.length) with h0 | h0
      · rw [h0] at hk
        simp only [List.getElem?_cons_zero, Option.some.injEq, Prod.mk.injEq] at hk
        exact ⟨by omega, hk.2.symm⟩
      · rw [List.getElem?_eq_none (by simp only [List.length_cons, List.length_nil]; omega)] at hk; cases hk
  refine ⟨⟨?_, ?_⟩, ?_, ?_⟩
  · intro a b la lb ra rb h1 h2 hab
    rcases hget a la ra h1 with ⟨_, h1'⟩ | ⟨ha, hra⟩ <;> rcases hget b lb rb h2 with ⟨_, h2'⟩ | ⟨hb, hrb⟩
    · exact ho.1 a b la lb ra rb h1' h2' hab
    · have := ho.2 a la ra h1'; omega
    · have := ho.2 b lb rb h2'; omega
    · omega
  · intro k lk rk hk
    simp only [Doc.newLayer, List.length_append, List.length_cons, List.length_nil]
    rcases hget k lk rk hk with ⟨_, hk'⟩ | ⟨_, hr⟩
    · have := ho.2 k lk rk hk'; omega
    · omega
  · simp [Doc.view, Doc.newLayer]
  · intro j hj
    unfold Doc.view Doc.newLayer
    simp only [List.getElem?_append_left hj]
    cases hrj : d.recs[j]? with
    | none => rfl
    | some q =>
      obtain ⟨lj, rj⟩ := q
      have := ho.2 j lj rj hrj
      simp only [List.getElem?_append_left this]

/-- … along any history of edits of other layers and of layer creations: layer `j` reads the same
after it, and the ownership is kept. -/
theorem history_frames_other_layers (E : Env) (ops : List DocOp) (d : Doc) (j : Nat)
    (ho : d.Owned) (hj : j < d.recs.length)
    (hops : ∀ o ∈ ops, ∀ i a v, o = .edit i a v → i ≠ j) :
    (Doc.run E d ops).Owned ∧ (Doc.run E d ops).view j = d.view j ∧ j < (Doc.run E d ops).recs.length := by
  induction ops generalizing d with
  | nil => exact ⟨ho, rfl, hj⟩
  | cons o os ih =>
    have hrest : ∀ o' ∈ os, ∀ i a v, o' = .edit i a v → i ≠ j :=
      fun o' ho' => hops o' (List.mem_cons_of_mem _ ho')
    unfold Doc.run
    cases hs : d.step E o with
    | error e => simpa [hs] using ih d ho hj hrest
    | ok d1 =>
      cases o with
      | edit i a v =>
        have hij : i ≠ j := hops _ (List.mem_cons_self ..) i a v rfl
        simp only [Doc.step] at hs
        have ho1 := edit_owned E a v i d d1 ho hs
        have hv := (edit_frames_other_layers E a v i j d d1 ho hij hs).1
        have hlen : j < d1.recs.length := by
          unfold Doc.edit at hs
          cases hri : d.recs[i]? with
          | none => simp [hri] at hs
          | some p =>
            cases hvi : d.view i with
            | none => simp [hri, hvi] at hs
            | some l =>
              simp only [hri, hvi] at hs
              cases hset : Attr.set E a v l with
              | error e => simp [hset] at hs
              | ok l' => simp only [hset, Except.ok.injEq] at hs; subst hs; simpa using hj
        obtain ⟨r1, r2, r3⟩ := ih d1 ho1 hlen hrest
        exact ⟨r1, by rw [r2, hv], r3⟩
      | new l =>
        simp only [Doc.step, Except.ok.injEq] at hs
        subst hs
        obtain ⟨n1, _, n3⟩ := new_layer_owned l d ho
        have hlen : j < (d.newLayer l).recs.length := by simp [Doc.newLayer]; omega
        obtain ⟨r1, r2, r3⟩ := ih (d.newLayer l) n1 hlen hrest
        exact ⟨r1, by rw [r2, n3 j hj], r3⟩

/-- The tie of `Doc.newLayer` to the source: no attrs field of the record classes
(psd/layer_and_mask.py, regenerated every run) takes its default from one shared mutable object;
`LayerRecord.flags` in particular is built by a factory, per record. -/
theorem record_defaults_owned :
    Generated.Attr.recordDefaults.all (fun p => p.2 == "factory" || p.2 == "immutable" || p.2 == "required") = true ∧
    ("LayerRecord.flags", "factory") ∈ Generated.Attr.recordDefaults := by decide

/-- the hypotheses are satisfiable: two constructed layers own their flags -/
example : (Doc.newLayer (groupNew [66] true) (Doc.newLayer (groupNew [65] true) ⟨[], []⟩)).Owned :=
  (new_layer_owned _ _ (new_layer_owned _ _ ⟨by simp, by simp⟩).1).1

/-- Why ownership is needed: with ONE default `LayerFlags` object for every record built without
explicit flags (`attr.ib(default=LayerFlags())` instead of `factory=LayerFlags`), hiding the first
API-created group hides the second one and every layer created later. -/
theorem shared_default_breaks_frame :
    let d0 : Doc := ⟨[], [{}]⟩                -- address 0: the default object of the class
    let d := (d0.newLayerSharedDefault 0 (groupNew [65] true)).newLayerSharedDefault 0 (groupNew [66] true)
    (d.view 1).map (get .visible) = some (.ok (.bool true)) ∧
    ((d.edit envNone .visible (.bool false) 0).map fun d' => (d'.view 1).map (get .visible))
      = .ok (some (.ok (.bool false))) ∧
    ((d.edit envNone .visible (.bool false) 0).map fun d' =>
        ((d'.newLayerSharedDefault 0 (groupNew [67] true)).view 2).map (get .visible))
      = .ok (some (.ok (.bool false))) := by decide

/-! ### persistence -/

theorem saveable_set (E : Env) (hE : EnvLaws E) (a : Attr) (v : Val) (l l' : Layer)
    (hs : Saveable E l) (hv : valid E a v) (hst : storable E a v l) (h : Attr.set E a v l = .ok l') :
    Saveable E l' := by
  obtain ⟨⟨r1, r2, r3, r4⟩, ⟨hb, hbl⟩, ho, hc, hleg, hbs⟩ := hs
  cases a <;> cases v <;> simp only [valid] at hv <;> simp only [Attr.set] at h <;> simp only [storable] at hst
  case name.str s =>
    simp only [setName] at h
    split at h
    · rename_i hlen
      injection h with h; subst h
      obtain ⟨ub, hu1, hu2⟩ := hst
      refine ⟨⟨r1, r2, r3, r4⟩, ⟨hb, hbl⟩, ho, hc, ?_, ?_⟩
      · simp only
        split
        · rename_i bs hbs'
          exact ⟨bs, hbs', by rw [hE.macLen _ _ hbs']; omega, hE.macRT _ _ hbs'⟩
        · obtain ⟨bs, hq⟩ := hE.macQ
          exact ⟨bs, hq, by rw [hE.macLen _ _ hq]; simp, hE.macRT _ _ hq⟩
      · intro b hb'
        rcases mem_setData _ _ _ _ hb' with hb' | rfl
        · exact hbs b hb'
        · exact ⟨Or.inl rfl, rfl, rfl, ub, hu1, hu2⟩
    · simp at h
  case visible.bool x =>
    injection h with h; subst h
    exact ⟨⟨r1, r2, r3, r4⟩, ⟨hb, hbl⟩, ho, hc, hleg, hbs⟩
  case opacity.int i =>
    simp only [hv, and_self, if_true] at h
    injection h with h; subst h
    exact ⟨⟨r1, r2, r3, r4⟩, ⟨hb, hbl⟩, by simp only; omega, hc, hleg, hbs⟩
  case blendMode.key m =>
    have hm4 := hE.keys4 m hv
    have hbl' : (if m = kPass then kNorm else m) ∈ E.blendKeys ∧ (if m = kPass then kNorm else m).length = 4 := by
      split
      · exact ⟨hE.norm, rfl⟩
      · exact ⟨hv, hm4⟩
    simp only [setBlend, hv, not_true_eq_false, if_false] at h
    split at h
    · split at h
      · injection h with h; subst h
        exact ⟨⟨r1, r2, r3, r4⟩, hbl', ho, hc, hleg, hbs⟩
      · split at h
        · injection h with h; subst h
          refine ⟨⟨r1, r2, r3, r4⟩, hbl', ho, hc, hleg, ?_⟩
          intro b hb'
          rcases mem_mapData _ _ _ _ hb' with hb' | ⟨b0, hb0, _, rfl⟩
          · exact hbs b hb'
          · exact blockOk_putBlend E hE m hv b0 (hbs b0 hb0)
        · simp at h
    · injection h with h; subst h
      exact ⟨⟨r1, r2, r3, r4⟩, ⟨hv, hm4⟩, ho, hc, hleg, hbs⟩
  case left.int i =>
    simp only [setLeft] at h
    split at h
    · split at h
      · rename_i w hw
        injection h with h; subst h
        have := hst w hw
        refine ⟨⟨r1, ?_, r3, this⟩, ⟨hb, hbl⟩, ho, hc, hleg, hbs⟩
        simp [inI32, hv]
      · simp at h
    · simp at h
  case top.int i =>
    simp only [setTop] at h
    split at h
    · split at h
      · rename_i w hw
        injection h with h; subst h
        have := hst w hw
        refine ⟨⟨?_, r2, this, r4⟩, ⟨hb, hbl⟩, ho, hc, hleg, hbs⟩
        simp [inI32, hv]
      · simp at h
    · simp at h
  case clipping.bool x =>
    injection h with h; subst h
    exact ⟨⟨r1, r2, r3, r4⟩, ⟨hb, hbl⟩, ho, by cases x <;> simp, hleg, hbs⟩
  case locks.int i =>
    simp only [hv.1, if_true, setLocks] at h
    have hn : i.toNat < 4294967296 := by omega
    split at h
    · split at h
      · injection h with h; subst h
        refine ⟨⟨r1, r2, r3, r4⟩, ⟨hb, hbl⟩, ho, hc, hleg, ?_⟩
        intro b hb'
        rcases mem_mapData _ _ _ _ hb' with hb' | ⟨b0, hb0, hk0, rfl⟩
        · exact hbs b hb'
        · obtain ⟨h1, h2, _⟩ := hbs b0 hb0
          exact ⟨h1, h2, hk0, hn⟩
      · simp at h
    · injection h with h; subst h
      refine ⟨⟨r1, r2, r3, r4⟩, ⟨hb, hbl⟩, ho, hc, hleg, ?_⟩
      intro b hb'
      rcases mem_setData _ _ _ _ hb' with hb' | rfl
      · exact hbs b hb'
      · exact ⟨Or.inl rfl, rfl, rfl, hn⟩


/-- What is written is read back identically. -/
theorem reopen_save (E : Env) (l : Layer) (h : Saveable E l) :
    ∃ st, save E l = .ok st ∧ reopen E l st = .ok l := roundtrip E l h

/-- **Persistence.** An accepted edit of a writable state with a value of the domain is read back
after save and reopen - and so is every other attribute and the pixel component. -/
theorem persists (E : Env) (hE : EnvLaws E) (a : Attr) (v : Val) (l l' : Layer)
    (hwf : WF l) (hs : Saveable E l) (hv : valid E a v) (hst : storable E a v l)
    (h : Attr.set E a v l = .ok l') :
    ∃ st l'', save E l' = .ok st ∧ reopen E l' st = .ok l'' ∧ Attr.get a l'' = .ok v ∧
      (∀ b, a ≠ b → Attr.get b l'' = Attr.get b l) ∧ l''.pixels = l.pixels ∧ l''.kind = l.kind := by
  obtain ⟨st, h1, h2⟩ := roundtrip E l' (saveable_set E hE a v l l' hs hv hst h)
  have hc := set_context E a v l l' h
  exact ⟨st, l', h1, h2, get_set E a v l l' hwf hv h, fun b hab => frame E a b v l l' hab h, hc.2.1, hc.1⟩

/-- The record stores the rectangle as four int32: a state outside is rejected by save. -/
theorem save_rejects_rect_overflow (E : Env) (l : Layer)
    (h : inI32 l.top = false ∨ inI32 l.left = false ∨ inI32 l.bottom = false ∨ inI32 l.right = false) :
    save E l = .error .structError := by
  simp only [save]
  rcases h with h | h | h | h <;> simp [h]

/-- A move to an int32 position whose far edge leaves int32 is accepted in memory (get-after-set
and frame hold) and the result is rejected by save. -/
theorem move_left_overflow_rejected (E : Env) (v w : Int) (l l' : Layer)
    (h : Attr.set E .left (.int v) l = .ok l') (hw : width l = .ok w) (hov : inI32 (v + w) = false) :
    save E l' = .error .structError := by
  apply save_rejects_rect_overflow
  simp only [Attr.set, setLeft, hw] at h
  split at h
  · injection h with h; subst h
    exact Or.inr (Or.inr (Or.inr hov))
  · simp at h

/-- Position edits are refused exactly for the kinds whose position is derived. -/
theorem set_position_refused (E : Env) (v : Int) (l : Layer) (h : l.kind.movable = false) :
    Attr.set E .left (.int v) l = .error .other ∧ Attr.set E .top (.int v) l = .error .other := by
  simp [Attr.set, setLeft, setTop, h]

theorem set_position_accepted (E : Env) (v : Int) (l : Layer) (h : l.kind.movable = true)
    (hk : l.kind ≠ .fill ∨ l.psd ≠ none) :
    (∃ l', Attr.set E .left (.int v) l = .ok l') ∧ (∃ l', Attr.set E .top (.int v) l = .ok l') := by
  have hr : ∃ r, rightOf l = .ok r := by
    simp only [rightOf]
    cases hp : l.psd with
    | none =>
      have : l.kind ≠ .fill := by rcases hk with hk | hk; exact hk; exact absurd hp hk
      simp [this]
    | some c =>
      obtain ⟨cw, ch⟩ := c
      split
      · split
        · exact ⟨_, rfl⟩
        · exact ⟨_, rfl⟩
      · exact ⟨_, rfl⟩
  have hb : ∃ r, bottomOf l = .ok r := by
    simp only [bottomOf]
    cases hp : l.psd with
    | none =>
      have : l.kind ≠ .fill := by rcases hk with hk | hk; exact hk; exact absurd hp hk
      simp [this]
    | some c =>
      obtain ⟨cw, ch⟩ := c
      split
      · split
        · exact ⟨_, rfl⟩
        · exact ⟨_, rfl⟩
      · exact ⟨_, rfl⟩
  obtain ⟨r, hr⟩ := hr
  obtain ⟨b, hb⟩ := hb
  have hw : width l = .ok (r - l.left) := by simp [width, hr]
  have hh : height l = .ok (b - l.top) := by simp [height, hb]
  simp [Attr.set, setLeft, setTop, h, hw, hh]

/-- Every other edit with a value of the domain is accepted (groups: given the divider block). -/
theorem set_accepted (E : Env) (a : Attr) (v : Val) (l : Layer) (hwf : WF l) (hv : valid E a v)
    (ha : a ≠ .left) (hb : a ≠ .top) (hl : ∀ b, findBlock kLspf l.blocks = some b → ∃ n, b.data = .int n) :
    ∃ l', Attr.set E a v l = .ok l' := by
  cases a <;> cases v <;> simp only [valid] at hv <;> simp only [Attr.set] <;> try contradiction
  case name.str s => simp [setName, Nat.lt_succ_of_le hv]
  case visible.bool b => exact ⟨_, rfl⟩
  case opacity.int i => simp [hv]
  case blendMode.key m =>
    simp only [setBlend, hv, not_true_eq_false, if_false]
    split
    · rename_i hg
      obtain ⟨d, hd⟩ := hwf hg
      obtain ⟨k, hk⟩ := setting_some_key _ _ hd
      simp [hk, hd]
    · exact ⟨_, rfl⟩
  case clipping.bool b => exact ⟨_, rfl⟩
  case locks.int i =>
    simp only [hv.1, if_true, setLocks]
    split
    · rename_i b hb'
      obtain ⟨n, hn⟩ := hl b hb'
      simp [hn]
    · exact ⟨_, rfl⟩


/-- The tables of the current source satisfy what the theorems ask of an environment, for both
unicode-string codecs and both legacy-field policies. -/
theorem generated_env_laws (u f : Bool) :
    EnvLaws (mkEnv Generated.Attr.blendKeys Generated.Attr.macRomanHigh u f) :=
  mkEnv_laws _ _ u f (by decide) (by decide)

/-- With the model's codec instances a name of Unicode scalar values can be stored - under the
one-unit-per-character codec only inside the BMP (above it `save` raises OverflowError: C19). -/
theorem name_storable (keys : List Key) (high : List Nat) (u f : Bool) (s : List Nat) (l : Layer)
    (hs : ∀ c ∈ s, scalar c) (hlen : s.length ≤ 255) (hb : u = false → ∀ c ∈ s, c < 65536) :
    storable (mkEnv keys high u f) .name (.str s) l :=
  uni_roundtrip u s hs hlen hb

theorem astral_name_rejected_ucs2 (keys : List Key) (high : List Nat) (f : Bool) :
    (mkEnv keys high false f).uniEnc [128512] = .error .overflowError := rfl

/-! ### API-created layers -/

/-- `Group.new(name)`: every getter has a proper value; the blend mode is PASS_THROUGH. -/
theorem groupNew_attrs (n : List Nat) (o : Bool) :
    Attr.get .name (groupNew n o) = .ok (.str n) ∧ Attr.get .visible (groupNew n o) = .ok (.bool true) ∧
    Attr.get .opacity (groupNew n o) = .ok (.int 255) ∧ Attr.get .blendMode (groupNew n o) = .ok (.key kPass) ∧
    Attr.get .clipping (groupNew n o) = .ok (.bool false) ∧ Attr.get .locks (groupNew n o) = .ok .none := by
  refine ⟨rfl, rfl, rfl, rfl, rfl, rfl⟩

theorem groupNew_wf (n : List Nat) (o : Bool) : WF (groupNew n o) := by
  intro _
  exact ⟨_, rfl⟩

/-- a new group can be written when its name can (the constructor copies the name into the legacy
field without the setter's `?` fallback: C19) -/
theorem groupNew_saveable (E : Env) (hE : EnvLaws E) (hp : kPass ∈ E.blendKeys) (n : List Nat) (o : Bool)
    (hlen : n.length ≤ 255) (hmac : ∃ bs, E.macEnc n = .ok bs)
    (huni : ∃ bs, E.uniEnc n = .ok bs ∧ E.uniDec bs = .ok n) : Saveable E (groupNew n o) := by
  obtain ⟨bs, hbs⟩ := hmac
  refine ⟨⟨rfl, rfl, rfl, rfl⟩, ⟨hE.norm, rfl⟩, by simp [groupNew], by simp [groupNew], ?_, ?_⟩
  · exact ⟨bs, hbs, by rw [hE.macLen _ _ hbs]; exact hlen, hE.macRT _ _ hbs⟩
  · intro b hb
    simp only [groupNew, List.mem_cons, List.not_mem_nil, or_false] at hb
    rcases hb with rfl | rfl
    · refine ⟨Or.inl rfl, rfl, Or.inl rfl, ?_, Or.inr ⟨rfl, kPass, rfl, hp, rfl, by simp⟩⟩
      cases o <;> simp
    · exact ⟨Or.inl rfl, rfl, rfl, huni⟩

/-- `PixelLayer.frompil(im, psd, name, top, left)`: getters, size, and the name is in the unicode block. -/
theorem frompil_attrs (E : Env) (n : List Nat) (t l w h : Int) (psd : Option (Int × Int)) (px : List UInt8)
    (l0 : Layer) (h0 : frompil E n t l w h psd px = .ok l0) :
    Attr.get .name l0 = .ok (.str n) ∧ Attr.get .visible l0 = .ok (.bool true) ∧
    Attr.get .opacity l0 = .ok (.int 255) ∧ Attr.get .blendMode l0 = .ok (.key kNorm) ∧
    Attr.get .left l0 = .ok (.int l) ∧ Attr.get .top l0 = .ok (.int t) ∧
    Attr.get .clipping l0 = .ok (.bool false) ∧ Attr.get .locks l0 = .ok .none ∧
    width l0 = .ok w ∧ height l0 = .ok h ∧ l0.pixels = px ∧ l0.kind = .pixel := by
  simp only [frompil, setName] at h0
  split at h0
  · injection h0 with h0; subst h0
    refine ⟨?_, rfl, rfl, rfl, rfl, rfl, rfl, rfl, ?_, ?_, rfl, rfl⟩
    · simp [Attr.get, findBlock, setData, dataVal]
    · simp [width, rightOf]; omega
    · simp [height, bottomOf]; omega
  · simp at h0

theorem frompil_accepts (E : Env) (n : List Nat) (t l w h : Int) (psd : Option (Int × Int)) (px : List UInt8)
    (hlen : n.length ≤ 255) : ∃ l0, frompil E n t l w h psd px = .ok l0 := by
  simp [frompil, setName, Nat.lt_succ_of_le hlen]

theorem frompil_saveable (E : Env) (hE : EnvLaws E) (n : List Nat) (t l w h : Int) (psd : Option (Int × Int))
    (px : List UInt8) (l0 : Layer) (h0 : frompil E n t l w h psd px = .ok l0)
    (hrect : inI32 t = true ∧ inI32 l = true ∧ inI32 (t + h) = true ∧ inI32 (l + w) = true)
    (huni : ∃ bs, E.uniEnc n = .ok bs ∧ E.uniDec bs = .ok n) : Saveable E l0 := by
  simp only [frompil, setName] at h0
  split at h0
  · rename_i hlen
    injection h0 with h0; subst h0
    refine ⟨hrect, ⟨hE.norm, rfl⟩, by simp, by simp, ?_, ?_⟩
    · simp only
      split
      · rename_i bs hbs'
        exact ⟨bs, hbs', by rw [hE.macLen _ _ hbs']; omega, hE.macRT _ _ hbs'⟩
      · obtain ⟨bs, hq⟩ := hE.macQ
        exact ⟨bs, hq, by rw [hE.macLen _ _ hq]; simp, hE.macRT _ _ hq⟩
    · intro b hb
      simp only [setData, List.mem_cons, List.not_mem_nil, or_false] at hb
      subst hb
      exact ⟨Or.inl rfl, rfl, rfl, huni⟩
  · simp at h0

/-- Appending the layer to a document (which sets `_psd`) changes no attribute and nothing that is saved. -/
theorem attach_frame (c : Int × Int) (l : Layer) :
    (∀ a, Attr.get a (attach c l) = Attr.get a l) ∧ (attach c l).pixels = l.pixels ∧
    (WF l → WF (attach c l)) ∧ (∀ E, Saveable E l → Saveable E (attach c l)) := by
  refine ⟨fun a => by cases a <;> rfl, rfl, fun h => h, fun E h => ?_⟩
  obtain ⟨h1, h2, h3, h4, h5, h6⟩ := h
  exact ⟨h1, h2, h3, h4, h5, h6⟩

/-! ### edit histories -/

theorem history_context (E : Env) (ops : List (Attr × Val)) (l l' : Layer) (h : runSets E ops l = .ok l') :
    l'.kind = l.kind ∧ l'.pixels = l.pixels ∧ l'.psd = l.psd := by
  induction ops generalizing l with
  | nil => simp only [runSets] at h; injection h with h; subst h; exact ⟨rfl, rfl, rfl⟩
  | cons p rest ih =>
    obtain ⟨a, v⟩ := p
    simp only [runSets] at h
    split at h
    · rename_i l1 h1
      have hc := set_context E a v l l1 h1
      have := ih l1 h
      exact ⟨this.1.trans hc.1, this.2.1.trans hc.2.1, this.2.2.trans hc.2.2⟩
    · simp at h

/-- After any accepted history of edits with values of their domains, every getter returns the value
of the last edit of its attribute, or what it returned before when the attribute was not edited. -/
theorem history_get (E : Env) (ops : List (Attr × Val)) (l l' : Layer) (a : Attr) (hwf : WF l)
    (hv : ∀ p ∈ ops, valid E p.1 p.2) (h : runSets E ops l = .ok l') :
    Attr.get a l' = match lastSet a ops with
      | some v => .ok v
      | none => Attr.get a l := by
  induction ops generalizing l with
  | nil => simp only [runSets] at h; injection h with h; subst h; rfl
  | cons p rest ih =>
    obtain ⟨a', v⟩ := p
    simp only [runSets] at h
    split at h
    · rename_i l1 h1
      have hv1 := hv (a', v) (List.mem_cons_self ..)
      have := ih l1 (wf_set E a' v l l1 hwf h1) (fun q hq => hv q (List.mem_cons_of_mem _ hq)) h
      rw [this]
      simp only [lastSet]
      cases hls : lastSet a rest with
      | some x => rfl
      | none =>
        simp only
        by_cases haa : a' = a
        · subst haa
          simp [get_set E a' v l l1 hwf hv1 h1]
        · simp [haa, frame E a' a v l l1 haa h1]
    · simp at h

/-- ... and the final state is written and read back identically when every edit could be written. -/
theorem history_persists (E : Env) (hE : EnvLaws E) (ops : List (Attr × Val)) (l l' : Layer)
    (hs : Saveable E l) (hv : ∀ p ∈ ops, valid E p.1 p.2) (hst : StorableRun E ops l)
    (h : runSets E ops l = .ok l') : ∃ st, save E l' = .ok st ∧ reopen E l' st = .ok l' := by
  suffices Saveable E l' from roundtrip E l' this
  induction ops generalizing l with
  | nil => simp only [runSets] at h; injection h with h; subst h; exact hs
  | cons p rest ih =>
    obtain ⟨a, v⟩ := p
    simp only [runSets] at h
    split at h
    · rename_i l1 h1
      have hv1 := hv (a, v) (List.mem_cons_self ..)
      exact ih l1 (saveable_set E hE a v l l1 hs hv1 hst.1 h1)
        (fun q hq => hv q (List.mem_cons_of_mem _ hq)) (hst.2 l1 h1) h
    · simp at h

/-! ### What went wrong before the repairs (concrete witnesses; the harness replays them on the real code) -/

/-- the environment of the current source with the one-unit-per-character codec -/
def genEnv : Env := mkEnv Generated.Attr.blendKeys Generated.Attr.macRomanHigh false false

def kMul : Key := [109, 117, 108, 32]

/-- `Group.new()` before 076e090: the getter returned None, and a blend mode assigned to the new
group was kept in memory but not written - None again after reopen. -/
theorem legacy_groupNew_blend_lost :
    legacyGetBlend (legacyGroupNew [71] true) = .ok .none ∧
    ∃ l1 st l2, legacySetBlend genEnv kMul (legacyGroupNew [71] true) = .ok l1 ∧
      legacyGetBlend l1 = .ok (.key kMul) ∧ save genEnv l1 = .ok st ∧ reopen genEnv l1 st = .ok l2 ∧
      legacyGetBlend l2 = .ok .none := by
  refine ⟨rfl, _, _, _, rfl, rfl, rfl, rfl, rfl⟩

def plainPixel : Layer :=
  { kind := .pixel, top := 0, left := 0, bottom := 2, right := 2, blend := kNorm, opacity := 255,
    clipping := 0, flags := {}, legacyName := [76], blocks := [⟨sig8BIM, kLuni, .str [76]⟩],
    pixels := [1, 2, 3], psd := none }

/-- `lock(6)` before 1e2bade on a layer without a protection block: the getter shows 0. -/
theorem legacy_lock_no_effect :
    ∃ l1, legacySetLocks 6 plainPixel = .ok l1 ∧ Attr.get .locks l1 = .ok (.int 0) := ⟨_, rfl, rfl⟩

/-- `clipping_layer = True` before 700ec90 on a layer without a (non-empty) document: ignored. -/
theorem legacy_clipping_ignored :
    Attr.get .clipping (legacySetClipping true plainPixel) = .ok (.bool false) := rfl

/-- a group stored with `lsdk` before 8501da8: PASS_THROUGH read back NORMAL -/
theorem legacy_lsdk_pass_reads_normal :
    let g : Layer := { groupNew [71] true with
      blocks := [⟨sig8BIM, kLsdk, .divider ⟨1, some sig8BIM, some kMul, none⟩⟩, ⟨sig8BIM, kLuni, .str [71]⟩] }
    ∃ l1, legacySetBlend genEnv kPass g = .ok l1 ∧ legacyGetBlend l1 = .ok (.key kNorm) := ⟨_, rfl, rfl⟩

/-! ### Non-vacuity: the hypotheses are satisfiable, for every kind -/

example : EnvLaws genEnv := generated_env_laws false false

example : valid genEnv .name (.str [26085, 26412, 128512]) ∧ valid genEnv .blendMode (.key kMul) ∧
    valid genEnv .locks (.int 2147483648) ∧ valid genEnv .left (.int (-2147483648)) ∧
    valid genEnv .opacity (.int 0) := by
  refine ⟨?_, ?_, ?_, ?_, ?_⟩
  · show 3 ≤ 255; decide
  · show kMul ∈ Generated.Attr.blendKeys; decide
  · show (0:Int) ≤ 2147483648 ∧ (2147483648:Int) < 4294967296; decide
  · show (-2147483648:Int) ≤ -2147483648 ∧ (-2147483648:Int) ≤ 2147483647; decide
  · show (0:Int) ≤ 0 ∧ (0:Int) ≤ 255; decide

/-- a writable, well-formed state of every kind -/
def sample (k : Kind) : Layer :=
  { kind := k, top := -3, left := 5, bottom := 7, right := 9, blend := kNorm, opacity := 200, clipping := 1,
    flags := { visible := false }, legacyName := [63],
    blocks := [⟨sig8BIM, kLsct, .divider ⟨1, some sig8BIM, some kPass, none⟩⟩, ⟨sig8BIM, kLuni, .str [26085]⟩,
               ⟨sig8B64, [97, 98, 99, 100], .raw [1, 2, 3]⟩, ⟨sig8BIM, kLspf, .int 3⟩],
    pixels := [9, 9], psd := some (16, 12) }

theorem sample_saveable (k : Kind) : Saveable genEnv (sample k) ∧ WF (sample k) := by
  refine ⟨⟨⟨rfl, rfl, rfl, rfl⟩, ⟨(by show kNorm ∈ Generated.Attr.blendKeys; decide), rfl⟩, (by show 200 ≤ 255; decide), (by show 1 ≤ 1; decide), ⟨[63], rfl, by decide, rfl⟩, ?_⟩, fun _ => ⟨_, rfl⟩⟩
  intro b hb
  simp only [sample, List.mem_cons, List.not_mem_nil, or_false] at hb
  rcases hb with rfl | rfl | rfl | rfl
  · exact ⟨Or.inl rfl, rfl, Or.inl rfl, by decide, Or.inr ⟨rfl, kPass, rfl, by decide, rfl, by simp⟩⟩
  · exact ⟨Or.inl rfl, rfl, rfl, uni_roundtrip false [26085] (by decide) (by decide) (by decide)⟩
  · exact ⟨Or.inr rfl, rfl, by decide, by decide, by decide, by decide⟩
  · exact ⟨Or.inl rfl, rfl, rfl, by decide⟩

/-- the persistence theorem applies: e.g. renaming a layer of any kind to a 2-character Japanese name -/
example (k : Kind) : ∃ l' st l'', Attr.set genEnv .name (.str [26085, 26412]) (sample k) = .ok l' ∧
    save genEnv l' = .ok st ∧ reopen genEnv l' st = .ok l'' ∧ Attr.get .name l'' = .ok (.str [26085, 26412]) := by
  obtain ⟨hs, hwf⟩ := sample_saveable k
  obtain ⟨l', hl'⟩ := set_accepted genEnv .name (.str [26085, 26412]) (sample k) hwf (by show 2 ≤ 255; decide) (by decide) (by decide)
    (fun b hb => by simp [sample, findBlock, kLspf, kLsct, kLuni] at hb; subst hb; exact ⟨3, rfl⟩)
  obtain ⟨st, l'', h1, h2, h3, _⟩ := persists genEnv (generated_env_laws false false) .name _ (sample k) l' hwf hs
    (by show 2 ≤ 255; decide) (name_storable _ _ false false _ _ (by decide) (by decide) (by decide)) hl'
  exact ⟨l', st, l'', hl', h1, h2, h3⟩

/-! ## The accessor table

`Model/AttrTable.lean` interprets a TABLE of the accessors — for every public attribute of every layer
class the getter's read path and the setter's effects, read off the source by `harness/extract_c16.py`
(`Generated/AttrTable.lean`) — on an abstract layer. The theorems below hold for ANY table that passes the
decidable check `tableOk`; `current_tree_attr_table_ok` says the regenerated one does; the witnesses
show that each clause of the check is needed. -/

section Table
open PsdVerif.AttrTable

/-- GET AFTER SET, over the table. If a row passes `rowOk` — the setter refuses, or on every path that is
    neither a refusal nor an early return under a test saying "already stored" it assigns the argument to the
    FIRST location of the getter's read path (in place, or by replacing the block), under no test but the
    existence of that block, and nothing overwrites it — then after an accepted call, whatever the outcomes
    of the opaque tests and the values that are not the argument, the getter returns the value just set
    (provided the first location exists afterwards: a group has its divider block). -/
theorem table_get_set (r : Row) (hr : rowOk r = true) (v : Nat) (i : Inst) (s s' : St)
    (h : AttrTable.set r v i s = .ok s') (hp : ∀ p, r.reads.head? = some p → s'.has p = true) :
    AttrTable.get s' r = some v := by
  simp only [rowOk, Bool.and_eq_true, Bool.or_eq_true] at hr
  rcases hr.2 with href | hpath
  · obtain ⟨x, hx⟩ := refusesAll_refuses r v i r.effs s href
    rw [AttrTable.set, hx] at h; cases h
  · cases hreads : r.reads with
    | nil => simp [hreads] at hpath
    | cons p rest =>
      simp only [hreads] at hpath
      have hpp : s'.has p = true := hp p (by simp [hreads])
      have : AttrTable.get s' r = some (s'.mem p) := by simp [AttrTable.get, hreads, firstPresent, hpp]
      rcases okPath_sound r v i p r.effs s s' hpath h hpp with e | e
      · rw [this, e]
      · exact e

/-- A setter that cannot accept (a property without setter, an override that raises) refuses every value and
    leaves the layer exactly as it was: a position edit is refused or takes effect, never accepted without
    effect (`table_get_set` is the other half). -/
theorem table_refusal (r : Row) (hr : refusesAll r.effs = true) (v : Nat) (i : Inst) (s : St) :
    ∃ x, AttrTable.set r v i s = .refused x s :=
  refusesAll_refuses r v i r.effs s hr

/-- When no assignment precedes a refusal in the setter's body, a refused edit changes nothing. -/
theorem table_refused_unchanged (r : Row) (hr : refuseFirst r.effs = true) (v : Nat) (i : Inst) (s s' : St) (x : String)
    (h : AttrTable.set r v i s = .refused x s') : s' = s :=
  refuseFirst_unchanged r v i r.effs s x s' hr h

/-- FRAME, over the table: a call of the setter of one attribute — accepted, refused or failed — leaves the
    value every getter of an unrelated attribute of the same class returns (unrelated: the two read paths
    share no location and no block). Other layers are other objects: their stores are not an argument of `set`. -/
theorem table_frame (t : Table) (ht : frameOk t = true) (r r' : Row) (hr : r ∈ t.rows) (hr' : r' ∈ t.rows)
    (hc : r.cls = r'.cls) (hn : related r r' = false) (v : Nat) (i : Inst) (s : St) :
    AttrTable.get (AttrTable.set r v i s).st r' = AttrTable.get s r' := by
  have h1 := List.all_eq_true.mp (List.all_eq_true.mp ht r hr) r' hr'
  simp only [hc, hn, bne_self_eq_false, Bool.false_or] at h1
  apply get_congr
  intro x hx
  apply untouched_kept
  intro e he
  have := List.all_eq_true.mp (List.all_eq_true.mp h1 e he) x hx
  simpa using this

/-- an edit of layer `k` of several layer objects (each has its own store; that records share no element
    object is `record_defaults_owned` / `edit_frames_other_layers` above) -/
def docEdit (d : List St) (k : Nat) (r : Row) (v : Nat) (i : Inst) : List St :=
  match d[k]? with
  | some s => d.set k (AttrTable.set r v i s).st
  | none => d

/-- … and every other layer is left alone. -/
theorem table_frame_other_layer (d : List St) (k j : Nat) (r : Row) (v : Nat) (i : Inst) (h : j ≠ k) :
    (docEdit d k r v i)[j]? = d[j]? := by
  unfold docEdit
  split
  · simp [Ne.symm h]
  · rfl

/-- every edit of the history is a row of the table -/
def opsIn (t : Table) (ops : List Op) : Prop := ∀ o ∈ ops, match o with | .edit r _ _ => r ∈ t.rows | .save => True

/-- (d) keeps the cache fresh along ANY history of edits and saves. -/
theorem table_cache_fresh (t : Table) (ht : writerOk t = true) :
    ∀ (ops : List Op) (s : St), opsIn t ops → Fresh t s → Fresh t (runHist t s ops) := by
  intro ops
  induction ops with
  | nil => intro s _ h; exact h
  | cons o ops ih =>
    intro s hin hf
    apply ih _ (fun o' ho' => hin o' (List.mem_cons_of_mem _ ho'))
    have ho := hin o (List.mem_cons_self ..)
    cases o with
    | save => exact save_fresh t s hf
    | edit r v i =>
      simp only at ho
      rw [fresh_iff] at hf ⊢
      intro hc
      simp only [writerOk, Bool.and_eq_true, Bool.or_eq_true] at ht
      rcases ht.2 with he | hcov
      · simp [Table.caching, he] at hc
      · exact covered_fresh r v i r.effs [] s (List.all_eq_true.mp hcov.2 r ho) (hf hc)

/-- PERSISTENCE, over the table, for histories: after any history of edits and saves in any order (save;
    edit; save — edit; save; edit; save …) on a freshly read layer, what `save` writes and a reopen reads back
    is, for every attribute, what the getter returns now. -/
theorem table_persists (t : Table) (ht : tableOk t = true) (s0 : St) (h0 : Fresh t s0) (ops : List Op)
    (hin : opsIn t ops) (r' : Row) :
    AttrTable.get (AttrTable.reopen (runHist t s0 ops) (AttrTable.save t (runHist t s0 ops)).1) r' = AttrTable.get (runHist t s0 ops) r' := by
  simp only [tableOk, Bool.and_eq_true] at ht
  have hf := table_cache_fresh t ht.2 ops s0 hin h0
  apply get_congr
  intro x _
  exact ⟨by simp [AttrTable.reopen, AttrTable.save, fileVal_fresh t _ hf x], reopen_has _ _ x⟩

/-- … in particular the value of an accepted edit made after any such history (with saves before it) is
    the value read back from the next save. -/
theorem table_edit_persists (t : Table) (ht : tableOk t = true) (s0 : St) (h0 : Fresh t s0) (ops : List Op)
    (hin : opsIn t ops) (r : Row) (hr : r ∈ t.rows) (v : Nat) (i : Inst) (s' : St)
    (h : AttrTable.set r v i (runHist t s0 ops) = .ok s') (hp : ∀ p, r.reads.head? = some p → s'.has p = true) :
    AttrTable.get (AttrTable.reopen s' (AttrTable.save t s').1) r = some v := by
  have hrun : runHist t s0 (ops ++ [.edit r v i]) = s' := by
    have : ∀ (ops : List Op) (s : St), runHist t s (ops ++ [.edit r v i]) = (AttrTable.set r v i (runHist t s ops)).st := by
      intro ops; induction ops with
      | nil => intro s; rfl
      | cons o ops ih => intro s; exact ih _
    rw [this, h]; rfl
  have hin' : opsIn t (ops ++ [.edit r v i]) := by
    intro o ho
    rcases List.mem_append.mp ho with h1 | h1
    · exact hin o h1
    · simp at h1; subst h1; exact hr
  have := table_persists t ht s0 h0 _ hin' r
  rw [hrun] at this
  rw [this]
  have hrow : rowOk r = true := by
    simp only [tableOk, Bool.and_eq_true] at ht
    exact List.all_eq_true.mp ht.1.1.1.2 r hr
  exact table_get_set r hrow v i _ s' h hp

/-- a freshly read layer holds no encoded bytes -/
theorem reopened_fresh (t : Table) (s : St) (f : Loc → Nat) : Fresh t (AttrTable.reopen s f) :=
  fun _ _ _ => Or.inl rfl

/-- The table regenerated from the source passes the check: (a) every setter's accepted path writes the
    location its getter reads, or refuses; (b) no early return before that write except under "already stored";
    (c) no setter assigns, in its own body, storage that belongs to another attribute whose setter its class
    overrides; (d) the writers consult current field values only; frame: no setter touches what an unrelated
    getter of the same class reads. -/
theorem current_tree_attr_table_ok : tableOk Generated.AttrTable.table = true := by decide

/-- Every layer class the API defines is represented by rows of the table, and — `lock`/`unlock`, whose
    `assert` follows `set_data`, apart — every setter refuses before it writes. -/
theorem current_tree_classes_covered :
    (Generated.AttrTable.classes.all fun c => Generated.AttrTable.table.rows.any fun r => r.cls == c.2) = true ∧
    (Generated.AttrTable.table.rows.all fun r => refuseFirst r.effs || r.attr == "lock" || r.attr == "unlock") = true := by
  decide

/-- Hence, for the code as it is: get-after-set for every row … -/
theorem table_get_set_now (r : Row) (hr : r ∈ Generated.AttrTable.table.rows) (v : Nat) (i : Inst) (s s' : St)
    (h : AttrTable.set r v i s = .ok s') (hp : ∀ p, r.reads.head? = some p → s'.has p = true) :
    AttrTable.get s' r = some v := by
  have := current_tree_attr_table_ok
  simp only [tableOk, Bool.and_eq_true] at this
  exact table_get_set r (List.all_eq_true.mp this.1.1.1.2 r hr) v i s s' h hp

/-- … and persistence through any history of edits and saves. -/
theorem table_persists_now (s0 : St) (f : Loc → Nat) (ops : List Op) (hin : opsIn Generated.AttrTable.table ops) (r' : Row) :
    let t := Generated.AttrTable.table
    let s := runHist t (AttrTable.reopen s0 f) ops
    AttrTable.get (AttrTable.reopen s (AttrTable.save t s).1) r' = AttrTable.get s r' :=
  table_persists _ current_tree_attr_table_ok _ (reopened_fresh _ s0 f) ops hin r'

/-! ### Each clause is needed (the round-4 regressions as abstract tables) -/

/-- a layer: every location holds 0, every block exists, nothing encoded -/
def blank : St := ⟨fun _ => 0, fun _ => true, fun _ => none⟩
/-- all opaque tests true, derived values 9 -/
def yes : Inst := ⟨fun _ => true, fun _ => 9⟩

/-- (a): `offset` written straight into the record of a class whose `left` is derived (shape without pixels,
    group, artboard). -/
def shapeOffsetDirect : Row :=
  ⟨"offset.0", "ShapeLayer", [.derived "self._bbox"], [.derived "self._bbox"],
   [.call "self._invalidate_bbox()" [], .write (.field "left") .arg [] [], .write (.field "top") .derived [] [],
    .write (.field "right") .derived [] [], .write (.field "bottom") .derived [] []]⟩

/-- The write misses what the getter reads: the check rejects the row, and the call is ACCEPTED WITHOUT EFFECT. -/
theorem write_must_hit_read_location :
    rowOk shapeOffsetDirect = false ∧
    (AttrTable.set shapeOffsetDirect 7 yes blank).accepted = true ∧
    AttrTable.get (AttrTable.set shapeOffsetDirect 7 yes blank).st shapeOffsetDirect = some 0 := by
  decide

/-- (b): `clipping_layer` with `if self._psd is None or clipping == self._record.clipping: return` before the
    record write. -/
def clippingEarlyReturn : Row :=
  ⟨"clipping_layer", "Layer", [.field "clipping"], [.field "clipping"],
   [.ret [⟨"self._psd is None", .free, false⟩], .ret [⟨"clipping == self._record.clipping", .stored, false⟩],
    .write (.field "clipping") .arg [] [], .call "self._psd._compute_clipping_layers()" []]⟩

/-- On a detached layer (the first test true) the assignment is dropped; with only the "already stored" return
    the row passes and the value arrives. -/
theorem early_return_must_imply_stored :
    rowOk clippingEarlyReturn = false ∧
    (AttrTable.set clippingEarlyReturn 1 yes blank).accepted = true ∧
    AttrTable.get (AttrTable.set clippingEarlyReturn 1 yes blank).st clippingEarlyReturn = some 0 ∧
    rowOk { clippingEarlyReturn with effs := clippingEarlyReturn.effs.drop 1 } = true ∧
    AttrTable.get (AttrTable.set { clippingEarlyReturn with effs := clippingEarlyReturn.effs.drop 1 } 1 yes blank).st
      clippingEarlyReturn = some 1 := by
  decide

/-- (c): a class whose own `left` refuses (but still reads the record), and an `offset` that assigns the
    record in its own body instead of going through `self.left`. -/
def lockedPosition : Table :=
  { rows := [
      ⟨"left", "Layer", [.field "left"], [.field "left"], [.write (.field "left") .arg [] [], .write (.field "right") .derived [] []]⟩,
      ⟨"left", "Pinned", [.field "left"], [.field "left"], [.refuse "NotImplementedError" []]⟩,
      ⟨"offset.0", "Pinned", [.field "left"], [.field "left", .field "top"],
        [.write (.field "left") .arg [] [], .write (.field "top") .derived [] []]⟩],
    caches := [], writerOther := [] }

/-- Every row passes (a) and (b), yet `left = 7` is refused while `offset = (7, …)` moves the layer: the
    override is bypassed. Only (c) sees it. -/
theorem delegation_must_go_through_own_setter :
    lockedPosition.rows.all rowOk = true ∧ delegationOk lockedPosition = false ∧ tableOk lockedPosition = false ∧
    (lockedPosition.rows.map fun r => ((AttrTable.set r 7 yes blank).accepted,
        AttrTable.get (AttrTable.set r 7 yes blank).st ⟨"left", "Pinned", [.field "left"], [], []⟩)) =
      [(true, some 7), (false, some 0), (true, some 7)] := by
  decide

/-- (d): `TaggedBlock.write` keeps the bytes it encoded and drops them only when `data` is REPLACED; `lock()`
    mutates the element in place. -/
def cachingWriter (invalidates : Bool) : Table :=
  { rows := [
      ⟨"lock", "Layer", [.block "PROTECTED_SETTING" "value"], [.block "PROTECTED_SETTING" "value"],
        [.write (.block "PROTECTED_SETTING" "value") .arg [] ["ProtectedSetting.lock"]] ++
          (if invalidates then [.invalidate "PROTECTED_SETTING" []] else [])⟩,
      ⟨"name", "Layer", [.block "UNICODE_LAYER_NAME" "value", .field "name"], [.block "UNICODE_LAYER_NAME" "value", .field "name"],
        [.write (.field "name") .arg [] [], .replace "UNICODE_LAYER_NAME" "value" .arg [] []]⟩],
    caches := [⟨"TaggedBlock", "_encoded", true⟩], writerOther := [] }

def lockRow (t : Table) : Row := (t.row? "lock" "Layer").getD default
def nameRow (t : Table) : Row := (t.row? "name" "Layer").getD default

/-- save; lock(5); save; reopen reads the OLD lock state (edit; save; reopen alone is fine, and so is the name,
    whose block is replaced); with the cache dropped at the mutation site the table passes and the value persists. -/
theorem cache_must_follow_in_place_mutation :
    let t := cachingWriter false
    let h := runHist t blank [.save, .edit (lockRow t) 5 yes, .edit (nameRow t) 3 yes]
    tableOk t = false ∧ t.rows.all rowOk = true ∧
    AttrTable.get h (lockRow t) = some 5 ∧ AttrTable.get (AttrTable.reopen h (AttrTable.save t h).1) (lockRow t) = some 0 ∧
    AttrTable.get (AttrTable.reopen h (AttrTable.save t h).1) (nameRow t) = some 3 ∧
    (let h1 := runHist t blank [.edit (lockRow t) 5 yes]
     AttrTable.get (AttrTable.reopen h1 (AttrTable.save t h1).1) (lockRow t) = some 5) ∧
    (let t' := cachingWriter true
     let h' := runHist t' blank [.save, .edit (lockRow t') 5 yes, .save, .edit (lockRow t') 6 yes]
     tableOk t' = true ∧ AttrTable.get (AttrTable.reopen h' (AttrTable.save t' h').1) (lockRow t') = some 6) := by
  decide

/-- frame: a setter that also assigns what another getter reads (`opacity` resetting `clipping`). -/
def frameBreaker : Table :=
  { rows := [
      ⟨"opacity", "Layer", [.field "opacity"], [.field "opacity"],
        [.write (.field "opacity") .arg [] [], .write (.field "clipping") .derived [] []]⟩,
      ⟨"clipping_layer", "Layer", [.field "clipping"], [.field "clipping"], [.write (.field "clipping") .arg [] []]⟩],
    caches := [], writerOther := [] }

theorem frame_clause_needed :
    frameBreaker.rows.all rowOk = true ∧ frameOk frameBreaker = false ∧
    AttrTable.get (AttrTable.set (frameBreaker.rows.headD default) 7 yes blank).st
      ⟨"clipping_layer", "Layer", [.field "clipping"], [], []⟩ = some 9 := by
  decide

/-! ### Non-vacuity -/

example : Fresh Generated.AttrTable.table blank := fun _ _ _ => Or.inl rfl
example : opsIn (cachingWriter true) [.save, .edit (lockRow (cachingWriter true)) 5 yes] := by
  intro o ho; simp at ho; rcases ho with h | h <;> subst h <;> simp [lockRow, cachingWriter, Table.row?]
-- the Group blend-mode row of the current table: accepted on a group that has its divider block, value in place
example : (Generated.AttrTable.table.row? "blend_mode" "Group").map (fun r =>
    ((AttrTable.set r 4 yes blank).accepted, AttrTable.get (AttrTable.set r 4 yes blank).st r)) = some (true, some 4) := by
  decide
-- `offset` on a group in the current table: refused, nothing changes
example : (Generated.AttrTable.table.row? "offset.0" "Group").map (fun r => (AttrTable.set r 4 yes blank).accepted) = some false := by
  decide

end Table

end PsdVerif.C16
