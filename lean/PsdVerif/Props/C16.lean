/-
C16 — attribute edits are observable at once and persist.
-/
import PsdVerif.Model.Attr
import PsdVerif.Generated.Attr

namespace PsdVerif.C16
open PsdVerif PsdVerif.Attr

/-- The keys and enum values the model names are the source's (regenerated every run). -/
theorem tables_tied :
    Generated.Attr.tagLuni = kLuni ∧ Generated.Attr.tagLsct = kLsct ∧ Generated.Attr.tagLsdk = kLsdk ∧
    Generated.Attr.tagLspf = kLspf ∧ kNorm ∈ Generated.Attr.blendKeys ∧ kPass ∈ Generated.Attr.blendKeys ∧
    Generated.Attr.clippingValues = [0, 1] ∧ Generated.Attr.clippingNonBase = 1 ∧
    Generated.Attr.dividerOpen = 1 ∧ Generated.Attr.dividerClosed = 2 ∧ Generated.Attr.dividerValues = [0, 1, 2, 3] := by
  decide

end PsdVerif.C16
