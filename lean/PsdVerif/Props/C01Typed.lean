/-
C01 (typed documents) — a whole document whose image resources, document-level tagged blocks *and* per-layer tagged blocks
are objects of their registered classes survives write → read and re-writes identically; engine data inside C01.

Model/TypedEngine.lean   `Txt2` = `EngineData2` (C18's model) parsed at read time; `TypeToolObjectSetting.read` parses the
                         `EngineData` raw value of the text descriptor at read time, in place, and keeps the bytes when the
                         parser raises
Model/TypedBlocks.lean   `TaggedBlock.read` / `write` with the payload dispatch through the whole registry `tagged_blocks.TYPES`
                         (class-indexed payload `Pay`, recursive through `LayerInfoBlock`: levels)
Model/TypedDoc.lean      the document

Reading guide. Every class keeps the generic laws of its `PCodec` (`TClass.rt`, `TClass.count`: one line per class, nothing is
re-proved); a payload type enters the block / record / layer-info / document proofs only through the law of its kit
(`Kit.Law`); `kitN_law` gives the law at every nesting level. `x.refresh`: the object as the writer left it (`_update_channel_length`
of the main layer info and of every nested `LayerInfoBlock`). `n` is the number of `Lr16` / `Lr32` levels the reader has
below a block; the theorems hold for every `n`.
-/
import PsdVerif.Lemmas.TypedSamples
import PsdVerif.Model.TypedTables
import PsdVerif.Props.C01Payload3

namespace PsdVerif.C01Typed
open PsdVerif PsdVerif.Codec PsdVerif.Psd PsdVerif.Payload PsdVerif.Payload.PCodec PsdVerif.Payload3 PsdVerif.Typed

/-! ## engine data inside C01 -/

/-- `Txt2`: the compact writer of `EngineData2`, then the parser on the whole length block (C18's `parse_write`) -/
theorem txt2_engine_data_roundtrip_at_end : RoundTripAtEnd EngineData2.codec := roundTripAtEnd_of EngineData2.rt
theorem txt2_engine_data_rewrite_identical : RewriteIdentical EngineData2.codec := rewriteIdentical_of EngineData2.rt
theorem txt2_engine_data_written_is_length : WrittenIsLength EngineData2.codec := writtenIsLength_of EngineData2.count
theorem tagged_block_txt2_engine_data : TaggedBlockPayload EngineData2.codec := taggedBlockPayload_of EngineData2.rt

/-- `TySh` with the engine data as the reader leaves it: a parsed `EngineData` object (written in the indented layout by
`RawData.write`) or the bytes the parser rejects -/
theorem type_tool_typed_roundtrip (tb : Descriptor.Tables) (pad : Nat) : RoundTrip (TypeToolTyped.codec tb pad) :=
  roundTrip_of (TypeToolTyped.rt tb pad)
theorem type_tool_typed_rewrite_identical (tb : Descriptor.Tables) (pad : Nat) : RewriteIdentical (TypeToolTyped.codec tb pad) :=
  rewriteIdentical_of (TypeToolTyped.rt tb pad).atEnd
theorem type_tool_typed_written_is_length (tb : Descriptor.Tables) (pad : Nat) : WrittenIsLength (TypeToolTyped.codec tb pad) :=
  writtenIsLength_of (TypeToolTyped.count tb pad)
theorem tagged_block_type_tool_typed (tb : Descriptor.Tables) (pad : Nat) :
    TaggedBlockPayload (TypeToolTyped.codec tb (innerPad pad)) := taggedBlockPayload_of (TypeToolTyped.rt tb _).atEnd

/-- the engine data of a type tool object, on demand: the raw item of the written text descriptor holds the indented
layout of the tree, parsing those bytes gives the tree, and writing what was parsed gives the same bytes again -/
theorem engine_data_of_type_tool_roundtrip (x : TypeToolTyped) (hs : TypeToolTyped.slotWF x) (t : Tree) (he : x.engine = some t) :
    (∃ tag, slotOf (TypeToolTyped.flat x).textData.items = some (.raw tag (EngineData.writeT .indented t))) ∧
      EngineData.parse (EngineData.writeT .indented t) = .ok t ∧
      ∀ t', EngineData.parse (EngineData.writeT .indented t) = .ok t' → EngineData.writeT .indented t' = EngineData.writeT .indented t := by
  obtain ⟨base, engine⟩ := x
  simp only at he
  subst he
  simp only [TypeToolTyped.slotWF] at hs
  obtain ⟨hslot, ht⟩ := hs
  have hp := parse_writeT .indented t ht
  refine ⟨?_, hp, ?_⟩
  · split at hslot
    · rename_i tag b h
      exact ⟨tag, by simp only [TypeToolTyped.flat, TypeToolTyped.withItems]; exact slotOf_setSlot_raw _ h⟩
    · exact absurd hslot id
  · intro t' h'
    rw [hp] at h'
    cases h'
    rfl

/-- the fallback of the engine-data step: bytes the parser rejects stay bytes (`except Exception`), the object is unchanged -/
theorem type_tool_engine_bytes_kept (x : TypeToolObjectSetting) (tag : Descriptor.RawTag) (b : B) (e : Err)
    (hs : slotOf x.textData.items = some (.raw tag b)) (hp : EngineData.parse b = .error e) :
    TypeToolTyped.engineStep x = ⟨x, none⟩ := by
  simp only [TypeToolTyped.engineStep, hs, hp]

/-! ## the typed tagged block (every key of `tagged_blocks.TYPES`) -/

/-- `TaggedBlock.read` *with* the payload dispatch returns the block with its typed payload - as the payload writer left
it - anywhere in a stream, at every nesting level -/
theorem typed_tagged_block_roundtrip (tb : Descriptor.Tables) (n ver pad : Nat) (hp : pad = 1 ∨ pad = 2 ∨ pad = 4)
    (t : Blk (PayN n)) (hwf : t.WF (kitN tb n) ver pad) (bs pre post : B) (henc : t.enc (kitN tb n) ver pad = .ok bs) :
    Blk.dec (kitN tb n) ver pad (pre ++ bs ++ post) pre.length = .ok (some (t.refresh (kitN tb n)), pre.length + bs.length) := by
  obtain ⟨_, rfl⟩ := Blk.enc_ok henc
  exact Blk.dec_at (kitN_law tb n) hp hwf (At.intro pre _ post)

theorem typed_tagged_block_rewrite_identical (tb : Descriptor.Tables) (n ver pad : Nat) (hp : pad = 1 ∨ pad = 2 ∨ pad = 4)
    (t : Blk (PayN n)) (hwf : t.WF (kitN tb n) ver pad) (bs : B) (henc : t.enc (kitN tb n) ver pad = .ok bs)
    (t' : Blk (PayN n)) (q : Nat) (hread : Blk.dec (kitN tb n) ver pad bs 0 = .ok (some t', q)) :
    t'.enc (kitN tb n) ver pad = .ok bs := by
  have h := typed_tagged_block_roundtrip tb n ver pad hp t hwf bs [] [] henc
  simp only [List.nil_append, List.append_nil, List.length_nil, Nat.zero_add] at h
  rw [h] at hread
  cases hread
  rw [Blk.enc_refresh (kitN_law tb n), henc]

theorem typed_tagged_block_written_is_length (tb : Descriptor.Tables) (n ver pad : Nat) (t : Blk (PayN n)) (bs : B)
    (henc : t.enc (kitN tb n) ver pad = .ok bs) : t.encP (kitN tb n) ver pad = (bs, bs.length) := by
  obtain ⟨_, rfl⟩ := Blk.enc_ok henc
  exact Blk.encP_eq (kitN_law tb n) ver pad t

/-- the bytes of a typed block are the bytes of its skeleton view, and the skeleton reader returns that view -/
theorem typed_tagged_block_is_skeleton_block (tb : Descriptor.Tables) (n ver pad : Nat) (hp : pad = 1 ∨ pad = 2 ∨ pad = 4)
    (t : Blk (PayN n)) (hwf : t.WF (kitN tb n) ver pad) (pre post : B) :
    Psd.TaggedBlock.dec ver pad (pre ++ t.encT (kitN tb n) ver pad ++ post) pre.length =
      .ok (some (t.flat (kitN tb n) ver pad), pre.length + (t.encT (kitN tb n) ver pad).length) :=
  Psd.TaggedBlock.dec_at hp hwf.1 (At.intro pre _ post)

/-- the fallback the code has: a key that is not registered keeps the bytes of the length block, whatever they are -/
theorem unregistered_key_stays_raw (tb : Descriptor.Tables) (n ver : Nat) (key data : B) (h : keyKind key = .unregistered) :
    (kitN tb n).dec ver key data = .ok (.raw data) := by
  simp only [kitN, payKit, Pay.dec, h]

/-- ... and there is no other: whatever the payload reader of a registered class raises leaves `TaggedBlock.read` -/
theorem payload_reader_error_propagates (tb : Descriptor.Tables) (n ver : Nat) (key data : B) (c : TClass) (e : Err)
    (h : keyKind key = .plain c) (he : (c.codec tb 1).dec data 0 = .error e) : (kitN tb n).dec ver key data = .error e := by
  simp only [kitN, payKit, Pay.dec, h, he]

/-! ## the typed layer record, the typed `Lr16` / `Lr32` payload -/

theorem typed_layer_record_roundtrip (tb : Descriptor.Tables) (n ver : Nat) (r : Rec (PayN n))
    (hwf : (r.flat (kitN tb n) ver).WF ver) (hty : r.Typed (kitN tb n) ver) (pre post : B) :
    Rec.dec (kitN tb n) ver (pre ++ (r.flat (kitN tb n) ver).encT ver ++ post) pre.length =
      .ok (r.refresh (kitN tb n), pre.length + ((r.flat (kitN tb n) ver).encT ver).length) :=
  (Rec.dec_step (kitN_law tb n) hwf hty (At.intro_rest pre _ post)).1

/-- `LayerInfoBlock.read` on what `LayerInfoBlock.write` wrote, with the blocks of the nested records typed -/
theorem typed_layer_info_block_roundtrip (tb : Descriptor.Tables) (n ver pad : Nat) (li : Info (PayN n))
    (hwf : LayerInfoBlock.WF ver (li.flat (kitN tb n) ver)) (hty : li.Typed (kitN tb n) ver)
    (hf : LayerInfoBlock.Fits ver (li.flat (kitN tb n) ver)) (pre post : B) :
    Info.bodyDec (kitN tb n) ver (pre ++ LayerInfoBlock.encT ver pad (li.flat (kitN tb n) ver) ++ post) pre.length =
      .ok (li.blockRefresh (kitN tb n), pre.length + LayerInfoBlock.bodyLen ver (li.flat (kitN tb n) ver)) :=
  Info.bodyDec_at (kitN_law tb n) hwf hty hf (At.intro pre _ post)

/-! ## the whole document -/

/-- **the typed document**: reading what `PSD.write` emitted returns the document - every image resource, every
document-level block and every block of every layer record (adjustments, vector data, filter effects, effects, patterns,
linked layers, descriptors, type tool with its engine data, `Lr16` / `Lr32` with nested records and their own typed blocks)
as an object of its registered class - as the writer left it; PSD and PSB, any layer-info padding -/
theorem psd_roundtrip_typed (tb : Descriptor.Tables) (n pad : Nat) (x : TPSDN n) (hwf : x.WF tb (kitBelow tb n) pad) (bs : B)
    (henc : TPSD.enc tb (kitBelow tb n) pad x = .ok bs) :
    TPSD.read tb (kitBelow tb n) bs 0 = .ok (x.refresh tb (kitBelow tb n), bs.length) := by
  rw [(TPSD.enc_ok tb henc).1]
  exact TPSD.read_encT tb (kitBelow_law tb n) hwf

theorem psd_roundtrip_typed_fresh (tb : Descriptor.Tables) (n pad : Nat) (x : TPSDN n) (hwf : x.WF tb (kitBelow tb n) pad)
    (hfresh : x.refresh tb (kitBelow tb n) = x) (bs : B) (henc : TPSD.enc tb (kitBelow tb n) pad x = .ok bs) :
    TPSD.read tb (kitBelow tb n) bs 0 = .ok (x, bs.length) := by
  have := psd_roundtrip_typed tb n pad x hwf bs henc
  rwa [hfresh] at this

theorem psd_rewrite_identical_typed (tb : Descriptor.Tables) (n pad : Nat) (x : TPSDN n) (hwf : x.WF tb (kitBelow tb n) pad)
    (bs : B) (henc : TPSD.enc tb (kitBelow tb n) pad x = .ok bs) (x' : TPSDN n) (q : Nat)
    (hread : TPSD.read tb (kitBelow tb n) bs 0 = .ok (x', q)) : TPSD.enc tb (kitBelow tb n) pad x' = .ok bs := by
  rw [psd_roundtrip_typed tb n pad x hwf bs henc] at hread
  cases hread
  rw [TPSD.enc_refresh tb (kitBelow_law tb n), henc]

/-- the typed theorem extends `psd_roundtrip_resources`: same bytes, and the reader with typed resources and
`LayerInfoBlock`-typed document-level blocks returns the view of the typed document in which every other payload is the
bytes it writes - which is also the view of what the typed reader returns -/
theorem typed_refines_resources (tb : Descriptor.Tables) (n pad : Nat) (x : TPSDN n) (hwf : x.WF tb (kitBelow tb n) pad) (bs : B)
    (henc : TPSD.enc tb (kitBelow tb n) pad x = .ok bs) :
    ResPSD.enc tb pad (x.flatR tb (kitBelow tb n)) = .ok bs ∧
      ResPSD.read tb bs 0 = .ok ((x.flatR tb (kitBelow tb n)).refresh, bs.length) ∧
      (x.refresh tb (kitBelow tb n)).flatR tb (kitBelow tb n) = (x.flatR tb (kitBelow tb n)).refresh := by
  have h1 := (TPSD.enc_ok tb henc).2.1
  exact ⟨h1, C01Payload3.psd_roundtrip_resources tb pad _ hwf.1 bs h1, TPSD.flatR_refresh tb (kitBelow_law tb n) x⟩

/-- ... and, through `resources_refine_deep` / `deep_refines_skeleton`, the skeleton theorem `C01.psd_roundtrip` -/
theorem typed_refines_skeleton (tb : Descriptor.Tables) (n pad : Nat) (x : TPSDN n) (hwf : x.WF tb (kitBelow tb n) pad) (bs : B)
    (henc : TPSD.enc tb (kitBelow tb n) pad x = .ok bs) :
    PSD.enc pad (x.flat tb (kitBelow tb n)) = .ok bs ∧ PSD.read bs 0 = .ok ((x.flat tb (kitBelow tb n)).refresh, bs.length) := by
  have h1 := (typed_refines_resources tb n pad x hwf bs henc).1
  have h2 := (C01Payload3.resources_refine_deep tb pad _ hwf.1 bs h1).1
  have h3 := C01Payload.deep_refines_skeleton pad _ hwf.1.1 bs h2
  rw [TPSD.flat_flatR] at h3
  rw [DeepPSD.flat_refresh, TPSD.flat_flatR] at h3
  exact h3

theorem psd_enc_rejects_typed (tb : Descriptor.Tables) (n pad : Nat) (x : TPSDN n) (e : Err)
    (h : TPSD.enc tb (kitBelow tb n) pad x = .error e) : e = .structError ∨ e = .indexError := by
  unfold TPSD.enc at h
  split at h
  · rename_i e' he
    cases h
    unfold ResPSD.enc at he
    split at he
    · exact C01Payload.psd_enc_rejects_deep pad _ e he
    · cases he; exact Or.inl rfl
  · split at h
    · cases h
    · cases h; exact Or.inl rfl

/-! ## non-vacuity -/

theorem typed_sample_wf :
    TPSD.WF Typed.Samples.rtb (kitBelow Typed.Samples.rtb 1) 4 Typed.Samples.doc ∧
    TPSD.payloadFits Typed.Samples.rtb (kitBelow Typed.Samples.rtb 1) Typed.Samples.doc ∧
    ResPSD.payloadFits Typed.Samples.rtb (Typed.Samples.doc.flatR Typed.Samples.rtb (kitBelow Typed.Samples.rtb 1)) ∧
    ((Typed.Samples.doc.flatR Typed.Samples.rtb (kitBelow Typed.Samples.rtb 1)).flat Typed.Samples.rtb).flat.writeError 4 = none ∧
    DeepPSD.payloadFits ((Typed.Samples.doc.flatR Typed.Samples.rtb (kitBelow Typed.Samples.rtb 1)).flat Typed.Samples.rtb) := by
  decide +kernel

example : ∃ bs, TPSD.enc Typed.Samples.rtb (kitBelow Typed.Samples.rtb 1) 4 Typed.Samples.doc = .ok bs ∧
    TPSD.read Typed.Samples.rtb (kitBelow Typed.Samples.rtb 1) bs 0 =
      .ok (Typed.Samples.doc.refresh Typed.Samples.rtb (kitBelow Typed.Samples.rtb 1), bs.length) := by
  obtain ⟨_, h0, h1, h2, h3⟩ := typed_sample_wf
  have henc : TPSD.enc Typed.Samples.rtb (kitBelow Typed.Samples.rtb 1) 4 Typed.Samples.doc =
      .ok (((Typed.Samples.doc.flatR Typed.Samples.rtb (kitBelow Typed.Samples.rtb 1)).flat Typed.Samples.rtb).encT 4) := by
    unfold TPSD.enc ResPSD.enc DeepPSD.enc
    simp only [if_pos h1, h2, if_pos h3, if_pos h0]
  exact ⟨_, henc, psd_roundtrip_typed Typed.Samples.rtb 1 4 _ typed_sample_wf.1 _ henc⟩

theorem engine_samples_wf :
    (TypeToolTyped.codec Typed.Samples.rtb 4).WF Typed.Samples.typeTool ∧ (TypeToolTyped.codec Typed.Samples.rtb 4).Fits Typed.Samples.typeTool ∧
    (TypeToolTyped.codec Typed.Samples.rtb 4).WF Typed.Samples.typeToolBytes ∧ (TypeToolTyped.codec Typed.Samples.rtb 4).Fits Typed.Samples.typeToolBytes ∧
    EngineData2.codec.WF Typed.Samples.tree ∧ EngineData2.codec.Fits Typed.Samples.tree := by decide +kernel

/-! ### points excluded by `WF` (iii): the key decides the class -/

/-- bytes under the engine-data key that parse are read as an `EngineData` object (and written back in the indented
layout): such a `TySh` is not what the reader leaves -/
theorem type_tool_engine_bytes_follow_the_key :
    ¬ (TypeToolTyped.codec Typed.Samples.rtb 4).WF Typed.Samples.typeToolParsable ∧
      ((TypeToolTyped.codec Typed.Samples.rtb 4).dec ((TypeToolTyped.codec Typed.Samples.rtb 4).encT Typed.Samples.typeToolParsable) 0).map
        (fun r => r.1.engine.isSome) = .ok true := by decide +kernel

/-- raw bytes under a registered key are parsed as the class of the key; a payload of another class under a key is read
as the class of the key (here: `IntegerElement` under `lsct` is a section divider of kind 7: `ValueError`) -/
theorem block_payload_follows_the_key :
    ¬ Typed.Samples.rawUnderRegisteredKey.WF (kitN Typed.Samples.rtb 0) 1 1 ∧ ¬ Typed.Samples.classUnderOtherKey.WF (kitN Typed.Samples.rtb 0) 1 1 ∧
      (Blk.dec (kitN Typed.Samples.rtb 0) 1 1 (Typed.Samples.rawUnderRegisteredKey.encT (kitN Typed.Samples.rtb 0) 1 1) 0).map
        (fun r => r.1.map (fun t => match t.data with | .cls .integerElement v => some (v : Nat) | _ => none)) = .ok (some (some (1 : Nat))) ∧
      Descriptor.errorOf (Blk.dec (kitN Typed.Samples.rtb 0) 1 1 (Typed.Samples.classUnderOtherKey.encT (kitN Typed.Samples.rtb 0) 1 1) 0) =
        some .valueError := by decide +kernel

/-- the reader with no level left below a block raises `RecursionError` on an `Lr16` whose records hold blocks; with one
level it reads it -/
theorem nesting_beyond_the_levels :
    Descriptor.errorOf (Blk.dec (kitN Typed.Samples.rtb 0) 2 4
      (Blk.encT (kitN Typed.Samples.rtb 1) 2 4 ⟨Psd.Samples.s8BIM, Payload.Samples.kLr16, .info Typed.Samples.smallNested⟩) 0) = some .recursionError ∧
    (Blk.dec (kitN Typed.Samples.rtb 1) 2 4
      (Blk.encT (kitN Typed.Samples.rtb 1) 2 4 ⟨Psd.Samples.s8BIM, Payload.Samples.kLr16, .info Typed.Samples.smallNested⟩) 0).toBool = true := by
  decide +kernel

/-! ## ties -/

/-- every key of `tagged_blocks.TYPES` is dispatched to the class registered for it, every registered class is in the model,
the `LayerInfoBlock` keys are those of the deep document, an unknown key is not registered -/
theorem key_kind_tied :
    Generated.TypedDoc.taggedRegistry.all (fun r => match keyKind r.1 with
      | .plain c => c.name == r.2
      | .layerInfo => r.2 == "LayerInfoBlock"
      | _ => false) = true ∧
    layerInfoKeys.all (fun key => Generated.TypedDoc.taggedRegistry.lookup key == some "LayerInfoBlock") = true ∧
    keyKind Typed.Samples.kZzzz = .unregistered := by decide +kernel

theorem tagged_registry_tied : Generated.TypedDoc.taggedRegistry = Tables.taggedRegistry := by decide +kernel

/-- the payload read is `kls.frombytes(raw_data, version=version)` for a registered key and `raw_data` otherwise, and it is
not inside a `try` -/
theorem tagged_block_dispatch_tied :
    Generated.TypedDoc.taggedBlockDispatch = Tables.taggedBlockDispatch ∧
      Generated.TypedDoc.taggedBlockExcepts = Tables.taggedBlockExcepts := by decide +kernel

/-- the engine-data step of `TypeToolObjectSetting.read` (key, parse of a `bytes` value in place, `except Exception`),
`RawData.write` (the value's own `write` when it has one), the default layouts of `Dict.write` / `EngineData2.write` -/
theorem engine_data_tied :
    Generated.TypedDoc.typeToolEngine = Tables.typeToolEngine ∧ Generated.TypedDoc.engineDataKey = Tables.engineDataKey ∧
      Generated.TypedDoc.rawDataWriter = Tables.rawDataWriter ∧
      Generated.TypedDoc.engineDataLayouts = Tables.engineDataLayouts := by decide +kernel

end PsdVerif.C01Typed
