/-
C07 — imported pixels come back unchanged (band / plane / inversion bookkeeping).
Property theorems only; helper lemmas live in `Lemmas/Pixels.lean`.

Pixel content is universally quantified (`α`: 8-bit samples, `σ`: stored samples);
PIL's `convert`, `ImageChops.invert`, the depth encoding and the matte removal are
parameters with their laws as hypotheses (`Pil.Lawful`; `Px.LawfulAt d`: the sample laws at the depth
of the document, which `Px.Lawful` gives for every depth). `Props/C07Samples.lean` discharges both
for the arithmetic the code performs.
-/
import PsdVerif.Model.Pixels
import PsdVerif.Lemmas.Pixels
import PsdVerif.Generated.Pixels
set_option linter.unusedSimpArgs false

namespace PsdVerif.C07
open PsdVerif PsdVerif.Pixels

/-! ### the tables of the source are the model's (regenerated on every run) -/

theorem tables_tied :
    Generated.Pixels.expectedChannels = CMode.all.map (fun c => (c.name, c.expected)) ∧
    Generated.Pixels.colorModeChannels = CMode.all.map (fun c => (c.name, c.channels)) ∧
    Generated.Pixels.colorModeChannelsAlpha = CMode.all.map (fun c => (c.name, c.channels + 1)) ∧
    Generated.Pixels.pilChannels = Mode.all.map (fun m => (m.name, m.pilChannels)) ∧
    Generated.Pixels.pilMode =
      CMode.all.flatMap (fun c => [false, true].map fun a => (c.name, a, (c.pilMode a).name)) ∧
    Generated.Pixels.colorModeOf = Mode.all.map (fun m => (m.name, m.cmode.name)) ∧
    (∀ p ∈ Generated.Pixels.pilDepth, p.2 = 8) := by decide

section
variable {α σ : Type}

/-! ### document import → save → open → `topil()` -/

/-- For every image of mode 1, L, LA, RGB or CMYK the exported document is the source
(bitmap sources after their documented conversion to grayscale), band for band, with its
transparency (LA) and with an even number of inversions (CMYK). -/
theorem doc_import_export_partial (C : Pil α) (hC : C.Lawful) (P : Px α σ) (hP : P.LawfulAt 8)
    (img : Image α) (hwf : img.WF) (hm : img.mode ≠ .RGBA) :
    exportDocPil P (docImport C P img).1 (docImport C P img).2 = .ok (some (normalise C img)) := by
  by_cases h1 : img.mode = .one
  · have hm' : (C.conv .L img).mode = .L := hC.conv_mode _ _
    have hwf' := hC.conv_wf .L img hwf
    have := doc_core C P hP (C.conv .L img) hwf' (by rw [hm']; decide) (by rw [hm']; decide)
    simpa [docImport, normalise, h1, hm'] using this
  · have := doc_core C P hP img hwf h1 hm
    simpa [normalise, h1] using this

example : ∃ img : Image Nat, img.WF ∧ img.mode ≠ .RGBA :=
  ⟨{ mode := .CMYK, width := 1, height := 1, bands := [[1], [2], [3], [4]] }, by decide, by decide⟩

/-- RGBA: what comes back is the source with the white background "removed" from colour
planes that `frompil` stored as they came. -/
theorem doc_import_export_rgba (C : Pil α) (P : Px α σ) (hP : P.LawfulAt 8) (w h : Nat) (r g b a : List α) :
    let img : Image α := { mode := .RGBA, width := w, height := h, bands := [r, g, b, a] }
    exportDocPil P (docImport C P img).1 (docImport C P img).2 = .ok (some
      { img with bands := [List.zipWith P.unmatte r a, List.zipWith P.unmatte g a,
                           List.zipWith P.unmatte b a, a] }) :=
  doc_core_rgba C P hP w h r g b a

/-- … hence exact precisely on pixels whose alpha leaves the colour alone
(with the real arithmetic: alpha 0 or 255). -/
theorem doc_import_export_rgba_partial (C : Pil α) (P : Px α σ) (hP : P.LawfulAt 8) (w h : Nat)
    (r g b a : List α)
    (hu : ∀ c ∈ [r, g, b], List.zipWith P.unmatte c a = c) :
    let img : Image α := { mode := .RGBA, width := w, height := h, bands := [r, g, b, a] }
    exportDocPil P (docImport C P img).1 (docImport C P img).2 = .ok (some img) := by
  have := doc_core_rgba C P hP w h r g b a
  simp only at this ⊢
  rw [this, hu r (by simp), hu g (by simp), hu b (by simp)]

/-- the 8-bit arithmetic of `_remove_white_background` (truncating, clipped to 0…255) -/
def unmatte8 (x a : Nat) : Nat :=
  if a = 0 then x else min 255 ((x + a - 255) * 255 / a)

def px8 : Px Nat Nat :=
  { inv := fun x => 255 - x, full := 255, unmatte := unmatte8, store := fun _ x => x, load := fun _ x => x }

def pilId : Pil Nat := { conv := fun _ i => i }

example : ∃ r g b a : List Nat, ∀ c ∈ [r, g, b], List.zipWith px8.unmatte c a = c :=
  ⟨[10], [20], [30], [255], by decide⟩

/-- The full statement fails for RGBA: a half-transparent pixel (100, 100, 100, 128) comes
back as (0, 0, 0, 128). -/
theorem doc_import_export_rgba_fails :
    ¬ (∀ img : Image Nat, img.WF →
        exportDocPil px8 (docImport pilId px8 img).1 (docImport pilId px8 img).2
          = .ok (some (normalise pilId img))) := by
  intro h
  exact absurd (h { mode := .RGBA, width := 1, height := 1, bands := [[100], [100], [100], [128]] } (by decide))
    (by decide)

/-! ### layer import → save → open → `layer.topil()` -/

/-- For every source mode, every document colour mode (grayscale, RGB, CMYK), with or
without an alpha channel in the document, every depth and offset: the layer comes back at
its offset; its colour bands are the bands of `img.convert(doc.pil_mode)`; its transparency is
the source alpha when the image has one and opaque otherwise. (PIL has no CMYK mode with
alpha: there the transparency is what `topil(channel=-1)` returns.) -/
theorem layer_import_export (C : Pil α) (hC : C.Lawful) (P : Px α σ)
    (img : Image α) (hwf : img.WF) (hdr : Header) (hP : P.LawfulAt hdr.depth) (hb : hdr.cmode ≠ .bitmap) (top left : Int) :
    let src := normalise C img
    let alpha := (srcAlpha src).getD (List.replicate (img.width * img.height) P.full)
    ∃ l, layerImport C P img hdr top left = .ok l ∧
      (l.top, l.left, l.bottom, l.right) = (top, left, top + img.height, left + img.width) ∧
      exportLayerPil P hdr l = .ok
        { mode := layerPilMode hdr.cmode, width := img.width, height := img.height,
          bands := (C.conv hdr.pilMode src).bands.take hdr.cmode.channels ++
            (if hdr.cmode = .cmyk then [] else [alpha]) } ∧
      exportLayerAlpha P hdr l = .ok (some alpha) := by
  intro src alpha
  have hsrc : src.WF := by
    show (normalise C img).WF
    unfold normalise; split
    · exact hC.conv_wf _ _ hwf
    · exact hwf
  have hsw : src.width = img.width := by
    show (normalise C img).width = _
    unfold normalise; split
    · exact hC.conv_width _ _
    · rfl
  have hsh : src.height = img.height := by
    show (normalise C img).height = _
    unfold normalise; split
    · exact hC.conv_height _ _
    · rfl
  have hstep : layerImport C P img hdr top left
      = layerOfConverted P (srcAlpha src) (C.conv hdr.pilMode src) hdr.depth top left := by
    have ha := alpha_extraction C hC src hsrc
    have hdef : layerImport C P img hdr top left =
        (match (if src.mode.hasAlpha then (getBand (C.conv .RGBA src) 3).map some else Except.ok none) with
          | Except.error e => Except.error e
          | Except.ok alpha => layerOfConverted P alpha (C.conv hdr.pilMode src) hdr.depth top left) := rfl
    rw [hdef, ha]
  have hj := layer_converted P hdr hP (srcAlpha src) (C.conv hdr.pilMode src) (hC.conv_wf _ _ hsrc) hb
    (decide (hdr.channels > (hdr.cmode.pilMode false).pilChannels))
    (by rw [hC.conv_mode]; rfl) top left
  rw [hC.conv_width, hC.conv_height, hsw, hsh] at hj
  rw [hstep]
  exact hj

example : ∃ (img : Image Nat) (hdr : Header), img.WF ∧ hdr.cmode ≠ .bitmap :=
  ⟨{ mode := .RGBA, width := 1, height := 1, bands := [[1], [2], [3], [4]] },
   { cmode := .rgb, channels := 3, depth := 16, width := 2, height := 2 }, by decide, by decide⟩

/-! ### the PIL export and the NumPy export read the same planes -/

end

/-- Documents, grayscale and RGB: same colour planes in the same order with the same
treatment (no inversion, same matte removal); the band PIL appends is the plane NumPy has
at the transparency index. Premises on the metadata: a merged-transparency block only in
documents that have a channel beyond the colour channels, and alpha identifiers only for
such channels. -/
theorem pil_numpy_agree_doc_partial (m : Meta) (hc : m.header.cmode = .gray ∨ m.header.cmode = .rgb)
    (hmt : m.mergedTransparency = true → m.header.channels > m.header.cmode.expected)
    (hids : m.alphaIds.length + m.header.cmode.expected ≤ m.header.channels)
    (mode : Mode) (rs : List Route) (h : pilDocRoutes m = .ok (some (mode, rs))) :
    rs.take m.header.cmode.expected = (numpyDocRoutes m).take m.header.cmode.expected ∧
    ∀ r ∈ rs.drop m.header.cmode.expected, (numpyDocRoutes m)[r.plane]? = some r :=
  agree_doc m hc hmt hids mode rs h

example : ∃ m : Meta, (m.header.cmode = .gray ∨ m.header.cmode = .rgb) ∧
    (m.mergedTransparency = true → m.header.channels > m.header.cmode.expected) ∧
    m.alphaIds.length + m.header.cmode.expected ≤ m.header.channels ∧
    pilDocRoutes m = .ok (some (.RGBA, [⟨0, false, some 3⟩, ⟨1, false, some 3⟩, ⟨2, false, some 3⟩, ⟨3, false, none⟩])) :=
  ⟨{ header := { cmode := .rgb, channels := 4, depth := 8, width := 1, height := 1 } }, by decide, by decide, by decide, by decide⟩

/-- The full statement fails for CMYK: `topil()` inverts the four colour planes, `numpy()`
returns them as stored. -/
theorem pil_numpy_agree_doc_fails :
    ¬ (∀ (m : Meta) (mode : Mode) (rs : List Route), pilDocRoutes m = .ok (some (mode, rs)) →
        rs.take m.header.cmode.expected = (numpyDocRoutes m).take m.header.cmode.expected) := by
  intro h
  exact absurd (h { header := { cmode := .cmyk, channels := 4, depth := 8, width := 1, height := 1 } }
    .CMYK _ rfl) (by decide)

/-- Layers as `PixelLayer.frompil` builds them (channel ids −1, 0, …, n−1), grayscale and
RGB: `layer.topil()` and `layer.numpy()` read the same channels in the same order, the
transparency last, nothing inverted. -/
theorem pil_numpy_agree_layer_partial (hdr : Header) (hc : hdr.cmode = .gray ∨ hdr.cmode = .rgb) :
    ∃ rs, pilLayerRoutes hdr ((-1 : Int) :: (List.range hdr.cmode.channels).map Int.ofNat)
        = .ok (layerPilMode hdr.cmode, rs) ∧
      rs = numpyLayerRoutes hdr ((-1 : Int) :: (List.range hdr.cmode.channels).map Int.ofNat) := by
  obtain ⟨cm, ch, dp, w, h⟩ := hdr
  rcases hc with rfl | rfl <;> exact ⟨_, rfl, rfl⟩

/-- … and for CMYK layers the colour channels come out inverted from `topil()` and as
stored from `numpy()`, which also has the transparency that PIL cannot carry. -/
theorem pil_numpy_agree_layer_fails :
    ¬ (∀ hdr : Header, ∀ mode rs,
        pilLayerRoutes hdr ((-1 : Int) :: (List.range hdr.cmode.channels).map Int.ofNat) = .ok (mode, rs) →
        rs = (numpyLayerRoutes hdr ((-1 : Int) :: (List.range hdr.cmode.channels).map Int.ofNat)).take rs.length) := by
  intro h
  exact absurd (h { cmode := .cmyk, channels := 4, depth := 8, width := 1, height := 1 } .CMYK _ rfl) (by decide)

/-! ### parity and alpha, read off the model's own symbolic run

The driver runs the model on one-sample symbolic planes (`Sym`): this is what the harness
compares with the real pipeline. On these runs, for every source mode, document colour
mode, document alpha and depth: every band that `topil()` returns is an un-inverted,
fully decoded band of the converted source (even parity), and the transparency is the
source alpha or opaque. -/

def Sym.clean : Sym → Bool
  | .orig _ | .conv _ _ | .opaque => true
  | _ => false

def symLayerOk (m : Mode) (c : CMode) (alpha : Bool) (depth : Nat) : Bool :=
  let hdr : Header := { cmode := c, channels := c.channels + (if alpha then 1 else 0), depth := depth,
                        width := 4, height := 4 }
  match layerImport symPil symPx (symImage m) hdr 0 0 with
  | .error _ => false
  | .ok l =>
    (match exportLayerPil symPx hdr l with
     | .ok i => i.mode == layerPilMode c && i.bands.all (fun b => b.all Sym.clean)
     | .error _ => false) &&
    (match exportLayerAlpha symPx hdr l with
     | .ok (some a) => a == (if m.hasAlpha then [Sym.orig (m.nbands - 1)] else [Sym.opaque])
     | _ => false)

theorem sym_layer_parity_even :
    ∀ m ∈ Mode.all, ∀ c ∈ [CMode.gray, CMode.rgb, CMode.cmyk], ∀ alpha ∈ [false, true],
      ∀ depth ∈ [8, 16, 32], symLayerOk m c alpha depth = true := by decide

def symDocOk (m : Mode) : Bool :=
  let d := docImport symPil symPx (symImage m)
  match exportDocPil symPx d.1 d.2 with
  | .ok (some i) => i.bands.all (fun b => b.all Sym.clean)
  | _ => false

/-- documents: all modes but RGBA come back clean; RGBA comes back with the matte removal on it -/
theorem sym_doc_parity_even : ∀ m ∈ Mode.all, symDocOk m = (m != .RGBA) := by decide

end PsdVerif.C07
