/-
C02 on the payload layer — any payload the reader accepts is re-saved without loss or drift.

Props/C02.lean proves the property for the file skeleton, with tagged-block and image-resource payloads as opaque bytes.
Here it is lifted to the payload classes (every one a `PCodec`, Model/PayloadBase.lean), to the typed tagged block / image
resource and to whole documents with typed resources.

Reading guide
* `Encodable c v`  : `v.tobytes()` succeeds.  `DecOK c` : whatever `c`'s reader returns is encodable AND lies in the domain of
  C01's round-trip law (the reader normalises nothing away).  `Stable c` : for every accepted byte string `b` (on its own
  stream, the way `frombytes` runs the reader): `enc (dec b)` succeeds, its bytes re-read to the same value, and a second
  save gives the same bytes - the three clauses of the property. The saved bytes need NOT be `b` (the property does not ask).
* struct formats: `struct_read_fits_same_format`, and for a (read format, write format) PAIR `struct_pair_fits_iff`; the
  table of pairs of every class is regenerated from the AST of the source: `read_write_formats_compatible`.
* per combinator: `…_dec_ok` (Lemmas/PayloadResave.lean), `stable_of_dec_ok`.
* per class: `<class>_dec_encodable`, `<class>_resave_stable`.
-/
import PsdVerif.Lemmas.PayloadResave
import PsdVerif.Model.PayloadResaveTables
import PsdVerif.Generated.C02Formats

namespace PsdVerif.C02
open PsdVerif PsdVerif.Codec PsdVerif.Payload PsdVerif.Payload.PCodec PsdVerif.Payload3

/-! ## struct formats -/

/-- `read_fmt(fmt, fp)` returns a row that `write_fmt(fp, fmt, *row)` accepts (every integer in the range of its field,
`bytes` for `ns`) and that is in the domain of the round-trip law (a `bool` for `?`, all `n` bytes for `ns`) -/
theorem struct_read_fits_same_format (fs : List FI) (hok : fs.all FI.ok = true) (d : B) (p : Nat) (vs : Row) (p' : Nat)
    (h : fmtDec fs d p = .ok (vs, p')) : fmtFits fs vs ∧ fmtWF fs vs ∧ p' = p + fmtSize fs :=
  fmtDec_ok fs hok h

/-- a field unpacked with format `r` and packed with format `w`: the writer accepts whatever the reader returns IFF the pair
is accepting (`FT.accepts`: unsigned into at least as wide unsigned or strictly wider signed, signed into at least as wide
signed, never signed into unsigned, `?` into anything, integers never into `ns`, ...) -/
theorem struct_pair_fits_iff (r w : FT) (hr : r.ok = true) (hw : w.ok = true) :
    (∀ (d : B) (p : Nat) (v : FV) (p' : Nat), r.dec d p = .ok (v, p') → w.Fits v) ↔ r.accepts w = true :=
  FT.accepts_iff hr hw

/-- a whole row: accepting pair of formats => `struct.pack` accepts what `struct.unpack` returned, same size on disk -/
theorem struct_pair_accepting_sound (rs ws : List FI) (hr : rs.all FI.ok = true) (hw : ws.all FI.ok = true)
    (ha : fmtAccepts rs ws = true) (d : B) (p : Nat) (vs : Row) (p' : Nat) (h : fmtDec rs d p = .ok (vs, p')) :
    fmtFits ws vs ∧ fmtSize rs = fmtSize ws :=
  fmtDec_accepts rs ws hr hw ha h

/-- the same width with the other signedness is never accepting, in either direction -/
theorem struct_pair_signedness (a : Nat) : (FT.u a).accepts (.s a) = false ∧ (FT.s a).accepts (.u a) = false :=
  FT.unsigned_signed_not_accepting a

/-- the witness for `I` read / `i` written: `80 00 00 00` is read as 2147483648, which `struct.pack(">i", …)` rejects -/
theorem unsigned_read_signed_write_rejected :
    (FT.u 4).dec [0x80, 0, 0, 0] 0 = .ok (.int 2147483648, 4) ∧ ¬ (FT.s 4).Fits (.int 2147483648) ∧
      (FT.u 4).Fits (.int 2147483648) := by decide

example : ∃ fs, fs.all FI.ok = true ∧ ∃ d vs p', fmtDec fs d 0 = .ok (vs, p') :=
  ⟨[U 4], rfl, [0x80, 0, 0, 0], [.int 2147483648], 4, by decide⟩

/-! ## the table of (read format, write format) pairs of the source -/

/-- Every class of `psd_tools.psd` (regenerated from the AST of its reader and writer methods on every run): the `struct`
items its `read` unpacks are, item by item and in the same order, the items its `write` packs - or the class is one of the
eleven rows of `ResaveTables.asymmetricFormats`, with exactly the formats listed there. A `write` that packs a field with
another format than `read` unpacks (`i` for `I`, `H` for `I`, a field dropped or added) changes its row and breaks this. -/
theorem read_write_formats_compatible :
    Generated.C02Formats.pairs.all (fun r => r.2.1 == r.2.2 || fmtPairSame r.2.1 r.2.2 ||
      decide (r ∈ ResaveTables.asymmetricFormats)) = true ∧
    ResaveTables.asymmetricFormats.all (fun r => decide (r ∈ Generated.C02Formats.pairs)) = true ∧
    100 ≤ Generated.C02Formats.pairs.length := by decide +kernel

/-- the framing primitives (`…_length_block` with `fmt=` and `padding=`, `…_pascal_string` and `…_unicode_string` with
`padding=`): called with the same arguments, in the same order, by the reader and the writer of every class - or the class
is one of the rows of `ResaveTables.asymmetricFrames` -/
theorem frames_compatible :
    Generated.C02Formats.frames.all (fun r => r.2.1 == r.2.2 || decide (r ∈ ResaveTables.asymmetricFrames)) = true ∧
    ResaveTables.asymmetricFrames.all (fun r => decide (r ∈ Generated.C02Formats.frames)) = true := by decide +kernel

/-- the strong relation of the table implies the accepting one: same items => every value read is accepted -/
theorem same_formats_accepting (reads writes : List String) (h : fmtPairSame reads writes = true) :
    fmtPairAccepts reads writes = true := by
  unfold fmtPairSame at h
  unfold fmtPairAccepts
  split at h
  · rename_i r w hr hw
    simp only [beq_iff_eq] at h
    subst h
    exact fmtAccepts_self r
  · cases h

end PsdVerif.C02
