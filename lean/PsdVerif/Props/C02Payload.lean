/-
C02 on the payload layer — any payload the reader accepts is re-saved without loss or drift.

Props/C02.lean proves the property for the file skeleton, with tagged-block and image-resource payloads as opaque bytes.
Here it is lifted to the payload classes (every one a `PCodec`, Model/PayloadBase.lean), to the typed tagged block / image
resource and to whole documents with typed resources.

Reading guide
* `Encodable c v`  : `v.tobytes()` succeeds.  `DecOK c` : whatever `c`'s reader returns is encodable AND lies in the domain of
  C01's round-trip law (the reader normalises nothing away).  `Stable c` : for every accepted byte string `b` (on its own
  stream, the way `frombytes` runs the reader): `enc (dec b)` succeeds, its bytes re-read to the same value, and a second
  save gives the same bytes - the three clauses of the property. The saved bytes need NOT be `b` (the property does not ask).
* struct formats: `struct_read_fits_same_format`, and for a (read format, write format) PAIR `struct_pair_fits_iff`; the
  table of pairs of every class is regenerated from the AST of the source: `read_write_formats_compatible`.
* per combinator: `…_dec_ok` (Lemmas/PayloadResave.lean), `stable_of_dec_ok`.
* per class: `<class>_dec_encodable`, `<class>_resave_stable`.
-/
import PsdVerif.Lemmas.PayloadResaveSamples
import PsdVerif.Lemmas.Payload3Samples
import PsdVerif.Generated.Terms
import PsdVerif.Model.PayloadResaveTables
import PsdVerif.Generated.C02Formats
import PsdVerif.Generated.C02Guards

namespace PsdVerif.C02
open PsdVerif PsdVerif.Codec PsdVerif.Payload PsdVerif.Payload.PCodec PsdVerif.Payload3

/-! ## struct formats -/

/-- `read_fmt(fmt, fp)` returns a row that `write_fmt(fp, fmt, *row)` accepts (every integer in the range of its field,
`bytes` for `ns`) and that is in the domain of the round-trip law (a `bool` for `?`, all `n` bytes for `ns`) -/
theorem struct_read_fits_same_format (fs : List FI) (hok : fs.all FI.ok = true) (d : B) (p : Nat) (vs : Row) (p' : Nat)
    (h : fmtDec fs d p = .ok (vs, p')) : fmtFits fs vs ∧ fmtWF fs vs ∧ p' = p + fmtSize fs :=
  fmtDec_ok fs hok h

/-- a field unpacked with format `r` and packed with format `w`: the writer accepts whatever the reader returns IFF the pair
is accepting (`FT.accepts`: unsigned into at least as wide unsigned or strictly wider signed, signed into at least as wide
signed, never signed into unsigned, `?` into anything, integers never into `ns`, ...) -/
theorem struct_pair_fits_iff (r w : FT) (hr : r.ok = true) (hw : w.ok = true) :
    (∀ (d : B) (p : Nat) (v : FV) (p' : Nat), r.dec d p = .ok (v, p') → w.Fits v) ↔ r.accepts w = true :=
  FT.accepts_iff hr hw

/-- a whole row: accepting pair of formats => `struct.pack` accepts what `struct.unpack` returned, same size on disk -/
theorem struct_pair_accepting_sound (rs ws : List FI) (hr : rs.all FI.ok = true) (hw : ws.all FI.ok = true)
    (ha : fmtAccepts rs ws = true) (d : B) (p : Nat) (vs : Row) (p' : Nat) (h : fmtDec rs d p = .ok (vs, p')) :
    fmtFits ws vs ∧ fmtSize rs = fmtSize ws :=
  fmtDec_accepts rs ws hr hw ha h

/-- the same width with the other signedness is never accepting, in either direction -/
theorem struct_pair_signedness (a : Nat) : (FT.u a).accepts (.s a) = false ∧ (FT.s a).accepts (.u a) = false :=
  FT.unsigned_signed_not_accepting a

/-- the witness for `I` read / `i` written: `80 00 00 00` is read as 2147483648, which `struct.pack(">i", …)` rejects -/
theorem unsigned_read_signed_write_rejected :
    (FT.u 4).dec [0x80, 0, 0, 0] 0 = .ok (.int 2147483648, 4) ∧ ¬ (FT.s 4).Fits (.int 2147483648) ∧
      (FT.u 4).Fits (.int 2147483648) := by decide

example : ∃ fs, fs.all FI.ok = true ∧ ∃ d vs p', fmtDec fs d 0 = .ok (vs, p') :=
  ⟨[U 4], rfl, [0x80, 0, 0, 0], [.int 2147483648], 4, by decide⟩

/-! ## the table of (read format, write format) pairs of the source -/

/-- Every class of `psd_tools.psd` (regenerated from the AST of its reader and writer methods on every run): the `struct`
items its `read` unpacks are, item by item and in the same order, the items its `write` packs - or the class is one of the
nine rows of `ResaveTables.asymmetricFormats`, with exactly the formats listed there. A `write` that packs a field with
another format than `read` unpacks (`i` for `I`, `H` for `I`, a field dropped or added) changes its row and breaks this. -/
theorem read_write_formats_compatible :
    Generated.C02Formats.pairs.all (fun r => r.2.1 == r.2.2 || fmtPairSame r.2.1 r.2.2 ||
      decide (r ∈ ResaveTables.asymmetricFormats)) = true ∧
    ResaveTables.asymmetricFormats.all (fun r => decide (r ∈ Generated.C02Formats.pairs)) = true ∧
    100 ≤ Generated.C02Formats.pairs.length := by decide +kernel

/-- **Optional parts are decided by the same test on both sides.** For every class of `psd_tools.psd` (regenerated from the AST
on every run): each test on a stored field under which the READER parses an optional part (`flags.parameters_applied`,
`version >= 2`, `id == ColorSpaceID.LAB` ...) is, word for word, a test under which the WRITER emits one - or the class is one
of the rows of `ResaveTables.asymmetricGuards`, with exactly the tests listed there. A reader that starts to parse a trailer
under a flag the writer does not look at (the part is read, dropped by the save, and the file re-reads differently) adds a
reader test without a writer counterpart and breaks this. Tests on what is left in the stream (`is_readable`, `length >= 36`)
are not field tests: what they let through is covered by the byte-level search. -/
theorem optional_part_tests_shared :
    Generated.C02Guards.rows.all (fun r => r.2.1.all (fun t => r.2.2.contains t) ||
      decide (r ∈ ResaveTables.asymmetricGuards)) = true ∧
    ResaveTables.asymmetricGuards.all (fun r => decide (r ∈ Generated.C02Guards.rows)) = true ∧
    20 ≤ Generated.C02Guards.rows.length := by decide +kernel

/-- the framing primitives (`…_length_block` with `fmt=` and `padding=`, `…_pascal_string` and `…_unicode_string` with
`padding=`): called with the same arguments, in the same order, by the reader and the writer of every class - or the class
is one of the rows of `ResaveTables.asymmetricFrames` -/
theorem frames_compatible :
    Generated.C02Formats.frames.all (fun r => r.2.1 == r.2.2 || decide (r ∈ ResaveTables.asymmetricFrames)) = true ∧
    ResaveTables.asymmetricFrames.all (fun r => decide (r ∈ Generated.C02Formats.frames)) = true := by decide +kernel

/-- the flat models use ONE format on both sides because the source does: for the 38 classes of `ResaveSamples.modelFormats` both
lists of the regenerated row parse to exactly the items of the model -/
theorem model_formats_are_the_source_pairs :
    ResaveSamples.modelFormats.all (fun m => match Generated.C02Formats.pairs.lookup m.1 with
      | some (r, w) => parseFmts r == some m.2 && parseFmts w == some m.2
      | none => false) = true ∧ 30 ≤ ResaveSamples.modelFormats.length := by decide +kernel

/-- the strong relation of the table implies the accepting one: same items => every value read is accepted -/
theorem same_formats_accepting (reads writes : List String) (h : fmtPairSame reads writes = true) :
    fmtPairAccepts reads writes = true := by
  unfold fmtPairSame at h
  unfold fmtPairAccepts
  split at h
  · rename_i r w hr hw
    simp only [beq_iff_eq] at h
    subst h
    exact fmtAccepts_self r
  · cases h


/-! ## the generic laws (Lemmas/PayloadResave.lean), per combinator -/

/-- `dec_returns_encodable` for every codec that has `DecOK`: whatever the reader returns, `tobytes()` succeeds on -/
theorem dec_returns_encodable {α : Type} (c : PCodec α) (h : DecOK c) (d : B) (p : Nat) (v : α) (p' : Nat)
    (hd : c.dec d p = .ok (v, p')) : Encodable c v := h.encodable hd

/-- the three clauses of the property for one payload follow from `DecOK` and C01's round-trip law -/
theorem stable_of_dec_ok {α : Type} (c : PCodec α) (h : DecOK c) (hr : c.RtAtEnd) : Stable c := stable_of h hr
theorem stable_of_dec_ok_if {α : Type} (c : PCodec α) (L : α → Prop) (h : DecOKIf c L) (hr : c.RtAtEnd) : StableIf c L :=
  stableIf_of h hr

theorem rec_dec_ok (fs : List FI) (hok : fs.all FI.ok = true) : DecOK (rec fs) := rec_decOK fs hok
theorem seq_dec_ok {α β : Type} (a : PCodec α) (b : PCodec β) (ha : DecOK a) (hb : DecOK b) : DecOK (seq a b) := seq_decOK ha hb
theorem counted_dec_ok {α : Type} (w : Nat) (c : PCodec α) (hc : DecOK c) : DecOK (counted w c) := counted_decOK w hc
theorem exactly_dec_ok {α : Type} (n : Nat) (c : PCodec α) (hc : DecOK c) : DecOK (exactly n c) := exactly_decOK n hc
theorem while_dec_ok {α : Type} (n pad : Nat) (c : PCodec α) (hc : DecOK c) : DecOK (whileR n pad c) := whileR_decOK n pad hc
theorem padded_dec_ok {α : Type} (pad : Nat) (c : PCodec α) (hc : DecOK c) : DecOK (padded pad c) := padded_decOK pad hc
theorem checked_dec_ok {α : Type} (c : PCodec α) (ok : α → Prop) [DecidablePred ok] (e : Err) (hc : DecOK c) :
    DecOK (checked c ok e) := checked_decOK hc
theorem tail_bytes_dec_ok : DecOK tailBytes := tailBytes_decOK
theorem pascal_dec_ok (pw pr : Nat) : DecOK (pascal pw pr) := pascal_decOK pw pr
theorem ustr_dec_ok : DecOK ustr := ustr_decOK
theorem opt_tail_dec_ok {α : Type} (c : PCodec α) (hc : DecOK c) : DecOK (optTail c) := optTail_decOK hc
/-- `blocked` is the one combinator with a derived length: the law holds under exactly that length hypothesis -/
theorem blocked_dec_ok_if {α : Type} (w pad : Nat) (c : PCodec α) (L : α → Prop) (hc : DecOKIf c L) :
    DecOKIf (blocked w pad c) (fun v => L v ∧ FitsU w (c.encT v).length) := blocked_decOKIf w pad hc
theorem blocked_encodable_iff {α : Type} (w pad : Nat) (c : PCodec α) (v : α) (hf : c.Fits v) :
    (blocked w pad c).Fits v ↔ FitsU w (c.encT v).length := blocked_fits_iff w pad v hf
/-- the side-condition forms compose the same way -/
theorem seq_dec_ok_if {α β : Type} (a : PCodec α) (b : PCodec β) (La : α → Prop) (Lb : β → Prop) (ha : DecOKIf a La)
    (hb : DecOKIf b Lb) : DecOKIf (seq a b) (fun v => La v.1 ∧ Lb v.2) := seq_decOKIf ha hb
theorem while_dec_ok_if {α : Type} (n pad : Nat) (c : PCodec α) (L : α → Prop) (hc : DecOKIf c L) :
    DecOKIf (whileR n pad c) (fun vs => ∀ v ∈ vs, L v) := whileR_decOKIf n pad hc
theorem counted_dec_ok_if {α : Type} (w : Nat) (c : PCodec α) (L : α → Prop) (hc : DecOKIf c L) :
    DecOKIf (counted w c) (fun vs => ∀ v ∈ vs, L v) := counted_decOKIf w hc

/-! ## per class: `<class>_dec_encodable` (whatever the class's reader returns is writable and in the domain of the round
trip) and `<class>_resave_stable` (the three clauses). `…_partial`: under the side condition named in the statement - C01's
`chainOK` for the version-6 slices, or the length field of a re-encoded block. -/

/-! ### unit 7: image-resource payloads -/

theorem alpha_identifiers_dec_encodable : DecOK AlphaIdentifiers.codec := AlphaIdentifiers.decOK
theorem alpha_identifiers_resave_stable : Stable AlphaIdentifiers.codec := stable_of AlphaIdentifiers.decOK AlphaIdentifiers.rt
theorem alpha_names_pascal_dec_encodable : DecOK AlphaNamesPascal.codec := AlphaNamesPascal.decOK
theorem alpha_names_pascal_resave_stable : Stable AlphaNamesPascal.codec := stable_of AlphaNamesPascal.decOK AlphaNamesPascal.rt
theorem alpha_names_unicode_dec_encodable : DecOK AlphaNamesUnicode.codec := AlphaNamesUnicode.decOK
theorem alpha_names_unicode_resave_stable : Stable AlphaNamesUnicode.codec := stable_of AlphaNamesUnicode.decOK AlphaNamesUnicode.rt
theorem alpha_channel_dec_encodable : DecOK AlphaChannel.codec := AlphaChannel.decOK
theorem alpha_channel_resave_stable : Stable AlphaChannel.codec := stable_of AlphaChannel.decOK AlphaChannel.rt.atEnd
theorem display_info_dec_encodable : DecOK DisplayInfo.codec := DisplayInfo.decOK
theorem display_info_resave_stable : Stable DisplayInfo.codec := stable_of DisplayInfo.decOK DisplayInfo.rt
theorem resource_byte_dec_encodable : DecOK Byte.codec := Byte.decOK
theorem resource_byte_resave_stable : Stable Byte.codec := stable_of Byte.decOK Byte.rt.atEnd
theorem grid_guides_info_dec_encodable : DecOK GridGuidesInfo.codec := GridGuidesInfo.decOK
theorem grid_guides_info_resave_stable : Stable GridGuidesInfo.codec := stable_of GridGuidesInfo.decOK GridGuidesInfo.rt.atEnd
/-- frequency `I` and angle `i` (16.16): read and written with the same formats (`read_write_formats_compatible`) -/
theorem halftone_screen_dec_encodable : DecOK HalftoneScreen.codec := HalftoneScreen.decOK
theorem halftone_screen_resave_stable : Stable HalftoneScreen.codec := stable_of HalftoneScreen.decOK HalftoneScreen.rt.atEnd
theorem halftone_screens_dec_encodable : DecOK HalftoneScreens.codec := HalftoneScreens.decOK
theorem halftone_screens_resave_stable : Stable HalftoneScreens.codec := stable_of HalftoneScreens.decOK HalftoneScreens.rt
theorem resource_integer_dec_encodable : DecOK Integer.codec := Integer.decOK
theorem resource_integer_resave_stable : Stable Integer.codec := stable_of Integer.decOK Integer.rt.atEnd
theorem layer_group_enabled_ids_dec_encodable : DecOK LayerGroupEnabledIDs.codec := LayerGroupEnabledIDs.decOK
theorem layer_group_enabled_ids_resave_stable : Stable LayerGroupEnabledIDs.codec := stable_of LayerGroupEnabledIDs.decOK LayerGroupEnabledIDs.rt
theorem layer_group_info_dec_encodable : DecOK LayerGroupInfo.codec := LayerGroupInfo.decOK
theorem layer_group_info_resave_stable : Stable LayerGroupInfo.codec := stable_of LayerGroupInfo.decOK LayerGroupInfo.rt
theorem layer_selection_ids_dec_encodable : DecOK LayerSelectionIDs.codec := LayerSelectionIDs.decOK
theorem layer_selection_ids_resave_stable : Stable LayerSelectionIDs.codec := stable_of LayerSelectionIDs.decOK LayerSelectionIDs.rt.atEnd
theorem resource_short_integer_dec_encodable : DecOK ShortInteger.codec := ShortInteger.decOK
theorem resource_short_integer_resave_stable : Stable ShortInteger.codec := stable_of ShortInteger.decOK ShortInteger.rt.atEnd
/-- read with `padding=2`, written with `padding=1`: a filler byte tolerated on read is not written back; the three clauses hold -/
theorem pascal_string_dec_encodable : DecOK PascalString.codec := PascalString.decOK
theorem pascal_string_resave_stable : Stable PascalString.codec := stable_of PascalString.decOK PascalString.rt
theorem pixel_aspect_ratio_dec_encodable : DecOK PixelAspectRatio.codec := PixelAspectRatio.decOK
theorem pixel_aspect_ratio_resave_stable : Stable PixelAspectRatio.codec := stable_of PixelAspectRatio.decOK PixelAspectRatio.rt.atEnd
/-- the ninth flag is read when a byte is left; any non-zero flag byte is re-written as 1 -/
theorem print_flags_dec_encodable : DecOK PrintFlags.codec := PrintFlags.decOK
theorem print_flags_resave_stable : Stable PrintFlags.codec := stable_of PrintFlags.decOK PrintFlags.rt
theorem print_flags_info_dec_encodable : DecOK PrintFlagsInfo.codec := PrintFlagsInfo.decOK
theorem print_flags_info_resave_stable : Stable PrintFlagsInfo.codec := stable_of PrintFlagsInfo.decOK PrintFlagsInfo.rt.atEnd
theorem print_scale_dec_encodable : DecOK PrintScale.codec := PrintScale.decOK
theorem print_scale_resave_stable : Stable PrintScale.codec := stable_of PrintScale.decOK PrintScale.rt.atEnd
theorem resolution_info_dec_encodable : DecOK ResolutionInfo.codec := ResolutionInfo.decOK
theorem resolution_info_resave_stable : Stable ResolutionInfo.codec := stable_of ResolutionInfo.decOK ResolutionInfo.rt.atEnd
/-- `fp.read(size)` is lenient: a declared size beyond the data is re-written as the size of what was read -/
theorem thumbnail_resource_dec_encodable : DecOK Thumbnail.codec := Thumbnail.decOK
theorem thumbnail_resource_resave_stable : Stable Thumbnail.codec := stable_of Thumbnail.decOK Thumbnail.rt.atEnd
theorem transfer_function_dec_encodable : DecOK TransferFunction.codec := TransferFunction.decOK
theorem transfer_function_resave_stable : Stable TransferFunction.codec := stable_of TransferFunction.decOK TransferFunction.rt.atEnd
theorem transfer_functions_dec_encodable : DecOK TransferFunctions.codec := TransferFunctions.decOK
theorem transfer_functions_resave_stable : Stable TransferFunctions.codec := stable_of TransferFunctions.decOK TransferFunctions.rt
theorem url_item_dec_encodable : DecOK URLItem.codec := URLItem.decOK
theorem url_item_resave_stable : Stable URLItem.codec := stable_of URLItem.decOK URLItem.rt.atEnd
theorem url_list_dec_encodable : DecOK URLList.codec := URLList.decOK
theorem url_list_resave_stable : Stable URLList.codec := stable_of URLList.decOK URLList.rt.atEnd
theorem version_info_dec_encodable : DecOK VersionInfo.codec := VersionInfo.decOK
theorem version_info_resave_stable : Stable VersionInfo.codec := stable_of VersionInfo.decOK VersionInfo.rt.atEnd
theorem slice_v6_dec_encodable (tb : Descriptor.Tables) (ht : Descriptor.TermsFour tb) : DecOK (SliceV6.codec tb) := SliceV6.decOK tb ht
theorem slice_v6_resave_stable (tb : Descriptor.Tables) (ht : Descriptor.TermsFour tb) : Stable (SliceV6.codec tb) := stable_of (SliceV6.decOK tb ht) (SliceV6.rt tb)
/-- under C01's (F) clause `chainOK`: a slice without descriptor is not followed by a slice whose id is 16 (known finding C01/slices/id16-after-slice-without-data) -/
theorem slices_v6_dec_encodable_partial (tb : Descriptor.Tables) (ht : Descriptor.TermsFour tb) : DecOKIf (SlicesV6.codec tb) SlicesV6.ResaveOK := SlicesV6.decOKIf tb ht
theorem slices_v6_resave_stable_partial (tb : Descriptor.Tables) (ht : Descriptor.TermsFour tb) : StableIf (SlicesV6.codec tb) SlicesV6.ResaveOK := stableIf_of (SlicesV6.decOKIf tb ht) (SlicesV6.rt tb)
theorem slices_dec_encodable_partial (tb : Descriptor.Tables) (ht : Descriptor.TermsFour tb) : DecOKIf (Slices.codec tb) Slices.ResaveOK := Slices.decOKIf tb ht
theorem slices_resave_stable_partial (tb : Descriptor.Tables) (ht : Descriptor.TermsFour tb) : StableIf (Slices.codec tb) Slices.ResaveOK := stableIf_of (Slices.decOKIf tb ht) (Slices.rt tb)
/-- after repo commit bb0349d (a key cut short is an IOError) nothing the descriptor reader returns is outside the round trip -/
theorem descriptor_resource_dec_encodable (tb : Descriptor.Tables) (ht : Descriptor.TermsFour tb) : DecOK (DescriptorResource.codec tb) := DescriptorResource.decOK tb ht
theorem descriptor_resource_resave_stable (tb : Descriptor.Tables) (ht : Descriptor.TermsFour tb) : Stable (DescriptorResource.codec tb) := stable_of (DescriptorResource.decOK tb ht) (DescriptorResource.rt tb).atEnd

/-! ### unit 8: adjustments -/

theorem brightness_contrast_dec_encodable : DecOK BrightnessContrast.codec := BrightnessContrast.decOK
theorem brightness_contrast_resave_stable : Stable BrightnessContrast.codec := stable_of BrightnessContrast.decOK BrightnessContrast.rt.atEnd
theorem color_balance_dec_encodable : DecOK ColorBalance.codec := ColorBalance.decOK
theorem color_balance_resave_stable : Stable ColorBalance.codec := stable_of ColorBalance.decOK ColorBalance.rt.atEnd
theorem color_lookup_dec_encodable (tb : Descriptor.Tables) (ht : Descriptor.TermsFour tb) (pad : Nat) : DecOK (ColorLookup.codec tb pad) := ColorLookup.decOK tb ht pad
theorem color_lookup_resave_stable (tb : Descriptor.Tables) (ht : Descriptor.TermsFour tb) (pad : Nat) : Stable (ColorLookup.codec tb pad) := stable_of (ColorLookup.decOK tb ht pad) (ColorLookup.rt tb pad).atEnd
theorem channel_mixer_dec_encodable : DecOK ChannelMixer.codec := ChannelMixer.decOK
theorem channel_mixer_resave_stable : Stable ChannelMixer.codec := stable_of ChannelMixer.decOK ChannelMixer.rt
/-- the flag byte is read as a truth value; for version 1 the extra marker is kept only when its read does not run out of data -/
theorem curves_dec_encodable : DecOK Curves.codec := Curves.decOK
theorem curves_resave_stable : Stable Curves.codec := stable_of Curves.decOK Curves.rt
theorem gradient_map_dec_encodable : DecOK GradientMap.codec := GradientMap.decOK
theorem gradient_map_resave_stable : Stable GradientMap.codec := stable_of GradientMap.decOK GradientMap.rt.atEnd
theorem color_stop_dec_encodable : DecOK ColorStop.codec := ColorStop.decOK
theorem color_stop_resave_stable : Stable ColorStop.codec := stable_of ColorStop.decOK ColorStop.rt.atEnd
theorem transparency_stop_dec_encodable : DecOK TransparencyStop.codec := TransparencyStop.decOK
theorem transparency_stop_resave_stable : Stable TransparencyStop.codec := stable_of TransparencyStop.decOK TransparencyStop.rt.atEnd
theorem exposure_dec_encodable (pad : Nat) : DecOK (Exposure.codec pad) := Exposure.decOK pad
theorem exposure_resave_stable (pad : Nat) : Stable (Exposure.codec pad) := stable_of (Exposure.decOK pad) (Exposure.rt pad).atEnd
theorem hue_saturation_dec_encodable : DecOK HueSaturation.codec := HueSaturation.decOK
theorem hue_saturation_resave_stable : Stable HueSaturation.codec := stable_of HueSaturation.decOK HueSaturation.rt.atEnd
/-- a `Lvls` trailer whose count is below 29 is re-written with the count 29 -/
theorem levels_dec_encodable : DecOK Levels.codec := Levels.decOK
theorem levels_resave_stable : Stable Levels.codec := stable_of Levels.decOK Levels.rt
theorem level_record_dec_encodable : DecOK LevelRecord.codec := LevelRecord.decOK
theorem level_record_resave_stable : Stable LevelRecord.codec := stable_of LevelRecord.decOK LevelRecord.rt.atEnd
theorem photo_filter_dec_encodable : DecOK PhotoFilter.codec := PhotoFilter.decOK
theorem photo_filter_resave_stable : Stable PhotoFilter.codec := stable_of PhotoFilter.decOK PhotoFilter.rt.atEnd
theorem selective_color_dec_encodable : DecOK SelectiveColor.codec := SelectiveColor.decOK
theorem selective_color_resave_stable : Stable SelectiveColor.codec := stable_of SelectiveColor.decOK SelectiveColor.rt.atEnd

/-! ### unit 9: vector data -/

theorem path_record_dec_encodable : DecOK PItem.codec := PItem.decOK
theorem path_record_resave_stable : Stable PItem.codec := stable_of PItem.decOK PItem.rt.atEnd
/-- `Path` with the paddings its callers pass (1, 4) -/
theorem path_dec_encodable (pad : Nat) (hp : 0 < pad ∧ pad ≤ 26) : DecOK (Path.codec pad) := Path.decOK pad hp
theorem path_resave_stable (pad : Nat) (hp : 0 < pad ∧ pad ≤ 26) : Stable (Path.codec pad) := stable_of (Path.decOK pad hp) (Path.rt pad)
theorem vector_mask_setting_dec_encodable : DecOK VectorMaskSetting.codec := VectorMaskSetting.decOK
theorem vector_mask_setting_resave_stable : Stable VectorMaskSetting.codec := stable_of VectorMaskSetting.decOK VectorMaskSetting.rt
theorem vector_stroke_content_setting_dec_encodable (tb : Descriptor.Tables) (ht : Descriptor.TermsFour tb) (pad : Nat) : DecOK (VectorStrokeContentSetting.codec tb pad) := VectorStrokeContentSetting.decOK tb ht pad
theorem vector_stroke_content_setting_resave_stable (tb : Descriptor.Tables) (ht : Descriptor.TermsFour tb) (pad : Nat) : Stable (VectorStrokeContentSetting.codec tb pad) := stable_of (VectorStrokeContentSetting.decOK tb ht pad) (VectorStrokeContentSetting.rt tb pad).atEnd
theorem descriptor_payload_dec_encodable (tb : Descriptor.Tables) (ht : Descriptor.TermsFour tb) (pad : Nat) : DecOK (DescriptorPayload.codec tb pad) := DescriptorPayload.decOK tb ht pad
theorem descriptor_payload_resave_stable (tb : Descriptor.Tables) (ht : Descriptor.TermsFour tb) (pad : Nat) : Stable (DescriptorPayload.codec tb pad) := stable_of (DescriptorPayload.decOK tb ht pad) (DescriptorPayload.rt tb pad).atEnd
theorem descriptor2_payload_dec_encodable (tb : Descriptor.Tables) (ht : Descriptor.TermsFour tb) (pad : Nat) : DecOK (Descriptor2Payload.codec tb pad) := Descriptor2Payload.decOK tb ht pad
theorem descriptor2_payload_resave_stable (tb : Descriptor.Tables) (ht : Descriptor.TermsFour tb) (pad : Nat) : Stable (Descriptor2Payload.codec tb pad) := stable_of (Descriptor2Payload.decOK tb ht pad) (Descriptor2Payload.rt tb pad).atEnd

/-! ### unit 10: filter effects -/

theorem filter_effect_channel_dec_encodable : DecOK FEChannel.codec := FEChannel.decOK
theorem filter_effect_channel_resave_stable : Stable FEChannel.codec := stable_of FEChannel.decOK FEChannel.rt.atEnd
theorem filter_effect_extra_dec_encodable : DecOK FEExtra.codec := FEExtra.decOK
theorem filter_effect_extra_resave_stable : Stable FEExtra.codec := stable_of FEExtra.decOK FEExtra.rt.atEnd
/-- the side condition is the 8-byte length field of the re-encoded body -/
theorem filter_effect_dec_encodable_partial : DecOKIf FilterEffect.codec FilterEffect.LenFits := FilterEffect.decOKIf
theorem filter_effect_resave_stable_partial : StableIf FilterEffect.codec FilterEffect.LenFits := stableIf_of FilterEffect.decOKIf FilterEffect.rt
theorem filter_effects_dec_encodable_partial : DecOKIf FilterEffects.codec FilterEffects.LenFits := FilterEffects.decOKIf
theorem filter_effects_resave_stable_partial : StableIf FilterEffects.codec FilterEffects.LenFits := stableIf_of FilterEffects.decOKIf FilterEffects.rt

/-! ### units 2-6: element classes, fixed-layout tagged-block payloads, effects, patterns, linked layers, descriptor wrappers -/

theorem empty_element_dec_encodable : DecOK EmptyElement.codec := EmptyElement.decOK
theorem empty_element_resave_stable : Stable EmptyElement.codec := stable_of EmptyElement.decOK EmptyElement.rt.atEnd
theorem numeric_element_dec_encodable : DecOK NumericElement.codec := NumericElement.decOK
theorem numeric_element_resave_stable : Stable NumericElement.codec := stable_of NumericElement.decOK NumericElement.rt.atEnd
theorem integer_element_dec_encodable : DecOK IntegerElement.codec := IntegerElement.decOK
theorem integer_element_resave_stable : Stable IntegerElement.codec := stable_of IntegerElement.decOK IntegerElement.rt.atEnd
/-- `try: read_fmt("H2x") except IOError: read_fmt("H")`: a 2-byte payload is re-written with the filler (4 bytes); the three clauses hold -/
theorem short_integer_element_dec_encodable : DecOK ShortIntegerElement.codec := ShortIntegerElement.decOK
theorem short_integer_element_resave_stable : Stable ShortIntegerElement.codec := stable_of ShortIntegerElement.decOK ShortIntegerElement.rt.atEnd
theorem byte_element_dec_encodable : DecOK ByteElement.codec := ByteElement.decOK
theorem byte_element_resave_stable : Stable ByteElement.codec := stable_of ByteElement.decOK ByteElement.rt.atEnd
theorem boolean_element_dec_encodable : DecOK BooleanElement.codec := BooleanElement.decOK
theorem boolean_element_resave_stable : Stable BooleanElement.codec := stable_of BooleanElement.decOK BooleanElement.rt.atEnd
/-- with the paddings the containers pass -/
theorem string_element_dec_encodable (pw pr : Nat) (hp : pr = 1 ∨ pr = pw) (hw : pw ≠ 0) : DecOK (StringElement.codec pw pr) := stringElement_decOK pw pr hp hw
theorem string_element_resave_stable (pw pr : Nat) (hp : pr = 1 ∨ pr = pw) (hw : pw ≠ 0) : Stable (StringElement.codec pw pr) := stable_of (stringElement_decOK pw pr hp hw) (StringElement.rt pw pr).atEnd
theorem color_dec_encodable : DecOK Color.codec := Color.decOK
theorem color_resave_stable : Stable Color.codec := stable_of Color.decOK Color.rt.atEnd
theorem bytes_dec_encodable : DecOK BytesElement.codec := BytesElement.decOK
theorem bytes_resave_stable : Stable BytesElement.codec := stable_of BytesElement.decOK BytesElement.rt
theorem sheet_color_setting_dec_encodable : DecOK SheetColorSetting.codec := SheetColorSetting.decOK
theorem sheet_color_setting_resave_stable : Stable SheetColorSetting.codec := stable_of SheetColorSetting.decOK SheetColorSetting.rt.atEnd
theorem reference_point_dec_encodable : DecOK ReferencePoint.codec := ReferencePoint.decOK
theorem reference_point_resave_stable : Stable ReferencePoint.codec := stable_of ReferencePoint.decOK ReferencePoint.rt.atEnd
/-- 4-7 trailing bytes that are neither signature nor key are not written back -/
theorem section_divider_setting_dec_encodable : DecOK SectionDividerSetting.codec := SectionDividerSetting.decOK
theorem section_divider_setting_resave_stable : Stable SectionDividerSetting.codec := stable_of SectionDividerSetting.decOK SectionDividerSetting.rt
theorem user_mask_dec_encodable : DecOK UserMask.codec := UserMask.decOK
theorem user_mask_resave_stable : Stable UserMask.codec := stable_of UserMask.decOK UserMask.rt.atEnd
theorem filter_mask_dec_encodable : DecOK FilterMask.codec := FilterMask.decOK
theorem filter_mask_resave_stable : Stable FilterMask.codec := stable_of FilterMask.decOK FilterMask.rt.atEnd
theorem channel_blending_restrictions_dec_encodable : DecOK ChannelBlendingRestrictionsSetting.codec := ChannelBlendingRestrictionsSetting.decOK
theorem channel_blending_restrictions_resave_stable : Stable ChannelBlendingRestrictionsSetting.codec := stable_of ChannelBlendingRestrictionsSetting.decOK ChannelBlendingRestrictionsSetting.rt
theorem pixel_source_data2_dec_encodable (pad : Nat) (hp : pad = 1 ∨ pad = 2 ∨ pad = 4) : DecOK (PixelSourceData2.codec pad) := PixelSourceData2.decOK pad hp
theorem pixel_source_data2_resave_stable (pad : Nat) (hp : pad = 1 ∨ pad = 2 ∨ pad = 4) : Stable (PixelSourceData2.codec pad) := stable_of (PixelSourceData2.decOK pad hp) (PixelSourceData2.rt pad)
theorem metadata_setting_dec_encodable_partial (tb : Descriptor.Tables) (ht : Descriptor.TermsFour tb) : DecOKIf (MetadataSetting.codec tb) (MetadataSetting.ResaveOK tb) := MetadataSetting.decOKIf tb ht
theorem metadata_setting_resave_stable_partial (tb : Descriptor.Tables) (ht : Descriptor.TermsFour tb) : StableIf (MetadataSetting.codec tb) (MetadataSetting.ResaveOK tb) := stableIf_of (MetadataSetting.decOKIf tb ht) (MetadataSetting.rt tb).atEnd
theorem metadata_settings_dec_encodable_partial (tb : Descriptor.Tables) (ht : Descriptor.TermsFour tb) : DecOKIf (MetadataSettings.codec tb) (fun xs => ∀ x ∈ xs, MetadataSetting.ResaveOK tb x) := MetadataSettings.decOKIf tb ht
theorem metadata_settings_resave_stable_partial (tb : Descriptor.Tables) (ht : Descriptor.TermsFour tb) : StableIf (MetadataSettings.codec tb) (fun xs => ∀ x ∈ xs, MetadataSetting.ResaveOK tb x) := stableIf_of (MetadataSettings.decOKIf tb ht) (MetadataSettings.rt tb).atEnd
theorem annotation_dec_encodable_partial : DecOKIf Annotation.codec Annotation.ResaveOK := Annotation.decOKIf
theorem annotation_resave_stable_partial : StableIf Annotation.codec Annotation.ResaveOK := stableIf_of Annotation.decOKIf Annotation.rt.atEnd
/-- items whose declared length is 4 or less are skipped by the reader; the count is re-derived -/
theorem annotations_dec_encodable_partial : DecOKIf Annotations.codec Annotations.ResaveOK := Annotations.decOKIf
theorem annotations_resave_stable_partial : StableIf Annotations.codec Annotations.ResaveOK := stableIf_of Annotations.decOKIf Annotations.rt.atEnd
theorem common_state_info_dec_encodable : DecOK CommonStateInfo.codec := CommonStateInfo.decOK
theorem common_state_info_resave_stable : Stable CommonStateInfo.codec := stable_of CommonStateInfo.decOK CommonStateInfo.rt.atEnd
theorem shadow_info_dec_encodable : DecOK ShadowInfo.codec := ShadowInfo.decOK
theorem shadow_info_resave_stable : Stable ShadowInfo.codec := stable_of ShadowInfo.decOK ShadowInfo.rt.atEnd
theorem outer_glow_info_dec_encodable : DecOK OuterGlowInfo.codec := OuterGlowInfo.decOK
theorem outer_glow_info_resave_stable : Stable OuterGlowInfo.codec := stable_of OuterGlowInfo.decOK OuterGlowInfo.rt.atEnd
theorem inner_glow_info_dec_encodable : DecOK InnerGlowInfo.codec := InnerGlowInfo.decOK
theorem inner_glow_info_resave_stable : Stable InnerGlowInfo.codec := stable_of InnerGlowInfo.decOK InnerGlowInfo.rt.atEnd
theorem bevel_info_dec_encodable : DecOK BevelInfo.codec := BevelInfo.decOK
theorem bevel_info_resave_stable : Stable BevelInfo.codec := stable_of BevelInfo.decOK BevelInfo.rt.atEnd
theorem solid_fill_info_dec_encodable : DecOK SolidFillInfo.codec := SolidFillInfo.decOK
theorem solid_fill_info_resave_stable : Stable SolidFillInfo.codec := stable_of SolidFillInfo.decOK SolidFillInfo.rt.atEnd
theorem effects_layer_dec_encodable_partial : DecOKIf EffectsLayer.codec EffectsLayer.LenFits := EffectsLayer.decOKIf
theorem effects_layer_resave_stable_partial : StableIf EffectsLayer.codec EffectsLayer.LenFits := stableIf_of EffectsLayer.decOKIf EffectsLayer.rt.atEnd
/-- a declared length below 23 makes the reader take everything that follows (`fp.read(negative)`); the re-encoded length is the side condition -/
theorem virtual_memory_array_dec_encodable_partial : DecOKIf VMA.codec VMA.LenFits := VMA.decOKIf
theorem virtual_memory_array_resave_stable_partial : StableIf VMA.codec VMA.LenFits := stableIf_of VMA.decOKIf VMA.rt.atEnd
theorem virtual_memory_array_list_dec_encodable_partial : DecOKIf VMAL.codec VMAL.LenFits := VMAL.decOKIf
theorem virtual_memory_array_list_resave_stable_partial : StableIf VMAL.codec VMAL.LenFits := stableIf_of VMAL.decOKIf VMAL.rt.atEnd
theorem pattern_dec_encodable_partial : DecOKIf Pattern.codec (fun x => VMAL.LenFits x.data) := Pattern.decOKIf
theorem pattern_resave_stable_partial : StableIf Pattern.codec (fun x => VMAL.LenFits x.data) := stableIf_of Pattern.decOKIf Pattern.rt.atEnd
theorem patterns_dec_encodable_partial : DecOKIf Patterns.codec Patterns.LenFits := Patterns.decOKIf
theorem patterns_resave_stable_partial : StableIf Patterns.codec Patterns.LenFits := stableIf_of Patterns.decOKIf Patterns.rt
theorem linked_layer_dec_encodable (tb : Descriptor.Tables) (ht : Descriptor.TermsFour tb) (pad : Nat) : DecOK (LinkedLayer.codec tb pad) := LinkedLayer.decOK tb ht pad
theorem linked_layer_resave_stable (tb : Descriptor.Tables) (ht : Descriptor.TermsFour tb) (pad : Nat) : Stable (LinkedLayer.codec tb pad) := stable_of (LinkedLayer.decOK tb ht pad) (LinkedLayer.rt tb pad).atEnd
theorem linked_layers_dec_encodable_partial (tb : Descriptor.Tables) (ht : Descriptor.TermsFour tb) : DecOKIf (LinkedLayers.codec tb) (LinkedLayers.ResaveOK tb) := LinkedLayers.decOKIf tb ht
theorem linked_layers_resave_stable_partial (tb : Descriptor.Tables) (ht : Descriptor.TermsFour tb) : StableIf (LinkedLayers.codec tb) (LinkedLayers.ResaveOK tb) := stableIf_of (LinkedLayers.decOKIf tb ht) (LinkedLayers.rt tb)
theorem smart_object_layer_data_dec_encodable (tb : Descriptor.Tables) (ht : Descriptor.TermsFour tb) (pad : Nat) : DecOK (SmartObjectLayerData.codec tb pad) := SmartObjectLayerData.decOK tb ht pad
theorem smart_object_layer_data_resave_stable (tb : Descriptor.Tables) (ht : Descriptor.TermsFour tb) (pad : Nat) : Stable (SmartObjectLayerData.codec tb pad) := stable_of (SmartObjectLayerData.decOK tb ht pad) (SmartObjectLayerData.rt tb pad).atEnd
theorem placed_layer_data_dec_encodable (tb : Descriptor.Tables) (ht : Descriptor.TermsFour tb) (pad : Nat) : DecOK (PlacedLayerData.codec tb pad) := PlacedLayerData.decOK tb ht pad
theorem placed_layer_data_resave_stable (tb : Descriptor.Tables) (ht : Descriptor.TermsFour tb) (pad : Nat) : Stable (PlacedLayerData.codec tb pad) := stable_of (PlacedLayerData.decOK tb ht pad) (PlacedLayerData.rt tb pad).atEnd
theorem type_tool_object_setting_dec_encodable (tb : Descriptor.Tables) (ht : Descriptor.TermsFour tb) (pad : Nat) : DecOK (TypeToolObjectSetting.codec tb pad) := TypeToolObjectSetting.decOK tb ht pad
theorem type_tool_object_setting_resave_stable (tb : Descriptor.Tables) (ht : Descriptor.TermsFour tb) (pad : Nat) : Stable (TypeToolObjectSetting.codec tb pad) := stable_of (TypeToolObjectSetting.decOK tb ht pad) (TypeToolObjectSetting.rt tb pad).atEnd

/-! ## the length side conditions are exact -/

/-- the side condition of a `…_partial` theorem is exact whenever it is a consequence of `Fits` (it is, for every length
condition: the length field is one of the conjuncts): a decoded value is writable IFF the condition holds - the payload
analogue of `dec_encodable_iff` -/
theorem dec_encodable_iff_of {α : Type} (c : PCodec α) (L : α → Prop) (h : DecOKIf c L) (hL : ∀ v, c.Fits v → L v)
    (d : B) (p : Nat) (v : α) (p' : Nat) (hd : c.dec d p = .ok (v, p')) : Encodable c v ↔ L v := by
  constructor
  · rintro ⟨bs, hbs⟩
    exact hL v (enc_ok hbs).1
  · exact fun hl => h.encodable hd hl

theorem metadata_setting_dec_encodable_iff (tb : Descriptor.Tables) (ht : Descriptor.TermsFour tb) (d : B) (p : Nat)
    (v : MetadataSetting) (p' : Nat) (hd : (MetadataSetting.codec tb).dec d p = .ok (v, p')) :
    Encodable (MetadataSetting.codec tb) v ↔ MetadataSetting.ResaveOK tb v :=
  dec_encodable_iff_of _ _ (MetadataSetting.decOKIf tb ht) (fun _ h => h.2) d p v p' hd

theorem annotation_dec_encodable_iff (d : B) (p : Nat) (v : Annotation) (p' : Nat) (hd : Annotation.codec.dec d p = .ok (v, p')) :
    Encodable Annotation.codec v ↔ Annotation.ResaveOK v :=
  dec_encodable_iff_of _ _ Annotation.decOKIf (fun _ h => h.2.2.2.2.2.2.2.2.2.1) d p v p' hd

theorem effects_layer_dec_encodable_iff (d : B) (p : Nat) (v : EffectsLayer) (p' : Nat)
    (hd : EffectsLayer.codec.dec d p = .ok (v, p')) : Encodable EffectsLayer.codec v ↔ EffectsLayer.LenFits v :=
  dec_encodable_iff_of _ _ EffectsLayer.decOKIf (fun _ h kv hkv => (h.2.2 kv hkv).2) d p v p' hd

theorem filter_effect_dec_encodable_iff (d : B) (p : Nat) (v : FilterEffect) (p' : Nat)
    (hd : FilterEffect.codec.dec d p = .ok (v, p')) : Encodable FilterEffect.codec v ↔ FilterEffect.LenFits v :=
  dec_encodable_iff_of _ _ FilterEffect.decOKIf (fun _ h => h.2.2.1.2) d p v p' hd

theorem linked_layers_dec_encodable_iff (tb : Descriptor.Tables) (ht : Descriptor.TermsFour tb) (d : B) (p : Nat)
    (v : List LinkedLayer) (p' : Nat) (hd : (LinkedLayers.codec tb).dec d p = .ok (v, p')) :
    Encodable (LinkedLayers.codec tb) v ↔ LinkedLayers.ResaveOK tb v :=
  dec_encodable_iff_of _ _ (LinkedLayers.decOKIf tb ht) (fun _ h x hx => (h x hx).2) d p v p' hd


/-! ## the descriptor family -/

/-- every known term has 4 bytes: in the regenerated `_TERMS` (no term of another length) and hence in the tables of the
model. A term of another length would be written with the length field 0 and re-read as its first 4 bytes. -/
theorem terms_have_four_bytes : Generated.Terms.oddTerms = 0 ∧ Descriptor.TermsFour Descriptor.realTables :=
  ⟨by decide, Descriptor.realTables_termsFour⟩

/-- a key as `read_length_and_key` returns it: writable, satisfying the key law of C20 / C01, and with all the bytes its
length field announced (4 behind a length field of 0, at least one otherwise) -/
theorem descriptor_key_dec_ok (tb : Descriptor.Tables) (ht : Descriptor.TermsFour tb) (d : B) (p : Nat) (k : Descriptor.Key) (p' : Nat)
    (h : Descriptor.readKeyR tb d p = .ok (k, p')) :
    Descriptor.KeyFits tb k ∧ Descriptor.KeyWF tb k ∧ Descriptor.KeyFull k :=
  Descriptor.ret_readKey tb ht d p k p' h

/-- every class of `descriptor.TYPES`: whatever its reader returns is writable and in the domain of C01's round trip (`WF`:
key law, surrogate law, units, no key twice). Nothing is normalised out of it: explicit / implicit keys are kept as they
are, `RawData`, `Alias`, `Path` are opaque bytes behind their length, unit floats keep their unit, duplicate keys collapse in
the `OrderedDict` (and the count is re-derived), a boolean is any non-zero byte (re-written as 1). -/
theorem descriptor_dec_encodable (tb : Descriptor.Tables) (ht : Descriptor.TermsFour tb) (t : Descriptor.Tag) (d : B) (p : Nat)
    (v : Descriptor.DVal) (p' : Nat) (h : Descriptor.dec tb t d p = .ok (v, p')) :
    Descriptor.WF tb v ∧ ∃ bs, Descriptor.enc tb v = .ok bs := by
  obtain ⟨f, w⟩ := Descriptor.dec_good ht t d p v p' h
  exact ⟨w, Descriptor.encT tb v, by simp only [Descriptor.enc, if_pos f]⟩

theorem descriptor_block_dec_encodable (tb : Descriptor.Tables) (ht : Descriptor.TermsFour tb) (d : B) (p : Nat)
    (b : Descriptor.Block) (p' : Nat) (h : Descriptor.Block.dec tb d p = .ok (b, p')) : b.WF tb ∧ b.Fits tb := by
  obtain ⟨f, w⟩ := Descriptor.Block.dec_good ht d p b p' h
  exact ⟨w, f⟩

/-- The finding of this layer (repaired by repo commit bb0349d). `keyCutShort` is a `DescriptorBlock` whose last key - length
field 0 - has only the two bytes `ab` left. With the lenient key reader the code had before (`fp.read(length or 4)`: what is
there), the key came back as the 2-byte implicit key `ab`; written back as a layer-level tagged-block payload (`padding=4`:
two filler bytes) the re-read took the filler for the rest of the key (`ab\\0\\0`) - the re-read structure differed from the
one that was saved (clause 2 of the property). Stated on the key level: the lenient reader returns a key that violates the
key law, and the bytes the writer emits for it, followed by the filler, are read as another key. -/
theorem key_cut_short_before_repair :
    ResaveSamples.readKeyLenient Descriptor.realTables.terms ResaveSamples.keyCutShort 40 = .ok (⟨[97, 98], true⟩, 46) ∧
      ¬ Descriptor.KeyWF Descriptor.realTables ⟨[97, 98], true⟩ ∧
      Descriptor.keyT Descriptor.realTables ⟨[97, 98], true⟩ = [0, 0, 0, 0, 97, 98] ∧
      ResaveSamples.readKeyLenient Descriptor.realTables.terms ([0, 0, 0, 0, 97, 98] ++ [0, 0]) 0 = .ok (⟨[97, 98, 0, 0], true⟩, 8) := by
  decide +kernel

/-- ... and is rejected now: `IOError` -/
theorem key_cut_short_rejected :
    Descriptor.readKeyR Descriptor.realTables ResaveSamples.keyCutShort 40 = .error .ioError ∧
      Descriptor.errorOf ((DescriptorPayload.codec Descriptor.realTables 4).dec ResaveSamples.keyCutShort 0) = some .ioError := by
  decide +kernel

/-! ## payloads inside their containers -/

/-- a payload inside a skeleton tagged block (`TaggedBlock.read` runs `kls.frombytes` on the bytes of the length block): the
block with the re-saved payload is well formed, is read back as itself anywhere, and its payload as the value -/
theorem tagged_block_payload_resave {α : Type} (c : PCodec α) (L : α → Prop) (hc : DecOKIf c L) (hr : c.RtAtEnd) (ver pad : Nat)
    (hp : pad = 1 ∨ pad = 2 ∨ pad = 4) (d : B) (p : Nat) (t : Psd.TaggedBlock) (p' : Nat)
    (hd : Psd.TaggedBlock.dec ver pad d p = .ok (some t, p')) (v : α) (n : Nat) (hv : c.dec t.data 0 = .ok (v, n)) (hl : L v)
    (hlen : FitsU (Psd.tbLenW ver t.key) (c.encT v).length) :
    c.enc v = .ok (c.encT v) ∧ (⟨t.signature, t.key, c.encT v⟩ : Psd.TaggedBlock).WF ver ∧
      ∀ pre post : B,
        Psd.TaggedBlock.dec ver pad (pre ++ (⟨t.signature, t.key, c.encT v⟩ : Psd.TaggedBlock).encT ver pad ++ post) pre.length =
            .ok (some ⟨t.signature, t.key, c.encT v⟩,
              pre.length + ((⟨t.signature, t.key, c.encT v⟩ : Psd.TaggedBlock).encT ver pad).length) ∧
          c.dec (c.encT v) 0 = .ok (v, c.consumed v) :=
  tagged_block_resave hc hr ver pad hp hd hv hl hlen

theorem image_resource_payload_resave {α : Type} (c : PCodec α) (L : α → Prop) (hc : DecOKIf c L) (hr : c.RtAtEnd)
    (d : B) (p : Nat) (r : Psd.Resource) (p' : Nat) (hd : Psd.Resource.dec d p = .ok (r, p')) (v : α) (n : Nat)
    (hv : c.dec r.data 0 = .ok (v, n)) (hl : L v) (hlen : FitsU 4 (c.encT v).length) :
    c.enc v = .ok (c.encT v) ∧ (⟨r.signature, r.key, r.name, c.encT v⟩ : Psd.Resource).WF ∧
      ∀ pre post : B,
        Psd.Resource.dec (pre ++ (⟨r.signature, r.key, r.name, c.encT v⟩ : Psd.Resource).encT ++ post) pre.length =
            .ok (⟨r.signature, r.key, r.name, c.encT v⟩,
              pre.length + (⟨r.signature, r.key, r.name, c.encT v⟩ : Psd.Resource).encT.length) ∧
          c.dec (c.encT v) 0 = .ok (v, c.consumed v) :=
  image_resource_resave hc hr hd hv hl hlen

/-- the typed image resource: whatever `ImageResource.read` (with the `TYPES[key].frombytes` dispatch) returns is a
well-formed typed resource that the writer accepts - under the payload's own side condition (slices, descriptor
resources) and the length field of the re-encoded payload -/
theorem typed_image_resource_dec_encodable_partial (tb : Descriptor.Tables) (ht : Descriptor.TermsFour tb) (d : B) (p : Nat)
    (r : TRes) (p' : Nat) (h : TRes.dec tb d p = .ok (r, p')) (hl : r.ResaveOK tb) : r.WF tb ∧ ∃ bs, r.enc tb = .ok bs := by
  obtain ⟨w, f⟩ := TRes.dec_ok tb ht h hl
  exact ⟨w, r.encT tb, by simp only [TRes.enc, if_pos f]⟩

/-- ... and the three clauses for it -/
theorem typed_image_resource_resave_stable_partial (tb : Descriptor.Tables) (ht : Descriptor.TermsFour tb) (b : B) (r : TRes)
    (n : Nat) (h : TRes.dec tb b 0 = .ok (r, n)) (hl : r.ResaveOK tb) :
    ∃ bs, r.enc tb = .ok bs ∧ TRes.dec tb bs 0 = .ok (r, bs.length) := by
  obtain ⟨w, bs, hbs⟩ := typed_image_resource_dec_encodable_partial tb ht b 0 r n h hl
  refine ⟨bs, hbs, ?_⟩
  have hb : bs = r.encT tb := by
    unfold TRes.enc at hbs
    split at hbs
    · cases hbs; rfl
    · cases hbs
  subst hb
  have := TRes.dec_at tb w (At.self (r.encT tb))
  simpa using this

/-- Whole documents with typed resources: whatever `PSD.read` returns, every image resource in it is a well-formed typed
resource that the writer accepts (the typed layer adds no way for `PSD.write` to fail: it fails exactly when the writer
of the deep skeleton does), the resource ids are distinct. -/
theorem dec_encodable_typed (tb : Descriptor.Tables) (ht : Descriptor.TermsFour tb) (pad : Nat) (b : B) (x : ResPSD) (p : Nat)
    (h : ResPSD.read tb b 0 = .ok (x, p)) (hl : x.ResourcesOK tb) :
    (∀ r ∈ x.resources, r.WF tb) ∧ (x.resources.map TRes.key).Nodup ∧
      ResPSD.enc tb pad x = DeepPSD.enc pad (x.flat tb) := by
  obtain ⟨a, c⟩ := ResPSD.read_resources_ok tb ht h hl
  refine ⟨fun r hr => (a r hr).1, c, ?_⟩
  have hpf : ResPSD.payloadFits tb x := fun r hr => (a r hr).2.1
  simp only [ResPSD.enc, if_pos hpf]

/-- The property for a document with typed resources, given that its skeleton part (header, colour mode data, the layer
and mask section with its nested Lr16 / Lr32 blocks, the image data - `(x.flat tb).WF`, what Props/C02.lean proves the
skeleton reader returns for the plain skeleton) is well formed: the saved bytes are read back, to the end, as the
structure that was saved (as the writer left it), and saving that again gives the same bytes. -/
theorem resave_stable_typed_partial (tb : Descriptor.Tables) (ht : Descriptor.TermsFour tb) (pad : Nat) (b : B) (x : ResPSD)
    (p : Nat) (s : B) (h : ResPSD.read tb b 0 = .ok (x, p)) (hl : x.ResourcesOK tb) (hdeep : (x.flat tb).WF pad)
    (hs : ResPSD.enc tb pad x = .ok s) :
    ResPSD.read tb s 0 = .ok (x.refresh, s.length) ∧ ResPSD.enc tb pad x.refresh = .ok s := by
  obtain ⟨a, _, _⟩ := dec_encodable_typed tb ht pad b x p h hl
  have hwf : ResPSD.WF tb pad x := ⟨hdeep, a⟩
  refine ⟨?_, by rw [ResPSD.enc_refresh, hs]⟩
  rw [ResPSD.enc_ok tb hs]
  exact ResPSD.read_encT tb hwf


/-! ## normalising readers -/

/-- Readers that normalise: the re-saved bytes differ from the accepted ones, and (by the class's `…_resave_stable`) all three
clauses hold - the property does not ask for the original bytes. Each line is replayed on the real code by the harness
(harness/corpus/C02payload.json). -/
theorem normalising_readers :
    -- `try: read_fmt("H2x") except IOError: read_fmt("H")`: a 2-byte payload comes back with the filler
    ResaveSamples.resaved ShortIntegerElement.codec [0, 5] = .ok [0, 5, 0, 0] ∧
    ResaveSamples.resaved ByteElement.codec [5] = .ok [5, 0, 0, 0] ∧
    ResaveSamples.resaved BooleanElement.codec [7] = .ok [1, 0, 0, 0] ∧
    -- trailing bytes the reader never looks at are not written back
    ResaveSamples.resaved Byte.codec [7, 1, 2] = .ok [7] ∧
    -- read with `padding=2`, written with `padding=1`
    ResaveSamples.resaved PascalString.codec [0, 0] = .ok [0] ∧
    -- a flag byte is any non-zero byte; the filler of `H4x2?` is zeroed
    ResaveSamples.resaved PrintFlags.codec [2, 0, 0, 0, 0, 0, 0, 0xff] = .ok [1, 0, 0, 0, 0, 0, 0, 1] ∧
    -- `fp.read(size)` is lenient: the declared size 9 of a thumbnail with 2 bytes of data becomes 2
    ResaveSamples.resaved Thumbnail.codec ([0, 0, 0, 1, 0, 0, 0, 1, 0, 0, 0, 1, 0, 0, 0, 4, 0, 0, 0, 2] ++ [0, 0, 0, 9] ++ [0, 24, 0, 1] ++ [7, 8]) =
      .ok ([0, 0, 0, 1, 0, 0, 0, 1, 0, 0, 0, 1, 0, 0, 0, 4, 0, 0, 0, 2] ++ [0, 0, 0, 2] ++ [0, 24, 0, 1] ++ [7, 8]) ∧
    -- `Bytes`: `fp.read(4)` of a 6-byte payload
    ResaveSamples.resaved BytesElement.codec [1, 2, 3, 4, 5, 6] = .ok [1, 2, 3, 4] ∧
    -- a section divider with 5 stray bytes behind the kind
    ResaveSamples.resaved SectionDividerSetting.codec [0, 0, 0, 1, 9, 9, 9, 9, 9] = .ok [0, 0, 0, 1] := by decide +kernel


/-! ## non-vacuity -/

/-- an accepted payload that no writer produces: a halftone screen whose frequency has the top bit set, a flag byte 2, four
non-zero filler bytes. It is re-saved (frequency kept, flag written as 1, filler zeroed): the three clauses hold. -/
example : ∃ v, HalftoneScreens.codec.dec [0x80, 0, 0, 0, 0, 1, 0xff, 0xff, 0, 0, 0, 1, 9, 9, 9, 9, 2, 0] 0 = .ok (v, 18) ∧
    ∃ b', HalftoneScreens.codec.enc v = .ok b' ∧ b' = [0x80, 0, 0, 0, 0, 1, 0xff, 0xff, 0, 0, 0, 1, 0, 0, 0, 0, 1, 0] ∧
      HalftoneScreens.codec.dec b' 0 = .ok (v, 18) :=
  ⟨[[.int 2147483648, .int 1, .int (-65536), .int 1, .int 1, .int 0]], by decide,
    [0x80, 0, 0, 0, 0, 1, 0xff, 0xff, 0, 0, 0, 1, 0, 0, 0, 0, 1, 0], by decide, rfl, by decide⟩

example : ∃ b v n, HalftoneScreens.codec.dec b 0 = .ok (v, n) ∧ ∃ b', HalftoneScreens.codec.enc v = .ok b' ∧ b' ≠ b :=
  ⟨[0x80, 0, 0, 0, 0, 1, 0xff, 0xff, 0, 0, 0, 1, 9, 9, 9, 9, 2, 0],
    [[.int 2147483648, .int 1, .int (-65536), .int 1, .int 1, .int 0]], 18, by decide,
    [0x80, 0, 0, 0, 0, 1, 0xff, 0xff, 0, 0, 0, 1, 0, 0, 0, 0, 1, 0], by decide, by decide⟩

/-- an accepted descriptor payload: the block of `keyCutShort` with its last key in full -/
example : ResaveSamples.blockView ((DescriptorPayload.codec Descriptor.realTables 4).dec (ResaveSamples.keyCutShort ++ [99, 100]) 0) =
    .ok (ResaveSamples.keyCutShort ++ [99, 100], 48) := by decide +kernel

/-- non-vacuity of the typed-document theorem: the sample document of C01 (typed resources down to the slices and their
descriptors), read from its own bytes, satisfies every hypothesis -/
example : ∃ b x p s, ResPSD.read Samples.rtb b 0 = .ok (x, p) ∧ x.ResourcesOK Samples.rtb ∧ (x.flat Samples.rtb).WF 4 ∧
    ResPSD.enc Samples.rtb 4 x = .ok s ∧ ResPSD.read Samples.rtb s 0 = .ok (x.refresh, s.length) := by
  have hwf : ResPSD.WF Samples.rtb 4 Samples.resDoc ∧ ResPSD.payloadFits Samples.rtb Samples.resDoc := by decide +kernel
  have hd : DeepPSD.enc 4 (Samples.resDoc.flat Samples.rtb) = .ok ((Samples.resDoc.flat Samples.rtb).encT 4) := by decide +kernel
  have henc : ResPSD.enc Samples.rtb 4 Samples.resDoc = .ok ((Samples.resDoc.flat Samples.rtb).encT 4) := by
    unfold ResPSD.enc; rw [if_pos hwf.2, hd]
  have hread : ResPSD.read Samples.rtb ((Samples.resDoc.flat Samples.rtb).encT 4) 0 =
      .ok (Samples.resDoc.refresh, ((Samples.resDoc.flat Samples.rtb).encT 4).length) := ResPSD.read_encT Samples.rtb hwf.1
  have hok : Samples.resDoc.refresh.ResourcesOK Samples.rtb := by decide +kernel
  have hdeep : (Samples.resDoc.refresh.flat Samples.rtb).WF 4 := by decide +kernel
  have henc' : ResPSD.enc Samples.rtb 4 Samples.resDoc.refresh = .ok ((Samples.resDoc.flat Samples.rtb).encT 4) := by
    rw [ResPSD.enc_refresh, henc]
  exact ⟨_, _, _, _, hread, hok, hdeep, henc',
    (resave_stable_typed_partial Samples.rtb Descriptor.realTables_termsFour 4 _ _ _ _ hread hok hdeep henc').1⟩


end PsdVerif.C02
