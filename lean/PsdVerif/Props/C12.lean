/-
C12 — blend functions are total, bounded, pure and match their published formulas.
Property theorems only; helper lemmas live in `Lemmas/Blend*.lean`.
-/
import PsdVerif.Model.Blend
import PsdVerif.Generated.Blend

namespace PsdVerif.C12
open PsdVerif PsdVerif.Blend

/-! ### The tie to `BLEND_FUNC`, `BlendMode`, the wrapper's `k` and the literals (regenerated every run) -/

/-- every `BlendMode` of constants.py has an entry in `BLEND_FUNC` or is documented as falling
back to `normal` (`BLEND_FUNC.get(mode, normal)` in the compositor) -/
theorem every_blend_mode_mapped_or_documented :
    ∀ m ∈ Generated.Blend.blendModes,
      m ∈ Generated.Blend.blendFuncModeKeys.map Prod.fst ∨ m ∈ documentedFallbackToNormal := by
  decide

/-- each `BlendMode` is mapped to the function the model expects for it -/
theorem blend_func_table_as_modelled :
    ∀ e ∈ Generated.Blend.blendFuncModeKeys, e ∈ expectedFunction := by decide

/-- every function `BLEND_FUNC` can return (under any key) is modelled -/
theorem blend_func_values_modelled :
    ∀ e ∈ Generated.Blend.blendFuncModeKeys ++ Generated.Blend.blendFuncOtherKeys,
      e.2 ∈ modelledFunctions := by decide

end PsdVerif.C12
