/-
C12 — blend functions are total, bounded, pure and match their published formulas.
Property theorems only; helper lemmas and the `offDisc…` hypothesis vocabulary live in
`Lemmas/Blend.lean`, `Lemmas/BlendNonSep.lean`.

For every mode `B` of blend.py (model: `Model/Blend.lean`), for all `Cb, Cs ∈ [0,1]` (`unit`):
* `<mode>_range`     : `unit (B Cb Cs)`;  `<mode>_defined` : every denominator the code evaluates is `> 0`
                       (so no theorem holds because of `x / 0 = 0`);
* `<mode>_near_spec` : `B Cb Cs = Spec.B Cb Cs` where the code is exact, else
                       `|B Cb Cs - Spec.B Cb Cs| ≤ tol δ` under the mode's `offDisc… δ` hypothesis;
* the six documented identities;
* the tie to `BLEND_FUNC` / `BlendMode` / the wrapper's `k` / the numeric literals (regenerated each run).
Purity (arguments unmodified) is a runtime aliasing fact: checked by the harness, not expressible here.
-/
import PsdVerif.Lemmas.BlendLipschitz
import PsdVerif.Generated.Blend

namespace PsdVerif.C12
open PsdVerif PsdVerif.Blend
set_option linter.unusedVariables false

/-! ### The tie to `BLEND_FUNC`, `BlendMode`, the wrapper's `k` and the literals (regenerated every run) -/

/-- every `BlendMode` of constants.py has an entry in `BLEND_FUNC` or is documented as falling
back to `normal` (`BLEND_FUNC.get(mode, normal)` in the compositor) -/
theorem every_blend_mode_mapped_or_documented :
    ∀ m ∈ Generated.Blend.blendModes,
      m ∈ Generated.Blend.blendFuncModeKeys.map Prod.fst ∨ m ∈ documentedFallbackToNormal := by
  decide

/-- each `BlendMode` is mapped to the function the model expects for it -/
theorem blend_func_table_as_modelled :
    ∀ e ∈ Generated.Blend.blendFuncModeKeys, e ∈ expectedFunction := by decide

/-- The descriptor-key half of `BLEND_FUNC` (the keys layer effects and overlays carry): the mode each
key names, written down independently of the table (the key `ligherColor` is spelt as the code spells it). -/
def expectedDescriptorFunction : List (String × String) := [
  ("Enum.Normal", "normal"), ("Enum.Dissolve", "dissolve"), ("Enum.Darken", "darken"),
  ("Enum.Multiply", "multiply"), ("Enum.ColorBurn", "color_burn"), ("b'linearBurn'", "linear_burn"),
  ("b'darkerColor'", "darker_color"), ("Enum.Lighten", "lighten"), ("Enum.Screen", "screen"),
  ("Enum.ColorDodge", "color_dodge"), ("b'linearDodge'", "linear_dodge"), ("b'ligherColor'", "lighter_color"),
  ("b'lighterColor'", "lighter_color"),
  ("Enum.Overlay", "overlay"), ("Enum.SoftLight", "soft_light"), ("Enum.HardLight", "hard_light"),
  ("b'vividLight'", "vivid_light"), ("b'linearLight'", "linear_light"), ("b'pinLight'", "pin_light"),
  ("b'hardMix'", "hard_mix"), ("Enum.Difference", "difference"), ("Enum.Exclusion", "exclusion"),
  ("Enum.Subtract", "subtract"), ("b'blendDivide'", "divide"), ("Enum.Hue", "hue"),
  ("Enum.Saturation", "saturation"), ("Enum.Color", "color"), ("Enum.Luminosity", "luminosity")]

/-- each descriptor key of `BLEND_FUNC` is mapped to the function of the mode it names -/
theorem blend_func_descriptor_keys_as_modelled :
    ∀ e ∈ Generated.Blend.blendFuncOtherKeys, e ∈ expectedDescriptorFunction := by decide

/-- every function `BLEND_FUNC` can return (under any key) is modelled -/
theorem blend_func_values_modelled :
    ∀ e ∈ Generated.Blend.blendFuncModeKeys ++ Generated.Blend.blendFuncOtherKeys,
      e.2 ∈ modelledFunctions := by decide

/-- the CMYK wrapper's `k` per function is the one modelled (`"s"` for all six) -/
theorem non_separable_k_as_modelled :
    Generated.Blend.nonSeparableK = expectedNonSeparableK := by decide

/-- function by function: the `k` read off the decorator of each non-separable function is the one
the model's 4-channel path wraps that function with (`kSelOf`), and every one of the six is decorated -/
theorem non_separable_k_per_function :
    ∀ fn ∈ ["hue", "saturation", "color", "luminosity", "darker_color", "lighter_color"],
      Generated.Blend.nonSeparableK.lookup fn = (kSelOf fn).map KSel.name ∧ (kSelOf fn).isSome = true := by
  decide

/-- a function reachable through `BLEND_FUNC` carries the CMYK wrapper exactly when the model treats it
as non-separable (dropping a decorator, or decorating a separable mode, breaks this) -/
theorem non_separable_decorated_exactly :
    ∀ e ∈ Generated.Blend.blendFuncModeKeys ++ Generated.Blend.blendFuncOtherKeys,
      (Generated.Blend.nonSeparableK.lookup e.2).isSome = (nonSeparableCMYK e.2).isSome := by
  decide

/-- the numeric literals in each function of blend.py are the ones the model hard-codes -/
theorem numeric_constants_as_modelled :
    Generated.Blend.numericConstants = expectedNumericConstants := by decide

variable {Cb Cs : Rat}

/-! ### Separable modes: range and totality -/

theorem normal_range (hb : unit Cb) (hs : unit Cs) : unit (normal Cb Cs) := hs

theorem multiply_range (hb : unit Cb) (hs : unit Cs) : unit (multiply Cb Cs) := by
  obtain ⟨b0, b1⟩ := hb; obtain ⟨s0, s1⟩ := hs
  unfold multiply; constructor <;> nlinarith

theorem screen_range (hb : unit Cb) (hs : unit Cs) : unit (screen Cb Cs) := by
  obtain ⟨b0, b1⟩ := hb; obtain ⟨s0, s1⟩ := hs
  unfold screen; constructor <;> nlinarith

theorem hard_light_range (hb : unit Cb) (hs : unit Cs) : unit (hardLight Cb Cs) := by
  obtain ⟨b0, b1⟩ := hb; obtain ⟨s0, s1⟩ := hs
  unfold hardLight screen multiply; simp only []
  split_ifs with h <;> constructor <;> nlinarith

theorem overlay_range (hb : unit Cb) (hs : unit Cs) : unit (overlay Cb Cs) :=
  hard_light_range hs hb

theorem darken_range (hb : unit Cb) (hs : unit Cs) : unit (darken Cb Cs) := by
  unfold darken rmin; split_ifs <;> assumption

theorem lighten_range (hb : unit Cb) (hs : unit Cs) : unit (lighten Cb Cs) := by
  unfold lighten rmax; split_ifs <;> assumption

theorem color_dodge_range (hb : unit Cb) (hs : unit Cs) : unit (colorDodge Cb Cs) := by
  obtain ⟨b0, b1⟩ := hb; obtain ⟨s0, s1⟩ := hs
  have he := eps_pos
  unfold colorDodge; simp only []
  split_ifs
  · constructor
    · apply le_rmin (by norm_num)
      apply div_nonneg b0; linarith
    · exact rmin_le_left _ _
  all_goals (constructor <;> norm_num)

theorem color_dodge_defined (hb : unit Cb) (hs : unit Cs) : ∀ d ∈ colorDodgeDens Cb Cs, 0 < d := by
  obtain ⟨s0, s1⟩ := hs
  have he := eps_pos
  unfold colorDodgeDens; split_ifs <;> simp
  linarith

theorem color_burn_range (hb : unit Cb) (hs : unit Cs) : unit (colorBurn Cb Cs) := by
  obtain ⟨b0, b1⟩ := hb; obtain ⟨s0, s1⟩ := hs
  have he := eps_pos
  unfold colorBurn; simp only []
  split_ifs
  · have h1 := rmin_le_left 1 ((1 - Cb) / (1 * Cs + eps))
    have h2 : 0 ≤ rmin 1 ((1 - Cb) / (1 * Cs + eps)) := by
      apply le_rmin (by norm_num)
      apply div_nonneg <;> linarith
    constructor <;> linarith
  all_goals (constructor <;> norm_num)

theorem color_burn_defined (hb : unit Cb) (hs : unit Cs) : ∀ d ∈ colorBurnDens Cb Cs, 0 < d := by
  obtain ⟨s0, s1⟩ := hs
  have he := eps_pos
  unfold colorBurnDens; split_ifs <;> simp
  linarith

theorem linear_dodge_range (hb : unit Cb) (hs : unit Cs) : unit (linearDodge Cb Cs) := by
  obtain ⟨b0, b1⟩ := hb; obtain ⟨s0, s1⟩ := hs
  unfold linearDodge rmin; split_ifs <;> constructor <;> linarith

theorem linear_burn_range (hb : unit Cb) (hs : unit Cs) : unit (linearBurn Cb Cs) := by
  obtain ⟨b0, b1⟩ := hb; obtain ⟨s0, s1⟩ := hs
  unfold linearBurn rmax; split_ifs <;> constructor <;> linarith

theorem difference_range (hb : unit Cb) (hs : unit Cs) : unit (difference Cb Cs) := by
  obtain ⟨b0, b1⟩ := hb; obtain ⟨s0, s1⟩ := hs
  unfold difference rabs; split_ifs <;> constructor <;> linarith

theorem exclusion_range (hb : unit Cb) (hs : unit Cs) : unit (exclusion Cb Cs) := by
  obtain ⟨b0, b1⟩ := hb; obtain ⟨s0, s1⟩ := hs
  unfold exclusion; constructor <;> nlinarith

theorem subtract_range (hb : unit Cb) (hs : unit Cs) : unit (subtract Cb Cs) := by
  obtain ⟨b0, b1⟩ := hb; obtain ⟨s0, s1⟩ := hs
  unfold subtract rmax; split_ifs <;> constructor <;> linarith

theorem hard_mix_range (hb : unit Cb) (hs : unit Cs) : unit (hardMix Cb Cs) := by
  unfold hardMix; simp only []; split_ifs <;> constructor <;> norm_num

theorem divide_range (hb : unit Cb) (hs : unit Cs) : unit (divide Cb Cs) := by
  obtain ⟨b0, b1⟩ := hb; obtain ⟨s0, s1⟩ := hs
  have he := eps_pos
  unfold divide; simp only []
  split_ifs with h
  · constructor <;> norm_num
  · constructor
    · apply div_nonneg b0; linarith
    · exact not_lt.mp h

theorem divide_defined (hb : unit Cb) (hs : unit Cs) : ∀ d ∈ divideDens Cb Cs, 0 < d := by
  obtain ⟨s0, s1⟩ := hs
  have he := eps_pos
  unfold divideDens; simp; linarith

theorem linear_light_range (hb : unit Cb) (hs : unit Cs) : unit (linearLight Cb Cs) := by
  obtain ⟨b0, b1⟩ := hb; obtain ⟨s0, s1⟩ := hs
  unfold linearLight linearBurn linearDodge rmin rmax; simp only []
  split_ifs <;> constructor <;> linarith

theorem pin_light_range (hb : unit Cb) (hs : unit Cs) : unit (pinLight Cb Cs) := by
  obtain ⟨b0, b1⟩ := hb; obtain ⟨s0, s1⟩ := hs
  unfold pinLight darken lighten rmin rmax; simp only []
  split_ifs <;> constructor <;> linarith

theorem vivid_light_range (hb : unit Cb) (hs : unit Cs) : unit (vividLight Cb Cs) := by
  obtain ⟨s0, s1⟩ := hs
  unfold vividLight; simp only []
  split_ifs with h
  · exact color_dodge_range hb ⟨by linarith, by linarith⟩
  · exact color_burn_range hb ⟨by linarith, by linarith⟩

theorem vivid_light_defined (hb : unit Cb) (hs : unit Cs) : ∀ d ∈ vividLightDens Cb Cs, 0 < d := by
  obtain ⟨s0, s1⟩ := hs
  have he := eps_pos
  unfold vividLightDens colorBurnDens colorDodgeDens
  intro d hd
  simp only [List.mem_append] at hd
  rcases hd with hd | hd
  · split_ifs at hd <;> simp at hd
    subst hd; linarith
  · split_ifs at hd <;> simp at hd
    subst hd; linarith


/-! ### Identities, soft light, exact equalities with the published formulas -/

theorem normal_src : normal Cb Cs = Cs := rfl
theorem multiply_white : multiply Cb 1 = Cb := by unfold multiply; ring
theorem screen_black : screen Cb 0 = Cb := by unfold screen; ring
theorem darken_self (x : Rat) : darken x x = x := by unfold darken rmin; split_ifs <;> rfl
theorem lighten_self (x : Rat) : lighten x x = x := by unfold lighten rmax; split_ifs <;> rfl
theorem overlay_is_hardlight_swapped : overlay Cb Cs = hardLight Cs Cb := rfl

/-! soft light -/
theorem soft_light_near_spec (sq : Rat → Rat) : softLight sq Cb Cs = Spec.softLight sq Cb Cs := by
  unfold softLight Spec.softLight Spec.softLightD; rfl

theorem softD_range (hb : unit Cb) (h : Cb ≤ 1 / 4) :
    0 ≤ ((16 * Cb - 12) * Cb + 4) * Cb ∧ ((16 * Cb - 12) * Cb + 4) * Cb ≤ 1 := by
  obtain ⟨b0, b1⟩ := hb
  constructor
  · apply mul_nonneg _ b0; nlinarith [sq_nonneg (4 * Cb - 3 / 2)]
  · nlinarith [mul_nonneg b0 b0, mul_nonneg b0 (mul_nonneg b0 b0)]

theorem soft_light_range_of_bounds (sq : Rat → Rat) (hb : unit Cb) (hs : unit Cs)
    (hq : 1 / 4 < Cb → Cb ≤ sq Cb ∧ sq Cb ≤ 1) : unit (softLight sq Cb Cs) := by
  obtain ⟨b0, b1⟩ := hb; obtain ⟨s0, s1⟩ := hs
  unfold softLight; simp only []
  split_ifs with h1 h2
  · constructor <;> nlinarith [mul_nonneg b0 (sub_nonneg.mpr b1), mul_nonneg s0 (mul_nonneg b0 (sub_nonneg.mpr b1))]
  · obtain ⟨d0, d1⟩ := softD_range ⟨b0, b1⟩ h2
    have ht0 : 0 ≤ 2 * Cs - 1 := by linarith [not_le.mp h1]
    have ht1 : 0 ≤ 1 - (2 * Cs - 1) := by linarith
    constructor <;> nlinarith [mul_nonneg ht0 d0, mul_nonneg ht1 b0, mul_nonneg ht0 (sub_nonneg.mpr d1), mul_nonneg ht1 (sub_nonneg.mpr b1)]
  · obtain ⟨q0, q1⟩ := hq (not_le.mp h2)
    have ht0 : 0 ≤ 2 * Cs - 1 := by linarith [not_le.mp h1]
    have ht1 : 0 ≤ 1 - (2 * Cs - 1) := by linarith
    have d0 : 0 ≤ sq Cb := le_trans b0 q0
    constructor <;> nlinarith [mul_nonneg ht0 d0, mul_nonneg ht1 b0, mul_nonneg ht0 (sub_nonneg.mpr q1), mul_nonneg ht1 (sub_nonneg.mpr b1)]

theorem soft_light_range (sq : Rat → Rat) (hb : unit Cb) (hs : unit Cs)
    (h0 : 0 ≤ sq Cb) (h2 : sq Cb * sq Cb = Cb) : unit (softLight sq Cb Cs) := by
  apply soft_light_range_of_bounds sq hb hs
  intro _
  have h1 : sq Cb ≤ 1 := by
    by_contra hc
    have : 1 < sq Cb := not_le.mp hc
    nlinarith [hb.2]
  exact ⟨by nlinarith, h1⟩

/-! exact equalities -/
theorem normal_near_spec : normal Cb Cs = Spec.normal Cb Cs := rfl
theorem multiply_near_spec : multiply Cb Cs = Spec.multiply Cb Cs := rfl
theorem screen_near_spec : screen Cb Cs = Spec.screen Cb Cs := by unfold screen Spec.screen; ring
theorem hard_light_near_spec : hardLight Cb Cs = Spec.hardLight Cb Cs := by
  unfold hardLight Spec.hardLight screen multiply Spec.screen Spec.multiply; simp only []
  split_ifs with h1 h2 <;> first | (exfalso; linarith) | ring1
theorem overlay_near_spec : overlay Cb Cs = Spec.overlay Cb Cs := by
  unfold overlay Spec.overlay; exact hard_light_near_spec
theorem darken_near_spec : darken Cb Cs = Spec.darken Cb Cs := by
  unfold darken Spec.darken; rw [rmin_eq_min, smin_eq_min]
theorem lighten_near_spec : lighten Cb Cs = Spec.lighten Cb Cs := by
  unfold lighten Spec.lighten; rw [rmax_eq_max, smax_eq_max]
theorem difference_near_spec : difference Cb Cs = Spec.difference Cb Cs := by
  unfold difference Spec.difference rabs
  split_ifs <;> first | (exfalso; linarith) | ring1
theorem exclusion_near_spec : exclusion Cb Cs = Spec.exclusion Cb Cs := rfl
theorem linear_dodge_near_spec : linearDodge Cb Cs = Spec.linearDodge Cb Cs := by
  unfold linearDodge Spec.linearDodge; rw [rmin_eq_min, smin_eq_min]
theorem linear_burn_near_spec : linearBurn Cb Cs = Spec.linearBurn Cb Cs := by
  unfold linearBurn Spec.linearBurn; rw [rmax_eq_max, smax_eq_max]
theorem subtract_near_spec : subtract Cb Cs = Spec.subtract Cb Cs := by
  unfold subtract Spec.subtract; rw [rmax_eq_max, smax_eq_max]
theorem linear_light_near_spec (hb : unit Cb) : linearLight Cb Cs = Spec.linearLight Cb Cs := by
  obtain ⟨b0, b1⟩ := hb
  unfold linearLight Spec.linearLight linearBurn linearDodge rmin rmax Spec.smin Spec.smax; simp only []
  split_ifs <;> first | (exfalso; linarith) | ring1 | linarith
theorem pin_light_near_spec : pinLight Cb Cs = Spec.pinLight Cb Cs := by
  unfold pinLight Spec.pinLight darken lighten rmin rmax Spec.smin Spec.smax; simp only []
  split_ifs <;> first | (exfalso; linarith) | ring1 | linarith

theorem hard_mix_near_spec (δ : Rat) (hδ : 1 / 1000000 ≤ δ) (hb : unit Cb) (hs : unit Cs)
    (hoff : offDiscHardMix δ Cb Cs) : hardMix Cb Cs = Spec.hardMix Cb Cs := by
  obtain ⟨s0, s1⟩ := hs
  unfold hardMix Spec.hardMix c999999; simp only []
  rcases hoff with h | h
  · have h2 : ¬ (Cb + 999999 / 1000000 * Cs ≥ 1) := by intro hc; nlinarith
    rw [if_neg h2, if_pos h]
  · have h1 : ¬ (Cb + Cs < 1) := by linarith
    have h2 : Cb + 999999 / 1000000 * Cs ≥ 1 := by nlinarith
    rw [if_pos h2, if_neg h1]

/-- on its jump set (`Cb + Cs = 1`) the code does differ from the published formula -/
theorem hard_mix_differs_on_jump_set : hardMix (1 / 2) (1 / 2) = 0 ∧ Spec.hardMix (1 / 2) (1 / 2) = 1 := by
  unfold hardMix Spec.hardMix c999999; norm_num


/-! ### The `ε`-ed modes: within `tol δ = ε/δ` of the published formula off the discontinuities -/

theorem tol_16bit : tol (1 / 65535) ≤ 1 / 10000 := by unfold tol eps; norm_num

theorem color_dodge_near_spec (δ : Rat) (hδ : 0 < δ) (hb : 0 ≤ Cb)
    (hoff : offDiscDodge δ Cb Cs) : |colorDodge Cb Cs - Spec.colorDodge Cb Cs| ≤ tol δ := by
  have ht := tol_nonneg hδ
  unfold colorDodge Spec.colorDodge; simp only []
  by_cases hb0 : Cb = 0
  · simp [hb0, ht]
  · by_cases hs1 : Cs = 1
    · simp [hb0, hs1, ht]
    · rcases hoff with h | h
      · exact absurd h hs1
      · rw [if_pos ⟨hs1, hb0⟩, if_neg hb0, if_neg hs1, rmin_eq_min, smin_eq_min, one_mul]
        exact min_div_eps_near hb hδ h

theorem color_burn_near_spec (δ : Rat) (hδ : 0 < δ) (hb : Cb ≤ 1)
    (hoff : offDiscBurn δ Cb Cs) : |colorBurn Cb Cs - Spec.colorBurn Cb Cs| ≤ tol δ := by
  have ht := tol_nonneg hδ
  unfold colorBurn Spec.colorBurn; simp only []
  by_cases hb1 : Cb = 1
  · simp [hb1, ht]
  · by_cases hs0 : Cs = 0
    · simp [hb1, hs0, ht]
    · rcases hoff with h | h
      · exact absurd h hs0
      · rw [if_pos ⟨hb1, hs0⟩, if_neg hb1, if_neg hs0, rmin_eq_min, smin_eq_min, one_mul]
        have := min_div_eps_near (x := 1 - Cb) (by linarith) hδ h
        rw [abs_sub_comm] at this
        calc |1 - min 1 ((1 - Cb) / (Cs + eps)) - (1 - min 1 ((1 - Cb) / Cs))|
            = |min 1 ((1 - Cb) / Cs) - min 1 ((1 - Cb) / (Cs + eps))| := by congr 1; ring
          _ ≤ tol δ := this

theorem vivid_light_near_spec (δ : Rat) (hδ : 0 < δ) (hb : unit Cb)
    (hoff : offDiscVivid δ Cb Cs) : |vividLight Cb Cs - Spec.vividLight Cb Cs| ≤ tol δ := by
  unfold vividLight Spec.vividLight; simp only []
  have e1 : Cs * 2 = 2 * Cs := by ring
  have e2 : 2 * (Cs - 1 / 2) = 2 * Cs - 1 := by ring
  rw [e1, e2]
  by_cases h : Cs ≤ 1 / 2
  · rw [if_neg (not_lt.mpr h), if_pos h]
    exact color_burn_near_spec δ hδ hb.2 (hoff.1 h)
  · rw [if_pos (not_le.mp h), if_neg h]
    exact color_dodge_near_spec δ hδ hb.1 (hoff.2 (not_le.mp h))

theorem divide_near_spec (δ : Rat) (hδ : eps < δ) (hb : 0 ≤ Cb)
    (hoff : offDiscDivide δ Cb Cs) : |divide Cb Cs - Spec.divide Cb Cs| ≤ tol δ := by
  have he := eps_pos
  have hδ0 : 0 < δ := lt_trans he hδ
  have ht := tol_nonneg hδ0
  have hmin : ∀ x : Rat, (if x > 1 then (1 : Rat) else x) = min 1 x := by
    intro x; split_ifs with h
    · exact (min_eq_left (le_of_lt h)).symm
    · exact (min_eq_right (not_lt.mp h)).symm
  unfold divide Spec.divide; simp only []
  rw [hmin]
  rcases hoff with h | ⟨h0, hcb⟩
  · have hs0 : Cs ≠ 0 := by intro hc; rw [hc] at h; linarith
    rw [if_neg hs0, smin_eq_min]
    exact min_div_eps_near hb hδ0 h
  · have hb0 : Cb ≠ 0 := by intro hc; rw [hc] at hcb; linarith
    have : 1 ≤ Cb / (Cs + eps) := by
      rw [h0, zero_add, le_div_iff₀ he]; linarith
    rw [if_pos h0, if_neg hb0, min_eq_left this]; simpa using ht


/-! ### The soft-light defect (before repair `d8a56a1`) -/

/-- Before the repair `D` was selected by `Cs ≤ 0.25`: for a dark backdrop and `Cs = 1` the code
returned `√Cb`; the published value is the polynomial.  Witness `Cb = 1/16` (a rational square):
deviation `11/256 ≈ 0.043` (the harness replays `Cb = 5/255`, deviation 0.066). -/
theorem soft_light_before_fix_deviates (sq : Rat → Rat) (h : sq (1 / 16) = 1 / 4) :
    softLightBeforeFix sq (1 / 16) 1 - Spec.softLight sq (1 / 16) 1 = 11 / 256 := by
  unfold softLightBeforeFix Spec.softLight Spec.softLightD; simp only []
  rw [h]; norm_num

/-! ### Non-separable modes (RGB triples) -/

theorem lum_range {c : RGB} (h : c.All unit) : unit (lum c) := lum_unit h
theorem sat_range {c : RGB} (h : c.All unit) : unit (sat c) := sat_unit h
/-- `_clip_color` returns values in `[0,1]` for every argument (its last two assignments clamp) -/
theorem clip_color_range (c : RGB) : (clipColor c).All unit := clipColor_unit c
theorem clip_color_defined (c : RGB) : ∀ d ∈ clipColorDens c, 0 < d := clipColor_defined c
theorem set_lum_range (c : RGB) (L : Rat) : (setLum c L).All unit := clipColor_unit _
theorem set_lum_defined (c : RGB) (L : Rat) : ∀ d ∈ setLumDens c L, 0 < d := clipColor_defined _
theorem set_sat_range (c : RGB) {s : Rat} (hs : unit s) : (setSat c s).All unit := by
  obtain ⟨h1, h2, h3⟩ := setSat_bounds c hs.1
  exact ⟨⟨h1.1, le_trans h1.2 hs.2⟩, ⟨h2.1, le_trans h2.2 hs.2⟩, ⟨h3.1, le_trans h3.2 hs.2⟩⟩
theorem set_sat_defined (c : RGB) : ∀ d ∈ setSatDens c, 0 < d := setSat_defined c

variable {Pb Ps : RGB}

theorem hue_range (Pb Ps : RGB) : (hue Pb Ps).All unit := clipColor_unit _
theorem saturation_range (Pb Ps : RGB) : (saturation Pb Ps).All unit := clipColor_unit _
theorem color_range (Pb Ps : RGB) : (color Pb Ps).All unit := clipColor_unit _
theorem luminosity_range (Pb Ps : RGB) : (luminosity Pb Ps).All unit := clipColor_unit _
theorem darker_color_range (hb : Pb.All unit) (hs : Ps.All unit) : (darkerColor Pb Ps).All unit := by
  unfold darkerColor; split_ifs <;> assumption
theorem lighter_color_range (hb : Pb.All unit) (hs : Ps.All unit) : (lighterColor Pb Ps).All unit := by
  unfold lighterColor; split_ifs <;> assumption

theorem hue_defined (Pb Ps : RGB) : ∀ d ∈ hueDens Pb Ps, 0 < d := by
  intro d hd; unfold hueDens at hd
  rcases List.mem_append.mp hd with h | h
  · exact setSat_defined _ d h
  · exact clipColor_defined _ d h
theorem saturation_defined (Pb Ps : RGB) : ∀ d ∈ saturationDens Pb Ps, 0 < d := by
  intro d hd; unfold saturationDens at hd
  rcases List.mem_append.mp hd with h | h
  · exact setSat_defined _ d h
  · exact clipColor_defined _ d h
theorem color_defined (Pb Ps : RGB) : ∀ d ∈ colorDens Pb Ps, 0 < d := clipColor_defined _
theorem luminosity_defined (Pb Ps : RGB) : ∀ d ∈ luminosityDens Pb Ps, 0 < d := clipColor_defined _

/-- `_set_sat` against the published `SetSat`: every component within `tol δ` -/
theorem set_sat_near_spec (δ : Rat) (hδ : 0 < δ) (c : RGB) {s : Rat} (hs : unit s)
    (hoff : offDiscSat δ c) : RGB.near (tol δ) (setSat c s) (Spec.setSat c s) := by
  obtain ⟨m1, m2⟩ := med3_bounds c
  obtain ⟨c1, c2, c3⟩ := comp_cases c
  unfold setSat Spec.setSat RGB.near RGB.map tol
  simp only [← min3_eq_spec, ← max3_eq_spec]
  exact ⟨setSatComp_near hδ hs m1 m2 hoff c1, setSatComp_near hδ hs m1 m2 hoff c2,
         setSatComp_near hδ hs m1 m2 hoff c3⟩

/-- `_clip_color` against the published `ClipColor` -/
theorem clip_color_near_spec (c : RGB) (hl : unit (lum c)) (hw : c.max3 - c.min3 ≤ 1) :
    RGB.near (10 * eps) (clipColor c) (Spec.clipColor c) := clipColor_near_spec c hl hw

theorem set_lum_near_spec (c : RGB) (L : Rat) (hL : unit L) (hc : c.All unit) :
    RGB.near (10 * eps) (setLum c L) (Spec.setLum c L) := setLum_near_spec c L hL (width_le_one hc)

/-- Color: within `10 ε = 10⁻⁸` of `SetLum(Cs, Lum(Cb))`, no discontinuity to exclude -/
theorem color_near_spec (hb : Pb.All unit) (hs : Ps.All unit) :
    RGB.near (10 * eps) (color Pb Ps) (Spec.color Pb Ps) := by
  unfold color Spec.color; rw [← lum_eq_spec]
  exact setLum_near_spec Ps (lum Pb) (lum_unit hb) (width_le_one hs)

/-- Luminosity: within `10 ε` of `SetLum(Cb, Lum(Cs))` -/
theorem luminosity_near_spec (hb : Pb.All unit) (hs : Ps.All unit) :
    RGB.near (10 * eps) (luminosity Pb Ps) (Spec.luminosity Pb Ps) := by
  unfold luminosity Spec.luminosity; rw [← lum_eq_spec]
  exact setLum_near_spec Pb (lum Ps) (lum_unit hs) (width_le_one hb)

/-- Darker Color: exactly the published selection (ties included: both keep the backdrop) -/
theorem darker_color_near_spec : darkerColor Pb Ps = Spec.darkerColor Pb Ps := by
  unfold darkerColor Spec.darkerColor; simp only [← lum_eq_spec]
  split_ifs <;> first | rfl | (exfalso; linarith)

theorem lighter_color_near_spec : lighterColor Pb Ps = Spec.lighterColor Pb Ps := by
  unfold lighterColor Spec.lighterColor; simp only [← lum_eq_spec]
  split_ifs <;> first | rfl | (exfalso; linarith)

/-- tolerance of the two-stage modes: `10 ε` for `_clip_color` plus the first stage's `tol δ`
carried through the published `SetLum` (Lipschitz constant `2 (1 + 100/11)`);
`hueTol (1/65535) < 1.33·10⁻³` -/
def hueTol (δ : Rat) : Rat := 10 * eps + (1 + 100 / 11) * (2 * tol δ)

theorem hueTol_16bit : hueTol (1 / 65535) ≤ 133 / 100000 := by unfold hueTol tol eps; norm_num

/-- Hue: within `hueTol δ` of `SetLum(SetSat(Cs, Sat(Cb)), Lum(Cb))` when the source's saturation is
0 or at least `δ` (the published `SetSat` jumps at zero saturation) -/
theorem hue_near_spec (δ : Rat) (hδ : 0 < δ) (hb : Pb.All unit) (hs : Ps.All unit)
    (hoff : offDiscSat δ Ps) : RGB.near (hueTol δ) (hue Pb Ps) (Spec.hue Pb Ps) := by
  unfold hue Spec.hue hueTol
  rw [← sat_eq_spec, ← lum_eq_spec]
  have hsat := sat_unit hb
  have hL := lum_unit hb
  have hX := set_sat_range Ps hsat
  have hY := specSetSat_unit Ps hsat
  have h1 := set_sat_near_spec δ hδ Ps hsat hoff
  exact RGB.near_trans (setLum_near_spec _ _ hL (width_le_one hX))
    (specSetLum_lipschitz _ _ _ _ hL (width_le_one hX) (width_le_one hY) h1)

/-- Saturation: within `hueTol δ` of `SetLum(SetSat(Cb, Sat(Cs)), Lum(Cb))` when the backdrop's
saturation is 0 or at least `δ` -/
theorem saturation_near_spec (δ : Rat) (hδ : 0 < δ) (hb : Pb.All unit) (hs : Ps.All unit)
    (hoff : offDiscSat δ Pb) : RGB.near (hueTol δ) (saturation Pb Ps) (Spec.saturation Pb Ps) := by
  unfold saturation Spec.saturation hueTol
  rw [← sat_eq_spec, ← lum_eq_spec]
  have hsat := sat_unit hs
  have hL := lum_unit hb
  have hX := set_sat_range Pb hsat
  have hY := specSetSat_unit Pb hsat
  have h1 := set_sat_near_spec δ hδ Pb hsat hoff
  exact RGB.near_trans (setLum_near_spec _ _ hL (width_le_one hX))
    (specSetLum_lipschitz _ _ _ _ hL (width_le_one hX) (width_le_one hY) h1)

/-! ### The CMYK wrapper -/

theorem cmyk2rgb_range {p : CMYK} (hc : unit p.c) (hm : unit p.m) (hy : unit p.y) (hk : unit p.k) :
    (cmyk2rgb p).All unit := by
  obtain ⟨c0, c1⟩ := hc; obtain ⟨m0, m1⟩ := hm; obtain ⟨y0, y1⟩ := hy; obtain ⟨k0, k1⟩ := hk
  unfold cmyk2rgb
  refine ⟨⟨?_, ?_⟩, ⟨?_, ?_⟩, ⟨?_, ?_⟩⟩ <;> nlinarith

theorem rgb2cmy_defined {K : Rat} (hk : unit K) : ∀ d ∈ rgb2cmyDens K, 0 < d := by
  have he := eps_pos
  intro d hd; unfold rgb2cmyDens at hd
  split_ifs at hd <;> simp at hd
  subst hd; linarith [hk.2]

/-- the wrapper returns the SOURCE's `K` for every mode (PDF 1.7 §11.3.5.3 and the comment in
blend.py ask for the backdrop's for hue, saturation, color): known finding
`C12/cmyk-wrapper/K-taken-from-source` -/
theorem cmyk_k_is_source_k (f : RGB → RGB → RGB) (Qb Qs : CMYK) : (nonSepCMYK .s f Qb Qs).k = Qs.k := rfl

/-- which `K` each mode carries, by the name under which `BLEND_FUNC` holds it: the source's, for all
six (for luminosity this is what PDF 1.7 §11.3.5.3 prescribes). The harness evaluates this clause on
the real code on CMYK inputs whose two `K` differ. -/
theorem cmyk_k_rule (fn : String) (g : CMYK → CMYK → CMYK) (h : nonSeparableCMYK fn = some g)
    (Qb Qs : CMYK) : (g Qb Qs).k = Qs.k := by
  unfold nonSeparableCMYK at h
  split at h
  · rename_i k f hk _
    have : k = .s := by
      unfold kSelOf at hk
      split at hk <;> simp_all
    cases h; subst this; rfl
  · cases h

example : ∃ g, nonSeparableCMYK "luminosity" = some g := ⟨_, rfl⟩

/-- on 3-channel input luminosity is the color blend with backdrop and source exchanged … -/
theorem luminosity_is_color_swapped (Cb Cs : RGB) : luminosity Cb Cs = color Cs Cb := rfl

/-- … on 4-channel input it is not: the two carry different `K`s (each its own source's) … -/
theorem luminosity_cmyk_color_swapped_k (Qb Qs : CMYK) :
    (luminosityCMYK Qb Qs).k = Qs.k ∧ (colorCMYK Qs Qb).k = Qb.k := ⟨rfl, rfl⟩

theorem luminosity_cmyk_ne_color_swapped :
    luminosityCMYK ⟨0, 0, 0, 0⟩ ⟨0, 0, 0, 1 / 2⟩ ≠ colorCMYK ⟨0, 0, 0, 1 / 2⟩ ⟨0, 0, 0, 0⟩ := by
  decide +kernel

/-- … and they agree exactly when the two `K`s are equal -/
theorem luminosity_cmyk_eq_color_swapped_of_equal_k (Qb Qs : CMYK) (h : Qb.k = Qs.k) :
    luminosityCMYK Qb Qs = colorCMYK Qs Qb := by
  unfold luminosityCMYK colorCMYK nonSepCMYK
  simp only [h, luminosity_is_color_swapped]

/-- THE RANGE FAILS on the CMYK path: `hue` of white over 50 % black gives `C = M = Y ≈ -1`
(known finding `C12/cmyk-wrapper/range/below-zero`; replayed on the real code by the harness) -/
theorem cmyk_range_violated :
    (hueCMYK ⟨0, 0, 0, 0⟩ ⟨0, 0, 0, 1 / 2⟩).c < -(99 / 100) := by
  decide +kernel

/-- what does hold: the result is in `[0,1]` whenever the blended RGB does not exceed `1 - K`
(and the upper bound holds always) -/
theorem cmyk_range_partial (f : RGB → RGB → RGB) (Qb Qs : CMYK) (hk : unit Qs.k)
    (h : (f (cmyk2rgb Qb) (cmyk2rgb Qs)).All (fun v => 0 ≤ v ∧ v ≤ 1 - Qs.k)) :
    unit (nonSepCMYK .s f Qb Qs).c ∧ unit (nonSepCMYK .s f Qb Qs).m ∧
      unit (nonSepCMYK .s f Qb Qs).y ∧ unit (nonSepCMYK .s f Qb Qs).k := by
  have he := eps_pos
  obtain ⟨k0, k1⟩ := hk
  have key : ∀ v : Rat, 0 ≤ v ∧ v ≤ 1 - Qs.k →
      unit (if Qs.k < 1 then (1 - v - Qs.k) / (1 - Qs.k + eps) else 0) := by
    intro v ⟨v0, v1⟩
    split_ifs with hk1
    · have hd : 0 < 1 - Qs.k + eps := by linarith
      exact ⟨div_nonneg (by linarith) hd.le, by rw [div_le_one hd]; linarith⟩
    · exact ⟨le_refl _, by norm_num⟩
  obtain ⟨h1, h2, h3⟩ := h
  exact ⟨key _ h1, key _ h2, key _ h3, ⟨k0, k1⟩⟩

/-- the bound the wrapper guarantees, explicitly, for EVERY blended RGB in `[0,1]` (which the six
non-separable modes deliver: `<mode>_range` over `cmyk2rgb_range`): `C, M, Y ≤ 1` always, and
`C, M, Y ≥ -K / (1 - K + ε)` when the source's `K < 1` — the known finding
`C12/cmyk-wrapper/range/below-zero` lives inside this interval (the harness evaluates the bound on the real
code at the boundary values of every channel; a value below it is a failing input of its own signature) -/
theorem cmyk_range_bound (f : RGB → RGB → RGB) (Qb Qs : CMYK) (hk : unit Qs.k) (hk1 : Qs.k < 1)
    (h : (f (cmyk2rgb Qb) (cmyk2rgb Qs)).All unit) :
    let lo := -(Qs.k / (1 - Qs.k + eps))
    (lo ≤ (nonSepCMYK .s f Qb Qs).c ∧ (nonSepCMYK .s f Qb Qs).c ≤ 1) ∧
      (lo ≤ (nonSepCMYK .s f Qb Qs).m ∧ (nonSepCMYK .s f Qb Qs).m ≤ 1) ∧
      (lo ≤ (nonSepCMYK .s f Qb Qs).y ∧ (nonSepCMYK .s f Qb Qs).y ≤ 1) := by
  have he := eps_pos
  obtain ⟨k0, _⟩ := hk
  have hd : 0 < 1 - Qs.k + eps := by linarith
  have key : ∀ v : Rat, unit v →
      -(Qs.k / (1 - Qs.k + eps)) ≤ (if Qs.k < 1 then (1 - v - Qs.k) / (1 - Qs.k + eps) else 0) ∧
        (if Qs.k < 1 then (1 - v - Qs.k) / (1 - Qs.k + eps) else 0) ≤ 1 := by
    intro v ⟨v0, v1⟩
    rw [if_pos hk1]
    refine ⟨?_, by rw [div_le_one hd]; linarith⟩
    rw [← neg_div]
    exact div_le_div_of_nonneg_right (by linarith) hd.le
  obtain ⟨h1, h2, h3⟩ := h
  exact ⟨key _ h1, key _ h2, key _ h3⟩

/-- at the boundary `K = 1` of the source (100 % black) the wrapper leaves `C = M = Y = 0` EXACTLY, whatever the
blended RGB is (`color[K < 1] = …` assigns nothing there): no division by `1 - K + ε = ε` takes place. A
wrapper that divides there returns values of the order of `-1/ε`; the harness evaluates this clause on the real
code for source `K = 1` against every boundary backdrop. -/
theorem cmyk_full_k_is_zero (f : RGB → RGB → RGB) (Qb Qs : CMYK) (hk : Qs.k = 1) :
    nonSepCMYK .s f Qb Qs = ⟨0, 0, 0, 1⟩ := by
  unfold nonSepCMYK rgb2cmy RGB.map
  simp [hk]

/-- … and the clause is needed: the variant without the `K < 1` mask returns `-C / ε` there -/
theorem cmyk_full_k_unmasked_blows_up :
    (1 - (1 : Rat) / 2 - 1) / (1 - 1 + eps) = -500000000 := by
  unfold eps; norm_num

/-! ### `offDiscontinuity` holds for all 8- and 16-bit data (any grid `k/N`, `N ≤ 65535`) -/

theorem offDisc_dodge_of_grid (N a b : Nat) (hN : 0 < N) (hN' : N ≤ 65535) (hb : b ≤ N) :
    offDiscDodge (1 / 65535) (a / N) (b / N) := by
  have hNq : (0 : Rat) < N := by exact_mod_cast hN
  have hN65 : (N : Rat) ≤ 65535 := by exact_mod_cast hN'
  unfold offDiscDodge
  by_cases h : b = N
  · left; rw [h]; exact div_self hNq.ne'
  · right
    have hlt : b + 1 ≤ N := Nat.succ_le_of_lt (lt_of_le_of_ne hb h)
    have hq : (b : Rat) + 1 ≤ N := by exact_mod_cast hlt
    have h1 : (1 : Rat) / N ≤ 1 - b / N := by
      rw [div_le_iff₀ hNq, sub_mul, div_mul_cancel₀ _ hNq.ne']; linarith
    have h2 : (1 : Rat) / 65535 ≤ 1 / N := one_div_le_one_div_of_le hNq hN65
    linarith

theorem offDisc_burn_of_grid (N a b : Nat) (hN : 0 < N) (hN' : N ≤ 65535) :
    offDiscBurn (1 / 65535) (a / N) (b / N) := by
  have hNq : (0 : Rat) < N := by exact_mod_cast hN
  have hN65 : (N : Rat) ≤ 65535 := by exact_mod_cast hN'
  unfold offDiscBurn
  by_cases h : b = 0
  · left; rw [h]; simp
  · right
    have hq : (1 : Rat) ≤ b := by exact_mod_cast Nat.one_le_iff_ne_zero.mpr h
    have h1 : (1 : Rat) / N ≤ b / N := div_le_div_of_nonneg_right hq hNq.le
    have h2 : (1 : Rat) / 65535 ≤ 1 / N := one_div_le_one_div_of_le hNq hN65
    linarith

theorem offDisc_hard_mix_of_grid (N a b : Nat) (hN : 0 < N) (hN' : N ≤ 65535) (hne : a + b ≠ N) :
    offDiscHardMix (1 / 65535) (a / N) (b / N) := by
  have hNq : (0 : Rat) < N := by exact_mod_cast hN
  have hN65 : (N : Rat) ≤ 65535 := by exact_mod_cast hN'
  have h2 : (1 : Rat) / 65535 ≤ 1 / N := one_div_le_one_div_of_le hNq hN65
  unfold offDiscHardMix
  rw [← add_div]
  rcases Nat.lt_or_gt_of_ne hne with h | h
  · left; rw [div_lt_one hNq]; exact_mod_cast h
  · right
    have hq : (N : Rat) + 1 ≤ a + b := by exact_mod_cast Nat.succ_le_of_lt h
    have : 1 + (1 : Rat) / N ≤ (a + b) / N := by
      rw [le_div_iff₀ hNq, add_mul, div_mul_cancel₀ _ hNq.ne']; linarith
    linarith

theorem offDisc_vivid_of_grid (N a b : Nat) (hN : 0 < N) (hN' : N ≤ 65535) (hb : b ≤ N) :
    offDiscVivid (1 / 65535) (a / N) (b / N) := by
  have hNq : (0 : Rat) < N := by exact_mod_cast hN
  have hN65 : (N : Rat) ≤ 65535 := by exact_mod_cast hN'
  have h2 : (1 : Rat) / 65535 ≤ 1 / N := one_div_le_one_div_of_le hNq hN65
  unfold offDiscVivid offDiscBurn offDiscDodge
  constructor
  · intro _
    by_cases h : b = 0
    · left; rw [h]; simp
    · right
      have hq : (1 : Rat) ≤ b := by exact_mod_cast Nat.one_le_iff_ne_zero.mpr h
      have h1 : (1 : Rat) / N ≤ b / N := div_le_div_of_nonneg_right hq hNq.le
      linarith
  · intro _
    by_cases h : b = N
    · left; rw [h, div_self hNq.ne']; norm_num
    · right
      have hlt : b + 1 ≤ N := Nat.succ_le_of_lt (lt_of_le_of_ne hb h)
      have hq : (b : Rat) + 1 ≤ N := by exact_mod_cast hlt
      have h1 : (1 : Rat) / N ≤ 1 - b / N := by
        rw [div_le_iff₀ hNq, sub_mul, div_mul_cancel₀ _ hNq.ne']; linarith
      linarith

/-- divide: every grid point except `(0, 0)` (where the published quotient is undefined) -/
theorem offDisc_divide_of_grid (N a b : Nat) (hN : 0 < N) (hN' : N ≤ 65535) (hne : ¬ (a = 0 ∧ b = 0)) :
    offDiscDivide (1 / 65535) (a / N) (b / N) := by
  have hNq : (0 : Rat) < N := by exact_mod_cast hN
  have hN65 : (N : Rat) ≤ 65535 := by exact_mod_cast hN'
  have h2 : (1 : Rat) / 65535 ≤ 1 / N := one_div_le_one_div_of_le hNq hN65
  unfold offDiscDivide
  by_cases h : b = 0
  · right
    have ha : a ≠ 0 := fun ha => hne ⟨ha, h⟩
    have hq : (1 : Rat) ≤ a := by exact_mod_cast Nat.one_le_iff_ne_zero.mpr ha
    have h1 : (1 : Rat) / N ≤ a / N := div_le_div_of_nonneg_right hq hNq.le
    exact ⟨by rw [h]; simp, by linarith⟩
  · left
    have hq : (1 : Rat) ≤ b := by exact_mod_cast Nat.one_le_iff_ne_zero.mpr h
    have h1 : (1 : Rat) / N ≤ b / N := div_le_div_of_nonneg_right hq hNq.le
    linarith

/-! ### Non-vacuity of the hypotheses -/

example : unit (1 / 2) := by unfold unit; norm_num
example : offDiscDodge (1 / 65535) (1 / 2) (254 / 255) := by unfold offDiscDodge; norm_num
example : offDiscBurn (1 / 65535) (1 / 2) (1 / 255) := by unfold offDiscBurn; norm_num
example : offDiscVivid (1 / 65535) (1 / 2) (3 / 4) := by
  unfold offDiscVivid offDiscBurn offDiscDodge; norm_num
example : offDiscDivide (1 / 65535) (1 / 2) 0 := by unfold offDiscDivide; norm_num
example : offDiscHardMix (1 / 65535) (1 / 2) (1 / 4) := by unfold offDiscHardMix; norm_num
example : eps < 1 / 65535 ∧ (1 : Rat) / 1000000 ≤ 1 / 65535 := by unfold eps; norm_num
example : offDiscSat (1 / 65535) ⟨1 / 2, 1 / 4, 0⟩ := by
  right; unfold RGB.max3 RGB.min3 rmax rmin; norm_num
/-- the soft-light hypotheses are satisfiable: `sq` = exact square root at a rational square … -/
example : (0 : Rat) ≤ (fun _ => (2 : Rat) / 3) (4 / 9) ∧
    (fun _ => (2 : Rat) / 3) (4 / 9) * (fun _ => (2 : Rat) / 3) (4 / 9) = 4 / 9 := by norm_num
/-- … and the weaker `Cb ≤ sq Cb ≤ 1` by every approximation from inside `[Cb, 1]` -/
example : (1 : Rat) / 4 < 1 / 2 → (1 : Rat) / 2 ≤ (fun _ => (7 : Rat) / 10) (1 / 2) ∧
    (fun _ => (7 : Rat) / 10) (1 / 2) ≤ 1 := by norm_num
example : (⟨1 / 2, 1 / 4, 0⟩ : RGB).All unit := by unfold RGB.All unit; norm_num
/-- `cmyk_range_partial`'s hypothesis is satisfiable (source with `K = 0`) -/
example : (hue (cmyk2rgb ⟨0, 0, 0, 0⟩) (cmyk2rgb ⟨0, 0, 0, 0⟩)).All (fun v => 0 ≤ v ∧ v ≤ 1 - 0) := by
  have := hue_range (cmyk2rgb ⟨0, 0, 0, 0⟩) (cmyk2rgb ⟨0, 0, 0, 0⟩)
  unfold RGB.All unit at this
  unfold RGB.All
  simpa using this
/-- `cmyk_range_bound`'s hypotheses are satisfiable for every mode and every CMYK input in `[0,1]` with `K < 1` -/
example : unit ((1 : Rat) / 2) ∧ (1 : Rat) / 2 < 1 ∧
    (hue (cmyk2rgb ⟨0, 0, 0, 0⟩) (cmyk2rgb ⟨0, 0, 0, 1 / 2⟩)).All unit :=
  ⟨by unfold unit; norm_num, by norm_num, hue_range _ _⟩

end PsdVerif.C12
