/-
C11 — compositing agrees with the published compositing model: the part about fill layers, vector masks, the
vector stroke, overlay effects, stroke effects, adjustment layers and `force` (`Model/CompositeFx.lean`, a wrapper
layer over `Model/Composite.lean`; the theorems of `Props/C11.lean` are untouched).

* ties: what `Model/CompositeFx.lean` says `Compositor.apply`, `_get_object`, `_get_mask`, `_get_const`, `_get_stroke`,
  `_apply_clip_layers`, `has_fill` and the four effect functions do, against the facts regenerated from the AST
  (`Generated/CompositeFx.lean`), by `decide`;
* `fx_model_extends_model`: on plain trees the new model IS the old one; `fx_evaluator_is_model`;
* `state_in_range_fx`; `overlay_is_extra_source`; `compositor_refines_spec_fx` (+ `_list`, `_clip_run`, `_doc`);
  `group_result_unclipped_fx`; `fill_layer_is_pixel_layer`; `force_irrelevant` (+ `_doc`).
-/
import PsdVerif.Generated.CompositeFx
import PsdVerif.Lemmas.CompositeFxEmbed
import PsdVerif.Lemmas.CompositeFxEval
import PsdVerif.Lemmas.CompositeFxRel
import PsdVerif.Lemmas.CompositeFxLaws

namespace PsdVerif.C11Fx
open PsdVerif PsdVerif.Composite

/-! ### the model against the source (regenerated from the AST on every run) -/

/-- all Boolean assignments, first variable most significant (`itertools.product([False, True], repeat=n)`) -/
def combos : Nat → List (List Bool)
  | 0 => [[]]
  | n + 1 => (combos n).map (false :: ·) ++ (combos n).map (true :: ·)

/-- `_get_object`: the `if` in front of `create_fill` decides as `useFill` -/
theorem use_fill_as_modelled :
    Generated.CompositeFx.useFillTable = (combos 3).map (fun
      | [force, hp, hf] => useFill force { hasPixels := hp, hasFill := hf, hasVectorMask := false, vmaskEnabled := false, maskNoReal := false }
      | _ => false) := by decide

/-- `_get_mask`: the `if` in front of `draw_vector_mask` decides as `useVectorMask` (inputs: vector mask present, vector
mask disabled, force, `has_pixels()`, `has_fill`, mask present, `mask._has_real()`) -/
theorem use_vector_mask_as_modelled :
    Generated.CompositeFx.useVectorMaskTable = (combos 7).map (fun
      | [vmp, vmd, force, hp, hf, mp, hr] =>
        useVectorMask force { hasPixels := hp, hasFill := hf, hasVectorMask := vmp, vmaskEnabled := vmp && !vmd, maskNoReal := mp && !hr }
      | _ => false) := by decide

/-- `apply`: the `if` that picks `shape_mask` for the stroke effect decides as `strokeFxFromMask` -/
theorem stroke_from_mask_as_modelled :
    Generated.CompositeFx.strokeFromMaskTable = (combos 4).map (fun
      | [force, hvm, hp, hf] => strokeFxFromMask force { hasPixels := hp, hasFill := hf, hasVectorMask := hvm, vmaskEnabled := false, maskNoReal := false }
      | _ => false) := by decide

/-- the early exits of `apply`: filter, ADJUSTMENT LAYER, viewport, clipping layer (`applyFxNode`: `.adjustment _ => st`,
then `visible`, `intersect`, `clipping`) -/
theorem apply_exits_as_modelled :
    Generated.CompositeFx.applyExits =
      ["self._layer_filter is not None and (not self._layer_filter(layer))", "isinstance(layer, AdjustmentLayer)",
       "_intersect(self._viewport, self._bbox(layer)) == (0, 0, 0, 0)",
       "not clip_compositing and layer.clipping_layer and layer._has_clip_target"] := by decide

/-- `apply` scales `shape` by the mask and `alpha` by mask, density and LAYER OPACITY in place, and only then makes its
calls: own source, colour / pattern / gradient overlays, stroke effect (`finishFx`) -/
theorem apply_events_as_modelled :
    Generated.CompositeFx.applyEvents =
      ["shape *= shape_mask", "alpha *= shape_mask * opacity_mask * opacity_const", "call _apply_source",
       "call _apply_color_overlay", "call _apply_pattern_overlay", "call _apply_gradient_overlay",
       "call _apply_stroke_effect", "call _apply_stroke_effect"] := by decide

/-- the arguments: fill opacity (`shape_const`) multiplies the layer's own source only; the overlays get `shape`, `alpha`
as scaled above; the stroke effect is drawn from `shape_mask` or from `shape` -/
theorem apply_calls_as_modelled :
    Generated.CompositeFx.applyCalls =
      [("_apply_source", ["color", "shape * shape_const", "alpha * shape_const", "layer.blend_mode", "knockout"]),
       ("_apply_color_overlay", ["layer", "color", "shape", "alpha"]),
       ("_apply_pattern_overlay", ["layer", "color", "shape", "alpha"]),
       ("_apply_gradient_overlay", ["layer", "color", "shape", "alpha"]),
       ("_apply_stroke_effect", ["layer", "color", "shape_mask", "alpha"]),
       ("_apply_stroke_effect", ["layer", "color", "shape", "alpha"])] := by decide

def overlayPastes : List String :=
  ["bbox = self._bbox(layer)", "color = paste(self._viewport, bbox, color, 1.0)",
   "shape_e = np.ones((self.height, self.width, 1), dtype=np.float32)",
   "shape_e = paste(self._viewport, bbox, shape_e)",
   "opacity = effect.opacity / 100.0"]

def overlayArgs : List String := ["color", "shape * shape_e", "alpha * shape_e * opacity", "effect.blend_mode"]

/-- the four effect functions: which effects, the source each hands to `_apply_source` (`overlaySrc`, `strokeFxSrc`),
where colour and shape are pasted (`pasteAt V bbox … white` / `… 0` with `bbox = self._bbox(layer)`, the box `apply` tests
against the viewport: `pr.bbox`; the stroke colour on 0), opacity = percent / 100
(times byte / 255 of the layer opacity for the stroke effect: 1/25500 per unit of both) -/
theorem effect_sources_as_modelled :
    Generated.CompositeFx.overlaySources =
      [("_apply_color_overlay", "layer.effects.find(\"coloroverlay\")", overlayArgs, overlayPastes, 1, 100),
       ("_apply_pattern_overlay", "layer.effects.find(\"patternoverlay\")", overlayArgs, overlayPastes, 1, 100),
       ("_apply_gradient_overlay", "layer.effects.find(\"gradientoverlay\")", overlayArgs, overlayPastes, 1, 100),
       ("_apply_stroke_effect", "layer.effects.find(\"stroke\")", ["color", "shape", "shape * opacity", "effect.blend_mode"],
        ["bbox = self._bbox(layer)", "shape_in_bbox = paste(bbox, self._viewport, shape)", "shape_in_bbox = shape",
         "color = paste(self._viewport, bbox, color)", "shape = paste(self._viewport, bbox, shape_in_bbox)",
         "opacity = effect.opacity / 100.0 * (layer.opacity / 255.0)"], 1, 25500)] := by decide

/-- `_get_const`: fill opacity and layer opacity are the stored bytes over 255; no fill-opacity block means 1 -/
theorem const_scales_as_modelled : Generated.CompositeFx.constScales = [(1, 255), (1, 255), (1, 1)] := by decide

/-- the vector stroke (`strokeObject`): after the clip layers, a non-isolated sub-compositor seeded with `(color, alpha)`,
one `_apply_source`, and the colour `finish()` returns; the stroke's colour pasted on white, its shape pasted from the
canvas, alpha = shape · percent / 100 -/
theorem vector_stroke_as_modelled :
    Generated.CompositeFx.strokeFacts =
      ["if layer.has_vector_mask() and layer.stroke is not None and layer.stroke.enabled",
       "color_s, shape_s, alpha_s = self._get_stroke(layer)", "compositor = Compositor(self._viewport, color, alpha)",
       "compositor._apply_source(color_s, shape_s, alpha_s, layer.stroke.blend_mode)", "color, _, _ = compositor.finish()",
       "order _apply_clip_layers _get_stroke", "color = paste(self._viewport, viewport, color, 1.0)",
       "shape = paste(self._viewport, layer._psd.viewbox, draw_stroke(layer))",
       "opacity = desc.get(\"strokeStyleOpacity\", 100.0) / 100.0", "alpha = shape * opacity", "return (color, shape, alpha)"] ∧
    Generated.CompositeFx.strokeOpacityScale = (1, 100) := by decide

/-- a clip run hands back the sub-compositor's accumulated colour, NOT `finish()`'s (no backdrop removal) -/
theorem clip_return_as_modelled : Generated.CompositeFx.clipReturn = "compositor._color" := by decide

theorem fill_tags_as_modelled :
    Generated.CompositeFx.fillTags = ["Tag.SOLID_COLOR_SHEET_SETTING", "Tag.PATTERN_FILL_SETTING",
      "Tag.GRADIENT_FILL_SETTING", "Tag.VECTOR_STROKE_CONTENT_DATA"] := by decide

/-! ### the new model and the old one -/

/-- **Conservative extension.** On a plain tree (pixel layers, groups, masks, clip runs, knockout) embedded as an
effect-carrying tree without fill, vector mask, stroke or effects, the new model computes exactly what
`Model/Composite.lean` computes, whatever `force`: every theorem of `Props/C11.lean` and `Props/C13.lean` is a theorem
about `applyFxNode` on such trees. -/
theorem fx_model_extends_model (B : Mode → Color → Color → Color) (force : Bool) (V : Rect) (x y : Int) (cc : Bool)
    (st : PState) (n : Node) : applyFxNode B force V x y cc st (embed n) = applyNode B V x y cc st n :=
  applyFxNode_embed B force V x y cc st n

theorem fx_doc_extends_model (B : Mode → Color → Color → Color) (force : Bool) (V : Rect) (x y : Int) (color : Color)
    (alpha : Rat) (layers : List Node) :
    compositeFxDoc B force V x y color alpha (embedList layers) = compositeDoc B V x y color alpha layers :=
  compositeFxDoc_embed B force V x y color alpha layers

/-- **The evaluator is the model.** The driver command `comp.fx` evaluates `compositeFxDocF` (colours tabulated after
every `_apply_source` step); it returns exactly what `compositeFxDoc` returns. -/
theorem fx_evaluator_is_model (k : Nat) (B : Mode → Color → Color → Color) (force : Bool) (V : Rect) (x y : Int)
    (color : Color) (alpha : Rat) (layers : List FxNode) :
    compositeFxDocF k B force V x y color alpha layers = compositeFxDoc B force V x y color alpha layers :=
  compositeFxDocF_eq k B force V x y color alpha layers

/-! ### state invariants through effects -/

/-- **State in range, effects included**: through fills, vector masks, the vector stroke, overlay and stroke effects,
adjustment layers, groups, masks, clip runs and knockout, colours, shapes and alphas stay in `[0,1]`,
`alpha = Union(alpha₀, alpha_g)` and `alpha_g ≤ shape_g`. -/
theorem state_in_range_fx (B : Mode → Color → Color → Color) (force : Bool) (V : Rect) (x y : Int) (cc : Bool) (st : PState)
    (hst : Inv st) (n : FxNode) (hn : fxNodeOk n) : Inv (applyFxNode B force V x y cc st n) :=
  applyFxNode_inv B force V x y cc st hst n hn

/-- the hypotheses are satisfiable: a white layer with a black colour overlay, from the start of a document -/
example : Inv (PState.init white 0 false) ∧ fxNodeOk (.leaf (plainProps 1) overlayFx whiteSrc none []) := by
  refine ⟨inv_init white_ok unit01_zero false, ⟨unit01_one, unit01_one, unit01_one, unit01_zero, unit01_one⟩, ?_, ?_, trivial, trivial⟩
  · refine ⟨unit01_one, ?_, ?_⟩
    · intro e he
      simp only [overlayFx, List.mem_singleton] at he
      subst he
      exact ⟨black_ok, unit01_one, unit01_one⟩
    · intro s hs; simp [overlayFx, Fx.plain] at hs
  · exact ⟨white_ok, unit01_one, white_ok, unit01_zero⟩

/-- **The backdrop removal never clips, effects included.** -/
theorem group_result_unclipped_fx {B : Mode → Color → Color → Color} (hB : BOk B) (force : Bool) (V : Rect) (x y : Int)
    {color : Color} {alpha : Rat} (hc : ColorOk color) (ha : Unit01 alpha) (iso : Bool) (layers : List FxNode)
    (hl : fxListOk layers) :
    let st := applyFxList B force V x y (PState.init color alpha iso) layers
    ∀ ch, (0 ≤ st.c ch * st.a - (1 - st.ag) * st.a0 * st.c0 ch ∧ st.c ch * st.a - (1 - st.ag) * st.a0 * st.c0 ch ≤ st.ag) ∧
      finishColor st ch * st.ag = st.c ch * st.a - (1 - st.ag) * st.a0 * st.c0 ch := by
  intro st ch
  have i0 := inv_init hc ha iso
  have hinv := applyFxList_inv B force V x y _ i0 layers hl
  have hx := applyFxList_xinv hB force V x y _ i0 (xinv_init color alpha iso) layers hl
  exact ⟨hx ch, finishColor_mul hinv hx ch⟩

example : BOk allNormalFx ∧ fxListOk [] := ⟨fun _ _ _ _ hcs => hcs, trivial⟩

/-! ### overlays are extra sources -/

/-- **A layer with effects is the layer without them followed by one ordinary source per effect.** For every layer
(leaf or group, whatever it carries and whatever is below it) and every state it meets: `apply` on the layer equals
`apply` on the same layer stripped of its own overlay and stroke effects, followed by plain `_apply_source` steps, one per
overlay effect in the order colour, pattern, gradient — with the effect's colour pasted at the layer's box, shape
`shape · shape_e`, alpha `alpha · shape_e · opacity` where `shape`, `alpha` are the layer's after masks and layer opacity
and before fill opacity — then one per stroke effect (drawn shape `s`, alpha `s · opacity · layer opacity`); none when
`apply` skips the layer. -/
theorem overlay_is_extra_source (B : Mode → Color → Color → Color) (force : Bool) (V : Rect) (x y : Int) (cc : Bool)
    (st : PState) (n : FxNode) :
    applyFxNode B force V x y cc st n
      = applySrcs B (applyFxNode B force V x y cc st n.stripFx) (nodeFxSrcs B force V x y cc st n) :=
  applyFxNode_strip B force V x y cc st n

/-- what the extra sources of a leaf are, spelled out -/
theorem overlay_sources_of_leaf (B : Mode → Color → Color → Color) (force : Bool) (V : Rect) (x y : Int) (cc : Bool)
    (st : PState) (pr : Props) (fx : Fx) (src : ObjSrc) (stroke : Option VStroke) (clips : List FxNode)
    (h : propsSkipped V cc pr = false) :
    nodeFxSrcs B force V x y cc st (.leaf pr fx src stroke clips)
      = fx.overlays.map (fun e =>
          { mode := e.mode, color := pasteAt V pr.bbox x y e.color white,
            shape := leafShape force V x y pr fx src * (maskFactorsFx force pr fx V x y).1 * overlayShape V pr.bbox x y e,
            alpha := leafShape force V x y pr fx src
              * ((maskFactorsFx force pr fx V x y).1 * (maskFactorsFx force pr fx V x y).2 * pr.opacity)
              * overlayShape V pr.bbox x y e * e.opacity,
            ko := false })
        ++ fx.strokeFx.map (strokeFxSrc V pr.bbox x y pr.opacity) := by
  simp only [nodeFxSrcs, h, Bool.false_eq_true, if_false, fxSrcs, maskedShape, maskedAlpha]
  rfl

example : propsSkipped unitRectFx false (plainProps 1) = false := by decide

/-! ### the compositor with effects refines the published model with effects -/

/-- **`compositor_refines_spec` for effect-carrying trees.** From related states the code model `applyFxNode` and the
published model `specFxNode` (`Model/CompositeFxSpec.lean`: a fill layer is an object with the drawn colour and shape, a
vector mask one more soft-mask factor, an overlay or stroke effect one more element of the group, the vector stroke a
non-isolated group over the object whose backdrop-removed colour the object takes, an adjustment layer nothing) reach
related states: equal shape, group alpha and alpha, spec's premultiplied colour = code's colour × alpha. With the
group-alpha rule of a knockout element as coded (see `Props/C11.lean`). -/
theorem compositor_refines_spec_fx {B : Mode → Color → Color → Color} (hB : BOk B) (force : Bool) (V : Rect) (x y : Int)
    (clipCompositing : Bool) (st : PState) (σ : SState) (hst : Inv st) (hr : Rel st σ) (n : FxNode) (hn : fxNodeOk n) :
    Rel (applyFxNode B force V x y clipCompositing st n) (specFxNode .pdf17 B force V x y clipCompositing σ n) :=
  applyFxNode_rel hB force V x y clipCompositing st σ hst hr n hn

example (color : Color) (alpha : Rat) (hc : ColorOk color) (ha : Unit01 alpha) (iso : Bool) :
    Inv (PState.init color alpha iso) ∧ Rel (PState.init color alpha iso) (SState.init (fun ch => color ch * alpha) alpha iso) :=
  ⟨inv_init hc ha iso, rel_init iso (fun _ => rfl)⟩

theorem compositor_refines_spec_fx_list {B : Mode → Color → Color → Color} (hB : BOk B) (force : Bool) (V : Rect) (x y : Int)
    (st : PState) (σ : SState) (hst : Inv st) (hr : Rel st σ) (ns : List FxNode) (hn : fxListOk ns) :
    Rel (applyFxList B force V x y st ns) (specFxList .pdf17 B force V x y σ ns) :=
  applyFxList_rel hB force V x y st σ hst hr ns hn

theorem compositor_refines_spec_fx_clip_run {B : Mode → Color → Color → Color} (hB : BOk B) (force : Bool) (V : Rect) (x y : Int)
    (st : PState) (σ : SState) (hst : Inv st) (hr : Rel st σ) (ns : List FxNode) (hn : fxListOk ns) :
    Rel (applyFxClips B force V x y st ns) (specFxClips .pdf17 B force V x y σ ns) :=
  applyFxClips_rel hB force V x y st σ hst hr ns hn

/-- **Whole documents with effects**: `composite(psd, color, alpha, force=force)` at a pixel returns the published model's
shape and alpha, and colour × alpha = the published premultiplied group colour, hence the published colour wherever the
result alpha is not zero. -/
theorem compositor_refines_spec_fx_doc {B : Mode → Color → Color → Color} (hB : BOk B) (force : Bool) (V : Rect) (x y : Int)
    {color : Color} {alpha : Rat} (hc : ColorOk color) (ha : Unit01 alpha) (layers : List FxNode) (hl : fxListOk layers) :
    let code := compositeFxDoc B force V x y color alpha layers
    let spec := specFxDoc .pdf17 B force V x y (fun ch => alpha * color ch) alpha layers
    code.2.1 = spec.2.1 ∧ code.2.2 = spec.2.2 ∧ (∀ ch, code.1 ch * code.2.2 = spec.1 ch) ∧
      (code.2.2 ≠ 0 → ∀ ch, code.1 ch = spec.1 ch / spec.2.2) := by
  intro code spec
  obtain ⟨h1, h2, h3⟩ := compositeFxDoc_rel hB force V x y hc ha layers hl
  refine ⟨h1, h2, h3, ?_⟩
  intro hne ch
  have h3' : code.1 ch * code.2.2 = spec.1 ch := h3 ch
  have h2' : code.2.2 = spec.2.2 := h2
  rw [← h3', ← h2']
  field_simp

example : ColorOk white ∧ Unit01 (0 : Rat) ∧ fxListOk [.adjustment (plainProps 1)] := ⟨white_ok, unit01_zero, trivial, trivial⟩

/-! ### fill layers, `force` -/

/-- **A fill layer with a full vector mask is a pixel layer of that colour.** A leaf whose object comes from its fill
(`useFill`: no pixels, or `force`) and whose vector mask, where it applies, is 1 at the pixel composites exactly like the
pixel layer that stores the fill's colour and shape as pixels and has neither fill nor vector mask — same clip run, same
stroke, same effects, same everything else. -/
theorem fill_layer_is_pixel_layer (B : Mode → Color → Color → Color) (force : Bool) (V : Rect) (x y : Int) (cc : Bool)
    (st : PState) (pr : Props) (fx : Fx) (src : ObjSrc) (stroke : Option VStroke) (clips : List FxNode)
    (hV : V.contains x y = true) (hfill : useFill force fx.flags = true)
    (hvm : useVectorMask force fx.flags = true → fx.vmBox.contains x y = true ∧ fx.vmValue = 1) :
    applyFxNode B force V x y cc st (.leaf pr fx src stroke clips)
      = applyFxNode B force V x y cc st (.leaf pr (asPixelFx fx) (asPixelSrc src) stroke clips) :=
  fill_leaf_eq_pixel_leaf B force V x y cc st pr fx src stroke clips hV hfill hvm

/-- a solid-colour fill layer without pixels, vector mask enabled and full at the pixel -/
example : let f : Flags := { hasPixels := false, hasFill := true, hasVectorMask := true, vmaskEnabled := true, maskNoReal := false }
    unitRectFx.contains 0 0 = true ∧ useFill false f = true ∧ useVectorMask false f = true := by decide

/-- **`force` is irrelevant for layers without fill and vector mask** (in particular pixel layers; groups without a
vector mask), through the whole tree: the two decisions that read `force` (`useFill`, `useVectorMask`) cannot come out
differently. (A raster mask with a "real" combined plane is read differently under `force`; the per-pixel data of the
tree are the planes as read.) -/
theorem force_irrelevant (B : Mode → Color → Color → Color) (V : Rect) (x y : Int) (cc : Bool) (st : PState) (n : FxNode)
    (h : forceFree n) : applyFxNode B true V x y cc st n = applyFxNode B false V x y cc st n :=
  applyFxNode_force B V x y cc st n h

theorem force_irrelevant_doc (B : Mode → Color → Color → Color) (V : Rect) (x y : Int) (color : Color) (alpha : Rat)
    (layers : List FxNode) (h : listForceFree layers) :
    compositeFxDoc B true V x y color alpha layers = compositeFxDoc B false V x y color alpha layers := by
  unfold compositeFxDoc
  rw [applyFxList_force B V x y _ layers h]

/-- a pixel layer with an overlay effect -/
example : forceFree (.leaf (plainProps 1) overlayFx whiteSrc none []) :=
  ⟨⟨rfl, rfl⟩, trivial⟩

/-- … and `force` DOES matter for a layer that has both pixels and a fill: with `force` the fill is drawn -/
theorem force_matters_with_fill :
    let f : Fx := { Fx.plain true with flags := { hasPixels := true, hasFill := true, hasVectorMask := false, vmaskEnabled := false, maskNoReal := false } }
    let src : ObjSrc := { hasArr := true, pixColor := white, pixShape := 0, fillColor := white, fillShape := 1 }
    (compositeFxDoc allNormalFx true unitRectFx 0 0 white 0 [.leaf (plainProps 1) f src none []]).2.2 = 1 ∧
    (compositeFxDoc allNormalFx false unitRectFx 0 0 white 0 [.leaf (plainProps 1) f src none []]).2.2 = 0 := by
  decide +kernel

end PsdVerif.C11Fx
