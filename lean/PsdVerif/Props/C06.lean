/-
C06 — malformed input fails safely (the model half).

Model: the skeleton reader `PSD.read` of `Model/Psd.lean` (readers of `Model/Codec.lean`) and its
counting twin `PSD.readC` of `Model/PsdCost.lean`. Property theorems only; lemmas are in
`Lemmas/Safe*.lean`.

What is shown, for EVERY byte string `b`:

* totality. `PSD.read` is a total Lean function by construction: every count-driven loop is
  structural (`readCount`, `readFor`: `for _ in range(n)` reads through `read_fmt`, which raises at the
  end of the data) and every `while` loop (`readWhile`) runs on a fuel of "remaining bytes + 1".
  `read_total` records that; `read_never_other` shows the fuel is never exhausted (the `fuel = 0` value
  `Err.other` is not an outcome), because every item of the three loops (`resources_loop_safe`,
  `ranges_loop_safe`, `tagged_loop_safe`) consumes ≥ 1 byte, raises, or ends the loop.
* outcome. `PSD.read b 0` is a document or one of `IOError`, `ValueError`, `AssertionError`, `OverflowError`
  (`outcome_is_exception`; each class is attained: `outcome_classes_attained`; `OverflowError` is
  `fp.read(n)` / `fp.seek(n)` with `n ≥ 2^63`, reachable through the 8-byte length fields of a PSB).
* cursor. Readers that do not seek stay inside the stream (`…_cursor`); `LayerInfo.read` and
  `LayerAndMaskInformation.read` end with `fp.seek(end_pos)`, and `end_pos` is computed from the declared
  length alone (`layer_info_cursor_is_end_pos`, `layer_and_mask_cursor_is_end_pos`), so in isolation they
  can leave the cursor behind the end of the data (`…_can_pass_end`) though never at or behind `2^63`
  (`seek_below_max_size`); the whole-file reader then fails in
  `ImageData.read` (`overrun_then_image_data_fails`, `psd_overrun_fails`), and when it succeeds it ends
  exactly at the end of the file (`read_cursor_bound`).
* header. `Header.dec` is "extract seven fields, run the validators" (`header_dec_eq`); a header that is
  not `Valid` is rejected with `ValueError`, a short one with `IOError`, and nothing behind it is
  interpreted (`psd_read_rejects_bad_header`). The ranges are the REGENERATED tables of the source
  (`header_valid_iff`, `header_tables`): channels 1…56 and height/width 1…300000; the limits do not depend on the
  version. (Until repo 9dcb7fb the header passed `range_(1, 57)` / `range_(1, 300001)` to an INCLUSIVE validator, so 57
  channels and a side of 300001 were accepted — found by this theorem pinning the regenerated tables and by the
  harness's one-invalid-field headers; repaired, tables regenerated, theorems re-pinned.)
* cost. `PSD.readC` (`Model/PsdCost.lean`) is the SAME reader with a step counter (one tick per primitive
  read on the stream, per loop iteration, per nested `io.BytesIO` entered) and an allocation counter (bytes
  RETURNED by `fp.read` — a declared length larger than the remaining data returns only what is there — plus
  every block copied into a nested `io.BytesIO`). `readC_erases`: it returns what `PSD.read` returns.
  `read_cost_bound`: ticks + bytes ≤ 13 · n + 224 for an input of `n` bytes, for every outcome (the cost is
  kept when a step raises). Linear, not quadratic as DESIGN anticipated: the nesting depth of `BytesIO` copies
  in the skeleton is a constant (main stream → extra block of a layer record → mask / blending-ranges block;
  resources block; global-mask block), each level is paid by the bytes the enclosing level skipped, and the one
  backward seek (`LayerAndMaskInformation.read` → `end_pos` after an over-run) is followed by `ImageData.read`
  only. No count or length taken from the file drives an allocation or a loop by itself: every iteration of a
  `range(count)` loop consumes ≥ 1 byte through `read_fmt` or raises.

* the WHOLE modelled reader (sections 7-12). `OpenCost.openC D b` (Model/OpenCost.lean, Model/OpenDispatch.lean,
  Model/OpenMain.lean) is the skeleton with the payload dispatch of `TaggedBlock.read` / `ImageResource.read` put back:
  every class registered in `tagged_blocks.TYPES` and `image_resources.TYPES` (REGENERATED registries) runs its counting
  twin — the `PCodec` combinators (Model/PayloadCost.lean), the hand-written readers of units 2-10
  (Model/PayloadCost*.lean), the descriptor reader (Model/DescriptorCost.lean), the engine-data parser
  (Model/EngineDataCost.lean) — and `Lr16` / `Lr32` recurse into the layer-info reader on a fuel `D` that stands for
  CPython's recursion limit. `open_steps_bound`: ticks + bytes ≤ (2105 + 4·n + 168·min D (n/12))·n + 287 for EVERY byte
  string and EVERY outcome. Two quadratic terms, both real: every nesting level copies its block
  (`nested_family_quadratic`: 120·m² bytes for the 60·m + 46 byte document of depth m) and the `Slices` resource re-reads
  the rest of its block once per slice (`slices_not_linear`, known finding). The side condition that makes every
  count-driven loop stop at the first failing item, `bodyProgress`, holds for every class by `decide`
  (`body_progress_all_classes`) and the loops / allocation sites / registries / regular expressions the model assumes
  are tied to the source by `decide` over regenerated tables (section 11).

What the model does NOT show. Real time, real memory, interpreter crashes, zlib and PIL native code are runtime behaviour
that only the watchdog-supervised subprocess of harness/props/C06.py observes; `PSDImage._init` (the layer tree) and the
export paths are outside `openC`. That CPython's `re` does O(1) work per byte on the engine-data patterns is TRUSTED
(a decidable sufficient condition on the regenerated patterns is checked: `engine_patterns_safe`). A declared length is
handed to `fp.read` as it is (`declared_length_is_requested`): the bound on allocation is about what `read` RETURNS
(`io.BytesIO`); a buffered file object reserves the request first (known finding C06/open-from-path).
-/
import PsdVerif.Lemmas.Safe3
import PsdVerif.Lemmas.SafeCost4
import PsdVerif.Lemmas.SafeSamples
import PsdVerif.Props.C05
import PsdVerif.Lemmas.OpenMain
import PsdVerif.Lemmas.OpenSamples
import PsdVerif.Lemmas.CostClassTable
import PsdVerif.Lemmas.CostTablesTied
import PsdVerif.Generated.ReadSeeks
import PsdVerif.Lemmas.UnsafeLoops
import PsdVerif.Lemmas.EngineRegexTied

namespace PsdVerif.C06
open PsdVerif PsdVerif.Codec PsdVerif.Psd PsdVerif.Safe PsdVerif.SafeCost
open PsdVerif.PsdCost (Cost CE)

/-! ### 1. totality, no fuel exhaustion -/

/-- Lean totality = every count/length-driven loop of the model reader terminates for every corrupt value -/
theorem read_total : ∀ b : B, ∃ r, PSD.read b 0 = r := fun _ => ⟨_, rfl⟩

/-- generic: a `while cond: item` loop whose condition only holds inside the stream and whose items consume
at least one byte whenever they return a value never runs out of fuel, stays inside the stream, and raises
only what its items raise -/
theorem while_loop_safe {α : Type} {cond : B → Nat → Bool} {item : R (Option α)} {d : B}
    (hc : ∀ p, cond d p = true → p < d.length) (hi : ∀ p, Good 0 d p (item d p))
    (hs : ∀ p a p', item d p = .ok (some a, p') → p < p') (p : Nat) :
    Good 0 d p (readWhile cond item d p) := readWhile_good hc hi hs p

/-- `ImageResources.read`: `while is_readable(fp, 4)` -/
theorem resources_loop_safe (d : B) (p : Nat) :
    readWhile (isReadable 4) (optItem Resource.dec) d p ≠ .error .other :=
  (resourcesLoop_good d p).errIn.ne_other

/-- `LayerBlendingRanges.read`: `while is_readable(fp, 8)` -/
theorem ranges_loop_safe (d : B) (p : Nat) :
    readWhile (isReadable 8) (optItem Range4.dec) d p ≠ .error .other :=
  (rangesLoop_good d p).errIn.ne_other

/-- `TaggedBlocks.read`: `while is_readable(fp, 8) and fp.tell() < end_pos`, `None` (bad signature) ends it -/
theorem tagged_loop_safe (v pad : Nat) (endPos : Option Nat) (d : B) (p : Nat) :
    readWhile (taggedCond endPos) (TaggedBlock.dec v pad) d p ≠ .error .other :=
  (taggedLoop_good v pad endPos d p).errIn.ne_other

theorem read_never_other (b : B) : PSD.read b 0 ≠ .error .other := (psd_errIn b 0).ne_other

/-! ### 3. the outcome is a document or an ordinary exception -/

theorem outcome_is_exception {b : B} {x : Err} (h : PSD.read b 0 = .error x) :
    x ∈ [Err.ioError, .valueError, .assertionError, .overflowError] := psd_errIn b 0 x h

/-- the list is exact: a truncated file, a bad version, a short pascal string in a resource block, a PSB
section of `2^63` bytes -/
theorem outcome_classes_attained :
    PSD.read (minimalPsd.take 30) 0 = .error .ioError ∧ PSD.read badVersionPsd 0 = .error .valueError ∧
    PSD.read shortPascalPsd 0 = .error .assertionError ∧ PSD.read overflowPsd 0 = .error .overflowError := by
  decide +kernel

/-- per section reader (any version, any stream, any position) -/
theorem header_outcome (d : B) (p : Nat) : ErrIn (Header.dec d p) := (header_good d p).errIn
theorem color_mode_outcome (d : B) (p : Nat) : ErrIn (colorModeDec d p) := (colorMode_good d p).errIn
theorem resources_outcome (d : B) (p : Nat) : ErrIn (resourcesDec d p) := (resources_good d p).errIn
theorem layer_record_outcome (v : Nat) (d : B) (p : Nat) : ErrIn (LayerRecord.dec v d p) := (layerRecord_good v d p).errIn
theorem layer_info_outcome (v : Nat) (d : B) (p : Nat) : ErrIn (LayerInfo.dec v d p) := layerInfo_errIn v d p
theorem layer_and_mask_outcome (v : Nat) (d : B) (p : Nat) : ErrIn (LayerAndMask.dec v d p) := layerAndMask_errIn v d p
theorem image_data_outcome (d : B) (p : Nat) : ErrIn (ImageData.dec d p) := (imageData_good d p).errIn

/-! ### 2. cursor -/

/-- the whole-file reader ends exactly at the end of the file (`ImageData.read` reads to EOF) -/
theorem read_cursor_bound {b : B} {v : PSD} {p : Nat} (h : PSD.read b 0 = .ok (v, p)) : p = b.length := psd_cursor h

example : PSD.read minimalPsd 0 = .ok (minimalVal, 41) := by decide +kernel
example : ∀ n < 40, PSD.read (minimalPsd.take n) 0 = .error .ioError := by decide +kernel
example : PSD.read (minimalPsd.take 40) 0 = .ok ({ minimalVal with imageData := ⟨0, []⟩ }, 40) := by decide +kernel

theorem header_cursor {d : B} {p : Nat} {v : Header} {p' : Nat} (h : Header.dec d p = .ok (v, p')) (hp : p ≤ d.length) :
    p ≤ p' ∧ p' ≤ d.length := (header_good d p).cursor h hp
theorem color_mode_cursor {d : B} {p : Nat} {v : B} {p' : Nat} (h : colorModeDec d p = .ok (v, p')) (hp : p ≤ d.length) :
    p ≤ p' ∧ p' ≤ d.length := (colorMode_good d p).cursor h hp
theorem resources_cursor {d : B} {p : Nat} {v : List Resource} {p' : Nat} (h : resourcesDec d p = .ok (v, p'))
    (hp : p ≤ d.length) : p ≤ p' ∧ p' ≤ d.length := (resources_good d p).cursor h hp
theorem tagged_blocks_cursor {ver pad : Nat} {e : Option Nat} {d : B} {p : Nat} {v : List TaggedBlock} {p' : Nat}
    (h : taggedBlocksDec ver pad e d p = .ok (v, p')) (hp : p ≤ d.length) : p ≤ p' ∧ p' ≤ d.length :=
  (taggedBlocks_good ver pad e d p).cursor h hp
theorem mask_cursor {d : B} {p : Nat} {v : Option MaskData} {p' : Nat} (h : maskDec d p = .ok (v, p')) (hp : p ≤ d.length) :
    p ≤ p' ∧ p' ≤ d.length := (mask_good d p).cursor h hp
theorem blending_ranges_cursor {d : B} {p : Nat} {v : BlendingRanges} {p' : Nat} (h : BlendingRanges.dec d p = .ok (v, p'))
    (hp : p ≤ d.length) : p ≤ p' ∧ p' ≤ d.length := (blendingRanges_good d p).cursor h hp
theorem layer_record_cursor {ver : Nat} {d : B} {p : Nat} {v : LayerRecord} {p' : Nat}
    (h : LayerRecord.dec ver d p = .ok (v, p')) (hp : p ≤ d.length) : p ≤ p' ∧ p' ≤ d.length :=
  (layerRecord_good ver d p).cursor h hp
theorem channel_image_cursor {rs : List LayerRecord} {d : B} {p : Nat} {v : List (List ChannelData)} {p' : Nat}
    (h : channelImageDec rs d p = .ok (v, p')) (hp : p ≤ d.length) : p ≤ p' ∧ p' ≤ d.length :=
  (channelImage_good rs d p).cursor h hp
theorem layer_info_body_cursor {ver : Nat} {d : B} {p : Nat} {v : LayerInfo} {p' : Nat}
    (h : LayerInfo.bodyDec ver d p = .ok (v, p')) (hp : p ≤ d.length) : p ≤ p' ∧ p' ≤ d.length :=
  (layerInfoBody_good ver d p).cursor h hp
/-- including the rewind of a block shorter than 13 bytes -/
theorem global_mask_cursor {d : B} {p : Nat} {v : GlobalLayerMaskInfo} {p' : Nat}
    (h : GlobalLayerMaskInfo.dec d p = .ok (v, p')) (hp : p ≤ d.length) : p ≤ p' ∧ p' ≤ d.length :=
  (globalMask_good d p).cursor h hp
theorem image_data_cursor {d : B} {p : Nat} {v : ImageData} {p' : Nat} (h : ImageData.dec d p = .ok (v, p')) :
    p' = d.length := imageData_end h

example : Header.dec minimalPsd 0 = .ok (headerVal, 26) ∧ resourcesDec minimalPsd 30 = .ok ([], 34) := by decide +kernel

/-- primitive level: `fp.read(n)` returns at most `n` bytes and only bytes that exist -/
theorem read_up_to_bounded {n : Nat} {d : B} {p : Nat} {x : B} {p' : Nat} (h : readUpTo n d p = .ok (x, p')) :
    x.length ≤ d.length - p ∧ x.length ≤ n := by
  have := readUpTo_ok h; omega

/-- `read_length_block`: the block is a copy of bytes of the stream, whatever length was declared -/
theorem read_len_block_bounded {skip w pad : Nat} {d : B} {p : Nat} {x : B} {p' : Nat}
    (h : readLenBlock skip w pad d p = .ok (x, p')) : x.length ≤ d.length ∧ p + skip + w + x.length ≤ p' ∧ p' ≤ d.length := by
  have := readLenBlock_ok h; omega

example : readLenBlock 0 4 1 [0, 0, 0, 2, 5, 6, 7] 0 = .ok ([5, 6], 6) ∧
    readLenBlock 0 4 1 [255, 255, 255, 255, 5, 6, 7] 0 = .error .ioError := by decide +kernel

/-- the exceptions: `fp.seek(end_pos)` with `end_pos` = start + width + DECLARED length -/
theorem layer_info_cursor_is_end_pos {v : Nat} {d : B} {p : Nat} {li : LayerInfo} {p' : Nat}
    (h : LayerInfo.dec v d p = .ok (li, p')) :
    ∃ n, readU (secW v) d p = .ok (n, p + secW v) ∧ p' = p + secW v + n ∧ ¬ overflows p' d := layerInfo_cursor h

theorem layer_and_mask_cursor_is_end_pos {v : Nat} {d : B} {p : Nat} {x : LayerAndMask} {p' : Nat}
    (h : LayerAndMask.dec v d p = .ok (x, p')) :
    ∃ n, readU (secW v) d p = .ok (n, p + secW v) ∧ p' = p + secW v + n ∧ ¬ overflows p' d := layerAndMask_cursor h

/-- on a real stream (shorter than `2^63` bytes) the position after a seek is below `sys.maxsize + 1` -/
theorem seek_below_max_size {v : Nat} {d : B} {p : Nat} {x : LayerAndMask} {p' : Nat}
    (h : LayerAndMask.dec v d p = .ok (x, p')) (hd : d.length < pyMaxSize) : p' < pyMaxSize := by
  obtain ⟨_, _, _, hov⟩ := layerAndMask_cursor h
  exact lt_pyMaxSize_of_not_overflows hov hd

theorem seek_below_max_size_layer_info {v : Nat} {d : B} {p : Nat} {x : LayerInfo} {p' : Nat}
    (h : LayerInfo.dec v d p = .ok (x, p')) (hd : d.length < pyMaxSize) : p' < pyMaxSize := by
  obtain ⟨_, _, _, hov⟩ := layerInfo_cursor h
  exact lt_pyMaxSize_of_not_overflows hov hd

/-- in isolation both can leave the cursor behind the end of the data (6 resp. 8 bytes, cursor 13 resp. 9) -/
theorem layer_info_can_pass_end : LayerInfo.dec 1 [0, 0, 0, 9, 0, 0] 0 = .ok (⟨0, none, none⟩, 13) := by decide +kernel

theorem layer_and_mask_can_pass_end :
    LayerAndMask.dec 1 [0, 0, 0, 5, 0, 0, 0, 0] 0 = .ok (⟨some ⟨0, none, none⟩, none, some []⟩, 9) := by decide +kernel

/-- … after which `ImageData.read` (the next and last reader of `PSD.read`) raises `IOError` -/
theorem overrun_then_image_data_fails {d : B} {p : Nat} (h : d.length < p) : ImageData.dec d p = .error .ioError :=
  imageData_behind_end h

example : (overrunPsd.length : Nat) < 43 := by decide

theorem psd_overrun_fails : PSD.read overrunPsd 0 = .error .ioError := by decide +kernel

/-- whenever the whole file is accepted, its layer-and-mask section ended inside the file -/
theorem read_section_inside {b : B} {v : PSD} {p : Nat} (h : PSD.read b 0 = .ok (v, p)) :
    ∃ p3 p4, LayerAndMask.dec v.header.version b p3 = .ok (v.layerAndMask, p4) ∧ p4 + 2 ≤ b.length := psd_section_inside h

/-! ### 4. header -/

/-- the validator tables as REGENERATED from `psd/header.py` (a change of the source breaks this) -/
theorem header_tables :
    G.headerSignature = [0x38, 0x42, 0x50, 0x53] ∧ G.headerVersions = [1, 2] ∧
    G.channelsMin = 1 ∧ G.channelsMax = 56 ∧ G.heightMin = 1 ∧ G.heightMax = 300000 ∧
    G.widthMin = 1 ∧ G.widthMax = 300000 ∧ G.headerDepths = [1, 8, 16, 32] ∧
    G.colorModes = [0, 1, 2, 3, 4, 7, 8, 9] := by decide

theorem header_valid_iff (h : Header) :
    h.Valid ↔ h.signature = [0x38, 0x42, 0x50, 0x53] ∧ (h.version = 1 ∨ h.version = 2) ∧
      (1 ≤ h.channels ∧ h.channels ≤ 56) ∧ (1 ≤ h.height ∧ h.height ≤ 300000) ∧ (1 ≤ h.width ∧ h.width ≤ 300000) ∧
      (h.depth = 1 ∨ h.depth = 8 ∨ h.depth = 16 ∨ h.depth = 32) ∧ h.colorMode ∈ [0, 1, 2, 3, 4, 7, 8, 9] := by
  obtain ⟨e1, e2, e3, e4, e5, e6, e7, e8, e9, e10⟩ := header_tables
  unfold Header.Valid
  rw [e1, e2, e3, e4, e5, e6, e7, e8, e9, e10]
  simp only [List.mem_cons, List.mem_nil_iff, or_false]

theorem header_signature_checked {h : Header} (hv : h.Valid) : h.signature = [0x38, 0x42, 0x50, 0x53] :=
  ((header_valid_iff h).1 hv).1
theorem header_version_checked {h : Header} (hv : h.Valid) : h.version = 1 ∨ h.version = 2 :=
  ((header_valid_iff h).1 hv).2.1
theorem header_channels_checked {h : Header} (hv : h.Valid) : 1 ≤ h.channels ∧ h.channels ≤ 56 :=
  ((header_valid_iff h).1 hv).2.2.1
theorem header_height_checked {h : Header} (hv : h.Valid) : 1 ≤ h.height ∧ h.height ≤ 300000 :=
  ((header_valid_iff h).1 hv).2.2.2.1
theorem header_width_checked {h : Header} (hv : h.Valid) : 1 ≤ h.width ∧ h.width ≤ 300000 :=
  ((header_valid_iff h).1 hv).2.2.2.2.1
theorem header_depth_checked {h : Header} (hv : h.Valid) : h.depth = 1 ∨ h.depth = 8 ∨ h.depth = 16 ∨ h.depth = 32 :=
  ((header_valid_iff h).1 hv).2.2.2.2.2.1
theorem header_color_mode_checked {h : Header} (hv : h.Valid) : h.colorMode ∈ [0, 1, 2, 3, 4, 7, 8, 9] :=
  ((header_valid_iff h).1 hv).2.2.2.2.2.2

example : headerVal.Valid := by decide

/-- the boundaries (repaired source): 56 channels and a side of 300000 pass, 57 and 300001 do not -/
example : ({ headerVal with channels := 56, height := 300000, width := 300000 } : Header).Valid ∧
    ¬ ({ headerVal with channels := 57 } : Header).Valid ∧ ¬ ({ headerVal with height := 300001 } : Header).Valid ∧
    ¬ ({ headerVal with width := 300001 } : Header).Valid ∧ ¬ ({ headerVal with channels := 0 } : Header).Valid := by decide

/-- whatever `Header.dec` returns passed the validators, is the raw field tuple, and took 26 bytes -/
theorem header_rejects {b : B} {h : Header} {p : Nat} (hd : Header.dec b 0 = .ok (h, p)) : h.Valid :=
  (header_valid_of_ok hd).1

theorem header_ok_is_raw {b : B} {h : Header} {p : Nat} (hd : Header.dec b 0 = .ok (h, p)) :
    h = headerRaw b 0 ∧ p = 26 ∧ 26 ≤ b.length := by
  obtain ⟨_, h2, h3, h4⟩ := header_valid_of_ok hd
  exact ⟨h4, by omega, by omega⟩

/-- with 26 bytes: extract the seven fields, run the validators — nothing else -/
theorem header_dec_eq {b : B} (hl : 26 ≤ b.length) :
    Header.dec b 0 = if (headerRaw b 0).Valid then .ok (headerRaw b 0, 26) else .error .valueError := by
  have := Safe.header_dec_eq (d := b) (p := 0) (by omega)
  simpa using this

/-- the sharp form: fields that are not `Valid` are rejected with `ValueError` -/
theorem header_rejects_invalid {b : B} (hl : 26 ≤ b.length) (hv : ¬ (headerRaw b 0).Valid) :
    Header.dec b 0 = .error .valueError := by
  rw [header_dec_eq hl, if_neg hv]

example : (26 ≤ badVersionPsd.length ∧ ¬ (headerRaw badVersionPsd 0).Valid) ∧ (headerRaw badVersionPsd 0).version = 3 := by
  decide +kernel

theorem header_short {b : B} (hl : b.length < 26) : Header.dec b 0 = .error .ioError :=
  header_short' (by omega)

example : Header.dec (headerBytes.take 25) 0 = .error .ioError := by decide +kernel

theorem header_accepts {h : Header} (hv : h.Valid) (rest : B) : Header.dec (h.encT ++ rest) 0 = .ok (h, 26) :=
  header_accepts' hv rest

example : headerVal.encT = headerBytes := by decide +kernel

/-- data whose header is short or not valid is rejected and nothing behind the header is interpreted:
the outcome is the header reader's exception -/
theorem psd_read_rejects_bad_header {b : B} (h : ¬ (26 ≤ b.length ∧ (headerRaw b 0).Valid)) :
    PSD.read b 0 = .error (if b.length < 26 then .ioError else .valueError) := by
  by_cases hl : b.length < 26
  · rw [if_pos hl]; exact psd_of_header_error (header_short hl)
  · rw [if_neg hl]
    exact psd_of_header_error (header_rejects_invalid (by omega) (fun hv => h ⟨by omega, hv⟩))

/-- conversely a document is only ever returned for a valid header -/
theorem psd_read_header_valid {b : B} {v : PSD} {p : Nat} (h : PSD.read b 0 = .ok (v, p)) :
    26 ≤ b.length ∧ v.header = headerRaw b 0 ∧ v.header.Valid := by
  unfold PSD.read at h
  obtain ⟨⟨header, p1⟩, h1, h⟩ := bind_ok h
  obtain ⟨⟨cmd, p2⟩, _, h⟩ := bind_ok h
  obtain ⟨⟨res, p3⟩, _, h⟩ := bind_ok h
  obtain ⟨⟨lm, p4⟩, _, h⟩ := bind_ok h
  obtain ⟨⟨img, p5⟩, _, h⟩ := bind_ok h
  cases h
  have := header_valid_of_ok h1
  exact ⟨by omega, this.2.2.2, this.1⟩

example : PSD.read badVersionPsd 0 = .error .valueError := by decide +kernel

/-! ### 5. cost -/

/-- the counting interpreter IS the reader: same results for every input -/
theorem readC_erases (b : B) : (PsdCost.PSD.readC b 0).1 = PSD.read b 0 := psd_fst b 0

/-- … section by section, at any position of any stream -/
theorem header_erases (d : B) (p : Nat) : (PsdCost.Header.decC d p).1 = Header.dec d p := header_fst d p
theorem resources_erases (d : B) (p : Nat) : (PsdCost.resourcesDecC d p).1 = resourcesDec d p := resources_fst d p
theorem tagged_blocks_erases (v pad : Nat) (e : Option Nat) (d : B) (p : Nat) :
    (PsdCost.taggedBlocksDecC v pad e d p).1 = taggedBlocksDec v pad e d p := taggedBlocks_fst v pad e d p
theorem layer_record_erases (v : Nat) (d : B) (p : Nat) : (PsdCost.LayerRecord.decC v d p).1 = LayerRecord.dec v d p :=
  layerRecord_fst v d p
theorem layer_info_erases (v : Nat) (d : B) (p : Nat) : (PsdCost.LayerInfo.decC v d p).1 = LayerInfo.dec v d p :=
  layerInfo_fst v d p
theorem layer_and_mask_erases (v : Nat) (d : B) (p : Nat) : (PsdCost.LayerAndMask.decC v d p).1 = LayerAndMask.dec v d p :=
  layerAndMask_fst v d p
theorem image_data_erases (d : B) (p : Nat) : (PsdCost.ImageData.decC d p).1 = ImageData.dec d p := imageData_fst d p

/-- ticks + bytes, for every outcome -/
theorem read_cost_bound (b : B) :
    (PsdCost.PSD.readC b 0).2.ticks + (PsdCost.PSD.readC b 0).2.alloc ≤ 13 * b.length + 224 := psd_w_le b

theorem read_steps_bound (b : B) : (PsdCost.PSD.readC b 0).2.ticks ≤ 13 * b.length + 224 := by
  have := read_cost_bound b; omega

theorem read_alloc_bound (b : B) : (PsdCost.PSD.readC b 0).2.alloc ≤ 13 * b.length + 224 := by
  have := read_cost_bound b; omega

/-- concrete runs: the minimal file; a truncation, a section over-run, a short pascal string, a `2^63` section
(the cost spent before the exception is kept); the empty input -/
example : (PsdCost.PSD.readC minimalPsd 0).2 = ⟨22, 41⟩ ∧ (PsdCost.PSD.readC (minimalPsd.take 30) 0).2 = ⟨14, 30⟩ ∧
    (PsdCost.PSD.readC overrunPsd 0).2 = ⟨22, 42⟩ ∧ (PsdCost.PSD.readC shortPascalPsd 0).2 = ⟨23, 62⟩ ∧
    (PsdCost.PSD.readC overflowPsd 0).2 = ⟨27, 54⟩ ∧ (PsdCost.PSD.readC [] 0).2 = ⟨1, 0⟩ := by decide +kernel

/-- per reader, whatever the outcome: cost ≤ a · (stream length) + b. The coefficient grows with the nesting
depth below the reader, which is a constant of the skeleton. -/
theorem resources_cost (d : B) (p : Nat) : (PsdCost.resourcesDecC d p).2.w ≤ 5 * d.length + 26 := (resources_pays d p).w_le
theorem tagged_blocks_cost (v pad : Nat) (e : Option Nat) (d : B) (p : Nat) :
    (PsdCost.taggedBlocksDecC v pad e d p).2.w ≤ 3 * d.length + 30 := (taggedBlocks_pays v pad e d p).w_le
theorem layer_record_cost (v : Nat) (d : B) (p : Nat) : (PsdCost.LayerRecord.decC v d p).2.w ≤ 8 * d.length + 106 :=
  (layerRecord_pays v d p).w_le
theorem layer_info_cost (v : Nat) (d : B) (p : Nat) : (PsdCost.LayerInfo.decC v d p).2.w ≤ 12 * d.length + 113 :=
  (layerInfo_pays v d p).w_le
theorem layer_and_mask_cost (v : Nat) (d : B) (p : Nat) : (PsdCost.LayerAndMask.decC v d p).2.w ≤ 12 * d.length + 184 := by
  have h := layerAndMask_spend v d p
  unfold Spend at h
  have : pot 12 d p ≤ 12 * d.length := Nat.mul_le_mul_left 12 (by omega)
  omega

/-- a successful reader that does not seek is paid by the bytes it consumed: cost ≤ a · (advance) + b -/
theorem layer_record_cost_by_advance {v : Nat} {d : B} {p : Nat} {r : LayerRecord} {p' : Nat}
    (h : LayerRecord.dec v d p = .ok (r, p')) (hp : p ≤ d.length) :
    (PsdCost.LayerRecord.decC v d p).2.w ≤ 8 * (p' - p) + 106 := by
  have hc := (layerRecord_pays v d p).of_ok ((layerRecord_fst v d p).trans h)
  have hg := (layerRecord_good v d p).cursor h hp
  unfold pot at hc
  omega

example : (LayerRecord.dec 1 recordBytes 0).toOption.map (·.2) = some 46 ∧
    (PsdCost.LayerRecord.decC 1 recordBytes 0).2 = ⟨28, 70⟩ := by decide +kernel
example : LayerRecord.dec 1 [] 0 = .error .ioError ∧ (PsdCost.LayerRecord.decC 1 [] 0).2 = ⟨1, 0⟩ := by decide +kernel

/-! ### 6. the native decoder -/

/-- No `std::string` primitive of `_rle.decode` is reached out of bounds (C05). -/
theorem native_decoder_safe (e : Bytes) (n : Nat) : Rle.decC e n ≠ .oob := C05.decC_in_bounds e n

/-! ### 7. the counting semantics of the payload readers: one law per combinator -/

section payload
open PsdVerif.PayloadCost PsdVerif.Payload3

/-- `for _ in range(n)` over a body that consumes ≥ 1 byte when it succeeds: ticks + bytes are paid by the bytes
consumed (success) or left (failure) — the bound does not mention `n`: an over-large count stops at the first item
that fails -/
theorem counted_loop_ignores_count {α : Type} {item : PsdCost.RC α} {a b k : Nat} {d : B}
    (hi : ∀ p, p ≤ d.length → Cost a b k d p (item d p)) (hk : 1 ≤ k) (n p : Nat) (hp : p ≤ d.length) :
    Cost (a + b + 1) (b + 1) 0 d p (PsdCost.readCountC item n d p) := readCountC_cost hi hk n p hp

example : Cost 3 2 0 [] 0 (PsdCost.readCountC (PsdCost.readUC 4) 4294967295 [] 0) :=
  counted_loop_ignores_count (fun _ _ => readUC_cost 4) (by decide) _ 0 (Nat.le_refl _)

/-- `while is_readable(fp, m)`: never out of fuel, linear -/
theorem while_loop_cost {α : Type} {item : PsdCost.RC (Option α)} {a b k : Nat} (m : Nat) {d : B}
    (hi : ∀ p, p ≤ d.length → Cost a b k d p (item d p)) (hk : 1 ≤ k) (p : Nat) (hp : p ≤ d.length) :
    Cost (a + b + m + 2) (b + 2 * (m + 2)) 0 d p (PsdCost.readWhileC (PsdCost.isReadableC m) item d p) :=
  readWhileC_cost m hi hk p hp

/-- the combinators of Model/Payload3Base.lean: the counting reader erases to the reader and obeys `Cost` with the
constants computed from its shape, provided the shape passes `bodyProgress` -/
theorem combinators_sound :
    (∀ fs, (CC.fmt fs).Sound) ∧ CC.tailBytes.Sound ∧ (∀ pw pr, (CC.pascal pw pr).Sound) ∧ CC.ustr.Sound ∧
    (∀ {α β : Type} (x : CC α) (y : CC β), x.Sound → y.Sound → (CC.seq x y).Sound) ∧
    (∀ {α : Type} (w : Nat) (x : CC α), x.Sound → (CC.counted w x).Sound) ∧
    (∀ {α : Type} (n : Nat) (x : CC α), x.Sound → (CC.exactly n x).Sound) ∧
    (∀ {α : Type} (n pad : Nat) (x : CC α), x.Sound → (CC.whileR n pad x).Sound) ∧
    (∀ {α : Type} (pad : Nat) (x : CC α), x.Sound → (CC.padded pad x).Sound) ∧
    (∀ {α : Type} (w pad : Nat) (x : CC α), x.Sound → (CC.blocked w pad x).Sound) ∧
    (∀ {α : Type} (x : CC α), x.Sound → (CC.optTail x).Sound) :=
  ⟨CC.fmt_sound, CC.tailBytes_sound, CC.pascal_sound, CC.ustr_sound, fun _ _ hx hy => CC.seq_sound hx hy,
   fun w _ hx => CC.counted_sound w hx, fun n _ hx => CC.exactly_sound n hx, fun n pad _ hx => CC.whileR_sound n pad hx,
   fun pad _ hx => CC.padded_sound pad hx, fun w pad _ hx => CC.blocked_sound w pad hx, fun _ hx => CC.optTail_sound hx⟩

/-- `counted` needs its side condition: the shape of a counted loop over a body that may consume nothing does not pass -/
theorem counted_without_progress_rejected :
    (Sh.counted 4 (Sh.leaf 0 1)).bodyProgress = false ∧ (Sh.counted 4 (Sh.leaf 1 1)).bodyProgress = true := by decide

/-- the side condition for EVERY costed payload class (units 2-10), by `decide` over the table of their shapes -/
theorem body_progress_all_classes : allTables.all (fun e => e.2.bodyProgress) = true := all_body_progress

example : allTables.length = 98 := by decide

/-- every class of `tagged_blocks.TYPES` costs at most `1867 · len + 1853`, every class of `image_resources.TYPES`
at most `(62 + 4 · len) · len + 63`, and none runs out of fuel -/
theorem payload_class_bounds :
    OpenCost.AllR (OpenCost.RB 1867 1853) (OpenCost.blockRunners OpenCost.tables OpenCost.engineRunner OpenCost.tyshRun) ∧
    OpenCost.AllR (OpenCost.RQ 62 63 4) (OpenCost.resourceRunners OpenCost.tables) :=
  ⟨OpenCost.blockRunners_bound _ OpenCost.engineRunner_RB OpenCost.tyshRun_RB, OpenCost.resourceRunners_bound _⟩

end payload

/-! ### 8. descriptors and engine data: linear whatever the nesting -/

/-- `TYPES[t].read(fp)`: the counting twin is the reader … -/
theorem descriptor_erases (tb : Descriptor.Tables) (t : Descriptor.Tag) (d : B) (p : Nat) :
    (DescriptorCost.decC tb t d p).1 = Descriptor.dec tb t d p := DescriptorCost.decC_fst tb t d p

/-- … and costs at most `4 · (bytes consumed) + 10`: nesting does not copy, every level pays for itself out of its own
header, so the constants are the same at every depth (and at every fuel) -/
theorem descriptor_cost_linear (tb : Descriptor.Tables) (t : Descriptor.Tag) :
    PayloadCost.CostR 4 10 0 (DescriptorCost.decC tb t) := DescriptorCost.decC_cost tb t

theorem descriptor_block_cost (tb : Descriptor.Tables) :
    PayloadCost.CostR 4 7 16 (DescriptorCost.Block.decC tb) ∧ PayloadCost.CostR 4 8 20 (DescriptorCost.Block2.decC tb) :=
  ⟨DescriptorCost.Block.decC_cost tb, DescriptorCost.Block2.decC_cost tb⟩

/-- the engine-data parser: linear in the length of the blob (every token consumes ≥ 1 byte), never out of fuel -/
theorem engine_data_linear (d : EngineData.BL) :
    (EngineDataCost.parseC d).1 = EngineData.parse d ∧ (EngineDataCost.parseC d).2.w ≤ 63 * d.length + 20 ∧
      EngineData.parse d ≠ .error .recursionError :=
  ⟨EngineDataCost.parseC_fst d, EngineDataCost.parseC_cost d, EngineDataCost.parse_never_out_of_fuel d⟩

/-! ### 9. the whole modelled reader -/

section whole
open PsdVerif.OpenCost

/-- the typed reader returns the skeleton's document whenever no payload class raises; otherwise that exception -/
theorem open_refines_skeleton (D : Nat) (b : B) : Sim (openC D b).1 (PSD.read b 0) := openC_sim D b

theorem open_ok_is_skeleton_ok {D : Nat} {b : B} {v : PSD} {p : Nat} (h : (openC D b).1 = .ok (v, p)) :
    PSD.read b 0 = .ok (v, p) := (openC_sim D b).of_ok h

/-- no loop of the whole reader runs out of fuel, for any byte string -/
theorem open_never_out_of_fuel (D : Nat) (b : B) : (openC D b).1 ≠ .error .other := openC_never_other D b

/-- MAIN: for every byte string `b` of length `n`, whatever the outcome (a document or an exception), with at most `D`
nested layer-info blocks before `RecursionError`:  ticks ≤ P(n), allocation ≤ P(n) for
`P(n) = (2105 + 4·n + 168·min D (n/12))·n + 287` -/
theorem open_steps_bound (D : Nat) (b : B) :
    (openC D b).2.ticks ≤ (2105 + 4 * b.length + 168 * min D (b.length / 12)) * b.length + 287 ∧
    (openC D b).2.alloc ≤ (2105 + 4 * b.length + 168 * min D (b.length / 12)) * b.length + 287 := by
  have h := openC_cost D b
  unfold PsdCost.Cost.w at h
  exact ⟨by omega, by omega⟩

/-- whatever the recursion limit: at most quadratic -/
theorem open_steps_bound_deep (D : Nat) (b : B) :
    (openC D b).2.ticks + (openC D b).2.alloc ≤ 172 * b.length * b.length + 2105 * b.length + 287 :=
  openC_cost_quadratic D b

/-- with the recursion limit the nesting costs a constant factor; what stays quadratic is the `Slices` resource -/
theorem open_steps_bound_limit (D : Nat) (b : B) :
    (openC D b).2.ticks + (openC D b).2.alloc ≤ (2105 + 4 * b.length + 168 * D) * b.length + 287 :=
  openC_cost_limit D b

/-- truncated inputs: the bound of the prefix -/
theorem open_truncated (D : Nat) (b : B) (k : Nat) :
    (openC D (b.take k)).2.ticks + (openC D (b.take k)).2.alloc ≤ 172 * k * k + 2105 * k + 287 := by
  have h := open_steps_bound_deep D (b.take k)
  have hl : (b.take k).length ≤ k := by simp only [List.length_take]; omega
  have h1 : 172 * (b.take k).length * (b.take k).length ≤ 172 * k * k :=
    Nat.mul_le_mul (Nat.mul_le_mul_left _ hl) hl
  have h2 : 2105 * (b.take k).length ≤ 2105 * k := Nat.mul_le_mul_left _ hl
  omega

/-- the nested family attains the quadratic term: a layer info inside an `Lr16` block inside the extra data of a layer
record inside a layer info …, `m` levels in `60·m + 46` bytes; it opens, in `40·m + 24` ticks, and the copies add up to
`120·m² + 4·m + 46` bytes -/
theorem nested_family_quadratic :
    [0, 1, 2, 4, 8, 16].all (fun m => (nestDoc m).length == 60 * m + 46 &&
      (openC 1000 (nestDoc m)).1.toOption.map (·.2) == some (60 * m + 46) &&
      (openC 1000 (nestDoc m)).2 == ⟨40 * m + 24, 120 * m * m + 4 * m + 46⟩) = true := by decide +kernel

/-- … and a recursion limit cuts it: at depth 3 of 8 the reader raises `RecursionError`, having spent the levels above -/
theorem nested_family_limit :
    (openC 3 (nestDoc 8)).1 = .error .recursionError ∧ (openC 3 (nestDoc 8)).2 = ⟨168, 5576⟩ := by decide +kernel

/-- inputs whose counts are maximal cost no more than what is there: 32767 layer records declared, none present -/
theorem max_count_costs_nothing :
    (openC 1000 (Safe.headerBytes ++ be4 0 ++ be4 0 ++ be4 6 ++ (be4 2 ++ [0x7F, 0xFF]) ++ [0, 0])).1 = .error .ioError ∧
    (openC 1000 (Safe.headerBytes ++ be4 0 ++ be4 0 ++ be4 6 ++ (be4 2 ++ [0x7F, 0xFF]) ++ [0, 0])).2.ticks ≤ 40 := by
  decide +kernel

/-- … every length 0xFFFFFFFF: the first one ends the parse -/
theorem max_length_costs_nothing :
    (openC 1000 (Safe.headerBytes ++ [0xFF, 0xFF, 0xFF, 0xFF] ++ List.replicate 12 0xFF)).1 = .error .ioError ∧
    (openC 1000 (Safe.headerBytes ++ [0xFF, 0xFF, 0xFF, 0xFF] ++ List.replicate 12 0xFF)).2 = ⟨11, 42⟩ := by
  decide +kernel

end whole

/-! ### 10. what the theorems exclude: the unsafe variants, and the two findings -/

/-- a count-driven loop whose body swallows the end-of-data error runs `n` times, whatever the data (the seeded change
C06-r3-2 puts `MetadataSettings.read` into this shape): ticks ≥ the declared count -/
theorem swallowing_loop_runs_count {α : Type} (item : PsdCost.RC α) (n : Nat) (d : B) (p : Nat) :
    n ≤ (UnsafeLoops.readCountSwallowC item n d p).2.ticks := UnsafeLoops.swallow_ticks item n d p

/-- … and does not even fail: 2^32 − 1 iterations on the empty stream end with an empty list; the loop the library has
stops after two ticks -/
theorem swallowing_loop_on_empty (n : Nat) :
    (UnsafeLoops.readCountSwallowC (PsdCost.readUC 4) n [] 0).1 = .ok ([], 0) ∧
      (PsdCost.readCountC (PsdCost.readUC 4) n [] 0).2.w ≤ 2 :=
  ⟨UnsafeLoops.swallow_on_empty n, UnsafeLoops.safe_on_empty n⟩

/-- a chunked read without an end-of-file exit (the seeded change C06-r3-3): at the end of the data NO fuel suffices —
it is still looping when the fuel runs out — and it costs two ticks per unit of fuel; with the exit it ends at once -/
theorem chunked_read_never_ends (M fuel remaining : Nat) (hr : 0 < remaining) (d : B) :
    (UnsafeLoops.readChunkedFuelC M fuel remaining d d.length).1 = .error .other ∧
      (UnsafeLoops.readChunkedFuelC M fuel remaining d d.length).2.ticks = 2 * fuel ∧
      (UnsafeLoops.readChunkedOkC M (fuel + 1) remaining d d.length).1 = .ok ([], d.length) :=
  ⟨(UnsafeLoops.chunked_never_ends M fuel remaining hr d).1, (UnsafeLoops.chunked_never_ends M fuel remaining hr d).2,
   UnsafeLoops.chunked_ok_at_eof M fuel remaining d⟩

/-- FINDING (known): `SliceV6.read` reads a descriptor speculatively and undoes it; an undone attempt consumed nothing
but may have read everything that was left, so no bound "paid by the bytes consumed" holds for it … -/
theorem slices_not_linear (tb : Descriptor.Tables) (a b k : Nat) (hb : a * 69 + b < 4294967294) :
    ¬ PayloadCost.CostR a b k (PayloadCost.SliceV6.decC tb) := PayloadCost.SliceV6.decC_not_cost tb a b k hb

/-- … what does hold: quadratic in the bytes left, whatever slice count is declared; never out of fuel -/
theorem slices_quadratic_partial (tb : Descriptor.Tables) (d : B) (p : Nat) (hp : p ≤ d.length) :
    (PayloadCost.Slices.decC tb d p).1 = Payload3.Slices.dec tb d p ∧
    (PayloadCost.Slices.decC tb d p).2.w ≤ (d.length - p + 1) * (4 * (d.length - p) + 53) ∧
    (PayloadCost.Slices.decC tb d p).1 ≠ .error .other :=
  ⟨PayloadCost.Slices.decC_fst tb d p, (PayloadCost.Slices.decC_left tb d p hp).1, (PayloadCost.Slices.decC_left tb d p hp).2⟩

/-- FINDING (known, streams other than `io.BytesIO`): the declared length is what `fp.read` is ASKED for; what it
returns — what the theorems count — is what is there: 40 bytes, a request of 4294967280 -/
theorem declared_length_is_requested :
    UnsafeLoops.hugeLengthPsd.length = 40 ∧ UnsafeLoops.declaredRequest UnsafeLoops.hugeLengthPsd = some 4294967280 ∧
      (OpenCost.openC 1000 UnsafeLoops.hugeLengthPsd).1 = .error .ioError ∧
      (OpenCost.openC 1000 UnsafeLoops.hugeLengthPsd).2.alloc = 40 := by decide +kernel

/-- the allocation bound, for streams that allocate what they return -/
theorem open_alloc_partial (D : Nat) (b : B) :
    (OpenCost.openC D b).2.alloc ≤ 172 * b.length * b.length + 2105 * b.length + 287 := by
  have := open_steps_bound_deep D b; omega

/-! ### 11. ties to the source (tables regenerated on every run) -/

/-- every class of the two registries has a costed model (or is `LayerInfoBlock`, which recurses into the skeleton) -/
theorem registry_classes_costed :
    Generated.OpenRegistry.taggedTypes.all (fun e => e.2 == OpenCost.layerInfoClass || OpenCost.blockRunnerNames.contains e.2) = true ∧
    Generated.OpenRegistry.resourceTypes.all (fun e => OpenCost.resourceRunnerNames.contains e.2) = true ∧
    (OpenCost.blockRunners OpenCost.tables OpenCost.engineRunner OpenCost.tyshRun).map (·.1) = OpenCost.blockRunnerNames ∧
    (OpenCost.resourceRunners OpenCost.tables).map (·.1) = OpenCost.resourceRunnerNames := by
  refine ⟨by decide +kernel, by decide +kernel, rfl, rfl⟩

example : Generated.OpenRegistry.taggedTypes.length = 87 ∧ Generated.OpenRegistry.resourceTypes.length = 50 := by decide

/-- the `Lr16` / `Lr32` keys the model recurses on are the keys registered for `LayerInfoBlock` -/
theorem layer_info_keys_tied : OpenCost.hooks.layerInfoKeys = Generated.Payload.layerInfoBlockKeys := by decide +kernel

/-- the loops of the readers: every count-driven / `while` loop of the source belongs to a costed class or to a
skeleton / descriptor reader with a progress theorem; a class has at least as many progress-checked loops in its model
shape as its `read` has in the source; no reader loop contains a `try` -/
theorem reader_loops_tied :
    Generated.ReadLoops.loops = CostTables.loops ∧
    (Generated.ReadLoops.loops.filter PayloadCost.isReaderLoop).all (fun e => PayloadCost.ownerCovered e.2.1) = true ∧
    PayloadCost.allTables.all (fun e => decide (PayloadCost.astLoops e.1 "count" ≤ PayloadCost.kindCount "count" e.2.loops) &&
      decide (PayloadCost.astLoops e.1 "while" ≤ PayloadCost.kindCount "while" e.2.loops)) = true ∧
    PayloadCost.skeletonLoops.all (fun s => decide (1 ≤ s.2.2.1)) = true ∧
    CostTables.loops.all (fun e => e.2.2.1 == "try" || e.2.2.2.2 == "") = true :=
  ⟨CostTables.read_loops_tied, PayloadCost.loops_covered, PayloadCost.class_loops_tied, PayloadCost.skeleton_progress,
   CostTables.no_guarded_loop⟩

/-- the allocation sites: every place of the source that allocates from a computed size is classified; while a file
is being opened a DECLARED size only ever reaches a stream `read` (the two sites of `declared_length_is_requested`),
never `bytearray`, a repetition, numpy …; the sizes taken from the header (width · height · depth) are export-time -/
theorem alloc_sites_tied :
    Generated.AllocSites.sites = CostTables.sites ∧ CostTables.sites = CostTables.siteVerdicts.map (·.1) ∧
    (CostTables.siteVerdicts.filter (fun e => e.2.1 == "open" && e.2.2 == "declared-size")).map (·.1) =
      [("psd/layer_and_mask.py", "ChannelData.read", "read", "length"), ("utils.py", "read_length_block", "read", "length")] ∧
    CostTables.siteVerdicts.all (fun e => !(e.2.1 == "open" && e.2.2 == "declared-size") || e.1.2.2.1 == "read") = true :=
  ⟨CostTables.alloc_sites_tied, CostTables.sites_all_classified, CostTables.declared_size_at_open,
   CostTables.declared_size_at_open_is_stream_read⟩

/-- cursor moves other than reading. The progress arguments (`counted_loop_ignores_count`, `body_progress_all_classes`:
an item of a count-driven loop consumes at least one byte or fails, so end of data stops the loop whatever count is
declared) assume that nothing inside a loop moves the cursor backwards. From the AST on every run: the reading
functions `seek` at exactly eight places, each reviewed - an undo of the function's own last read (`read_fmt`,
`is_readable`, `TaggedBlock.read`, the probe of `SliceV6.read`), the restore of a position saved in the same call before
anything was consumed (`SliceV6.read`, `GlobalLayerMaskInfo.read`), the skip to the declared end of a section behind
which the caller continues (`LayerAndMaskInformation.read`, `LayerInfo.read`) - and NONE lies inside a loop. (The search
pairs count = max with every length / size field of the first item for every count-driven loop of `ReadLoops`.) -/
theorem read_seeks_tied :
    Generated.ReadSeeks.seeks =
      [("psd/image_resources.py", "SliceV6.read", "seek(-4, 1)", "straight"),
       ("psd/image_resources.py", "SliceV6.read", "seek(current_position)", "straight"),
       ("psd/layer_and_mask.py", "GlobalLayerMaskInfo.read", "seek(pos)", "straight"),
       ("psd/layer_and_mask.py", "LayerAndMaskInformation.read", "seek(end_pos, 0)", "straight"),
       ("psd/layer_and_mask.py", "LayerInfo.read", "seek(end_pos, 0)", "straight"),
       ("psd/tagged_blocks.py", "TaggedBlock.read", "seek(-4, 1)", "straight"),
       ("utils.py", "is_readable", "seek(-read_size, 1)", "straight"),
       ("utils.py", "read_fmt", "seek(-len(data), 1)", "straight")] ∧
    Generated.ReadSeeks.seeks.all (fun e => e.2.2.2 != "loop") = true := by decide +kernel

/-- the regular expressions of the engine-data tokenizer are those of the source and pass the sufficient condition for
O(1) backtracking per byte (star height ≤ 1, disjoint FIRST sets, the one-versus-two tiling exception); the seeded
variant of `UTF16_END` (C06-2) does not -/
theorem engine_patterns_safe :
    Generated.EnginePatterns.patterns = EngineRegexTables.patterns ∧
    EngineRegexTables.patterns.all (fun p => match EngineRegex.parse p.2 with | some r => EngineRegex.safe r | none => false) = true ∧
    (EngineRegex.parse "^\\(\\xfe\\xff(?:\\\\.|[^\\)])*\\)").map EngineRegex.safe = some false :=
  ⟨EngineRegexTied.engine_patterns_tied, EngineRegexTied.engine_patterns_safe, EngineRegexTied.seeded_pattern_unsafe⟩

end PsdVerif.C06
