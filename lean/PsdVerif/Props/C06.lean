/-
C06 — malformed input fails safely (the model half).

Model: the skeleton reader `PSD.read` of `Model/Psd.lean` (readers of `Model/Codec.lean`) and its
counting twin `PSD.readC` of `Model/PsdCost.lean`. Property theorems only; lemmas are in
`Lemmas/Safe*.lean`.

What is shown, for EVERY byte string `b`:

* totality. `PSD.read` is a total Lean function by construction: every count-driven loop is
  structural (`readCount`, `readFor`: `for _ in range(n)` reads through `read_fmt`, which raises at the
  end of the data) and every `while` loop (`readWhile`) runs on a fuel of "remaining bytes + 1".
  `read_total` records that; `read_never_other` shows the fuel is never exhausted (the `fuel = 0` value
  `Err.other` is not an outcome), because every item of the three loops (`resources_loop_safe`,
  `ranges_loop_safe`, `tagged_loop_safe`) consumes ≥ 1 byte, raises, or ends the loop.
* outcome. `PSD.read b 0` is a document or one of `IOError`, `ValueError`, `AssertionError`, `OverflowError`
  (`outcome_is_exception`; each class is attained: `outcome_classes_attained`; `OverflowError` is
  `fp.read(n)` / `fp.seek(n)` with `n ≥ 2^63`, reachable through the 8-byte length fields of a PSB).
* cursor. Readers that do not seek stay inside the stream (`…_cursor`); `LayerInfo.read` and
  `LayerAndMaskInformation.read` end with `fp.seek(end_pos)`, and `end_pos` is computed from the declared
  length alone (`layer_info_cursor_is_end_pos`, `layer_and_mask_cursor_is_end_pos`), so in isolation they
  can leave the cursor behind the end of the data (`…_can_pass_end`) though never at or behind `2^63`
  (`seek_below_max_size`); the whole-file reader then fails in
  `ImageData.read` (`overrun_then_image_data_fails`, `psd_overrun_fails`), and when it succeeds it ends
  exactly at the end of the file (`read_cursor_bound`).
* header. `Header.dec` is "extract seven fields, run the validators" (`header_dec_eq`); a header that is
  not `Valid` is rejected with `ValueError`, a short one with `IOError`, and nothing behind it is
  interpreted (`psd_read_rejects_bad_header`). The ranges are the REGENERATED tables of the source
  (`header_valid_iff`, `header_tables`): channels 1…56 and height/width 1…300000; the limits do not depend on the
  version. (Until repo 9dcb7fb the header passed `range_(1, 57)` / `range_(1, 300001)` to an INCLUSIVE validator, so 57
  channels and a side of 300001 were accepted — found by this theorem pinning the regenerated tables and by the
  harness's one-invalid-field headers; repaired, tables regenerated, theorems re-pinned.)
* cost. `PSD.readC` (`Model/PsdCost.lean`) is the SAME reader with a step counter (one tick per primitive
  read on the stream, per loop iteration, per nested `io.BytesIO` entered) and an allocation counter (bytes
  RETURNED by `fp.read` — a declared length larger than the remaining data returns only what is there — plus
  every block copied into a nested `io.BytesIO`). `readC_erases`: it returns what `PSD.read` returns.
  `read_cost_bound`: ticks + bytes ≤ 13 · n + 224 for an input of `n` bytes, for every outcome (the cost is
  kept when a step raises). Linear, not quadratic as DESIGN anticipated: the nesting depth of `BytesIO` copies
  in the skeleton is a constant (main stream → extra block of a layer record → mask / blending-ranges block;
  resources block; global-mask block), each level is paid by the bytes the enclosing level skipped, and the one
  backward seek (`LayerAndMaskInformation.read` → `end_pos` after an over-run) is followed by `ImageData.read`
  only. No count or length taken from the file drives an allocation or a loop by itself: every iteration of a
  `range(count)` loop consumes ≥ 1 byte through `read_fmt` or raises.

What the model does NOT show. The bound is about the skeleton only: payload classes are opaque bytes here.
The real code is super-linear in places outside the skeleton — nested `io.BytesIO` copies inside payload
classes, `Lr16`/`Lr32` tagged blocks that recurse into the layer-info reader (unbounded nesting, cut only by
Python's recursion limit → `RecursionError`), the engine-data tokenizer slicing the tail of its buffer once
per token. Real time, real memory, interpreter crashes, zlib and PIL native code are runtime behaviour
that only the watchdog-supervised subprocess of harness/props/C06.py observes.
-/
import PsdVerif.Lemmas.Safe3
import PsdVerif.Lemmas.SafeCost4
import PsdVerif.Lemmas.SafeSamples
import PsdVerif.Props.C05

namespace PsdVerif.C06
open PsdVerif PsdVerif.Codec PsdVerif.Psd PsdVerif.Safe PsdVerif.SafeCost
open PsdVerif.PsdCost (Cost CE)

/-! ### 1. totality, no fuel exhaustion -/

/-- Lean totality = every count/length-driven loop of the model reader terminates for every corrupt value -/
theorem read_total : ∀ b : B, ∃ r, PSD.read b 0 = r := fun _ => ⟨_, rfl⟩

/-- generic: a `while cond: item` loop whose condition only holds inside the stream and whose items consume
at least one byte whenever they return a value never runs out of fuel, stays inside the stream, and raises
only what its items raise -/
theorem while_loop_safe {α : Type} {cond : B → Nat → Bool} {item : R (Option α)} {d : B}
    (hc : ∀ p, cond d p = true → p < d.length) (hi : ∀ p, Good 0 d p (item d p))
    (hs : ∀ p a p', item d p = .ok (some a, p') → p < p') (p : Nat) :
    Good 0 d p (readWhile cond item d p) := readWhile_good hc hi hs p

/-- `ImageResources.read`: `while is_readable(fp, 4)` -/
theorem resources_loop_safe (d : B) (p : Nat) :
    readWhile (isReadable 4) (optItem Resource.dec) d p ≠ .error .other :=
  (resourcesLoop_good d p).errIn.ne_other

/-- `LayerBlendingRanges.read`: `while is_readable(fp, 8)` -/
theorem ranges_loop_safe (d : B) (p : Nat) :
    readWhile (isReadable 8) (optItem Range4.dec) d p ≠ .error .other :=
  (rangesLoop_good d p).errIn.ne_other

/-- `TaggedBlocks.read`: `while is_readable(fp, 8) and fp.tell() < end_pos`, `None` (bad signature) ends it -/
theorem tagged_loop_safe (v pad : Nat) (endPos : Option Nat) (d : B) (p : Nat) :
    readWhile (taggedCond endPos) (TaggedBlock.dec v pad) d p ≠ .error .other :=
  (taggedLoop_good v pad endPos d p).errIn.ne_other

theorem read_never_other (b : B) : PSD.read b 0 ≠ .error .other := (psd_errIn b 0).ne_other

/-! ### 3. the outcome is a document or an ordinary exception -/

theorem outcome_is_exception {b : B} {x : Err} (h : PSD.read b 0 = .error x) :
    x ∈ [Err.ioError, .valueError, .assertionError, .overflowError] := psd_errIn b 0 x h

/-- the list is exact: a truncated file, a bad version, a short pascal string in a resource block, a PSB
section of `2^63` bytes -/
theorem outcome_classes_attained :
    PSD.read (minimalPsd.take 30) 0 = .error .ioError ∧ PSD.read badVersionPsd 0 = .error .valueError ∧
    PSD.read shortPascalPsd 0 = .error .assertionError ∧ PSD.read overflowPsd 0 = .error .overflowError := by
  decide +kernel

/-- per section reader (any version, any stream, any position) -/
theorem header_outcome (d : B) (p : Nat) : ErrIn (Header.dec d p) := (header_good d p).errIn
theorem color_mode_outcome (d : B) (p : Nat) : ErrIn (colorModeDec d p) := (colorMode_good d p).errIn
theorem resources_outcome (d : B) (p : Nat) : ErrIn (resourcesDec d p) := (resources_good d p).errIn
theorem layer_record_outcome (v : Nat) (d : B) (p : Nat) : ErrIn (LayerRecord.dec v d p) := (layerRecord_good v d p).errIn
theorem layer_info_outcome (v : Nat) (d : B) (p : Nat) : ErrIn (LayerInfo.dec v d p) := layerInfo_errIn v d p
theorem layer_and_mask_outcome (v : Nat) (d : B) (p : Nat) : ErrIn (LayerAndMask.dec v d p) := layerAndMask_errIn v d p
theorem image_data_outcome (d : B) (p : Nat) : ErrIn (ImageData.dec d p) := (imageData_good d p).errIn

/-! ### 2. cursor -/

/-- the whole-file reader ends exactly at the end of the file (`ImageData.read` reads to EOF) -/
theorem read_cursor_bound {b : B} {v : PSD} {p : Nat} (h : PSD.read b 0 = .ok (v, p)) : p = b.length := psd_cursor h

example : PSD.read minimalPsd 0 = .ok (minimalVal, 41) := by decide +kernel
example : ∀ n < 40, PSD.read (minimalPsd.take n) 0 = .error .ioError := by decide +kernel
example : PSD.read (minimalPsd.take 40) 0 = .ok ({ minimalVal with imageData := ⟨0, []⟩ }, 40) := by decide +kernel

theorem header_cursor {d : B} {p : Nat} {v : Header} {p' : Nat} (h : Header.dec d p = .ok (v, p')) (hp : p ≤ d.length) :
    p ≤ p' ∧ p' ≤ d.length := (header_good d p).cursor h hp
theorem color_mode_cursor {d : B} {p : Nat} {v : B} {p' : Nat} (h : colorModeDec d p = .ok (v, p')) (hp : p ≤ d.length) :
    p ≤ p' ∧ p' ≤ d.length := (colorMode_good d p).cursor h hp
theorem resources_cursor {d : B} {p : Nat} {v : List Resource} {p' : Nat} (h : resourcesDec d p = .ok (v, p'))
    (hp : p ≤ d.length) : p ≤ p' ∧ p' ≤ d.length := (resources_good d p).cursor h hp
theorem tagged_blocks_cursor {ver pad : Nat} {e : Option Nat} {d : B} {p : Nat} {v : List TaggedBlock} {p' : Nat}
    (h : taggedBlocksDec ver pad e d p = .ok (v, p')) (hp : p ≤ d.length) : p ≤ p' ∧ p' ≤ d.length :=
  (taggedBlocks_good ver pad e d p).cursor h hp
theorem mask_cursor {d : B} {p : Nat} {v : Option MaskData} {p' : Nat} (h : maskDec d p = .ok (v, p')) (hp : p ≤ d.length) :
    p ≤ p' ∧ p' ≤ d.length := (mask_good d p).cursor h hp
theorem blending_ranges_cursor {d : B} {p : Nat} {v : BlendingRanges} {p' : Nat} (h : BlendingRanges.dec d p = .ok (v, p'))
    (hp : p ≤ d.length) : p ≤ p' ∧ p' ≤ d.length := (blendingRanges_good d p).cursor h hp
theorem layer_record_cursor {ver : Nat} {d : B} {p : Nat} {v : LayerRecord} {p' : Nat}
    (h : LayerRecord.dec ver d p = .ok (v, p')) (hp : p ≤ d.length) : p ≤ p' ∧ p' ≤ d.length :=
  (layerRecord_good ver d p).cursor h hp
theorem channel_image_cursor {rs : List LayerRecord} {d : B} {p : Nat} {v : List (List ChannelData)} {p' : Nat}
    (h : channelImageDec rs d p = .ok (v, p')) (hp : p ≤ d.length) : p ≤ p' ∧ p' ≤ d.length :=
  (channelImage_good rs d p).cursor h hp
theorem layer_info_body_cursor {ver : Nat} {d : B} {p : Nat} {v : LayerInfo} {p' : Nat}
    (h : LayerInfo.bodyDec ver d p = .ok (v, p')) (hp : p ≤ d.length) : p ≤ p' ∧ p' ≤ d.length :=
  (layerInfoBody_good ver d p).cursor h hp
/-- including the rewind of a block shorter than 13 bytes -/
theorem global_mask_cursor {d : B} {p : Nat} {v : GlobalLayerMaskInfo} {p' : Nat}
    (h : GlobalLayerMaskInfo.dec d p = .ok (v, p')) (hp : p ≤ d.length) : p ≤ p' ∧ p' ≤ d.length :=
  (globalMask_good d p).cursor h hp
theorem image_data_cursor {d : B} {p : Nat} {v : ImageData} {p' : Nat} (h : ImageData.dec d p = .ok (v, p')) :
    p' = d.length := imageData_end h

example : Header.dec minimalPsd 0 = .ok (headerVal, 26) ∧ resourcesDec minimalPsd 30 = .ok ([], 34) := by decide +kernel

/-- primitive level: `fp.read(n)` returns at most `n` bytes and only bytes that exist -/
theorem read_up_to_bounded {n : Nat} {d : B} {p : Nat} {x : B} {p' : Nat} (h : readUpTo n d p = .ok (x, p')) :
    x.length ≤ d.length - p ∧ x.length ≤ n := by
  have := readUpTo_ok h; omega

/-- `read_length_block`: the block is a copy of bytes of the stream, whatever length was declared -/
theorem read_len_block_bounded {skip w pad : Nat} {d : B} {p : Nat} {x : B} {p' : Nat}
    (h : readLenBlock skip w pad d p = .ok (x, p')) : x.length ≤ d.length ∧ p + skip + w + x.length ≤ p' ∧ p' ≤ d.length := by
  have := readLenBlock_ok h; omega

example : readLenBlock 0 4 1 [0, 0, 0, 2, 5, 6, 7] 0 = .ok ([5, 6], 6) ∧
    readLenBlock 0 4 1 [255, 255, 255, 255, 5, 6, 7] 0 = .error .ioError := by decide +kernel

/-- the exceptions: `fp.seek(end_pos)` with `end_pos` = start + width + DECLARED length -/
theorem layer_info_cursor_is_end_pos {v : Nat} {d : B} {p : Nat} {li : LayerInfo} {p' : Nat}
    (h : LayerInfo.dec v d p = .ok (li, p')) :
    ∃ n, readU (secW v) d p = .ok (n, p + secW v) ∧ p' = p + secW v + n ∧ ¬ overflows p' d := layerInfo_cursor h

theorem layer_and_mask_cursor_is_end_pos {v : Nat} {d : B} {p : Nat} {x : LayerAndMask} {p' : Nat}
    (h : LayerAndMask.dec v d p = .ok (x, p')) :
    ∃ n, readU (secW v) d p = .ok (n, p + secW v) ∧ p' = p + secW v + n ∧ ¬ overflows p' d := layerAndMask_cursor h

/-- on a real stream (shorter than `2^63` bytes) the position after a seek is below `sys.maxsize + 1` -/
theorem seek_below_max_size {v : Nat} {d : B} {p : Nat} {x : LayerAndMask} {p' : Nat}
    (h : LayerAndMask.dec v d p = .ok (x, p')) (hd : d.length < pyMaxSize) : p' < pyMaxSize := by
  obtain ⟨_, _, _, hov⟩ := layerAndMask_cursor h
  exact lt_pyMaxSize_of_not_overflows hov hd

theorem seek_below_max_size_layer_info {v : Nat} {d : B} {p : Nat} {x : LayerInfo} {p' : Nat}
    (h : LayerInfo.dec v d p = .ok (x, p')) (hd : d.length < pyMaxSize) : p' < pyMaxSize := by
  obtain ⟨_, _, _, hov⟩ := layerInfo_cursor h
  exact lt_pyMaxSize_of_not_overflows hov hd

/-- in isolation both can leave the cursor behind the end of the data (6 resp. 8 bytes, cursor 13 resp. 9) -/
theorem layer_info_can_pass_end : LayerInfo.dec 1 [0, 0, 0, 9, 0, 0] 0 = .ok (⟨0, none, none⟩, 13) := by decide +kernel

theorem layer_and_mask_can_pass_end :
    LayerAndMask.dec 1 [0, 0, 0, 5, 0, 0, 0, 0] 0 = .ok (⟨some ⟨0, none, none⟩, none, some []⟩, 9) := by decide +kernel

/-- … after which `ImageData.read` (the next and last reader of `PSD.read`) raises `IOError` -/
theorem overrun_then_image_data_fails {d : B} {p : Nat} (h : d.length < p) : ImageData.dec d p = .error .ioError :=
  imageData_behind_end h

example : (overrunPsd.length : Nat) < 43 := by decide

theorem psd_overrun_fails : PSD.read overrunPsd 0 = .error .ioError := by decide +kernel

/-- whenever the whole file is accepted, its layer-and-mask section ended inside the file -/
theorem read_section_inside {b : B} {v : PSD} {p : Nat} (h : PSD.read b 0 = .ok (v, p)) :
    ∃ p3 p4, LayerAndMask.dec v.header.version b p3 = .ok (v.layerAndMask, p4) ∧ p4 + 2 ≤ b.length := psd_section_inside h

/-! ### 4. header -/

/-- the validator tables as REGENERATED from `psd/header.py` (a change of the source breaks this) -/
theorem header_tables :
    G.headerSignature = [0x38, 0x42, 0x50, 0x53] ∧ G.headerVersions = [1, 2] ∧
    G.channelsMin = 1 ∧ G.channelsMax = 56 ∧ G.heightMin = 1 ∧ G.heightMax = 300000 ∧
    G.widthMin = 1 ∧ G.widthMax = 300000 ∧ G.headerDepths = [1, 8, 16, 32] ∧
    G.colorModes = [0, 1, 2, 3, 4, 7, 8, 9] := by decide

theorem header_valid_iff (h : Header) :
    h.Valid ↔ h.signature = [0x38, 0x42, 0x50, 0x53] ∧ (h.version = 1 ∨ h.version = 2) ∧
      (1 ≤ h.channels ∧ h.channels ≤ 56) ∧ (1 ≤ h.height ∧ h.height ≤ 300000) ∧ (1 ≤ h.width ∧ h.width ≤ 300000) ∧
      (h.depth = 1 ∨ h.depth = 8 ∨ h.depth = 16 ∨ h.depth = 32) ∧ h.colorMode ∈ [0, 1, 2, 3, 4, 7, 8, 9] := by
  obtain ⟨e1, e2, e3, e4, e5, e6, e7, e8, e9, e10⟩ := header_tables
  unfold Header.Valid
  rw [e1, e2, e3, e4, e5, e6, e7, e8, e9, e10]
  simp only [List.mem_cons, List.mem_nil_iff, or_false]

theorem header_signature_checked {h : Header} (hv : h.Valid) : h.signature = [0x38, 0x42, 0x50, 0x53] :=
  ((header_valid_iff h).1 hv).1
theorem header_version_checked {h : Header} (hv : h.Valid) : h.version = 1 ∨ h.version = 2 :=
  ((header_valid_iff h).1 hv).2.1
theorem header_channels_checked {h : Header} (hv : h.Valid) : 1 ≤ h.channels ∧ h.channels ≤ 56 :=
  ((header_valid_iff h).1 hv).2.2.1
theorem header_height_checked {h : Header} (hv : h.Valid) : 1 ≤ h.height ∧ h.height ≤ 300000 :=
  ((header_valid_iff h).1 hv).2.2.2.1
theorem header_width_checked {h : Header} (hv : h.Valid) : 1 ≤ h.width ∧ h.width ≤ 300000 :=
  ((header_valid_iff h).1 hv).2.2.2.2.1
theorem header_depth_checked {h : Header} (hv : h.Valid) : h.depth = 1 ∨ h.depth = 8 ∨ h.depth = 16 ∨ h.depth = 32 :=
  ((header_valid_iff h).1 hv).2.2.2.2.2.1
theorem header_color_mode_checked {h : Header} (hv : h.Valid) : h.colorMode ∈ [0, 1, 2, 3, 4, 7, 8, 9] :=
  ((header_valid_iff h).1 hv).2.2.2.2.2.2

example : headerVal.Valid := by decide

/-- the boundaries (repaired source): 56 channels and a side of 300000 pass, 57 and 300001 do not -/
example : ({ headerVal with channels := 56, height := 300000, width := 300000 } : Header).Valid ∧
    ¬ ({ headerVal with channels := 57 } : Header).Valid ∧ ¬ ({ headerVal with height := 300001 } : Header).Valid ∧
    ¬ ({ headerVal with width := 300001 } : Header).Valid ∧ ¬ ({ headerVal with channels := 0 } : Header).Valid := by decide

/-- whatever `Header.dec` returns passed the validators, is the raw field tuple, and took 26 bytes -/
theorem header_rejects {b : B} {h : Header} {p : Nat} (hd : Header.dec b 0 = .ok (h, p)) : h.Valid :=
  (header_valid_of_ok hd).1

theorem header_ok_is_raw {b : B} {h : Header} {p : Nat} (hd : Header.dec b 0 = .ok (h, p)) :
    h = headerRaw b 0 ∧ p = 26 ∧ 26 ≤ b.length := by
  obtain ⟨_, h2, h3, h4⟩ := header_valid_of_ok hd
  exact ⟨h4, by omega, by omega⟩

/-- with 26 bytes: extract the seven fields, run the validators — nothing else -/
theorem header_dec_eq {b : B} (hl : 26 ≤ b.length) :
    Header.dec b 0 = if (headerRaw b 0).Valid then .ok (headerRaw b 0, 26) else .error .valueError := by
  have := Safe.header_dec_eq (d := b) (p := 0) (by omega)
  simpa using this

/-- the sharp form: fields that are not `Valid` are rejected with `ValueError` -/
theorem header_rejects_invalid {b : B} (hl : 26 ≤ b.length) (hv : ¬ (headerRaw b 0).Valid) :
    Header.dec b 0 = .error .valueError := by
  rw [header_dec_eq hl, if_neg hv]

example : (26 ≤ badVersionPsd.length ∧ ¬ (headerRaw badVersionPsd 0).Valid) ∧ (headerRaw badVersionPsd 0).version = 3 := by
  decide +kernel

theorem header_short {b : B} (hl : b.length < 26) : Header.dec b 0 = .error .ioError :=
  header_short' (by omega)

example : Header.dec (headerBytes.take 25) 0 = .error .ioError := by decide +kernel

theorem header_accepts {h : Header} (hv : h.Valid) (rest : B) : Header.dec (h.encT ++ rest) 0 = .ok (h, 26) :=
  header_accepts' hv rest

example : headerVal.encT = headerBytes := by decide +kernel

/-- data whose header is short or not valid is rejected and nothing behind the header is interpreted:
the outcome is the header reader's exception -/
theorem psd_read_rejects_bad_header {b : B} (h : ¬ (26 ≤ b.length ∧ (headerRaw b 0).Valid)) :
    PSD.read b 0 = .error (if b.length < 26 then .ioError else .valueError) := by
  by_cases hl : b.length < 26
  · rw [if_pos hl]; exact psd_of_header_error (header_short hl)
  · rw [if_neg hl]
    exact psd_of_header_error (header_rejects_invalid (by omega) (fun hv => h ⟨by omega, hv⟩))

/-- conversely a document is only ever returned for a valid header -/
theorem psd_read_header_valid {b : B} {v : PSD} {p : Nat} (h : PSD.read b 0 = .ok (v, p)) :
    26 ≤ b.length ∧ v.header = headerRaw b 0 ∧ v.header.Valid := by
  unfold PSD.read at h
  obtain ⟨⟨header, p1⟩, h1, h⟩ := bind_ok h
  obtain ⟨⟨cmd, p2⟩, _, h⟩ := bind_ok h
  obtain ⟨⟨res, p3⟩, _, h⟩ := bind_ok h
  obtain ⟨⟨lm, p4⟩, _, h⟩ := bind_ok h
  obtain ⟨⟨img, p5⟩, _, h⟩ := bind_ok h
  cases h
  have := header_valid_of_ok h1
  exact ⟨by omega, this.2.2.2, this.1⟩

example : PSD.read badVersionPsd 0 = .error .valueError := by decide +kernel

/-! ### 5. cost -/

/-- the counting interpreter IS the reader: same results for every input -/
theorem readC_erases (b : B) : (PsdCost.PSD.readC b 0).1 = PSD.read b 0 := psd_fst b 0

/-- … section by section, at any position of any stream -/
theorem header_erases (d : B) (p : Nat) : (PsdCost.Header.decC d p).1 = Header.dec d p := header_fst d p
theorem resources_erases (d : B) (p : Nat) : (PsdCost.resourcesDecC d p).1 = resourcesDec d p := resources_fst d p
theorem tagged_blocks_erases (v pad : Nat) (e : Option Nat) (d : B) (p : Nat) :
    (PsdCost.taggedBlocksDecC v pad e d p).1 = taggedBlocksDec v pad e d p := taggedBlocks_fst v pad e d p
theorem layer_record_erases (v : Nat) (d : B) (p : Nat) : (PsdCost.LayerRecord.decC v d p).1 = LayerRecord.dec v d p :=
  layerRecord_fst v d p
theorem layer_info_erases (v : Nat) (d : B) (p : Nat) : (PsdCost.LayerInfo.decC v d p).1 = LayerInfo.dec v d p :=
  layerInfo_fst v d p
theorem layer_and_mask_erases (v : Nat) (d : B) (p : Nat) : (PsdCost.LayerAndMask.decC v d p).1 = LayerAndMask.dec v d p :=
  layerAndMask_fst v d p
theorem image_data_erases (d : B) (p : Nat) : (PsdCost.ImageData.decC d p).1 = ImageData.dec d p := imageData_fst d p

/-- ticks + bytes, for every outcome -/
theorem read_cost_bound (b : B) :
    (PsdCost.PSD.readC b 0).2.ticks + (PsdCost.PSD.readC b 0).2.alloc ≤ 13 * b.length + 224 := psd_w_le b

theorem read_steps_bound (b : B) : (PsdCost.PSD.readC b 0).2.ticks ≤ 13 * b.length + 224 := by
  have := read_cost_bound b; omega

theorem read_alloc_bound (b : B) : (PsdCost.PSD.readC b 0).2.alloc ≤ 13 * b.length + 224 := by
  have := read_cost_bound b; omega

/-- concrete runs: the minimal file; a truncation, a section over-run, a short pascal string, a `2^63` section
(the cost spent before the exception is kept); the empty input -/
example : (PsdCost.PSD.readC minimalPsd 0).2 = ⟨22, 41⟩ ∧ (PsdCost.PSD.readC (minimalPsd.take 30) 0).2 = ⟨14, 30⟩ ∧
    (PsdCost.PSD.readC overrunPsd 0).2 = ⟨22, 42⟩ ∧ (PsdCost.PSD.readC shortPascalPsd 0).2 = ⟨23, 62⟩ ∧
    (PsdCost.PSD.readC overflowPsd 0).2 = ⟨27, 54⟩ ∧ (PsdCost.PSD.readC [] 0).2 = ⟨1, 0⟩ := by decide +kernel

/-- per reader, whatever the outcome: cost ≤ a · (stream length) + b. The coefficient grows with the nesting
depth below the reader, which is a constant of the skeleton. -/
theorem resources_cost (d : B) (p : Nat) : (PsdCost.resourcesDecC d p).2.w ≤ 5 * d.length + 26 := (resources_pays d p).w_le
theorem tagged_blocks_cost (v pad : Nat) (e : Option Nat) (d : B) (p : Nat) :
    (PsdCost.taggedBlocksDecC v pad e d p).2.w ≤ 3 * d.length + 30 := (taggedBlocks_pays v pad e d p).w_le
theorem layer_record_cost (v : Nat) (d : B) (p : Nat) : (PsdCost.LayerRecord.decC v d p).2.w ≤ 8 * d.length + 106 :=
  (layerRecord_pays v d p).w_le
theorem layer_info_cost (v : Nat) (d : B) (p : Nat) : (PsdCost.LayerInfo.decC v d p).2.w ≤ 12 * d.length + 113 :=
  (layerInfo_pays v d p).w_le
theorem layer_and_mask_cost (v : Nat) (d : B) (p : Nat) : (PsdCost.LayerAndMask.decC v d p).2.w ≤ 12 * d.length + 184 := by
  have h := layerAndMask_spend v d p
  unfold Spend at h
  have : pot 12 d p ≤ 12 * d.length := Nat.mul_le_mul_left 12 (by omega)
  omega

/-- a successful reader that does not seek is paid by the bytes it consumed: cost ≤ a · (advance) + b -/
theorem layer_record_cost_by_advance {v : Nat} {d : B} {p : Nat} {r : LayerRecord} {p' : Nat}
    (h : LayerRecord.dec v d p = .ok (r, p')) (hp : p ≤ d.length) :
    (PsdCost.LayerRecord.decC v d p).2.w ≤ 8 * (p' - p) + 106 := by
  have hc := (layerRecord_pays v d p).of_ok ((layerRecord_fst v d p).trans h)
  have hg := (layerRecord_good v d p).cursor h hp
  unfold pot at hc
  omega

example : (LayerRecord.dec 1 recordBytes 0).toOption.map (·.2) = some 46 ∧
    (PsdCost.LayerRecord.decC 1 recordBytes 0).2 = ⟨28, 70⟩ := by decide +kernel
example : LayerRecord.dec 1 [] 0 = .error .ioError ∧ (PsdCost.LayerRecord.decC 1 [] 0).2 = ⟨1, 0⟩ := by decide +kernel

/-! ### 6. the native decoder -/

/-- No `std::string` primitive of `_rle.decode` is reached out of bounds (C05). -/
theorem native_decoder_safe (e : Bytes) (n : Nat) : Rle.decC e n ≠ .oob := C05.decC_in_bounds e n

end PsdVerif.C06
