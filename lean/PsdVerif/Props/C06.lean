/-
PLACEHOLDER for property C06 ("malformed input fails safely").

The real property theorems (read_total, read_cursor_bound, outcome_is_exception, header_rejects /
header_accepts, read_steps_bound, read_alloc_bound, native_decoder_safe) and the `psd.cost` driver
command are written in another worktree and REPLACE this file at merge. This file exists only so that
`ctx.prove(["PsdVerif.Props.C06"])` of harness/props/C06.py builds in the harness builder's worktree.
-/
import PsdVerif.Model.Psd

namespace PsdVerif.C06

/-- placeholder obligation (replaced at merge) -/
theorem placeholder_to_be_replaced_at_merge : (0 : Nat) ≤ 0 := Nat.le_refl 0

end PsdVerif.C06
