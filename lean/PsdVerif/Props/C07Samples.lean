/-
C07 — imported pixels come back unchanged: the SAMPLE ARITHMETIC, concrete and proved.

`Props/C07.lean` proves the routes (which stored plane feeds which exported band, inversion parity,
un-matting) for any sample arithmetic `Px α σ` and any `Pil α` that have the laws `Px.LawfulAt d` / `Pil.Lawful`.
Here the arithmetic is the one the code performs (`Model/PixelSamples.lean`: `px`, `pil`, `npView`), the laws are
THEOREMS (`px_lawful_concrete`, `pil_lawful_concrete`), and the route theorems are restated without hypotheses on
the arithmetic (`layer_import_export_concrete`, `doc_import_export_concrete`, `layer_numpy_export_concrete` …).
The constants, dtypes, operators, rounding calls and inversion sites of the source are regenerated from the AST
on every run (`Generated/PixelSamples.lean`) and tied by `samples_tied`.

Property theorems only; helper lemmas live in `Lemmas/PixelSamples.lean`, `Lemmas/PixelSamplesPil.lean`,
`Lemmas/Pixels.lean`.
-/
import PsdVerif.Model.PixelSamples
import PsdVerif.Lemmas.PixelSamples
import PsdVerif.Lemmas.PixelSamplesPil
import PsdVerif.Lemmas.PixelSamplesRoutes
import PsdVerif.Props.C07
import PsdVerif.Generated.PixelSamples

namespace PsdVerif.C07
open PsdVerif PsdVerif.Pixels PsdVerif.MergedPixels PsdVerif.PixelSamples

/-! ### the arithmetic of the source is the model's (regenerated from the AST on every run) -/

/-- `plane()` of `PixelLayer.frompil` (dtype, operator, constant per depth; every call, so an added `np.round`,
`//` or `>>` is seen), the order of the steps of both `frompil`s, `_create_image` (raw modes, the lambda of
`point` as the linear form PIL makes of it, the `convert` target), `_parse_array` (dtypes, divisors), every
inversion with its guard — three `ImageChops.invert` under `mode == 'CMYK'`, none on the NumPy path —, the
callers and the expression of the matte removal, the depth and file version handed to the channel decoders, as
the model has them. -/
-- (48a22b5: a mode-`1` band in a document whose depth is not 1 — a bitmap document made by `PSDImage.new` — is widened
-- to `L` first, bit ↦ 0 / 255 as `toGray .one`; the per-depth arithmetic below then applies to that byte.)
theorem samples_tied :
    Generated.PixelSamples.planeBody =
      ["if band.mode == '1' and depth != 1: { band = band.convert('L') }", "if psd_file is not None and depth == 16: { return (np.asarray(band).astype('>u2') * 257).tobytes() }", "if psd_file is not None and depth == 32: { return (np.asarray(band).astype('>f4') / 255.0).astype('>f4').tobytes() }", "return band.tobytes()"] ∧
    Generated.PixelSamples.planeArith =
      [(16, [("Mult", (importMul16 : Int), 1)], ["astype:>u2"], ["np.asarray", "astype", "tobytes"]), (32, [("Div", (importDiv32 : Int), 1)], ["astype:>f4", "astype:>f4"], ["np.asarray", "astype", "astype", "tobytes"])] ∧
    Generated.PixelSamples.frompilIfs =
      ["if pil_im.mode == '1': { pil_im = pil_im.convert('L') }", "if pil_im.has_transparency_data: { alpha = pil_im.convert('RGBA').getchannel('A') }", "if psd_file is not None: { pil_im = pil_im.convert(psd_file.pil_mode) } else {  }", "if pil_im.mode == 'CMYK': { pil_im = ImageChops.invert(pil_im) }", "if psd_file is not None: { depth, version = (psd_file.depth, psd_file.version) }", "if alpha is None: { alpha = Image.new('L', pil_im.size, 255) }"] ∧
    Generated.PixelSamples.depthDefault =
      "get_pil_depth(pil_im.mode.rstrip('A'))" ∧
    Generated.PixelSamples.setDataArgs =
      ["plane(alpha) | pil_im.width, pil_im.height, depth, version", "plane(pil_im.getchannel(channel_index)) | pil_im.width, pil_im.height, depth, version"] ∧
    Generated.PixelSamples.layerInversions =
      [("pil_im.mode == 'CMYK'", "pil_im = ImageChops.invert(pil_im)")] ∧
    Generated.PixelSamples.docFrompil =
      ["if image.mode == '1': { image = image.convert('L') }", "header = cls._make_header(image.mode, image.size)", "if image.mode == 'CMYK': { image = ImageChops.invert(image) } else { if image.mode in ('La', 'RGBa'): { image = image.convert(image.mode.upper()) } }", "image_data = ImageData(compression=compression)", "image_data.set_data([channel.tobytes() for channel in image.split()], header)", "return cls(PSD(header=header, image_data=image_data, image_resources=ImageResources.new()))"] ∧
    Generated.PixelSamples.docInversions =
      [("image.mode == 'CMYK'", "image = ImageChops.invert(image)")] ∧
    Generated.PixelSamples.headerDepthDefault =
      "8" ∧
    Generated.PixelSamples.headerAsserts =
      ["depth in (8, 16, 32)"] ∧
    Generated.PixelSamples.createImage =
      ["depth == 8: return Image.frombytes('L', size, data, 'raw')", "depth == 16: image = Image.frombytes('I', size, data, 'raw', 'I;16B'); return image.point(lambda x: x * (1.0 / 256.0)).convert('L')", "depth == 32: image = Image.frombytes('F', size, data, 'raw', 'F;32BF'); return image.point(lambda x: x * 256.0).convert('L')", "depth == 1: return Image.frombytes('1', size, data, 'raw', '1;I')", "else: raise ValueError('Unsupported depth: %g' % depth)"] ∧
    Generated.PixelSamples.createRows =
      [(8, "L", "raw", ((1 : Int), 1, (0 : Int), 1), "-", ["Image.frombytes"]), (16, "I", "I;16B", ((1 : Int), pilDiv16, (0 : Int), 1), "L", ["Image.frombytes", "point", "convert"]), (32, "F", "F;32BF", ((pilMul32 : Int), 1, (0 : Int), 1), "L", ["Image.frombytes", "point", "convert"]), (1, "1", "1;I", ((1 : Int), 1, (0 : Int), 1), "-", ["Image.frombytes"])] ∧
    Generated.PixelSamples.postProcess =
      ["if image.mode == 'CMYK': { image = ImageChops.invert(image) }", "if icc_profile: { image = _apply_icc(image, icc_profile) }", "if alpha and image.mode in ('RGB', 'L'): { image.putalpha(alpha) }", "return image"] ∧
    Generated.PixelSamples.pilInversions =
      [("image.mode == 'CMYK'", "image = ImageChops.invert(image)")] ∧
    Generated.PixelSamples.unmatteCallers =
      ["convert_image_data_to_pil"] ∧
    Generated.PixelSamples.unmatteExprs =
      ["args['convert'](args['float'](args['x'] + args['a'] - 255) * 255.0 / args['float'](args['max'](args['a'], 1)) * args['float'](args['min'](args['a'], 1)) + args['float'](args['x']) * args['float'](1 - args['min'](args['a'], 1)), 'L')", "convert(float(x + a - 255) * 255.0 / float(max(a, 1)) * float(min(a, 1)) + float(x) * float(1 - min(a, 1)), \"L\")"] ∧
    Generated.PixelSamples.layerTail =
      "return post_process(image, alpha, icc)" ∧
    Generated.PixelSamples.docTail =
      ["image = post_process(image, alpha, icc)", "return _remove_white_background(image)"] ∧
    Generated.PixelSamples.parseArray =
      ["depth == 8: parsed = np.frombuffer(data, '>u1'); if lut is not None: { parsed = lut[parsed] }; return parsed.astype(np.float32) / 255.0", "depth == 16: return np.frombuffer(data, '>u2').astype(np.float32) / 65535.0", "depth == 32: return np.frombuffer(data, '>f4').astype(np.float32)", "depth == 1: return np.unpackbits(np.frombuffer(data, np.uint8)).astype(np.float32)", "else: raise ValueError('Unsupported depth: %g' % depth)"] ∧
    Generated.PixelSamples.pilGetData =
      ["convert_image_data_to_pil: psd._record.image_data.get_data(psd._record.header)", "_get_channel: channel_data.get_data(width, height, depth, layer._psd.version)"] ∧
    Generated.PixelSamples.numpyGetData =
      ["get_image_data: psd._record.image_data.get_data(psd._record.header, False)", "_find_channel: data.get_data(width, height, depth, version)"] ∧
    Generated.PixelSamples.parseRows =
      [(8, ["frombuffer:>u1", "astype:np.float32"], [("Div", (npDiv8 : Int), 1)], ["np.frombuffer", "astype"]), (16, ["frombuffer:>u2", "astype:np.float32"], [("Div", (npDiv16 : Int), 1)], ["np.frombuffer", "astype"]), (32, ["frombuffer:>f4", "astype:np.float32"], [], ["np.frombuffer", "astype"]), (1, ["frombuffer:np.uint8", "astype:np.float32"], [], ["np.frombuffer", "np.unpackbits", "astype"])] ∧
    Generated.PixelSamples.removeBackground =
      ["if psd.color_mode == ColorMode.RGB and data.shape[2] > 3 and has_transparency(psd): { color = data[:, :, :3]; index = get_transparency_index(psd) % data.shape[2]; alpha = data[:, :, index:index + 1]; a = np.repeat(alpha, color.shape[2], axis=2); color[a > 0] = (color + alpha - 1)[a > 0] / a[a > 0]; data[:, :, :3] = color }", "return data"] ∧
    Generated.PixelSamples.numpyConstMinus =
      [] :=
  ⟨rfl, rfl, rfl, rfl, rfl, rfl, rfl, rfl, rfl, rfl, rfl, rfl, rfl, rfl, rfl, rfl, rfl, rfl, rfl, rfl, rfl, rfl, rfl, rfl⟩

/-! ### the laws of `Props/C07.lean` hold for the real arithmetic -/

/-- the 8-bit / 16-bit / binary32 sample arithmetic satisfies `Px.LawfulAt` at every depth the pipeline
handles: `ImageChops.invert` is an involution on samples, and `_create_image` undoes `plane()` -/
theorem px_lawful_concrete : ∀ d ∈ depths, px.LawfulAt d := fun _ hd => px_lawfulAt hd

example : (8 : Nat) ∈ depths ∧ (16 : Nat) ∈ depths ∧ (32 : Nat) ∈ depths := by decide

/-- PIL's `convert`, modelled per pixel, has the laws the route theorems ask for -/
theorem pil_lawful_concrete : pil.Lawful := pil_lawful

/-- `Px.Lawful` itself (the laws at EVERY natural as a depth) is more than the code offers: at a depth
`_create_image` rejects there is nothing to undo the import with. -/
theorem px_not_lawful_everywhere : ¬ px.Lawful :=
  fun h => px_load_at_7 (h.load_store 7 ⟨5, by decide⟩)

/-! ### PIL export ∘ import = id on 0 … 255 -/

/-- for each depth: what `_create_image` makes of the sample `plane()` stored is the sample -/
theorem decode_encode_8_16_32 : ∀ d ∈ depths, ∀ v ≤ 255, pilLoad d (store d v) = some v :=
  fun _ hd _ hv => load_store hd hv

example : (16 : Nat) ∈ depths ∧ (200 : Nat) ≤ 255 := by decide

/-- the same in closed form: 8 bit the byte; 16 bit `(v · 257) / 256 = v` (the code is the byte twice);
32 bit `⌊binary32(v / 255) · 256⌋ = v`, clipped at 255 -/
theorem decode_encode_explicit (v : Nat) (hv : v ≤ 255) :
    store 8 v = v ∧
    store 16 v = v * 257 ∧ v * 257 / 256 = v ∧ v * 257 % 256 = v ∧
    store 32 v = f32Bits ((v : Rat) / 255) ∧ f2l (f32Value (f32Bits ((v : Rat) / 255)) * 256) = v := by
  refine ⟨store_8 v, store_16 hv, by omega, by omega, store_32 v, ?_⟩
  have h := load_store_32 hv
  rw [store_32] at h
  have hn : isNaN32 (f32Bits ((v : Rat) / 255)) = false := by
    have := nan_free_fin ⟨v, by omega⟩
    simpa using this
  simpa [pilLoad, hn, pilMul32] using h

example : (77 : Nat) ≤ 255 := by decide

/-- The variant `v << 8` of the 16-bit encoding is undone by the PIL export all the same … -/
theorem shift_variant_pil (v : Nat) (hv : v ≤ 255) : pilLoad 16 (storeShift v) = some v :=
  load_storeShift hv

example : (255 : Nat) ≤ 255 := by decide

/-- … but not by the NumPy export: `(v << 8) / 65535 ≠ v / 255` (white comes back as 0.99611, and
`round(numpy · 255)` is 254) — which is why the import multiplies by 257. -/
theorem shift_variant_numpy_fails :
    ¬ (∀ v ≤ 255, ((storeShift v : Nat) : Rat) / (npDiv16 : Rat) = (v : Rat) / 255) ∧
    npLoad 16 (storeShift 255) ≠ npLoad 16 (store 16 255) ∧
    (∀ b, npLoad 16 (storeShift 255) = some b → roundHalfEven (f32Value b * 255) = 254) :=
  ⟨fun h => shift_quotient_differs (h 255 (by decide)), shift_np_differs, shift_np_rounds_254⟩

/-- Rounding instead of truncating in the 16 → 8 bit reduction (`x / 256 + 0.5`) would return `v + 1` for the
upper half of the range: 128 ↦ 129. -/
theorem rounding_variant_fails : pilLoad16Rounding (store 16 128) = 129 ∧
    ¬ (∀ v ≤ 255, pilLoad16Rounding (store 16 v) = v) :=
  ⟨rounding_variant_128, fun h => absurd (h 128 (by decide)) (by rw [rounding_variant_128]; decide)⟩

/-! ### the NumPy export of an imported sample -/

/-- At every depth the NumPy export of an imported `v` is THE SAME float: the binary32 nearest to `v / 255`
(depth 8: `float32(v) / 255`; depth 16: `float32(v · 257) / 65535`, and `v · 257 / 65535 = v / 255` exactly;
depth 32: the stored `float32(v) / 255` itself). -/
theorem numpy_export_value : ∀ d ∈ depths, ∀ v ≤ 255, npLoad d (store d v) = some (f32Bits ((v : Rat) / 255)) :=
  fun _ hd _ hv => np_store hd hv

example : (32 : Nat) ∈ depths ∧ (3 : Nat) ≤ 255 := by decide

/-- the quotient that `_parse_array` rounds is exactly `v / 255` as a rational number, at depths 8 and 16 -/
theorem numpy_export_quotient (d : Nat) (hd : d = 8 ∨ d = 16) (v : Nat) (hv : v ≤ 255) :
    npQuotient d (store d v) = some ((v : Rat) / 255) := np_quotient hd hv

example : ((16 : Nat) = 8 ∨ (16 : Nat) = 16) ∧ (255 : Nat) ≤ 255 := by decide

/-- … the float returned is within 2⁻²⁵ of `v / 255` (so within 1e-6), it IS the nearest binary32 (`v / 255` lies
between the midpoints to the two neighbouring floats, whatever the rounding algorithm), and it equals `v / 255`
only for `v ∈ {0, 255}` -/
theorem numpy_export_nearest (v : Nat) (hv : v ≤ 255) :
    let b := f32Bits ((v : Rat) / 255)
    ((v : Rat) / 255 - 1 / 2 ^ 25 ≤ f32Value b ∧ f32Value b ≤ (v : Rat) / 255 + 1 / 2 ^ 25) ∧
    (2 * ((v : Rat) / 255) ≤ f32Value b + f32Value (b + 1) ∧
      (0 < v → f32Value (b - 1) + f32Value b ≤ 2 * ((v : Rat) / 255))) ∧
    ((f32Value b = (v : Rat) / 255) = (v = 0 ∨ v = 255)) :=
  ⟨npValue_error_fin ⟨v, by omega⟩, npValue_nearest_fin ⟨v, by omega⟩, npValue_exact_iff_fin ⟨v, by omega⟩⟩

example : (128 : Nat) ≤ 255 := by decide

/-! ### the PIL export and the NumPy export agree on every sample -/

/-- for every depth and every `v`: the PIL export is `v`, the NumPy export is a float `x` with
`round(x · 255) = v` -/
theorem pil_numpy_agree_samples : ∀ d ∈ depths, ∀ v ≤ 255,
    ∃ b, npLoad d (store d v) = some b ∧ pilLoad d (store d v) = some v ∧
      roundHalfEven (f32Value b * 255) = (v : Int) :=
  fun _ hd v hv => ⟨_, np_store hd hv, load_store hd hv, round_np_fin ⟨v, by omega⟩⟩

example : (8 : Nat) ∈ depths ∧ (254 : Nat) ≤ 255 := by decide

/-! ### CMYK inversion -/

/-- `ImageChops.invert` (`255 − v`) is an involution on 8-bit samples; on the stored 16-bit code it is
`65535 − c`, an involution too, and the two commute with the import; on the values the NumPy export shows it
is `1 − x` exactly (`(255 − v) / 255 = 1 − v / 255`). -/
theorem inversion_involution (v : Nat) (hv : v ≤ 255) :
    inv8 (inv8 v) = v ∧ inv8 v ≤ 255 ∧
    store 16 (inv8 v) = inv16 (store 16 v) ∧ inv16 (inv16 (store 16 v)) = store 16 v ∧
    ((inv8 v : Nat) : Rat) / 255 = 1 - (v : Rat) / 255 := by
  have h16 := store_16 hv
  have h16' := store_16 (show inv8 v ≤ 255 by unfold inv8; omega)
  refine ⟨by unfold inv8; omega, by unfold inv8; omega, ?_, ?_, ?_⟩
  · rw [h16, h16']; unfold inv8 inv16; omega
  · rw [h16]; unfold inv16; omega
  · unfold inv8
    rw [Nat.cast_sub hv]
    push_cast
    field_simp

example : (40 : Nat) ≤ 255 := by decide

/-- In binary32 the inversion `1 − x` is NOT an involution on the values the NumPy export returns (it loses the
low bits of small values: `v = 1`), only on the upper half of the range; it stays within 2⁻²⁴ of the NumPy value
of the inverted sample. The pipeline never inverts floats: all three inversions are on 8-bit samples
(`samples_tied`: `numpyConstMinus = []`). -/
theorem float_inversion (v : Nat) (hv : v ≤ 255) :
    (((inv8 v : Nat) : Rat) / 255 - 1 / 2 ^ 24 ≤ rnd (1 - npValue v) ∧
      rnd (1 - npValue v) ≤ ((inv8 v : Nat) : Rat) / 255 + 1 / 2 ^ 24) ∧
    (128 ≤ v → rnd (1 - rnd (1 - npValue v)) = npValue v) ∧
    rnd (1 - rnd (1 - npValue 1)) ≠ npValue 1 :=
  ⟨float_inv_close_fin ⟨v, by omega⟩, float_inv_invol_upper_fin ⟨v, by omega⟩, float_inv_not_invol⟩

example : (200 : Nat) ≤ 255 := by decide

/-! ### alpha -/

/-- opaque (`Image.new("L", size, 255)`) is stored as the maximal code of every depth — 0xff, 0xffff, the
binary32 1.0 — and comes back as 255 from the PIL export and exactly 1.0 from the NumPy export; transparent
(0) is the zero code and comes back as 0 and 0.0 -/
theorem alpha_opaque_max_code :
    storeBytes 8 opaque8 = [0xff] ∧ storeBytes 16 opaque8 = [0xff, 0xff] ∧ storeBytes 32 opaque8 = [0x3f, 0x80, 0, 0] ∧
    (∀ d ∈ depths, pilLoad d (store d opaque8) = some 255 ∧
      ∃ b, npLoad d (store d opaque8) = some b ∧ f32Value b = 1) ∧
    (∀ d ∈ depths, store d 0 = 0 ∧ pilLoad d 0 = some 0 ∧ ∃ b, npLoad d 0 = some b ∧ f32Value b = 0) :=
  opaque_table

/-! ### matte removal -/

/-- `_remove_white_background` leaves a colour sample alone when its alpha is 0 or 255 (and only then for
every colour: the half-transparent gray (100, 128) becomes 0) -/
theorem unmatte_exact_on_solid :
    (∀ x a : Fin 256, (a.val = 0 ∨ a.val = 255) → unmatte8 x.val a.val = x.val) ∧ unmatte8 100 128 = 0 :=
  unmatte_solid_table

/-! ### the route theorems for the real arithmetic -/

/-- LAYER import → save → open → `layer.topil()`, unconditionally for the real arithmetic: every source mode,
every document colour mode with or without alpha channel, depth 8 / 16 / 32, any offset. -/
theorem layer_import_export_concrete (img : Image S8) (hwf : img.WF) (hdr : Header) (hd : hdr.depth ∈ depths)
    (hb : hdr.cmode ≠ .bitmap) (top left : Int) :
    let src := normalise pil img
    let alpha := (srcAlpha src).getD (List.replicate (img.width * img.height) px.full)
    ∃ l, layerImport pil px img hdr top left = .ok l ∧
      (l.top, l.left, l.bottom, l.right) = (top, left, top + img.height, left + img.width) ∧
      exportLayerPil px hdr l = .ok
        { mode := layerPilMode hdr.cmode, width := img.width, height := img.height,
          bands := (pil.conv hdr.pilMode src).bands.take hdr.cmode.channels ++
            (if hdr.cmode = .cmyk then [] else [alpha]) } ∧
      exportLayerAlpha px hdr l = .ok (some alpha) :=
  layer_import_export pil pil_lawful px img hwf hdr (px_lawfulAt hd) hb top left

example : ∃ (img : Image S8) (hdr : Header), img.WF ∧ hdr.depth ∈ depths ∧ hdr.cmode ≠ .bitmap :=
  ⟨{ mode := .RGBA, width := 1, height := 1, bands := [[1], [2], [3], [4]] },
   { cmode := .cmyk, channels := 4, depth := 32, width := 2, height := 2 }, by decide, by decide, by decide⟩

/-- DOCUMENT import → save → open → `topil()` for the real arithmetic, every mode except RGBA -/
theorem doc_import_export_concrete (img : Image S8) (hwf : img.WF) (hm : img.mode ≠ .RGBA) :
    exportDocPil px (docImport pil px img).1 (docImport pil px img).2 = .ok (some (normalise pil img)) :=
  doc_import_export_partial pil pil_lawful px (px_lawfulAt (by decide)) img hwf hm

example : ∃ img : Image S8, img.WF ∧ img.mode ≠ .RGBA :=
  ⟨{ mode := .one, width := 2, height := 1, bands := [[0, 1]] }, by decide, by decide⟩

/-- … and RGBA documents exactly when every alpha sample is 0 or 255 (the known finding otherwise) -/
theorem doc_import_export_rgba_concrete_partial (w h : Nat) (r g b a : List S8)
    (hl : r.length = a.length ∧ g.length = a.length ∧ b.length = a.length)
    (ha : ∀ x ∈ a, x.val = 0 ∨ x.val = 255) :
    let img : Image S8 := { mode := .RGBA, width := w, height := h, bands := [r, g, b, a] }
    exportDocPil px (docImport pil px img).1 (docImport pil px img).2 = .ok (some img) := by
  apply doc_import_export_rgba_partial pil px (px_lawfulAt (by decide)) w h r g b a
  intro c hc
  have hcl : c.length = a.length := by
    simp only [List.mem_cons, List.not_mem_nil, or_false] at hc
    rcases hc with rfl | rfl | rfl
    · exact hl.1
    · exact hl.2.1
    · exact hl.2.2
  exact zipWith_unmatte_solid c a hcl ha

example : ∃ r g b a : List S8, (r.length = a.length ∧ g.length = a.length ∧ b.length = a.length) ∧
    ∀ x ∈ a, x.val = 0 ∨ x.val = 255 := ⟨[10], [20], [30], [⟨255, by omega⟩], by decide,
     fun x hx => by rw [List.mem_singleton] at hx; subst hx; exact Or.inr rfl⟩

/-- The full statement fails for RGBA with the real arithmetic: (100, 100, 100, 128) comes back as (0, 0, 0, 128). -/
theorem doc_import_export_rgba_concrete_fails :
    ¬ (∀ img : Image S8, img.WF →
        exportDocPil px (docImport pil px img).1 (docImport pil px img).2 = .ok (some (normalise pil img))) :=
  fun h => rgba_doc_witness (h rgbaWitness (by decide))

/-! ### the NumPy export of an imported layer / document: every sample is `v / 255` -/

/-- `layer.numpy()` of an imported layer, every depth: the colour bands of `img.convert(doc.pil_mode)` — in the
STORAGE convention, i.e. inverted in a CMYK document — followed by the transparency, every sample `x` as the
float nearest to `x / 255`. -/
theorem layer_numpy_export_concrete (img : Image S8) (hwf : img.WF) (hdr : Header) (hd : hdr.depth ∈ depths)
    (hb : hdr.cmode ≠ .bitmap) (top left : Int) :
    let src := normalise pil img
    let alpha := (srcAlpha src).getD (List.replicate (img.width * img.height) px.full)
    let conv := pil.conv hdr.pilMode src
    ∃ l, layerImport pil px img hdr top left = .ok l ∧
      exportLayerNumpy (npView hdr.depth) hdr l = .ok
        (((if hdr.cmode = .cmyk then conv.invert px else conv).bands.take hdr.cmode.channels ++ [alpha]).map
          (·.map asFloat)) :=
  layer_numpy_concrete img hwf hdr hd hb top left

example : ∃ (img : Image S8) (hdr : Header), img.WF ∧ hdr.depth ∈ depths ∧ hdr.cmode ≠ .bitmap :=
  ⟨{ mode := .LA, width := 1, height := 1, bands := [[1], [2]] },
   { cmode := .rgb, channels := 3, depth := 16, width := 2, height := 2 }, by decide, by decide, by decide⟩

/-- hence, in grayscale and RGB documents, `layer.numpy()` IS `layer.topil()` sample for sample (`x ↦ x / 255`,
nearest float); in CMYK documents it is the inverted colour (the known convention split) plus the transparency
that PIL cannot carry. -/
theorem pil_numpy_agree_layer_concrete (img : Image S8) (hwf : img.WF) (hdr : Header) (hd : hdr.depth ∈ depths)
    (hc : hdr.cmode = .gray ∨ hdr.cmode = .rgb) (top left : Int) :
    ∃ l out, layerImport pil px img hdr top left = .ok l ∧ exportLayerPil px hdr l = .ok out ∧
      exportLayerNumpy (npView hdr.depth) hdr l = .ok (out.bands.map (·.map asFloat)) := by
  have hb : hdr.cmode ≠ .bitmap := by rcases hc with h | h <;> rw [h] <;> decide
  have hk : hdr.cmode ≠ .cmyk := by rcases hc with h | h <;> rw [h] <;> decide
  obtain ⟨l, h1, _, h3, _⟩ := layer_import_export_concrete img hwf hdr hd hb top left
  obtain ⟨l', h1', h2'⟩ := layer_numpy_export_concrete img hwf hdr hd hb top left
  rw [h1] at h1'
  cases h1'
  refine ⟨l, _, h1, h3, ?_⟩
  rw [h2']
  simp [hk]

example : ∃ (img : Image S8) (hdr : Header), img.WF ∧ hdr.depth ∈ depths ∧ (hdr.cmode = .gray ∨ hdr.cmode = .rgb) :=
  ⟨{ mode := .CMYK, width := 1, height := 1, bands := [[1], [2], [3], [4]] },
   { cmode := .gray, channels := 2, depth := 32, width := 2, height := 2 }, by decide, by decide, by decide⟩

/-- `numpy()` of an imported document (every mode except RGBA): every plane of the source — inverted for CMYK —
with every sample `x` as the float nearest to `x / 255` -/
theorem doc_numpy_export_concrete (img : Image S8) (hwf : img.WF) (hm : img.mode ≠ .RGBA) :
    let src := normalise pil img
    exportDocNumpy (npView 8) (docImport pil px img).1 (docImport pil px img).2 = .ok
      ((if src.mode = .CMYK then src.invert px else src).bands.map (·.map asFloat)) :=
  doc_numpy_concrete img hwf hm

example : ∃ img : Image S8, img.WF ∧ img.mode ≠ .RGBA :=
  ⟨{ mode := .CMYK, width := 1, height := 1, bands := [[1], [2], [3], [4]] }, by decide, by decide⟩

end PsdVerif.C07
