/-
C17 — "the merged image written equals the composite of the saved layers", as theorems.

The numeric composite is C11's compositor model (`Model/Composite.lean: compositeDoc`) called the way
`_merged_planes` calls `composite` (`Model/MergedPixels.lean: compositePsd`), the sample arithmetic is
that of `_merged_planes` over `Rat` (`flatten`, `code`, `planeEnc`), the decision logic and the geometry
are those of `Model/Merged.lean` (`Props/C17.lean`). Composed here:

* `merged_equals_composite` (+ `merged_colour_planes`, `merged_flat_equals_composite`): every stored sample
  is the quantisation of the value its plane's source has at that pixel of the composite;
* `flattened_is_published` (+ `_partial`), `merged_equals_published_model`: through C11's
  `compositor_refines_spec_doc`, the flattened value is the published model's `P + (1 − α)`;
* quantisation laws: `stored_bytes`, `quantise_within_half_step` (+ `_attained`), `quantise_monotone`,
  `quantise_endpoints`, `requantise_is_identity`, `clip_is_inert`;
* `flatten_uses_alpha`, `flatten_uses_alpha_not_shape`;
* `merged_covers_canvas`, `merged_is_crop` (through C13's `viewport_is_crop`);
* `layerless_document_keeps_image`;
* ties to the source, regenerated from the AST on every run (`Generated/MergedPixels.lean`):
  `merged_pixels_tied`, `composite_call_tied`, `save_tied`.
-/
import PsdVerif.Props.C17
import PsdVerif.Model.MergedPixels
import PsdVerif.Lemmas.MergedPixels
import PsdVerif.Lemmas.MergedQuant
import PsdVerif.Props.C11
import PsdVerif.Props.C13
import PsdVerif.Generated.MergedPixels
import PsdVerif.Generated.Pixels
set_option linter.unusedSimpArgs false

namespace PsdVerif.C17
open PsdVerif PsdVerif.Pixels PsdVerif.Merged

/-! ## The merged image equals the composite of the saved layers

From here on the numeric composite is C11's compositor model and the sample arithmetic is that of
`_merged_planes` (`Model/MergedPixels.lean`). -/

section Pixels
open PsdVerif.MergedPixels PsdVerif.Composite

/-- **merged_equals_composite.** A supported document whose structure was edited, whose pixels are `d`
(the layer tree at every pixel — ANY tree —, and the stored image for the layerless case), is saved:
`save()` succeeds, the planes `ImageData.get_data` reads back are `header.channels` many, and for every
plane `k` and every pixel `(x, y)` of the canvas the stored sample number `y·width + x` is
`plane()` — the quantisation of `_merged_planes` — of the value the plane's source has at that pixel of
`composite(psd, force=True)` (`compositePsd`, i.e. C11's `compositeDoc` on the canvas rectangle over a
transparent white backdrop when there are layers): the colour channel flattened on white WITH THE ALPHA
(`colorFlat`), the colour channel (`color`), the alpha (`alpha`), 1.0 (`fill`); a plane whose source is
`old j` is plane `j` of the merged image that was there. Which source a plane has: `merged_colour_planes`. -/
theorem merged_equals_composite (B : Composite.Mode → Color → Color → Color) (s : DocState) (d : PixelDoc)
    (hd : s.dirty = true) (hs : Supported s.info.header)
    (hch : s.info.header.cmode.expected ≤ s.info.header.channels) :
    ∃ routes planes s',
      mergedRoutes s.info (oldReadable s) = .ok (some routes) ∧
      savePixels B s d = .ok s' ∧ s'.info.header = s.info.header ∧
      getData s'.imageData s'.info.header = .ok planes ∧
      routes.length = s.info.header.channels ∧ planes.length = s.info.header.channels ∧
      ∀ k (h1 : k < routes.length) (h2 : k < planes.length),
        (∀ j, routes[k] = .old j → (oldPlanes s)[j]? = some planes[k]) ∧
        ∀ (x y : Nat), x < s.info.header.width → y < s.info.header.height →
          ∀ v, sampleValue (compositePsd B s.info.header x y (d.layers x y) (d.oldColor x y) (d.oldShape x y))
                routes[k] = some v →
            sampleAt planes[k] (s.info.header.depth / 8) (y * s.info.header.width + x)
              = planeEnc s.info.header.depth v :=
  save_samples B s d hd hs.1 hs.2 hch

/-- the hypotheses are satisfiable: a 2×1 RGB document with one layer -/
example : ∃ (s : DocState), s.dirty = true ∧ Supported s.info.header ∧
    s.info.header.cmode.expected ≤ s.info.header.channels :=
  ⟨{ info := { header := { cmode := .rgb, channels := 3, depth := 8, width := 2, height := 1 }, layerCount := 1 },
     imageData := { comp := .raw, payload := [] }, dirty := true }, rfl, by unfold Supported; decide, by decide⟩

/-- **Which plane is what, for every document** (the decision table `merged_sources_table` as a law):
colour plane `k` receives colour channel `k` of the composite, flattened on white unless the document has
a transparency plane and is not RGB; the transparency plane — if the readers see one — receives the
composite's alpha. -/
theorem merged_colour_planes (m : Meta) (rd : Bool) (routes : List PlaneSrc)
    (h : mergedRoutes m rd = .ok (some routes)) :
    (∀ k, k < m.header.cmode.expected →
      routes[k]? = some (if flattens m then PlaneSrc.colorFlat k else .color k)) ∧
    (transparencyPlane m = true →
      routes[max (m.transparencyIndex % (m.header.channels : Int)).toNat m.header.cmode.expected]? = some .alpha) :=
  mergedRoutes_colour m rd routes h

example : ∃ (m : Meta) (routes : List PlaneSrc), mergedRoutes m true = .ok (some routes) :=
  ⟨{ header := { cmode := .rgb, channels := 3, depth := 8, width := 1, height := 1 } }, _, rfl⟩

/-- **A document without a transparency plane: the stored colour IS the flattened composite.**
(`merged_equals_composite` and `merged_colour_planes` put together for the common case.) For every pixel of
the canvas and every colour channel `k`, the stored sample is the quantisation of
`C_k · α + (1 − α)`, `(C, _, α)` being what the compositor model returns there. -/
theorem merged_flat_equals_composite (B : Composite.Mode → Color → Color → Color) (s : DocState) (d : PixelDoc)
    (hd : s.dirty = true) (hs : Supported s.info.header)
    (hch : s.info.header.cmode.expected ≤ s.info.header.channels) (hflat : flattens s.info = true) :
    ∃ planes s', savePixels B s d = .ok s' ∧ getData s'.imageData s'.info.header = .ok planes ∧
      ∀ k (_ : k < s.info.header.cmode.expected) (h2 : k < planes.length) (x y : Nat),
        x < s.info.header.width → y < s.info.header.height →
        let px := compositePsd B s.info.header x y (d.layers x y) (d.oldColor x y) (d.oldShape x y)
        sampleAt planes[k] (s.info.header.depth / 8) (y * s.info.header.width + x)
          = planeEnc s.info.header.depth (flatten (px.1 k) px.2.2) := by
  obtain ⟨routes, planes, s', hr, hsave, _, hget, hrl, hpl, hall⟩ := merged_equals_composite B s d hd hs hch
  refine ⟨planes, s', hsave, hget, ?_⟩
  intro k hk h2 x y hx hy px
  have h1 : k < routes.length := by omega
  have hroute := (merged_colour_planes s.info _ routes hr).1 k hk
  rw [hflat, if_pos rfl, List.getElem?_eq_getElem h1, Option.some.injEq] at hroute
  exact (hall k h1 h2).2 x y hx hy _ (by rw [hroute]; rfl)

example : flattens { header := { cmode := .rgb, channels := 3, depth := 8, width := 2, height := 1 }, layerCount := 1 } = true := by
  decide

/-! ### through C11: the published model -/

/-- **The flattened value is the published model's, exactly.** For every well-formed, non-empty layer
tree (C11's `listOk`, blend functions with `BOk`) at a pixel: with `(P, f, α)` the published model's
result for the document over a transparent backdrop (`specDoc`: group colour premultiplied by the group
alpha, group shape, group alpha; knockout rule as coded, see C11) — the value flattened on white is
`P_k + (1 − α)`: no division, no clamp, nothing undefined under zero coverage; the alpha plane's value is
`α`; an unflattened colour plane's value is `P_k / α` wherever `α ≠ 0`. -/
theorem flattened_is_published {B : Composite.Mode → Color → Color → Color} (hB : BOk B) (h : Header) (x y : Int)
    (layers : List Node) (hl : listOk layers) (hne : layers.isEmpty = false) (oc : Color) (os : Rat) :
    let px := compositePsd B h x y layers oc os
    let spec := specDoc .pdf17 B (canvas h) x y (fun _ => 0) 0 layers
    (∀ k, sampleValue px (.colorFlat k) = some (spec.1 k + (1 - spec.2.2))) ∧
    sampleValue px .alpha = some spec.2.2 ∧
    (spec.2.2 ≠ 0 → ∀ k, sampleValue px (.color k) = some (spec.1 k / spec.2.2)) := by
  intro px spec
  have hpx : px = compositeDoc B (canvas h) x y white 0 layers := by
    simp only [px, compositePsd, hne, Bool.false_eq_true, if_false, backdropColor, backdropAlpha]
  have hz : (fun ch => (0 : Rat) * white ch) = fun _ => (0 : Rat) := by funext ch; simp
  obtain ⟨_, h2, h3, h4⟩ := C11.compositor_refines_spec_doc hB (canvas h) x y white_ok unit01_zero layers hl
  rw [hz] at h2 h3 h4
  rw [← hpx] at h2 h3 h4
  refine ⟨?_, ?_, ?_⟩
  · intro k
    simp only [sampleValue, flatten, Option.some.injEq]
    rw [h3 k, h2]
  · simp only [sampleValue, Option.some.injEq]; exact h2
  · intro hne0 k
    simp only [sampleValue, Option.some.injEq]
    exact h4 (by rw [h2]; exact hne0) k

example : BOk allNormal ∧ listOk [koWhiteLayer] ∧ [koWhiteLayer].isEmpty = false :=
  ⟨allNormal_ok, koWhiteLayer_ok, rfl⟩

/-- … and for trees without knockout flags against the published model with EITHER knockout rule (the
choice is then irrelevant: C11 `compositor_refines_spec_partial`). -/
theorem flattened_is_published_partial {B : Composite.Mode → Color → Color → Color} (hB : BOk B) (h : Header)
    (x y : Int) (layers : List Node) (hl : listOk layers) (hko : listNoKo layers) (hne : layers.isEmpty = false)
    (oc : Color) (os : Rat) (rule : KoRule) :
    let px := compositePsd B h x y layers oc os
    let spec := specDoc rule B (canvas h) x y (fun _ => 0) 0 layers
    (∀ k, sampleValue px (.colorFlat k) = some (spec.1 k + (1 - spec.2.2))) ∧
    sampleValue px .alpha = some spec.2.2 := by
  intro px spec
  have hs : spec = specDoc .pdf17 B (canvas h) x y (fun _ => 0) 0 layers :=
    specDoc_rule_irrelevant rule .pdf17 B (canvas h) x y _ 0 layers hko
  obtain ⟨a, b, _⟩ := flattened_is_published hB h x y layers hl hne oc os
  rw [hs]
  exact ⟨a, b⟩

example : listNoKo ([] : List Node) := trivial

/-- **merged_equals_published_model.** The stored merged image of a structurally edited, supported document
without a transparency plane, all of whose per-pixel trees are well-formed and non-empty: at every pixel
of the canvas and for every colour channel the stored sample is the quantisation of the PUBLISHED model's
premultiplied colour plus the uncovered white, `P_k + (1 − α)`. (`merged_flat_equals_composite` composed
with C11's `compositor_refines_spec`.) -/
theorem merged_equals_published_model {B : Composite.Mode → Color → Color → Color} (hB : BOk B) (s : DocState)
    (d : PixelDoc) (hd : s.dirty = true) (hs : Supported s.info.header)
    (hch : s.info.header.cmode.expected ≤ s.info.header.channels) (hflat : flattens s.info = true)
    (hl : ∀ x y, listOk (d.layers x y)) (hne : ∀ x y, (d.layers x y).isEmpty = false) :
    ∃ planes s', savePixels B s d = .ok s' ∧ getData s'.imageData s'.info.header = .ok planes ∧
      ∀ k (_ : k < s.info.header.cmode.expected) (h2 : k < planes.length) (x y : Nat),
        x < s.info.header.width → y < s.info.header.height →
        let spec := specDoc .pdf17 B (canvas s.info.header) x y (fun _ => 0) 0 (d.layers x y)
        sampleAt planes[k] (s.info.header.depth / 8) (y * s.info.header.width + x)
          = planeEnc s.info.header.depth (spec.1 k + (1 - spec.2.2)) := by
  obtain ⟨planes, s', hsave, hget, hall⟩ := merged_flat_equals_composite B s d hd hs hch hflat
  refine ⟨planes, s', hsave, hget, ?_⟩
  intro k hk h2 x y hx hy spec
  have := hall k hk h2 x y hx hy
  simp only at this
  rw [this]
  have hp := (flattened_is_published hB s.info.header x y (d.layers x y) (hl x y) (hne x y)
    (d.oldColor x y) (d.oldShape x y)).1 k
  simp only [sampleValue, Option.some.injEq] at hp
  rw [hp]

/-- the hypotheses are satisfiable together: a dirty 1×1 RGB document without transparency plane whose tree at every
pixel is one opaque white layer (`koWhiteLayer` of C11: well-formed, non-empty) -/
example : ∃ (B : Composite.Mode → Color → Color → Color) (s : DocState) (d : PixelDoc),
    BOk B ∧ s.dirty = true ∧ Supported s.info.header ∧ s.info.header.cmode.expected ≤ s.info.header.channels ∧
    flattens s.info = true ∧ (∀ x y, listOk (d.layers x y)) ∧ (∀ x y, (d.layers x y).isEmpty = false) :=
  ⟨allNormal,
   { info := { header := { cmode := .rgb, channels := 3, depth := 8, width := 1, height := 1 }, layerCount := 1 },
     imageData := { comp := .raw, payload := [] }, dirty := true },
   { layers := fun _ _ => [koWhiteLayer], oldColor := fun _ _ => white, oldShape := fun _ _ => 1 },
   allNormal_ok, rfl, by unfold Supported; decide, by decide, by decide, fun _ _ => koWhiteLayer_ok, fun _ _ => rfl⟩

/-! ### quantisation laws (`plane()`, 8 and 16 bit) -/

/-- **What is written for 8 / 16 / 32 bits**: the code `np.round(np.clip(v, 0, 1) · scale)` as 1 / 2 big-endian
bytes — and the bytes hold the code (it never exceeds `scale`, so nothing is cut by the integer conversion) —
or the binary32 nearest to the value, big-endian. -/
theorem stored_bytes (v : Rat) :
    planeEnc 8 v = be 1 (code 255 v) ∧ unbe (planeEnc 8 v) = code 255 v ∧
    planeEnc 16 v = be 2 (code 65535 v) ∧ unbe (planeEnc 16 v) = code 65535 v ∧
    planeEnc 32 v = be 4 (f32Bits v) := by
  have h8 := code_le 255 v
  have h16 := code_le 65535 v
  refine ⟨rfl, ?_, rfl, ?_, rfl⟩
  · show unbe (be 1 (code 255 v)) = _
    rw [unbe_be]; exact Nat.mod_eq_of_lt (by omega)
  · show unbe (be 2 (code 65535 v)) = _
    rw [unbe_be]; exact Nat.mod_eq_of_lt (by omega)

/-- **Within half a step.** For a value in `[0, 1]` the stored code, read back as the readers do
(`code / scale`), differs from the value by at most `1 / (2·scale)` — and that bound is attained
(`quantise_half_step_attained`). -/
theorem quantise_within_half_step (scale : Nat) (hs : 0 < scale) (v : Rat) (hv : Unit01 v) :
    decode scale (code scale v) - v ≤ 1 / (2 * (scale : Rat)) ∧
    v - decode scale (code scale v) ≤ 1 / (2 * (scale : Rat)) :=
  code_error scale hs hv

example : (0 : Nat) < 255 ∧ Unit01 (1 / 3 : Rat) := ⟨by decide, by constructor <;> norm_num⟩

/-- the bound is exact: 1/510 is stored as 0 (the tie 0.5 goes to the even code), 3/510 as 2 -/
theorem quantise_half_step_attained :
    code 255 (1 / 510) = 0 ∧ (1 / 510 : Rat) - decode 255 (code 255 (1 / 510)) = 1 / (2 * 255) ∧
    code 255 (3 / 510) = 2 ∧ decode 255 (code 255 (3 / 510)) - (3 / 510 : Rat) = 1 / (2 * 255) := by
  decide +kernel

/-- **Monotone**: a larger value never gets a smaller code (any scale, values outside `[0, 1]` included) -/
theorem quantise_monotone (scale : Nat) (v w : Rat) (h : v ≤ w) : code scale v ≤ code scale w :=
  code_mono scale h

example : (1 / 3 : Rat) ≤ 1 / 2 := by norm_num

/-- **End points and range**: 0 ↦ 0, 1 ↦ `scale` (255 / 65535), every code is at most `scale`; values below 0 /
above 1 are stored as 0 / `scale` (`np.clip`). -/
theorem quantise_endpoints (scale : Nat) :
    code scale 0 = 0 ∧ code scale 1 = scale ∧ (∀ v, code scale v ≤ scale) ∧
    (∀ v, v ≤ 0 → code scale v = 0) ∧ (∀ v, 1 ≤ v → code scale v = scale) := by
  refine ⟨code_zero scale, code_one scale, code_le scale, ?_, ?_⟩
  · intro v hv
    have := code_mono scale hv
    rw [code_zero] at this
    omega
  · intro v hv
    have h1 := code_mono scale hv
    rw [code_one] at h1
    have h2 := code_le scale v
    omega

/-- **A stored value is a fixed point**: quantising what the readers decode from a code gives the code back
(so a merged image regenerated from unchanged pixel data does not drift). -/
theorem requantise_is_identity (scale : Nat) (hs : 0 < scale) (n : Nat) (hn : n ≤ scale) :
    code scale (decode scale n) = n := by
  have hs' : (0 : Rat) < (scale : Rat) := by exact_mod_cast hs
  have hu : Unit01 (decode scale n) := by
    unfold decode
    constructor
    · positivity
    · rw [div_le_one hs']; exact_mod_cast hn
  unfold code
  rw [clip_id hu]
  unfold decode
  rw [div_mul_cancel₀ _ (ne_of_gt hs')]
  have : ((n : Nat) : Rat) = (((n : Nat) : Int) : Rat) := by norm_num
  rw [this, roundHalfEven_intCast]
  simp

example : (0 : Nat) < 65535 ∧ (1234 : Nat) ≤ 65535 := by decide

/-- **`np.clip` is inert on composites.** For every well-formed tree the values `_merged_planes` quantises —
the flattened colour, the colour, the alpha — are in `[0, 1]` (C13 `result_in_unit_interval`), so the clip
changes nothing and `quantise_within_half_step` applies to them. -/
theorem clip_is_inert (B : Composite.Mode → Color → Color → Color) (h : Header) (x y : Int) (layers : List Node)
    (hl : listOk layers) (oc : Color) (os : Rat) (hoc : ColorOk oc) (hos : Unit01 os) (r : PlaneSrc) (v : Rat)
    (hv : sampleValue (compositePsd B h x y layers oc os) r = some v) : Unit01 v ∧ clip v = v := by
  have hpx : ColorOk (compositePsd B h x y layers oc os).1 ∧ Unit01 (compositePsd B h x y layers oc os).2.2 := by
    unfold compositePsd
    split
    · exact ⟨hoc, hos⟩
    · have := C13.result_in_unit_interval B (canvas h) x y backdropColor backdropAlpha white_ok unit01_zero layers hl
      exact ⟨this.1, this.2.2⟩
  have hu : Unit01 v := by
    cases r with
    | colorFlat k => simp only [sampleValue, Option.some.injEq] at hv; rw [← hv]; exact flatten_unit (hpx.1 k) hpx.2
    | color k => simp only [sampleValue, Option.some.injEq] at hv; rw [← hv]; exact hpx.1 k
    | alpha => simp only [sampleValue, Option.some.injEq] at hv; rw [← hv]; exact hpx.2
    | fill => simp only [sampleValue, Option.some.injEq] at hv; rw [← hv]; exact unit01_one
    | old j => simp [sampleValue] at hv
  exact ⟨hu, clip_id hu⟩

example : ColorOk white ∧ Unit01 (1 : Rat) ∧ listOk [] := ⟨white_ok, unit01_one, trivial⟩

/-! ### flattening uses the alpha -/

/-- a layer covering the 1×1 canvas with colour `c`, fully covering (shape 1), opacity `o` -/
def translucentLayer (c : Color) (o : Rat) : Node :=
  .leaf { visible := true, bbox := ⟨0, 0, 1, 1⟩, opacity := o, fill := 1, hasMask := false, maskBBox := Rect.zero,
          maskValue := 1, maskBackground := 0, maskDensity := 1, mode := 0, knockout := false, clipping := false,
          hasClipTarget := false } true c 1 []

def header1x1 : Header := { cmode := .rgb, channels := 3, depth := 8, width := 1, height := 1 }

/-- **A translucent layer over empty canvas is blended with white.** One layer of colour `c` that covers the
pixel completely (shape 1) with opacity `o` (`layer.opacity / 255`, any blend mode): the composite has shape 1 and
alpha `o`, and the value stored in a flattened colour plane is the quantisation of `c·o + (1 − o)` — the colour
mixed with white in proportion to the ALPHA. -/
theorem flatten_uses_alpha {B : Composite.Mode → Color → Color → Color} (hB : BOk B) (c : Color) (o : Rat)
    (hc : ColorOk c) (ho : Unit01 o) (oc : Color) (os : Rat) (k : Nat) :
    let px := compositePsd B header1x1 0 0 [translucentLayer c o] oc os
    px.2.1 = 1 ∧ px.2.2 = o ∧ sampleValue px (.colorFlat k) = some (c k * o + (1 - o)) := by
  intro px
  have hl : listOk [translucentLayer c o] :=
    ⟨⟨⟨ho, unit01_one, unit01_one, unit01_zero, unit01_one⟩, hc, unit01_one, trivial⟩, trivial⟩
  have hpx : px = compositeDoc B (canvas header1x1) 0 0 white 0 [translucentLayer c o] := rfl
  obtain ⟨h1, h2, _⟩ := C11.compositor_refines_spec_doc hB (canvas header1x1) 0 0 white_ok unit01_zero _ hl
  obtain ⟨hf, _, _⟩ := flattened_is_published hB header1x1 0 0 [translucentLayer c o] hl rfl oc os
  have hi : intersect (canvas header1x1) ⟨0, 0, 1, 1⟩ = ⟨0, 0, 1, 1⟩ := by decide
  have hspec : specDoc .pdf17 B (canvas header1x1) 0 0 (fun _ => 0) 0 [translucentLayer c o]
      = (fun ch => o * (1 * c ch), (1 : Rat), o) := by
    simp [specDoc, specList, specNode, translucentLayer, specFinish, specSource, specFactors, maskFactors, pasteAt,
      hi, Rect.zero, Rect.contains, SState.init, groupColor, union, straight]
    funext ch; simp [groupColor]
  have hz : (fun ch => (0 : Rat) * white ch) = fun _ => (0 : Rat) := by funext ch; simp
  rw [hz, ← hpx, hspec] at h1 h2
  refine ⟨h1, h2, ?_⟩
  rw [hf k, hspec]
  simp only [Option.some.injEq]
  ring

example : ColorOk (fun _ => (0 : Rat)) ∧ Unit01 (1 / 2 : Rat) :=
  ⟨fun _ => ⟨le_refl _, by norm_num⟩, by constructor <;> norm_num⟩

/-- **… and NOT the shape.** A black layer of opacity 128 (of 255) over empty canvas: the value stored is
`1 − 128/255 = 127/255` (code 127 at 8 bits, mid grey); flattening with the shape — the variant
`color * shape + (1 - shape)` — would store 0 (black: the layer at full strength). The harness replays this
document on the real code on every run (`witness-black-128`). -/
theorem flatten_uses_alpha_not_shape :
    let px := compositePsd allNormal header1x1 0 0 [translucentLayer (fun _ => 0) (128 / 255)] white 1
    sampleValue px (.colorFlat 0) = some (127 / 255) ∧ sampleValueShapeVariant px 0 = 0 ∧
    code 255 (127 / 255) = 127 ∧ code 255 0 = 0 ∧ planeEnc 8 (127 / 255) = [127] ∧
    sampleValue px (.colorFlat 0) ≠ some (sampleValueShapeVariant px 0) := by
  decide +kernel

/-! ### the viewport: exactly the canvas -/

/-- **The merged image covers exactly the canvas**: the pixels of the canvas rectangle `(0, 0, width, height)` —
the viewport `composite` uses for a document — correspond one to one to the `width · height` samples of a
plane (`y · width + x`, row by row). -/
theorem merged_covers_canvas (h : Header) :
    (∀ (x y : Nat), (canvas h).contains x y = true ↔ (x < h.width ∧ y < h.height)) ∧
    (∀ (x y : Nat), x < h.width → y < h.height →
      y * h.width + x < h.width * h.height ∧ (y * h.width + x) % h.width = x ∧ (y * h.width + x) / h.width = y) ∧
    (∀ i, i < h.width * h.height → i % h.width < h.width ∧ i / h.width < h.height ∧
      (i / h.width) * h.width + i % h.width = i) := by
  refine ⟨?_, ?_, ?_⟩
  · intro x y
    simp [canvas, Rect.contains]
  · intro x y hx hy
    exact ⟨index_lt _ _ x y hx hy, index_mod _ x y hx, index_div _ x y hx⟩
  · intro i hi
    have hw : 0 < h.width := by
      rcases Nat.eq_zero_or_pos h.width with h0 | h0
      · rw [h0, Nat.zero_mul] at hi; omega
      · exact h0
    refine ⟨Nat.mod_lt _ hw, ?_, ?_⟩
    · rw [Nat.div_lt_iff_lt_mul hw, Nat.mul_comm]; exact hi
    · rw [Nat.mul_comm]; exact Nat.div_add_mod i h.width

/-- **Layers that extend beyond the canvas are cropped, nothing else.** For a pixel of the canvas, the values
written — flattened colour and alpha — are the same whether the layers are composited on the canvas rectangle
(as `_merged_planes` does) or on ANY larger viewport containing the pixel, e.g. the bounding box of all layers
(C13 `viewport_is_crop`; the colour under zero alpha may differ, which flattening removes). -/
theorem merged_is_crop (B : Composite.Mode → Color → Color → Color) (h : Header) (V : Rect) (x y : Nat)
    (hx : x < h.width) (hy : y < h.height) (hV : V.contains x y = true) (layers : List Node) (hl : listOk layers) :
    let r := compositeDoc B (canvas h) x y backdropColor backdropAlpha layers
    let r' := compositeDoc B V x y backdropColor backdropAlpha layers
    r'.2.2 = r.2.2 ∧ ∀ k, flatten (r'.1 k) r'.2.2 = flatten (r.1 k) r.2.2 := by
  intro r r'
  have hc : (canvas h).contains x y = true := ((merged_covers_canvas h).1 x y).2 ⟨hx, hy⟩
  obtain ⟨_, ha, hcol⟩ := C13.viewport_is_crop B V (canvas h) x y hV hc backdropColor backdropAlpha white_ok
    unit01_zero layers hl
  refine ⟨ha, ?_⟩
  intro k
  by_cases h0 : r.2.2 = 0
  · have h0' : r'.2.2 = 0 := by rw [ha]; exact h0
    simp [flatten, h0, h0']
  · have := hcol h0
    show flatten (r'.1 k) r'.2.2 = flatten (r.1 k) r.2.2
    rw [ha]
    have e : r'.1 = r.1 := this
    rw [e]

example : (⟨-3, -3, 9, 9⟩ : Rect).contains ((1 : Nat) : Int) ((0 : Nat) : Int) = true ∧ (1 : Nat) < 2 ∧
    listOk [koWhiteLayer] := ⟨by decide, by decide, koWhiteLayer_ok⟩

/-! ### a document without layers -/

/-- **No layers: the image data is the document.** `composite` does not composite a document without layers, it
returns the stored image; for a document without transparency (`shape = 1`) the flattened value is the stored
colour itself, and (`requantise_is_identity`) its code is the stored code: the regenerated merged image is the
old one. -/
theorem layerless_document_keeps_image (B : Composite.Mode → Color → Color → Color) (h : Header) (x y : Int)
    (oc : Color) (scale : Nat) (hs : 0 < scale) (n : Nat) (hn : n ≤ scale) (k : Nat) (hoc : oc k = decode scale n) :
    let px := compositePsd B h x y [] oc 1
    sampleValue px (.colorFlat k) = some (oc k) ∧ code scale (flatten (px.1 k) px.2.2) = n := by
  intro px
  have e : flatten (oc k) 1 = oc k := by simp [flatten]
  refine ⟨by simp [px, compositePsd, sampleValue, e], ?_⟩
  show code scale (flatten (oc k) 1) = n
  rw [e, hoc]
  exact requantise_is_identity scale hs n hn

example : (0 : Nat) < 255 ∧ (200 : Nat) ≤ 255 := by decide

end Pixels

/-! ## Ties to the source (regenerated from the AST of the working tree on every run) -/

section Ties
open PsdVerif.MergedPixels

/-- `_merged_planes` is what `Model/MergedPixels.lean` and `Model/Merged.lean: mergedRoutes` transliterate: the
`scale` dict IS the model's table; the depths / modes regenerated; `plane()` — binary32 for 32 bit, else
`np.round(np.clip(v, 0.0, 1.0) * scale)` as big-endian unsigned integers of `depth // 8` bytes; the flattening
statement weighs the colour with `alpha` — the THIRD component of what `composite` returns (the second, the
shape, is discarded) — and is guarded by `not transparency or RGB`; the only `constant − x` in the function is
that `1.0 - alpha` (no colour inversion, for CMYK or otherwise); `n = EXPECTED_CHANNELS[mode]` is the model's
`CMode.expected` (1 / 3 / 4 colour planes for grayscale / RGB / CMYK); colour plane `index` receives `color[:, :, index]`,
plane `max(index, n)` the alpha; the planes that are there are kept, or replaced by 1.0 when unreadable; there is
one early `return None`, and no statement the model does not know. -/
theorem merged_pixels_tied :
    Generated.MergedPixels.scaleTable = scaleTable ∧
    Generated.MergedPixels.supportedModes = [CMode.gray.name, CMode.rgb.name, CMode.cmyk.name] ∧
    (∀ c ∈ [CMode.gray, CMode.rgb, CMode.cmyk], (c.name, c.expected) ∈ Generated.Pixels.expectedChannels) ∧
    Generated.MergedPixels.guard = "header.depth not in scale or self.color_mode not in (ColorMode.GRAYSCALE, ColorMode.RGB, ColorMode.CMYK)" ∧
    Generated.MergedPixels.noneReturns = [Generated.MergedPixels.guard] ∧
    Generated.MergedPixels.planeBody =
      ["if header.depth == 32: { return values.astype('>f4').tobytes() }",
       "values = np.round(np.clip(values, 0.0, 1.0) * scale[header.depth])",
       "return values.astype('>u%d' % (header.depth // 8)).tobytes()"] ∧
    Generated.MergedPixels.compositeTargets = ["color", "_", "alpha"] ∧
    Generated.MergedPixels.nExpr = "EXPECTED_CHANNELS[self.color_mode]" ∧
    Generated.MergedPixels.transparencyExpr = "header.channels > n and has_transparency(self)" ∧
    Generated.MergedPixels.flattenGuard = "not transparency or self.color_mode == ColorMode.RGB" ∧
    Generated.MergedPixels.flattenStmt = "color = color * alpha + (1.0 - alpha)" ∧
    Generated.MergedPixels.constMinus = ["1.0 - alpha"] ∧
    Generated.MergedPixels.oldPlanes =
      "try: { planes = self._record.image_data.get_data(header) } except Exception: { planes = [plane(np.ones_like(alpha))] * header.channels }" ∧
    Generated.MergedPixels.colourLoop = "for index in range(n): { planes[index] = plane(color[:, :, index]) }" ∧
    Generated.MergedPixels.alphaStore =
      "index = get_transparency_index(self) % header.channels; planes[max(index, n)] = plane(alpha[:, :, 0])" ∧
    Generated.MergedPixels.returns = "planes" ∧
    Generated.MergedPixels.topLevel.length = 12 :=
  ⟨rfl, rfl, by decide, rfl, rfl, rfl, rfl, rfl, rfl, rfl, rfl, rfl, rfl, rfl, rfl, rfl, rfl⟩

/-- the call `_merged_planes` makes — `composite(self, force=True)` — and what `composite` does with the
arguments left out: backdrop colour 1.0 and alpha 0.0 (`backdropColor`, `backdropAlpha`), the document's
`viewbox` = `(0, 0, width, height)` as the viewport (`canvas`), `Layer.is_visible` as the filter, not isolated;
a document without layers returns its stored colour and shape, the shape also as alpha (`compositePsd`). -/
theorem composite_call_tied :
    Generated.MergedPixels.compositeCall = "composite(self, force=True)" ∧
    Generated.MergedPixels.compositeDefaults =
      [("color", "1.0"), ("alpha", "0.0"), ("viewport", "None"), ("layer_filter", "None"), ("force", "False"),
       ("as_layer", "False")] ∧
    Generated.MergedPixels.viewportDefault = "viewport = group.viewbox" ∧
    Generated.MergedPixels.viewbox = "(self.left, self.top, self.right, self.bottom)" ∧
    Generated.MergedPixels.boxParts =
      [("left", "0"), ("top", "0"), ("right", "self.width"), ("bottom", "self.height"),
       ("width", "self._record.header.width"), ("height", "self._record.header.height")] ∧
    Generated.MergedPixels.emptyDocument =
      "if isinstance(group, PSDImage) and len(group) == 0: { color, shape = (group.numpy('color'), group.numpy('shape')); if viewport != group.viewbox: { color = paste(viewport, group.bbox, color, 1.0); shape = paste(viewport, group.bbox, shape) }; return (color, shape, shape) }" ∧
    Generated.MergedPixels.filterDefault = "layer_filter or Layer.is_visible" ∧
    Generated.MergedPixels.isolated =
      "False; if not isinstance(group, PSDImage): { isolated = group.blend_mode != BlendMode.PASS_THROUGH }" ∧
    Generated.MergedPixels.compositorCall = "Compositor(viewport, color, alpha, isolated, layer_filter, force)" ∧
    Generated.MergedPixels.compositeLoop = "for layer in target_group: { compositor.apply(layer) }" ∧
    Generated.MergedPixels.compositeReturns = "compositor.finish()" :=
  ⟨rfl, rfl, rfl, rfl, rfl, rfl, rfl, rfl, rfl, rfl, rfl⟩

/-- `save()`: the regeneration is guarded by the structural-edit flag alone, stores what `_merged_planes`
returns under the header and sets `has_composite`; `save` never assigns the flag (`save_keeps_dirty`). -/
theorem save_tied :
    Generated.MergedPixels.saveGuard = "self._updated_layers" ∧
    Generated.MergedPixels.saveSteps =
      ["planes = self._merged_planes()",
       "if planes is not None: { self._record.image_data.set_data(planes, self._record.header); version_info = self.image_resources.get_data(Resource.VERSION_INFO); if version_info: { version_info.has_composite = True } }"] ∧
    Generated.MergedPixels.saveAssignsFlag = false := ⟨rfl, rfl, rfl⟩

end Ties

end PsdVerif.C17
