/-
C02 — any file the reader accepts is re-saved without loss or drift.

Model: the cursor-machine reader of `Model/Psd.lean` (`PSD.read`, with every lenient path of the code: `seek(end_pos)`
recovery, the section gates, the global-mask rewind, tagged blocks stopping on a bad signature / at `end_pos` / on
fewer than 8 bytes, duplicate keys collapsing, `fp.read(length - 2)` with a negative length, image data to EOF) and
the writer `PSD.enc`; payload classes are opaque bytes. Lemmas: `Lemmas/Lenient1…4.lean`.

Reading guide
* `…_encodable` : what a reader returns can be written — every field read from `w` bytes fits `w` bytes, every count is
  the length of the list read. The only way `PSD.write` can fail on a decoded value is a *derived* length that does
  not fit its length field (`PSD.LenFits`, a re-encoded section ≥ 4 GiB in a PSD): `dec_encodable`.
* `dec_wf_partial` : whatever `PSD.read` returns, once it can be written, is `PSD.WF` — the hypothesis of C01's
  round-trip theorem — except for ONE shape the reader accepts and the writer changes: a layer mask block of 35 bytes
  holding both feathers and no real fields (`MaskData.Stable`); `mask35_accepted_resave_unreadable` is that accepted
  byte string (replayed on the real code by the harness: the re-saved file raises IOError when read).
* `resave_stable_partial` : for every accepted `b`, `s = write(read(b))`: `read(s)` succeeds, consumes all of `s`, equals
  `normalise (read b)` — the object as the writer left it (`channel_info.length` refreshed in place) — and the second
  save reproduces `s` byte for byte. `second_save_identical` is that last half for any re-read value.
* `dec_never_returns_…` : the (F) clauses of C01's `WF` (values the *constructors* allow and the writer treats
  differently) cannot come out of the reader — after the reader repairs of this round (section gates on `end_pos`,
  empty `TaggedBlocks` instead of `None`, `LayerInfo()` for a body declaring no layers).
-/
import PsdVerif.Lemmas.Lenient4
import PsdVerif.Lemmas.LenientSamples
import PsdVerif.Props.C01
import PsdVerif.Generated.WriterTies
import PsdVerif.Model.LegacyName

namespace PsdVerif.C02
open PsdVerif PsdVerif.Codec PsdVerif.Psd

/-- exactly what `PSD.write` does to the value it writes: `LayerInfo._update_channel_length` -/
def normalise (v : PSD) : PSD := v.refresh

/-! ### whatever is read can be written (per reader, then the whole file) -/

theorem header_encodable {d : B} {p : Nat} {h : Header} {p' : Nat} (hd : Header.dec d p = .ok (h, p')) : h.Fits :=
  Header.fits_of_valid (Header.dec_ok hd)

theorem color_mode_data_encodable {d : B} {p : Nat} {v : B} {p' : Nat} (hd : colorModeDec d p = .ok (v, p')) :
    FitsU 4 v.length := colorModeDec_ok hd

theorem image_resource_encodable {d : B} {p : Nat} {r : Resource} {p' : Nat} (hd : Resource.dec d p = .ok (r, p')) :
    r.Fits := (Resource.dec_ok hd).2

theorem image_resources_encodable {d : B} {p : Nat} {rs : List Resource} {p' : Nat}
    (hd : resourcesDec d p = .ok (rs, p')) (hlen : FitsU 4 (resourcesBodyT rs).length) : resourcesFits rs :=
  (resourcesDec_wf hd hlen).2

theorem tagged_block_encodable {v pad : Nat} {d : B} {p : Nat} {t : TaggedBlock} {p' : Nat}
    (hd : TaggedBlock.dec v pad d p = .ok (some t, p')) : t.Fits v := (TaggedBlock.dec_ok hd).2.2

theorem tagged_blocks_encodable {v pad : Nat} {e : Option Nat} {d : B} {p : Nat} {ts : List TaggedBlock} {p' : Nat}
    (hd : taggedBlocksDec v pad e d p = .ok (ts, p')) : ∀ t ∈ ts, t.Fits v :=
  taggedBlocksWF_fits (taggedBlocksDec_ok hd)

/-- **Reader and writer agree on the width of a tagged block's length field.** The model has one function
`tbLenW version key` for both directions and ignores the signature, as `TaggedBlock._length_format(key, version)`
does. That the real `TaggedBlock.read` and the real `TaggedBlock.write` both use exactly this width is observed on the
live class on every run, per direction, for every accepted signature × every `Tag` value (and an unknown key) × both
versions (`Generated/WriterTies.lean`, harness/extract_c02.py): a reader and a writer that choose differently — by the
signature on one side only, say — break this theorem (and `resave_stable_partial` would be about another program). -/
theorem tb_width_tied :
    (∀ r ∈ Generated.WriterTies.tbWidths, r.2.2.2.1 = tbLenW r.1 r.2.2.1 ∧ r.2.2.2.2 = tbLenW r.1 r.2.2.1) ∧
    (∀ v ∈ [1, 2], ∀ s ∈ G.blockSignatures, ∀ k ∈ G.bigKeys,
      (Generated.WriterTies.tbWidths.any fun r => r.1 == v && r.2.1 == s && r.2.2.1 == k) = true) ∧
    (∀ v ∈ [1, 2], ∀ s ∈ G.blockSignatures,
      (Generated.WriterTies.tbWidths.any fun r => r.1 == v && r.2.1 == s && !(G.bigKeys.contains r.2.2.1)) = true) := by
  decide +kernel

/-- **The legacy-name fallback is what the model says.** `LayerRecord._legacy_name` observed on the live class for every
encoded length 0‥300, with and without a `luni` block, is `legacyName`: the name itself, except `?` when a `luni` block
is present and the name is longer than 255 bytes (the largest Pascal string). -/
theorem legacy_name_tied :
    (∀ r ∈ Generated.WriterTies.legacyName, r.2.2 = if legacyKeeps r.1 r.2.1 then 0 else 1) ∧
    (∀ b ∈ [false, true], ∀ n ∈ [0, 1, 31, 32, 254, 255, 256, 300],
      (Generated.WriterTies.legacyName.any fun r => r.1 == b && r.2.1 == n) = true) := by
  decide +kernel

/-- … and it never fires on a name the reader returned: `LayerRecord.encT` writing `r.name` itself is
`_write_extra` writing `_legacy_name(encoding)`, for every record that came out of `LayerRecord.dec`,
whether or not it carries a `luni` block. (The boundary is 255 exactly: `legacyName true` of 256 bytes is `?`.) -/
theorem legacy_name_identity_on_read {v : Nat} {d : B} {p : Nat} {r : LayerRecord} {p' : Nat}
    (hd : LayerRecord.dec v d p = .ok (r, p')) (hasLuni : Bool) : legacyName hasLuni r.name = r.name := by
  have h := (LayerRecord.dec_ok hd).name
  have : legacyKeeps hasLuni r.name.length = true := by
    cases hasLuni <;> simp [legacyKeeps]; omega
  simp [legacyName, this]

example : legacyName true (List.replicate 255 0x61) = List.replicate 255 0x61 := by decide +kernel
example : legacyName true (List.replicate 256 0x61) = [0x3F] := by decide +kernel
example : legacyName false (List.replicate 256 0x61) = List.replicate 256 0x61 := by decide +kernel

/-- the mask block needs no hypothesis at all: its re-encoded body is at most 60 bytes -/
theorem mask_data_encodable {d : B} {p : Nat} {m : Option MaskData} {p' : Nat} (hd : maskDec d p = .ok (m, p')) :
    maskFits m := (maskDec_fits hd).1

theorem blending_ranges_encodable {d : B} {p : Nat} {r : BlendingRanges} {p' : Nat}
    (hd : BlendingRanges.dec d p = .ok (r, p')) (hlen : FitsU 4 r.bodyT.length) : r.Fits :=
  (BlendingRanges.dec_wf hd hlen).1

theorem channel_info_encodable {v : Nat} {d : B} {p : Nat} {c : ChannelInfo} {p' : Nat}
    (hd : ChannelInfo.dec v d p = .ok (c, p')) : c.Fits v := (ChannelInfo.dec_ok hd).2

theorem layer_record_encodable {v : Nat} {d : B} {p : Nat} {r : LayerRecord} {p' : Nat}
    (hd : LayerRecord.dec v d p = .ok (r, p')) (hlen : r.LenFits v) : r.Fits v :=
  (LayerRecord.dec_ok hd).fits hlen

theorem channel_data_encodable {n : Nat} {d : B} {p : Nat} {c : ChannelData} {p' : Nat}
    (hd : ChannelData.dec n d p = .ok (c, p')) : c.Fits := (ChannelData.dec_ok hd).2

theorem layer_info_encodable {v pad : Nat} {d : B} {p : Nat} {li : LayerInfo} {p' : Nat}
    (hd : LayerInfo.dec v d p = .ok (li, p')) (hlen : li.LenFits v pad) : li.Fits v pad :=
  (LayerInfo.dec_ok hd).fits hlen

theorem global_layer_mask_info_encodable {d : B} {p : Nat} {g : GlobalLayerMaskInfo} {p' : Nat}
    (hd : GlobalLayerMaskInfo.dec d p = .ok (g, p')) : g.Fits := (GlobalLayerMaskInfo.dec_ok hd).2.1

theorem layer_and_mask_encodable {v pad : Nat} {d : B} {p : Nat} {x : LayerAndMask} {p' : Nat}
    (hd : LayerAndMask.dec v d p = .ok (x, p')) (hlen : x.LenFits v pad) : x.Fits v pad :=
  (LayerAndMask.dec_ok hd).fits hlen

theorem image_data_encodable {d : B} {p : Nat} {i : ImageData} {p' : Nat} (hd : ImageData.dec d p = .ok (i, p')) :
    i.Fits := (ImageData.dec_ok hd).2.1

/-- Whatever `PSD.read` accepts, `PSD.write` writes — unless a length it derives from the data it holds does not fit
the length field it goes into (`v.LenFits`: the re-encoded image-resources body, a record's blending-ranges / extra
block, a channel length, the layer info, the section). No field read from the file can make the writer raise, and
the `IndexError` of `("I", "Q")[version - 1]` is impossible. -/
theorem dec_encodable (pad : Nat) (b : B) (v : PSD) (p : Nat) (h : PSD.read b 0 = .ok (v, p)) (hlen : v.LenFits pad) :
    ∃ bs, PSD.enc pad v = .ok bs :=
  ⟨_, (PSD.read_ok h).1.enc_ok hlen⟩

/-- `LenFits` is not only sufficient but exactly what is missing: a decoded value is writable iff it holds -/
theorem dec_encodable_iff (pad : Nat) (b : B) (v : PSD) (p : Nat) (h : PSD.read b 0 = .ok (v, p)) :
    (∃ bs, PSD.enc pad v = .ok bs) ↔ v.LenFits pad := by
  constructor
  · rintro ⟨bs, hbs⟩
    obtain ⟨f1, f2⟩ := PSD.fits_of_enc hbs
    exact PSD.lenFits_of_fits f1 f2
  · exact dec_encodable pad b v p h

/-! ### whatever is read and written is well formed -/

theorem dec_wf_partial (pad : Nat) (b : B) (v : PSD) (p : Nat) (s : B) (h : PSD.read b 0 = .ok (v, p)) (hs : PSD.enc pad v = .ok s)
    (hst : v.Stable) : v.WF pad := by
  obtain ⟨f1, f2⟩ := PSD.fits_of_enc hs
  exact (PSD.read_ok h).1.wf f1 f2 hst

/-- The property, for every accepted byte string whose layer masks are not the one unstable shape:
saving what was read gives `s`; `s` is accepted, read to the end, and gives the structure that was saved (as the
writer left it); saving that again reproduces `s` byte for byte. -/
theorem resave_stable_partial (pad : Nat) (b : B) (v : PSD) (p : Nat) (s : B) (h : PSD.read b 0 = .ok (v, p))
    (hs : PSD.enc pad v = .ok s) (hst : v.Stable) :
    PSD.read s 0 = .ok (normalise v, s.length) ∧ PSD.enc pad (normalise v) = .ok s := by
  have hwf := dec_wf_partial pad b v p s h hs hst
  exact ⟨C01.psd_roundtrip pad v hwf s hs, by rw [normalise, PSD.enc_refresh, hs]⟩

/-- the second save reproduces the first byte for byte, whatever the re-read returned -/
theorem second_save_identical (pad : Nat) (b : B) (v : PSD) (p : Nat) (s : B) (h : PSD.read b 0 = .ok (v, p))
    (hs : PSD.enc pad v = .ok s) (hst : v.Stable) (v' : PSD) (n : Nat) (hr : PSD.read s 0 = .ok (v', n)) :
    PSD.enc pad v' = .ok s :=
  C01.psd_rewrite_identical pad v (dec_wf_partial pad b v p s h hs hst) s hs v' n hr

/-- a file that was read and saved once is a fixed point: reading the saved bytes gives a value that is already
normalised, stable, and is re-read as itself -/
theorem resaved_is_fixed_point (pad : Nat) (b : B) (v : PSD) (p : Nat) (s : B) (h : PSD.read b 0 = .ok (v, p))
    (hs : PSD.enc pad v = .ok s) (hst : v.Stable) :
    normalise (normalise v) = normalise v ∧
    ∀ s', PSD.enc pad (normalise v) = .ok s' → s' = s := by
  refine ⟨?_, ?_⟩
  · unfold normalise
    rw [PSD.refresh_eq, PSD.refresh_eq]
    simp only [LayerAndMask.refresh]
    cases hli : v.layerAndMask.layerInfo with
    | none => simp
    | some li => simp [LayerInfo.refresh_idem]
  · intro s' hs'
    rw [normalise, PSD.enc_refresh, hs] at hs'
    cases hs'; rfl

/-! ### the (F) clauses of C01's `WF`: values the reader cannot return -/

theorem dec_never_returns_count0_with_lists (b : B) (v : PSD) (p : Nat) (h : PSD.read b 0 = .ok (v, p))
    (li : LayerInfo) (hli : v.layerAndMask.layerInfo = some li) (h0 : li.layerCount = 0) :
    li.records = none ∧ li.channels = none := by
  have hl := (PSD.read_ok h).1.lam
  unfold LayerAndMask.Read at hl
  rw [hli] at hl
  have := hl.1.2
  rwa [if_pos h0] at this

theorem dec_never_returns_tagged_blocks_none (b : B) (v : PSD) (p : Nat) (h : PSD.read b 0 = .ok (v, p))
    (li : LayerInfo) (hli : v.layerAndMask.layerInfo = some li) : v.layerAndMask.taggedBlocks ≠ none := by
  have hl := (PSD.read_ok h).1.lam
  unfold LayerAndMask.Read at hl
  rw [hli] at hl
  obtain ⟨ts, e, _⟩ := hl.2.2.1
  rw [e]; intro c; cases c

theorem dec_never_returns_empty_dict_without_layer_info (b : B) (v : PSD) (p : Nat) (h : PSD.read b 0 = .ok (v, p))
    (hli : v.layerAndMask.layerInfo = none) :
    v.layerAndMask.globalMask = none ∧ v.layerAndMask.taggedBlocks = none := by
  have hl := (PSD.read_ok h).1.lam
  unfold LayerAndMask.Read at hl
  rwa [hli] at hl

theorem dec_never_returns_blocks_without_global_mask (b : B) (v : PSD) (p : Nat) (h : PSD.read b 0 = .ok (v, p))
    (li : LayerInfo) (hli : v.layerAndMask.layerInfo = some li) (hg : v.layerAndMask.globalMask = none) :
    v.layerAndMask.taggedBlocks = some [] := by
  have hl := (PSD.read_ok h).1.lam
  unfold LayerAndMask.Read at hl
  rw [hli] at hl
  exact hl.2.2.2 hg

theorem dec_never_returns_global_mask_values_without_overlay (b : B) (v : PSD) (p : Nat)
    (h : PSD.read b 0 = .ok (v, p)) (g : GlobalLayerMaskInfo) (hg : v.layerAndMask.globalMask = some g)
    (ho : g.overlayColor = none) : g.opacity = G.glmDefaultOpacity ∧ g.kind = G.glmDefaultKind := by
  have hl := (PSD.read_ok h).1.lam
  unfold LayerAndMask.Read at hl
  cases hli : v.layerAndMask.layerInfo with
  | none => rw [hli] at hl; rw [hl.1] at hg; cases hg
  | some li =>
    rw [hli] at hl
    have := hl.2.1
    rw [hg] at this
    exact this.2.2 ho

theorem dec_never_returns_half_blending_ranges (b : B) (v : PSD) (p : Nat) (h : PSD.read b 0 = .ok (v, p))
    (li : LayerInfo) (hli : v.layerAndMask.layerInfo = some li) (rs : List LayerRecord) (hrs : li.records = some rs)
    (r : LayerRecord) (hr : r ∈ rs) :
    (r.blendingRanges.composite = none ∧ r.blendingRanges.channels = none) ∨
    (r.blendingRanges.composite.isSome ∧ r.blendingRanges.channels.isSome) := by
  have hl := (PSD.read_ok h).1.lam
  unfold LayerAndMask.Read at hl
  rw [hli] at hl
  have hread := hl.1
  by_cases h0 : li.layerCount = 0
  · have := hread.2
    rw [if_pos h0] at this
    rw [this.1] at hrs; cases hrs
  · obtain ⟨r0, rs0, c0, css0, e, _, _, _, hrecs, _⟩ := hread.shape h0
    rw [e] at hrs
    cases hrs
    exact (hrecs r hr).ranges.1

/-! ### the one accepted shape that is not stable, on a concrete accepted byte string -/

/-- the 162 bytes of `Samples.b35` (harness/corpus/C02.json replays them on the real code) -/
theorem b35_bytes : Samples.b35 =
    [0x38, 0x42, 0x50, 0x53, 0x00, 0x01, 0x00, 0x00, 0x00, 0x00, 0x00, 0x00, 0x00, 0x03, 0x00, 0x00, 0x00, 0x01, 0x00,
     0x00, 0x00, 0x01, 0x00, 0x08, 0x00, 0x03, 0x00, 0x00, 0x00, 0x00, 0x00, 0x00, 0x00, 0x00, 0x00, 0x00, 0x00, 0x66,
     0x00, 0x00, 0x00, 0x5e, 0x00, 0x01, 0x00, 0x00, 0x00, 0x00, 0x00, 0x00, 0x00, 0x00, 0x00, 0x00, 0x00, 0x00, 0x00,
     0x00, 0x00, 0x00, 0x00, 0x01, 0x00, 0x00, 0x00, 0x00, 0x00, 0x05, 0x38, 0x42, 0x49, 0x4d, 0x6e, 0x6f, 0x72, 0x6d,
     0xff, 0x00, 0x08, 0x00, 0x00, 0x00, 0x00, 0x2f, 0x00, 0x00, 0x00, 0x23, 0x00, 0x00, 0x00, 0x00, 0x00, 0x00, 0x00,
     0x00, 0x00, 0x00, 0x00, 0x00, 0x00, 0x00, 0x00, 0x00, 0x00, 0x10, 0x0a, 0x00, 0x00, 0x00, 0x00, 0x00, 0x00, 0x00,
     0x01, 0x00, 0x00, 0x00, 0x00, 0x00, 0x00, 0x00, 0x02, 0x00, 0x00, 0x00, 0x00, 0x00, 0x00, 0x00, 0x00, 0x00, 0x00,
     0x01, 0x02, 0x03, 0x00, 0x00, 0x00, 0x00, 0x00, 0x00, 0x00, 0x00, 0x00, 0x00, 0x00, 0x00, 0x00, 0x00, 0x00, 0x00,
     0x00, 0x00, 0x00, 0x00, 0x00, 0x00, 0x00, 0x00, 0x00, 0x00] := by decide +kernel

/-- The full-strength statement is FALSE for the code: `b35` is accepted, what was read is written without error,
and the written file is rejected (`IOError`) — a readable file became unreadable. The mask block of its layer is 35
bytes long and holds both feathers; the writer pads it to 36 bytes, which the reader takes for real-mask fields. -/
theorem mask35_accepted_resave_unreadable :
    PSD.read Samples.b35 0 = .ok (Samples.v35, Samples.b35.length) ∧ ¬ Samples.v35.Stable ∧
    ∃ s, PSD.enc 4 Samples.v35 = .ok s ∧ PSD.read s 0 = .error .ioError :=
  ⟨by decide +kernel, by decide +kernel, Samples.v35.encT 4, by decide +kernel, by decide +kernel⟩

theorem resave_stable_fails_without_side_condition :
    ¬ ∀ (b : B) (v : PSD) (p : Nat) (s : B), PSD.read b 0 = .ok (v, p) → PSD.enc 4 v = .ok s →
        PSD.read s 0 = .ok (normalise v, s.length) := by
  intro hall
  obtain ⟨h1, _, s, h2, h3⟩ := mask35_accepted_resave_unreadable
  have := hall _ _ _ _ h1 h2
  rw [h3] at this
  cases this

/-- the side condition is exactly about that shape: a mask block without real fields is unstable iff it holds both
feathers and nothing else (18 fixed bytes + parameter byte + 8 + 8 = 35 > 32) -/
theorem mask_unstable_iff (m : MaskData) (hwf : m.flags.parametersApplied = true ↔ m.parameters.isSome) :
    ¬ m.Stable ↔ m.real = none ∧ ∃ q, m.parameters = some q ∧ 14 < q.encT.length := by
  unfold MaskData.Stable
  have hfixed : m.fixedT.length = 18 := by simp [MaskData.fixedT, length_i32T, length_beBytes]
  constructor
  · intro h
    have hr : m.real = none := by
      cases hreal : m.real with
      | none => rfl
      | some r => exact absurd (fun e => by rw [hreal] at e; cases e) h
    refine ⟨hr, ?_⟩
    have hlen : 32 < m.unpaddedT.length := by
      have : ¬ m.unpaddedT.length ≤ 32 := fun hle => h (fun _ => hle)
      omega
    cases hp : m.parameters with
    | none =>
      exfalso
      simp only [MaskData.unpaddedT, MaskData.realT, MaskData.paramsT, maskParamsT, hr, hp, List.length_append,
        hfixed] at hlen
      split at hlen
      · rename_i _ _ _ _ hc; cases hc
      · simp at hlen
    | some q =>
      refine ⟨q, rfl, ?_⟩
      have ha : m.flags.parametersApplied = true := hwf.2 (by simp [hp])
      simp only [MaskData.unpaddedT, MaskData.realT, MaskData.paramsT, maskParamsT, hr, hp, ha, List.length_append,
        hfixed, List.length_nil] at hlen
      omega
  · rintro ⟨hr, q, hp, hq⟩ h
    have ha : m.flags.parametersApplied = true := hwf.2 (by simp [hp])
    have := h hr
    simp only [MaskData.unpaddedT, MaskData.realT, MaskData.paramsT, maskParamsT, hr, hp, ha, List.length_append,
      hfixed, List.length_nil] at this
    omega

/-! ### non-vacuity -/

/-- A 3-layer PSD whose layer-info length field was enlarged by 2 (so that the declared end of the layer info lies 2
bytes inside the global layer mask info) is accepted: the reader seeks to the declared end, finds 2 bytes left in the
section, and returns the three layers without a global layer mask info. It satisfies the conclusion: the re-saved
file (4 bytes shorter than the input) is read back to the same structure and re-saved identically. -/
theorem enlarged_layer_info_accepted :
    PSD.read Samples.enlargedBytes 0 = .ok (Samples.enlargedRead, Samples.enlargedBytes.length) ∧
    Samples.enlargedBytes ≠ Samples.threeLayerDoc.encT 4 ∧ Samples.enlargedRead.Stable ∧
    PSD.enc 4 Samples.enlargedRead = .ok (Samples.enlargedRead.encT 4) :=
  ⟨by decide +kernel, by decide +kernel, by decide +kernel, by decide +kernel⟩

example : ∃ s, PSD.enc 4 Samples.enlargedRead = .ok s ∧ s.length + 4 = Samples.enlargedBytes.length ∧
    PSD.read s 0 = .ok (normalise Samples.enlargedRead, s.length) ∧ PSD.enc 4 (normalise Samples.enlargedRead) = .ok s :=
  have h := enlarged_layer_info_accepted
  ⟨_, h.2.2.2, by decide +kernel,
    resave_stable_partial 4 _ _ _ _ h.1 h.2.2.2 h.2.2.1⟩

example : ∃ bs, PSD.enc 4 Samples.enlargedRead = .ok bs :=
  dec_encodable 4 _ _ _ enlarged_layer_info_accepted.1 (by decide +kernel)

end PsdVerif.C02
