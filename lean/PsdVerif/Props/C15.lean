/-
C15 (part 1) — clipping relationships are resolved correctly: the single pass of
`_compute_clipping_layers` equals the per-layer specification, for every children list, every
flag assignment and every compatibility mode. (The "kept current after edits" half is stated over
the edit model of C09 and lives with it.)
Property theorems only; helper lemmas live in `Lemmas/Clip.lean`.
-/
import PsdVerif.Model.Clip
import PsdVerif.Lemmas.Clip
import PsdVerif.Generated.ClipModes

namespace PsdVerif.C15
open PsdVerif PsdVerif.Clip PsdVerif.Clip.Spec

/-- What the model assumes about `rec_helper` is what the source says now: the members of
    `CompatibilityMode`, the two modes and the blend mode it compares, the direction of the loop,
    the first test, the recursion, the defaults of `_clear_clipping_layers`. -/
theorem pass_tables_tied :
    Generated.ClipModes.members =
      [("PHOTOSHOP", 1), ("PAINT_TOOL_SAI", 2), ("CLIP_STUDIO_PAINT", 3), ("GIMP", 4), ("KRITA", 5), ("DEFAULT", 1)] ∧
    Generated.ClipModes.modesTested = ["PAINT_TOOL_SAI", "CLIP_STUDIO_PAINT"] ∧
    Generated.ClipModes.blendTested = ["PASS_THROUGH"] ∧
    Generated.ClipModes.firstTest = "sublayer.clipping_layer" ∧
    Generated.ClipModes.iteratesReversed = true ∧
    Generated.ClipModes.recurses = true ∧
    Generated.ClipModes.clearAssignments = ["layer._clip_layers = []", "layer._has_clip_target = True"] := by
  decide

/-- Exactly the SAI and Clip Studio modes restrict the choice of a base. -/
theorem restrictive_iff (m : CompatMode) :
    m.restrictive = true ↔ m = .paintToolSai ∨ m = .clipStudioPaint := by
  cases m <;> simp [CompatMode.restrictive]

/-- The single top-to-bottom pass with its stack computes, for every children list and every
    assignment of flags, exactly the per-layer specification. -/
theorem computeClip_eq_spec (m : CompatMode) (cs : List ChildFlags) : computeClip m cs = Spec.clip m cs := by
  have inv := inv_loop m cs cs.length (Nat.le_refl _) _ (inv_init m cs)
  rw [List.take_length] at inv
  apply List.ext_getElem?
  intro i
  rcases Nat.lt_or_ge i cs.length with hi | hi
  · have hc : cs[i]? = some cs[i] := List.getElem?_eq_getElem hi
    obtain ⟨e1, e2⟩ := final_spec m cs _ inv i cs[i] hc
    have hr : (clip m cs)[i]? = some (infoAt m cs cs[i] i) := (getElem?_clip m cs i _).mpr ⟨cs[i], hc, rfl⟩
    rw [hr]
    simp only [computeClip, List.getElem?_map, List.getElem?_range hi, Option.map_some, e1, e2]
  · rw [List.getElem?_eq_none (by simp [computeClip]; exact hi),
        List.getElem?_eq_none (by simp [clip]; exact hi)]

/-- The specification, read declaratively (and therefore the pass, by `computeClip_eq_spec`):
    a layer's clip layers are the positions directly above it that are reachable through clipping
    layers only — when the layer is an eligible base; otherwise it has none. A clipping layer has a
    target exactly when an eligible base lies beneath it with only clipping layers in between. -/
theorem clip_meaning (m : CompatMode) (cs : List ChildFlags) (i : Nat) (c : ChildFlags) (ci : ClipInfo)
    (hc : cs[i]? = some c) (ho : (computeClip m cs)[i]? = some ci) :
    (∀ j, j < cs.length → (j ∈ ci.clipLayers ↔ eligible m c = true ∧ i < j ∧ ∀ l, i < l → l ≤ j → ClipAt cs l)) ∧
    (ci.hasTarget = true ↔ (c.clipping = true → ∃ b, BaseFor m cs b i)) := by
  rw [computeClip_eq_spec] at ho
  obtain ⟨c', hc', rfl⟩ := (getElem?_clip m cs i ci).mp ho
  rw [hc] at hc'; cases hc'
  have hi : i ≤ cs.length := by
    rcases Nat.lt_or_ge i cs.length with h | h
    · omega
    · simp [List.getElem?_eq_none h] at hc
  constructor
  · intro j hj
    simp only [infoAt]
    by_cases he : eligible m c = true
    · simp only [he, if_true, true_and]; exact mem_runAbove cs i j hj
    · simp [he]
  · simp only [infoAt]
    by_cases hcl : c.clipping = true
    · simp only [hcl, if_true, true_implies]; exact targetIn_iff m cs i hi
    · simp [hcl]

/-- Clip runs are consecutive (positions `i+1 … i+r`, listed in stacking order), consist of
    clipping layers only, are maximal, belong to eligible bases only, and runs of different layers
    are disjoint and stacked in the order of their bases. -/
theorem runs_partition (m : CompatMode) (cs : List ChildFlags) :
    (computeClip m cs).length = cs.length ∧
    (∀ i c ci, cs[i]? = some c → (computeClip m cs)[i]? = some ci →
      ∃ r, ci.clipLayers = List.range' (i + 1) r ∧
        (∀ j, i < j → j ≤ i + r → ClipAt cs j) ∧
        (∀ d, cs[i + r + 1]? = some d → eligible m c = true → d.clipping = false) ∧
        (0 < r → eligible m c = true)) ∧
    (∀ (i i' : Nat) (ci ci' : ClipInfo), i < i' → (computeClip m cs)[i]? = some ci → (computeClip m cs)[i']? = some ci' →
      ∀ j ∈ ci.clipLayers, ∀ j' ∈ ci'.clipLayers, j < j') := by
  rw [computeClip_eq_spec]
  refine ⟨by simp [clip], ?_, ?_⟩
  · intro i c ci hc ho
    obtain ⟨c', hc', rfl⟩ := (getElem?_clip m cs i ci).mp ho
    rw [hc] at hc'; cases hc'
    by_cases he : eligible m c = true
    · refine ⟨R cs (i + 1), by simp [infoAt, he, runAbove, R], ?_, ?_, fun _ => he⟩
      · intro j h1 h2; exact R_mem_clipping cs (i + 1) j (by omega) (by omega)
      · intro d hd _
        exact R_stop cs (i + 1) d (by rw [show i + 1 + R cs (i + 1) = i + R cs (i + 1) + 1 by omega]; exact hd)
    · refine ⟨0, by simp [infoAt, he], ?_, ?_, by omega⟩
      · intro j h1 h2; omega
      · intro d _ h; exact absurd h he
  · intro i i' ci ci' hlt ho ho' j hj j' hj'
    obtain ⟨c, hc, rfl⟩ := (getElem?_clip m cs i ci).mp ho
    obtain ⟨c', hc', rfl⟩ := (getElem?_clip m cs i' ci').mp ho'
    simp only [infoAt] at hj hj'
    by_cases he : eligible m c = true
    · by_cases he' : eligible m c' = true
      · simp only [he, he', if_true, runAbove, List.mem_range'_1] at hj hj'
        -- the base i' is not a clipping layer, so the run of i stops below it
        rcases Nat.lt_or_ge i' (i + 1 + R cs (i + 1)) with h | h
        · obtain ⟨d, hd, hdc⟩ := R_mem_clipping cs (i + 1) i' (by omega) h
          rw [hc'] at hd; cases hd
          simp [eligible, hdc] at he'
        · change _ ∧ j < i + 1 + R cs (i + 1) at hj
          omega
      · simp [he'] at hj'
    · simp [he] at hj

/-- A clipping layer with no eligible base beneath it in its group has no target and is in
    nobody's clip run; a clipping layer with a target is in the run of exactly that base. -/
theorem no_base_no_target (m : CompatMode) (cs : List ChildFlags) (j : Nat) (d : ChildFlags) (cj : ClipInfo)
    (hd : cs[j]? = some d) (hcl : d.clipping = true) (ho : (computeClip m cs)[j]? = some cj) :
    (cj.hasTarget = false ↔ ¬ ∃ b, BaseFor m cs b j) ∧
    (cj.clipLayers = []) ∧
    (∀ i ci, (computeClip m cs)[i]? = some ci → (j ∈ ci.clipLayers ↔ BaseFor m cs i j)) := by
  have hj : j < cs.length := by
    rcases Nat.lt_or_ge j cs.length with h | h
    · exact h
    · simp [List.getElem?_eq_none h] at hd
  obtain ⟨_, h2⟩ := clip_meaning m cs j d cj hd ho
  refine ⟨?_, ?_, ?_⟩
  · rw [← Bool.not_eq_true, h2]; simp [hcl]
  · rw [computeClip_eq_spec] at ho
    obtain ⟨c', hc', rfl⟩ := (getElem?_clip m cs j cj).mp ho
    rw [hd] at hc'; cases hc'
    simp [infoAt, eligible, hcl]
  · intro i ci hoi
    have hoi' := hoi
    rw [computeClip_eq_spec] at hoi'
    obtain ⟨c, hc, _⟩ := (getElem?_clip m cs i ci).mp hoi'
    obtain ⟨h1, _⟩ := clip_meaning m cs i c ci hc hoi
    rw [h1 j hj]
    constructor
    · rintro ⟨he, hlt, hall⟩
      exact ⟨hlt, ⟨c, hc, he⟩, fun l hl1 hl2 => hall l hl1 (by omega)⟩
    · rintro ⟨hlt, ⟨c', hc', he⟩, hall⟩
      rw [hc] at hc'; cases hc'
      refine ⟨he, hlt, fun l hl1 hl2 => ?_⟩
      rcases Nat.lt_or_ge l j with h | h
      · exact hall l hl1 h
      · have : l = j := by omega
        subst this; exact ⟨d, hd, hcl⟩

/-- The base of a clipping layer is unique. -/
theorem base_unique (m : CompatMode) (cs : List ChildFlags) (b b' j : Nat)
    (h : BaseFor m cs b j) (h' : BaseFor m cs b' j) : b = b' := by
  obtain ⟨h1, ⟨c, hc, he⟩, h3⟩ := h
  obtain ⟨h1', ⟨c', hc', he'⟩, h3'⟩ := h'
  rcases Nat.lt_trichotomy b b' with hlt | heq | hgt
  · obtain ⟨d, hd, hdc⟩ := h3 b' hlt h1'
    rw [hc'] at hd; cases hd
    simp [eligible, hdc] at he'
  · exact heq
  · obtain ⟨d, hd, hdc⟩ := h3' b hgt h1
    rw [hc] at hd; cases hd
    simp [eligible, hdc] at he

/-- In the SAI / Clip Studio modes a pass-through layer is never given clip layers, in the other
    modes the blend mode plays no role. -/
theorem passThrough_rule (m : CompatMode) (cs : List ChildFlags) (i : Nat) (c : ChildFlags) (ci : ClipInfo)
    (hc : cs[i]? = some c) (ho : (computeClip m cs)[i]? = some ci) :
    (m.restrictive = true → c.passThrough = true → ci.clipLayers = []) ∧
    (m.restrictive = false → computeClip m cs = computeClip .photoshop cs) := by
  constructor
  · intro hm hp
    rw [computeClip_eq_spec] at ho
    obtain ⟨c', hc', rfl⟩ := (getElem?_clip m cs i ci).mp ho
    rw [hc] at hc'; cases hc'
    simp [infoAt, eligible, hm, hp]
  · intro hm
    rw [computeClip_eq_spec, computeClip_eq_spec]
    have he : ∀ c, eligible m c = eligible .photoshop c := by
      intro c; simp [eligible, hm, show CompatMode.photoshop.restrictive = false from rfl]
    have ht : ∀ l, targetIn m l = targetIn .photoshop l := by
      intro l; induction l with
      | nil => rfl
      | cons c rest ih => simp [targetIn, ih, he]
    simp [clip, infoAt, he, ht]

/-- The property text says "pass-through *group*"; the code tests the blend mode of any child.
    The two readings coincide on every children list in which only groups are pass-through
    (the only blend-mode assignment Photoshop writes) … -/
theorem groupOnly_reading_agrees (m : CompatMode) (cs : List ChildFlags)
    (h : ∀ c ∈ cs, c.passThrough = true → c.isGroup = true) :
    ∀ c ∈ cs, eligibleGroupOnly m c = eligible m c := by
  intro c hc
  have := h c hc
  cases hp : c.passThrough <;> cases hg : c.isGroup <;> simp_all [eligibleGroupOnly, eligible]

/-- … and differ exactly on a non-group child whose blend mode was set to pass-through. -/
theorem groupOnly_reading_differs :
    eligibleGroupOnly .paintToolSai ⟨false, false, true⟩ = true ∧ eligible .paintToolSai ⟨false, false, true⟩ = false := by
  decide

/-! ### Non-vacuity -/

-- base, two clip layers, base, clip layer (Photoshop): two runs
example : computeClip .photoshop [⟨false, false, false⟩, ⟨true, false, false⟩, ⟨true, false, false⟩,
    ⟨false, true, false⟩, ⟨true, false, false⟩] =
    [⟨[1, 2], true⟩, ⟨[], true⟩, ⟨[], true⟩, ⟨[4], true⟩, ⟨[], true⟩] := by decide
-- a clip run at the bottom of the group has no target
example : computeClip .photoshop [⟨true, false, false⟩, ⟨true, false, false⟩, ⟨false, false, false⟩] =
    [⟨[], false⟩, ⟨[], false⟩, ⟨[], true⟩] := by decide
-- a pass-through group is a base in Photoshop mode, not in SAI mode
example : computeClip .photoshop [⟨false, true, true⟩, ⟨true, false, false⟩] = [⟨[1], true⟩, ⟨[], true⟩] := by decide
example : computeClip .paintToolSai [⟨false, true, true⟩, ⟨true, false, false⟩] = [⟨[], true⟩, ⟨[], false⟩] := by decide
example : computeClip .clipStudioPaint [⟨false, false, false⟩, ⟨false, true, true⟩, ⟨true, false, false⟩] =
    [⟨[], true⟩, ⟨[], true⟩, ⟨[], false⟩] := by decide
example : BaseFor .photoshop [⟨false, false, false⟩, ⟨true, false, false⟩, ⟨true, false, false⟩] 0 2 :=
  ⟨by omega, ⟨_, rfl, rfl⟩, fun l h1 h2 => by
    have : l = 1 := by omega
    subst this; exact ⟨_, rfl, rfl⟩⟩
example : ∀ c ∈ [(⟨false, true, true⟩ : ChildFlags), ⟨true, false, false⟩], c.passThrough = true → c.isGroup = true := by
  decide

end PsdVerif.C15
