/-
C15 — clipping relationships are resolved correctly (part 1): the single pass of
`_compute_clipping_layers` equals the per-layer specification, for every children list, every
flag assignment and every compatibility mode; and kept current (part 2): the relation STORED on the
layer objects equals that specification of the current flags, order, membership and mode after
every history of public mutators, given what the regenerated table `Generated/ClipCurrent.lean`
says about the source (every raw mutation is followed by a recomputation on the same document,
the clear visits every layer), which holds of the current tree by `decide`.
Property theorems only; helper lemmas live in `Lemmas/Clip.lean`, `Lemmas/ClipState.lean`.
-/
import PsdVerif.Model.Clip
import PsdVerif.Model.ClipState
import PsdVerif.Lemmas.Clip
import PsdVerif.Lemmas.ClipState
import PsdVerif.Generated.ClipModes
import PsdVerif.Generated.ClipCurrent
import PsdVerif.Model.ClipCompositor
import PsdVerif.Lemmas.ClipCompositor
import PsdVerif.Generated.ClipCompositor

namespace PsdVerif.C15
open PsdVerif PsdVerif.Clip PsdVerif.Clip.Spec

/-- What the model assumes about `rec_helper` is what the source says now: the members of
    `CompatibilityMode`, the two modes and the blend mode it compares, the direction of the loop,
    the first test, the recursion, the defaults of `_clear_clipping_layers`. -/
theorem pass_tables_tied :
    Generated.ClipModes.members =
      [("PHOTOSHOP", 1), ("PAINT_TOOL_SAI", 2), ("CLIP_STUDIO_PAINT", 3), ("GIMP", 4), ("KRITA", 5), ("DEFAULT", 1)] ∧
    Generated.ClipModes.modesTested = ["PAINT_TOOL_SAI", "CLIP_STUDIO_PAINT"] ∧
    Generated.ClipModes.blendTested = ["PASS_THROUGH"] ∧
    Generated.ClipModes.firstTest = "sublayer.clipping_layer" ∧
    Generated.ClipModes.iteratesReversed = true ∧
    Generated.ClipModes.recurses = true ∧
    Generated.ClipModes.clearAssignments = ["layer._clip_layers = []", "layer._has_clip_target = True"] := by
  decide

/-- Exactly the SAI and Clip Studio modes restrict the choice of a base. -/
theorem restrictive_iff (m : CompatMode) :
    m.restrictive = true ↔ m = .paintToolSai ∨ m = .clipStudioPaint := by
  cases m <;> simp [CompatMode.restrictive]

/-- The single top-to-bottom pass with its stack computes, for every children list and every
    assignment of flags, exactly the per-layer specification. -/
theorem computeClip_eq_spec (m : CompatMode) (cs : List ChildFlags) : computeClip m cs = Spec.clip m cs := by
  have inv := inv_loop m cs cs.length (Nat.le_refl _) _ (inv_init m cs)
  rw [List.take_length] at inv
  apply List.ext_getElem?
  intro i
  rcases Nat.lt_or_ge i cs.length with hi | hi
  · have hc : cs[i]? = some cs[i] := List.getElem?_eq_getElem hi
    obtain ⟨e1, e2⟩ := final_spec m cs _ inv i cs[i] hc
    have hr : (clip m cs)[i]? = some (infoAt m cs cs[i] i) := (getElem?_clip m cs i _).mpr ⟨cs[i], hc, rfl⟩
    rw [hr]
    simp only [computeClip, List.getElem?_map, List.getElem?_range hi, Option.map_some, e1, e2]
  · rw [List.getElem?_eq_none (by simp [computeClip]; exact hi),
        List.getElem?_eq_none (by simp [clip]; exact hi)]

/-- The specification, read declaratively (and therefore the pass, by `computeClip_eq_spec`):
    a layer's clip layers are the positions directly above it that are reachable through clipping
    layers only — when the layer is an eligible base; otherwise it has none. A clipping layer has a
    target exactly when an eligible base lies beneath it with only clipping layers in between. -/
theorem clip_meaning (m : CompatMode) (cs : List ChildFlags) (i : Nat) (c : ChildFlags) (ci : ClipInfo)
    (hc : cs[i]? = some c) (ho : (computeClip m cs)[i]? = some ci) :
    (∀ j, j < cs.length → (j ∈ ci.clipLayers ↔ eligible m c = true ∧ i < j ∧ ∀ l, i < l → l ≤ j → ClipAt cs l)) ∧
    (ci.hasTarget = true ↔ (c.clipping = true → ∃ b, BaseFor m cs b i)) := by
  rw [computeClip_eq_spec] at ho
  obtain ⟨c', hc', rfl⟩ := (getElem?_clip m cs i ci).mp ho
  rw [hc] at hc'; cases hc'
  have hi : i ≤ cs.length := by
    rcases Nat.lt_or_ge i cs.length with h | h
    · omega
    · simp [List.getElem?_eq_none h] at hc
  constructor
  · intro j hj
    simp only [infoAt]
    by_cases he : eligible m c = true
    · simp only [he, if_true, true_and]; exact mem_runAbove cs i j hj
    · simp [he]
  · simp only [infoAt]
    by_cases hcl : c.clipping = true
    · simp only [hcl, if_true, true_implies]; exact targetIn_iff m cs i hi
    · simp [hcl]

/-- Clip runs are consecutive (positions `i+1 … i+r`, listed in stacking order), consist of
    clipping layers only, are maximal, belong to eligible bases only, and runs of different layers
    are disjoint and stacked in the order of their bases. -/
theorem runs_partition (m : CompatMode) (cs : List ChildFlags) :
    (computeClip m cs).length = cs.length ∧
    (∀ i c ci, cs[i]? = some c → (computeClip m cs)[i]? = some ci →
      ∃ r, ci.clipLayers = List.range' (i + 1) r ∧
        (∀ j, i < j → j ≤ i + r → ClipAt cs j) ∧
        (∀ d, cs[i + r + 1]? = some d → eligible m c = true → d.clipping = false) ∧
        (0 < r → eligible m c = true)) ∧
    (∀ (i i' : Nat) (ci ci' : ClipInfo), i < i' → (computeClip m cs)[i]? = some ci → (computeClip m cs)[i']? = some ci' →
      ∀ j ∈ ci.clipLayers, ∀ j' ∈ ci'.clipLayers, j < j') := by
  rw [computeClip_eq_spec]
  refine ⟨by simp [clip], ?_, ?_⟩
  · intro i c ci hc ho
    obtain ⟨c', hc', rfl⟩ := (getElem?_clip m cs i ci).mp ho
    rw [hc] at hc'; cases hc'
    by_cases he : eligible m c = true
    · refine ⟨R cs (i + 1), by simp [infoAt, he, runAbove, R], ?_, ?_, fun _ => he⟩
      · intro j h1 h2; exact R_mem_clipping cs (i + 1) j (by omega) (by omega)
      · intro d hd _
        exact R_stop cs (i + 1) d (by rw [show i + 1 + R cs (i + 1) = i + R cs (i + 1) + 1 by omega]; exact hd)
    · refine ⟨0, by simp [infoAt, he], ?_, ?_, by omega⟩
      · intro j h1 h2; omega
      · intro d _ h; exact absurd h he
  · intro i i' ci ci' hlt ho ho' j hj j' hj'
    obtain ⟨c, hc, rfl⟩ := (getElem?_clip m cs i ci).mp ho
    obtain ⟨c', hc', rfl⟩ := (getElem?_clip m cs i' ci').mp ho'
    simp only [infoAt] at hj hj'
    by_cases he : eligible m c = true
    · by_cases he' : eligible m c' = true
      · simp only [he, he', if_true, runAbove, List.mem_range'_1] at hj hj'
        -- the base i' is not a clipping layer, so the run of i stops below it
        rcases Nat.lt_or_ge i' (i + 1 + R cs (i + 1)) with h | h
        · obtain ⟨d, hd, hdc⟩ := R_mem_clipping cs (i + 1) i' (by omega) h
          rw [hc'] at hd; cases hd
          simp [eligible, hdc] at he'
        · change _ ∧ j < i + 1 + R cs (i + 1) at hj
          omega
      · simp [he'] at hj'
    · simp [he] at hj

/-- A clipping layer with no eligible base beneath it in its group has no target and is in
    nobody's clip run; a clipping layer with a target is in the run of exactly that base. -/
theorem no_base_no_target (m : CompatMode) (cs : List ChildFlags) (j : Nat) (d : ChildFlags) (cj : ClipInfo)
    (hd : cs[j]? = some d) (hcl : d.clipping = true) (ho : (computeClip m cs)[j]? = some cj) :
    (cj.hasTarget = false ↔ ¬ ∃ b, BaseFor m cs b j) ∧
    (cj.clipLayers = []) ∧
    (∀ i ci, (computeClip m cs)[i]? = some ci → (j ∈ ci.clipLayers ↔ BaseFor m cs i j)) := by
  have hj : j < cs.length := by
    rcases Nat.lt_or_ge j cs.length with h | h
    · exact h
    · simp [List.getElem?_eq_none h] at hd
  obtain ⟨_, h2⟩ := clip_meaning m cs j d cj hd ho
  refine ⟨?_, ?_, ?_⟩
  · rw [← Bool.not_eq_true, h2]; simp [hcl]
  · rw [computeClip_eq_spec] at ho
    obtain ⟨c', hc', rfl⟩ := (getElem?_clip m cs j cj).mp ho
    rw [hd] at hc'; cases hc'
    simp [infoAt, eligible, hcl]
  · intro i ci hoi
    have hoi' := hoi
    rw [computeClip_eq_spec] at hoi'
    obtain ⟨c, hc, _⟩ := (getElem?_clip m cs i ci).mp hoi'
    obtain ⟨h1, _⟩ := clip_meaning m cs i c ci hc hoi
    rw [h1 j hj]
    constructor
    · rintro ⟨he, hlt, hall⟩
      exact ⟨hlt, ⟨c, hc, he⟩, fun l hl1 hl2 => hall l hl1 (by omega)⟩
    · rintro ⟨hlt, ⟨c', hc', he⟩, hall⟩
      rw [hc] at hc'; cases hc'
      refine ⟨he, hlt, fun l hl1 hl2 => ?_⟩
      rcases Nat.lt_or_ge l j with h | h
      · exact hall l hl1 h
      · have : l = j := by omega
        subst this; exact ⟨d, hd, hcl⟩

/-- The base of a clipping layer is unique. -/
theorem base_unique (m : CompatMode) (cs : List ChildFlags) (b b' j : Nat)
    (h : BaseFor m cs b j) (h' : BaseFor m cs b' j) : b = b' := by
  obtain ⟨h1, ⟨c, hc, he⟩, h3⟩ := h
  obtain ⟨h1', ⟨c', hc', he'⟩, h3'⟩ := h'
  rcases Nat.lt_trichotomy b b' with hlt | heq | hgt
  · obtain ⟨d, hd, hdc⟩ := h3 b' hlt h1'
    rw [hc'] at hd; cases hd
    simp [eligible, hdc] at he'
  · exact heq
  · obtain ⟨d, hd, hdc⟩ := h3' b hgt h1
    rw [hc] at hd; cases hd
    simp [eligible, hdc] at he

/-- In the SAI / Clip Studio modes a pass-through layer is never given clip layers, in the other
    modes the blend mode plays no role. -/
theorem passThrough_rule (m : CompatMode) (cs : List ChildFlags) (i : Nat) (c : ChildFlags) (ci : ClipInfo)
    (hc : cs[i]? = some c) (ho : (computeClip m cs)[i]? = some ci) :
    (m.restrictive = true → c.passThrough = true → ci.clipLayers = []) ∧
    (m.restrictive = false → computeClip m cs = computeClip .photoshop cs) := by
  constructor
  · intro hm hp
    rw [computeClip_eq_spec] at ho
    obtain ⟨c', hc', rfl⟩ := (getElem?_clip m cs i ci).mp ho
    rw [hc] at hc'; cases hc'
    simp [infoAt, eligible, hm, hp]
  · intro hm
    rw [computeClip_eq_spec, computeClip_eq_spec]
    have he : ∀ c, eligible m c = eligible .photoshop c := by
      intro c; simp [eligible, hm, show CompatMode.photoshop.restrictive = false from rfl]
    have ht : ∀ l, targetIn m l = targetIn .photoshop l := by
      intro l; induction l with
      | nil => rfl
      | cons c rest ih => simp [targetIn, ih, he]
    simp [clip, infoAt, he, ht]

/-- The property text says "pass-through *group*"; the code tests the blend mode of any child.
    The two readings coincide on every children list in which only groups are pass-through
    (the only blend-mode assignment Photoshop writes) … -/
theorem groupOnly_reading_agrees (m : CompatMode) (cs : List ChildFlags)
    (h : ∀ c ∈ cs, c.passThrough = true → c.isGroup = true) :
    ∀ c ∈ cs, eligibleGroupOnly m c = eligible m c := by
  intro c hc
  have := h c hc
  cases hp : c.passThrough <;> cases hg : c.isGroup <;> simp_all [eligibleGroupOnly, eligible]

/-- … and differ exactly on a non-group child whose blend mode was set to pass-through. -/
theorem groupOnly_reading_differs :
    eligibleGroupOnly .paintToolSai ⟨false, false, true⟩ = true ∧ eligible .paintToolSai ⟨false, false, true⟩ = false := by
  decide

/-! ### Non-vacuity -/

-- base, two clip layers, base, clip layer (Photoshop): two runs
example : computeClip .photoshop [⟨false, false, false⟩, ⟨true, false, false⟩, ⟨true, false, false⟩,
    ⟨false, true, false⟩, ⟨true, false, false⟩] =
    [⟨[1, 2], true⟩, ⟨[], true⟩, ⟨[], true⟩, ⟨[4], true⟩, ⟨[], true⟩] := by decide
-- a clip run at the bottom of the group has no target
example : computeClip .photoshop [⟨true, false, false⟩, ⟨true, false, false⟩, ⟨false, false, false⟩] =
    [⟨[], false⟩, ⟨[], false⟩, ⟨[], true⟩] := by decide
-- a pass-through group is a base in Photoshop mode, not in SAI mode
example : computeClip .photoshop [⟨false, true, true⟩, ⟨true, false, false⟩] = [⟨[1], true⟩, ⟨[], true⟩] := by decide
example : computeClip .paintToolSai [⟨false, true, true⟩, ⟨true, false, false⟩] = [⟨[], true⟩, ⟨[], false⟩] := by decide
example : computeClip .clipStudioPaint [⟨false, false, false⟩, ⟨false, true, true⟩, ⟨true, false, false⟩] =
    [⟨[], true⟩, ⟨[], true⟩, ⟨[], false⟩] := by decide
example : BaseFor .photoshop [⟨false, false, false⟩, ⟨true, false, false⟩, ⟨true, false, false⟩] 0 2 :=
  ⟨by omega, ⟨_, rfl, rfl⟩, fun l h1 h2 => by
    have : l = 1 := by omega
    subst this; exact ⟨_, rfl, rfl⟩⟩
example : ∀ c ∈ [(⟨false, true, true⟩ : ChildFlags), ⟨true, false, false⟩], c.passThrough = true → c.isGroup = true := by
  decide

/-! ## Part 2 — kept current -/

section KeptCurrent
open PsdVerif.ClipState

/-- What the state model assumes about `_compute_clipping_layers`, `_clear_clipping_layers` and
    `descendants` is what the source says now: clear, then the pass, with nothing at top level that
    could skip or repeat either; the clear runs over `self.descendants()`; `descendants` visits every
    child and everything below a group unless `include_clip` is false. -/
theorem recompute_tied :
    Generated.ClipCurrent.computeBody = ["self._clear_clipping_layers()", "def rec_helper", "rec_helper(self)"] ∧
    Generated.ClipCurrent.clearIterSrc = "self.descendants()" ∧
    Generated.ClipCurrent.descendantsBody =
      "for layer in self:\n    if not include_clip and layer.clipping_layer:\n        continue\n    yield layer\n    if isinstance(layer, GroupMixin):\n        for child in layer.descendants(include_clip):\n            yield child" :=
  ⟨rfl, rfl, rfl⟩

/-- One call of `_compute_clipping_layers` with a clear that visits every layer makes the stored
    relation the specification of the tree as it is — whatever the objects carried before (stale
    lists from another group, from another document, from before the edit). -/
theorem recompute_makes_current (s : St) : Current (s.recompute .all) := recompute_current s

/-- … and it changes no input: mode and specification are those of before. -/
theorem recompute_keeps_inputs (s : St) :
    (s.recompute .all).mode = s.mode ∧ spec s.mode (s.recompute .all).tree = spec s.mode s.tree :=
  ⟨rfl, (recomputeTree_all s.mode s.tree).2⟩

/-- KEPT CURRENT. If the table says that in every segment of every public mutator each raw mutation
    is followed by a recomputation on the document of the same container under no further test, that
    nothing else assigns the stored attributes, that the constructor ends with a recomputation and that
    the clear visits every layer (`tableOk`), then after opening ANY document and after ANY history of
    mutator segments — any containers inside or outside the document, any outcome of the tests, any
    effect of the raw mutations on tree, flags and mode, any stale attributes brought in — the
    relation stored on the layers is the specification of the current inputs. -/
theorem kept_current (t : Table) (ht : tableOk t = true) (inp : St) (h : List SegInst) (hw : ∀ si ∈ h, si.wf) :
    Current (runHist t (openSt t inp) h) :=
  runHist_current t ht h _ (openSt_current t ht inp) hw

/-- The table regenerated from the source satisfies the hypothesis. -/
theorem current_tree_keeps_current : tableOk Generated.ClipCurrent.table = true := by decide

/-- Hence, for the code as it is: on open and after any history. -/
theorem kept_current_now (inp : St) (h : List SegInst) (hw : ∀ si ∈ h, si.wf) :
    Current (runHist Generated.ClipCurrent.table (openSt Generated.ClipCurrent.table inp) h) :=
  kept_current _ current_tree_keeps_current inp h hw

/-- What "current" says, layer by layer, in the terms of part 1: in every group (and the document)
    `_clip_layers` of the child at position `i` are the identities of the maximal run of clipping
    layers directly above it, in stacking order, when it is an eligible base, and empty otherwise;
    `_has_clip_target` is false exactly for a clipping layer with no eligible base beneath it. -/
theorem current_meaning (s : St) (hs : Current s) (l : List T) (hl : l ∈ levels s.tree) (i : Nat) (k : T)
    (hk : l[i]? = some k) :
    (∃ r, k.attr.clip = idsAt l (List.range' (i + 1) r) ∧
        (∀ j, i < j → j ≤ i + r → ClipAt (l.map T.flags) j) ∧
        (∀ d, (l.map T.flags)[i + r + 1]? = some d → eligible s.mode k.flags = true → d.clipping = false) ∧
        (0 < r → eligible s.mode k.flags = true)) ∧
    (k.attr.tgt = true ↔ (k.attr.clipping = true → ∃ b, BaseFor s.mode (l.map T.flags) b i)) := by
  obtain ⟨h1, h2⟩ := current_child s hs l hl i k hk
  have hc : (l.map T.flags)[i]? = some k.flags := by simp [hk]
  have ho : (computeClip s.mode (l.map T.flags))[i]? = some (infoAt s.mode (l.map T.flags) k.flags i) := by
    rw [computeClip_eq_spec]; exact (getElem?_clip _ _ i _).mpr ⟨k.flags, hc, rfl⟩
  constructor
  · obtain ⟨r, e1, e2, e3, e4⟩ := (runs_partition s.mode (l.map T.flags)).2.1 i k.flags _ hc ho
    exact ⟨r, by rw [h1, e1], e2, e3, e4⟩
  · rw [h2]
    exact (clip_meaning s.mode (l.map T.flags) i k.flags _ hc ho).2

/-- The two together: after any history on the code as it is, every layer of every group carries
    exactly that. -/
theorem kept_current_meaning (inp : St) (h : List SegInst) (hw : ∀ si ∈ h, si.wf)
    (l : List T) (i : Nat) (k : T)
    (hl : l ∈ levels (runHist Generated.ClipCurrent.table (openSt Generated.ClipCurrent.table inp) h).tree)
    (hk : l[i]? = some k) :
    let s := runHist Generated.ClipCurrent.table (openSt Generated.ClipCurrent.table inp) h
    (∃ r, k.attr.clip = idsAt l (List.range' (i + 1) r) ∧
        (∀ j, i < j → j ≤ i + r → ClipAt (l.map T.flags) j) ∧
        (∀ d, (l.map T.flags)[i + r + 1]? = some d → eligible s.mode k.flags = true → d.clipping = false) ∧
        (0 < r → eligible s.mode k.flags = true)) ∧
    (k.attr.tgt = true ↔ (k.attr.clipping = true → ∃ b, BaseFor s.mode (l.map T.flags) b i)) :=
  current_meaning _ (kept_current_now inp h hw) l hl i k hk

/-! ### The hypothesis is necessary -/

/-- a base with a clipping layer above it, current … -/
def docA : St := ⟨.photoshop, [.layer ⟨0, false, false, [1], true⟩, .layer ⟨1, true, false, [], true⟩]⟩
/-- … and the same two objects in the other order, in SAI mode, as an edit leaves them -/
def docB : St := ⟨.paintToolSai, [.layer ⟨1, true, false, [], true⟩, .layer ⟨0, false, false, [1], true⟩]⟩

/-- A raw mutation that no later recomputation of its segment covers (same container, no further
    test) can leave ANY state behind, in particular a stale one: there is a well-formed execution
    of the segment — only that container belongs to the document, exactly the tests of the mutation
    hold — after which the stored relation is not the specification. For every table, every mutator. -/
theorem coverage_necessary (t : Table) (op : String) (seg : Nat) (pre post : List Eff) (o w : String)
    (gs : List String) (hseg : t.seg op seg = pre ++ .mutate o w gs :: post)
    (hun : post.any (covers o gs) = false) (s0 : St) :
    ∃ si : SegInst, si.wf ∧ si.op = op ∧ si.seg = seg ∧ ¬ Current (runSeg t s0 si) := by
  refine ⟨exposing op seg pre.length o gs docB, exposing_wf _ _ _ _ _ _, rfl, rfl, ?_⟩
  have : runSeg t s0 (exposing op seg pre.length o gs docB) = docB := by
    simp only [runSeg, exposing, hseg]
    exact uncovered_reaches t.clearIter op seg pre post o w gs hun s0 docB
  rw [this]
  decide

/-- the table with the recomputations of one mutator taken out -/
def dropRecomp (t : Table) (name : String) : Table :=
  { t with rows := t.rows.map fun r =>
      if r.name == name then
        { r with segs := r.segs.map fun seg => seg.filter fun e => match e with | .recomp _ _ => false | _ => true }
      else r }

/-- Each mutator's recomputation is needed: for every row of the regenerated table, the same
    history (open the two-layer document, call that mutator once, with the order and the mode changed
    by it) is current with the table as it is and stale with that row's recomputations removed. -/
theorem every_recompute_needed :
    ∀ name ∈ Generated.ClipCurrent.table.rows.map (·.name),
      Current (runHist Generated.ClipCurrent.table (openSt Generated.ClipCurrent.table docA)
        (callHist Generated.ClipCurrent.table name docB)) ∧
      ¬ Current (runHist (dropRecomp Generated.ClipCurrent.table name) (openSt (dropRecomp Generated.ClipCurrent.table name) docA)
        (callHist (dropRecomp Generated.ClipCurrent.table name) name docB)) := by
  decide

/-- A recomputation under a test of the old / new value does not do: the same history with the test
    false is stale (the row is the `compatibility_mode` setter that recomputes only when the
    default mode is entered or left). -/
theorem conditional_recompute_goes_stale :
    let t : Table := { Generated.ClipCurrent.table with rows :=
      [⟨"PSDImage.compatibility_mode.setter", [[.mutate "self" "_compatibility_mode" [], .recomp "self" ["g1:(previous == default) != (value == default)"]]]⟩] }
    tableOk t = false ∧
    ¬ Current (runHist t (openSt t docA)
      [{ callInst "PSDImage.compatibility_mode.setter" 0 docB with cond := fun _ => false }]) := by
  decide

/-- A recomputation on ANOTHER container's document does not do (a move whose detaching half is a
    raw list operation: only the destination's document is rescanned). -/
theorem foreign_recompute_goes_stale :
    let t : Table := { Generated.ClipCurrent.table with rows :=
      [⟨"Layer.move_to_group", [[.mutate "self.parent" "_layers.remove" [], .mutate "group" "_layers.extend" [], .recomp "group" []]]⟩] }
    tableOk t = false ∧
    ¬ Current (runHist t (openSt t docA)
      [{ callInst "Layer.move_to_group" 0 docB with inDoc := fun o => o == "self.parent", psdHere := fun o => o == "self.parent" }]) := by
  decide

/-- Assigning the stored attributes by hand instead of recomputing is outside what the table can
    vouch for. -/
theorem direct_store_rejected :
    covered [.mutate "self" "clipping" [], .store "sibling" "_clip_layers" ["g2:not(value)"], .recomp "self" ["g2:value"]] = false := by
  decide

/-- The clear must visit every layer. With `descendants(include_clip=False)` every mutator still
    recomputes, yet: a lone clipping layer (no target), then a base inserted beneath it — the
    clipping layer is skipped by the clear and keeps `_has_clip_target = False`. -/
theorem partial_clear_goes_stale :
    let t : Table := { Generated.ClipCurrent.table with clearIter := .skipClipping }
    t.rows.all rowOk = true ∧ tableOk t = false ∧
    ¬ Current (runHist t (openSt t ⟨.photoshop, [.layer ⟨1, true, false, [], true⟩]⟩)
      (callHist t "GroupMixin.insert" ⟨.photoshop, [.layer ⟨0, false, false, [], true⟩, .layer ⟨1, true, false, [], true⟩]⟩)) := by
  decide

/-- … and a base that is made a clipping layer keeps its old run. -/
theorem partial_clear_keeps_old_run :
    let t : Table := { Generated.ClipCurrent.table with clearIter := .skipClipping }
    stored (runHist t (openSt t docA)
      (callHist t "Layer.clipping_layer.setter"
        ⟨.photoshop, [.layer ⟨0, true, false, [], true⟩, .layer ⟨1, true, false, [], true⟩]⟩)).tree =
      [⟨0, [1], false⟩, ⟨1, [], false⟩] := by
  decide

/-- The constructor must end with the recomputation. -/
theorem open_needs_recompute :
    let t : Table := { Generated.ClipCurrent.table with init := [.mutate "current_group" "_layers.append" []] }
    tableOk t = false ∧
    ¬ Current (openSt t ⟨.photoshop, [.layer ⟨0, false, false, [], true⟩, .layer ⟨1, true, false, [], true⟩]⟩) := by
  decide

/-! ### Non-vacuity -/

example : (callInst "GroupMixin.remove" 0 docB).wf := fun _ _ => rfl
example : Current docA := by decide
example : ¬ Current docB := by decide
-- a history over three mutators, with stale attributes carried along, stays current
example : Current (runHist Generated.ClipCurrent.table (openSt Generated.ClipCurrent.table docB)
    (callHist Generated.ClipCurrent.table "Layer.move_up" docA ++
     callHist Generated.ClipCurrent.table "PSDImage.compatibility_mode.setter" ⟨.clipStudioPaint, docA.tree⟩ ++
     callHist Generated.ClipCurrent.table "Group.group_layers"
       ⟨.clipStudioPaint, [.group ⟨2, false, true, [], true⟩ [.layer ⟨0, false, false, [], true⟩], .layer ⟨1, true, false, [], true⟩]⟩)) := by
  decide
-- the hypotheses of `coverage_necessary` are met by the row of a setter that does not recompute
example : (({ Generated.ClipCurrent.table with rows := [⟨"Layer.blend_mode.setter", [[.mutate "self" "blend_mode" []]]⟩] } : Table).seg
    "Layer.blend_mode.setter" 0 = [] ++ .mutate "self" "blend_mode" [] :: []) ∧
    ([] : List Eff).any (covers "self" []) = false := by decide
example : levels docA.tree = [docA.tree] := rfl

end KeptCurrent

/-! ### Part 4: the compositor honours the relation (gate and group box; pixels are C11's subject) -/
section Compositor
open PsdVerif.ClipComp

/-- What the model assumes about the compositor is what `composite/__init__.py` says now: the early returns of
    `Compositor.apply` in order (the last is the gate), `_apply_clip_layers` composites exactly `layer.clip_layers`, each
    with `clip_compositing=True`, it is called for every group and every object that has clip layers, and `_bbox`
    counts EVERY child the layer filter accepts (no other condition on the child; only empty boxes are dropped). -/
theorem compositor_gate_tied :
    Generated.ClipCompositor.applySkips =
      ["self._layer_filter is not None and (not self._layer_filter(layer))",
       "isinstance(layer, AdjustmentLayer)",
       "_intersect(self._viewport, self._bbox(layer)) == (0, 0, 0, 0)",
       "not clip_compositing and layer.clipping_layer and layer._has_clip_target"] ∧
    Generated.ClipCompositor.clipIter = "layer.clip_layers" ∧
    Generated.ClipCompositor.clipCalls = ["compositor.apply(clip_layer, clip_compositing=True)"] ∧
    Generated.ClipCompositor.clipCallers =
      ["_get_group: if layer.has_clip_layers()", "_get_object: if layer.has_clip_layers()"] ∧
    Generated.ClipCompositor.bboxCachedWhen =
      "not isinstance(layer, GroupMixin) or isinstance(layer, Artboard) or self._layer_filter is None or (self._layer_filter is Layer.is_visible) -> return layer.bbox" ∧
    Generated.ClipCompositor.bboxIter = ["layer", "boxes"] ∧
    Generated.ClipCompositor.bboxChildTests = ["self._layer_filter(child)", "box != (0, 0, 0, 0)"] :=
  ⟨rfl, rfl, rfl, rfl, rfl, rfl, rfl⟩

/-- The gate: in the ordinary pass over a group's children a layer is left out exactly when it is a clipping layer
    that has a target; a clipping layer with NO target is drawn there like an ordinary layer, and so is every
    non-clipping layer; through a base (`clip_compositing=True`) nothing is left out by the gate. -/
theorem compositor_honours_gate (clipping hasTarget : Bool) :
    (drawnOrdinary clipping hasTarget = false ↔ (clipping = true ∧ hasTarget = true)) ∧
    drawnOrdinary clipping false = true ∧ drawnOrdinary false hasTarget = true ∧
    drawnThroughBase clipping hasTarget = true := by
  cases clipping <;> cases hasTarget <;> simp [drawnOrdinary, drawnThroughBase, skipped]

/-- The box a group is drawn in under ANY caller-supplied filter spans the box of every child the filter accepts,
    whatever its clipping flag: the group's viewport never crops or skips a base-less clipping layer (nor any other
    accepted child) that has something to draw. -/
theorem group_box_spans_accepted {α : Type} (f : α → Bool) (box : α → Box) (kids : List α) (k : α)
    (hk : k ∈ kids) (hf : f k = true) (hb : box k ≠ Box.zero) :
    (groupBox f box kids).spans (box k) := by
  unfold groupBox
  apply unionBoxes_spans _ _ _ hb
  exact List.mem_map.mpr ⟨k, List.mem_filter.mpr ⟨hk, hf⟩, rfl⟩

/-- Necessity of the last clause of the tie: a union that ALSO requires "not a clipping layer" of the children
    crops a base-less clipping layer that sticks out of its siblings. -/
theorem group_box_filtering_clipping_crops :
    let kids : List (Bool × Box) := [(true, ⟨0, 0, 1, 9⟩), (false, ⟨2, 2, 4, 4⟩)]
    ¬ (groupBox (fun k => !k.1) Prod.snd kids).spans ⟨0, 0, 1, 9⟩ ∧
    (groupBox (fun _ => true) Prod.snd kids).spans ⟨0, 0, 1, 9⟩ := by
  decide

example : ∃ k ∈ [(true, (⟨0, 0, 1, 9⟩ : Box))], (fun _ : Bool × Box => true) k = true ∧ k.2 ≠ Box.zero :=
  ⟨_, List.mem_singleton.mpr rfl, rfl, by decide⟩

end Compositor

end PsdVerif.C15
