/-
C09 — structure edits behave like list edits.

`Spec` (Model/TreeSpec.lean) is the same operations on plain nested lists: a state is just the
lists (every container a plain list of element ids), no back pointers, no caches, no checks.
`abs s` forgets everything but the lists. An operation the code ACCEPTS is exactly the list
operation (`step_refines`); an operation it REFUSES leaves the lists alone (`refused_refines`);
over a history the tree equals the list replay of the accepted operations (`history_refines`).
The save / reopen half of the property is evaluated on the real code by the harness (its Lean
composition needs the parse / flatten model of C08 and the record codec of C01).
-/
import PsdVerif.Lemmas.TreeRefine3
import PsdVerif.Lemmas.TreeTable
import PsdVerif.Generated.TreeTable

namespace PsdVerif.C09
open PsdVerif PsdVerif.TreeSt

/-- **Refinement, one operation.** From a well-formed tree, an operation that does not raise
changes the lists exactly like the plain-list operation, and returns the value the list operation
returns (`Agrees`: where the specification names a value). No guard is needed: listing a layer a
second time is also what a plain list does. -/
theorem step_refines (s : State) (op : Op) (i : Inv s) (h : (step .current s op).2.isError = false) :
    ∃ v, Spec.apply (abs s) op = .ok (abs (step .current s op).1, v) ∧ Agrees (step .current s op).2 v :=
  step_acc s op i h

/-- an operation that raises (anything but RecursionError) leaves every list as it was -/
theorem refused_refines (s : State) (op : Op) (e : Err) (i : Inv s) (h : (step .current s op).2 = .error e)
    (hne : e ≠ .recursionError) : abs (step .current s op).1 = abs s :=
  (step_ref s op e i h hne).abs

/-- **Refinement, histories.** After any guarded history (inserted layers are detached; recursion
limit not hit) the lists are the result of replaying the accepted operations on plain lists. -/
theorem history_refines (s : State) (ops : List Op) (i : Inv s) (hg : Guarded .current s ops) :
    Spec.runLists (abs s) (acceptedOps .current s ops) = .ok (abs (runState .current s ops)) :=
  run_refines s ops i hg

/-- the pure list operations raise exactly the exception the list raises -/
theorem list_errors_agree (s : State) (g : Id) (hg : s.isGroup g = true) :
    (∀ x, x ∉ s.children g → (step .current s (.remove g x)).2 = .error .valueError) ∧
    (∀ k, normIdx (s.children g).length k = none → (step .current s (.pop g k)).2 = .error .indexError) ∧
    (∀ k, normIdx (s.children g).length k = none → (step .current s (.delitem g k)).2 = .error .indexError) := by
  refine ⟨?_, ?_, ?_⟩
  · intro x hx
    simp [step, Op.target, hg, opRemove, hx]
  · intro k hk
    simp [step, Op.target, hg, opPop, hk]
  · intro k hk
    simp [step, Op.target, hg, opDelitem, hk]

/-! ### non-vacuity -/

/-- document 0 lists [1, 2] (2 a group); 3 detached -/
def demo : State :=
  runState .current (State.empty 50)
    [.newDoc ⟨0, 0, 8, 8⟩, .newLayer (some 0) ⟨0, 0, 2, 2⟩, .newGroup (some 0), .newLayer (some 0) ⟨1, 1, 3, 3⟩,
     .append 0 1]

/-- an accepted history and its list replay: move, regroup, reorder -/
example : ((Spec.runLists (abs demo) [.moveToGroup 1 2, .append 2 3, .moveUp 1 5, .groupLayers [3] none]).toOption.map
      (fun t => (t.lists 0, t.lists 2, t.lists 4))) = some ([2], [1, 4], [3]) ∧
    (let s' := runState .current demo [.moveToGroup 1 2, .append 2 3, .moveUp 1 5, .groupLayers [3] none]
     (s'.children 0, s'.children 2, s'.children 4)) = ([2], [1, 4], [3]) := by decide

/-- a refused operation in the middle of a history is skipped by the replay -/
example : acceptedOps .current demo [.append 2 3, .extend 2 [2], .pop 2 7, .moveToGroup 2 2, .remove 2 3] =
    [.append 2 3, .remove 2 3] := by decide


/-! ### The mutators as the source writes them (regenerated table, `Model/TreeTable.lean`) -/

open PsdVerif.TreeTable in
/-- **the table machine refines plain lists, one call**: for any table with the standard helper descriptions and the
rows of the `GroupMixin` list mutators (`StdRows`; the regenerated table has them: `C10.current_table_std`), an
accepted call is exactly the list operation -/
theorem table_step_refines (t : Table) (h : StdRows t = true) (s : State) (op : Op) (hop : Op.listMutator op = true)
    (i : Inv s) (hacc : (tableStep t s op).2.isError = false) :
    ∃ v, Spec.apply (abs s) op = .ok (abs (tableStep t s op).1, v) ∧ Agrees (tableStep t s op).2 v := by
  rw [tableStep_eq_step h s op hop] at hacc ⊢
  exact step_acc s op i hacc

open PsdVerif.TreeTable in
/-- a refused call of the table machine leaves every list as it was -/
theorem table_refused_refines (t : Table) (h : StdRows t = true) (s : State) (op : Op) (hop : Op.listMutator op = true)
    (e : Err) (i : Inv s) (he : (tableStep t s op).2 = .error e) (hne : e ≠ .recursionError) :
    abs (tableStep t s op).1 = abs s := by
  rw [tableStep_eq_step h s op hop] at he ⊢
  exact (step_ref s op e i he hne).abs

open PsdVerif.TreeTable in
/-- **the table machine refines plain lists, histories** of list mutators (guarded: inserted layers detached) -/
theorem table_history_refines (t : Table) (h : StdRows t = true) (s : State) (ops : List Op)
    (hops : ∀ op, op ∈ ops → Op.listMutator op = true) (i : Inv s) (hg : Guarded .current s ops) :
    Spec.runLists (abs s) (acceptedOps .current s ops) = .ok (abs (tableRun t s ops).1) := by
  rw [tableRun_eq_run h s ops hops]
  exact run_refines s ops i hg

/-- the regenerated table on a history: insert, replace a slice, delete, pop -/
def tableDemoOps : List Op := [.setslice 0 (some 0) (some 1) [], .insert 0 0 2, .append 2 3, .pop 0 (-1), .delitem 2 0]

example : ((PsdVerif.TreeTable.tableRun Generated.TreeTable.table demo tableDemoOps).1.children 0,
    (PsdVerif.TreeTable.tableRun Generated.TreeTable.table demo tableDemoOps).1.children 2,
    (PsdVerif.TreeTable.tableRun Generated.TreeTable.table demo tableDemoOps).2) =
    ([2], [], [Out.none, Out.none, Out.none, Out.id 1, Out.none]) := by decide

end PsdVerif.C09
