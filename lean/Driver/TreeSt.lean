/-
Driver commands of the layer-tree model (C09 / C10 / C14).

  treest.run <cfg> <init> <ops>      the whole history in one line

cfg   : `current` | `legacy` | five 0/1 digits (itemSelfCheck groupLayersPrecheck climbToDoc
        invalidateOnEdit invalidateBelow)
init  : `limit next` then `;`-separated nodes `id kind parent psd vis l,t,r,b cache dirty children [blocks]`
        (kind d|g|a|l, `_` = None, children `-` or `1,2,3`, blocks = tagged-block keys as numbers `-` or `1,2`)
ops   : `;`-separated, tokens separated by blanks (see `parseOp`)
answer: ok <step>|<step>|…   with step = `out#node;node;…` (every id < next),
        node = `id kind children parent psd vis l,t,r,b cache dirty blocks`
-/
import Driver.Util
import PsdVerif.Model.TreeState

namespace Driver.TreeSt
open PsdVerif PsdVerif.TreeSt Driver

def optNat (s : String) : Option (Option Nat) :=
  if s == "_" then some none else s.toNat?.map some

def optInt (s : String) : Option (Option Int) :=
  if s == "_" then some none else s.toInt?.map some

def natList (s : String) : Option (List Nat) :=
  if s == "-" then some [] else (s.splitOn ",").mapM (·.toNat?)

def parseBox (s : String) : Option BBox :=
  match (s.splitOn ",").mapM (·.toInt?) with
  | some [l, t, r, b] => some ⟨l, t, r, b⟩
  | _ => none

def optBox (s : String) : Option (Option BBox) :=
  if s == "_" then some none else (parseBox s).map some

def parseKind : String → Option Kind
  | "d" => some .doc | "g" => some .group | "a" => some .artboard | "l" => some .leaf | _ => none

def parseBool : String → Option Bool
  | "1" => some true | "0" => some false | _ => none

def parseCfg (s : String) : Option Cfg :=
  if s == "current" then some Cfg.current
  else if s == "legacy" then some Cfg.legacy
  else match s.toList.mapM (fun c => if c == '1' then some true else if c == '0' then some false else none) with
    | some [a, b, c, d, e, f] => some ⟨a, b, c, d, e, f⟩
    | _ => none

def words (s : String) : List String := (s.splitOn " ").filter (· != "")

def addNodeCore (s : State) (w : List String) : Option State :=
  match w with
  | [id, k, par, psd, vis, bx, cache, dirty, kids] => do
    let id ← id.toNat?
    let k ← parseKind k
    let par ← optNat par
    let psd ← optNat psd
    let vis ← parseBool vis
    let bx ← parseBox bx
    let cache ← optBox cache
    let dirty ← parseBool dirty
    let kids ← natList kids
    pure { s with
      kind := upd s.kind id k, children := upd s.children id kids, parent := upd s.parent id par,
      psd := upd s.psd id psd, visible := upd s.visible id vis, box := upd s.box id bx,
      cache := upd s.cache id cache, dirty := upd s.dirty id dirty }
  | _ => none

def addNode (s : State) (w : List String) : Option State :=
  match w with
  | [id, k, par, psd, vis, bx, cache, dirty, kids, blocks] => do
    let s1 ← addNodeCore s [id, k, par, psd, vis, bx, cache, dirty, kids]
    let id ← id.toNat?
    let ks ← natList blocks
    pure { s1 with blocks := upd s1.blocks id ks }
  | _ => addNodeCore s w

def parseInit (s : String) : Option State :=
  match s.splitOn ";" with
  | [] => none
  | hd :: nodes =>
    match words hd with
    | [limit, next] => do
      let limit ← limit.toNat?
      let next ← next.toNat?
      let s0 : State := { State.empty limit with next := next }
      nodes.foldlM (fun st n => addNode st (words n)) s0
    | _ => none

def parseObs (w : List String) : Option Obs :=
  match w with
  | ["bbox", x] => x.toNat?.map .bbox
  | ["size", x] => x.toNat?.map .size
  | ["repr", x] => x.toNat?.map .repr
  | ["desc", g] => g.toNat?.map .descendants
  | ["len", g] => g.toNat?.map .len
  | ["index", g, x] => do pure (.index (← g.toNat?) (← x.toNat?))
  | ["count", g, x] => do pure (.count (← g.toNat?) (← x.toNat?))
  | ["getitem", g, i] => do pure (.getitem (← g.toNat?) (← i.toInt?))
  | ["contains", g, x] => do pure (.contains (← g.toNat?) (← x.toNat?))
  | ["isvis", x] => x.toNat?.map .isVisible
  | ["getter", x] => x.toNat?.map .getter
  | ["touch", xs] => (natList xs).map .touch
  | _ => none

def parseOp (w : List String) : Option Op :=
  match w with
  | ["append", g, x] => do pure (.append (← g.toNat?) (← x.toNat?))
  | ["extend", g, xs] => do pure (.extend (← g.toNat?) (← natList xs))
  | ["insert", g, i, x] => do pure (.insert (← g.toNat?) (← i.toInt?) (← x.toNat?))
  | ["remove", g, x] => do pure (.remove (← g.toNat?) (← x.toNat?))
  | ["pop", g, i] => do pure (.pop (← g.toNat?) (← i.toInt?))
  | ["clear", g] => do pure (.clear (← g.toNat?))
  | ["setitem", g, i, x] => do pure (.setitem (← g.toNat?) (← i.toInt?) (← x.toNat?))
  | ["setslice", g, a, b, xs] => do pure (.setslice (← g.toNat?) (← optInt a) (← optInt b) (← natList xs))
  | ["delitem", g, i] => do pure (.delitem (← g.toNat?) (← i.toInt?))
  | ["delslice", g, a, b] => do pure (.delslice (← g.toNat?) (← optInt a) (← optInt b))
  | ["delete", x] => do pure (.deleteLayer (← x.toNat?))
  | ["move", x, g] => do pure (.moveToGroup (← x.toNat?) (← g.toNat?))
  | ["up", x, k] => do pure (.moveUp (← x.toNat?) (← k.toInt?))
  | ["down", x, k] => do pure (.moveDown (← x.toNat?) (← k.toInt?))
  | ["newgroup", p] => do pure (.newGroup (← optNat p))
  | ["grouplayers", xs, p] => do pure (.groupLayers (← natList xs) (← optNat p))
  | ["newlayer", p, bx] => do pure (.newLayer (← optNat p) (← parseBox bx))
  | ["newdoc", bx] => do pure (.newDoc (← parseBox bx))
  | ["vis", x, v] => do pure (.setVisible (← x.toNat?) (← parseBool v))
  | ["left", x, v] => do pure (.setLeft (← x.toNat?) (← v.toInt?))
  | ["top", x, v] => do pure (.setTop (← x.toNat?) (← v.toInt?))
  | ["attr", x] => do pure (.setAttr (← x.toNat?))
  | ["setblocks", x, ks] => do pure (.setBlocks (← x.toNat?) (← natList ks))
  | "obs" :: rest => (parseObs rest).map .observe
  | _ => none

def showNats (l : List Nat) : String := if l.isEmpty then "-" else ",".intercalate (l.map toString)
def showOptNat : Option Nat → String | none => "_" | some n => toString n
def showBox (b : BBox) : String := s!"{b.l},{b.t},{b.r},{b.b}"
def showOptBox : Option BBox → String | none => "_" | some b => showBox b
def showKind : Kind → String | .doc => "d" | .group => "g" | .artboard => "a" | .leaf => "l"
def showBool (b : Bool) : String := if b then "1" else "0"

def showOut : Out → String
  | .none => "none"
  | .id x => s!"id:{x}"
  | .ids xs => "ids:" ++ showNats xs
  | .box b => "box:" ++ showBox b
  | .pair a b => s!"pair:{a},{b}"
  | .int n => s!"int:{n}"
  | .bool v => "bool:" ++ showBool v
  | .error e => "err:" ++ e.name

def showNode (s : State) (x : Id) : String :=
  " ".intercalate [toString x, showKind (s.kind x), showNats (s.children x), showOptNat (s.parent x),
    showOptNat (s.psd x), showBool (s.visible x), showBox (s.box x), showOptBox (s.cache x), showBool (s.dirty x),
    showNats (s.blocks x)]

def showState (s : State) : String := ";".intercalate ((List.range s.next).map (showNode s))

def runDump (cfg : Cfg) : State → List Op → List String
  | _, [] => []
  | s, op :: ops =>
    let r := step cfg s op
    (showOut r.2 ++ "#" ++ showState r.1) :: runDump cfg r.1 ops

def cmds : List (String × Cmd) := [
  ("treest.run", fun
    | [cfg, init, ops] =>
      match parseCfg cfg, parseInit init with
      | some cfg, some s0 =>
        let opStrs := if ops == "-" then [] else ops.splitOn ";"
        match opStrs.mapM (fun o => parseOp (words o)) with
        | some ops => okLine ("|".intercalate (runDump cfg s0 ops))
        | none => badRequest
      | _, _ => badRequest
    | _ => badRequest)
]

end Driver.TreeSt
