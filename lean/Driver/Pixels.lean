import Driver.Util
import PsdVerif.Model.Pixels

namespace Driver.Pixels
open PsdVerif PsdVerif.Pixels Driver

def modeName (m : Mode) : String := m.name

def parseMode : String → Option Mode
  | "1" => some .one | "L" => some .L | "LA" => some .LA | "RGB" => some .RGB
  | "RGBA" => some .RGBA | "CMYK" => some .CMYK | _ => none

def cmodeName (c : CMode) : String := c.name

def parseCMode : String → Option CMode
  | "BITMAP" => some .bitmap | "GRAYSCALE" => some .gray | "RGB" => some .rgb | "CMYK" => some .cmyk
  | _ => none

def symStr : Sym → String
  | .orig k => "o" ++ toString k
  | .conv m k => "c" ++ modeName m ++ toString k
  | .opaque => "op"
  | .inv s => "~" ++ symStr s
  | .unmatte c a => "um(" ++ symStr c ++ "," ++ symStr a ++ ")"
  | .stored d s => "st" ++ toString d ++ "(" ++ symStr s ++ ")"

/-- a one-sample plane as its sample -/
def planeStr (p : List Sym) : String := ",".intercalate (p.map symStr)

def bandsStr (bs : List (List Sym)) : String := ";".intercalate (bs.map planeStr)

def routeStr (r : Route) : String :=
  toString r.plane ++ (if r.inverted then "~" else "") ++
    (match r.unmatteBy with | some a => "/" ++ toString a | none => "")

def routesStr (rs : List Route) : String := ";".intercalate (rs.map routeStr)

/-- the numpy view keeps the stored samples (no inversion ever happens on that path) -/
def symNumpyView (d : Nat) : View Sym Sym :=
  { load := symPx.load d, inv := Sym.mkInv, unmatte := .unmatte }

def parseNatList (s : String) : Option (List Nat) :=
  if s == "-" then some [] else (s.splitOn ",").mapM (·.toNat?)

def parseIntList (s : String) : Option (List Int) :=
  if s == "-" then some [] else (s.splitOn ",").mapM (·.toInt?)

def exc {α : Type} (r : Except Err α) (f : α → String) : String :=
  match r with
  | .ok a => f a
  | .error e => "!" ++ e.name

def cmds : List (String × Cmd) := [
  -- px.doc <source mode>  →  channels, pil mode of the document, stored planes, PIL export, NumPy export
  ("px.doc", fun
    | [m] => match parseMode m with
      | some m =>
        let (mt0, planes) := docImport symPil symPx (symImage m)
        let pil := exc (exportDocPil symPx mt0 planes) fun
          | none => "none"
          | some i => modeName i.mode ++ ":" ++ bandsStr i.bands
        let np := exc (exportDocNumpy (symNumpyView mt0.header.depth) mt0 planes) bandsStr
        okLine (cmodeName mt0.header.cmode ++ "\t" ++ toString mt0.header.channels ++ "\t" ++
          bandsStr planes ++ "\t" ++ pil ++ "\t" ++ np)
      | none => badRequest
    | _ => badRequest),
  -- px.layer <source mode> <doc colour mode> <doc channels> <depth>
  ("px.layer", fun
    | [m, c, ch, d] => match parseMode m, parseCMode c, ch.toNat?, d.toNat? with
      | some m, some c, some ch, some d =>
        let hdr : Header := { cmode := c, channels := ch, depth := d, width := 8, height := 8 }
        (match layerImport symPil symPx (symImage m) hdr 0 0 with
         | .error e => errLine e
         | .ok l =>
           let ids := ",".intercalate (l.channels.map fun x => toString x.1)
           let pil := exc (exportLayerPil symPx hdr l) fun i => modeName i.mode ++ ":" ++ bandsStr i.bands
           let al := exc (exportLayerAlpha symPx hdr l) fun
             | none => "none"
             | some p => planeStr p
           let np := exc (exportLayerNumpy (symNumpyView d) hdr l) bandsStr
           okLine (modeName hdr.pilMode ++ "\t" ++ ids ++ "\t" ++ bandsStr (l.channels.map (·.2)) ++ "\t" ++
             pil ++ "\t" ++ al ++ "\t" ++ np))
      | _, _, _, _ => badRequest
    | _ => badRequest),
  -- px.docroutes <colour mode> <channels> <mergedTransparency 0/1> <alpha ids> <layer count> <version info: -,0,1>
  ("px.docroutes", fun
    | [c, ch, mt, ids, lc, vi] =>
      match parseCMode c, ch.toNat?, parseNatList ids, lc.toNat? with
      | some c, some ch, some ids, some lc =>
        let mt0 : Meta := {
          header := { cmode := c, channels := ch, depth := 8, width := 1, height := 1 },
          mergedTransparency := mt == "1", alphaIds := ids, layerCount := lc,
          versionInfo := if vi == "-" then none else some (vi == "1") }
        let pil := exc (pilDocRoutes mt0) fun
          | none => "none"
          | some (m, rs) => modeName m ++ ":" ++ routesStr rs
        okLine ((if mt0.hasTransparency then "1" else "0") ++ "\t" ++ toString mt0.transparencyIndex ++ "\t" ++
          pil ++ "\t" ++ routesStr (numpyDocRoutes mt0))
      | _, _, _, _ => badRequest
    | _ => badRequest),
  -- px.layerroutes <colour mode> <channel ids>
  ("px.layerroutes", fun
    | [c, ids] => match parseCMode c, parseIntList ids with
      | some c, some ids =>
        let hdr : Header := { cmode := c, channels := c.channels, depth := 8, width := 1, height := 1 }
        let pil := exc (pilLayerRoutes hdr ids) fun (m, rs) => modeName m ++ ":" ++ routesStr rs
        okLine (pil ++ "\t" ++ routesStr (numpyLayerRoutes hdr ids))
      | _, _ => badRequest
    | _ => badRequest)
]

end Driver.Pixels
