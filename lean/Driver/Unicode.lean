/-
Driver commands for the C19 model (`Model/Unicode.lean`).
Strings travel as comma separated decimal code points ("-" = empty), bytes as hex.
Codecs: `ascii`, `mac-roman`, `mac-cyrillic`, `utf-8` are the Lean codecs; `table` is a codec
known only through a finite table `cps=hex|X;cps=hex|X;…` computed by the harness with the
real Python codec (used for `shift_jis` and to compare the framing for every codec).
-/
import Driver.Util
import PsdVerif.Model.Unicode
import PsdVerif.Generated.Strings

namespace Driver.Unicode
open PsdVerif PsdVerif.Unicode Driver

def parseNats (s : String) : Option (List Nat) :=
  if s == "-" then some [] else (s.splitOn ",").mapM (fun t => t.toNat?)

def showNats (l : List Nat) : String :=
  if l.isEmpty then "-" else ",".intercalate (l.map toString)

def parseOptHex (s : String) : Option (Option BL) :=
  if s == "X" then some none else (parseHex s).map (fun b => some b.toList)

/-- `cps=hex|X;…` -/
def parseTable (s : String) : Option (List (Str × Option BL)) :=
  if s == "-" then some [] else
  (s.splitOn ";").mapM (fun ent =>
    match ent.splitOn "=" with
    | [a, b] => match parseNats a, parseOptHex b with
      | some k, some v => some (k, v)
      | _, _ => none
    | _ => none)

/-- A codec given by a finite table of (string, encoded bytes | unencodable). -/
def tableEnc (t : List (Str × Option BL)) : Encoding where
  encode s := match t.lookup s with
    | some r => r
    | none => none
  decode b := (t.find? (fun p => p.2 == some b)).map (·.1)

def codecOf (name : String) (table : Option String) : Option Encoding :=
  match name with
  | "ascii" => some ascii
  | "mac-roman" => some (charmap Generated.Strings.macRomanTable)
  | "mac-cyrillic" => some (charmap Generated.Strings.macCyrillicTable)
  | "utf-8" => some utf8
  | "table" => match table with
    | some t => (parseTable t).map tableEnc
    | none => none
  | _ => none

def resBytes : Except Err BL → String
  | .ok b => okLine (toHexList b)
  | .error e => errLine e

def resStrPos : Except Err (Str × Nat) → String
  | .ok (s, p) => okLine (showNats s ++ "\t" ++ toString p)
  | .error e => errLine e

def optHex : Option BL → String
  | some b => toHexList b
  | none => "X"

def nameCmd (e : Encoding) (value : Str) (mode : String) (legacy0 : Str) : String :=
  -- "set": the name setter; "new": Group.new(value); "frompil": PixelLayer.frompil(.., value);
  -- anything else ("old"): a record read from an old file (no unicode block), legacy name `legacy0`, written as is
  let mac := charmap Generated.Strings.macRomanTable
  let r1 : Except Err NameRec :=
    if mode == "set" then setName mac value ⟨legacy0, none⟩
    else if mode == "new" then .ok (newGroupName value)
    else if mode == "frompil" then frompilName mac value
    else .ok ⟨legacy0, none⟩
  match r1 with
  | .error er => "err\tset:" ++ er.name
  | .ok r1 =>
    match writeName e r1 with
    | .error er => "err\twrite:" ++ er.name
    | .ok (lb, ub) =>
      match readName e ([0xAA] ++ lb ++ [0xBB]) 1 ub with
      | .error er => "err\tread:" ++ er.name
      | .ok (r2, p) =>
        okLine (String.intercalate "\t" [showNats r1.legacy, toHexList lb, optHex ub, showNats r2.legacy,
          showNats (getName r2), toString (p == 1 + lb.length)])

def cmds : List (String × Cmd) := [
  ("uni.wus", fun
    | [pad, cps] => match pad.toNat?, parseNats cps with
      | some pad, some s => resBytes (writeUnicodeString s pad)
      | _, _ => badRequest
    | _ => badRequest),
  ("uni.rus", fun
    | [pad, h, pos] => match pad.toNat?, parseHex h, pos.toNat? with
      | some pad, some d, some pos => resStrPos (readUnicodeString d.toList pos pad)
      | _, _, _ => badRequest
    | _ => badRequest),
  ("uni.wps", fun
    | enc :: pad :: cps :: rest => match codecOf enc rest.head?, pad.toNat?, parseNats cps with
      | some e, some pad, some s => resBytes (writePascalString e s pad)
      | _, _, _ => badRequest
    | _ => badRequest),
  ("uni.rps", fun
    | enc :: pad :: h :: pos :: rest => match codecOf enc rest.head?, pad.toNat?, parseHex h, pos.toNat? with
      | some e, some pad, some d, some pos => resStrPos (readPascalString e d.toList pos pad)
      | _, _, _, _ => badRequest
    | _ => badRequest),
  ("uni.name", fun
    | enc :: mode :: cps :: leg :: rest => match codecOf enc rest.head?, parseNats cps, parseNats leg with
      | some e, some s, some l => nameCmd e s mode l
      | _, _, _ => badRequest
    | _ => badRequest),
  ("uni.codec", fun
    | [enc, "e", cps] => match codecOf enc none, parseNats cps with
      | some e, some s => (match e.encode s with | some b => okLine (toHexList b) | none => errLine .unicodeError)
      | _, _ => badRequest
    | [enc, "d", h] => match codecOf enc none, parseHex h with
      | some e, some b => (match e.decode b.toList with | some s => okLine (showNats s) | none => errLine .unicodeError)
      | _, _ => badRequest
    | _ => badRequest),
  ("uni.spec16enc", fun
    | [cps] => match parseNats cps with
      | some s => if s.all (fun c => decide (Spec.Scalar c)) then okLine (showNats (Spec.utf16Enc s)) else "err\tNOT-SCALAR"
      | none => badRequest
    | _ => badRequest),
  ("uni.spec16dec", fun
    | [us] => match parseNats us with
      | some u => (match Spec.utf16Dec u with | some s => okLine (showNats s) | none => "err\tILL-FORMED")
      | none => badRequest
    | _ => badRequest),
  ("uni.old", fun
    | [cps] => match parseNats cps with
      | some s => (match encUnitsOld s with | .ok u => okLine (showNats u) | .error e => errLine e)
      | none => badRequest
    | _ => badRequest)
]

end Driver.Unicode
