/-
Driver commands for the blend model (C12).  Rationals travel as "n/d" (or "n").
  blend.<fn>  <cb> <cs>  (separable)  |  <6 rationals> (non-separable, RGB)   -> ok n/d | ok r,g,b
  blend.sep   <fn> <cb> <cs> [<cb> <cs> ...]   -> ok  v;m v;m ...     (value ; discriminant margin or "-")
  blend.row   <fn> <N> <i>                     -> ok  v0 v1 ... vN     (Cb = i/N, Cs = j/N)
  blend.mrow  <fn> <N> <i>                     -> ok  m0 m1 ... mN     (margins; "-" when none)
  blend.spec  <fn> <cb> <cs> [...]             -> ok  v v ...          (published formula)
  blend.srow  <fn> <N> <i>                     -> ok  v0 ... vN        (published formula)
  blend.ns    <fn> rgb|cmyk <6|8 rationals> [...more cases]  -> ok  r,g,b[,k];margin  ...
  blend.nsspec <fn> <6 rationals> [...]        -> ok  r,g,b ...
A zero denominator among the divisions the code evaluates is answered `err ZeroDivision`.
The margin is the distance to the nearest branch discriminant that is computed in floating point
by the code (and can therefore fall on the other side in float32); it is harness support, no
theorem mentions it.
-/
import Driver.Util
import PsdVerif.Model.Blend

namespace Driver.Blend
open PsdVerif PsdVerif.Blend Driver

def parseRat (s : String) : Option Rat :=
  match s.splitOn "/" with
  | [n] => n.toInt?.map (fun (z : Int) => (z : Rat))
  | [n, d] => match n.toInt?, d.toNat? with
    | some z, some m => if m = 0 then none else some (mkRat z m)
    | _, _ => none
  | _ => none

def ratStr (q : Rat) : String := toString q.num ++ "/" ++ toString q.den

def pow10_12 : Nat := 1000000000000

/-- rational approximation of `sqrt` (floor at 10^-12; |error| < 2·10^-12 on [10^-6, 1]) -/
def sqrtApprox (x : Rat) : Rat :=
  if x ≤ 0 then 0 else
  mkRat (Nat.sqrt (x.num.toNat * pow10_12 * pow10_12 / x.den)) pow10_12

def absR (q : Rat) : Rat := if q < 0 then -q else q

/-- margin of the float-computed discriminants of a separable function -/
def sepMargin : String → Option (Rat → Rat → Rat)
  | "hard_mix" => some (fun cb cs => absR (cb + c999999 * cs - 1))
  | _ => none

def parseAll (xs : List String) : Option (List Rat) := xs.mapM parseRat

def pairs : List Rat → List (Rat × Rat)
  | a :: b :: rest => (a, b) :: pairs rest
  | _ => []

def chunks (n : Nat) (xs : List Rat) : List (List Rat) :=
  if n = 0 then [] else
  let rec go (fuel : Nat) (xs : List Rat) (acc : Array (List Rat)) : List (List Rat) :=
    match fuel with
    | 0 => acc.toList
    | fuel + 1 => if xs.length < n then acc.toList else go fuel (xs.drop n) (acc.push (xs.take n))
  go (xs.length + 1) xs #[]

def hasZero (ds : List Rat) : Bool := ds.any (fun d => d == 0)

def zeroDiv : String := "err\tZeroDivision"

def evalSep (fn : String) (f : Rat → Rat → Rat) (ps : List (Rat × Rat)) : String :=
  if ps.any (fun p => hasZero (separableDens fn p.1 p.2)) then zeroDiv else
  let mg := sepMargin fn
  okLine (" ".intercalate (ps.map (fun p =>
    ratStr (f p.1 p.2) ++ ";" ++ (match mg with | some m => ratStr (m p.1 p.2) | none => "-"))))

def gridRow (N i : Nat) : List (Rat × Rat) :=
  (List.range (N + 1)).map (fun (j : Nat) => (mkRat (Int.ofNat i) N, mkRat (Int.ofNat j) N))

def smallestGap (xs : List Rat) : Option Rat :=
  let gaps := (xs.flatMap (fun a => xs.map (fun b => absR (a - b)))).filter (fun g => g != 0)
  gaps.foldl (fun acc g => match acc with | none => some g | some a => some (if g < a then g else a)) none

/-- margin for a non-separable function on RGB arguments already converted -/
def nsMargin (fn : String) (cb cs : RGB) (viaCmyk : Bool) : String :=
  match fn with
  | "darker_color" | "lighter_color" => ratStr (absR (lum cs - lum cb))
  | "hue" => if viaCmyk then (match smallestGap cs.toList with | some g => ratStr g | none => "-") else "-"
  | "saturation" => if viaCmyk then (match smallestGap cb.toList with | some g => ratStr g | none => "-") else "-"
  | _ => "-"

def rgbStr (c : RGB) : String := ratStr c.r ++ "," ++ ratStr c.g ++ "," ++ ratStr c.b

/-- `blend.<fn> <cb> <cs>` -> `ok n/d` for each separable function -/
def sepAliases : List (String × Cmd) :=
  ["normal", "dissolve", "multiply", "screen", "overlay", "darken", "lighten", "color_dodge", "color_burn",
   "linear_dodge", "linear_burn", "hard_light", "soft_light", "vivid_light", "linear_light", "pin_light",
   "hard_mix", "divide", "difference", "exclusion", "subtract"].map (fun fn =>
    ("blend." ++ fn, fun args => match separable sqrtApprox fn, parseAll args with
      | some f, some [cb, cs] =>
        if hasZero (separableDens fn cb cs) then zeroDiv else okLine (ratStr (f cb cs))
      | _, _ => badRequest))

/-- `blend.<fn> <rb> <gb> <bb> <rs> <gs> <bs>` -> `ok r,g,b` for each non-separable function (RGB path) -/
def nsAliases : List (String × Cmd) :=
  ["hue", "saturation", "color", "luminosity", "darker_color", "lighter_color"].map (fun fn =>
    ("blend." ++ fn, fun args => match nonSeparable fn, parseAll args with
      | some f, some [a, b, c, d, e, g] =>
        if hasZero (nonSeparableDens fn ⟨a, b, c⟩ ⟨d, e, g⟩) then zeroDiv
        else okLine (rgbStr (f ⟨a, b, c⟩ ⟨d, e, g⟩))
      | _, _ => badRequest))

def cmds : List (String × Cmd) := sepAliases ++ nsAliases ++ [
  ("blend.sep", fun
    | fn :: args => match separable sqrtApprox fn, parseAll args with
      | some f, some xs => evalSep fn f (pairs xs)
      | _, _ => badRequest
    | _ => badRequest),
  ("blend.row", fun
    | [fn, n, i] => match separable sqrtApprox fn, n.toNat?, i.toNat? with
      | some f, some N, some i =>
        if N = 0 then badRequest else
        let ps := gridRow N i
        if ps.any (fun p => hasZero (separableDens fn p.1 p.2)) then zeroDiv else
        okLine (" ".intercalate (ps.map (fun p => ratStr (f p.1 p.2))))
      | _, _, _ => badRequest
    | _ => badRequest),
  ("blend.mrow", fun
    | [fn, n, i] => match n.toNat?, i.toNat? with
      | some N, some i =>
        if N = 0 then badRequest else
        (match sepMargin fn with
         | some m => okLine (" ".intercalate ((gridRow N i).map (fun p => ratStr (m p.1 p.2))))
         | none => okLine "-")
      | _, _ => badRequest
    | _ => badRequest),
  ("blend.spec", fun
    | fn :: args => match specSeparable sqrtApprox fn, parseAll args with
      | some f, some xs => okLine (" ".intercalate ((pairs xs).map (fun p => ratStr (f p.1 p.2))))
      | _, _ => badRequest
    | _ => badRequest),
  ("blend.srow", fun
    | [fn, n, i] => match specSeparable sqrtApprox fn, n.toNat?, i.toNat? with
      | some f, some N, some i =>
        if N = 0 then badRequest else
        okLine (" ".intercalate ((gridRow N i).map (fun p => ratStr (f p.1 p.2))))
      | _, _, _ => badRequest
    | _ => badRequest),
  ("blend.ns", fun
    | fn :: path :: args => match nonSeparable fn, parseAll args with
      | some f, some xs =>
        if path == "rgb" then
          let cases := chunks 6 xs
          let ev := cases.map (fun c => match c with
            | [a, b, c, d, e, g] =>
              let cb : RGB := ⟨a, b, c⟩; let cs : RGB := ⟨d, e, g⟩
              if hasZero (nonSeparableDens fn cb cs) then none
              else some (rgbStr (f cb cs) ++ ";" ++ nsMargin fn cb cs false)
            | _ => none)
          if ev.any Option.isNone then zeroDiv else okLine (" ".intercalate (ev.filterMap id))
        else if path == "cmyk" then
          let cases := chunks 8 xs
          let ev := cases.map (fun c => match c with
            | [a, b, c, k, d, e, g, k2] =>
              let pb : CMYK := ⟨a, b, c, k⟩; let ps : CMYK := ⟨d, e, g, k2⟩
              let cb := cmyk2rgb pb; let cs := cmyk2rgb ps
              if hasZero (nonSeparableDens fn cb cs ++ rgb2cmyDens (match kSelOf fn with | some .b => pb.k | _ => ps.k)) then none
              else
                let o := (match nonSeparableCMYK fn with | some g => g pb ps | none => nonSepCMYK .s f pb ps)
                some (ratStr o.c ++ "," ++ ratStr o.m ++ "," ++ ratStr o.y ++ "," ++ ratStr o.k
                      ++ ";" ++ nsMargin fn cb cs true)
            | _ => none)
          if ev.any Option.isNone then zeroDiv else okLine (" ".intercalate (ev.filterMap id))
        else badRequest
      | _, _ => badRequest
    | _ => badRequest),
  ("blend.nsspec", fun
    | fn :: args => match specNonSeparable fn, parseAll args with
      | some f, some xs =>
        okLine (" ".intercalate ((chunks 6 xs).map (fun c => match c with
          | [a, b, c, d, e, g] => rgbStr (f ⟨a, b, c⟩ ⟨d, e, g⟩)
          | _ => "?")))
      | _, _ => badRequest
    | _ => badRequest)
]

end Driver.Blend
