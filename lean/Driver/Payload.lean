/-
Driver commands for the payload classes of the C01 model (Model/Payload*.lean).

  pl.enc <Class> <version> <pad> <tokens>   ->  ok <hex> <written> <wf 0|1> <tokens of the object after write>
                                                err <ErrClass>
  pl.dec <Class> <version> <pad> <hex> <pos> -> ok <tokens> <pos>  |  err <ErrClass>

A value travels as one field of space-separated tokens (the conventions of Driver/Psd.lean: decimal integers, hex
byte strings with `-` for empty, 0/1 for booleans and option tags, lists as a count followed by the items).

Unit 2 classes (value tokens): `EmptyElement` 0 · `NumericElement` <bits> · `IntegerElement` / `ProtectedSetting` /
`ShortIntegerElement` / `ByteElement` / `SheetColorSetting` <n> · `BooleanElement` 0|1 · `StringElement` <n> <code point>*n
(`pad` of `pl.enc` is the writer's padding, of `pl.dec` the reader's) · `Color` <id> <n> <int>*n · `Bytes` <hex> ·
`ReferencePoint` <n> <bits>*n · `SectionDividerSetting` <kind> opt<hex> opt<hex> opt<n> · `UserMask` color <n> <n> ·
`FilterMask` color <n> · `ChannelBlendingRestrictionsSetting` <n> <n>*n · `PixelSourceData2` <n> <hex>*n ·
`MetadataSetting` <hex> <hex> 0|1 (0 <hex> | 1 <n> | 2 block) · `MetadataSettings` <n> item*n ·
`Annotation` kind isOpen flags optionalBlocks <n> int*n <n> int*n color author name modDate marker data ·
`Annotations` major minor <n> item*n. For these the object is not changed by `write`: the fourth answer field is `=`.

Unit 3 classes: `CommonStateInfo` version visible · `ShadowInfo` version blur intensity angle distance color <blend hex> enabled
useGlobalAngle opacity color · glow body := version blur intensity color <blend hex> enabled opacity · `OuterGlowInfo` body
opt color · `InnerGlowInfo` body opt<n> opt color · `BevelInfo` version angle depth blur <hex> <hex> color color style hlOpacity
shOpacity enabled useGlobalAngle direction opt color opt color · `SolidFillInfo` version <hex> color opacity enabled color ·
`EffectsLayer` version <n> (<key hex> <class 0..5> info)*n (0 common, 1 shadow, 2 outer glow, 3 inner glow, 4 bevel, 5 solid fill).

Unit 4 classes: `VirtualMemoryArray` isWritten opt(depth <4> n*4 pixelDepth compression <hex>) · `VirtualMemoryArrayList` version
<n> n* <n> array* · `Pattern` version mode <n> int* name <hex id> opt(<n> (<n> n*)*) list · `Patterns` <n> pattern*.

Unit 5 classes: `LinkedLayer` <kind hex> version <uuid hex> filename <hex> <hex> opt<filesize> opt block opt block
opt(year <n> n* <bits>) opt<data hex> opt str opt<bits> opt<n> (block = the descriptor block tokens of Driver/Descriptor.lean) ·
`LinkedLayers` <n> item*.

Unit 6 classes: `SmartObjectLayerData` <kind hex> version block · `PlacedLayerData` <kind hex> version <uuid hex> page totalPages
antiAlias layerType <n> bits* block2 · `TypeToolObjectSetting` version <n> bits* textVersion block warpVersion block left top right
bottom (`pad` of `pl.enc` is the `padding` argument of `write`).

Unit 1 classes: `LayerInfoBlock` (tokens of a LayerInfo), `TaggedBlock` (signature key payload, payload = `0 <hex>` raw |
`1 <LayerInfo>`), `PSD` (the deep document: header, colour mode data, resources, layer info, global mask info,
typed blocks, image data; `version` is ignored, `pad` is the layer-info padding).
-/
import Driver.Util
import Driver.Psd
import Driver.Descriptor
import PsdVerif.Model.PayloadLayerInfo
import PsdVerif.Model.PayloadSimple
import PsdVerif.Model.PayloadEffects
import PsdVerif.Model.PayloadPatterns
import PsdVerif.Model.PayloadLinked
import PsdVerif.Model.PayloadDescWrap
import PsdVerif.Model.DescriptorTables

namespace Driver.Payload
open PsdVerif PsdVerif.Codec PsdVerif.Psd PsdVerif.Payload Driver Driver.Psd

/-! ### tokens -/

def pPayload : P Payload := do
  let tag ← pNat
  if tag = 0 then do let b ← pBytes; pure (.raw b)
  else do let li ← pLayerInfo; pure (.layerInfo li)

def tPayload : Payload → T
  | .raw b => "0" :: tBytes b
  | .layerInfo li => "1" :: tLayerInfo li

def pTBlock : P TBlock := do
  let sig ← pBytes; let key ← pBytes; let data ← pPayload
  pure ⟨sig, key, data⟩

def tTBlock (t : TBlock) : T := tBytes t.signature ++ tBytes t.key ++ tPayload t.data

def pDeepLam : P DeepLam := do
  let li ← pOpt pLayerInfo; let g ← pOpt pGlm; let t ← pOpt (pList pTBlock)
  pure ⟨li, g, t⟩

def tDeepLam (x : DeepLam) : T :=
  tOpt tLayerInfo x.layerInfo ++ tOpt tGlm x.globalMask ++ tOpt (tList tTBlock) x.taggedBlocks

def pDeepPSD : P DeepPSD := do
  let h ← pHeader; let cmd ← pBytes; let rs ← pList pResource; let lm ← pDeepLam; let im ← pImage
  pure ⟨h, cmd, rs, lm, im⟩

def tDeepPSD (x : DeepPSD) : T :=
  tHeader x.header ++ tBytes x.colorModeData ++ tList tResource x.resources ++ tDeepLam x.layerAndMask ++ tImage x.imageData

/-! ### unit 2 tokens -/

def pStr : P Str := pList pNat
def tStr (s : Str) : T := tList tNat s

def pColor : P Color := do let id ← pNat; let vs ← pList pInt; pure ⟨id, vs⟩
def tColor (c : Color) : T := tNat c.id ++ tList tInt c.values

def pF64 : P UInt64 := do let n ← pNat; pure (UInt64.ofNat n)
def tF64 (x : UInt64) : T := tNat x.toNat

def pDivider : P SectionDividerSetting := do
  let k ← pNat; let s ← pOpt pBytes; let b ← pOpt pBytes; let st ← pOpt pNat
  pure ⟨k, s, b, st⟩
def tDivider (x : SectionDividerSetting) : T := tNat x.kind ++ tOpt tBytes x.signature ++ tOpt tBytes x.blendMode ++ tOpt tNat x.subType

def pUserMask : P UserMask := do let c ← pColor; let o ← pNat; let f ← pNat; pure ⟨c, o, f⟩
def tUserMask (x : UserMask) : T := tColor x.color ++ tNat x.opacity ++ tNat x.flag
def pFilterMask : P FilterMask := do let c ← pColor; let o ← pNat; pure ⟨c, o⟩
def tFilterMask (x : FilterMask) : T := tColor x.color ++ tNat x.opacity

def pMetaData : P MetaData := do
  let tag ← pNat
  if tag = 0 then do let b ← pBytes; pure (.raw b)
  else if tag = 1 then do let n ← pNat; pure (.int n)
  else do let blk ← Driver.Descriptor.pBlock; pure (.desc blk)
def tMetaData : MetaData → T
  | .raw b => "0" :: tBytes b
  | .int n => "1" :: tNat n
  | .desc blk => "2" :: Driver.Descriptor.tBlock blk []
def pMetadataSetting : P MetadataSetting := do
  let s ← pBytes; let k ← pBytes; let c ← pBool; let x ← pMetaData
  pure ⟨s, k, c, x⟩
def tMetadataSetting (x : MetadataSetting) : T := tBytes x.signature ++ tBytes x.key ++ tBool x.copyOnSheet ++ tMetaData x.data

def pAnnotation : P Annotation := do
  let kind ← pBytes; let io ← pNat; let fl ← pNat; let ob ← pNat; let ic ← pList pInt; let po ← pList pInt; let c ← pColor
  let au ← pBytes; let nm ← pBytes; let md ← pBytes; let mk ← pBytes; let dt ← pBytes
  pure ⟨kind, io, fl, ob, ic, po, c, au, nm, md, mk, dt⟩
def tAnnotation (a : Annotation) : T :=
  tBytes a.kind ++ tNat a.isOpen ++ tNat a.flags ++ tNat a.optionalBlocks ++ tList tInt a.iconLocation ++
  tList tInt a.popupLocation ++ tColor a.color ++ tBytes a.author ++ tBytes a.name ++ tBytes a.modDate ++ tBytes a.marker ++
  tBytes a.data
def pAnnotations : P Annotations := do
  let ma ← pNat; let mi ← pNat; let items ← pList pAnnotation
  pure ⟨ma, mi, items⟩
def tAnnotations (x : Annotations) : T := tNat x.majorVersion ++ tNat x.minorVersion ++ tList tAnnotation x.items

def rtb : Descriptor.Tables := Descriptor.realTables

/-! ### unit 3 tokens -/

def pCommon : P CommonStateInfo := do let v ← pNat; let vis ← pNat; pure ⟨v, vis⟩
def tCommon (x : CommonStateInfo) : T := tNat x.version ++ tNat x.visible

def pShadow : P ShadowInfo := do
  let v ← pNat; let bl ← pNat; let it ← pNat; let an ← pInt; let di ← pNat; let c ← pColor; let bm ← pBytes
  let en ← pNat; let ug ← pNat; let op ← pNat; let nc ← pColor
  pure ⟨v, bl, it, an, di, c, bm, en, ug, op, nc⟩
def tShadow (x : ShadowInfo) : T :=
  tNat x.version ++ tNat x.blur ++ tNat x.intensity ++ tInt x.angle ++ tNat x.distance ++ tColor x.color ++ tBytes x.blendMode ++
  tNat x.enabled ++ tNat x.useGlobalAngle ++ tNat x.opacity ++ tColor x.nativeColor

def pGlowBody : P GlowBody := do
  let v ← pNat; let bl ← pNat; let it ← pNat; let c ← pColor; let bm ← pBytes; let en ← pNat; let op ← pNat
  pure ⟨v, bl, it, c, bm, en, op⟩
def tGlowBody (x : GlowBody) : T :=
  tNat x.version ++ tNat x.blur ++ tNat x.intensity ++ tColor x.color ++ tBytes x.blendMode ++ tNat x.enabled ++ tNat x.opacity

def pOuterGlow : P OuterGlowInfo := do let b ← pGlowBody; let n ← pOpt pColor; pure ⟨b, n⟩
def tOuterGlow (x : OuterGlowInfo) : T := tGlowBody x.body ++ tOpt tColor x.nativeColor
def pInnerGlow : P InnerGlowInfo := do let b ← pGlowBody; let i ← pOpt pNat; let n ← pOpt pColor; pure ⟨b, i, n⟩
def tInnerGlow (x : InnerGlowInfo) : T := tGlowBody x.body ++ tOpt tNat x.invert ++ tOpt tColor x.nativeColor

def pBevel : P BevelInfo := do
  let v ← pNat; let an ← pInt; let de ← pNat; let bl ← pNat; let hb ← pBytes; let sb ← pBytes; let hc ← pColor; let sc ← pColor
  let st ← pNat; let ho ← pNat; let so ← pNat; let en ← pNat; let ug ← pNat; let di ← pNat; let rh ← pOpt pColor; let rs ← pOpt pColor
  pure ⟨v, an, de, bl, hb, sb, hc, sc, st, ho, so, en, ug, di, rh, rs⟩
def tBevel (x : BevelInfo) : T :=
  tNat x.version ++ tInt x.angle ++ tNat x.depth ++ tNat x.blur ++ tBytes x.highlightBlendMode ++ tBytes x.shadowBlendMode ++
  tColor x.highlightColor ++ tColor x.shadowColor ++ tNat x.bevelStyle ++ tNat x.highlightOpacity ++ tNat x.shadowOpacity ++
  tNat x.enabled ++ tNat x.useGlobalAngle ++ tNat x.direction ++ tOpt tColor x.realHighlightColor ++ tOpt tColor x.realShadowColor

def pSolidFill : P SolidFillInfo := do
  let v ← pNat; let bm ← pBytes; let c ← pColor; let op ← pNat; let en ← pNat; let nc ← pColor
  pure ⟨v, bm, c, op, en, nc⟩
def tSolidFill (x : SolidFillInfo) : T :=
  tNat x.version ++ tBytes x.blendMode ++ tColor x.color ++ tNat x.opacity ++ tNat x.enabled ++ tColor x.nativeColor

def pEffect : P Effect := do
  let tag ← pNat
  match tag with
  | 0 => do let x ← pCommon; pure (.common x)
  | 1 => do let x ← pShadow; pure (.shadow x)
  | 2 => do let x ← pOuterGlow; pure (.outerGlow x)
  | 3 => do let x ← pInnerGlow; pure (.innerGlow x)
  | 4 => do let x ← pBevel; pure (.bevel x)
  | 5 => do let x ← pSolidFill; pure (.solidFill x)
  | _ => failure
def tEffect : Effect → T
  | .common x => "0" :: tCommon x
  | .shadow x => "1" :: tShadow x
  | .outerGlow x => "2" :: tOuterGlow x
  | .innerGlow x => "3" :: tInnerGlow x
  | .bevel x => "4" :: tBevel x
  | .solidFill x => "5" :: tSolidFill x

def pEffectsLayer : P EffectsLayer := do
  let v ← pNat
  let items ← pList (do let k ← pBytes; let e ← pEffect; pure (k, e))
  pure ⟨v, items⟩
def tEffectsLayer (x : EffectsLayer) : T := tNat x.version ++ tList (fun (kv : B × Effect) => tBytes kv.1 ++ tEffect kv.2) x.items

/-! ### unit 4 tokens -/

def pVMA : P VMA := do
  let iw ← pNat
  let c ← pOpt (do let dp ← pNat; let r ← pList pNat; let pd ← pNat; let cm ← pNat; let dt ← pBytes; pure (⟨dp, r, pd, cm, dt⟩ : VMAContent))
  pure ⟨iw, c⟩
def tVMA (x : VMA) : T :=
  tNat x.isWritten ++ tOpt (fun (c : VMAContent) => tNat c.depth ++ tList tNat c.rectangle ++ tNat c.pixelDepth ++ tNat c.compression ++
    tBytes c.data) x.content
def pVMAL : P VMAL := do let v ← pNat; let r ← pList pNat; let cs ← pList pVMA; pure ⟨v, r, cs⟩
def tVMAL (x : VMAL) : T := tNat x.version ++ tList tNat x.rectangle ++ tList tVMA x.channels
def pPattern : P Pattern := do
  let v ← pNat; let m ← pNat; let pt ← pList pInt; let nm ← pStr; let pid ← pBytes; let ct ← pOpt (pList (pList pNat)); let dt ← pVMAL
  pure ⟨v, m, pt, nm, pid, ct, dt⟩
def tPattern (x : Pattern) : T :=
  tNat x.version ++ tNat x.imageMode ++ tList tInt x.point ++ tStr x.name ++ tBytes x.patternId ++
  tOpt (tList (tList tNat)) x.colorTable ++ tVMAL x.data

/-! ### unit 5 tokens -/

def pBlockD : P Descriptor.Block := Driver.Descriptor.pBlock
def tBlockD (b : Descriptor.Block) : T := Driver.Descriptor.tBlock b []

def pLinked : P LinkedLayer := do
  let kind ← pBytes; let ver ← pNat; let uuid ← pBytes; let fnm ← pStr; let ft ← pBytes; let cr ← pBytes
  let fsz ← pOpt pNat; let ofl ← pOpt pBlockD; let lfl ← pOpt pBlockD
  let ts ← pOpt (do let y ← pNat; let fs ← pList pNat; let sec ← pF64; pure (⟨y, fs, sec⟩ : Timestamp))
  let dt ← pOpt pBytes; let cid ← pOpt pStr; let mt ← pOpt pF64; let ls ← pOpt pNat
  pure ⟨kind, ver, uuid, fnm, ft, cr, fsz, ofl, lfl, ts, dt, cid, mt, ls⟩
def tLinked (x : LinkedLayer) : T :=
  tBytes x.kind ++ tNat x.version ++ tBytes x.uuid ++ tStr x.filename ++ tBytes x.filetype ++ tBytes x.creator ++
  tOpt tNat x.filesize ++ tOpt tBlockD x.openFile ++ tOpt tBlockD x.linkedFile ++
  tOpt (fun (t : Timestamp) => tNat t.year ++ tList tNat t.fields ++ tF64 t.seconds) x.timestamp ++
  tOpt tBytes x.data ++ tOpt tStr x.childId ++ tOpt tF64 x.modTime ++ tOpt tNat x.lockState

/-! ### unit 6 tokens -/

def pBlock2D : P Descriptor.Block2 := Driver.Descriptor.pBlock2
def tBlock2D (b : Descriptor.Block2) : T := Driver.Descriptor.tBlock2 b []

def pSmartObject : P SmartObjectLayerData := do let k ← pBytes; let v ← pNat; let b ← pBlockD; pure ⟨k, v, b⟩
def tSmartObject (x : SmartObjectLayerData) : T := tBytes x.kind ++ tNat x.version ++ tBlockD x.data
def pPlaced : P PlacedLayerData := do
  let k ← pBytes; let v ← pNat; let u ← pBytes; let pg ← pNat; let tp ← pNat; let aa ← pNat; let lt ← pNat; let tr ← pList pF64
  let w ← pBlock2D
  pure ⟨k, v, u, pg, tp, aa, lt, tr, w⟩
def tPlaced (x : PlacedLayerData) : T :=
  tBytes x.kind ++ tNat x.version ++ tBytes x.uuid ++ tNat x.page ++ tNat x.totalPages ++ tNat x.antiAlias ++ tNat x.layerType ++
  tList tF64 x.transform ++ tBlock2D x.warp
def pTypeTool : P TypeToolObjectSetting := do
  let v ← pNat; let tr ← pList pF64; let tv ← pNat; let td ← pBlockD; let wv ← pNat; let w ← pBlockD
  let l ← pInt; let t ← pInt; let r ← pInt; let b ← pInt
  pure ⟨v, tr, tv, td, wv, w, l, t, r, b⟩
def tTypeTool (x : TypeToolObjectSetting) : T :=
  tNat x.version ++ tList tF64 x.transform ++ tNat x.textVersion ++ tBlockD x.textData ++ tNat x.warpVersion ++ tBlockD x.warp ++
  tInt x.left ++ tInt x.top ++ tInt x.right ++ tInt x.bottom

/-! ### answers -/

def encOut (r : Except Err W) (wf : Bool) (after : T) : String :=
  match r with
  | .ok w => okLine (toHexList w.1 ++ "\t" ++ toString w.2 ++ "\t" ++ (if wf then "1" else "0") ++ "\t" ++ join after)
  | .error e => errLine e

/-- a `PCodec` class: parse, write (with the `written` accumulator), WF; `write` does not change the object -/
def pcEnc {α : Type} (c : PCodec α) (p : P α) (toks : String) : String :=
  match parseAll p toks with
  | some v => encOut (c.encW v) (decide (c.WF v)) ["="]
  | none => badRequest

def pcDec {α : Type} (c : PCodec α) (t : α → T) (d : B) (p : Nat) : String := decOut t (c.dec d p)

/-- one class: parse, write (with the `written` accumulator), WF, the object after `write` -/
def encCmd (cls : String) (v pad : Nat) (toks : String) : String :=
  match cls with
  | "EmptyElement" => pcEnc EmptyElement.codec (do let _ ← pNat; pure ()) toks
  | "NumericElement" => pcEnc NumericElement.codec pF64 toks
  | "IntegerElement" => pcEnc IntegerElement.codec pNat toks
  | "ProtectedSetting" => pcEnc IntegerElement.codec pNat toks
  | "ShortIntegerElement" => pcEnc ShortIntegerElement.codec pNat toks
  | "ByteElement" => pcEnc ByteElement.codec pNat toks
  | "BooleanElement" => pcEnc BooleanElement.codec pBool toks
  | "StringElement" => pcEnc (StringElement.codec pad 1) pStr toks
  | "Color" => pcEnc Color.codec pColor toks
  | "Bytes" => pcEnc BytesElement.codec pBytes toks
  | "SheetColorSetting" => pcEnc SheetColorSetting.codec pNat toks
  | "ReferencePoint" => pcEnc ReferencePoint.codec (pList pF64) toks
  | "SectionDividerSetting" => pcEnc SectionDividerSetting.codec pDivider toks
  | "UserMask" => pcEnc UserMask.codec pUserMask toks
  | "FilterMask" => pcEnc FilterMask.codec pFilterMask toks
  | "ChannelBlendingRestrictionsSetting" => pcEnc ChannelBlendingRestrictionsSetting.codec (pList pNat) toks
  | "PixelSourceData2" => pcEnc (PixelSourceData2.codec pad) (pList pBytes) toks
  | "MetadataSetting" => pcEnc (MetadataSetting.codec rtb) pMetadataSetting toks
  | "MetadataSettings" => pcEnc (MetadataSettings.codec rtb) (pList pMetadataSetting) toks
  | "Annotation" => pcEnc Annotation.codec pAnnotation toks
  | "Annotations" => pcEnc Annotations.codec pAnnotations toks
  | "CommonStateInfo" => pcEnc CommonStateInfo.codec pCommon toks
  | "ShadowInfo" => pcEnc ShadowInfo.codec pShadow toks
  | "OuterGlowInfo" => pcEnc OuterGlowInfo.codec pOuterGlow toks
  | "InnerGlowInfo" => pcEnc InnerGlowInfo.codec pInnerGlow toks
  | "BevelInfo" => pcEnc BevelInfo.codec pBevel toks
  | "SolidFillInfo" => pcEnc SolidFillInfo.codec pSolidFill toks
  | "EffectsLayer" => pcEnc EffectsLayer.codec pEffectsLayer toks
  | "VirtualMemoryArray" => pcEnc VMA.codec pVMA toks
  | "VirtualMemoryArrayList" => pcEnc VMAL.codec pVMAL toks
  | "Pattern" => pcEnc Pattern.codec pPattern toks
  | "Patterns" => pcEnc Patterns.codec (pList pPattern) toks
  | "LinkedLayer" => pcEnc (LinkedLayer.codec rtb pad) pLinked toks
  | "LinkedLayers" => pcEnc (LinkedLayers.codec rtb) (pList pLinked) toks
  | "SmartObjectLayerData" => pcEnc (SmartObjectLayerData.codec rtb pad) pSmartObject toks
  | "PlacedLayerData" => pcEnc (PlacedLayerData.codec rtb pad) pPlaced toks
  | "TypeToolObjectSetting" => pcEnc (TypeToolObjectSetting.codec rtb pad) pTypeTool toks
  | "LayerInfoBlock" =>
    (match parseAll pLayerInfo toks with
     | some li => encOut (LayerInfoBlock.encW v pad li) (decide (LayerInfoBlock.WF v li)) (tLayerInfo (blockRefresh li))
     | none => badRequest)
  | "TaggedBlock" =>
    (match parseAll pTBlock toks with
     | some t =>
       encOut (if t.Fits v pad then .ok (t.encP v pad) else .error .structError) (decide (t.WF v pad)) (tTBlock t.refresh)
     | none => badRequest)
  | "PSD" =>
    (match parseAll pDeepPSD toks with
     | some x =>
       encOut ((DeepPSD.enc pad x).map (fun bs => (bs, bs.length))) (decide (x.WF pad)) (tDeepPSD x.refresh)
     | none => badRequest)
  | _ => "unknown-class"

def decCmd (cls : String) (v pad : Nat) (d : B) (p : Nat) : String :=
  match cls with
  | "EmptyElement" => pcDec EmptyElement.codec (fun _ => ["0"]) d p
  | "NumericElement" => pcDec NumericElement.codec tF64 d p
  | "IntegerElement" => pcDec IntegerElement.codec tNat d p
  | "ProtectedSetting" => pcDec IntegerElement.codec tNat d p
  | "ShortIntegerElement" => pcDec ShortIntegerElement.codec tNat d p
  | "ByteElement" => pcDec ByteElement.codec tNat d p
  | "BooleanElement" => pcDec BooleanElement.codec tBool d p
  | "StringElement" => pcDec (StringElement.codec 1 pad) tStr d p
  | "Color" => pcDec Color.codec tColor d p
  | "Bytes" => pcDec BytesElement.codec tBytes d p
  | "SheetColorSetting" => pcDec SheetColorSetting.codec tNat d p
  | "ReferencePoint" => pcDec ReferencePoint.codec (tList tF64) d p
  | "SectionDividerSetting" => pcDec SectionDividerSetting.codec tDivider d p
  | "UserMask" => pcDec UserMask.codec tUserMask d p
  | "FilterMask" => pcDec FilterMask.codec tFilterMask d p
  | "ChannelBlendingRestrictionsSetting" => pcDec ChannelBlendingRestrictionsSetting.codec (tList tNat) d p
  | "PixelSourceData2" => pcDec (PixelSourceData2.codec pad) (tList tBytes) d p
  | "MetadataSetting" => pcDec (MetadataSetting.codec rtb) tMetadataSetting d p
  | "MetadataSettings" => pcDec (MetadataSettings.codec rtb) (tList tMetadataSetting) d p
  | "Annotation" => pcDec Annotation.codec tAnnotation d p
  | "Annotations" => pcDec Annotations.codec tAnnotations d p
  | "CommonStateInfo" => pcDec CommonStateInfo.codec tCommon d p
  | "ShadowInfo" => pcDec ShadowInfo.codec tShadow d p
  | "OuterGlowInfo" => pcDec OuterGlowInfo.codec tOuterGlow d p
  | "InnerGlowInfo" => pcDec InnerGlowInfo.codec tInnerGlow d p
  | "BevelInfo" => pcDec BevelInfo.codec tBevel d p
  | "SolidFillInfo" => pcDec SolidFillInfo.codec tSolidFill d p
  | "EffectsLayer" => pcDec EffectsLayer.codec tEffectsLayer d p
  | "VirtualMemoryArray" => pcDec VMA.codec tVMA d p
  | "VirtualMemoryArrayList" => pcDec VMAL.codec tVMAL d p
  | "Pattern" => pcDec Pattern.codec tPattern d p
  | "Patterns" => pcDec Patterns.codec (tList tPattern) d p
  | "LinkedLayer" => pcDec (LinkedLayer.codec rtb pad) tLinked d p
  | "LinkedLayers" => pcDec (LinkedLayers.codec rtb) (tList tLinked) d p
  | "SmartObjectLayerData" => pcDec (SmartObjectLayerData.codec rtb pad) tSmartObject d p
  | "PlacedLayerData" => pcDec (PlacedLayerData.codec rtb pad) tPlaced d p
  | "TypeToolObjectSetting" => pcDec (TypeToolObjectSetting.codec rtb pad) tTypeTool d p
  | "LayerInfoBlock" => decOut tLayerInfo (LayerInfoBlock.dec v d p)
  | "TaggedBlock" => decOut (tOpt tTBlock) (TBlock.dec v pad d p)
  | "PSD" => decOut tDeepPSD (DeepPSD.read d p)
  | _ => "unknown-class"

def cmds : List (String × Cmd) := [
  ("pl.enc", fun
    | [cls, v, a, t] => match v.toNat?, a.toNat? with
      | some v, some pad => encCmd cls v pad t
      | _, _ => badRequest
    | _ => badRequest),
  ("pl.dec", fun
    | [cls, v, a, h, p] => match v.toNat?, a.toNat?, p.toNat? with
      | some v, some pad, some p => withBytes h fun d => decCmd cls v pad d p
      | _, _, _ => badRequest
    | _ => badRequest)
]

end Driver.Payload
