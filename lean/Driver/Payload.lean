/-
Driver commands for the payload classes of the C01 model (Model/Payload*.lean).

  pl.enc <Class> <version> <pad> <tokens>   ->  ok <hex> <written> <wf 0|1> <tokens of the object after write>
                                                err <ErrClass>
  pl.dec <Class> <version> <pad> <hex> <pos> -> ok <tokens> <pos>  |  err <ErrClass>

A value travels as one field of space-separated tokens (the conventions of Driver/Psd.lean: decimal integers, hex
byte strings with `-` for empty, 0/1 for booleans and option tags, lists as a count followed by the items).

Classes: `LayerInfoBlock` (tokens of a LayerInfo), `TaggedBlock` (signature key payload, payload = `0 <hex>` raw |
`1 <LayerInfo>`), `PSD` (the deep document: header, colour mode data, resources, layer info, global mask info,
typed blocks, image data; `version` is ignored, `pad` is the layer-info padding).
-/
import Driver.Util
import Driver.Psd
import PsdVerif.Model.PayloadLayerInfo

namespace Driver.Payload
open PsdVerif PsdVerif.Codec PsdVerif.Psd PsdVerif.Payload Driver Driver.Psd

/-! ### tokens -/

def pPayload : P Payload := do
  let tag ← pNat
  if tag = 0 then do let b ← pBytes; pure (.raw b)
  else do let li ← pLayerInfo; pure (.layerInfo li)

def tPayload : Payload → T
  | .raw b => "0" :: tBytes b
  | .layerInfo li => "1" :: tLayerInfo li

def pTBlock : P TBlock := do
  let sig ← pBytes; let key ← pBytes; let data ← pPayload
  pure ⟨sig, key, data⟩

def tTBlock (t : TBlock) : T := tBytes t.signature ++ tBytes t.key ++ tPayload t.data

def pDeepLam : P DeepLam := do
  let li ← pOpt pLayerInfo; let g ← pOpt pGlm; let t ← pOpt (pList pTBlock)
  pure ⟨li, g, t⟩

def tDeepLam (x : DeepLam) : T :=
  tOpt tLayerInfo x.layerInfo ++ tOpt tGlm x.globalMask ++ tOpt (tList tTBlock) x.taggedBlocks

def pDeepPSD : P DeepPSD := do
  let h ← pHeader; let cmd ← pBytes; let rs ← pList pResource; let lm ← pDeepLam; let im ← pImage
  pure ⟨h, cmd, rs, lm, im⟩

def tDeepPSD (x : DeepPSD) : T :=
  tHeader x.header ++ tBytes x.colorModeData ++ tList tResource x.resources ++ tDeepLam x.layerAndMask ++ tImage x.imageData

/-! ### answers -/

def encOut (r : Except Err W) (wf : Bool) (after : T) : String :=
  match r with
  | .ok w => okLine (toHexList w.1 ++ "\t" ++ toString w.2 ++ "\t" ++ (if wf then "1" else "0") ++ "\t" ++ join after)
  | .error e => errLine e

/-- one class: parse, write (with the `written` accumulator), WF, the object after `write` -/
def encCmd (cls : String) (v pad : Nat) (toks : String) : String :=
  match cls with
  | "LayerInfoBlock" =>
    (match parseAll pLayerInfo toks with
     | some li => encOut (LayerInfoBlock.encW v pad li) (decide (LayerInfoBlock.WF v li)) (tLayerInfo (blockRefresh li))
     | none => badRequest)
  | "TaggedBlock" =>
    (match parseAll pTBlock toks with
     | some t =>
       encOut (if t.Fits v pad then .ok (t.encP v pad) else .error .structError) (decide (t.WF v pad)) (tTBlock t.refresh)
     | none => badRequest)
  | "PSD" =>
    (match parseAll pDeepPSD toks with
     | some x =>
       encOut ((DeepPSD.enc pad x).map (fun bs => (bs, bs.length))) (decide (x.WF pad)) (tDeepPSD x.refresh)
     | none => badRequest)
  | _ => "unknown-class"

def decCmd (cls : String) (v pad : Nat) (d : B) (p : Nat) : String :=
  match cls with
  | "LayerInfoBlock" => decOut tLayerInfo (LayerInfoBlock.dec v d p)
  | "TaggedBlock" => decOut (tOpt tTBlock) (TBlock.dec v pad d p)
  | "PSD" => decOut tDeepPSD (DeepPSD.read d p)
  | _ => "unknown-class"

def cmds : List (String × Cmd) := [
  ("pl.enc", fun
    | [cls, v, a, t] => match v.toNat?, a.toNat? with
      | some v, some pad => encCmd cls v pad t
      | _, _ => badRequest
    | _ => badRequest),
  ("pl.dec", fun
    | [cls, v, a, h, p] => match v.toNat?, a.toNat?, p.toNat? with
      | some v, some pad, some p => withBytes h fun d => decCmd cls v pad d p
      | _, _, _ => badRequest
    | _ => badRequest)
]

end Driver.Payload
