import Driver.Util
import Driver.Pixels
import PsdVerif.Model.Merged

namespace Driver.Merged
open PsdVerif PsdVerif.Pixels PsdVerif.Merged Driver Driver.Pixels

def srcStr : PlaneSrc → String
  | .colorFlat k => "F" ++ toString k
  | .color k => "C" ++ toString k
  | .alpha => "A"
  | .old k => "O" ++ toString k
  | .fill => "1"

def parseOp (n : String) : Option Op := Op.all.find? (fun o => o.name == n)

def cmds : List (String × Cmd) := [
  -- merged.dirty <op,op,...>  →  1 when the history sets `_updated_layers`
  ("merged.dirty", fun
    | [ops] => match (if ops == "-" then some [] else (ops.splitOn ",").mapM parseOp) with
      | some l => okLine (if dirtyAfter false l then "1" else "0")
      | none => badRequest
    | _ => badRequest),
  -- merged.routes <colour mode> <channels> <depth> <mergedTransparency 0/1> <alpha ids> <layer count> <old readable 0/1>
  --   → "none" | sources of the planes ; planes expected ; bytes per plane
  ("merged.routes", fun
    | [c, ch, d, mt, ids, lc, rd] =>
      match parseCMode c, ch.toNat?, d.toNat?, parseNatList ids, lc.toNat? with
      | some c, some ch, some d, some ids, some lc =>
        let hdr : Header := { cmode := c, channels := ch, depth := d, width := 1, height := 1 }
        let m : Meta := { header := hdr, mergedTransparency := mt == "1", alphaIds := ids, layerCount := lc }
        (match mergedRoutes m (rd == "1") with
         | .error e => errLine e
         | .ok none => okLine "none"
         | .ok (some rs) => okLine (";".intercalate (rs.map srcStr)))
      | _, _, _, _, _ => badRequest
    | _ => badRequest),
  -- merged.geometry <compression 0..3> <payload length> <channels> <depth> <width> <height>
  --   → does get_data succeed, and with how many planes of how many bytes
  ("merged.geometry", fun
    | [cp, len, ch, d, w, h] =>
      match cp.toNat?, len.toNat?, ch.toNat?, d.toNat?, w.toNat?, h.toNat? with
      | some cp, some len, some ch, some d, some w, some h =>
        let comp : Comp := match cp with | 0 => .raw | 1 => .rle | 2 => .zip | _ => .zipPred
        let hdr : Header := { cmode := .rgb, channels := ch, depth := d, width := w, height := h }
        (match getData { comp := comp, payload := List.replicate len 0 } hdr with
         | .error e => errLine e
         | .ok ps => okLine (toString ps.length ++ "\t" ++ ",".intercalate (ps.map fun p => toString p.length)))
      | _, _, _, _, _, _ => badRequest
    | _ => badRequest)
]

end Driver.Merged
