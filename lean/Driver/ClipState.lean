import Driver.Util
import Driver.Clip
import PsdVerif.Model.ClipState
import PsdVerif.Generated.ClipCurrent

/-!
Driver command of the C15 state model (kept current).

`clipst.hist <tree0> <op1> <mode1> <tree1> <op2> <mode2> <tree2> …`
    tree: nodes separated by spaces, a node is `<id>:<d>` with d = clipping + 4*passThrough, a group is
          `<id>:<d>[ … ]` (children bottom first); `-` = no layers. Identities are those of the Python objects.
    The document is opened with `tree0` (fresh attributes) in the default mode; every step is ONE call of the
    public mutator `op` (a row name of `Generated/ClipCurrent.lean`), after which the real document has the given
    mode and tree. The model runs the row's segments as the table describes them (`callHist`).
    answer: ok <state0>|<state1>|…   a state lists `id:t|f:clipids` sorted by id (`-` if empty); a step whose
    mutator has no row in the table answers `norow` for that state and installs the inputs without recomputing.
-/
namespace Driver.ClipState
open PsdVerif PsdVerif.Clip PsdVerif.ClipState Driver

partial def parseNat (cs : List Char) (acc : Nat) (any : Bool) : Option (Nat × List Char) :=
  match cs with
  | c :: rest => if '0' ≤ c ∧ c ≤ '9' then parseNat rest (acc * 10 + (c.toNat - '0'.toNat)) true
                 else if any then some (acc, cs) else none
  | [] => if any then some (acc, []) else none

partial def parseNodes (toks : List Char) : Option (List T × List Char) :=
  match toks with
  | [] => some ([], [])
  | ']' :: rest => some ([], ']' :: rest)
  | ' ' :: rest => parseNodes rest
  | cs =>
    match parseNat cs 0 false with
    | some (i, ':' :: d :: rest) =>
      if '0' ≤ d ∧ d ≤ '7' then
        let n := d.toNat - '0'.toNat
        let a : Attr := ⟨i, n % 2 == 1, (n / 4) % 2 == 1, [], true⟩
        match rest with
        | '[' :: rest' =>
          match parseNodes rest' with
          | some (kids, ']' :: rest'') =>
            match parseNodes rest'' with
            | some (sibs, r) => some (.group a kids :: sibs, r)
            | none => none
          | _ => none
        | _ =>
          match parseNodes rest with
          | some (sibs, r) => some (.layer a :: sibs, r)
          | none => none
      else none
    | _ => none

def parseTree (s : String) : Option (List T) :=
  if s == "-" then some [] else
  match parseNodes s.toList with
  | some (t, []) => some t
  | _ => none

def stateStr (s : St) : String :=
  let es := (stored s.tree).foldr Driver.Clip.insertSorted []
  if es.isEmpty then "-" else " ".intercalate (es.map Driver.Clip.entryStr)

def hasRow (t : Table) (op : String) : Bool := (t.rows.find? (fun r => r.name == op)).isSome

partial def steps (t : Table) (s : St) : List String → Option (List String)
  | [] => some []
  | op :: m :: tr :: rest =>
    match Driver.Clip.mode? m, parseTree tr with
    | some m, some tr =>
      let new : St := ⟨m, tr⟩
      if hasRow t op then
        let s' := runHist t s (callHist t op new)
        (steps t s' rest).map (stateStr s' :: ·)
      else
        let s' : St := { mode := m, tree := adoptKids (fun i => findAttr i s.tree) tr }
        (steps t s' rest).map ("norow" :: ·)
    | _, _ => none
  | _ => none

def cmds : List (String × Cmd) := [
  ("clipst.hist", fun
    | t0 :: rest =>
      match parseTree t0 with
      | some tr =>
        let t := PsdVerif.Generated.ClipCurrent.table
        let s0 := openSt t ⟨.photoshop, tr⟩
        match steps t s0 rest with
        | some out => okLine ("|".intercalate (stateStr s0 :: out))
        | none => badRequest
      | none => badRequest
    | _ => badRequest)
]

end Driver.ClipState
