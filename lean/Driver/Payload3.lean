/-
Driver commands for the payload classes of the third batch (Model/Payload3*.lean): image-resource payloads, adjustments,
vector data, filter effects.

  pl3.enc <Class> <version> <pad> <tokens>    ->  ok <hex> <written> <wf 0|1> =      |  err <ErrClass>
  pl3.dec <Class> <version> <pad> <hex> <pos> ->  ok <tokens> <pos>                  |  err <ErrClass>
  pl3.fmt <format string>                     ->  ok <size> <number of value fields> |  err ValueError

The protocol and the token conventions are those of Driver/Payload.lean. A row of a `struct` format travels as
`<n> item*n`, an item as `0 <int>` or `1 <hex>`; pairs are the concatenation of their parts; a unicode string is
`<n> <code unit>*n`; a descriptor block is the block of Driver/Descriptor.lean.
`version` is unused by these classes (none of them reads the `version` keyword); `pad` is the `padding` argument of
`write` for the classes that take one.
-/
import Driver.Util
import Driver.Psd
import Driver.Descriptor
import Driver.Payload
import PsdVerif.Model.Payload3Resources
import PsdVerif.Model.Payload3Adjust
import PsdVerif.Model.Payload3Vector
import PsdVerif.Model.Payload3Filter
import PsdVerif.Model.Payload3Typed

namespace Driver.Payload3
open PsdVerif PsdVerif.Codec PsdVerif.Payload PsdVerif.Payload3 Driver Driver.Psd Driver.Payload

/-! ### tokens -/

def pFV : P FV := do
  let tag ← pNat
  if tag = 0 then do let z ← pInt; pure (.int z) else do let b ← pBytes; pure (.bytes b)
def tFV : FV → T
  | .int z => "0" :: tInt z
  | .bytes b => "1" :: tBytes b

def pRow : P Row := pList pFV
def tRow (r : Row) : T := tList tFV r

def pPair {α β : Type} (a : P α) (b : P β) : P (α × β) := do let x ← a; let y ← b; pure (x, y)
def tPair {α β : Type} (a : α → T) (b : β → T) (v : α × β) : T := a v.1 ++ b v.2

def pPrintFlags : P PrintFlags := do let f ← pRow; let o ← pOpt pRow; pure ⟨f, o⟩
def tPrintFlags (x : PrintFlags) : T := tRow x.flags ++ tOpt tRow x.printFlags

def pThumbnail : P Thumbnail := do let h ← pRow; let t ← pRow; let d ← pBytes; pure ⟨h, t, d⟩
def tThumbnail (x : Thumbnail) : T := tRow x.head ++ tRow x.tail ++ tBytes x.data

def pSliceV6 : P SliceV6 := do
  let head ← pRow; let assoc ← pOpt pRow; let name ← pStr; let st ← pRow; let bbox ← pRow
  let url ← pStr; let target ← pStr; let message ← pStr; let altTag ← pStr; let html ← pRow; let cellText ← pStr
  let align ← pRow; let argb ← pRow; let data ← pOpt pBlockD
  pure ⟨head, assoc, name, st, bbox, url, target, message, altTag, html, cellText, align, argb, data⟩
def tSliceV6 (x : SliceV6) : T :=
  tRow x.head ++ tOpt tRow x.associatedId ++ tStr x.name ++ tRow x.sliceType ++ tRow x.bbox ++ tStr x.url ++ tStr x.target ++
  tStr x.message ++ tStr x.altTag ++ tRow x.cellIsHtml ++ tStr x.cellText ++ tRow x.align ++ tRow x.argb ++ tOpt tBlockD x.data

def pSlicesV6 : P SlicesV6 := do let b ← pRow; let n ← pStr; let items ← pList pSliceV6; pure ⟨b, n, items⟩
def tSlicesV6 (x : SlicesV6) : T := tRow x.bbox ++ tStr x.name ++ tList tSliceV6 x.items

def pSlices : P Slices := do
  let v ← pNat
  let tag ← pNat
  if tag = 0 then do let s ← pSlicesV6; pure ⟨v, .v6 s⟩ else do let b ← pBlockD; pure ⟨v, .desc b⟩
def tSlices (x : Slices) : T :=
  tNat x.version ++ (match x.data with
    | .v6 s => "0" :: tSlicesV6 s
    | .desc b => "1" :: tBlockD b)

/-! ### the class table -/

structure Entry where
  enc : Nat → Nat → String → String
  dec : Nat → Nat → B → Nat → String

def entry {α : Type} (c : Nat → Nat → PCodec α) (p : P α) (t : α → T) : Entry :=
  ⟨fun v pad toks => pcEnc (c v pad) p toks, fun v pad d pos => pcDec (c v pad) t d pos⟩

def fixed {α : Type} (c : PCodec α) (p : P α) (t : α → T) : Entry := entry (fun _ _ => c) p t

def unit7 : List (String × Entry) := [
  ("AlphaIdentifiers", fixed AlphaIdentifiers.codec (pList pRow) (tList tRow)),
  ("AlphaNamesPascal", fixed AlphaNamesPascal.codec (pList pBytes) (tList tBytes)),
  ("AlphaNamesUnicode", fixed AlphaNamesUnicode.codec (pList pStr) (tList tStr)),
  ("AlphaChannel", fixed AlphaChannel.codec pRow tRow),
  ("DisplayInfo", fixed DisplayInfo.codec (pPair pRow (pList pRow)) (tPair tRow (tList tRow))),
  ("Byte", fixed Byte.codec pRow tRow),
  ("GridGuidesInfo", fixed GridGuidesInfo.codec (pPair pRow (pList pRow)) (tPair tRow (tList tRow))),
  ("HalftoneScreen", fixed HalftoneScreen.codec pRow tRow),
  ("HalftoneScreens", fixed HalftoneScreens.codec (pList pRow) (tList tRow)),
  ("Integer", fixed Integer.codec pRow tRow),
  ("LayerGroupEnabledIDs", fixed LayerGroupEnabledIDs.codec (pList pRow) (tList tRow)),
  ("LayerGroupInfo", fixed LayerGroupInfo.codec (pList pRow) (tList tRow)),
  ("LayerSelectionIDs", fixed LayerSelectionIDs.codec (pList pRow) (tList tRow)),
  ("ShortInteger", fixed ShortInteger.codec pRow tRow),
  ("PascalString", fixed PascalString.codec pBytes tBytes),
  ("PixelAspectRatio", fixed PixelAspectRatio.codec pRow tRow),
  ("PrintFlags", fixed PrintFlags.codec pPrintFlags tPrintFlags),
  ("PrintFlagsInfo", fixed PrintFlagsInfo.codec pRow tRow),
  ("PrintScale", fixed PrintScale.codec pRow tRow),
  ("ResoulutionInfo", fixed ResolutionInfo.codec pRow tRow),
  ("SliceV6", fixed (SliceV6.codec rtb) pSliceV6 tSliceV6),
  ("SlicesV6", fixed (SlicesV6.codec rtb) pSlicesV6 tSlicesV6),
  ("Slices", fixed (Slices.codec rtb) pSlices tSlices),
  ("ThumbnailResource", fixed Thumbnail.codec pThumbnail tThumbnail),
  ("ThumbnailResourceV4", fixed Thumbnail.codec pThumbnail tThumbnail),
  ("TransferFunction", fixed TransferFunction.codec (pPair pRow pRow) (tPair tRow tRow)),
  ("TransferFunctions", fixed TransferFunctions.codec (pList (pPair pRow pRow)) (tList (tPair tRow tRow))),
  ("URLItem", fixed URLItem.codec (pPair pRow pStr) (tPair tRow tStr)),
  ("URLList", fixed URLList.codec (pList (pPair pRow pStr)) (tList (tPair tRow tStr))),
  ("VersionInfo", fixed VersionInfo.codec (pPair pRow (pPair pStr (pPair pStr pRow))) (tPair tRow (tPair tStr (tPair tStr tRow)))),
  ("DescriptorResource", fixed (DescriptorResource.codec rtb) pBlockD tBlockD),
  ("DescriptorBlock", entry (fun _ pad => DescriptorPayload.codec rtb pad) pBlockD tBlockD),
  ("DescriptorBlock2", entry (fun _ pad => Descriptor2Payload.codec rtb pad) pBlock2D tBlock2D)
]

/-! ### unit 8 tokens -/

def pLevels : P Levels := do let v ← pNat; let ev ← pOpt pNat; let items ← pList pRow; pure ⟨v, ev, items⟩
def tLevels (x : Levels) : T := tNat x.version ++ tOpt tNat x.extraVersion ++ tList tRow x.items

def pPhotoFilter : P PhotoFilter := do let v ← pNat; let a ← pRow; let b ← pRow; let c ← pRow; pure ⟨v, a, b, c⟩
def tPhotoFilter (x : PhotoFilter) : T := tNat x.version ++ tRow x.xyz ++ tRow x.color ++ tRow x.tail

def pCurvePoints : P CurvePoints := do
  let tag ← pNat
  if tag = 0 then do let r ← pRow; pure (.map r) else do let ps ← pList pRow; pure (.pairs ps)
def tCurvePoints : CurvePoints → T
  | .map r => "0" :: tRow r
  | .pairs ps => "1" :: tList tRow ps
def pCurvesExtraItem : P CurvesExtraItem := do let c ← pRow; let ps ← pCurvePoints; pure ⟨c, ps⟩
def tCurvesExtraItem (x : CurvesExtraItem) : T := tRow x.channelId ++ tCurvePoints x.points
def pCurvesExtraMarker : P CurvesExtraMarker := do let v ← pNat; let items ← pList pCurvesExtraItem; pure ⟨v, items⟩
def tCurvesExtraMarker (x : CurvesExtraMarker) : T := tNat x.version ++ tList tCurvesExtraItem x.items
def pCurveData : P CurveData := do
  let tag ← pNat
  if tag = 0 then do let ms ← pList pRow; pure (.maps ms) else do let cs ← pList (pList pRow); pure (.curves cs)
def tCurveData : CurveData → T
  | .maps ms => "0" :: tList tRow ms
  | .curves cs => "1" :: tList (tList tRow) cs
def pCurves : P Curves := do
  let m ← pBool; let v ← pNat; let c ← pNat; let d ← pCurveData; let e ← pOpt pCurvesExtraMarker
  pure ⟨m, v, c, d, e⟩
def tCurves (x : Curves) : T :=
  tBool x.isMap ++ tNat x.version ++ tNat x.countMap ++ tCurveData x.data ++ tOpt tCurvesExtraMarker x.extra

/-- the marker on its own stream: the reader that remembers where it failed, seen as a plain reader -/
def markerCodec (isMap : Bool) : PCodec CurvesExtraMarker where
  encT := CurvesExtraMarker.encT
  Fits := CurvesExtraMarker.Fits
  decFits := inferInstance
  encP := CurvesExtraMarker.encP
  dec := fun d p => match CurvesExtraMarker.decE isMap d p with
    | .ok r => .ok r
    | .error (e, _) => .error e
  consumed x := x.encT.length
  WF x := x.version ∈ G3.curvesExtraVersions ∧ ∀ i ∈ x.items, Curves.itemWF isMap i
  decWF _ := inferInstance

def pGradientMap : P GradientMap.Val :=
  pPair (pPair pRow pBytes) (pPair pStr (pPair (pList pRow) (pPair (pList pRow) (pPair pRow (pPair pRow (pPair pRow (pPair pRow
    (pPair pRow pRow))))))))
def tGradientMap : GradientMap.Val → T :=
  tPair (tPair tRow tBytes) (tPair tStr (tPair (tList tRow) (tPair (tList tRow) (tPair tRow (tPair tRow (tPair tRow (tPair tRow
    (tPair tRow tRow))))))))

def unit8 : List (String × Entry) := [
  ("BrightnessContrast", fixed BrightnessContrast.codec pRow tRow),
  ("ColorBalance", fixed ColorBalance.codec (pPair pRow (pPair pRow (pPair pRow pRow))) (tPair tRow (tPair tRow (tPair tRow tRow)))),
  ("ColorLookup", entry (fun _ pad => ColorLookup.codec rtb pad) pBlock2D tBlock2D),
  ("ChannelMixer", fixed ChannelMixer.codec (pPair pRow (pPair pRow pBytes)) (tPair tRow (tPair tRow tBytes))),
  ("Curves", fixed Curves.codec pCurves tCurves),
  ("CurvesExtraMarker", entry (fun v _ => markerCodec (v != 0)) pCurvesExtraMarker tCurvesExtraMarker),
  ("GradientMap", fixed GradientMap.codec pGradientMap tGradientMap),
  ("ColorStop", fixed ColorStop.codec pRow tRow),
  ("TransparencyStop", fixed TransparencyStop.codec pRow tRow),
  ("Exposure", entry (fun _ pad => Exposure.codec pad) pRow tRow),
  ("HueSaturation", fixed HueSaturation.codec (pPair pRow (pPair pRow (pPair pRow (pList (pPair pRow pRow)))))
    (tPair tRow (tPair tRow (tPair tRow (tList (tPair tRow tRow)))))),
  ("Levels", fixed Levels.codec pLevels tLevels),
  ("LevelRecord", fixed LevelRecord.codec pRow tRow),
  ("PhotoFilter", fixed PhotoFilter.codec pPhotoFilter tPhotoFilter),
  ("SelectiveColor", fixed SelectiveColor.codec (pPair pRow (pList pRow)) (tPair tRow (tList tRow)))
]

/-! ### unit 9 tokens: a path record is `<tag> ...`: 0 fill | 1 initial row | 2 clipboard row | 3 knot sel row | 4 subpath sel row <n> item*n -/

partial def pPItem : P PItem := do
  let tag ← pNat
  match tag with
  | 0 => pure .fill
  | 1 => do let r ← pRow; pure (.initial r)
  | 2 => do let r ← pRow; pure (.clipboard r)
  | 3 => do let s ← pNat; let r ← pRow; pure (.knot s r)
  | 4 => do let s ← pNat; let h ← pRow; let n ← pNat; let items ← pRep pPItem n; pure (.subpath s h items)
  | _ => failure

partial def tPItem : PItem → T
  | .fill => ["0"]
  | .initial r => "1" :: tRow r
  | .clipboard r => "2" :: tRow r
  | .knot s r => "3" :: (tNat s ++ tRow r)
  | .subpath s h items => "4" :: (tNat s ++ tRow h ++ (toString items.length :: items.flatMap tPItem))

def pVMS : P VectorMaskSetting := do let h ← pRow; let xs ← pList pPItem; pure ⟨h, xs⟩
def tVMS (x : VectorMaskSetting) : T := tRow x.head ++ tList tPItem x.path

def pVSCS : P VectorStrokeContentSetting := do
  let k ← pBytes; let b ← pBlockD
  pure ⟨k, b.version, b.name, b.classID, b.items⟩
def tVSCS (x : VectorStrokeContentSetting) : T := tBytes x.key ++ tBlockD ⟨x.version, x.name, x.classID, x.items⟩

def unit9 : List (String × Entry) := [
  ("PathRecord", fixed PItem.codec pPItem tPItem),
  ("Path", entry (fun _ pad => Path.codec pad) (pList pPItem) (tList tPItem)),
  ("VectorMaskSetting", fixed VectorMaskSetting.codec pVMS tVMS),
  ("VectorStrokeContentSetting", entry (fun _ pad => VectorStrokeContentSetting.codec rtb pad) pVSCS tVSCS)
]

/-! ### unit 10 tokens -/

def pFEChannel : P FEChannel := do
  let iw ← pNat
  let c ← pOpt (do let c ← pNat; let d ← pBytes; pure (c, d))
  pure ⟨iw, c⟩
def tFEChannel (x : FEChannel) : T := tNat x.isWritten ++ tOpt (fun (cd : Nat × B) => tNat cd.1 ++ tBytes cd.2) x.content
def pFEExtra : P FEExtra := do let iw ← pNat; let r ← pRow; let c ← pNat; let d ← pBytes; pure ⟨iw, r, c, d⟩
def tFEExtra (x : FEExtra) : T := tNat x.isWritten ++ tRow x.rectangle ++ tNat x.compression ++ tBytes x.data
def pFilterEffect : P FilterEffect :=
  pPair pBytes (pPair pRow (pPair (pPair pRow (pPair pRow (pList pFEChannel))) (pOpt pFEExtra)))
def tFilterEffect : FilterEffect → T :=
  tPair tBytes (tPair tRow (tPair (tPair tRow (tPair tRow (tList tFEChannel))) (tOpt tFEExtra)))

def unit10 : List (String × Entry) := [
  ("FilterEffectChannel", fixed FEChannel.codec pFEChannel tFEChannel),
  ("FilterEffectExtra", fixed FEExtra.codec pFEExtra tFEExtra),
  ("FilterEffect", fixed FilterEffect.codec pFilterEffect tFilterEffect),
  ("FilterEffects", fixed FilterEffects.codec (pPair pRow (pList pFilterEffect)) (tPair tRow (tList tFilterEffect)))
]

/-! ### typed image resources: `<sig> <key> <name> (0 <hex> | 1 <ClassName> value)`; the document: header, colour mode data,
`<n>` typed resources, the deep layer-and-mask section of Driver/Payload.lean, image data -/

def RClass.p : (c : RClass) → P c.Val
  | .resolutionInfo => pRow | .alphaNamesPascal => pList pBytes | .pascalString => pBytes | .color => pColor | .printFlags => pPrintFlags
  | .halftoneScreens => pList pRow | .transferFunctions => pList (pPair pRow pRow) | .shortInteger => pRow | .layerGroupInfo => pList pRow
  | .gridGuidesInfo => pPair pRow (pList pRow) | .thumbnailV4 => pThumbnail | .byte => pRow | .thumbnail => pThumbnail | .integer => pRow
  | .alphaNamesUnicode => pList pStr | .slices => pSlices | .stringElement => pStr | .alphaIdentifiers => pList pRow
  | .urlList => pList (pPair pRow pStr) | .versionInfo => pPair pRow (pPair pStr (pPair pStr pRow)) | .printScale => pRow
  | .pixelAspectRatio => pRow | .descriptorBlock => pBlockD | .layerSelectionIDs => pList pRow | .layerGroupEnabledIDs => pList pRow
  | .displayInfo => pPair pRow (pList pRow) | .printFlagsInfo => pRow

def RClass.t : (c : RClass) → c.Val → T
  | .resolutionInfo => tRow | .alphaNamesPascal => tList tBytes | .pascalString => tBytes | .color => tColor | .printFlags => tPrintFlags
  | .halftoneScreens => tList tRow | .transferFunctions => tList (tPair tRow tRow) | .shortInteger => tRow | .layerGroupInfo => tList tRow
  | .gridGuidesInfo => tPair tRow (tList tRow) | .thumbnailV4 => tThumbnail | .byte => tRow | .thumbnail => tThumbnail | .integer => tRow
  | .alphaNamesUnicode => tList tStr | .slices => tSlices | .stringElement => tStr | .alphaIdentifiers => tList tRow
  | .urlList => tList (tPair tRow tStr) | .versionInfo => tPair tRow (tPair tStr (tPair tStr tRow)) | .printScale => tRow
  | .pixelAspectRatio => tRow | .descriptorBlock => tBlockD | .layerSelectionIDs => tList tRow | .layerGroupEnabledIDs => tList tRow
  | .displayInfo => tPair tRow (tList tRow) | .printFlagsInfo => tRow

def pResData : P ResData := do
  let tag ← pNat
  if tag = 0 then do let b ← pBytes; pure (.raw b)
  else do
    let nm ← next
    match RClass.ofName nm with
    | some c => do let v ← RClass.p c; pure (.typed c v)
    | none => failure
def tResData : ResData → T
  | .raw b => "0" :: tBytes b
  | .typed c v => "1" :: c.name :: RClass.t c v

def pTRes : P TRes := do let s ← pBytes; let k ← pNat; let n ← pBytes; let d ← pResData; pure ⟨s, k, n, d⟩
def tTRes (r : TRes) : T := tBytes r.signature ++ tNat r.key ++ tBytes r.name ++ tResData r.data

def pResPSD : P ResPSD := do
  let h ← pHeader; let cmd ← pBytes; let rs ← pList pTRes; let lm ← pDeepLam; let im ← pImage
  pure ⟨h, cmd, rs, lm, im⟩
def tResPSD (x : ResPSD) : T :=
  tHeader x.header ++ tBytes x.colorModeData ++ tList tTRes x.resources ++ tDeepLam x.layerAndMask ++ tImage x.imageData

def typedEnc (cls : String) (pad : Nat) (toks : String) : Option String :=
  match cls with
  | "ImageResource" => some (match parseAll pTRes toks with
    | some r => encOut (if r.Fits rtb then .ok (r.encP rtb) else .error .structError) (decide (r.WF rtb)) ["="]
    | none => badRequest)
  | "ResPSD" => some (match parseAll pResPSD toks with
    | some x => encOut ((ResPSD.enc rtb pad x).map (fun bs => (bs, bs.length))) (decide (x.WF rtb pad)) (tResPSD x.refresh)
    | none => badRequest)
  | _ => none

def typedDec (cls : String) (d : B) (p : Nat) : Option String :=
  match cls with
  | "ImageResource" => some (decOut tTRes (TRes.dec rtb d p))
  | "ResPSD" => some (decOut tResPSD (ResPSD.read rtb d p))
  | _ => none

def classes : List (String × Entry) := unit7 ++ unit8 ++ unit9 ++ unit10

def lookup (cls : String) : Option Entry := (classes.find? (fun e => e.1 == cls)).map (·.2)

def cmds : List (String × Cmd) := [
  ("pl3.enc", fun
    | [cls, v, a, t] => match v.toNat?, a.toNat?, lookup cls with
      | some v, some pad, some e => e.enc v pad t
      | some _, some pad, none => (typedEnc cls pad t).getD "unknown-class"
      | _, _, _ => badRequest
    | _ => badRequest),
  ("pl3.dec", fun
    | [cls, v, a, h, p] => match v.toNat?, a.toNat?, p.toNat?, lookup cls with
      | some v, some pad, some p, some e => withBytes h fun d => e.dec v pad d p
      | some _, some _, some p, none => withBytes h fun d => (typedDec cls d p).getD "unknown-class"
      | _, _, _, _ => badRequest
    | _ => badRequest),
  ("pl3.fmt", fun
    | [s] => match parseFmt s with
      | some fs => okLine (toString (fmtSize fs) ++ "\t" ++
          toString (fs.filter (fun i => match i with | .fld _ => true | .pad _ => false)).length)
      | none => errLine .valueError
    | _ => badRequest)
]

end Driver.Payload3
